/- Driver for C09: recompute every harness line with the model (DIFF) and run the judges (SPECFAIL).
   Times travel as ages relative to "now"; the driver fixes now := noon of the day the harness
   reported at `reset` and turns ages into the absolute times the model works with. -/
import SwV.Common.Drv
import SwV.Model.C09
import SwV.Spec.C09
import SwV.Gen.C09
open SwV.Drv SwV.Model.C08 SwV.Model.C09 SwV.Spec.C09

structure SpecEntry where
  key : Nat
  n : Needle
  /-- the harness set the .dat mtime older than this record's AppendAtNs (cannot happen in operation) -/
  artificial : Bool := false

structure St where
  base : Nat := 1790000000
  vol : Vol := ⟨emptyTTL, 0, [], false, 0⟩
  spec : List SpecEntry := []
  pending : List (Nat × Int) := []
  fstore : FStore := []
  /-- spec side of the filer: key ↦ (crtime of the current incarnation, ttlSec) -/
  fspec : List (Nat × Nat × Nat) := []

def absSec (base : Nat) (age : Int) : Nat := ((base : Int) - age).toNat

def judgeOut (n : Nat) (j : Option String) (detail : String) : List String :=
  match j with
  | none => []
  | some cls => [specfail n cls detail]

def readResultStr : ReadResult → String
  | .ok => "ok" | .notfound => "notfound" | .novol => "novol"

def hbStr : HbResult → String
  | .listed => "listed" | .expired => "expired" | .deleted => "deleted" | .novol => "novol"

def insertSorted (k : Nat) : List Nat → List Nat
  | [] => [k]
  | x :: xs => if k ≤ x then k :: x :: xs else x :: insertSorted k xs

def sortNats (l : List Nat) : List Nat := l.foldr insertSorted []

def step (st : St) (n : Nat) (ln : Line) : St × List String :=
  let a := ln.args
  let o := ln.outs
  let nowNs := st.base * nsPerSec
  match ln.op with
  | "sec2ttl" =>
    let s := tokInt (a.getD 0 "")
    let str := SwV.Gen.C09.SecondsToTTL s
    let (t, ok) := readTTL str.toList
    let model := if ok then [hexOfStr str, toString t.count, toString t.unit, toString (ttlMinutes t)] else [hexOfStr str, "err"]
    -- tie to the regenerated TTL.Minutes as well
    let g := SwV.Gen.C09.TTL_Minutes t.count t.unit
    let gdiff := if ok ∧ toString g ≠ o.getD 3 "" then [s!"DIFF {n} sec2ttl(gen-minutes) gen={g} impl={o.getD 3 ""}"] else []
    let implMin := tokNat (o.getD 3 "0")
    let cov :=
      if s ≤ 0 then "COV sec2ttl.nonpositive"
      else if ttlMinutes t = 0 then "COV sec2ttl.forever"
      else if 60 * ttlMinutes t = s.toNat then "COV sec2ttl.exact"
      else if 60 * ttlMinutes t < s.toNat then "COV sec2ttl.rounded-down" else "COV sec2ttl.rounded-up"
    (st, diff n ln model ++ gdiff ++ judgeOut n (sec2ttlJudge s implMin) (a.getD 0 "") ++ [cov])
  | "resetf" => ({ st with fstore := [], fspec := [] }, diff n ln ["ok"])
  | "fput" =>
    let key := tokNat (a.getD 0 ""); let ttl := tokNat (a.getD 1 "0")
    let crt := absSec st.base (tokInt (a.getD 2 "0")); let mt := absSec st.base (tokInt (a.getD 3 "0"))
    let chunk : Chunk := ⟨(readTTL (SwV.Gen.C09.SecondsToTTL ttl).toList).1, nowNs⟩
    let old := (ffind st.fstore nowNs key).1
    let chunks := (match old with | some o => o.chunks | none => []) ++ [chunk]
    let fs' := fput st.fstore nowNs key ⟨ttl, crt, mt, chunks⟩
    -- spec: a new incarnation starts when there is none or the previous one is due; otherwise Crtime stays
    let sp' := match st.fspec.find? (·.1 = key) with
      | some (_, c0, t0) => if entryDue t0 c0 nowNs then (key, crt, ttl) else (key, c0, ttl)
      | none => (key, crt, ttl)
    ({ st with fstore := fs', fspec := sp' :: st.fspec.filter (·.1 ≠ key) }, diff n ln ["ok"] ++
      [if old.isSome then "COV filer.update-keeps-crtime" else "COV filer.create"])
  | "ffind" =>
    let key := tokNat (a.getD 0 "")
    let (r, fs') := ffind st.fstore nowNs key
    let model := match r with
      | some e => ["visible", toString e.ttlSec, toString e.chunks.length]
      | none => ["notfound"]
    let implVisible := o.getD 0 "" == "visible"
    let j := match st.fspec.find? (·.1 = key) with
      | some (_, c0, t0) => visibilityJudge t0 c0 nowNs implVisible
      | none => none
    let cov := match flookup st.fstore key with
      | some e => if entryVisible e nowNs then "COV filer.visible"
                  else if nowNs ≤ (e.mtime + e.ttlSec) * nsPerSec then "COV filer.expired-with-fresh-mtime" else "COV filer.expired"
      | none => "COV filer.absent"
    ({ st with fstore := fs' }, diff n ln model ++ judgeOut n j s!"key={key}" ++ [cov])
  | "flist" =>
    let vis := flist st.fstore nowNs
    let keys := sortNats (vis.map (·.1))
    let model := [if keys.isEmpty then "-" else String.intercalate "," (keys.map toString)]
    let implKeys := if o.getD 0 "-" == "-" then [] else (o.getD 0 "").splitOn ","
    let js := st.fspec.flatMap fun (k, c0, t0) => judgeOut n (visibilityJudge t0 c0 nowNs (implKeys.contains (toString k))) s!"list key={k}"
    let cov := st.fstore.map fun ke => if entryVisible ke.2 nowNs then "COV filer.list-visible"
      else if nowNs ≤ (ke.2.mtime + ke.2.ttlSec) * nsPerSec then "COV filer.list-expired-with-fresh-mtime" else "COV filer.list-expired"
    ({ st with fstore := vis }, diff n ln model ++ js ++ cov)
  | "reset" =>
    let (t, ok) := readTTL (tokChars (a.getD 0 "-"))
    let base := tokNat (o.getD 1 "20717") * 86400 + 43200
    let st' : St := { base := base, vol := ⟨t, 0, [], true, 2 ^ 30⟩, spec := [], pending := [] }
    (st', diff n ln [okErr ok, o.getD 1 ""] ++ [if ttlMinutes t = 0 then "COV reset.no-ttl-volume" else "COV reset.ttl-volume"]
      ++ (if 2 ^ 32 ≤ ttlMinutes t * 60 then ["COV reset.volume-ttl-seconds-overflow-uint32"] else []))
  | "put" =>
    let key := tokNat (a.getD 0 "")
    let (t, _) := readTTL (tokChars (a.getD 1 "-"))
    let hasLM := a.getD 2 "" == "1"
    let lm := absSec st.base (tokInt (a.getD 3 "0"))
    let vol' := SwV.Model.C09.step st.vol nowNs (.put key t hasLM lm)
    match lookup vol' key with
    | none => (st, diff n ln ["err"])
    | some nd =>
      let model := ["ok", if nd.hasTtl then "1" else "0", toString nd.ttl.count, toString nd.ttl.unit]
      ({ st with vol := vol', spec := ⟨key, nd, false⟩ :: st.spec }, diff n ln model ++
        [if t = emptyTTL ∧ nd.hasTtl then "COV put.inherits-volume-ttl" else if nd.hasTtl then "COV put.own-ttl" else "COV put.no-ttl"])
  | "age" =>
    ({ st with pending := (tokNat (a.getD 0 ""), tokInt (a.getD 1 "0")) :: st.pending }, diff n ln ["ok"])
  | "reopen" =>
    let mtime := absSec st.base (tokInt (a.getD 0 "0"))
    let vol1 := st.pending.foldr (fun (p : Nat × Int) v => setAppend v p.1 (absSec st.base p.2 * nsPerSec)) st.vol
    let spec1 := st.spec.map fun e =>
      let nd := match st.pending.find? (·.1 = e.key) with
        | some p => { e.n with appendNs := absSec st.base p.2 * nsPerSec }
        | none => e.n
      { e with n := nd, artificial := decide ((mtime + lmSlack) * nsPerSec < nd.appendNs) }
    let vol2 := SwV.Model.C09.step vol1 nowNs (.reload mtime)
    ({ st with vol := vol2, spec := spec1, pending := [] }, diff n ln ["ok"] ++ ["COV reopen"])
  | "read" =>
    let key := tokNat (a.getD 0 "")
    let r := read st.vol key nowNs
    let implOk := o.getD 0 "" == "ok"
    let present := (lookup st.vol key).isSome
    let j := match st.spec.find? (·.key = key) with
      | none => none
      | some e =>
        let volGone := o.getD 0 "" == "novol"
        if volGone ∧ e.artificial then none else readJudge st.vol.ttl e.n nowNs implOk present volGone
    let cov := match r, lookup st.vol key with
      | .ok, some nd => if (promisedNs nd).isSome then "COV read.ok-within-ttl" else "COV read.ok-no-ttl"
      | .notfound, some _ => "COV read.expired"
      | .notfound, none => "COV read.compacted-away"
      | .novol, _ => "COV read.volume-deleted"
      | _, _ => "COV read.other"
    (st, diff n ln [readResultStr r] ++ judgeOut n j s!"key={key}" ++ [cov])
  | "compact" =>
    if !st.vol.alive then (st, diff n ln ["novol"]) else
    let vol' := SwV.Model.C09.step st.vol nowNs .compact
    let dropped := st.vol.needles.filter fun kn => vacuumDrops st.vol.ttl kn.2 st.base
    let cov := dropped.map fun kn => if readable kn.2 nowNs then "COV compact.dropped-readable" else "COV compact.dropped-expired"
    (({ st with vol := vol' }), diff n ln ["ok"] ++ cov ++ (if vol'.needles.isEmpty then [] else ["COV compact.kept"]))
  | "hb" =>
    let d := hbDecision st.vol st.base
    let vol' := SwV.Model.C09.step st.vol nowNs .heartbeat
    (({ st with vol := vol' }), diff n ln [hbStr d] ++ ["COV hb." ++ hbStr d])
  | _ => (st, [s!"DIFF {n} unknown-op {ln.op}"])

def main : IO Unit := run { init := ({} : St), step := step }
