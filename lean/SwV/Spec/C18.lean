/-
C18 — specification side: the abstract namespace (a well-formed tree of paths), the abstract
effect of delete and rename, and the judge run by the driver over the IMPLEMENTATION's dump.
-/
import SwV.Model.C18
import SwV.Spec.C18Run
namespace SwV.Spec.C18
open SwV.Model.C18 SwV.Spec.C18Run

/-- p lies in the subtree rooted at r, r included (paths are reversed: r is a suffix of p) -/
def under (r p : RPath) : Bool := r.isSuffixOf p

/-- parent-closed: every stored path is below the root, and its parent is the root or a stored directory -/
def wellFormed (l : List (RPath × Entry)) : Bool :=
  l.all fun x => match x.1 with
    | [] => false
    | _ :: par => par.isEmpty || ((lookup par l).map (·.isDir)).getD false

/-- abstract effect of deleting the subtree at p -/
def specDelete (l : List (RPath × Entry)) (p : RPath) : List (RPath × Entry) :=
  l.filter fun x => !under p x.1

/-- re-root a path of the subtree at src to dst -/
def reroot (src dst p : RPath) : RPath := p.take (p.length - src.length) ++ dst

/-- abstract effect of renaming src to a dst that is not there: the subtree is re-rooted, nothing else moves -/
def specRename (l : List (RPath × Entry)) (src dst : RPath) : List (RPath × Entry) :=
  l.map fun x => if under src x.1 then (reroot src dst x.1, x.2) else x

def subset (a b : List (RPath × Entry)) : Bool := a.all fun x => b.contains x
def sameSet (a b : List (RPath × Entry)) : Bool := subset a b && subset b a

def hasChildren (l : List (RPath × Entry)) (p : RPath) : Bool :=
  l.any fun x => match x.1 with
    | [] => false
    | _ :: par => par == p

def opName : Op → String
  | .create .. => "create" | .update .. => "update" | .write .. => "write" | .link .. => "link"
  | .delete .. => "delete" | .unlink .. => "unlink" | .rename .. => "rename"

def opText : Op → String
  | .create p e _ => s!"create {tokOfPath p} {if e.isDir then "d" else "f"}"
  | .update p e => s!"update {tokOfPath p} {if e.isDir then "d" else "f"}"
  | .write p _ _ => s!"write {tokOfPath p}"
  | .link a b h => s!"link {tokOfPath a} {tokOfPath b} {h}"
  | .delete p r _ d => s!"delete {tokOfPath p} rec={r} data={d}"
  | .unlink p => s!"unlink {tokOfPath p}"
  | .rename a b => s!"rename {tokOfPath a} {tokOfPath b}"

/-- delete clauses: a non-recursive delete of a non-empty directory is refused and changes nothing;
    a successful delete removes exactly the subtree; a failed one changes nothing -/
def judgeDelete (pre post : List (RPath × Entry)) (p : RPath) (recursive : Bool) (res : Res) : List String :=
  let nonEmptyDir := ((lookup p pre).map (·.isDir)).getD false && hasChildren pre p
  if !recursive && nonEmptyDir then
    (if res == .ok then ["delete/nonempty-nonrecursive-not-refused"]
     else if !sameSet pre post then ["delete/refused-but-changed"] else [])
  else if res == .ok then
    (if sameSet post (specDelete pre p) then [] else ["delete/not-exactly-the-subtree"])
  else if !sameSet pre post then ["delete/failed-but-changed"] else []

/-- a path and all its ancestors, the root included (paths are reversed: the suffixes) -/
def upwards : RPath → List RPath
  | [] => [[]]
  | n :: par => (n :: par) :: upwards par

/-- `rename src dst` with `dst` an ancestor of `src`: the image `p` of a moved entry falls back into the source subtree
    ONTO something the source already holds — it is the source path itself, or it (or a directory on the way to it) is a
    path stored strictly below the source before the rename. These are the only images the recorded finding
    `rename/onto-ancestor-loses-entries` is about (the child named like the source that is deleted as "the old entry",
    and names colliding below it that are overwritten and moved on with the stale listed copy). -/
def collidesWithSource (pre : List (RPath × Entry)) (src p : RPath) : Bool :=
  p == src || (upwards p).any fun q => under src q && q != src && (lookup q pre).isSome

/-- the moved entries that are not (or not with their kind / content) at their image afterwards -/
def lostEntries (pre post : List (RPath × Entry)) (src dst : RPath) : List (RPath × Entry) :=
  (pre.filter fun x => under src x.1).filter fun x =>
    match lookup (reroot src dst x.1) post with
    | none => true
    | some e => e.isDir != x.2.isDir || (x.2.hl == 0 && (e.chunks != x.2.chunks || e.tag != x.2.tag))

/-- … of these, the ones the recorded finding does not account for: the image is a path the source never held, so
    nothing can have overwritten it or removed it as "the old entry" — the entry was destroyed after it had been moved -/
def lostBeyondKnown (pre post : List (RPath × Entry)) (src dst : RPath) : List (RPath × Entry) :=
  (lostEntries pre post src dst).filter fun x => !collidesWithSource pre src (reroot src dst x.1)

/-- rename clauses -/
def judgeRename (pre post : List (RPath × Entry)) (src dst : RPath) (res : Res) : List String :=
  if src == dst then (if sameSet pre post then [] else ["rename/onto-itself-changed"])
  else if under src dst && ((lookup src pre).map (·.isDir)).getD false then
    -- a directory into itself or one of its descendants: must be refused, nothing changed
    (if res == .err && sameSet pre post then [] else ["rename/into-own-subtree-not-refused"])
  else if res == .ok then
    let moved := pre.filter fun x => under src x.1
    let image := fun (p : RPath) => moved.any fun y => reroot src dst y.1 == p
    let lost := !(lostEntries pre post src dst).isEmpty
    let remains := post.any fun x => under src x.1 && !image x.1
    let others := pre.any fun x => !under src x.1 && !image x.1 && lookup x.1 post != some x.2
    let invented := post.any fun x => !image x.1 && (lookup x.1 pre).isNone && !under x.1 dst
    if under dst src then
      -- onto an ancestor of the source: the images of the subtree overlap the subtree itself (known defect family:
      -- colliding names are overwritten with stale listed copies or deleted as "the old entry")
      -- … but only for images that collide with the source subtree itself; a moved entry whose image is a fresh path
      -- and that is gone all the same is a loss of its own class
      (if lost || remains || others || invented then ["rename/onto-ancestor-loses-entries"] else [])
      ++ (if !(lostBeyondKnown pre post src dst).isEmpty then ["rename/more-entries-lost-than-known"] else [])
    else
    (if lost then ["rename/subtree-entry-lost"] else [])
    ++ (if remains then ["rename/source-not-removed"] else [])
    ++ (if others || invented then ["rename/unrelated-entries-changed"] else [])
  else []

/-- A rename src → dst during which another client created the file `late` (below src; `created` = that create was
    carried out). Whatever order the two requests are given, nothing may be lost: the late file is stored afterwards, under its own path or — moved along —
    under its image; and every file the source subtree held is stored under its old path or under its image (a rename
    that fails half-way may leave some moved and some not). -/
def judgeRenameLate : LateJudge := fun pre src dst late created obs =>
  if !obs.complete then [] else
  let post := obs.post.ents
  let txt := s!"renamelate {tokOfPath src} {tokOfPath dst} late={tokOfPath late}"
  let stored := fun (p : RPath) => (lookup p post).isSome
  let lateLost := created && !stored late && !(under src late && stored (reroot src dst late))
  let movedLost := (pre.ents.filter fun x => under src x.1 && !x.2.isDir).any fun x =>
    !stored x.1 && !stored (reroot src dst x.1)
  (if lateLost then [("rename/entry-created-meanwhile-lost", txt)] else [])
  ++ (if movedLost then [("rename/concurrent-create-loses-moved-entry", txt)] else [])

def judge : Judge := fun pre op obs =>
  let txt := opText op
  if !obs.complete then
    match op with
    | .rename src dst =>
      if under src dst && src != dst then [("rename/into-own-subtree-not-refused", txt ++ " (unbounded recursion)")]
      else [("rename/diverges", txt)]
    | _ => [(opName op ++ "/diverges", txt)]
  else
  let post := obs.post.ents
  let wf := if wellFormed pre.ents && !wellFormed post then [(opName op ++ "/tree-broken", txt)] else []
  let flip := if pre.ents.any (fun x => match lookup x.1 post with
      | some e => e.isDir != x.2.isDir
      | none => false) then [(opName op ++ "/type-flip", txt)] else []
  let specific : List String := match op with
    | .delete p r _ _ => judgeDelete pre.ents post p r obs.res
    | .unlink p => judgeDelete pre.ents post p false obs.res
    | .rename src dst => judgeRename pre.ents post src dst obs.res
    | _ => []
  wf ++ flip ++ specific.map fun c => (c, txt)

end SwV.Spec.C18
