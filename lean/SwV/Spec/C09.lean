/-
C09 — specification side: what a user is promised, and the judges (executable forms, run by
the driver over the IMPLEMENTATION's outputs).

Promise: a blob stored with TTL `m` minutes (`m ≠ 0`) at time `t0` is returned by reads exactly
while `now < t0 + m·60 s`; a blob without TTL is returned until it is deleted. Nothing but the
passing of its own TTL takes a blob away: not compaction, not the expiry of its volume.
A filer TTL of `s` seconds must be stored in a volume whose TTL lasts at least `s` seconds.
-/
import SwV.Model.C09
namespace SwV.Spec.C09
open SwV.Model.C08 SwV.Model.C09

/-- promised lifetime in nanoseconds; `none` = no expiry promised (lives until deleted) -/
def promisedNs (n : Needle) : Option Nat :=
  if n.hasTtl ∧ ttlMinutes n.ttl ≠ 0 then some (ttlMinutes n.ttl * 60 * nsPerSec) else none

/-- the spec's read: the blob written at `n.appendNs` is visible at `nowNs` -/
def live (n : Needle) (nowNs : Nat) : Bool :=
  match promisedNs n with
  | none => true
  | some d => decide (nowNs < n.appendNs + d)

/-- seconds by which LastModified may precede the append second before the judge calls it
    "client-supplied" (the harness keeps every decision ≥ 120 s from its edge) -/
def lmSlack : Nat := 60

/-- Why did a still-live blob disappear? (a TTL of 0 minutes never expires, so it counts as longer than any volume TTL) One class per distinct cause; a cause that is not one
    of the recorded defects gets the generic class (⇒ VIOLATION). `byDeletion` = the whole
    volume is gone (expiry), otherwise compaction dropped the record. -/
def removalClass (byDeletion : Bool) (volTtl : TTL) (n : Needle) : String :=
  let who := if byDeletion then "expiry" else "compact"
  if !byDeletion ∧ ttlMinutes volTtl = 0 then "compact/ttl-needle-on-non-ttl-volume"
  else if !byDeletion ∧ 2 ^ 32 ≤ ttlMinutes volTtl * 60 then "compact/volume-ttl-seconds-overflow-uint32"
  else if ttlMinutes n.ttl = 0 ∨ ttlMinutes volTtl < ttlMinutes n.ttl then who ++ "/needle-ttl-longer-than-volume-ttl"
  else if (n.lm + lmSlack) * nsPerSec < n.appendNs then who ++ "/last-modified-older-than-append"
  else who ++ "/removes-unexpired-needle"

/-- Judge of one read. `present` = the record is still in the volume (not compacted away);
    `volGone` = the volume was deleted by expiry. Needles without the LastModified flag are outside
    the domain (the upload path always sets it). -/
def readJudge (volTtl : TTL) (n : Needle) (nowNs : Nat) (implOk : Bool) (present volGone : Bool) : Option String :=
  if !n.hasLM then none
  else if live n nowNs then
    if implOk then none
    else if volGone then some (removalClass true volTtl n)
    else if present then some "read/expired-before-ttl"
    else some (removalClass false volTtl n)
  else
    if implOk then some "read/readable-after-ttl" else none

/-- Filer clause: the volume TTL chosen for `s` seconds lasts at least `s` seconds
    (`minutes = 0` means the data never expires, which also covers it). -/
def secondsCovered (s minutes : Nat) : Bool := minutes = 0 || decide (s ≤ 60 * minutes)

def sec2ttlJudge (s : Int) (minutes : Nat) : Option String :=
  if s ≤ 0 then none
  else if secondsCovered s.toNat minutes then none else some "sec2ttl/rounds-down"

/-! ## Filer clause: "an entry that is still visible never points at expired data" -/

/-- the TTL promise of an entry: created at `crtime` with `ttlSec` seconds — it, and with it its first chunk, is
    due at `crtime + ttlSec`; later modifications do not extend it -/
def entryDue (ttlSec crtime : Nat) (nowNs : Nat) : Bool :=
  ttlSec ≠ 0 && decide ((crtime + ttlSec) * nsPerSec < nowNs)

/-- Judge of one visibility observation (FindEntry or listing) of an entry whose current incarnation was created at
    `crtime` with TTL `ttlSec`. -/
def visibilityJudge (ttlSec crtime nowNs : Nat) (implVisible : Bool) : Option String :=
  if entryDue ttlSec crtime nowNs then
    (if implVisible then some "filer/entry-visible-after-ttl" else none)
  else
    (if implVisible then none else some "filer/entry-expired-before-ttl")

end SwV.Spec.C09
