/-
C35 — specification side: the reference a client relies on.  Per volume, the set of
locations currently added, keyed by url, in order of first announcement; a volume that
was never announced is not found.
-/
import SwV.Model.C35
namespace SwV.Spec.C35
open SwV.Model.C35

abbrev Ref := Nat → Option (List Loc)

def refAdd (m : Ref) (vid : Nat) (loc : Loc) : Ref := fun v =>
  if v = vid then
    match m vid with
    | none => some [loc]
    | some l => if hasUrl l loc.url then some l else some (l ++ [loc])
  else m v

def refDel (m : Ref) (vid : Nat) (u : String) : Ref := fun v =>
  if v = vid then (m vid).map (fun l => l.filter (fun x => x.url != u)) else m v

def refApply (m : Ref) : Op → Ref
  | .add v l => refAdd m v l
  | .del v u => refDel m v u
  | .hold _ => m

def denote (ops : List Op) : Ref := ops.foldl refApply (fun _ => none)

/-- "same data center" as `LookupVolumeServerUrl` decides it -/
def sameDc (dc : String) (loc : Loc) : Bool := !(dc == "" || loc.dc == "" || dc != loc.dc)

/-! ### judges (set semantics: order inside the groups is not part of the property) -/

def sameSet (a b : List String) : Bool := a.all (b.contains ·) && b.all (a.contains ·)

def hasDup : List String → Bool
  | [] => false
  | x :: xs => xs.contains x || hasDup xs

/-- `GetLocations` / `LookupVolumeServerUrl`: exactly the added locations, each once; an empty
    set may be reported as found-and-empty or as not-found -/
def setJudge (site : String) (ref : Option (List Loc)) (impl : Option (List String)) : Option String :=
  let want := (ref.getD []).map (·.url)
  match impl with
  | none => if want.isEmpty then none else some (site ++ "/not-found-but-locations-added")
  | some got =>
    if hasDup got then some (site ++ "/duplicate-location")
    else if sameSet got want then none
    else some (site ++ "/not-the-added-set")

/-- all same-DC urls come before all others -/
def dcFirstJudge (dc : String) (ref : List Loc) (got : List String) : Option String :=
  let isSame (u : String) : Bool := ref.any (fun l => l.url == u && sameDc dc l)
  let rest := got.dropWhile isSame
  if rest.any isSame then some "LookupVolumeServerUrl/same-dc-not-first" else none

/-- a kept slice: must not show a location twice, and must still show every location that
    was in it and has not been removed since -/
def heldJudge (snapshot : List Loc) (deletedSince : List String) (now : List String) : Option String :=
  if hasDup now then some "GetLocations/returned-slice-shows-duplicate-after-delete"
  else if snapshot.any (fun l => !deletedSince.contains l.url && !now.contains l.url) then
    some "GetLocations/returned-slice-lost-entry"
  else none

end SwV.Spec.C35
