/-
C40 — specification side: when an upload or delete is reported successful, every replica holds the same
outcome for that file id: the same decoded content, name, mime, pairs, last-modified time, TTL (and chunk-manifest
flag) — or the same deletion.
-/
import SwV.Model.C40
namespace SwV.Spec.C40
open SwV.Model.C33 SwV.Model.C40

def success (s : Status) : Bool := s == .created || s == .unchanged || s == .deleted

/-- all replicas hold the same view of key `k` -/
def Agree (c : Codec) (nodes : List Node) (k : Nat) : Prop :=
  ∀ a ∈ nodes, ∀ b ∈ nodes, (a.get k).map (view c) = (b.get k).map (view c)

/-- judge over the implementation's dumps (one optional view per replica; `lm` already printed relative to the primary) -/
structure Dump where
  present : Bool
  content : String
  name : String
  mime : String
  pairs : String
  lm : String
  ttl : String
  cm : String
deriving DecidableEq, Repr

def firstDifference (a b : Dump) : Option String :=
  if a.present != b.present then some "presence"
  else if !a.present then none
  else if a.content != b.content then some "content"
  else if a.name != b.name then some "name"
  else if a.mime != b.mime then some "mime"
  else if a.pairs != b.pairs then some "pairs"
  else if a.lm != b.lm || a.lm == "o" then some "last-modified"
  else if a.ttl != b.ttl then some "ttl"
  else if a.cm != b.cm then some "chunk-manifest-flag"
  else none

/-- the stale-record signature: the two replicas hold records of different uploads (their last-modified stamps differ) -/
def differentUploads (a b : Dump) : Bool := a.present && b.present && (a.lm != b.lm || a.lm == "o")

def agreeJudge (op : String) (ok : Bool) (_unchanged : Bool := false) (ds : List Dump) : Option String :=
  if !ok then none else
  match ds with
  | [] => none
  | p :: rest =>
    match rest.findSome? (fun d => (firstDifference p d).map fun w => (w, differentUploads p d)) with
    | none => none
    | some (what, stale) =>
      -- isFileUnchanged keeps the OLD needle (old name, pairs, stamp, ttl, flag) on the replicas whose stored bytes equal the
      -- new ones while the others rewrite it: one defect, recognisable by the differing stamps. A field that differs between
      -- records of the SAME upload is something else and gets its own class.
      if what == "presence" || what == "content" || what == "mime" then some s!"{op}/replicas-differ-in-{what}"
      else if stale then some s!"{op}/replicas-differ-in-metadata-of-unchanged-bytes"
      else some s!"{op}/replicas-differ-in-{what}"

end SwV.Spec.C40
