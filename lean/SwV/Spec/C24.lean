/-
C24 — specification side: what a reader may rely on after a write.

`canonId` is the canonical form of a file id string (the string every reader sees): a string that
parses is replaced by the formatted value it denotes, any other string is kept.  `sameEntry`
compares a read entry with the written one: all opaque fields equal, mime equal up to the
documented default, every chunk's EFFECTIVE file id (`GetFileIdString`) equal to the canonical
form of the written one, payloads equal.
-/
import SwV.Model.C24
namespace SwV.Spec.C24
open SwV.Model.C08 SwV.Model.C24

def canonId (s : List Char) : List Char :=
  match parseFid s with
  | some g => fidString g
  | none => s

/-- the id the WRITER meant: the string if given, else the object -/
def writtenId (s : List Char) (f : Option Fid) : List Char :=
  if s ≠ [] then canonId s else match f with
    | some g => fidString g
    | none => []

def canonMime (m : List Char) : List Char := if m = octetStream then [] else m

def sameChunk (w r : Chunk) : Bool :=
  effId r.fileId r.fid = writtenId w.fileId w.fid ∧
  effId r.srcFileId r.srcFid = writtenId w.srcFileId w.srcFid ∧ r.payload = w.payload

def sameChunks : List Chunk → List Chunk → Bool
  | [], [] => true
  | w :: ws, r :: rs => sameChunk w r && sameChunks ws rs
  | _, _ => false

/-- THE SPEC: `r` (read back) is what `w` (written) denotes -/
def sameEntry (w r : Entry) : Bool :=
  r.attrs = w.attrs ∧ r.mode = w.mode ∧ r.mime = canonMime w.mime ∧ r.tail = w.tail ∧ sameChunks w.chunks r.chunks

/-- judge of one read; class by what differs -/
def readJudge (site : String) (w r : Entry) : Option String :=
  if sameEntry w r then none
  else if hardLinkId w ≠ "-" ∧ site = "Filer.ListDirectoryEntries" then some "Filer.ListDirectoryEntries/hard-link-not-resolved"
  else if r.attrs ≠ w.attrs ∨ r.mode ≠ w.mode ∨ r.mime ≠ canonMime w.mime then some (site ++ "/attributes-differ")
  else if r.tail ≠ w.tail then some (site ++ "/extended-hardlink-content-remote-differ")
  else if r.chunks.length ≠ w.chunks.length then some (site ++ "/chunk-count-differs")
  else some (site ++ "/chunk-file-id-or-payload-differs")

end SwV.Spec.C24
