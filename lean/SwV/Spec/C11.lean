/-
C11 — spec side.  What a client of the master relies on:

  writable_ok   a volume id is offered for writes (is in a layout's `writables`) only if every
                registered replica is writable, the number of registered locations matches the
                replication setting (or exceeds it when replication-as-minimum is on), and the master
                does not already know it to be full;
  lookup_exact  a lookup returns exactly the servers the volume is currently registered on.

`Obs` is the observable state as the harness prints it after every call (counters of all levels,
registered volumes/shards per disk, layouts, EC shard map, lookup answers); the judges below are
the executable form of the two statements, evaluated on the IMPLEMENTATION's observable state.
The Prop-level forms over the model state are `WritableOk` / `LookupExact` (proved in Props/C11).
-/
import SwV.Model.C11
namespace SwV.Spec.C11
open SwV.Model.C11

/-! ## observable state -/

structure ObsDisk where
  s : Nat
  t : Nat
  c : Counts × Counts
  vols : List (Nat × Nat × Bool × Bool)   -- vid, size, readOnly, remote
  ecs : List (Nat × Nat)                   -- vid, shard bits
deriving Repr, Inhabited

structure ObsLayout where
  key : Key
  wr : List Nat
  locs : List (Nat × List Nat)
  ov : List Nat
deriving Repr, Inhabited

structure Obs where
  topo : Counts × Counts := ({}, {})
  dcs : List (Nat × (Counts × Counts)) := []
  racks : List (Nat × Nat × (Counts × Counts)) := []
  nodes : List (Nat × (Counts × Counts)) := []
  disks : List ObsDisk := []
  layouts : List ObsLayout := []
  ecmap : List (Nat × List (Nat × List Nat)) := []
  lookups : List (Nat × List Nat) := []
deriving Repr, Inhabited

def pInt (s : String) : Int := s.toInt?.getD 0
def pNat (s : String) : Nat := s.toNat?.getD 0
def pList (s : String) (sep : String) : List String := if s == "-" || s == "" then [] else s.splitOn sep
def pNats (s : String) (sep : String) : List Nat := (pList s sep).map pNat

def pCounts1 (s : String) : Counts :=
  match s.splitOn "," with
  | [a, b, c, d] => ⟨pInt a, pInt b, pInt c, pInt d⟩
  | _ => {}
def pCounts (s : String) : Counts × Counts :=
  match s.splitOn "/" with
  | [a, b] => (pCounts1 a, pCounts1 b)
  | _ => ({}, {})

/-- one output token of the harness into the observation -/
def addTok (o : Obs) (tok : String) : Obs :=
  match tok.splitOn "=" with
  | [l, r] =>
    let tag := l.take 1 |>.toString
    let ids := ((l.drop 1).toString.splitOn ".").map pNat
    if tag == "T" then { o with topo := pCounts r }
    else if tag == "D" then { o with dcs := o.dcs ++ [(ids.getD 0 0, pCounts r)] }
    else if tag == "R" then { o with racks := o.racks ++ [(ids.getD 0 0, ids.getD 1 0, pCounts r)] }
    else if tag == "N" then { o with nodes := o.nodes ++ [(ids.getD 0 0, pCounts r)] }
    else if tag == "K" then
      match r.splitOn "|" with
      | [c, vs, es] =>
        let vols := (pList vs ";").map fun e =>
          match e.splitOn ":" with
          | [a, b, c, d] => (pNat a, pNat b, c == "1", d == "1")
          | _ => (0, 0, false, false)
        let ecs := (pList es ";").map fun e =>
          match e.splitOn ":" with
          | [a, b] => (pNat a, pNat b)
          | _ => (0, 0)
        { o with disks := o.disks ++ [⟨ids.getD 0 0, ids.getD 1 0, pCounts c, vols, ecs⟩] }
      | _ => o
    else if tag == "L" then
      match r.splitOn "|" with
      | [ws, ls, ovs] =>
        let locs := (pList ls ";").map fun e =>
          match e.splitOn "@" with
          | [a, b] => (pNat a, pNats b "+")
          | _ => (0, [])
        { o with layouts := o.layouts ++ [⟨⟨ids.getD 0 0, ids.getD 1 0, ids.getD 2 0, ids.getD 3 0⟩, pNats ws ",", locs, pNats ovs ","⟩] }
      | _ => o
    else if tag == "E" then
      let shards := (pList r ";").map fun e =>
        match e.splitOn "@" with
        | [a, b] => (pNat a, pNats b "+")
        | _ => (0, [])
      { o with ecmap := o.ecmap ++ [(ids.getD 0 0, shards)] }
    else if tag == "Q" then
      { o with lookups := (pList r ";").map fun e =>
          match e.splitOn "@" with
          | [a, b] => (pNat a, pNats b "+")
          | _ => (0, []) }
    else o
  | _ => o

def parseObs (toks : List String) : Obs := toks.foldl addTok {}

/-! ## derived facts of an observation -/

/-- servers on which `vid` is registered as a normal volume, with the registered (size, ro) -/
def Obs.holders (o : Obs) (vid : Nat) : List (Nat × Nat × Bool) :=
  o.disks.flatMap fun d => d.vols.filterMap fun (v, size, ro, _) => if v = vid then some (d.s, size, ro) else none

/-- servers on which EC shards of `vid` are registered -/
def Obs.ecHolders (o : Obs) (vid : Nat) : List Nat :=
  o.disks.filterMap fun d => if d.ecs.any (fun (v, bits) => v = vid ∧ bits ≠ 0) then some d.s else none

def sameSet (a b : List Nat) : Bool := a.all b.contains && b.all a.contains

/-- the master knows the volume to be full: some registered replica reports size ≥ limit -/
def Obs.full (o : Obs) (limit vid : Nat) : Bool := (o.holders vid).any fun (_, size, _) => size ≥ limit

/-- servers listed in the EC shard map for `vid` -/
def Obs.ecMapServers (o : Obs) (vid : Nat) : List Nat :=
  (o.ecmap.filter fun e => e.1 = vid).flatMap fun e => e.2.flatMap (·.2)

/-- EC registrations (vid, server) that stayed in the shard map when the server disconnected and
    have not been replaced since: `prev` filtered by what is still observable, plus those of `justDisc` -/
def staleEcNext (o : Obs) (nVid : Nat) (prev : List (Nat × Nat)) (justDisc : Option Nat) : List (Nat × Nat) :=
  let added := match justDisc with
    | none => []
    | some s => (List.range (nVid + 1)).filterMap fun vid => if (o.ecMapServers vid).contains s then some (vid, s) else none
  (prev ++ added).eraseDups.filter fun (vid, s) => (o.ecMapServers vid).contains s && !(o.ecHolders vid).contains s

/-! ## what the servers said (inputs only) and what the master was told at registration -/

/-- `told` = the (server, vid) pairs of the volumes each connected server holds according to its own
    messages: a full heartbeat replaces the server's set, an incremental message adds / removes,
    a disconnect forgets the server.  Computed from the INPUTS of the trace lines only. -/
def toldNext (told : List (Nat × Nat)) (up : Nat → Bool) (op : Op) : List (Nat × Nat) :=
  match op with
  | .full s vs => if !up s then told else (told.filter fun e => e.1 != s) ++ vs.map fun v => (s, v.id)
  | .inc s ns ds =>
    if !up s then told else
    let t1 := told.filter fun e => !(e.1 == s && ds.any fun v => v.id == e.2)
    t1 ++ (ns.filter fun v => !t1.contains (s, v.id)).map fun v => (s, v.id)
  | .disc s => told.filter fun e => e.1 != s
  | _ => told

/-- servers that (by their own messages) hold `vid` -/
def toldServers (told : List (Nat × Nat)) (vid : Nat) : List Nat :=
  (told.filter fun e => e.2 = vid).map (·.1)

/-- all (server, vid) pairs registered as normal volumes in an observation -/
def Obs.holderPairs (o : Obs) : List (Nat × Nat) :=
  o.disks.flatMap fun d => d.vols.map fun (v, _, _, _) => (d.s, v)

/-- `bornOver` = replicas (server, vid) whose registered size has been at or over the limit ever since
    the server registered them (the master was told "oversized" at registration time — no refresh round
    is needed to know): the replicas at/over the limit now that were in the set before or were not
    registered in the previous observation. -/
def bornOverNext (o : Obs) (limit : Nat) (prevHolders bornOver : List (Nat × Nat)) : List (Nat × Nat) :=
  o.disks.flatMap fun d => d.vols.filterMap fun (v, size, _, _) =>
    if size ≥ limit && (bornOver.contains (d.s, v) || !prevHolders.contains (d.s, v)) then some (d.s, v) else none

/-- volume ids offered for writes although a registered replica is in `bornOver` -/
def offeredBornOver (o : Obs) (bornOver : List (Nat × Nat)) : List Nat :=
  (o.layouts.flatMap fun l => l.wr.filter fun vid => bornOver.any fun e => e.2 = vid).eraseDups

/-- the class of an offered-although-registered-oversized volume is fixed when the violation appears:
    `true` = the volume id was already offered before the oversized replica registered (the oversized
    replica JOINED a writable volume), `false` = it was put into the writables afterwards (the oversized
    registration was not remembered). -/
def overClsNext (offered : List Nat) (prevWr : List Nat) (prev : List (Nat × Bool)) : List (Nat × Bool) :=
  offered.map fun vid =>
    match prev.find? fun e => e.1 = vid with
    | some e => e
    | none => (vid, prevWr.contains vid)

/-- C11 judge: the list of violated facts (kind, detail) in an observation.
    `knownFull` = vids that were full at the last refresh round (the master has processed them);
    `staleEc` = see `staleEcNext`; `told` = see `toldNext` (`none`: not tracked); `overCls` = see `overClsNext`. -/
def judgeC11 (o : Obs) (limit : Nat) (asMin : Bool) (nVid : Nat) (knownFull : List Nat) (staleEc : List (Nat × Nat))
    (told : List (Nat × Nat) := o.holderPairs) (overCls : List (Nat × Bool) := []) : List (String × String) :=
  let w := o.layouts.flatMap fun l => l.wr.flatMap fun vid =>
    let locs := ((l.locs.find? fun e => e.1 = vid).map (·.2)).getD []
    let n := locs.length
    let cc := copyCount l.key.rp
    let hs := o.holders vid
    (if n == cc || (asMin && n > cc) then [] else [("writable-without-enough-copies", s!"vid={vid},locations={n},copies={cc}")])
    ++ (if hs.any (fun (_, _, ro) => ro) then [("writable-with-readonly-replica", s!"vid={vid}")] else [])
    ++ (if knownFull.contains vid && o.full limit vid then [("ensureCorrectWritables/full-volume-offered-again", s!"vid={vid}")] else [])
    -- the size-limit conjunct for replicas the master was told to be oversized when they registered
    ++ (match overCls.find? fun e => e.1 = vid with
        | some (_, true) => [("ensureCorrectWritables/oversized-replica-joins-offered-volume", s!"vid={vid}")]
        | some (_, false) => [("RegisterVolume/oversized-not-remembered", s!"vid={vid}")]
        | none => [])
    -- the replica-count conjunct against what the SERVERS report (a server whose last message says it
    -- no longer holds the volume is not a replica, whatever the master still has registered)
    ++ (let tn := (toldServers told vid).length
        if (n == cc || (asMin && n > cc)) && !(tn == cc || (asMin && tn > cc)) then
          [("writable-without-enough-reported-copies", s!"vid={vid},copies={cc}")] else [])
  let q := (List.range nVid).flatMap fun i =>
    let vid := i + 1
    let got := ((o.lookups.find? fun e => e.1 = vid).map (·.2)).getD []
    let hn := (o.holders vid).map (·.1)
    let want := if hn.isEmpty then o.ecHolders vid else hn
    let extra := got.filter fun x => !want.contains x
    let missing := want.filter fun x => !got.contains x
    let emptyEntry := o.layouts.any fun l => l.locs.any fun e => e.1 = vid ∧ e.2.isEmpty
    (if extra.isEmpty then []
     else if extra.all (fun x => staleEc.contains (vid, x)) then
       [("UnRegisterDataNode/ec-shards-of-disconnected-server-stay-in-lookup", s!"vid={vid},got={got},registered={want}")]
     else [("lookup-returns-unregistered-server", s!"vid={vid},got={got},registered={want}")])
    ++ (if missing.isEmpty then []
     else if got.isEmpty && emptyEntry && hn.isEmpty then
       [("SetVolumeUnavailable/empty-location-list-hides-ec-shards", s!"vid={vid},registered={want}")]
     else [("lookup-misses-registered-server", s!"vid={vid},got={got},registered={want}")])
    -- lookups against what the SERVERS report: a server still registered (and returned) although its
    -- last message says it does not hold the volume, or a reporting server that is not returned
    ++ (let tn := toldServers told vid
        let gone := got.filter fun x => hn.contains x && !tn.contains x
        let unseen := tn.filter fun x => !got.contains x && !hn.contains x
        (gone.map fun x => ("lookup-returns-server-that-reported-volume-gone", s!"vid={vid},server={x}"))
        ++ (unseen.map fun x => ("lookup-misses-reporting-server", s!"vid={vid},server={x}")))
  w ++ q

/-! ## Prop-level statements over the model state -/

/-- every vid in a layout's writables has the right number of locations and only writable located replicas -/
def WritableOk (st : St) : Prop :=
  ∀ k vid, vid ∈ st.wr k →
    enoughCopies st k vid = true ∧
    ∀ s, s ∈ locList st k vid → ∀ v, volOf st s vid = some v → v.ro = false

/-- the location list of a vid in its layout is exactly the set of connected servers that have the volume registered -/
def LookupExact (st : St) (keyOf : Nat → Key) : Prop :=
  ∀ vid s, s ∈ locList st (keyOf vid) vid ↔ (st.conn s = true ∧ ∃ v, volOf st s vid = some v)

end SwV.Spec.C11
