/-
C07 — specification side.  The abstract reading of a sorted index is the list of decoded
entries `(key, offset, size)`; "delete k" means: the entry with key k gets the tombstone size,
nothing else changes, and k is appended to the journal.  The judges are the executable forms
run by the driver over the IMPLEMENTATION's outputs.
-/
import SwV.Model.C07
namespace SwV.Spec.C07
open SwV.Model.C07

structure Entry where
  key : Nat
  off : Nat
  size : Int
deriving DecidableEq, Repr

/-- cut a file into full `w`-byte records -/
def chunks (w : Nat) : Nat → List Nat → List (List Nat)
  | 0, _ => []
  | fuel + 1, bs =>
    let c := bs.take w
    if w = 0 ∨ c.length < w then [] else c :: chunks w fuel (bs.drop w)

def decodeEntry (os : Nat) (e : List Nat) : Entry := ⟨keyOf e, offOf os e, sizeOf os e⟩

def decode (os : Nat) (bs : List Nat) : List Entry :=
  (chunks (entryWidth os) (bs.length + 1) bs).map (decodeEntry os)

def strictlySorted : List Nat → Bool
  | a :: b :: rest => a < b && strictlySorted (b :: rest)
  | _ => true

/-- a well-formed sorted index: whole number of entries, keys strictly increasing -/
def wellFormed (os : Nat) (bs : List Nat) : Bool :=
  bs.length % entryWidth os == 0 && strictlySorted ((decode os bs).map (·.key))

def lookup (es : List Entry) (key : Nat) : Option Entry := es.find? (·.key == key)

/-- the abstract effect of deleting `key` -/
def markSpec (es : List Entry) (key : Nat) : List Entry :=
  es.map fun e => if e.key = key then { e with size := -1 } else e

/-- live set: entries that read as not deleted with a valid (positive) size -/
def liveSet (es : List Entry) : List Entry := es.filter fun e => isValid e.size

/-- judge of `find`/`sget` outputs -/
def findJudge (os : Nat) (file : List Nat) (key : Nat) (res : Option (Nat × Int)) : Option String :=
  if !wellFormed os file then none else
  match lookup (decode os file) key, res with
  | none, none => none
  | some e, some (o, s) => if e.off = o ∧ e.size = s then none else some "FindNeedleFromEcx/wrong-entry"
  | none, some _ => some "FindNeedleFromEcx/found-absent-key"
  | some _, none => some "FindNeedleFromEcx/present-key-not-found"

/-- judge of `del`: exactly that needle marked, journal extended by exactly that key -/
def delJudge (os : Nat) (ecx ecj : List Nat) (key : Nat) (ok : Bool) (ecx' ecj' : List Nat) : Option String :=
  if !wellFormed os ecx then none else
  let es := decode os ecx
  if !ok then some "DeleteNeedleFromEcx/error"
  else if ecx'.length ≠ ecx.length then some "DeleteNeedleFromEcx/index-length-changed"
  else if decode os ecx' ≠ markSpec es key then
    (if (lookup (decode os ecx') key).map (·.size) = (lookup (markSpec es key) key).map (·.size)
     then some "DeleteNeedleFromEcx/other-entry-changed" else some "DeleteNeedleFromEcx/not-marked-deleted")
  else if (lookup es key).isSome then
    (if ecj' = ecj ++ beBytes 8 key then none else some "DeleteNeedleFromEcx/not-journalled")
  else (if ecj' = ecj then none else some "DeleteNeedleFromEcx/journal-changed-for-absent-key")

/-- judge of `rebuild`: original index + journal gives the same live set as the index after the deletes -/
def rebuildJudge (os : Nat) (orig current : List Nat) (ok : Bool) (rebuilt : List Nat) : Option String :=
  if !wellFormed os orig then none else
  if !ok then some "RebuildEcxFile/error"
  else if liveSet (decode os rebuilt) = liveSet (decode os current) then none
  else some "RebuildEcxFile/live-set-differs"

/-- replay of an .idx file as every loader does it (`doLoading`, `MemDb.LoadFromReaderAt`):
    a valid entry with non-zero offset sets, anything else deletes -/
def replayIdx (es : List Entry) : List Entry :=
  es.foldl (fun m e =>
    if e.off ≠ 0 ∧ isValid e.size then (m.filter (·.key ≠ e.key)) ++ [e]
    else m.filter (·.key ≠ e.key)) []

def sortByKey (es : List Entry) : List Entry :=
  es.foldl (fun acc e => (acc.filter (·.key < e.key)) ++ [e] ++ (acc.filter (·.key > e.key))) []

/-- judge of `idx`: the .idx written from ecx + ecj replays to the live set of the current index -/
def idxJudge (os : Nat) (ecx : List Nat) (ok : Bool) (idx : List Nat) : Option String :=
  if !wellFormed os ecx then none else
  if !ok then some "WriteIdxFileFromEcIndex/error"
  else if sortByKey (replayIdx (decode os idx)) = (liveSet (decode os ecx)).filter (·.off ≠ 0) then none
  else some "WriteIdxFileFromEcIndex/live-set-differs"

/-- judge of `sdel` on a sorted-file needle map: a live key must afterwards read as deleted,
    everything else must be unchanged -/
def sdelJudge (os : Nat) (sdx : List Nat) (key : Nat) (ok : Bool) (sdx' : List Nat) : Option String :=
  if !wellFormed os sdx then none else
  let es := decode os sdx
  if decode os sdx' = markSpec es key ∧ ok then none
  else if decode os sdx' = es ∧ (lookup es key).isSome then some "SortedFileNeedleMap.Delete/not-marked-deleted"
  else some "SortedFileNeedleMap.Delete/other-entry-changed"

/-- judge of the .idx side of `sdel`: deleting a live key appends one tombstone record for it and
    keeps every earlier record; anything else leaves the .idx alone -/
def sdelIdxJudge (os : Nat) (sdx idx : List Nat) (key off : Nat) (idx' : List Nat) : Option String :=
  if !wellFormed os sdx then none else
  match lookup (decode os sdx) key with
  | none => if idx' = idx then none else some "SortedFileNeedleMap.Delete/idx-changed-for-absent-key"
  | some e =>
    if isDeleted e.size then (if idx' = idx then none else some "SortedFileNeedleMap.Delete/idx-changed-for-deleted-key")
    else if idx' = idx ++ entryBytes os key off 4294967295 then none
    else if idx'.take idx.length ≠ idx then some "SortedFileNeedleMap.Delete/idx-records-overwritten"
    else some "SortedFileNeedleMap.Delete/tombstone-not-appended"

end SwV.Spec.C07
