/-
C01 — specification side: the key-value store a client of a volume relies on,
the abstraction function from the model's state, the three excluded input classes
(= the known findings), and the judge the driver runs over the IMPLEMENTATION's outputs.
-/
import SwV.Model.C01
namespace SwV.Spec.C01
open SwV.Model.C01

/-- one file id: the cookie it was created with, and its content unless deleted -/
structure Entry where
  cookie : Nat
  val    : Option Content
deriving DecidableEq, Repr

structure KV where
  m      : Nat → Option Entry := fun _ => none
  ro     : Bool := false
  volTtl : Nat × Nat := (0, 0)

def KV.init (ttl : Nat × Nat) : KV := { volTtl := ttl }

def setM (m : Nat → Option Entry) (id : Nat) (e : Entry) : Nat → Option Entry :=
  fun k => if k = id then some e else m k

inductive Out
  | wOk | wRo | wCookie
  | dOk (removed : Bool) | dRo
  | rNotFound | rDeleted | rOk (c : Content)
  | unit
  | http (status : Nat) (body : String)
  | hdel (status : Nat)
  | broken            -- an I/O error path of the model; never produced by the spec
deriving DecidableEq, Repr

/-- The specification: a map `id ↦ (cookie, content) | deleted`.
    * write: rejected on a read-only volume and when the id exists (live or deleted) with
      another cookie; otherwise the id now holds exactly the written content (a needle
      without TTL takes the volume's TTL — that inheritance is part of the contract);
    * delete (storage level, no cookie): removes a live entry;
    * read: the content of a live entry;
    * GET: the data iff the entry is live and the cookie matches (the cookie of an EMPTY blob
      cannot be checked — there is no stored data to protect — so an empty blob reads as empty);
    * DELETE: 404 if not live, 400 on a cookie mismatch, else like delete. -/
def sstep (s : KV) : Op → KV × Out
  | .write id ck c =>
    if s.ro then (s, .wRo) else
    let c1 := inheritTtl s.volTtl c
    match s.m id with
    | some e => if e.cookie ≠ ck then (s, .wCookie) else ({ s with m := setM s.m id ⟨ck, some c1⟩ }, .wOk)
    | none => ({ s with m := setM s.m id ⟨ck, some c1⟩ }, .wOk)
  | .delete id _ =>
    if s.ro then (s, .dRo) else
    match s.m id with
    | some ⟨k, some _⟩ => ({ s with m := setM s.m id ⟨k, none⟩ }, .dOk true)
    | _ => (s, .dOk false)
  | .read id _ =>
    match s.m id with
    | none => (s, .rNotFound)
    | some ⟨_, none⟩ => (s, .rDeleted)
    | some ⟨_, some c⟩ => (s, .rOk c)
  | .setRO b => ({ s with ro := b }, .unit)
  | .hread id ck =>
    match s.m id with
    | some ⟨k, some c⟩ => if k = ck ∨ c.data = "" then (s, .http 200 c.data) else (s, .http 404 "")
    | _ => (s, .http 404 "")
  | .hdelete id ck =>
    match s.m id with
    | some ⟨k, some _⟩ =>
      if k ≠ ck then (s, .hdel 400)
      else if s.ro then (s, .hdel 500)
      else ({ s with m := setM s.m id ⟨k, none⟩ }, .hdel 202)
    | _ => (s, .hdel 404)

def srun (s : KV) : List Op → KV × List Out
  | [] => (s, [])
  | op :: ops =>
    let (s1, o) := sstep s op
    let (s2, os) := srun s1 ops
    (s2, o :: os)

/-! ## abstraction -/

def absEntry (st : Vol) (id : Nat) : Option Entry :=
  match st.idx id with
  | none => none
  | some e =>
    match recAt st.log e.off with
    | none => none
    | some r => some ⟨r.cookie, if e.size < 0 then none else some r.c⟩

def abs (st : Vol) : KV := { m := absEntry st, ro := st.ro, volTtl := st.volTtl }

/-- what a client observes of a model/implementation output (the `unchanged` hint, sizes and
    the echoed cookie are not part of the contract) -/
def absOut : MOut → Out
  | .w (.ok _) => .wOk
  | .w .ro => .wRo
  | .w .cookie => .wCookie
  | .w .ioerr => .broken
  | .d (.ok sz) => .dOk (decide (0 < sz))
  | .d .ro => .dRo
  | .r .notfound => .rNotFound
  | .r .deleted => .rDeleted
  | .r .ioerr => .broken
  | .r (.ok _ _ _ c) => .rOk c
  | .unit => .unit
  | .hr s b => .http s b
  | .hd s _ => .hdel s

/-! ## the domain and the excluded classes -/

/-- needles as `CreateNeedleFromRequest` builds them: an optional field is present only with
    its flag; LastModified fits 5 bytes -/
def wfContent (c : Content) : Bool :=
  (c.fl.hasName || c.name == "") && (c.fl.hasMime || c.mime == "") && (c.fl.hasPairs || c.pairs == "") &&
  (c.fl.hasLm || c.lm == 0) && decide (c.lm < 2 ^ 40) && (c.fl.hasTtl || c.ttl == (0, 0))

def opWf : Op → Bool
  | .write _ _ c => wfContent c
  | _ => true

/-- The inputs on which the code is known NOT to behave like the map (each is a known
    finding; the class name is the judge's class):
    (iii) an empty blob written with metadata (or on a TTL volume): nothing but the header is stored;
    (i)   a write over a live entry with the same cookie and the same data but other metadata:
          reported as success, the old metadata stays;
    (ii)  a delete that targets a live EMPTY blob: reported as success, nothing is removed. -/
def unchecked : String := "hdelete/empty-blob-cookie-unchecked"

def excluded (s : KV) : Op → Option String
  | .write id ck c =>
    let c1 := inheritTtl s.volTtl c
    if c1.data = "" ∧ c1 ≠ Content.empty then some "write/empty-blob-drops-metadata"
    else match s.m id with
      | some ⟨k, some c'⟩ =>
        if k = ck ∧ c'.data = c1.data ∧ c' ≠ c1 then some "write/unchanged-keeps-old-metadata" else none
      | _ => none
  | .delete id _ =>
    match s.m id with
    | some ⟨_, some c'⟩ => if c'.data = "" then some "delete/empty-blob-not-removed" else none
    | _ => none
  | .hdelete id ck =>
    match s.m id with
    | some ⟨k, some c'⟩ =>
      if c'.data = "" then (if k = ck then some "delete/empty-blob-not-removed" else some unchecked) else none
    | _ => none
  | _ => none

/-- `Admissible` also leaves out a DELETE with a wrong cookie aimed at a live empty blob: the
    handler cannot compare cookies there (nothing is read from disk) and answers 202 (or 500 on
    a read-only volume) instead of 400. Nothing is removed, so the property text is not violated
    and the judge only checks that (it is not a finding). -/
theorem unchecked_def : unchecked = "hdelete/empty-blob-cookie-unchecked" := rfl

/-- every operation of the list is well-formed and outside the excluded classes, relative to
    the specification state it meets -/
def Admissible (s : KV) : List Op → Prop
  | [] => True
  | op :: ops => opWf op = true ∧ excluded s op = none ∧ Admissible (sstep s op).1 ops

def opId : Op → Nat
  | .write id _ _ | .delete id _ | .read id _ | .hread id _ | .hdelete id _ => id
  | .setRO _ => 0

/-- The judge: one simulation square, evaluated on the implementation's output `implOut`
    (and on the model's successor state, which the DIFF check ties to the implementation):
    from the abstract state the spec must produce the same observation and the same entry.
    `none` = fine, `some class` = SPECFAIL. -/
def judge (st : Vol) (op : Op) (implOut : MOut) : Option String :=
  if !opWf op then none else
  let s := abs st
  let (s', o') := sstep s op
  let st' := (step st op).1
  if excluded s op = some unchecked then
    (if absEntry st' (opId op) = s.m (opId op) then none else some "hdelete/wrong-cookie-removed")
  else if absOut implOut = o' ∧ absEntry st' (opId op) = s'.m (opId op) ∧ st'.ro = s'.ro then none
  else some ((excluded s op).getD "refinement/unclassified")

end SwV.Spec.C01
