/-
C39 — specification side: the reference tree, as a function from paths to what is there.

`none`            no node at this path
`some none`       an intermediate directory that only exists because something was inserted
                  below it (it answers lookups with nil)
`some (some v)`   node `v`

The reference operations are given POINTWISE (what is at path q afterwards, in terms of
what was where before): this is the "moved subtrees appear under the new path and nowhere
else, deleted subtrees are gone" of the property text, made exact.
-/
import SwV.Model.C39
namespace SwV.Spec.C39
open SwV.Model.C39

abbrev Ref := Path → Option (Option Nat)

def refEmpty : Ref := fun q => if q = [] then some none else none

/-- insertion at p: p holds v, the ancestors of p exist, nothing else changes -/
def refSet (m : Ref) (p : Path) (v : Nat) : Ref := fun q =>
  if q = p then some (some v)
  else if q <+: p then some ((m q).getD none)
  else m q

/-- deletion of p: p and everything below it is gone (the root itself stays, emptied) -/
def refDel (m : Ref) (p : Path) : Ref := fun q =>
  if p = [] then refEmpty q
  else if p <+: q then none
  else m q

/-- move old → new (old present, neither is the root): what was at old/r is at new/r;
    below new there is nothing else; the ancestors of new exist; old/… is gone unless it is
    re-created as an ancestor of new or lies below new -/
def refMove (m : Ref) (old new : Path) : Ref := fun q =>
  if new <+: q then m (old ++ q.drop new.length)
  else if q <+: new then some ((refDel m old q).getD none)
  else refDel m old q

def refLookup (m : Ref) (p : Path) : Option Nat := (m p).getD none

def refEnsure (m : Ref) (p : Path) (v : Nat) : Ref :=
  match refLookup m p with
  | some _ => m
  | none => refSet m p v

def refApply (m : Ref) : Op → Ref
  | .set p v => refSet m p v
  | .ensure p v => refEnsure m p v
  | .del p => refDel m p
  | .move o n => if o = [] ∨ n = [] then m else if (m o).isNone then m else refMove m o n

/-- the reference tree after a history -/
def denote (ops : List Op) : Ref := ops.foldl refApply refEmpty

/-- judge of one lookup: the implementation's answer must be the reference's -/
def getJudge (m : Ref) (p : Path) (impl : Option Nat) : Option String :=
  if impl = refLookup m p then none
  else if (refLookup m p).isNone then some "GetFsNode/returns-node-that-should-be-gone"
  else if impl.isNone then some "GetFsNode/misses-node-that-should-be-there"
  else some "GetFsNode/returns-other-node"

end SwV.Spec.C39
