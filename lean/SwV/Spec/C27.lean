/-
C27 — specification side: what a ListObjects client relies on.

A bucket is a set of object keys. For a request (prefix, delimiter ∈ {"", "/"}, max-keys):

  matching      = keys that start with the prefix and are not multipart-upload internals
                  (first segment `.uploads`)
  delimiter ""  : Contents = matching, no CommonPrefixes
  delimiter "/" : Contents = matching keys without a "/" after the prefix,
                  CommonPrefixes = the distinct  prefix ++ segment ++ "/"  of the others

Every page holds at most max-keys items, all of them expected ones; a client that follows the
continuation (next marker / continuation token, or the last key when there is no delimiter) sees
a last, untruncated page within `#keys + 2` requests and has then received every expected item
exactly once.  A client that starts after a key (marker / start-after, also when start-after is sent again
beside every continuation token) is never served an item twice and also sees the last page within
`#keys + 2` requests (`resumeJudge`).  The judges are the executable form, run over the IMPLEMENTATION's pages.
-/
import SwV.Model.C27
namespace SwV.Spec.C27
open SwV.Model.C19 (Bytes ltB isPrefix)
open SwV.Model.C27

def joinSlash : List Bytes → Bytes
  | [] => []
  | [s] => s
  | s :: rest => s ++ [slash] ++ joinSlash rest

def isInternal (k : List Bytes) : Bool := k.head? = some uploadsName

/-- keys (as strings) a listing with this prefix must enumerate -/
def matching (ks : List (List Bytes)) (pfx : Bytes) : List Bytes :=
  (ks.filter fun k => !isInternal k).map joinSlash |>.filter fun s => isPrefix pfx s

def dedup (l : List Bytes) : List Bytes := l.foldr (fun x acc => if acc.contains x then acc else x :: acc) []

def expectedKeys (ks : List (List Bytes)) (pfx : Bytes) (delimSlash : Bool) : List Bytes :=
  if delimSlash then (matching ks pfx).filter fun s => !(s.drop pfx.length).contains slash
  else matching ks pfx

def expectedPfxs (ks : List (List Bytes)) (pfx : Bytes) (delimSlash : Bool) : List Bytes :=
  if delimSlash then
    dedup ((matching ks pfx).filterMap fun s =>
      match cutFirstSlash (s.drop pfx.length) with
      | some (seg, _) => some (pfx ++ seg ++ [slash])
      | none => none)
  else []

/-- same elements, each exactly once (order free) -/
def exactlyOnce (got want : List Bytes) : Bool :=
  got.length == want.length && want.all (fun w => got.count w == 1) && got.all (fun g => want.contains g)

/-- the inputs on which the code is known to deviate (hypotheses of the `_partial` theorems = classes) -/
structure Excl where
  uploadsInWindow : Bool   -- the listed directory holds the `.uploads` directory and the name prefix admits it
  prefixHasDir : Bool      -- the prefix contains "/" (markers are interpreted relative to that directory)
  prefixLeadingSlash : Bool
  prefixIntoUploads : Bool
  deepKeys : Bool          -- some key has three or more segments (markers with two "/")

def excl (ks : List (List Bytes)) (pfx : Bytes) : Excl :=
  let (d, p) := splitLastSlash pfx
  { uploadsInWindow := ks.any isInternal && (d = [] || d = [slash]) && isPrefix p uploadsName
    prefixHasDir := pfx.contains slash
    prefixLeadingSlash := pfx.head? = some slash
    prefixIntoUploads := isPrefix (uploadsName ++ [slash]) pfx
    deepKeys := ks.any fun k => k.length ≥ 3 }

/-- Judge of ONE page (any marker). -/
def pageJudge (ks : List (List Bytes)) (pfx : Bytes) (delimSlash : Bool) (maxKeys : Nat) (marker : Bytes) (p : Page) : Option String :=
  let x := excl ks pfx
  let wantK := expectedKeys ks pfx delimSlash
  let wantP := expectedPfxs ks pfx delimSlash
  let allKeys := ks.map joinSlash
  if (p.keys ++ p.pfxs).any (fun k => (splitSlash k).head? = some uploadsName) then
    some (if x.prefixIntoUploads then "listFilerEntries/prefix-into-uploads-lists-internals" else "page/upload-internal-listed")
  else if p.keys.any (fun k => !wantK.contains k) ∨ p.pfxs.any (fun q => !wantP.contains q) then
    if x.prefixLeadingSlash then some "listFilerEntries/leading-slash-prefix-ignored"
    else if (splitSlash marker).dropLast.any (· = []) then some "doListFilerEntries/empty-marker-segment-relists-directory"
    else if marker.contains slash ∧ p.keys.all (fun k => allKeys.contains k) then some "doListFilerEntries/marker-subdir-ignores-prefix-and-delimiter"
    else some "page/item-not-under-prefix"
  else if p.keys.length + p.pfxs.length > maxKeys then
    some (if x.deepKeys ∧ !delimSlash then "doListFilerEntries/nested-marker-drops-sub-count" else "page/more-than-max-keys")
  else none

/-- Judge of a complete pagination from the beginning (`maxKeys ≥ 1`; last-key continuation only without delimiter). -/
def walkJudge (ks : List (List Bytes)) (pfx : Bytes) (delimSlash contNext : Bool) (maxKeys : Nat) (pages : List Page) : Option String :=
  if maxKeys = 0 ∨ (!contNext ∧ delimSlash) then none else
  let x := excl ks pfx
  let gotK := pages.flatMap (·.keys)
  let gotP := pages.flatMap (·.pfxs)
  let wantK := expectedKeys ks pfx delimSlash
  let wantP := expectedPfxs ks pfx delimSlash
  let finished : Bool := match pages.getLast? with | some p => !p.trunc | none => false
  if finished ∧ exactlyOnce gotK wantK ∧ exactlyOnce gotP wantP then none
  else if x.prefixIntoUploads ∨ x.prefixLeadingSlash then none     -- reported by the page judge
  else if x.uploadsInWindow then some "doListFilerEntries/skipped-entry-counted-in-limit-window"
  else if !contNext ∧ x.prefixHasDir then some "listFilerEntries/marker-relative-to-prefix-directory"
  else if x.deepKeys ∧ !delimSlash then some "doListFilerEntries/nested-marker-drops-sub-count"
  else if !finished then some "pagination/not-terminating"
  else if wantK.any (fun w => gotK.count w == 0) ∨ wantP.any (fun w => gotP.count w == 0) then some "pagination/key-missing"
  else some "pagination/key-duplicated-or-foreign"

/-- the walk ended with an untruncated page -/
def finishedWalk (pages : List Page) : Bool :=
  match pages.getLast? with
  | some p => !p.trunc
  | none => false

/-- no element occurs twice -/
def noRepeat : List Bytes → Bool
  | [] => true
  | x :: r => !r.contains x && noRepeat r

/-- Judge of a pagination that STARTS AFTER A KEY (V1 marker, V2 start-after — sent once or re-sent beside the
    continuation token on every request, as SDK paginators do) and then follows what the pages return. Which keys
    lie "after" a key depends on the enumeration order, so only the order-free part of "a client that continues
    from the returned continuation token enumerates every matching key exactly once" is judged here: no item is
    served twice, and a last, untruncated page arrives within `#keys + 2` requests (`maxKeys ≥ 1`). Independent of
    the model: stated over the implementation's pages and the bucket's key count only. -/
def resumeJudge (ks : List (List Bytes)) (pfx : Bytes) (delimSlash contNext : Bool) (maxKeys : Nat) (pages : List Page) : Option String :=
  if maxKeys = 0 ∨ (!contNext ∧ delimSlash) then none else
  let got := pages.flatMap (·.keys) ++ pages.flatMap (·.pfxs)
  let overlong : Bool := decide (pages.length ≥ ks.length + 2) && !finishedWalk pages
  if !overlong ∧ noRepeat got then none
  else if (excl ks pfx).prefixHasDir then some "listFilerEntries/marker-relative-to-prefix-directory"
  else if overlong then some "pagination/does-not-terminate"
  else some "pagination/key-repeated"

end SwV.Spec.C27
