/-
Driver core shared by drv_c11 and drv_c12 (core Lean only): parse the operation of a trace line,
run the model (`SwV.Model.C11.step`), print the model's observable state in the harness's format
(DIFF when it differs from the implementation's), and hand the IMPLEMENTATION's observable state
to the property's judge.  A judge result is reported when it is NEW on this line (so that the
class names the call that broke the fact, not every later call that still sees it broken).
-/
import SwV.Common.Drv
import SwV.Model.C11
import SwV.Spec.C11
import SwV.Spec.C12
namespace SwV.Spec.C11Run
open SwV.Drv SwV.Model.C11 SwV.Spec.C11

/-! ## parsing operations -/

def pVol (e : String) : VInfo :=
  match (e.splitOn ":").map pNat with
  | [vid, size, coll, rp, ttl, disk, ro, remote] => ⟨vid, size, ro == 1, remote == 1, ⟨coll, rp, ttl, disk⟩⟩
  | _ => default
def pShort (e : String) : VInfo :=
  match (e.splitOn ":").map pNat with
  | [vid, coll, rp, ttl, disk] => ⟨vid, 0, false, false, ⟨coll, rp, ttl, disk⟩⟩
  | _ => default
def pEc (e : String) : EcInfo :=
  match (e.splitOn ":").map pNat with
  | [vid, coll, disk, bits] => ⟨vid, coll, disk, bits⟩
  | _ => default

def parseOp (ln : Line) : Option Op :=
  let a := fun i => ln.args.getD i "-"
  let n := fun i => pNat (a i)
  match ln.op with
  | "conn" => some (.conn (n 0) (n 1) (n 2) (n 3) (n 4))
  | "max" => some (.max (n 0) (n 1) (n 2))
  | "full" => some (.full (n 0) ((pList (a 1) ",").map pVol))
  | "inc" => some (.inc (n 0) ((pList (a 1) ",").map pShort) ((pList (a 2) ",").map pShort))
  | "ecfull" => some (.ecfull (n 0) ((pList (a 1) ",").map pEc))
  | "ecinc" => some (.ecinc (n 0) ((pList (a 1) ",").map pEc) ((pList (a 2) ",").map pEc))
  | "disc" => some (.disc (n 0))
  | "refresh" => some .refresh
  | _ => none

/-! ## printing the model state -/

def fC (c : Counts) : String := s!"{c.vol},{c.rem},{c.ec},{c.max}"
def fCC (a b : Counts) : String := fC a ++ "/" ++ fC b
def zeroCC : String := "0,0,0,0/0,0,0,0"
def joinOr (l : List String) (sep : String) : String := if l.isEmpty then "-" else String.intercalate sep l
def fNats (l : List Nat) (sep : String) : String := joinOr (l.map toString) sep
def b01 (b : Bool) : String := if b then "1" else "0"

def keyLe (a b : Key) : Bool :=
  if a.coll != b.coll then a.coll < b.coll
  else if a.rp != b.rp then a.rp < b.rp
  else if a.ttl != b.ttl then a.ttl < b.ttl
  else a.disk ≤ b.disk

def insertBy {α : Type} (le : α → α → Bool) (x : α) : List α → List α
  | [] => [x]
  | y :: ys => if le x y then x :: y :: ys else y :: insertBy le x ys
def sortBy {α : Type} (le : α → α → Bool) (l : List α) : List α := l.foldr (insertBy le) []

def dump (st : St) : List String :=
  let top := ["T=" ++ fCC (st.cTopo 0) (st.cTopo 1)]
  let dcs := (List.range 4).flatMap fun dc =>
    let d := fCC (st.cDc dc 0) (st.cDc dc 1)
    (if d == zeroCC then [] else [s!"D{dc}={d}"]) ++
    (List.range 4).flatMap fun r =>
      let x := fCC (st.cRack dc r 0) (st.cRack dc r 1)
      if x == zeroCC then [] else [s!"R{dc}.{r}={x}"]
  let srv := (List.range maxSrv).flatMap fun s =>
    if !st.conn s then [] else
    [s!"N{s}=" ++ fCC (st.cNode s 0) (st.cNode s 1)] ++
    (List.range 2).flatMap fun t =>
      let vs := (List.range (st.nVid + 1)).filterMap fun vid =>
        (st.vols s t vid).map fun v => s!"{v.id}:{v.size}:{b01 v.ro}:{b01 v.remote}"
      let es := (List.range (st.nVid + 1)).filterMap fun vid =>
        if st.ecs s t vid = 0 then none else some s!"{vid}:{st.ecs s t vid}"
      let c := if t = 0 then fCC (st.cDisk s t) {} else fCC {} (st.cDisk s t)
      if vs.isEmpty && es.isEmpty && c == zeroCC then [] else [s!"K{s}.{t}={c}|{joinOr vs ";"}|{joinOr es ";"}"]
  let lay := (sortBy keyLe st.keys).flatMap fun k =>
    let ls := (List.range (st.nVid + 1)).filterMap fun vid => (st.locs k vid).map fun l => s!"{vid}@{fNats l "+"}"
    let ov := (List.range (st.nVid + 1)).filter fun vid => !(st.ov k vid).isEmpty
    if (st.wr k).isEmpty && ls.isEmpty && ov.isEmpty then [] else
    [s!"L{k.coll}.{k.rp}.{k.ttl}.{k.disk}={fNats (sortBy (fun a b => decide (a ≤ b)) (st.wr k)) ","}|{joinOr ls ";"}|{fNats ov ","}"]
  let ec := (List.range (st.nVid + 1)).flatMap fun vid =>
    let ss := (List.range 14).filterMap fun sh =>
      if (st.ecLoc vid sh).isEmpty then none else some s!"{sh}@{fNats (st.ecLoc vid sh) "+"}"
    if ss.isEmpty then [] else [s!"E{vid}={joinOr ss ";"}"]
  let qs := (List.range st.nVid).filterMap fun i =>
    let l := sortBy (fun a b => decide (a ≤ b)) (lookup st (i + 1)).eraseDups
    if l.isEmpty then none else some s!"{i + 1}@{fNats l "+"}"
  top ++ dcs ++ srv ++ lay ++ ec ++ (if qs.isEmpty then [] else ["Q=" ++ joinOr qs ";"])

/-! ## driver state and step -/

structure DSt where
  st : St := {}
  place : Nat → Nat × Nat := fun _ => (0, 0)
  declMax : Nat → Nat → Int := fun _ _ => 0
  up : Nat → Bool := fun _ => false
  knownFull : List Nat := []
  staleEc : List (Nat × Nat) := []
  /-- what the servers hold by their own messages (`toldNext`) -/
  told : List (Nat × Nat) := []
  /-- replicas registered at/over the limit ever since they registered (`bornOverNext`) -/
  bornOver : List (Nat × Nat) := []
  /-- offered volumes with a `bornOver` replica, with the class fixed when the violation appeared (`overClsNext`) -/
  overCls : List (Nat × Bool) := []
  /-- registered (server, vid) pairs and offered vids of the previous observation -/
  prevHolders : List (Nat × Nat) := []
  prevWr : List Nat := []
  prevBad : List (String × String) := []

/-- bookkeeping of what the servers declared (inputs only) -/
def track (d : DSt) (op : Op) : DSt :=
  match op with
  | .conn s dc rack h ssd =>
    if d.up s then d else
    { d with up := upd1 d.up s true, place := upd1 d.place s (dc, rack),
             declMax := upd2 (upd2 d.declMax s 0 h) s 1 ssd }
  | .max s h ssd =>
    if !d.up s then d else
    let m := if h = 0 then d.declMax else upd2 d.declMax s 0 h
    { d with declMax := if ssd = 0 then m else upd2 m s 1 ssd }
  | .disc s => { d with up := upd1 d.up s false }
  | _ => d

def covOf (op : Op) (st st' : St) : List String :=
  match op with
  | .conn .. => ["COV conn"]
  | .max s .. => if (st.cNode s 0).max != (st'.cNode s 0).max || (st.cNode s 1).max != (st'.cNode s 1).max then ["COV max.changed"] else ["COV max.same"]
  | .full s vs =>
    ["COV full"] ++ (if vs.any (fun v => (volOf st s v.id).any fun o => o.ro != v.ro) then ["COV full.changed-ro"] else [])
      ++ (if (volumesOf st s).any (fun v => !(vs.any fun a => a.id == v.id)) then ["COV full.deleted"] else [])
      -- a read-only flag is cleared on a volume whose oversized registration the layout remembers
      ++ (if vs.any (fun v => (volOf st s v.id).any (fun o => o.ro && !v.ro) && !(st'.ov v.key v.id).isEmpty)
          then ["COV full.ro-cleared-oversized-remembered"] else [])
      -- a full heartbeat without volumes from a server that has volumes registered
      ++ (if st.conn s && vs.isEmpty && !(volumesOf st s).isEmpty then ["COV full.empty-with-registered"] else [])
  | .inc s ns ds =>
    ["COV inc"] ++ (if ds.any (fun v => (st.vols s v.key.disk v.id).isNone) then ["COV inc.delete-unregistered"] else [])
      ++ (if ds.any (fun v => (st.vols s v.key.disk v.id).any fun o => o.remote) then ["COV inc.delete-remote"] else [])
      ++ (if ns.any (fun v => (st.vols s v.key.disk v.id).isSome) then ["COV inc.new-already-registered"] else [])
  | .ecfull s es =>
    ["COV ecfull"] ++ (if ((st.toCore.ecOf s).filter fun e => (actualBits es e.2.1) != some e.2.2).length ≥ 2 then ["COV ecfull.two-changed"] else [])
  | .ecinc .. => ["COV ecinc"]
  | .disc s => if (st.toCore.ecOf s).isEmpty then ["COV disc"] else ["COV disc", "COV disc.with-ec"]
  | .refresh => if (st.keys.any fun k => (st.wr k).length != (st'.wr k).length) then ["COV refresh.removed"] else ["COV refresh"]

/-- `judge obs dst` = the violated facts (kind, detail) of the implementation's observable state -/
def stepWith (judge : Obs → DSt → List (String × String))
    (d : DSt) (n : Nat) (ln : Line) : DSt × List String :=
  if ln.op == "reset" then
    let st := init (pNat (ln.args.getD 0 "0")) (ln.args.getD 1 "0" == "1") (pNat (ln.args.getD 2 "0"))
    ({ st := st }, diff n ln (dump st) ++ ["COV reset"])
  else
  match parseOp ln with
  | none => (d, [s!"DIFF {n} unknown-op {ln.op}"])
  | some op =>
    let st' := (step d.st op)
    let d1 := track { d with st := st' } op
    let obs := parseObs ln.outs
    -- the master has processed a full volume once a refresh round has seen it
    let d2 := match op with
      | .refresh => { d1 with knownFull := (List.range (st'.nVid + 1)).filter fun vid => obs.full st'.limit vid }
      | _ => d1
    let d2 := { d2 with staleEc := staleEcNext obs st'.nVid d2.staleEc (match op with | .disc s => if d.up s then some s else none | _ => none) }
    -- what the servers said (inputs), and which replicas the master was told to be oversized at registration
    let bornOver := bornOverNext obs st'.limit d.prevHolders d.bornOver
    let d2 := { d2 with told := toldNext d.told d.up op, bornOver := bornOver,
                        overCls := overClsNext (offeredBornOver obs bornOver) d.prevWr d.overCls,
                        prevHolders := obs.holderPairs, prevWr := obs.layouts.flatMap (·.wr) }
    let bad := if ln.outs == ["panic"] then [("panic", "")] else judge obs d2
    -- a fact is identified by its kind and place (the size of a counter error is not part of its identity)
    let ident := fun (b : String × String) => (b.1, (b.2.splitOn ",observed-minus-recount").headD "")
    let fresh := bad.filter fun b => !(d.prevBad.map ident).contains (ident b)
    -- one report per kind and line (for counters: the lowest level; upper levels inherit the error)
    let fresh := fresh.foldl (fun acc e => if acc.any (fun x => x.1 = e.1) then acc else acc ++ [e]) []
    let msgs := fresh.map fun (kind, detail) => specfail n (if (kind.splitOn "/").length > 1 then kind else s!"{ln.op}/{kind}") detail
    ({ d2 with prevBad := bad }, diff n ln (dump st') ++ msgs ++ covOf op d.st st')

end SwV.Spec.C11Run
