/-
C25 spec: what a client of the filer's HTTP write API relies on.

The content of a stored entry is what a reader gets (C17's spec): `size` = max(chunk extent, FileSize
attribute, inline length) bytes; the inline content when it covers the size, otherwise at every position
the byte of the newest chunk covering it (0 where none does).

  * PUT/POST (no append, or append to a name that does not exist) answered 2xx ⇒ content = request body.
  * append answered 2xx ⇒ content = old content ++ body.
  * a request whose body fails part-way is answered with an error status and leaves the file as it was;
    any request answered with an error status leaves the file as it was.
  * the same holds when the cluster behind the filer fails: a request during which the upload of one of its
    chunks is refused for good is either answered 2xx — then the content is the body (old content ++ body) like
    for any accepted request — or answered with an error status and the file is what it was (`uploadFailJudge`).

The judge is the executable form, run by the driver over the IMPLEMENTATION's outputs.
-/
import SwV.Model.C25
import SwV.Spec.C17
namespace SwV.Spec.C25
open SwV.Model.C25

/-- content of an entry (C17 overlay of its chunks, newest (gen, position) wins) -/
def contentOf (e : Entry) : List Nat :=
  if e.size ≤ e.content.length then e.content.take e.size
  else (List.range e.size).map (SwV.Spec.C17.specByte (dataOf e.chunks) (toC17 e.chunks))

def contentOpt : Option Entry → Option (List Nat)
  | none => none
  | some e => some (contentOf e)

structure Req where
  raw      : Bool        -- POST whose body is not multipart
  isAppend : Bool
  cs       : Nat
  limit    : Nat
  etc      : Bool
  body     : List Nat
  failAt   : Option Nat

def is2xx (status : Nat) : Bool := 200 ≤ status ∧ status < 300

/-- an accepted non-append request whose body failed after at least one whole chunk, stored as exactly that
    first chunk inline (what the first-read inline branch of uploadReaderToChunks leaves behind) -/
def inlineHidesError (q : Req) (now : Option Entry) : Bool :=
  match q.failAt, now with
  | some k, some e => !q.isAppend ∧ (q.cs < q.limit ∨ q.etc) ∧ 0 < q.cs ∧ q.cs ≤ k ∧ e.chunks = [] ∧ e.content = q.body.take q.cs
  | _, _ => false

/-- judge of one write request: `prev`/`now` = the entry at the path before/after, as the implementation shows it -/
def writeJudge (q : Req) (prev : Option Entry) (status : Nat) (now : Option Entry) : Option String :=
  if q.failAt.isSome then
    if is2xx status then
      -- the body failed and the request was accepted.  When the FIRST read (one whole chunk, delivered before
      -- the failure) was taken as the inline content, the loop never read on and never saw the error: that is
      -- the class of the two …-keeps-first-chunk-only findings (the rest of the body is dropped, its failure
      -- included).  Every other accepted failing body is a read error treated as EOF.
      if inlineHidesError q now then
        (if q.etc then some "uploadReaderToChunks/etc-file-keeps-first-chunk-only"
         else some "uploadReaderToChunks/inline-limit-above-chunk-size-keeps-first-chunk-only")
      else some "uploadReaderToChunks/read-error-treated-as-eof"
    else if contentOpt now ≠ contentOpt prev then some "write/failed-request-changed-file"
    else none
  else if !is2xx status then
    if contentOpt now ≠ contentOpt prev then some "write/rejected-request-changed-file" else none
  else
    match now with
    | none => some "write/accepted-but-nothing-stored"
    | some e =>
      match (if q.isAppend then prev else none) with
      | none =>
        if contentOf e = q.body then none
        else if e.content ≠ [] ∧ e.content.length < q.body.length then
          (if q.etc then some "uploadReaderToChunks/etc-file-keeps-first-chunk-only"
           else some "uploadReaderToChunks/inline-limit-above-chunk-size-keeps-first-chunk-only")
        else some "write/stored-ne-body"
      | some p =>
        if contentOf e = contentOf p ++ q.body then none
        else if extent p.chunks ≠ p.fileSize ∧ p.content = [] then some "saveMetaData/append-offset-from-FileSize-attr"
        else some "append/not-contiguous"

/-- the content the property promises after an ACCEPTED request: the body, or for an append to an existing file
    the old content followed by the body -/
def wantedContent (q : Req) (prev : Option Entry) : List Nat :=
  match (if q.isAppend then prev else none) with
  | none => q.body
  | some p => contentOf p ++ q.body

/-- judge of one write request with an error-free body during which the master / volume server refused every
    attempt to store one of the request's chunks (`q.failAt` is not looked at).  From the property text alone:
    "stores exactly the bytes of the request body" — answered 2xx ⇒ the stored content is the promised one; a
    2xx answer over anything else means the failed chunk upload was committed as if it had succeeded.  Answered
    with an error ⇒ nothing was committed: the file (if any) is what it was. -/
def uploadFailJudge (q : Req) (prev : Option Entry) (status : Nat) (now : Option Entry) : Option String :=
  if is2xx status then
    match now with
    | none => some "uploadReaderToChunks/chunk-upload-failure-committed"
    | some e =>
      if contentOf e = wantedContent q prev then none
      else some "uploadReaderToChunks/chunk-upload-failure-committed"
  else if contentOpt now ≠ contentOpt prev then some "write/failed-request-changed-file"
  else none

end SwV.Spec.C25
