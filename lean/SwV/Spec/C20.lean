/-
C20 — specification side: which chunks are referenced by the live names of a state, and the
two judges (gc_safe, gc_complete) run by the driver over the IMPLEMENTATION's dump and its
deletion sinks.
-/
import SwV.Model.C18
import SwV.Spec.C18Run
import SwV.Spec.C18
namespace SwV.Spec.C20
open SwV.Model.C18 SwV.Spec.C18Run

/-- a live name's reference: (owner identity, through a hard link?, chunks). The owner of a linked
    name is its link identity; its chunks are the ones FindEntry shows (the link record). -/
structure Ref where
  path : RPath
  hl : Nat
  chunks : List Nat

def refsOf (ents : List (RPath × Entry)) (view : RPath → Entry → Entry) : List Ref :=
  ents.map fun x => if x.2.hl = 0 then ⟨x.1, 0, x.2.chunks⟩ else ⟨x.1, x.2.hl, (view x.1 x.2).chunks⟩

def refsPre (s : St) : List Ref := refsOf s.ents fun p e => (find s p).getD e
def refsPost (o : Obs) : List Ref := refsOf o.post.ents fun p e => (lookup p o.fview).getD e

def referenced (rs : List Ref) (c : Nat) : Bool := rs.any fun r => r.chunks.contains c
def viaLink (rs : List Ref) (c : Nat) : Bool := rs.any fun r => r.hl != 0 && r.chunks.contains c

def sameOwner (a b : Ref) : Bool := if a.hl != 0 || b.hl != 0 then a.hl == b.hl else a.path == b.path

/-- the chunk has one owner (one plain name, or the names of one link identity) -/
def exclusive (rs : List Ref) (c : Nat) : Bool :=
  let os := rs.filter fun r => r.chunks.contains c
  os.all fun a => os.all fun b => sameOwner a b

/-- did the operation ask for data deletion? (overwrites always do; deletes when told to; the client's
    unlink when the counter says this is the last name) -/
def requestsDeletion (s : St) : Op → Bool
  | .create .. => true | .write .. => true | .rename .. => true
  | .delete _ _ _ dc => dc
  | .unlink p => ((find s p).map fun o => decide (o.cnt ≤ 1)).getD false
  | .update .. => false | .link .. => false

def judge : Judge := fun pre op obs =>
  if !obs.complete then [] else
  let txt := SwV.Spec.C18.opText op
  let name := SwV.Spec.C18.opName op
  -- a rename onto an ANCESTOR of the source is its own call-site family for plain entries (the images overlap the
  -- source subtree: colliding names are overwritten with stale listed copies)
  let nameP := match op with
    | .rename src dst => if src != dst && SwV.Spec.C18.under dst src then "rename-onto-ancestor" else "rename"
    | _ => name
  let rp := refsPre pre
  let rq := refsPost obs
  let emitted := obs.q ++ obs.d
  -- gc_safe: nothing handed to a deletion sink is still referenced afterwards
  let unsafeCs := emitted.filter fun c => exclusive rp c && referenced rq c
  let safe := unsafeCs.map fun c =>
    -- who still shows it: a name of a link identity; a plain copy of a name that lost its identity in this very
    -- operation (the chunk belonged to an identity before); or a plain entry
    ((if viaLink rq c then name ++ "/deletes-chunk-of-live-hardlink"
      else if viaLink rp c then name ++ "/deletes-chunk-of-copy-that-lost-its-link"
      else nameP ++ "/deletes-chunk-of-live-entry"), s!"{txt} chunk={c}")
  -- gc_complete: what stopped being referenced by an operation that asked for data deletion is handed to a sink
  let dropped := if obs.res == .ok && requestsDeletion pre op then
      (rp.flatMap (·.chunks)).eraseDups.filter fun c => !referenced rq c && !emitted.contains c
    else []
  let complete := dropped.map fun c =>
    ((if viaLink rp c then name ++ "/chunk-of-removed-hardlink-not-deleted" else nameP ++ "/unreferenced-chunk-not-deleted"), s!"{txt} chunk={c}")
  safe ++ complete

end SwV.Spec.C20
