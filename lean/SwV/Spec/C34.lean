/-
C34 — specification side.  With a key configured for the request's kind (write key for POST/PUT/DELETE,
read key for GET/HEAD), a request passes only with a token that
  is well-formed, uses an HMAC algorithm, carries an untampered signature made with THAT key,
  is inside its exp/nbf/iat window, and whose fid claim denotes the file the request addresses
  (same volume number, needle key and cookie — the `_n` sub-file suffix of the path ignored);
and a request that does not pass leaves the stored needles as they were.
"Denotes" uses the file-id grammar of C08 (`parseFid`).
-/
import SwV.Model.C34
import SwV.Model.C08
namespace SwV.Spec.C34
open SwV.Model.C34

/-- the file a `vid,fid` pair denotes -/
def fileOf (vid fid : List Char) : Option SwV.Model.C08.Fid := SwV.Model.C08.parseFid (vid ++ ',' :: fid)

def tokenGood (key : List Char) (t : Tok) : Bool :=
  t.wellFormed && isHmac t.alg && t.sigOk && (t.signKey == key) && t.expOk && t.nbfOk && t.iatOk

/-- the claim denotes the addressed file -/
def claimNames (t : Tok) (vid fid : List Char) : Bool :=
  match SwV.Model.C08.parseFid t.fid, fileOf vid (stripDelta fid) with
  | some a, some b => a == b
  | _, _ => false

/-- judge over the implementation's answer: passed (not 401) / changed -/
def authJudge (cfg : Cfg) (method : String) (path qjwt auth : List Char) (t : Tok) (passed changed : Bool) : Option String :=
  let (vid, fid) := parseURLPath path
  let key := if isWrite method then cfg.wkey else cfg.rkey
  let presented := getJwt qjwt auth
  if !passed && changed then some "handler/data-touched-by-rejected-request" else
  if key = [] then none else
  if !passed then none else
  if presented ≠ t.str ∨ presented = [] then some "maybeCheckJwtAuthorization/passes-without-the-token" else
  if !tokenGood key t then
    (if !t.wellFormed then some "maybeCheckJwtAuthorization/passes-malformed-token"
     else if !isHmac t.alg then some "maybeCheckJwtAuthorization/passes-non-hmac-token"
     else if !t.sigOk ∨ t.signKey ≠ key then some "maybeCheckJwtAuthorization/passes-token-of-another-key"
     else some "maybeCheckJwtAuthorization/passes-expired-or-not-yet-valid-token")
  else if (fileOf vid (stripDelta fid)).isSome && !claimNames t vid fid then some "maybeCheckJwtAuthorization/passes-token-of-another-file"
  else none

end SwV.Spec.C34
