/-
C28 — specification side.

What an S3 client relies on: a bucket is a map key ↦ bytes.
  * PUT / copy / completed multipart upload: the key then reads back, in full and for any byte range,
    as the written bytes; a completed upload = the concatenation of its parts in ascending part NUMBER;
  * DELETE k / batch delete of names: exactly the named keys disappear (a name is a key, compared literally).
The driver keeps this map beside the model's state and judges the implementation's reads and listings.
-/
import SwV.Model.C28
namespace SwV.Spec.C28
open SwV.Model.C19 (Bytes ltB)
open SwV.Model.C28

/-- the object a completed upload must produce -/
def specComplete (parts : List Part) : List Seg := concatParts (parts.foldr insertByNo [])

/-- expected answer of a read: (status, length, checksum) -/
def specRead (d : List Seg) (a : Int) (b : Nat) : String × Nat × Nat :=
  if a < 0 then ("s200", size d, checksum d)
  else
    let a := a.toNat
    if a ≥ size d then ("e416", 0, 0)     -- a range starting at or beyond the end is unsatisfiable (C32 owns it; parseRange repaired)
    else
      let n := min b (size d - 1) - a + 1
      ("s206", n, checksum (slice d a n))

def joinSlash : List Bytes → Bytes
  | [] => []
  | [s] => s
  | s :: rest => s ++ [slash] ++ joinSlash rest

/-- literal key of a name: its `/`-separated segments, nothing cleaned -/
def literalKey (name : Bytes) : List Bytes := splitSlash name

def specDelete (objs : List Obj) (name : Bytes) : List Obj := objs.filter fun o => o.key ≠ literalKey name

/-- do two part lists give different objects when ordered by name vs by number? -/
def orderMatters (parts : List Part) : Bool :=
  (parts.foldr insertByName []).map (·.no) != (parts.foldr insertByNo []).map (·.no)

end SwV.Spec.C28
