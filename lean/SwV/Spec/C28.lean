/-
C28 — specification side.

What an S3 client relies on: a bucket is a map key ↦ bytes.
  * PUT / copy / completed multipart upload: the key then reads back, in full and for any byte range,
    as the written bytes; a completed upload = the concatenation of its parts in ascending part NUMBER;
  * DELETE k / batch delete of names: exactly the named keys disappear (a name is a key, compared literally).
The driver keeps this map beside the model's state and judges the implementation's reads and listings.
-/
import SwV.Model.C28
namespace SwV.Spec.C28
open SwV.Model.C19 (Bytes ltB)
open SwV.Model.C28

/-- the object a completed upload must produce -/
def specComplete (parts : List Part) : List Seg := concatParts (parts.foldr insertByNo [])

/-- expected answer of a read: (status, length, checksum) -/
def specRead (d : List Seg) (a : Int) (b : Nat) : String × Nat × Nat :=
  if a < 0 then ("s200", size d, checksum d)
  else
    let a := a.toNat
    if a ≥ size d then ("e416", 0, 0)     -- a range starting at or beyond the end is unsatisfiable (C32 owns it; parseRange repaired)
    else
      let n := min b (size d - 1) - a + 1
      ("s206", n, checksum (slice d a n))

def joinSlash : List Bytes → Bytes
  | [] => []
  | [s] => s
  | s :: rest => s ++ [slash] ++ joinSlash rest

/-- literal key of a name: its `/`-separated segments, nothing cleaned -/
def literalKey (name : Bytes) : List Bytes := splitSlash name

def specDelete (objs : List Obj) (name : Bytes) : List Obj := objs.filter fun o => o.key ≠ literalKey name

def specPut (spec : List Obj) (k : List Bytes) (d : List Seg) : List Obj := ⟨k, d⟩ :: spec.filter fun o => o.key ≠ k

/-- CopyObject in the specification: the destination becomes a copy of the source OBJECT; when no object has the
    source key the request must be refused (NoSuchKey) and nothing changes: `none` -/
def specCopy (spec : List Obj) (src dst : List Bytes) : Option (List Obj) :=
  match spec.find? (fun x => x.key == src) with
  | some ob => some (specPut spec dst ob.data)
  | none => none

/-- judge of an acknowledged copy whose source key holds no object, over the specification's bucket:
    the class says what the source key was instead -/
def copyJudge (spec : List Obj) (src dst : List Bytes) (acked : Bool) : Option String :=
  if acked && (specCopy spec src dst).isNone then
    some (if spec.any (fun o => src.length < o.key.length && isUnder src o.key)
          then "CopyObjectHandler/directory-source-stores-filer-listing-page"
          else "CopyObjectHandler/missing-source-creates-empty-object")
  else none

/-- do two part lists give different objects when ordered by name vs by number? -/
def orderMatters (parts : List Part) : Bool :=
  (parts.foldr insertByName []).map (·.no) != (parts.foldr insertByNo []).map (·.no)

end SwV.Spec.C28
