/-
C15 — specification side. What a user relies on:

* a replica set SATISFIES the replication setting xyz when its servers are pairwise different,
  z+1 of them sit in one rack (the main rack), y more racks of the same data center hold one
  replica each, and x more data centers hold one replica each (the shape the master grows
  volumes in, C10);
* a replica set is EXTENDABLE when it is a subset of such a shape (same definition with ≤);
* a plan is judged step by step on the cluster it would produce: the target does not hold the
  volume yet, has a free slot for the disk type, and a satisfied placement stays satisfied;
  a repair copy keeps an extendable replica set extendable.

The judges run over the IMPLEMENTATION's printed steps.
-/
import SwV.Model.C15
namespace SwV.Spec.C15
open SwV.Model.C15

def dcsOf (p : List Loc) : List Nat := distinct (p.map (·.dc))
def racksOf (p : List Loc) : List (Nat × Nat) := distinct (p.map rackKey)
def racksIn (p : List Loc) (d : Nat) : List (Nat × Nat) := (racksOf p).filter (·.1 == d)
def cntDc (p : List Loc) (d : Nat) : Nat := cnt d (p.map (·.dc))
def cntRack (p : List Loc) (k : Nat × Nat) : Nat := cnt k (p.map rackKey)

/-- the shape with main data center d and main rack r; `full` = exact counts, else upper bounds -/
def shapeAt (full : Bool) (rp : RP) (p : List Loc) (d : Nat) (r : Nat × Nat) : Bool :=
  let cmp (a b : Nat) : Bool := if full then a == b else decide (a ≤ b)
  cmp (cntRack p r) (rp.z + 1) &&
  (racksIn p d).all (fun k => k == r || cntRack p k == 1) &&
  cmp ((racksIn p d).length - 1) rp.y &&
  (dcsOf p).all (fun d' => d' == d || cntDc p d' == 1) &&
  cmp ((dcsOf p).length - 1) rp.x

def nodupB (p : List Loc) : Bool := decide p.Nodup

/-- the replicas `p` are exactly a placement of shape xyz -/
def satisfies (rp : RP) (p : List Loc) : Bool :=
  nodupB p && (dcsOf p).any fun d => (racksIn p d).any fun r => shapeAt true rp p d r

/-- the replicas `p` can be completed to a placement of shape xyz -/
def extendable (rp : RP) (p : List Loc) : Bool :=
  nodupB p && (p.isEmpty || (dcsOf p).any fun d => (racksIn p d).any fun r => shapeAt false rp p d r)

/-! ### judges over planned steps (the cluster the plan would produce) -/

/-- the replication settings for which `isGoodMove` is KNOWN to break a satisfied placement (open findings,
    Props.move_breaks_outside_class): z = 0, x ≥ 1, y ≥ 2.  For every other setting Props.move_preserves_placement_partial
    proves that an approved move cannot break it, so a broken placement there gets its own class (not a known finding). -/
def knownBadRp (rp : RP) : Bool := rp.z == 0 && decide (rp.x ≥ 1) && decide (rp.y ≥ 2)
def brokenClass (rp : RP) : String :=
  if knownBadRp rp then "/placement-broken" else "/placement-broken-for-a-setting-proved-safe"

def moveVol (t : Topo) (vid s d : Nat) : Topo :=
  match (t.find? (·.loc.id == s)).bind (fun sv => sv.allVols.find? (·.2.vid == vid)) with
  | none => t
  | some (dt, v) =>
    t.map fun sv =>
      if sv.loc.id == s then { sv with disks := sv.disks.map fun k => if k.dt == dt then { k with vols := k.vols.filter (·.vid != vid) } else k }
      else if sv.loc.id == d then
        (if (sv.disk? dt).isSome then { sv with disks := sv.disks.map fun k => if k.dt == dt then { k with vols := k.vols ++ [v] } else k }
         else { sv with disks := sv.disks ++ [⟨dt, 0, [v]⟩] })
      else sv

def copyVol (t : Topo) (vid s d : Nat) : Topo :=
  match (t.find? (·.loc.id == s)).bind (fun sv => sv.allVols.find? (·.2.vid == vid)) with
  | none => t
  | some (dt, v) =>
    t.map fun sv =>
      if sv.loc.id == d then
        (if (sv.disk? dt).isSome then { sv with disks := sv.disks.map fun k => if k.dt == dt then { k with vols := k.vols ++ [v] } else k }
         else { sv with disks := sv.disks ++ [⟨dt, 0, [v]⟩] })
      else sv

def freeAt (t : Topo) (id dt : Nat) : Int :=
  match t.find? (·.loc.id == id) with | some s => capFree s dt | none => 0

/-- one planned move judged on snapshot `t0` and current planned cluster `t`; returns the classes violated -/
def judgeMove (planner : String) (t0 t : Topo) (vid s d : Nat) : List String :=
  match (t.find? (·.loc.id == s)).bind (fun sv => sv.allVols.find? (·.2.vid == vid)) with
  | none => [planner ++ "/moves-volume-the-source-does-not-hold"]
  | some (dt, v) =>
    let before := repsOf t vid
    let after := repsOf (moveVol t vid s d) vid
    (if (repsOf t vid).any (·.id == d) then [planner ++ "/two-replicas-on-one-server"] else []) ++
    (if freeAt t0 d dt ≤ 0 then [planner ++ "/target-without-free-slot"]
     else if freeAt t d dt ≤ 0 then [planner ++ "/target-overfilled-by-plan"] else []) ++
    (if satisfies (rpOfByte v.rp) before && !satisfies (rpOfByte v.rp) after then [planner ++ brokenClass (rpOfByte v.rp)] else [])

def judgeMoves (planner : String) (t0 : Topo) : Topo → List (Nat × Nat × Nat) → List String
  | _, [] => []
  | t, (vid, s, d) :: rest => judgeMove planner t0 t vid s d ++ judgeMoves planner t0 (moveVol t vid s d) rest

def judgeCopy (t0 t : Topo) (vid s d : Nat) : List String :=
  match (t.find? (·.loc.id == s)).bind (fun sv => sv.allVols.find? (·.2.vid == vid)) with
  | none => ["fix/copies-volume-the-source-does-not-hold"]
  | some (dt, v) =>
    let before := repsOf t vid
    let dloc := ((t.find? (·.loc.id == d)).map (·.loc)).toList
    (if before.any (·.id == d) then ["fix/two-replicas-on-one-server"] else []) ++
    (if freeAt t0 d dt ≤ 0 then ["fix/target-without-free-slot"]
     else if freeAt t d dt ≤ 0 then ["fix/target-overfilled-by-plan"] else []) ++
    (if extendable (rpOfByte v.rp) before && !extendable (rpOfByte v.rp) (dloc ++ before) then ["fix/copy-violates-placement"] else [])

def judgeCopies (t0 : Topo) : Topo → List (Nat × Nat × Nat) → List String
  | _, [] => []
  | t, (vid, s, d) :: rest => judgeCopy t0 t vid s d ++ judgeCopies t0 (copyVol t vid s d) rest

end SwV.Spec.C15
