/-
C31 — spec side: what a user of the chunk cache relies on, and the judges (executable form).

The cache is used as a map  file id → bytes of that chunk.  A lookup may forget (return nothing) and
may return only leading bytes, but whatever it returns must be bytes that were stored FOR THAT FILE ID:

  Admissible h f off r :  r = []  ∨  ∃ d, (f, d) was stored  ∧  r is exactly d[off .. off+|r|)

(`off = 0` for `GetChunk`: a prefix.)  `AdmissibleLast` is the stronger reading "… of the bytes LAST
stored for that id"; the two coincide when an id is only ever stored with one content (chunks are
immutable in SeaweedFS: a file id names one blob), see `WriteOnce`.
-/
import SwV.Model.C31

namespace SwV.Spec.C31
open SwV.Model.C31

abbrev History := List (Fid × Bytes)

def Admissible (h : History) (f : Fid) (off : Nat) (r : Bytes) : Prop :=
  r = [] ∨ ∃ d, (f, d) ∈ h ∧ r <+: d.drop off

/-- the bytes of the newest store for `f` (history is oldest first) -/
def lastStored (h : History) (f : Fid) : Option Bytes :=
  (h.reverse.find? (fun p => p.1 == f)).map (·.2)

def AdmissibleLast (h : History) (f : Fid) (off : Nat) (r : Bytes) : Prop :=
  r = [] ∨ ∃ d, lastStored h f = some d ∧ r <+: d.drop off

/-- no OTHER file id with `f`'s needle key was ever stored: exactly the histories on which the
    key-only disk index cannot confuse `f` with another id -/
def KeyOwned (h : History) (f : Fid) : Prop :=
  ∀ g d, (g, d) ∈ h → g.key = f.key → g = f

/-- `f` was only ever stored with one content -/
def WriteOnce (h : History) (f : Fid) : Prop :=
  ∀ d d', (f, d) ∈ h → (f, d') ∈ h → d = d'

/-! ### executable judges (run by the driver over the IMPLEMENTATION's answers) -/

def admissibleB (h : History) (f : Fid) (off : Nat) (r : Bytes) : Bool :=
  r.isEmpty || h.any (fun p => p.1 == f && r.isPrefixOf (p.2.drop off))

def admissibleLastB (h : History) (f : Fid) (off : Nat) (r : Bytes) : Bool :=
  r.isEmpty || match lastStored h f with
    | some d => r.isPrefixOf (d.drop off)
    | none => false

def keyOwnedB (h : History) (f : Fid) : Bool :=
  h.all (fun p => p.1.key != f.key || p.1 == f)

/-- `none` = fine; otherwise what is wrong with the answer `r` to a lookup of `f`: bytes stored for another id
    with the same needle key / for an id with another key / never stored at that offset at all -/
def judge (h : History) (f : Fid) (off : Nat) (r : Bytes) : Option String :=
  if admissibleB h f off r then none
  else if h.any (fun p => p.1.key == f.key && p.1 != f && r.isPrefixOf (p.2.drop off)) then
    some "other-file-id-bytes"
  else if h.any (fun p => r.isPrefixOf (p.2.drop off)) then some "bytes-of-unrelated-id"
  else some "bytes-never-stored"

end SwV.Spec.C31
