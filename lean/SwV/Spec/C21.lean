/-
C21 — specification side: what the names of one link identity must agree on, and the judge run by
the driver over the IMPLEMENTATION's dump (stored entries T, FindEntry views F, link records K).
-/
import SwV.Model.C18
import SwV.Spec.C18Run
import SwV.Spec.C18
namespace SwV.Spec.C21
open SwV.Model.C18 SwV.Spec.C18Run

def ids (ents : List (RPath × Entry)) : List Nat := ((ents.map (·.2.hl)).filter (· != 0)).eraseDups

def namesOf (ents : List (RPath × Entry)) (h : Nat) : List (RPath × Entry) := ents.filter fun x => x.2.hl == h

def record (kv : List (Nat × Entry)) (h : Nat) : Option Entry := (kv.find? fun x => x.1 == h).map (·.2)

/-- counter_eq_names for identity h: a record exists exactly when names exist, and then counts them -/
def counterOk (ents : List (RPath × Entry)) (kv : List (Nat × Entry)) (h : Nat) : Bool :=
  let n := (namesOf ents h).length
  match record kv h with
  | none => n == 0
  | some r => n != 0 && r.cnt == (n : Int)

/-- links_share for identity h: every name shows the record's content and attributes -/
def shareOk (ents : List (RPath × Entry)) (kv : List (Nat × Entry)) (view : RPath → Option Entry) (h : Nat) : Bool :=
  match record kv h with
  | none => true
  | some r => (namesOf ents h).all fun x =>
      match view x.1 with
      | some v => v.chunks == r.chunks && v.tag == r.tag
      | none => false

def allIds (a b : St) : List Nat := (ids a.ents ++ ids b.ents ++ a.kv.map (·.1) ++ b.kv.map (·.1)).eraseDups

def judge : Judge := fun pre op obs =>
  if !obs.complete then [] else
  let txt := SwV.Spec.C18.opText op
  -- a delete that was told NOT to delete data is a different call-site contract (metadata only)
  let name := match op with
    | .delete _ _ _ false => "delete-meta-only"
    | _ => SwV.Spec.C18.opName op
  let post := obs.post
  let hs := allIds pre post
  -- blame the operation that breaks an identity that was consistent before it
  let counter := hs.filterMap fun h =>
    if counterOk pre.ents pre.kv h && !counterOk post.ents post.kv h then
      let n : Int := (namesOf post.ents h).length
      let c : Int := ((record post.kv h).map (·.cnt)).getD 0
      some (name ++ (if c > n then "/counter-above-names" else "/counter-below-names"), s!"{txt} id={h} names={n} counter={c}")
    else none
  let share := hs.filterMap fun h =>
    if shareOk pre.ents pre.kv (find pre) h && !shareOk post.ents post.kv (fun p => lookup p obs.fview) h then
      some (name ++ "/names-disagree", s!"{txt} id={h}") else none
  -- ... also in a directory listing
  let listing := hs.filterMap fun h =>
    if shareOk pre.ents pre.kv (fun p => lookup p pre.ents) h && !shareOk post.ents post.kv (fun p => lookup p obs.lview) h then
      some (name ++ "/listing-shows-stale-content", s!"{txt} id={h}") else none
  -- an update made through one name shows through every name of the identity
  let through : List (String × String) := match op with
    | .write p _ chunks =>
      match find pre p with
      | some o => if o.hl != 0 && obs.res == .ok && counterOk pre.ents pre.kv o.hl &&
            !((namesOf post.ents o.hl).all fun x => ((lookup x.1 obs.fview).map (·.chunks)) == some chunks)
          then [("write/not-visible-through-all-names", s!"{txt} id={o.hl}")] else []
      | none => []
    | _ => []
  -- a renamed name stays a name of its identity
  let renamed : List (String × String) := match op with
    | .rename src dst =>
      if obs.res == .ok && src != dst then
        let moved := pre.ents.filter fun x => SwV.Spec.C18.under src x.1 && x.2.hl != 0
        if moved.any fun x => ((lookup (SwV.Spec.C18.reroot src dst x.1) post.ents).map (·.hl)) != some x.2.hl
        then [("rename/drops-hard-link", txt)] else []
      else []
    | _ => []
  counter ++ share ++ listing ++ through ++ renamed

end SwV.Spec.C21
