/-
C10 — spec side: what "placed according to its replication setting xyz" means for a returned
server list (paths = (data center, rack, node)), independent of how the list was found.

`placementOK` is the JUDGE (Bool, run by the driver on the IMPLEMENTATION's answer):
  * exactly 1+x+y+z servers, pairwise distinct, each existing in the topology with a free slot for
    the disk type (AvailableSpaceFor ≥ 1 on the node's own counters);
  * the first z+1 share one rack R of one data center D; the next y lie in D, in y pairwise distinct
    racks other than R; the last x lie in x pairwise distinct data centers other than D;
  * a requested data center is D, a requested rack is R, a requested server is the first one.
-/
import SwV.Model.C10
namespace SwV.Spec.C10
open SwV.Model.C10

def findNode (tr : Tree) (p : Path) : Option DN :=
  match tr.find? fun d => d.id == p.1 with
  | none => none
  | some d =>
    match d.racks.find? fun r => r.id == p.2.1 with
    | none => none
    | some r => r.nodes.find? fun n => n.id == p.2.2

def hasSlot (tr : Tree) (t : Nat) (p : Path) : Bool :=
  match findNode tr p with
  | some n => decide (n.avail t ≥ 1)
  | none => false

def nodupB {α : Type} [BEq α] : List α → Bool
  | [] => true
  | x :: r => !r.contains x && nodupB r

/-- the violated conjunct, if any (class suffix for the judge) -/
def placementJudge (tr : Tree) (op : Opt) (servers : List Path) : Option String :=
  if servers.length != 1 + op.x + op.y + op.z then some "wrong-server-count"
  else if !nodupB servers then some "duplicate-server"
  else if !(servers.all (hasSlot tr op.disk)) then some "server-without-free-slot"
  else
    match servers with
    | [] => some "wrong-server-count"
    | m :: _ =>
      let same := servers.take (op.z + 1)
      let racks := (servers.drop (op.z + 1)).take op.y
      let dcs := servers.drop (op.z + 1 + op.y)
      if !(same.all fun p => p.1 == m.1 && p.2.1 == m.2.1) then some "same-rack-rule"
      else if !(racks.all fun p => p.1 == m.1 && p.2.1 != m.2.1) || !nodupB (racks.map fun p => p.2.1) then some "other-racks-rule"
      else if !(dcs.all fun p => p.1 != m.1) || !nodupB (dcs.map fun p => p.1) then some "other-data-centers-rule"
      else if (match op.dc with | some d => m.1 != d | none => false) then some "requested-data-center-ignored"
      else if (match op.rack with | some r => m.2.1 != r | none => false) then some "requested-rack-ignored"
      else if (match op.node with | some n => m.2.2 != n | none => false) then some "requested-server-ignored"
      else none

def placementOK (tr : Tree) (op : Opt) (servers : List Path) : Bool := (placementJudge tr op servers).isNone

end SwV.Spec.C10
