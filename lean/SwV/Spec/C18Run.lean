/-
Shared driver plumbing of the c18 engine (C18, C20, C21): parsing of the trace lines into
model operations and observations, rendering of the model state in the harness's dump
format, and the generic step (DIFF by the model + the property's judge on the
IMPLEMENTATION's observation). Core Lean only.
-/
import SwV.Common.Drv
import SwV.Model.C18
import SwV.Model.C18Late
namespace SwV.Spec.C18Run
open SwV.Drv SwV.Model.C18

/-! ### tokens -/

def pathOfTok (s : String) : RPath := ((s.splitOn "/").filter (· ≠ "")).reverse
def tokOfPath (p : RPath) : String := if p.isEmpty then "/" else "/" ++ "/".intercalate p.reverse

def chunksOfTok (s : String) : List Nat := if s == "-" ∨ s == "" then [] else (s.splitOn ".").map tokNat
def tokOfChunks (cs : List Nat) : String := if cs.isEmpty then "-" else ".".intercalate (cs.map toString)

def entryOfFields (kind tag chunks hl cnt : String) : Entry :=
  { isDir := kind == "d", tag := tokNat tag, chunks := chunksOfTok chunks, hl := tokNat hl, cnt := tokInt cnt }

def tokOfEntry (label : String) (e : Entry) : String :=
  s!"{label}:{if e.isDir then "d" else "f"}:{e.tag}:{tokOfChunks e.chunks}:{e.hl}:{e.cnt}"

def resOfTok : String → Res
  | "ok" => .ok | "err" => .err | "notfound" => .notfound | _ => .diverge
def tokOfRes : Res → String
  | .ok => "ok" | .err => "err" | .notfound => "notfound" | .diverge => "diverge"

def insertStr (x : String × String) : List (String × String) → List (String × String)
  | [] => [x]
  | y :: r => if x.1 < y.1 then x :: y :: r else y :: insertStr x r

def joinOr (xs : List String) : String := if xs.isEmpty then "-" else ";".intercalate xs

/-- the harness's dump of a state: T (stored entries by path), F (FindEntry view of linked names), K (link records) -/
def dumpSt (s : St) : List String :=
  let rows := (s.ents.map fun x => (tokOfPath x.1, tokOfEntry (tokOfPath x.1) x.2)).foldr insertStr []
  let fr := (s.ents.filter fun x => x.2.hl ≠ 0).map fun x =>
    (tokOfPath x.1, tokOfEntry (tokOfPath x.1) ((find s x.1).getD x.2))
  let fr := fr.foldr insertStr []
  let lr := ((s.ents.filter fun x => x.2.hl ≠ 0).map fun x =>
    (tokOfPath x.1, match x.1 with
      | [] => tokOfPath x.1 ++ ":gone"
      | n :: par => match (children s par).find? (·.1 == n) with
        | some c => tokOfEntry (tokOfPath x.1) c.2
        | none => tokOfPath x.1 ++ ":gone")).foldr insertStr []
  let ks := ([1, 2, 3, 4].filterMap fun k => (kvGet s k).map fun r => tokOfEntry (toString k) r)
  ["T=" ++ joinOr (rows.map (·.2)), "F=" ++ joinOr (fr.map (·.2)), "L=" ++ joinOr (lr.map (·.2)), "K=" ++ joinOr ks]

/-! ### parsing an operation line -/

def bit (s : String) : Bool := s == "1"

def parseOp (ln : Line) : Option Op :=
  let a := fun (i : Nat) => ln.args.getD i "0"
  match ln.op with
  | "create" => some (.create (pathOfTok (a 0)) (entryOfFields (a 1) (a 2) (a 3) (a 4) (a 5)) (bit (a 6)))
  | "update" => some (.update (pathOfTok (a 0)) (entryOfFields (a 1) (a 2) (a 3) (a 4) (a 5)))
  | "write" => some (.write (pathOfTok (a 0)) (tokNat (a 1)) (chunksOfTok (a 2)))
  | "link" => some (.link (pathOfTok (a 0)) (pathOfTok (a 1)) (tokNat (a 2)))
  | "delete" => some (.delete (pathOfTok (a 0)) (bit (a 1)) (bit (a 2)) (bit (a 3)))
  | "unlink" => some (.unlink (pathOfTok (a 0)))
  | "rename" => some (.rename (pathOfTok (a 0)) (pathOfTok (a 1)))
  | _ => none

/-- what the implementation showed after the operation -/
structure Obs where
  res : Res
  q : List Nat
  d : List Nat
  post : St                        -- T and K
  fview : List (RPath × Entry)     -- F
  lview : List (RPath × Entry)     -- L
  complete : Bool                  -- false when the case was cut (diverge): no dump

def parseRows (s : String) : List (String × Entry) :=
  if s == "-" ∨ s == "" then [] else
  (s.splitOn ";").filterMap fun row =>
    match row.splitOn ":" with
    | [l, k, t, c, h, n] => some (l, entryOfFields k t c h n)
    | _ => none

def field (outs : List String) (pre : String) : String :=
  match outs.find? (·.startsWith pre) with
  | some t => (t.drop pre.length).toString
  | none => ""

def parseObs (outs : List String) : Obs :=
  let t := parseRows (field outs "T=")
  let f := parseRows (field outs "F=")
  let k := parseRows (field outs "K=")
  { res := resOfTok (outs.getD 0 ""), q := chunksOfTok (field outs "q="), d := chunksOfTok (field outs "d="),
    post := { ents := t.map fun x => (pathOfTok x.1, x.2), kv := k.map fun x => (tokNat x.1, x.2) },
    fview := f.map fun x => (pathOfTok x.1, x.2),
    lview := (parseRows (field outs "L=")).map fun x => (pathOfTok x.1, x.2),
    complete := outs.any (·.startsWith "T=") }

/-! ### the generic driver step -/

abbrev Judge := St → Op → Obs → List (String × String)   -- (class, detail)

def covOf (s : St) (op : Op) (o : Out) : List String :=
  let r := tokOfRes o.res
  let k := match op with
    | .create _ e _ => if e.isDir then "mkdir" else "create"
    | .update .. => "update" | .write .. => "write" | .link .. => "link"
    | .delete _ true _ _ => "delete-rec" | .delete _ false _ _ => "delete-nonrec"
    | .unlink .. => "unlink" | .rename .. => "rename"
  let extra := match op with
    | .delete p false _ _ => if o.res == .err ∧ !(children s p).isEmpty then ["COV delete.nonempty-refused"] else []
    | .delete p true _ _ => if o.res == .ok ∧ !(children s p).isEmpty then ["COV delete.subtree"] else []
    | .rename src dst =>
      (if o.res == .ok ∧ !(children s src).isEmpty then ["COV rename.subtree"] else [])
      ++ (if o.res == .ok ∧ ((find s src).map (fun e => e.hl != 0)).getD false then ["COV rename.hardlinked"] else [])
      ++ (if o.res == .ok ∧ (find s dst).isSome ∧ src ≠ dst then ["COV rename.overwrite"] else [])
    | .create p e _ => if o.res == .ok ∧ (lookup p.tail s.ents).isNone ∧ p.tail ≠ [] then ["COV create.makes-parents"] else
        if o.res == .ok ∧ (find s p).isSome ∧ !e.isDir then ["COV create.overwrite"] else []
    | .link .. => if o.res == .ok then ["COV link.ok"] else []
    | .write p _ _ => if o.res == .ok ∧ ((find s p).map (fun e => e.hl != 0)).getD false then ["COV write.through-link"] else []
    | _ => []
  [s!"COV {k}.{r}"] ++ extra ++ (if !o.q.isEmpty then ["COV emit.queue"] else []) ++ (if !o.d.isEmpty then ["COV emit.direct"] else [])

/-- judge of a rename during which `late` was created: pre-state, src, dst, late, whether the implementation's run
    carried out the create (token `late=1`), observation -/
abbrev LateJudge := St → RPath → RPath → RPath → Bool → Obs → List (String × String)

/-- `renamelate <src> <dst> <trig> <late> <tag> <chunks>`: AtomicRenameEntry src → dst; when the store delete of `trig`
    has been carried out the file `late` (tag, chunks) is inserted into the store, as a second client's create would -/
def lateStep (lj : LateJudge) (s : St) (n : Nat) (ln : Line) : St × List String :=
  let a := fun (i : Nat) => ln.args.getD i "0"
  let src := pathOfTok (a 0)
  let dst := pathOfTok (a 1)
  let late := pathOfTok (a 3)
  match renameLateEntry s src dst (pathOfTok (a 2)) late (entryOfFields "f" (a 4) (a 5) "0" "0") with
  | ((s', r, q), fired) =>
    let head := [tokOfRes r, "q=" ++ tokOfChunks q, "d=-", if fired then "late=1" else "late=0"]
    let model := if r == .diverge then head else head ++ dumpSt s'
    let obs := parseObs ln.outs
    let fails := (lj s src dst late (ln.outs.contains "late=1") obs).map fun (c, d) => specfail n c d
    let dl := diff n ln model
    let next := if !dl.isEmpty && obs.complete then obs.post else s'
    (next, dl ++ fails ++ [s!"COV renamelate.{tokOfRes r}"])

def drvStepL (judge : Judge) (lj : LateJudge) (s : St) (n : Nat) (ln : Line) : St × List String :=
  if ln.op == "reset" then ({}, ["COV reset"]) else
  if ln.op == "renamelate" then lateStep lj s n ln else
  match parseOp ln with
  | none => (s, [s!"DIFF {n} unknown-op {ln.op}"])
  | some op =>
    let (s', o) := step s op
    let head := [tokOfRes o.res, "q=" ++ tokOfChunks o.q, "d=" ++ tokOfChunks o.d]
    let model := if o.res == .diverge then head else head ++ dumpSt s'
    let obs := parseObs ln.outs
    let fails := (judge s op obs).map fun (c, d) => specfail n c d
    let dl := diff n ln model
    -- after a DIFF continue from the IMPLEMENTATION's state, so that one divergence is reported once
    let next := if !dl.isEmpty && obs.complete then obs.post else s'
    (next, dl ++ fails ++ covOf s op o)

/-- the step of the drivers that do not judge the concurrent-create op (C20, C21: model comparison only) -/
def drvStep (judge : Judge) : St → Nat → Line → St × List String := drvStepL judge (fun _ _ _ _ _ _ => [])

end SwV.Spec.C18Run
