/-
C17 spec: what a reader of a file relies on.

A file is a tree of chunks (manifests are containers).  Its content at byte position p is
the byte of a NEWEST chunk covering p — newest w.r.t. (mtime, file key), lexicographically —
and 0 where no chunk covers p.  A read of `len` bytes at `offset` from a file of `fileSize`
bytes delivers min len (fileSize - offset) of these bytes and reports EOF iff the window
reaches the file size.

The judges below are the executable form, run by the driver over the IMPLEMENTATION's output.
-/
import SwV.Model.C17
namespace SwV.Spec.C17
open SwV.Model.C17

def covers (c : Chunk) (p : Nat) : Prop := c.off ≤ p ∧ p < c.off + c.size

instance (c : Chunk) (p : Nat) : Decidable (covers c p) := by unfold covers; infer_instance

/-- (mtime, key) of a is lexicographically ≤ that of b -/
def keyLe (a b : Chunk) : Prop := a.mtime < b.mtime ∨ (a.mtime = b.mtime ∧ a.key ≤ b.key)

instance (a b : Chunk) : Decidable (keyLe a b) := by unfold keyLe; infer_instance

/-- c is a newest chunk of cs covering p -/
def Newest (cs : List Chunk) (p : Nat) (c : Chunk) : Prop :=
  c ∈ cs ∧ covers c p ∧ ∀ c' ∈ cs, covers c' p → keyLe c' c

/-- all data chunks of a chunk tree -/
def flatten : List Node → List Chunk
  | [] => []
  | .data c :: ns => c :: flatten ns
  | .manifest _ _ _ ch :: ns => flatten ch ++ flatten ns

/-- b is a legal content byte at position p -/
def ByteOk (data : Nat → Nat → Nat) (cs : List Chunk) (p b : Nat) : Prop :=
  (∃ c, Newest cs p c ∧ b = data c.fid (p - c.off)) ∨ ((∀ c ∈ cs, ¬ covers c p) ∧ b = 0)

/-- executable ByteOk -/
def byteOk (data : Nat → Nat → Nat) (cs : List Chunk) (p b : Nat) : Bool :=
  let cov := cs.filter (fun c => decide (covers c p))
  if cov.isEmpty then b == 0
  else cov.any fun c => cov.all (fun c' => decide (keyLe c' c)) && b == data c.fid (p - c.off)

/-- a manifest's declared extent contains its data chunks (what mergeIntoManifest writes) -/
def wellFormed : List Node → Bool
  | [] => true
  | .data _ :: ns => wellFormed ns
  | .manifest off size _ ch :: ns =>
    (flatten ch).all (fun c => decide (off ≤ c.off ∧ c.off + c.size ≤ off + size)) && wellFormed ch && wellFormed ns

def extent (cs : List Chunk) : Nat := cs.foldl (fun m c => max m (c.off + c.size)) 0

/-- judge of one ReadAt: n, eof and the delivered bytes -/
def readJudge (data : Nat → Nat → Nat) (cs : List Chunk) (fileSize offset len : Nat) (n : Nat) (eof : Bool) (out : List Nat) : Option String :=
  if n ≠ min len (fileSize - offset) then some "ReadAt/wrong-count"
  else if eof ≠ decide (fileSize ≤ offset + len) then some "ReadAt/wrong-eof"
  else
    match (List.range n).find? (fun i => !byteOk data cs (offset + i) (out.getD i 999)) with
    | none => none
    | some i =>
      if (cs.all fun c => !decide (covers c (offset + i))) then some "ReadAt/hole-not-zeroed" else some "ReadAt/not-newest-chunk"

/-- judge of a view list over the window [lo, hi): sorted, disjoint, inside the window, each view shows a
    newest chunk at the right inner offset, and every covered position of the window is in a view -/
def viewsJudge (cs : List Chunk) (lo hi : Nat) (vs : List View) : Option String :=
  let sorted := (vs.zip (vs.drop 1)).all fun (a, b) => a.logic + a.size ≤ b.logic
  if !sorted then some "views/overlap-or-unsorted"
  else if !(vs.all fun v => 0 < v.size ∧ lo ≤ v.logic ∧ v.logic + v.size ≤ hi) then some "views/outside-window"
  else if !(vs.all fun v => (List.range v.size).all fun i =>
      let p := v.logic + i
      let cov := cs.filter (fun c => decide (covers c p))
      cov.any fun c => cov.all (fun c' => decide (keyLe c' c)) && c.fid == v.fid && v.off + i == p - c.off && v.csize == c.size)
    then some "views/not-newest-chunk"
  else
    let ext := min hi (extent cs)
    if !((List.range (ext - lo)).all fun i =>
        let p := lo + i
        (cs.all fun c => !decide (covers c p)) || vs.any fun v => v.logic ≤ p ∧ p < v.logic + v.size)
    then some "views/covered-byte-missing"
    else none

/-- content of a chunk list at p as the spec defines it, choosing the LAST newest chunk in list order (for comparisons of two lists) -/
def specByte (data : Nat → Nat → Nat) (cs : List Chunk) (p : Nat) : Nat :=
  let cov := cs.filter (fun c => decide (covers c p))
  match cov.foldl (fun (best : Option Chunk) c => match best with
      | none => some c
      | some b => if decide (keyLe b c) then some c else some b) none with
  | none => 0
  | some c => data c.fid (p - c.off)

/-- judge of one bounded read window [offset, offset+size) of a file AFTER its chunks were converted into manifests
    ("converting chunks into manifests never changes that content"): the read delivers exactly `size` bytes and byte i is a
    legal content byte, at offset+i, of the ORIGINAL chunk list `cs` (newest covering chunk, 0 in a hole).  A manifest whose
    advertised extent is narrower than its chunks passes every whole-file read but fails here: a window beyond the
    advertised end skips the manifest and reads zeros / older data. -/
def manifestWindowJudge (data : Nat → Nat → Nat) (cs : List Chunk) (offset size : Nat) (out : List Nat) : Option String :=
  if out.length ≠ size then some "doMaybeManifestize/window-wrong-length"
  else if (List.range size).all (fun i => byteOk data cs (offset + i) (out.getD i 999)) then none
  else some "doMaybeManifestize/window-content-changed"

/-- size of a file as the filer computes it from the top-level chunk list (TotalSize): the largest advertised end -/
def advertisedSize : List Node → Nat
  | [] => 0
  | .data c :: ns => max (c.off + c.size) (advertisedSize ns)
  | .manifest off size _ _ :: ns => max (off + size) (advertisedSize ns)

/-- judge of TotalSize after doMaybeManifestize: the file keeps its size -/
def manifestSizeJudge (before after : Nat) : Option String :=
  if before = after then none else some "doMaybeManifestize/file-size-changed"

end SwV.Spec.C17
