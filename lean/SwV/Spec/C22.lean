/-
C22 — specification side: what a subscriber relies on, and the executable judges.

A subscriber that started from `t0` must have received, at every moment, a PREFIX of the
timestamp-ordered list of all changes with timestamp > t0 (`expected`): no skip, no duplicate,
strictly increasing.  Not having received the newest entries yet is allowed (a delay).
Core Lean only.
-/
namespace SwV.Spec.C22

/-- every change with a timestamp later than `t0`, in log order -/
def expected (log : List Nat) (t0 : Int) : List Nat := log.filter (fun t => decide (t0 < (t : Int)))

/-- the property of one subscriber -/
def DeliveryPrefix (log got : List Nat) (t0 : Int) : Prop := got <+: expected log t0

/-- first position where `got` stops being a prefix of `exp`: (delivered value, expected value if any) -/
def firstMismatch : List Nat → List Nat → Option (Nat × Option Nat)
  | [], _ => none
  | g :: _, [] => some (g, none)
  | g :: gs, e :: es => if g = e then firstMismatch gs es else some (g, some e)

/-- what the implementation's own bookkeeping says about an entry: it is in no retained buffer any
    more (`oldest` = smallest start time of a non-empty buffer) and no completed flush covers it -/
def recycledUnflushed (oldest : Option Int) (lastFlush : Option Int) (e : Nat) : Bool :=
  (match oldest with | some o => decide ((e : Int) < o) | none => false) &&
  (match lastFlush with | some f => decide (f < (e : Int)) | none => true)

/-- The judge: `none` = the delivered sequence is a prefix of the expected one; otherwise the class.
    The class `ReadFromBuffer/skips-recycled-unflushed-buffer` is exactly the excluded condition of
    `delivery_prefix_partial`: the first skipped entry sits in a sealed buffer that was recycled
    before its flush was acknowledged. -/
def deliveryJudge (site : String) (log got : List Nat) (t0 : Int)
    (oldest lastFlush : Option Int) : Option String :=
  match firstMismatch got (expected log t0) with
  | none => none
  | some (g, none) =>
    if log.contains g then some (site ++ "/duplicate-or-out-of-order") else some (site ++ "/unknown-event")
  | some (g, some e) =>
    if ¬ log.contains g then some (site ++ "/unknown-event")
    else if g < e ∨ (g : Int) ≤ t0 then some (site ++ "/duplicate-or-out-of-order")
    else if recycledUnflushed oldest lastFlush e then some "ReadFromBuffer/skips-recycled-unflushed-buffer"
    else some (site ++ "/skipped-event")

end SwV.Spec.C22
