/-
C16 — specification side.  The source of truth is where the shards ARE: the initial layout
changed only by the moves the planner prints.  Per planned move: the source holds the shard,
the destination does not, the destination has a free shard slot, and a move to another rack
does not lift that rack above ceil(14 / #racks) shards of the volume.  Per phase: the
planner's bookkeeping still knows every shard of the initial layout and equals the layout the
printed moves produce.  The judges run over the IMPLEMENTATION's events and bookkeeping.
-/
import SwV.Model.C16
namespace SwV.Spec.C16
open SwV.Model.C16

def holdsShard (n : ENode) (vid s : Nat) : Bool := n.hasEntry vid && hasBit (n.bits vid) s

/-- free shard slots of a server RECOUNTED from where the shards are: its capacity (`cap` = (max − active)·10
    of the hdd disk as declared in the topology, 0 without hdd disk) minus the shards its bitmaps hold -/
def recountFree (cap : Nat → Int) (n : ENode) : Int := cap n.id - (n.total : Int)

/-- one planned move judged on the layout `sp` the earlier moves produced.  `cap` (when given) = the
    declared capacities: the free-slot conjunct is then also judged by the recount, not only by the
    planner's own `freeEcSlot` counter. -/
def judgeMove (phase : String) (sp : ESt) (src vid s dst : Nat) (cap : Option (Nat → Int) := none) : List String :=
  match sp.node? src, sp.node? dst with
  | some sn, some d =>
    (if !holdsShard sn vid s then [phase ++ "/moves-shard-the-source-does-not-hold"] else []) ++
    (if holdsShard d vid s then [phase ++ "/target-already-holds-shard"] else []) ++
    (if d.free ≤ 0 then [phase ++ "/target-without-free-slot"] else []) ++
    -- the counter says there is room, the shards that are really there say there is none
    (match cap with
     | some c => if d.free > 0 && recountFree c d ≤ 0 then [phase ++ "/target-full-by-recount-of-its-shards"] else []
     | none => []) ++
    (if d.rack != sn.rack && decide (sp.rackCount vid d.rack + 1 > ceilDiv 14 sp.racks.length) then [phase ++ "/rack-over-even-spread"] else [])
  | _, _ => [phase ++ "/unknown-server"]

def uniq : List Nat → List Nat
  | [] => []
  | a :: l => if l.contains a then uniq l else a :: uniq l
def vidsOf (st : ESt) : List Nat := uniq (st.nodes.flatMap fun n => n.shards.map (·.1))
def allShards (st : ESt) : List (Nat × Nat) :=
  (vidsOf st).flatMap fun v => ((List.range 14).filter fun s => st.nodes.any (holdsShard · v s)).map fun s => (v, s)

def sameBitmaps (a b : ESt) : Bool :=
  let vids := uniq (vidsOf a ++ vidsOf b)
  a.nodes.all fun n => match b.node? n.id with
    | some m => vids.all fun v => n.bits v == m.bits v
    | none => false

/-- bookkeeping `impl` after a phase against the initial layout and the planned layout `sp` -/
def judgeBook (phase : String) (init sp impl : ESt) : List String :=
  if (allShards init).any fun (v, s) => !(impl.nodes.any (holdsShard · v s)) then [phase ++ "/shard-dropped-from-bookkeeping"]
  else if !sameBitmaps sp impl then [phase ++ "/bookkeeping-differs-from-planned-moves"] else []

end SwV.Spec.C16
