/-
C03 — specification side: what a crash may and may not do, and the judge.

Property text: if a volume server stops at any point while appending blobs or tombstones (the data and index
files keep any prefix of what was being written), reopening the volume succeeds, every blob whose write had
fully reached both files reads back with its exact content (deleted ones stay deleted), no read ever returns
corrupted or foreign data, and the volume accepts and serves new writes afterwards.
-/
import SwV.Model.C03
namespace SwV.Spec.C03
open SwV.Model.C02 SwV.Model.C03

inductive Op where
  | put (id cookie : Nat) (data : Bytes)
  | del (id cookie : Nat)
deriving Repr, DecidableEq

/-- one acknowledged operation of the pre-crash history: whether it took effect (a put that was stored or
    recognised as unchanged; a delete that freed something) and the file sizes after it -/
structure OpRec where
  op : Op
  effective : Bool
  datEnd : Nat
  idxEnd : Nat
deriving Repr, DecidableEq

/-- abstract content of a volume: id ↦ some data (stored) | none (deleted); unknown ids are absent -/
abbrev AState := List (Nat × Option Bytes)

def aset (s : AState) (id : Nat) (v : Option Bytes) : AState := (id, v) :: s.filter (·.1 != id)

def aget (s : AState) (id : Nat) : Option (Option Bytes) := (s.find? (·.1 == id)).map (·.2)

def applyRec (s : AState) (r : OpRec) : AState :=
  if !r.effective then s else
  match r.op with
  | .put id _ data => aset s id (some data)
  | .del id _ => aset s id none

def stateAfter (h : List OpRec) : AState := h.foldl applyRec []

/-- the operations that had FULLY reached both files when the crash left `p` bytes of .dat and `q` of .idx -/
def committed (h : List OpRec) (p q : Nat) : List OpRec :=
  h.takeWhile fun r => r.datEnd ≤ p ∧ r.idxEnd ≤ q

/-- crash states of the property's quantifier: data append precedes index append, so every index byte present
    belongs to an entry whose record is completely in the data file -/
def admissible (h : List OpRec) (p q : Nat) : Bool :=
  q ≤ ((h.filter fun r => r.datEnd ≤ p).map (·.idxEnd)).foldl max 0

/-- does the crash leave data-file bytes behind the record of the last complete index entry, and is that
    entry a tombstone? (the input family of the known read-only finding) -/
def tailBehindTombstone (idx : Bytes) (p q : Nat) : Bool :=
  match (idxEntries (idx.take q)).getLast? with
  | some e => e.size < 0 ∧ e.off * 8 + actualSize 0 3 < p
  | none => false

/-- observed behaviour of the reopened volume -/
structure Observed where
  load : String              -- ok | failed | panic
  readOnly : Bool
  reads : List (Nat × ReadRes)
  write : WriteRes
  readBack : ReadRes
deriving Repr

/-- all violated clauses, as judge classes -/
def crashJudge (h : List OpRec) (idx : Bytes) (p q : Nat) (newData : Bytes) (o : Observed) : List String :=
  if !admissible h p q then [] else
  if o.load ≠ "ok" then
    [if q % 16 ≠ 0 then s!"reopen/{o.load}-on-torn-index-entry" else s!"reopen/{o.load}"]
  else
    let st := stateAfter (committed h p q)
    let readFails := o.reads.filterMap fun (id, got) =>
      match aget st id, got with
      | none, .data _ => some "read/never-written-blob-served"
      | none, _ => none
      | some none, .data _ => some "read/deleted-blob-served"
      | some none, _ => none
      | some (some want), .data bs =>
        if bs = want then none else some "read/returns-foreign-or-stale-data"
      | some (some want), _ =>
        if want.isEmpty then some "read/committed-empty-blob-lost-after-reload" else some "read/committed-blob-lost"
    let w :=
      if o.readOnly ∨ o.write ≠ .ok then
        [if tailBehindTombstone idx p q then "write/read-only-after-tail-behind-tombstone" else "write/refused-after-reopen"]
      else if o.readBack ≠ .data newData then ["write/accepted-but-not-served"] else []
    readFails.eraseDups ++ w

end SwV.Spec.C03
