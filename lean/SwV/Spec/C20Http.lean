/-
C20, HTTP write handlers — spec side and driver step for the lines `hput` / `happend` of the c18 harness
(variant "http"): the gc_safe / gc_complete judges of `SwV.Spec.C20` applied to the save path of the write
handlers, plus "every chunk the request uploaded is referenced afterwards or handed to a deletion sink".
Core Lean only.
-/
import SwV.Common.Drv
import SwV.Model.C18
import SwV.Model.C20Http
import SwV.Spec.C18Run
import SwV.Spec.C20
namespace SwV.Spec.C20Http
open SwV.Drv SwV.Model.C18 SwV.Model.C20Http SwV.Spec.C18Run SwV.Spec.C20

/-- `hput|happend <path> <uid> <inlineLimit> <chunkSize> <bodyLen> <storeDown>` -/
def parseReq (ln : Line) : Option Req :=
  let a := fun (i : Nat) => ln.args.getD i "0"
  let mk := fun (app : Bool) => some
    { append := app, path := pathOfTok (a 0), uid := tokNat (a 1), limit := tokNat (a 2),
      chunkSize := (if tokNat (a 3) = 0 then 1 else tokNat (a 3)), len := tokNat (a 4), down := bit (a 5) : Req }
  match ln.op with
  | "hput" => mk false
  | "happend" => mk true
  | _ => none

def reqText (r : Req) : String :=
  s!"{if r.append then "happend" else "hput"} {tokOfPath r.path} chunk={r.chunkSize} len={r.len} limit={r.limit} down={r.down}"

/-- the request is an append onto inline content: the handler answers "append to small file is not supported yet"
    before it saves anything (its uploaded chunks were never referenced; the property text does not speak about them) -/
def refusedInline (pre : St) (next : Nat) (r : Req) : Bool := (entryToSave pre next r).isNone

/-- the judge: `pre`/`next` = model state before the request, `obs` = what the implementation showed, `u` = chunks it uploaded -/
def judgeH (pre : St) (next : Nat) (r : Req) (obs : Obs) (u : Nat) : List (String × String) :=
  if !obs.complete then [] else
  let txt := reqText r
  let opn := if r.append then "happend" else "hput"
  let failed := obs.res != .ok
  -- a request that was saved went through Filer.CreateEntry: the call-site family of the namespace judge
  let name := if failed then opn ++ "-failed-save" else "create"
  let rp := refsPre pre
  let rq := refsPost obs
  let emitted := obs.q ++ obs.d
  -- gc_safe: nothing handed to a deletion sink is still referenced afterwards
  let unsafeCs := emitted.filter fun c => exclusive rp c && referenced rq c
  let safe := unsafeCs.map fun c =>
    ((if viaLink rq c then name ++ "/deletes-chunk-of-live-hardlink"
      else if viaLink rp c then name ++ "/deletes-chunk-of-copy-that-lost-its-link"
      else name ++ "/deletes-chunk-of-live-entry"), s!"{txt} chunk={c}")
  -- gc_complete: what a successful (over)write stopped referencing is handed to a sink
  let dropped := if !failed then
      (rp.flatMap (·.chunks)).eraseDups.filter fun c => !referenced rq c && !emitted.contains c
    else []
  let complete := dropped.map fun c =>
    ((if viaLink rp c then name ++ "/chunk-of-removed-hardlink-not-deleted" else name ++ "/unreferenced-chunk-not-deleted"), s!"{txt} chunk={c}")
  -- every chunk this request uploaded is referenced by the saved entry or, when the save failed, handed to a sink
  let lost := if refusedInline pre next r then [] else
    (List.range' next u).filter fun c => !referenced rq c && !emitted.contains c
  let lostF := lost.map fun c => (name ++ "/uploaded-chunk-neither-referenced-nor-deleted", s!"{txt} chunk={c}")
  safe ++ complete ++ lostF

def covH (s : St) (next : Nat) (r : Req) (o : SwV.Model.C20Http.Out) : List String :=
  let opn := if r.append then "happend" else "hput"
  let existing := if r.append then find s (targetPath s r.path) else none
  [s!"COV {opn}.{tokOfRes o.res}"]
  ++ (match o.stage with
      | .refused => ["COV happend.inline-refused"]
      | .saveFailed =>
        [s!"COV {opn}.failed-save", if r.down then "COV http.failed-save-store-down" else "COV http.failed-save-store-up"]
        ++ (if !(newIds next r).isEmpty then ["COV http.cleanup-emitted"] else [])
        ++ (match existing with
            | some ex => (if !ex.chunks.isEmpty then ["COV happend.failed-save-existing-chunks"] else [])
                         ++ (if ex.hl != 0 then ["COV happend.failed-save-through-link"] else [])
            | none => [])
      | .saved =>
        (if savesInline s r then ["COV hput.inline"] else [])
        ++ (match existing with
            | some ex => ["COV happend.onto-existing"] ++ (if ex.hl != 0 then ["COV happend.through-link"] else [])
            | none => [])
        ++ (if !o.q.isEmpty then ["COV http.overwrite-emits"] else []))
  ++ (if targetPath s r.path != r.path then ["COV http.onto-directory"] else [])
  ++ (if (upload r).2 > 1 then ["COV http.multi-chunk"] else [])

/-- driver step of the C20 driver: `reset` and the namespace lines go to the shared step of the c18 engine, the
    HTTP lines are recomputed with `hstep` and judged with `judgeH` -/
def drvStepH (hs : HSt) (n : Nat) (ln : Line) : HSt × List String :=
  if ln.op == "reset" then ({}, ["COV reset"]) else
  match parseReq ln with
  | none =>
    let (s', out) := drvStep SwV.Spec.C20.judge hs.st n ln
    ({ hs with st := s' }, out)
  | some r =>
    let (hs', o) := hstep hs r
    let model := [tokOfRes o.res, "q=" ++ tokOfChunks o.q, "d=-", s!"u={o.uploaded}"] ++ dumpSt hs'.st
    let obs := parseObs ln.outs
    let u := tokNat (field ln.outs "u=")
    let fails := (judgeH hs.st hs.next r obs u).map fun (c, d) => specfail n c d
    let dl := diff n ln model
    -- after a DIFF continue from the IMPLEMENTATION's state, so that one divergence is reported once
    let next : HSt := if !dl.isEmpty && obs.complete then { st := obs.post, next := hs.next + u } else hs'
    (next, dl ++ fails ++ covH hs.st hs.next r o)

end SwV.Spec.C20Http
