/-
C22 — specification side of the persisted-log path: what one call of `ReadPersistedLogBuffer` from
`T` owes the subscriber (every persisted change later than `T`, once, in order), and the judge over
the IMPLEMENTATION's outputs (its own listing of the segment files + what it delivered).
Core Lean only.
-/
import SwV.Spec.C22
namespace SwV.Spec.C22

/-- a segment file as the implementation lists it: (day number, minute of the day, entry timestamps) -/
abbrev IFile := Nat × Nat × List Nat

def allPersisted (files : List IFile) : List Nat := files.flatMap (·.2.2)

/-- the property of one disk read -/
def DiskExact (files : List IFile) (got : List Nat) (T : Int) : Prop := got = expected (allPersisted files) T

/-- minute since the epoch -/
def minuteIdx (ts : Nat) : Nat := ts / 60000000000

/-- `e` is stored in a segment file named after an EARLIER minute than `e`'s own: the buffer that
    was flushed into that file started in one minute and ended in a later one -/
def inEarlierNamedFile (files : List IFile) (e : Nat) : Bool :=
  files.any fun F => F.2.2.contains e && decide (F.1 * 1440 + F.2.1 < minuteIdx e)

def skipClass (site : String) (files : List IFile) (e : Nat) : String :=
  if inEarlierNamedFile files e then "ReadPersistedLogBuffer/skips-segment-file-by-name" else site ++ "/skipped-event"

/-- `none` = exactly the persisted entries later than `T`, in order -/
def diskReadJudge (files : List IFile) (got : List Nat) (T : Int) : Option String :=
  let all := allPersisted files
  let exp := expected all T
  match firstMismatch got exp with
  | none =>
    (match exp.drop got.length with
     | [] => none
     | e :: _ => some (skipClass "ReadPersistedLogBuffer" files e))
  | some (g, none) =>
    if all.contains g then some "ReadPersistedLogBuffer/duplicate-or-out-of-order" else some "ReadPersistedLogBuffer/unknown-event"
  | some (g, some e) =>
    if ¬ all.contains g then some "ReadPersistedLogBuffer/unknown-event"
    else if g < e ∨ (g : Int) ≤ T then some "ReadPersistedLogBuffer/duplicate-or-out-of-order"
    else some (skipClass "ReadPersistedLogBuffer" files e)

/-- re-classification of a subscriber's skipped event: the first expected entry that was not
    delivered sits in a file named after an earlier minute -/
def reclassSkip (cls site : String) (files : List IFile) (log got : List Nat) (t0 : Int) : String :=
  if cls == site ++ "/skipped-event" then
    match firstMismatch got (expected log t0) with
    | some (_, some e) => skipClass site files e
    | _ => cls
  else cls

end SwV.Spec.C22
