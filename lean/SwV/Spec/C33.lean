/-
C33 — specification side: what the uploader's caller relies on.

* The ORIGINAL of an upload is the data handed to `UploadData` — or, when the caller says the input
  is already compressed, what `DecompressData` makes of it (the input itself when it is not gzip).
* Whatever the file name, mime type, sniffing results and cipher flag: a full fetch through
  `ReadUrlAsStream` yields the original, a ranged fetch [off, off+size) inside it yields exactly that
  slice, and the reported size is the original's length.
* Decompressing arbitrary input returns (possibly an error), it never panics.
-/
import SwV.Model.C33
namespace SwV.Spec.C33
open SwV.Model.C33

def original (c : Codec) (i : UpIn) : Bytes :=
  if i.inputCompressed then (decompress c i.data).1 else i.data

/-- the caller tells the truth about `inputCompressed`: the data is gzip of something, or does not look like gzip at all -/
def Honest (c : Codec) (i : UpIn) : Prop :=
  i.inputCompressed = true → (∃ o, i.data = c.gzip o) ∨ isGz i.data = false

structure CodecLaws (c : Codec) : Prop where
  gunzip_gzip : ∀ x, c.gunzip (c.gzip x) = some x
  magic_gzip : ∀ x, isGz (c.gzip x) = true
  dec_enc : ∀ x, c.dec (c.enc x) = some x

def wanted (orig : Bytes) : Fetch → Option Bytes
  | .full => some orig
  | .range off size => if size = 0 ∨ off + size > orig.length then none else some ((orig.drop off).take size)

/-- judge of one fetch (in-bounds requests only; others are outside the property) -/
def fetchJudge (orig : Bytes) (f : Fetch) (got : Option Bytes) : Option String :=
  match f, wanted orig f with
  | .full, w => if got = w then none else some "ReadUrlAsStream/full-fetch-differs-from-original"
  | .range _ _, some w => if got = some w then none else some "ReadUrlAsStream/ranged-fetch-differs-from-original"
  | .range _ _, none => none

/-- FNV-1a (64 bit): concurrent fetches travel as (length, digest) -/
def fnv64 (bs : Bytes) : UInt64 :=
  bs.foldl (fun h b => (h ^^^ UInt64.ofNat b) * 1099511628211) 14695981039346656037

/-- judge of one of several CONCURRENT ranged fetches (each judged against the original of the blob it addressed);
    the answer travels as (length, fnv64 digest) -/
def fetchDigestJudge (orig : Bytes) (off size : Nat) (got : Option (Nat × UInt64)) : Option String :=
  match wanted orig (.range off size) with
  | some w => if got = some (w.length, fnv64 w) then none
              else some "ReadUrlAsStream/concurrent-ranged-fetch-differs-from-original"
  | none => none

def sizeJudge (orig : Bytes) (reported : Nat) : Option String :=
  if reported = orig.length then none else some "doUploadData/reported-size-is-not-the-original-length"

end SwV.Spec.C33
