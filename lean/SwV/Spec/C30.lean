/-
C30 spec: POSIX byte semantics of one open file.

The file is a byte array.  write(off, d) with d ≠ [] zero-extends the array to `off` if needed and puts d
there; truncate(n) cuts or zero-extends to n bytes; flush changes nothing.  A read of `len` bytes at `off`
returns the bytes [off, min(off+len, size)).  After a flush the stored entry (chunks resolved newest-mtime-
first, C17's overlay, zero-filled up to max(chunk extent, FileSize attribute)) is the same byte array.

Judges = executable form, run by the driver over the IMPLEMENTATION's outputs.
-/
import SwV.Model.C30
import SwV.Spec.C17
namespace SwV.Spec.C30
open SwV.Model.C30

abbrev File := List Nat

def pwrite (f : File) (off : Nat) (d : List Nat) : File :=
  if d.isEmpty then f else
  let f' := f ++ List.replicate (off + d.length - f.length) 0
  f'.take off ++ d ++ f'.drop (off + d.length)

def ptruncate (f : File) (n : Nat) : File := f.take n ++ List.replicate (n - f.length) 0

def pread (f : File) (off len : Nat) : List Nat := (f.drop off).take len

/-- content of a stored entry: chunks in mtime order (position = rank), C17's overlay -/
def contentOf (cs : List SChunk) (fileSize : Nat) : List Nat :=
  let total := max (extent cs) fileSize
  (List.range total).map (SwV.Spec.C17.specByte (dataOf cs) (toC17 cs))

/-- facts about the history of the open file (since `reset`) that name the defect class -/
structure Hist where
  truncDirty  : Bool := false   -- a truncate below the size happened while the buffer held dirty lists
  truncChunks : Bool := false   -- a truncate below the size happened while the entry had chunks
  readSeen    : Bool := false   -- FileHandle.Read has been called on this handle (it caches the chunk view and the reader)
  savedAfterRead : Bool := false -- the entry's chunk list or its FileSize attribute (truncate, or a write that extends the file) changed after such a Read
deriving Repr

def truncClass (h : Hist) (pfx : String) : String :=
  if h.truncChunks ∧ !h.truncDirty then "Setattr/truncate-drops-chunks-below-new-size"
  else if h.truncDirty ∧ !h.truncChunks then "Setattr/dirty-pages-not-truncated"
  else if h.truncDirty ∧ h.truncChunks then "Setattr/truncate-with-chunks-and-dirty-pages"
  else pfx

/-- FileHandle.Read against the POSIX read -/
def readJudge (h : Hist) (f : File) (off len : Nat) (n : Nat) (out : List Nat) : Option String :=
  let want := pread f off len
  if n = want.length ∧ out = want then none
  else some (truncClass h (if h.savedAfterRead then "FileHandle.Read/cached-chunk-view-stale" else "Read/wrong-bytes"))

/-- ReadDirtyDataAt: every byte it writes into the buffer is the current byte of the file -/
def dirtyReadJudge (h : Hist) (f : File) (off : Nat) (bytes : List Nat) (mask : List Nat) : Option String :=
  let bad := (List.range bytes.length).any fun i =>
    mask.getD i 0 = 1 ∧ (f.length ≤ off + i ∨ f.getD (off + i) 0 ≠ bytes.getD i 0)
  if bad then some (truncClass h "ReadDirtyDataAt/byte-not-in-file") else none

/-- after Flush: the stored entry is the file -/
def flushJudge (h : Hist) (f : File) (cs : List SChunk) (fileSize : Nat) : Option String :=
  if contentOf cs fileSize = f then none
  else some (truncClass h "Flush/content-ne-posix")

end SwV.Spec.C30
