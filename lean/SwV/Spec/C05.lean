/-
C05 — specification side.  The reference is an association map key ↦ (offset, size):
`set` stores the latest value and returns the previous one, `delete` negates a positive size and
returns it (0 otherwise), `get` returns what is stored.  The judges are the executable forms the
driver runs over the IMPLEMENTATION's outputs; they receive the reference's answer for the key
(the driver keeps the reference in a tree map keyed like `Ref` below).
-/
import SwV.Model.C05
namespace SwV.Spec.C05
open SwV.Model.C05

/-- reference map: newest binding first -/
abbrev Ref := List (Nat × Nat × Int)

def Ref.get (r : Ref) (k : Nat) : Option (Nat × Int) := (r.find? (·.1 == k)).map (·.2)
def Ref.set (r : Ref) (k o : Nat) (s : Int) : Ref × (Nat × Int) := ((k, o, s) :: r, (r.get k).getD (0, 0))
def Ref.delete (r : Ref) (k : Nat) : Ref × Int :=
  match r.get k with
  | some (o, s) => if s > 0 then ((k, o, -s) :: r, s) else (r, 0)
  | none => (r, 0)

/-- full offset of a model value -/
def fullOff (lo hi : Nat) : Nat := lo + hi * 4294967296

def low32 (o : Nat) : Nat := o % 4294967296

/-- judge of `CompactMap.Set`'s returned old value -/
def setJudge (refOld : Option (Nat × Int)) (implOff : Nat) (implSize : Int) : Option String :=
  let (o, s) := refOld.getD (0, 0)
  if implOff = o ∧ implSize = s then none
  else if low32 implOff = low32 o ∧ implSize = s then some "CompactSection.setOverflowEntry/stale-offset-high-byte"
  else some "CompactMap.Set/wrong-old-value"

/-- judge of `CompactMap.Get` -/
def getJudge (key : Nat) (refVal : Option (Nat × Int)) (impl : Option (Nat × Nat × Int)) : Option String :=
  match refVal, impl with
  | none, none => none
  | none, some (k, _, _) => if k ≠ key then some "CompactMap.Get/returns-entry-of-other-key" else some "CompactMap.Get/absent-key-found"
  | some _, none => some "CompactMap.Get/present-key-not-found"
  | some (o, s), some (k, io, is) =>
    if k ≠ key then some "CompactMap.Get/returns-entry-of-other-key"
    else if io = o ∧ is = s then none
    else if low32 io = low32 o ∧ is = s then some "CompactSection.setOverflowEntry/stale-offset-high-byte"
    else some "CompactMap.Get/wrong-value"

/-- judge of `CompactMap.Delete`'s return value -/
def delJudge (refVal : Option (Nat × Int)) (impl : Int) : Option String :=
  let want : Int := match refVal with | some (_, s) => if s > 0 then s else 0 | none => 0
  if impl = want then none
  else if want = 0 ∧ impl < 0 then some "CompactSection.Delete/negative-size-on-repeated-delete"
  else if refVal.isNone then some "CompactMap.Delete/deletes-entry-of-other-key"
  else some "CompactMap.Delete/wrong-removed-size"

/-- judge of `AscendingVisit` on small maps: the entries in key order -/
def visitJudge (want impl : List (Nat × Nat × Int)) : Option String :=
  if want = impl then none
  else if want.map (fun e => (e.1, low32 e.2.1, e.2.2)) = impl.map (fun e => (e.1, low32 e.2.1, e.2.2)) then
    some "CompactSection.setOverflowEntry/stale-offset-high-byte"
  else some "CompactMap.AscendingVisit/differs"

/-- `nget` on a needle mapper: a deleted key may read as absent or with a negative size -/
def ngetJudge (kind : String) (reloaded : Bool) (key : Nat) (refVal : Option (Nat × Int)) (impl : Option (Nat × Nat × Int)) : Option String :=
  match refVal with
  | none => if impl.isNone then none else some s!"{kind}.Get/absent-key-found"
  | some (o, s) =>
    if s < 0 then
      (match impl with
       | none => none
       | some (_, _, is) => if is < 0 then none else some s!"{kind}.Get/deleted-key-reads-live")
    else if decide (s = 0) && reloaded && (match impl with | none => true | some (_, _, is) => decide (is < 0)) then
      some s!"{kind}-reload/empty-needle-not-found"
    else match impl with
      | none => if s = 0 ∧ reloaded then some s!"{kind}-reload/empty-needle-not-found" else some s!"{kind}.Get/present-key-not-found"
      | some (k, io, is) =>
        if k = key ∧ io = o ∧ is = s then none
        else if k = key ∧ low32 io = low32 o ∧ is = s then some "CompactSection.setOverflowEntry/stale-offset-high-byte"
        else some s!"{kind}.Get/wrong-value"

/-! ### which high byte came back (5-byte offsets)

The recorded defect `CompactSection.setOverflowEntry/stale-offset-high-byte` returns the latest lower
four offset bytes and size together with an OLDER high byte OF THE SAME KEY (the overflow slot keeps
the byte it was created with).  The property text asks for "the latest offset" of each key, so an
offset whose high byte this key was NEVER stored with is a different failure (for instance the byte
of a neighbouring entry): the refined judges below keep the recorded class only when the returned
high byte occurs in the key's own history and name a class of their own otherwise.  They are what
the driver runs; they accept whatever the unrefined judges accept (`refineStale_none`). -/

def hiOf (o : Nat) : Nat := o / 4294967296

def staleClass : String := "CompactSection.setOverflowEntry/stale-offset-high-byte"

/-- the high bytes `k` was ever stored with (the reference keeps every binding, newest first) -/
def Ref.his (r : Ref) (k : Nat) : List Nat := (r.filter (·.1 == k)).map fun b => hiOf b.2.1

def refineStale (his : List Nat) (implOff : Nat) (other : String) : Option String → Option String
  | none => none
  | some c => if c == staleClass && !(his.contains (hiOf implOff)) then some other else some c

theorem refineStale_none (his : List Nat) (implOff : Nat) (other : String) :
    refineStale his implOff other none = none := rfl

def setJudgeH (refOld : Option (Nat × Int)) (his : List Nat) (implOff : Nat) (implSize : Int) : Option String :=
  refineStale his implOff "CompactMap.Set/old-offset-high-byte-never-stored-for-key" (setJudge refOld implOff implSize)

def getJudgeH (key : Nat) (refVal : Option (Nat × Int)) (his : List Nat) (impl : Option (Nat × Nat × Int)) : Option String :=
  refineStale his ((impl.map (·.2.1)).getD 0) "CompactMap.Get/offset-high-byte-never-stored-for-key" (getJudge key refVal impl)

def ngetJudgeH (kind : String) (reloaded : Bool) (key : Nat) (refVal : Option (Nat × Int)) (his : List Nat)
    (impl : Option (Nat × Nat × Int)) : Option String :=
  refineStale his ((impl.map (·.2.1)).getD 0) s!"{kind}.Get/offset-high-byte-never-stored-for-key"
    (ngetJudge kind reloaded key refVal impl)

/-- `AscendingVisit`: some listed entry carries a high byte its key was never stored with -/
def visitJudgeH (his : Nat → List Nat) (want impl : List (Nat × Nat × Int)) : Option String :=
  match visitJudge want impl with
  | none => none
  | some c =>
    if c == staleClass && (want.zip impl).any (fun wi => wi.1.2.1 != wi.2.2.1 && !((his wi.1.1).contains (hiOf wi.2.2.1))) then
      some "CompactMap.AscendingVisit/offset-high-byte-never-stored-for-key"
    else some c

theorem visitJudgeH_none (his : Nat → List Nat) (want impl : List (Nat × Nat × Int)) (h : visitJudge want impl = none) :
    visitJudgeH his want impl = none := by
  simp [visitJudgeH, h]

/-- facts about the history that explain a counter mismatch after a reload -/
structure History where
  emptyPut : Bool := false       -- some put had size ≤ 0
  noopDelete : Bool := false     -- the in-memory map wrote a tombstone for an absent or already deleted key
  rewritten : Bool := false      -- some key was written while a record for it already existed

/-- counters (fileCount deletedCount contentSize deletedSize maxKey idxEntries) after a reload must
    equal the ones maintained online -/
def reloadJudge (kind : String) (h : History) (online reloaded : List String) : Option String :=
  if online = reloaded then none
  else if h.emptyPut then some s!"{kind}-reload/empty-needle-counted-as-deletion"
  else if h.noopDelete then some "mem-reload/noop-delete-counted-as-deletion"
  else if kind != "mem" ∧ h.rewritten then some "metricFromIndexFile/rewritten-key-counted-as-one-file"
  else some s!"{kind}-reload/counters-differ"

end SwV.Spec.C05
