/-
C02 — specification side: what a user of the needle format relies on, and the judges
(executable forms, run by the driver over the IMPLEMENTATION's outputs).

Property text: every blob the system can write is stored as an 8-byte-aligned record that decodes back
to the same blob; scanning a volume file visits exactly the written records in order; a stored record
whose data bytes are altered is reported as corrupted instead of being returned.
-/
import SwV.Model.C02
namespace SwV.Spec.C02
open SwV.Model.C02

/-- the blob a reader must get back for a stored needle (version `v`): all stored fields when there is
    data; only identity and append time when the data is empty (metadata of an empty blob is not stored) -/
def expectedDecode (v : Nat) (n : Needle) : Decoded :=
  { cookie := n.cookie, id := n.id, size := recSize n,
    body := if n.data.length > 0 then storedBody n else {},
    appendAtNs := if v = 3 then n.appendAtNs else 0 }

/-- record alignment: the length of what was written is the advertised actual size, a multiple of 8,
    with between 1 and 8 bytes of padding -/
def alignedJudge (v : Nat) (n : Needle) (written : Nat) (advertised : Int) : Option String :=
  if written % 8 ≠ 0 then some "append/record-not-8-byte-aligned"
  else if (written : Int) ≠ advertised then some "append/actual-size-differs-from-bytes-written"
  else
    let pad := written - (16 + recSize n + 4 + tsLen v)
    if 1 ≤ pad ∧ pad ≤ 8 then none else some "append/padding-out-of-range"

def sizesJudge (size : Int) (pad actual : Int) : Option String :=
  if size < 0 ∨ size ≥ 2 ^ 31 - 28 then none
  else if actual % 8 = 0 ∧ 1 ≤ pad ∧ pad ≤ 8 then none else some "sizes/not-aligned"

/-- reading a written needle back -/
def readJudge (v : Nat) (n : Needle) (got : Option Decoded) : Option String :=
  match got with
  | none => some "read/written-needle-not-readable"
  | some d => if d = expectedDecode v n then none else some "read/decodes-to-other-blob"

/-- what a scan of a file made only of written records must report, per record -/
structure ScanRec where
  offset : Nat
  cookie : Nat
  id : Nat
  size : Nat
  body : Body
  appendAtNs : Nat
deriving DecidableEq, Repr

def expectedScan (v : Nat) (recs : List (Nat × Needle)) : List ScanRec :=
  recs.map fun (off, n) =>
    let e := expectedDecode v n
    ⟨off, e.cookie, e.id, e.size, e.body, e.appendAtNs⟩

def scanJudge (v : Nat) (recs : List (Nat × Needle)) (ended : Bool) (got : List ScanRec) : Option String :=
  if !ended then some "scan/failed-on-clean-file"
  else if got = expectedScan v recs then none
  else if got.length ≠ recs.length then some "scan/visits-wrong-number-of-records"
  else some "scan/visits-differ-from-written-records"

/-- single-bit corruption of a data byte must be reported (status letter `c`) -/
def flipsJudge (dataLen : Nat) (statuses : List Char) : Option String :=
  let dataBits := (statuses.drop (8 * 20)).take (8 * dataLen)
  if dataBits.length ≠ 8 * dataLen then some "flips/short-status"
  else if dataBits.all (· == 'c') then none else some "flips/altered-data-not-reported"

end SwV.Spec.C02
