/-
C08 — specification side: the grammar of valid encodings and the judges
(executable `Bool` forms of the property, run by the driver over the
IMPLEMENTATION's outputs; the theorems in Props/C08.lean are about the same
definitions applied to the model).
-/
import SwV.Model.C08
namespace SwV.Spec.C08
open SwV.Model.C08

/-- Property clause "decodes back to itself", replica placement strings: an accepted
    string must be the canonical 3-digit form of the value it decoded to; the empty
    string is the documented default (000). -/
def rpStrJudge (input : List Char) (ok : Bool) (rp : RP) : Option String :=
  if !ok then none
  else if input.isEmpty then (if rp = ⟨0, 0, 0⟩ then none else some "rp/empty-not-default")
  else if input.length ≠ 3 then some "rp/accepts-wrong-length"
  else if rpString rp = input then none else some "rp/accepts-noncanonical"

def rpByteJudge (b : Nat) (ok : Bool) (rp : RP) : Option String :=
  if !ok then none
  else if rpByte rp = b ∧ decide (rpValid rp) then none else some "rp/byte-decodes-to-other-value"

/-- documented TTL grammar: digits+ followed by an optional unit letter out of mhdwMy; count ≤ 255 -/
def ttlDenotation (s : List Char) : Option TTL :=
  match s.getLast? with
  | none => some ⟨0, 0⟩
  | some last =>
    let (cs, u) := if '0' ≤ last ∧ last ≤ '9' then (s, 'm') else (s.dropLast, last)
    if toStoredByte u = 0 then none else
    match parseDigits 10 cs with
    | none => none
    | some n => if n ≤ 255 then some ⟨n, toStoredByte u⟩ else none

/-- accepted ⇒ in the grammar and decoded to its denotation (count 0 denotes "no TTL" whatever the unit) -/
def ttlReadJudge (input : List Char) (ok : Bool) (t : TTL) : Option String :=
  match ttlDenotation input with
  | some d =>
    if !ok then some "ttl/rejects-valid"
    else if d = t ∨ (d.count = 0 ∧ t.count = 0) then none else some "ttl/decodes-to-other-value"
  | none =>
    if !ok then none
    else
      -- classify by what is wrong with the input, so that findings are told apart
      let last := input.getLast?.getD ' '
      let (cs, u) := if '0' ≤ last ∧ last ≤ '9' then (input, 'm') else (input.dropLast, last)
      if toStoredByte u = 0 then some "ttl/accepts-unknown-unit"
      else match parseDigits 10 cs with
        | some _ => some "ttl/accepts-count-over-255"
        | none => some "ttl/accepts-signed-count"

/-- the (vid, key, cookie) a file id string denotes, when all parts are in range -/
def fidDenotation (s : List Char) : Option Fid :=
  match splitAtComma s with
  | none => none
  | some (v, kc) =>
    match parseDigits 10 v, parseNeedleIdCookie kc with
    | some vid, some (k, c) => if vid < 2 ^ 32 then some ⟨vid, k, c⟩ else none
    | _, _ => none

def fidParseJudge (input : List Char) (res : Option Fid) : Option String :=
  match res with
  | none => none
  | some f =>
    match fidDenotation input with
    | some d => if d = f then none else some "fid/decodes-to-other-value"
    | none => some "fid/accepts-out-of-range-volume-id"

end SwV.Spec.C08
