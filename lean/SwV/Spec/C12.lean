/-
C12 — spec side: capacity accounting.

The volume, remote-volume, EC-shard and max-volume counters of every disk, data node, rack, data
center and of the topology equal the counts RECOUNTED from what is registered beneath them:
  disk      volumes = number of registered volumes, remote = number of registered remote volumes,
            ecShards = number of registered shard bits, max = the max count the server last reported;
  node      = sum over its disks;   rack = sum over its connected servers;   data center, topology alike.
`judgeC12` evaluates this on the IMPLEMENTATION's observable state (Spec/C11 `Obs`); the
Prop-level form over the model state is `CountersOk` (proved invariant in Props/C12).
-/
import SwV.Model.C11
import SwV.Spec.C11
namespace SwV.Spec.C12
open SwV.Model.C11 SwV.Spec.C11

def sel (c : Counts × Counts) (t : Nat) : Counts := if t = 0 then c.1 else c.2

/-- recount of one observed disk for its own type; the other type must be empty -/
def recountDisk (d : ObsDisk) (declMax : Nat → Nat → Int) (t : Nat) : Counts :=
  if t = d.t then
    { vol := d.vols.length
      rem := (d.vols.filter fun (_, _, _, r) => r).length
      ec := (d.ecs.map fun (_, b) => (popcount b : Int)).foldl (· + ·) 0
      max := declMax d.s d.t }
  else {}

def sumCounts (l : List Counts) : Counts := l.foldl Counts.add {}

def diffs (lvl : String) (t : Nat) (obs want : Counts) : List (String × String) :=
  (if obs.vol = want.vol then [] else [("volume-count", s!"{lvl},type={t},observed-minus-recount={obs.vol - want.vol}")])
  ++ (if obs.rem = want.rem then [] else [("remote-volume-count", s!"{lvl},type={t},observed-minus-recount={obs.rem - want.rem}")])
  ++ (if obs.ec = want.ec then [] else [("ec-shard-count", s!"{lvl},type={t},observed-minus-recount={obs.ec - want.ec}")])
  ++ (if obs.max = want.max then [] else [("max-volume-count", s!"{lvl},type={t},observed-minus-recount={obs.max - want.max}")])

/-- C12 judge: (kind, detail) for every counter of every level that differs from the recount.
    `place s` = (dc, rack) the server connected under, `declMax s t` = the max count it last reported. -/
def judgeC12 (o : Obs) (place : Nat → Nat × Nat) (declMax : Nat → Nat → Int) : List (String × String) :=
  let nodeRecount := fun (s t : Nat) => sumCounts ((o.disks.filter fun d => d.s = s).map fun d => recountDisk d declMax t)
  let servers := o.nodes.map (·.1)
  let all := (List.range 2).flatMap fun t =>
    let dk := o.disks.flatMap fun d => diffs s!"disk={d.s}.{d.t}" t (sel d.c t) (recountDisk d declMax t)
    let nd := o.nodes.flatMap fun (s, c) => diffs s!"node={s}" t (sel c t) (nodeRecount s t)
    let rackKeys : List (Nat × Nat) := (servers.map place ++ o.racks.map fun e => (e.1, e.2.1)).eraseDups
    let rk := rackKeys.flatMap fun (dc, r) =>
      let obs := ((o.racks.find? fun e => e.1 = dc ∧ e.2.1 = r).map fun e => sel e.2.2 t).getD {}
      diffs s!"rack={dc}.{r}" t obs (sumCounts ((servers.filter fun s => place s = (dc, r)).map fun s => nodeRecount s t))
    let dcKeys : List Nat := (servers.map (fun s => (place s).1) ++ o.dcs.map (·.1)).eraseDups
    let dc := dcKeys.flatMap fun d =>
      let obs := ((o.dcs.find? fun e => e.1 = d).map fun e => sel e.2 t).getD {}
      diffs s!"dc={d}" t obs (sumCounts ((servers.filter fun s => (place s).1 = d).map fun s => nodeRecount s t))
    let tp := diffs "topology" t (sel o.topo t) (sumCounts (servers.map fun s => nodeRecount s t))
    dk ++ nd ++ rk ++ dc ++ tp
  all

/-! ## Prop-level statement over the model state (its DataNode/Disk side `Core`) -/

def sumI : Nat → (Nat → Int) → Int
  | 0, _ => 0
  | n + 1, f => sumI n f + f n

/-- the counters of server `s`, disk type `t`, recounted from the registered volumes and shards
    (vids 0..nVid) -/
def volBit (x : Option VInfo) : Int := if x.isSome then 1 else 0
def remBit (x : Option VInfo) : Int := match x with | some v => Core.b2i v.remote | none => 0
def recountVol (c : Core) (s t : Nat) : Int := sumI (c.nVid + 1) fun vid => volBit (c.vols s t vid)
def recountRem (c : Core) (s t : Nat) : Int := sumI (c.nVid + 1) fun vid => remBit (c.vols s t vid)
def recountEc (c : Core) (s t : Nat) : Int := sumI (c.nVid + 1) fun vid => (popcount (c.ecs s t vid) : Int)

def live (c : Core) (s : Nat) (x : Counts) : Counts := if c.conn s then x else {}

def sumC : Nat → (Nat → Counts) → Counts
  | 0, _ => {}
  | n + 1, f => (sumC n f).add (f n)

/-- rack, data center and topology counters (disk types 0 and 1) are the sums over the connected servers -/
structure Sums (c : Core) (N : Nat) : Prop where
  rack : ∀ dc r t, t < 2 → c.cRack dc r t = sumC N fun s => if c.dcOf s = dc ∧ c.rackOf s = r then live c s (c.cNode s t) else {}
  dc : ∀ dc t, t < 2 → c.cDc dc t = sumC N fun s => if c.dcOf s = dc then live c s (c.cNode s t) else {}
  topo : ∀ t, t < 2 → c.cTopo t = sumC N fun s => live c s (c.cNode s t)

/-- every level above the disks equals the sum of the level below (`N` = number of modelled servers) -/
structure HierOk (c : Core) (N : Nat) : Prop where
  node : ∀ s t, c.conn s = true → c.cNode s t = c.cDisk s t
  sums : Sums c N

/-- the volume and remote-volume counters of every disk of a connected server equal the recount -/
structure DiskVolOk (c : Core) : Prop where
  vol : ∀ s t, c.conn s = true → (c.cDisk s t).vol = recountVol c s t
  rem : ∀ s t, c.conn s = true → (c.cDisk s t).rem = recountRem c s t

/-- the EC shard counter of every disk of a connected server equals the recount -/
def DiskEcOk (c : Core) : Prop := ∀ s t, c.conn s = true → (c.cDisk s t).ec = recountEc c s t

/-- counters_eq_recount -/
structure CountersOk (c : Core) (N : Nat) : Prop where
  hier : HierOk c N
  vols : DiskVolOk c
  ec : DiskEcOk c

end SwV.Spec.C12
