/-
C29 — specification side: a request sent to bucket B touches only filer entries below
`/buckets/B` (its ancestors may be looked up); a copy source additionally reads below the bucket it
names; keys below B's `.uploads` are not ordinary objects. The judge runs over the paths the
REAL filer store recorded for the request.
-/
import SwV.Model.C29
namespace SwV.Spec.C29
open SwV.Model.C19 (Bytes)
open SwV.Model.C29

/-- the bucket a copy source names, if it names one plainly -/
def sourceBucket (src : Bytes) : Option Bytes :=
  let (b, _) := pathToBucketAndObject (pctDecode src)
  if normal b && !b.contains slash then some b else none

def readAllowed (route : String) (src : Bytes) (p : Bytes) : Bool :=
  if route == "copy" || route == "mpcopy" then
    match sourceBucket src with
    | some b =>
      let segs := clean (splitSlash p)
      -- the source must resolve below the bucket it names
      isPrefixOf [buckets, b] segs && isPrefixOf [buckets, b] (clean ([buckets] ++ splitSlash (pctDecode src)))
    | none => false
  else false

def handlerOf0 (route : String) : String :=
  match route with
  | "get" => "GetObjectHandler" | "head" => "HeadObjectHandler" | "put" => "PutObjectHandler" | "putdir" => "PutObjectHandler(mkdir)"
  | "delete" => "DeleteObjectHandler" | "copy" => "CopyObjectHandler" | "mpinit" => "NewMultipartUploadHandler"
  | "mppart" => "PutObjectPartHandler" | "mpcopy" => "CopyObjectPartHandler" | "mplist" => "ListObjectPartsHandler"
  | "mpabort" => "AbortMultipartUploadHandler" | "mpdone" => "CompleteMultipartUploadHandler" | "bdel" => "DeleteMultipleObjectsHandler"
  | "tagget" => "GetObjectTaggingHandler" | "tagput" => "PutObjectTaggingHandler" | "tagdel" => "DeleteObjectTaggingHandler"
  | "list" => "ListObjectsV1Handler" | r => r

/-- PutObject with a key that ends in "/" (after the router's decoding) is the gRPC mkdir branch, a different call site -/
def handlerOf (route : String) (key : Bytes) : String :=
  if route == "put" ∧ (pctDecode key).getLast? = some slash then "PutObjectHandler(mkdir)" else handlerOf0 route

/-- judge of one request: `reads`, `writes`, `changes` = outside paths recorded / namespace differences -/
def reqJudge (route : String) (key src : Bytes) (reads writes changes : List Bytes) : Option String :=
  let badReads := reads.filter fun p => !readAllowed route src p
  if !writes.isEmpty ∨ !changes.isEmpty then some (handlerOf route key ++ "/writes-outside-bucket")
  else if !badReads.isEmpty then some (handlerOf route key ++ "/reads-outside-bucket")
  else none

/-- upload internals addressed as an ordinary object -/
def internalJudge (bucket : Bytes) (route : String) (key : Bytes) (ok : Bool) : Option String :=
  let obj := clean ([buckets, bucket] ++ splitSlash (pctDecode key))
  if ok ∧ isPrefixOf [buckets, bucket, uploads] obj ∧ obj.length > 3 ∧ (route == "get" || route == "head" || route == "put" || route == "delete" || route == "tagput") then
    some (handlerOf0 route ++ "/upload-internals-addressable")
  else none

end SwV.Spec.C29
