/-
C19 — specification side.

What a user relies on: a directory is a finite set of live (not expired) child names; a listing
request (start, inclusive, limit, name prefix, name pattern, exclusion pattern) returns

      take limit (filter matches (filter afterStart (sort names)))

and following the last returned name page after page enumerates `filter matches (sort names)`.
The judges below are the executable form, run over the IMPLEMENTATION's output.
-/
import SwV.Model.C19
namespace SwV.Spec.C19
open SwV.Model.C19

/-- ordered insert without duplicates (name order = byte order) -/
def insertName (n : Bytes) : List Bytes → List Bytes
  | [] => [n]
  | x :: xs => if ltB n x then n :: x :: xs else if n = x then x :: xs else x :: insertName n xs

def sortNames (ns : List Bytes) : List Bytes := ns.foldr insertName []

/-- the start condition: strictly after `start`, or from `start` on when inclusive; "" = from the beginning -/
def afterStart (start : Bytes) (incl : Bool) (n : Bytes) : Bool :=
  ltB start n || (incl && decide (n = start))

/-- does a child name match the request? (prefix and pattern are documented as mutually exclusive) -/
def matchesReq (r : Req) (n : Bytes) : Bool :=
  isPrefix r.pfx n && (decide (r.pattern = []) || glob r.pattern n) && !(decide (r.excl ≠ []) && glob r.excl n)

/-- THE SPEC: what a listing returns, given the sorted live child names -/
def specList (sorted : List Bytes) (r : Req) : List Bytes :=
  ((sorted.filter (afterStart r.start r.incl)).filter (matchesReq r)).take r.limit

/-- everything a complete pagination must enumerate -/
def specAll (sorted : List Bytes) (r : Req) : List Bytes := sorted.filter (matchesReq r)

/-- requests inside the property's domain: prefix and pattern not both given -/
def inDomain (r : Req) : Bool := decide (r.pfx = []) || decide (r.pattern = [])

def hasWildcard (p : Bytes) : Bool := p.any fun c => c = 42 || c = 63

/-- a `?` occurs before the first `*` although a `*` exists (splitPattern cuts at the first `*`) -/
def questionBeforeStar (p : Bytes) : Bool :=
  match p.findIdx? (· = 42) with
  | some i => (p.take i).any (· = 63)
  | none => false

/-- Judge of one listing. `anyExpired` = the directory held an expired entry when the request started.
    Returns the class of the violated clause. -/
def listJudge (native : Bool) (sorted : List Bytes) (anyExpired : Bool) (r : Req) (ok : Bool) (impl : List Bytes) : Option String :=
  if !inDomain r then none
  else if !ok then some (if native then "list/error" else "prefixFilterEntries/refill-never-advances")
  else if impl = specList sorted r then none
  else if r.pattern ≠ [] ∧ !hasWildcard r.pattern then some "splitPattern/literal-pattern-ignored"
  else if questionBeforeStar r.pattern then some "splitPattern/question-mark-in-prefix"
  else if native ∧ r.start ≠ [] ∧ ltB r.start (effPrefix r) then some "leveldb/start-before-prefix-stops-early"
  else if anyExpired ∧ (r.pattern ≠ [] ∨ r.excl ≠ []) then some "StreamListDirectoryEntries/restart-after-expired-refill"
  else some (if native then "list/not-exact" else "prefixFilterEntries/not-exact")

/-- Judge of a complete pagination (pages concatenated) -/
def pageJudge (sorted : List Bytes) (r : Req) (all : List Bytes) : Option String :=
  if !inDomain r then none
  else if all = specAll sorted r then none
  else if r.pattern ≠ [] ∧ !hasWildcard r.pattern then some "splitPattern/literal-pattern-ignored"
  else if questionBeforeStar r.pattern then some "splitPattern/question-mark-in-prefix"
  else some "pagination/not-complete"

end SwV.Spec.C19
