/-
C32 — specification side.  What a client relies on (RFC 7233 as net/http's ServeContent reads it):

* a Range header is WELL-FORMED when it is `bytes=` followed by a comma-separated list whose
  non-blank elements are `first-last` (first ≤ last), `first-` or `-suffix`, numbers being plain
  decimal digits (below 2^63), optional blanks around elements and numbers;
* an element is SATISFIABLE for a representation of N bytes when first < N, resp. suffix > 0 and N > 0;
  it then denotes the bytes [first, min(last, N-1)], resp. the last min(suffix, N) bytes;
* expected answer: no header or no element → 200 with everything; no satisfiable element → 416;
  the satisfiable elements ask for more than N bytes in total → 200 with everything (what ServeContent
  does) or the exact multipart answer; one → 206 with exactly those bytes; several → multipart, one part each.
* a header outside the grammar may be answered 416, or 200 with everything, or leniently as if repaired —
  but whatever is answered must be self-consistent: a 206 names a non-empty range inside the
  representation and carries exactly those bytes; a 200 carries everything.
* `Content-Encoding: gzip` only for a client whose Accept-Encoding lists gzip (or x-gzip or *) with q ≠ 0.
-/
import SwV.Model.C32
namespace SwV.Spec.C32
open SwV.Model.C32

inductive RSpec where
  | fromTo (a b : Nat)
  | from (a : Nat)
  | suffix (n : Nat)
deriving DecidableEq, Repr

/-- plain digits below 2^63 -/
def number (s : List Char) : Option Nat :=
  match digitsVal s with
  | none => none
  | some v => if v < 2 ^ 63 then some v else none

/-- one trimmed, non-empty list element -/
def denoteOne (ra : List Char) : Option RSpec :=
  match cut '-' ra with
  | none => none
  | some (s0, e0) =>
    let s := trimSpace s0
    let e := trimSpace e0
    if s = [] then
      match number e with
      | none => none
      | some n => some (.suffix n)
    else
      match number s with
      | none => none
      | some a =>
        if e = [] then some (.from a) else
        match number e with
        | none => none
        | some b => if a ≤ b then some (.fromTo a b) else none

def denotePieces : List (List Char) → Option (List RSpec)
  | [] => some []
  | p :: ps =>
    let ra := trimSpace p
    if ra = [] then denotePieces ps else
    match denoteOne ra with
    | none => none
    | some r =>
      match denotePieces ps with
      | none => none
      | some rs => some (r :: rs)

/-- `none` = outside the grammar; the absent header denotes the empty list -/
def denote (h : List Char) : Option (List RSpec) :=
  if h = [] then some [] else
  match stripBytesPrefix h with
  | none => none
  | some rest => denotePieces (splitOn ',' rest)

/-- (start, length > 0) of a satisfiable element -/
def satisfy (N : Nat) : RSpec → Option (Nat × Nat)
  | .fromTo a b => if a < N then some (a, min b (N - 1) - a + 1) else none
  | .from a => if a < N then some (a, N - a) else none
  | .suffix n => if n = 0 ∨ N = 0 then none else some (N - min n N, min n N)

def bytesOf (R : List Nat) (r : Nat × Nat) : List Nat := (R.drop r.1).take r.2

inductive Expected where
  | full                                         -- 200 with everything
  | unsat                                        -- 416
  | fullOrMulti (rs : List (Nat × Nat))          -- oversized sum: 200 with everything (or the exact multipart)
  | single (r : Nat × Nat)
  | multi (rs : List (Nat × Nat))
deriving DecidableEq, Repr

def expected (specs : List RSpec) (N : Nat) : Expected :=
  if specs = [] then .full else
  let rs := specs.filterMap (satisfy N)
  if rs = [] then .unsat else
  if (rs.map (·.2)).sum > N then .fullOrMulti rs else
  match rs with
  | [r] => .single r
  | _ => .multi rs

def toRg (r : Nat × Nat) : Rg := ⟨r.1, r.2⟩

/-- the answer (model's `Response` type) conforms to what is expected -/
def conforms (e : Expected) (R : List Nat) (resp : Response) : Bool :=
  match e, resp with
  | .full, .full b => b == R
  | .unsat, .unsat => true
  | .fullOrMulti _, .full b => b == R
  | .fullOrMulti rs, .multi ps => ps == rs.map fun r => (toRg r, bytesOf R r)
  | .single r, .single g b => g == toRg r && b == bytesOf R r
  | .multi rs, .multi ps => ps == rs.map fun r => (toRg r, bytesOf R r)
  | _, _ => false

/-- self-consistency of any answer -/
def consistent (R : List Nat) (resp : Response) : Bool :=
  let okPart (g : Rg) (b : List Nat) : Bool :=
    decide (0 ≤ g.start) && decide (0 < g.length) && decide (g.start + g.length ≤ R.length) &&
      b == (R.drop g.start.toNat).take g.length.toNat
  match resp with
  | .full b => b == R
  | .unsat => true
  | .single g b => okPart g b
  | .multi ps => ps.all fun p => okPart p.1 p.2

/-! ## Accept-Encoding -/

def lower (c : Char) : Char := if 'A' ≤ c ∧ c ≤ 'Z' then Char.ofNat (c.toNat + 32) else c

/-- `q=0`, `q=0.`, `q=0.0`, … -/
def qIsZero (p : List Char) : Bool :=
  match (trimSpace p).map lower with
  | 'q' :: '=' :: '0' :: rest => rest.all fun c => c == '0' || c == '.'
  | _ => false

/-- does one element of Accept-Encoding accept gzip -/
def elemAcceptsGzip (e : List Char) : Bool :=
  match splitOn ';' e with
  | [] => false
  | coding :: params =>
    let c := (trimSpace coding).map lower
    (c == "gzip".toList || c == "x-gzip".toList || c == "*".toList) && !(params.any qIsZero)

def clientAcceptsGzip (ae : List Char) : Bool :=
  (splitOn ',' ae).any elemAcceptsGzip

/-! ## judges (run by the driver over the IMPLEMENTATION's answer) -/

def rgNonPositive (resp : Response) : Option Int :=
  match resp with
  | .single g _ => if g.length ≤ 0 then some g.length else none
  | .multi ps => (ps.find? fun p => decide (p.1.length ≤ 0)).map (·.1.length)
  | _ => none

/-- class of the defect in the implementation's answer, if any -/
def rangeJudge (h : List Char) (R : List Nat) (resp : Response) : Option String :=
  -- 1. whatever the header: a 200 carries everything
  match resp with
  | .full b => if b == R then none   -- a server may always ignore a Range header and send everything
    else some "processRangeRequest/ignored-range-answers-200-without-content"
  | _ =>
  -- 2. ranges that are empty or negative
  match rgNonPositive resp with
  | some l =>
    if l < 0 then
      -- the open finding is about SIGNED suffix lengths, which are outside the grammar; a negative length for a
      -- grammatical header (e.g. an int64 overflow for `0-9223372036854775807`) is another defect
      (if (denote h).isSome then some "parseRange/negative-length-for-grammatical-range" else some "parseRange/negative-length-206")
    else some "parseRange/unsatisfiable-range-served-as-empty-206"
  | none =>
  if !consistent R resp then some "processRangeRequest/206-bytes-differ-from-content-range" else
  match denote h with
  | none => none
  | some specs =>
    let e := expected specs R.length
    if conforms e R resp then none else
    match e, resp with
    | .unsat, _ => some "processRangeRequest/206-for-unsatisfiable"
    | _, .unsat => some "parseRange/416-although-a-range-is-satisfiable"
    | _, _ => some "processRangeRequest/other-ranges-than-requested"

/-- framing of the answer as the client saw it (`mp` = multipart body complete: announced length = delivered length,
    every part readable to its end, closing delimiter present) -/
def framingJudge (cl : String) : Option String :=
  if cl == "mpbad" then some "processRangeRequest/multipart-body-incomplete"
  else if cl == "readerr" then some "processRangeRequest/body-shorter-than-announced"
  else none

def encodingJudge (ae : List Char) (gz : Bool) : Option String :=
  if gz && !clientAcceptsGzip ae then
    -- the substring test of the handler is one defect (`gzip;q=0`, `notgzipped`); gzip for a client whose header does not even
    -- contain the word is another
    (if containsSub gzipWord ae then some "GetOrHeadHandler/gzip-for-client-not-accepting-it"
     else some "GetOrHeadHandler/gzip-although-accept-encoding-does-not-mention-it")
  else none

end SwV.Spec.C32
