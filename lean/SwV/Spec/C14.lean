/-
C14 spec: what an operator relies on after a vacuum round, judged on OBSERVATIONS (the RPC string
every replica received, writable before/after) — the driver applies these judges to the
implementation's outputs.
  * commit only after all compacted: a replica receives VacuumVolumeCommit only if every replica
    that was asked to compact succeeded, and only after its own compact;
  * writable restored: the volume is writable after the round exactly when it was before (had no
    vacuum been attempted), unless a volume server itself answered "read-only" at commit.
Core Lean only.
-/
import SwV.Model.C14
namespace SwV.Spec.C14
open SwV.Model.C14

/-- observation of one replica: its scripted behaviour and the RPCs it actually received -/
structure ObsRep where
  rep : Rep
  got : List Rpc
deriving Repr

/-- commit_only_after_all_compacted, executable: some replica got a commit although a replica that
    got a compact request did not compact successfully, or without its own compact first -/
def commitJudge (os : List ObsRep) : Option String :=
  if os.any (fun o => o.got.contains .commit) && os.any (fun o => o.got.contains .compact && o.rep.cmp != .ok) then
    some "batchVacuumVolumeCommit/commit-although-a-compaction-failed"
  else if os.any (fun o => o.got.contains .commit && !(o.got.takeWhile (· != .commit)).contains .compact) then
    some "batchVacuumVolumeCommit/commit-without-own-compaction"
  else none

/-- a replica that received a commit answered read-only -/
def saidReadOnly (os : List ObsRep) : Bool := os.any (fun o => o.got.contains .commit && o.rep.cmt == .ro)

/-- what "writable after" should be -/
def writableExpected (wBefore : Bool) (os : List ObsRep) : Bool := wBefore && !saidReadOnly os

/-- writable_restored, executable; the class names the cause -/
def writableJudge (wBefore wAfter : Bool) (os : List ObsRep) : Option String :=
  if wAfter == writableExpected wBefore os then none
  else if wBefore then
    if wAfter then some "batchVacuumVolumeCommit/writable-although-a-volume-server-answered-read-only"
    else if os.any (fun o => o.got.contains .compact && o.rep.cmp != .ok) then some "batchVacuumVolumeCompact/failed-compaction-leaves-volume-unwritable"
    else if os.any (fun o => o.got.contains .commit && o.rep.cmt == .err) then some "batchVacuumVolumeCommit/failed-commit-leaves-volume-unwritable"
    else some "vacuum/volume-left-unwritable"
  else
    if os.any (fun o => o.rep.ov) && os.any (fun o => o.got.contains .commit) then some "batchVacuumVolumeCommit/oversized-volume-becomes-writable"
    else some "vacuum/volume-became-writable"

end SwV.Spec.C14
