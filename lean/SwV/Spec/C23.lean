/-
C23 — specification side.

What a user relies on: the configured rules are a finite map prefix ↦ settings, and the
effective value of every field at a path is the value of that field in the LONGEST rule
that (a) prefixes the path and (b) sets the field; the default if no such rule exists.
"Sets" per field, as `mergePathConf` defines it: a string field is set when non-empty,
`fsync`/`readOnly` when true, `volumeGrowthCount` when > 0.
-/
import SwV.Model.C23
namespace SwV.Spec.C23
open SwV.Model.C23

/-- relational form: `v` is the field value of the longest matching rule that sets the field -/
def IsLongestSetting {α : Type} (rs : Rules) (path : Key) (get : Conf → α) (isSet : α → Bool) (dflt : α) (v : α) : Prop :=
  (∃ k c, (k, c) ∈ rs ∧ k <+: path ∧ isSet (get c) = true ∧ v = get c ∧
      ∀ k' c', (k', c') ∈ rs → k' <+: path → isSet (get c') = true → k'.length ≤ k.length)
  ∨ ((∀ k c, (k, c) ∈ rs → k <+: path → isSet (get c) = false) ∧ v = dflt)

def strSet (s : List Char) : Bool := s ≠ []
def boolSet (b : Bool) : Bool := b
def natSet (n : Nat) : Bool := n > 0

/-- the property for one (rules, path, result) triple: every field is the longest setting -/
structure FieldwiseLongest (rs : Rules) (path : Key) (r : Conf) : Prop where
  collection : IsLongestSetting rs path Conf.collection strSet [] r.collection
  replication : IsLongestSetting rs path Conf.replication strSet [] r.replication
  ttl : IsLongestSetting rs path Conf.ttl strSet [] r.ttl
  diskType : IsLongestSetting rs path Conf.diskType strSet [] r.diskType
  fsync : IsLongestSetting rs path Conf.fsync boolSet false r.fsync
  growth : IsLongestSetting rs path Conf.growth natSet 0 r.growth
  readOnly : IsLongestSetting rs path Conf.readOnly boolSet false r.readOnly

/-- rule sets as the code can build them: distinct non-empty keys -/
def WF (rs : Rules) : Prop := (rs.map (·.1)).Nodup ∧ ∀ r ∈ rs, r.1 ≠ []

/-! ### executable reference resolver (used by the judge) -/

/-- the reference keeps every `add` it ever saw, newest first; `del` removes all entries of a key -/
abbrev RefRules := List (Key × Conf)

def refAdd (rs : RefRules) (k : Key) (c : Conf) : RefRules := (k, c) :: rs.filter (fun r => r.1 ≠ k)
def refDel (rs : RefRules) (k : Key) : RefRules := rs.filter (fun r => r.1 ≠ k)

/-- longest matching rule that sets the field, by a linear scan keeping the best candidate -/
def refField {α : Type} (rs : RefRules) (path : Key) (get : Conf → α) (isSet : α → Bool) (dflt : α) : α :=
  let best : Option (Nat × α) := rs.foldl (fun best r =>
    if r.1.isPrefixOf path && isSet (get r.2) && (match best with | some (n, _) => n < r.1.length | none => true)
    then some (r.1.length, get r.2) else best) none
  match best with
  | some (_, v) => v
  | none => dflt

def refMatch (rs : RefRules) (path : Key) : Conf :=
  { collection := refField rs path Conf.collection strSet []
    replication := refField rs path Conf.replication strSet []
    ttl := refField rs path Conf.ttl strSet []
    diskType := refField rs path Conf.diskType strSet []
    fsync := refField rs path Conf.fsync boolSet false
    growth := refField rs path Conf.growth natSet 0
    readOnly := refField rs path Conf.readOnly boolSet false }

/-- judge for one `match` line: the implementation's answer must be the reference's -/
def matchJudge (rs : RefRules) (path : Key) (impl : Conf) : Option String :=
  if impl = refMatch rs path then none
  else
    -- classify: a rule that should apply is not applied / a rule that should not is
    some "MatchStorageRule/not-fieldwise-longest-prefix"

/-! ### the abstract state: a finite map prefix ↦ settings, updated by the API calls -/

def denoteStep (m : Key → Option Conf) : Op → Key → Option Conf
  | .add k c => if k = [] then m else fun q => if q = k then some c else m q
  | .del k => fun q => if q = k then none else m q

/-- what a history of API calls means: the map after replaying it from the empty configuration -/
def denote (ops : List Op) : Key → Option Conf := ops.foldl denoteStep (fun _ => none)

end SwV.Spec.C23
