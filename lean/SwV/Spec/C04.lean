/-
C04 — specification side.

Promise: committing a compaction changes nothing a reader can see: for every file id, the read
right after `CommitCompact` returns what the read right before it returned (the volume before the
commit IS the volume "without compaction": all writes and deletes, also those issued while the
copy ran, were applied to it).  `notfound` and `deleted` both mean "not readable".

`classify` is the judge the driver runs over the IMPLEMENTATION's reads after a commit; the
predicates below name the inputs on which the code is known to break the promise (each is the
class of a known finding) and are the hypotheses of the `_partial` theorem.
-/
import SwV.Model.C04
import SwV.Spec.C09
namespace SwV.Spec.C04
open SwV.Model.C01 SwV.Model.C04

/-- the idx entries appended since `Compact` started -/
def suffixOf (s : CVol) : List IEnt :=
  match s.snap with
  | some sn => s.ilog.drop sn.idxLen
  | none => []

/-- the record a live index entry of `pre` points at, with its AppendAtNs -/
def liveRec (s : CVol) (id : Nat) : Option (Rec × Nat) :=
  match s.v.idx id with
  | some e => if 0 < e.size then (recAt s.v.log e.off).map fun r => (r, atOf s.ats e.off) else none
  | none => none

/-- the vacuum TTL filter removes the (still readable) blob `id`: it was not rewritten during the
    copy and its record is dropped by `LastModified + volume TTL ≤ now` -/
def ttlDropped (pre : CVol) (nowSec : Nat) (id : Nat) : Bool :=
  (lastFor (suffixOf pre) id).isNone &&
  match liveRec pre id with
  | some (r, a) => dropsTtl pre nowSec r a
  | none => false

/-- the blob `id` is an empty blob (index size 0) -/
def isEmptyBlob (pre : CVol) (id : Nat) : Bool :=
  match pre.v.idx id with
  | some e => e.size == 0
  | none => false

/-- the commit discards the compaction (makeupDiff fails on an .idx that was empty when the copy
    started) and loads the old files again -/
def discarded (pre : CVol) : Bool :=
  match pre.snap with
  | some sn => sn.idxLen == 0 && pre.ilog.length != 0
  | none => false

/-- the (still readable, not rewritten during the copy) blob `id` carries a TTL and lives on a TTL
    volume: the only step of a compaction that may remove it is the vacuum TTL filter, and only when
    the blob has expired — which a blob that a read still returns has not -/
def unexpiredTtlBlob (pre : CVol) (id : Nat) : Bool :=
  (lastFor (suffixOf pre) id).isNone && pre.v.volTtl != (0, 0) &&
  match liveRec pre id with
  | some (r, _) => r.c.fl.hasTtl
  | none => false

/-- Why did a readable blob disappear at the commit?  One class per call site / cause; a cause that
    is not one of the recorded defects gets the generic class (⇒ VIOLATION). -/
def dropClass (pre post : CVol) (alg : Nat) (nowSec : Nat) (id : Nat) : String :=
  if isEmptyBlob pre id then
    (if discarded pre then "read/committed-empty-blob-lost-after-reload"
     else if (lastFor (suffixOf pre) id).isSome then "makeupDiff/empty-blob-treated-as-delete"
     else if alg = 1 then "VisitNeedle/empty-blob-dropped"
     else "read/committed-empty-blob-lost-after-reload")
  else if ttlDropped pre nowSec id then
    (match liveRec pre id with
     | some (r, a) => SwV.Spec.C09.removalClass false (volTtlOf pre.v) (needleOf r.c a)
     | none => "commit/drops-live-blob")
  else if readStep post.v id 0 = .ioerr then "CommitCompact/dat-truncated-behind-last-index-entry"
  else if unexpiredTtlBlob pre id then "compact/removes-unexpired-ttl-blob"   -- a read returned it before the commit: it has not expired
  else "commit/drops-live-blob"

/-- Judge of one read after a commit: `impl` = what the implementation returned (content if
    readable), `pre` = the model state right before the commit (tied to the implementation by the
    DIFF check of all earlier lines), `post` = the model state after it. -/
def classify (pre post : CVol) (alg : Nat) (nowSec nowNs : Nat) (id : Nat) (impl : Option Content) : Option String :=
  match (view pre nowNs id).map (·.2), impl with
  | none, none => none
  | some c, some c' => if c = c' then none else some "commit/changes-content"
  | none, some _ => some "commit/resurrects-deleted-blob"
  | some _, none => some (dropClass pre post alg nowSec id)

end SwV.Spec.C04
