/-
C36 — specification side.  A path is INSIDE the source directory when the source directory's
components are a proper prefix of the path's components (so `/data2/x` is outside `/data`); the
mapped path is the target directory's components, (the date for incremental sinks,) and the rest.
-/
import SwV.Model.C36
namespace SwV.Spec.C36
open SwV.Model.C36

/-- component-wise "inside" (the source directory itself counts as at-the-boundary, see `atRoot`) -/
def inside (src p : Str) : Bool := (comps src).isPrefixOf (comps p)
def atRoot (src p : Str) : Bool := comps src == comps p

/-- components of the mapped path -/
def mappedComps (src tgt : Str) (incr : Bool) (p : Str) : List Str :=
  comps tgt ++ (if incr then [dateKey true] else []) ++ (comps p).drop (comps src).length

def callKeyComps : Call → List Str
  | .del k _ _ => comps k
  | .create k => comps k
  | .update k _ => comps k

/-- what a mirror of exactly the watched subtree does with one event of filer.sync / filer.backup -/
inductive Expect where
  | nothing
  | create (key : List Str)
  | delete (key : List Str)
  | move (oldKey newParent newKey : List Str)     -- update in place when newKey's parent = oldKey's parent
deriving Repr

def expectSync (src tgt : Str) (incr : Bool) (oldP newP : Option Str) (newParent : Str) : Expect :=
  match oldP, newP with
  | none, none => .nothing
  | none, some q => if inside src q then .create (mappedComps src tgt incr q) else .nothing
  | some p, none => if inside src p then .delete (mappedComps src tgt incr p) else .nothing
  | some p, some q =>
    match inside src p, inside src q with
    | true, true => if incr then .create (mappedComps src tgt incr q)
                    else .move (mappedComps src tgt incr p) (mappedComps src tgt incr newParent) (mappedComps src tgt incr q)
    | true, false => if incr then .nothing else .delete (mappedComps src tgt incr p)
    | false, true => .create (mappedComps src tgt incr q)
    | false, false => .nothing

/-- do the recorded sink calls realise the expectation? -/
def realises (e : Expect) (calls : List Call) : Bool :=
  match e, calls with
  | .nothing, [] => true
  | .create k, [.create k'] => comps k' == k
  | .delete k, [.del k' _ _] => comps k' == k
  | .move o np _, [.update k' np'] => comps k' == o && comps np' == np
  | .move o np n, [.update k' np', .del k2 _ _, .create k3] => comps k' == o && comps np' == np && comps k2 == o && comps k3 == n
  | _, _ => false

/-- judge of one filer.sync event; `none` calls = the code panicked -/
def syncJudge (src tgt : Str) (incr : Bool) (oldP newP : Option Str) (newParent : Str) (calls : Option (List Call)) : Option String :=
  -- events about the source directory's own entry are at the boundary: not judged
  if (oldP.map (atRoot src)).getD false || (newP.map (atRoot src)).getD false then none else
  let e := expectSync src tgt incr oldP newP newParent
  match calls with
  | none => some "genProcessFunction/panics"
  | some cs =>
    if realises e cs then none else
    let oIn := (oldP.map (inside src)).getD false
    let nIn := (newP.map (inside src)).getD false
    if !oIn && !nIn then some "genProcessFunction/replicates-sibling-of-source-dir"
    else if oldP.isSome && newP.isSome && !oIn && nIn && cs.isEmpty then some "genProcessFunction/ignores-rename-into-source-dir"
    else if (oldP.isSome && !oIn) || (newP.isSome && !nIn) then some "genProcessFunction/treats-sibling-as-inside-on-rename"
    else if src.getLast? = some '/' && src != ['/'] &&
        ((oldP.map fun p => comps p).getD [] |>.dropLast) == comps src || ((newP.map fun p => comps p).getD [] |>.dropLast) == comps src
      then some "genProcessFunction/trailing-slash-source-ignores-top-level"
    else some "genProcessFunction/wrong-calls"

/-- judge of one `Replicate` call for non-rename events (create / delete / update in place) -/
def replJudge (src sinkDir : Str) (incr filtered : Bool) (key : Str) (old new : Option Bool) (calls : List Call) : Option String :=
  if atRoot src key then none else
  if !inside src key then (if calls.isEmpty then none else some "Replicate/replicates-sibling-of-source-dir") else
  if filtered then (if calls.isEmpty then none else some "Replicate/reapplies-change-from-target-cluster") else
  let want := mappedComps src sinkDir incr key
  match old, new with
  | none, none => if calls.isEmpty then none else some "Replicate/wrong-calls"
  | _, _ =>
    if calls.isEmpty then some "Replicate/ignores-change-inside"
    else if calls.all (fun c => callKeyComps c == want) then
      (match old, new, calls with
       | some _, none, [.del _ _ _] => none
       | none, some _, [.create _] => none
       | some _, some _, [.update _ _] => none
       | some _, some _, [.update _ _, .del _ _ _, .create _] => none
       | _, _, _ => some "Replicate/wrong-calls")
    else some "Replicate/wrong-target-key"

/-! ## localsink tree comparison: the sink directory must be the MIRROR of the watched subtree

The same events are applied to an abstract source tree (what the source filer holds: files and
directories as component paths).  After every event the files that are component-wise inside the
source directory, mapped by `mappedComps … ` (relative to the sink directory), are the expected
content of the sink directory.  Only file sets are compared (LocalSink never materialises empty
directories); non-incremental sinks only. -/

structure SrcTree where
  files : List Path
  dirs : List Path
deriving Repr, DecidableEq

def SrcTree.empty : SrcTree := ⟨[], []⟩

def evOldP (e : LEv) : Option Str := e.old.map fun o => child e.dir o.2
def evNewP (e : LEv) : Option Str := e.new.map fun n => child e.newParent n.2
def evPaths (e : LEv) : List Str := (evOldP e).toList ++ (evNewP e).toList

/-- `p` can be created: nothing there, no file on the way -/
def freeAt (s : SrcTree) (p : Path) : Bool :=
  p != [] && !s.files.contains p && !s.dirs.contains p && (ancestors p).all (fun a => !s.files.contains a)

def addAncestors (ds : List Path) (p : Path) : List Path :=
  (ancestors p).foldl (fun ds a => if ds.contains a then ds else ds ++ [a]) ds

/-- the event applied to the source tree; `none` = the source filer could not have emitted it in this
    state (such sequences are not judged).  Deleting / renaming a directory takes its content along. -/
def srcApply (s : SrcTree) (e : LEv) : Option SrcTree :=
  match e.old, e.new with
  | none, none => some s
  | none, some n =>
    let p := comps (child e.newParent n.2)
    if !freeAt s p then none else
    some (if n.1 then ⟨s.files, addAncestors s.dirs p ++ [p]⟩ else ⟨s.files ++ [p], addAncestors s.dirs p⟩)
  | some o, none =>
    let p := comps (child e.dir o.2)
    if !(if o.1 then s.dirs.contains p else s.files.contains p) then none else
    some ⟨s.files.filter (fun x => !p.isPrefixOf x), s.dirs.filter (fun x => !p.isPrefixOf x)⟩
  | some o, some n =>
    let p := comps (child e.dir o.2)
    let q := comps (child e.newParent n.2)
    if o.1 != n.1 || !(if o.1 then s.dirs.contains p else s.files.contains p) then none else
    if p == q then some s else
    if p.isPrefixOf q || !freeAt s q then none else
    let mv : Path → Path := fun x => if p.isPrefixOf x then q ++ x.drop p.length else x
    some ⟨s.files.map mv, addAncestors (s.dirs.map mv) q⟩

/-- mapped key of a source path relative to the sink directory (= `mappedComps src [] false p` when
    `f = comps p`, see `mirrorKey_eq_mappedComps`) -/
def mirrorKey (src : Str) (f : Path) : Path := f.drop (comps src).length

/-- the expected file listing of the sink directory -/
def mirror (src : Str) (s : SrcTree) : List Str :=
  sortStr ((s.files.filter fun f => (comps src).isPrefixOf f && f != comps src).map fun f => relTok (mirrorKey src f))

/-- the string tests of the process function agree with the component-wise reading on every path of
    the event, and it is not a rename from outside into the directory: the complement is covered by the
    recorded genProcessFunction findings -/
def evClear (src : Str) (e : LEv) : Bool :=
  (e.dir :: evPaths e).all (fun x => hasPrefix x src == inside src x) &&
  !(e.old.isSome && e.new.isSome && !((evOldP e).map (inside src)).getD false && ((evNewP e).map (inside src)).getD false)

def unclearClass (src : Str) (e : LEv) : String :=
  let oIn := ((evOldP e).map (inside src)).getD false
  let nIn := ((evNewP e).map (inside src)).getD false
  if !oIn && !nIn then "genProcessFunction/replicates-sibling-of-source-dir"
  else if e.old.isSome && e.new.isSome && !oIn && nIn then "genProcessFunction/ignores-rename-into-source-dir"
  else if (e.old.isSome && !oIn) || (e.new.isSome && !nIn) then "genProcessFunction/treats-sibling-as-inside-on-rename"
  else if src.getLast? = some '/' && src != ['/'] then "genProcessFunction/trailing-slash-source-ignores-top-level"
  else "LocalSink/tree-differs-from-mirror"

def isDirRename (e : LEv) : Bool :=
  match e.old, e.new with
  | some o, some n => (o.1 || n.1) && comps (child e.dir o.2) != comps (child e.newParent n.2)
  | _, _ => false

/-- what the harness saw after one event -/
structure ImplStep where
  files : List Str          -- sorted relative file paths
  status : String           -- ok | err | panic
deriving Repr

def lsClassify (src : Str) (e : LEv) (i : ImplStep) : String :=
  if !evClear src e then unclearClass src e else
  match e.old, e.new with
  | some o, some n =>
    let ko := relTok (mirrorKey src (comps (child e.dir o.2)))
    let kn := relTok (mirrorKey src (comps (child e.newParent n.2)))
    if ko != kn && i.files.contains ko && !i.files.contains kn then "LocalSink.UpdateEntry/rename-keeps-old-path"
    else "LocalSink/tree-differs-from-mirror"
  | some o, none =>
    let k := relTok (mirrorKey src (comps (child e.dir o.2))) ++ ['/']
    if o.1 && i.files.any (fun f => k.isPrefixOf f) then "LocalSink.DeleteEntry/non-empty-directory-kept"
    else "LocalSink/tree-differs-from-mirror"
  | _, _ => "LocalSink/tree-differs-from-mirror"

/-- judge of one sequence: the first event after which the sink directory is not the mirror of the
    source tree, classified by that event; the second component counts the events judged fine.
    Judging stops (without complaint) at an event about the source directory's own entry, about a
    multipart-upload part (deliberately skipped by LocalSink), at a directory rename (whether the
    source announces the children separately is not fixed by the property) and at an event the
    source filer could not have emitted. -/
def lsyncJudgeAux (src : Str) : SrcTree → List LEv → List ImplStep → Nat → Option String × Nat
  | _, [], _, k => (none, k)
  | _, _ :: _, [], k => (none, k)
  | s, e :: es, i :: is, k =>
    if (evPaths e).any (fun p => atRoot src p || isMultiPart p) then (none, k) else
    if isDirRename e then (none, k) else
    match srcApply s e with
    | none => (none, k)
    | some s' =>
      if i.status == "panic" then (some "genProcessFunction/panics", k) else
      if i.status == "ok" && i.files == mirror src s' then lsyncJudgeAux src s' es is (k + 1)
      else (some (lsClassify src e i), k)

def lsyncJudge (src : Str) (incr : Bool) (evs : List LEv) (impl : List ImplStep) : Option String × Nat :=
  if incr then (none, 0) else lsyncJudgeAux src SrcTree.empty evs impl 0

end SwV.Spec.C36
