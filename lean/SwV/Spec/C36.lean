/-
C36 — specification side.  A path is INSIDE the source directory when the source directory's
components are a proper prefix of the path's components (so `/data2/x` is outside `/data`); the
mapped path is the target directory's components, (the date for incremental sinks,) and the rest.
-/
import SwV.Model.C36
namespace SwV.Spec.C36
open SwV.Model.C36

/-- component-wise "inside" (the source directory itself counts as at-the-boundary, see `atRoot`) -/
def inside (src p : Str) : Bool := (comps src).isPrefixOf (comps p)
def atRoot (src p : Str) : Bool := comps src == comps p

/-- components of the mapped path -/
def mappedComps (src tgt : Str) (incr : Bool) (p : Str) : List Str :=
  comps tgt ++ (if incr then [dateKey true] else []) ++ (comps p).drop (comps src).length

def callKeyComps : Call → List Str
  | .del k _ _ => comps k
  | .create k => comps k
  | .update k _ => comps k

/-- what a mirror of exactly the watched subtree does with one event of filer.sync / filer.backup -/
inductive Expect where
  | nothing
  | create (key : List Str)
  | delete (key : List Str)
  | move (oldKey newParent newKey : List Str)     -- update in place when newKey's parent = oldKey's parent
deriving Repr

def expectSync (src tgt : Str) (incr : Bool) (oldP newP : Option Str) (newParent : Str) : Expect :=
  match oldP, newP with
  | none, none => .nothing
  | none, some q => if inside src q then .create (mappedComps src tgt incr q) else .nothing
  | some p, none => if inside src p then .delete (mappedComps src tgt incr p) else .nothing
  | some p, some q =>
    match inside src p, inside src q with
    | true, true => if incr then .create (mappedComps src tgt incr q)
                    else .move (mappedComps src tgt incr p) (mappedComps src tgt incr newParent) (mappedComps src tgt incr q)
    | true, false => if incr then .nothing else .delete (mappedComps src tgt incr p)
    | false, true => .create (mappedComps src tgt incr q)
    | false, false => .nothing

/-- do the recorded sink calls realise the expectation? -/
def realises (e : Expect) (calls : List Call) : Bool :=
  match e, calls with
  | .nothing, [] => true
  | .create k, [.create k'] => comps k' == k
  | .delete k, [.del k' _ _] => comps k' == k
  | .move o np _, [.update k' np'] => comps k' == o && comps np' == np
  | .move o np n, [.update k' np', .del k2 _ _, .create k3] => comps k' == o && comps np' == np && comps k2 == o && comps k3 == n
  | _, _ => false

/-- judge of one filer.sync event; `none` calls = the code panicked -/
def syncJudge (src tgt : Str) (incr : Bool) (oldP newP : Option Str) (newParent : Str) (calls : Option (List Call)) : Option String :=
  -- events about the source directory's own entry are at the boundary: not judged
  if (oldP.map (atRoot src)).getD false || (newP.map (atRoot src)).getD false then none else
  let e := expectSync src tgt incr oldP newP newParent
  match calls with
  | none => some "genProcessFunction/panics"
  | some cs =>
    if realises e cs then none else
    let oIn := (oldP.map (inside src)).getD false
    let nIn := (newP.map (inside src)).getD false
    if !oIn && !nIn then some "genProcessFunction/replicates-sibling-of-source-dir"
    else if oldP.isSome && newP.isSome && !oIn && nIn && cs.isEmpty then some "genProcessFunction/ignores-rename-into-source-dir"
    else if (oldP.isSome && !oIn) || (newP.isSome && !nIn) then some "genProcessFunction/treats-sibling-as-inside-on-rename"
    else if src.getLast? = some '/' && src != ['/'] &&
        ((oldP.map fun p => comps p).getD [] |>.dropLast) == comps src || ((newP.map fun p => comps p).getD [] |>.dropLast) == comps src
      then some "genProcessFunction/trailing-slash-source-ignores-top-level"
    else some "genProcessFunction/wrong-calls"

/-- judge of one `Replicate` call for non-rename events (create / delete / update in place) -/
def replJudge (src sinkDir : Str) (incr filtered : Bool) (key : Str) (old new : Option Bool) (calls : List Call) : Option String :=
  if atRoot src key then none else
  if !inside src key then (if calls.isEmpty then none else some "Replicate/replicates-sibling-of-source-dir") else
  if filtered then (if calls.isEmpty then none else some "Replicate/reapplies-change-from-target-cluster") else
  let want := mappedComps src sinkDir incr key
  match old, new with
  | none, none => if calls.isEmpty then none else some "Replicate/wrong-calls"
  | _, _ =>
    if calls.isEmpty then some "Replicate/ignores-change-inside"
    else if calls.all (fun c => callKeyComps c == want) then
      (match old, new, calls with
       | some _, none, [.del _ _ _] => none
       | none, some _, [.create _] => none
       | some _, some _, [.update _ _] => none
       | some _, some _, [.update _ _, .del _ _ _, .create _] => none
       | _, _, _ => some "Replicate/wrong-calls")
    else some "Replicate/wrong-target-key"

end SwV.Spec.C36
