/-
C37 — specification side.

Promise: after a run of `weed backup`, the backup volume serves exactly the source's live blobs with
identical content: for every id, reading the backup returns what reading the source returns.
`classify` is the judge the driver runs over the IMPLEMENTATION's reads of the backup; the classes
name the known ways the code breaks the promise (hypotheses of the `_partial` theorem).
-/
import SwV.Model.C37
namespace SwV.Spec.C37
open SwV.Model.C01 SwV.Model.C04 SwV.Model.C37

/-- cookie and data of a readable blob (the cookie of an empty blob is not stored: it echoes the request) -/
def obs (v : Option (Nat × Content)) : Option (Nat × String) :=
  v.map fun p => (if p.2.data = "" then 0 else p.1, p.2.data)

/-- Judge of one read of the backup, right after a backup run: `srcV` = what the source serves for
    the id, `impl` = what the implementation's backup served; `srcRev` = the source's compaction
    revision (0 = never compacted). -/
def classify (srcRev : Nat) (srcV impl : Option (Nat × String)) : Option String :=
  match srcV, impl with
  | none, none => none
  | some a, some b =>
    if a = b then none
    else if srcRev = 0 then some "backup/wrong-content"
    else some "IncrementalBackup/stale-content-after-source-compaction"
  | some a, none =>
    if a.2 = "" then some "IncrementalBackup/empty-blob-indexed-as-delete"
    else if srcRev = 0 then some "backup/misses-live-blob"
    else some "IncrementalBackup/misses-update-after-source-compaction"
  | none, some _ =>
    if srcRev = 0 then some "backup/serves-deleted-blob"
    else some "IncrementalBackup/serves-deleted-blob-after-source-compaction"

end SwV.Spec.C37
