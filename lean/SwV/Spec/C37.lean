/-
C37 — specification side.

Promise: after a run of `weed backup`, the backup volume serves exactly the source's live blobs with
identical content: for every id, reading the backup returns what reading the source returns.
`classify` is the judge the driver runs over the IMPLEMENTATION's reads of the backup; the classes
name the known ways the code breaks the promise (hypotheses of the `_partial` theorem).
-/
import SwV.Model.C37
namespace SwV.Spec.C37
open SwV.Model.C01 SwV.Model.C04 SwV.Model.C37

/-- cookie and data of a readable blob (the cookie of an empty blob is not stored: it echoes the request) -/
def obs (v : Option (Nat × Content)) : Option (Nat × String) :=
  v.map fun p => (if p.2.data = "" then 0 else p.1, p.2.data)

/-- The verdict, from the property text alone: after a backup run the backup serves, for every id,
    exactly what the source serves.  `srcV` = what the source serves for the id, `impl` = what the
    implementation's backup served (`none` = not found / deleted / read error).  The class says WHICH
    half of "exactly the source's live blobs with identical content" failed. -/
def verdict (srcV impl : Option (Nat × String)) : Option String :=
  match srcV, impl with
  | none, none => none
  | some a, some b => if a = b then none else some "backup/wrong-content"
  | some _, none => some "backup/misses-live-blob"          -- a live source blob is not served by the backup
  | none, some _ => some "backup/serves-deleted-blob"       -- the backup serves a blob the source does not

/-- the class of a RECORDED defect for a failed verdict (`srcRev` = the source's compaction revision,
    0 = never compacted); `none` = no recorded defect produces this kind of failure -/
def recordedClass (srcRev : Nat) (srcV impl : Option (Nat × String)) : Option String :=
  match srcV, impl with
  | some _, some _ => if srcRev = 0 then none else some "IncrementalBackup/stale-content-after-source-compaction"
  | some a, none =>
    if a.2 = "" then some "IncrementalBackup/empty-blob-indexed-as-delete"
    else if srcRev = 0 then none
    else some "IncrementalBackup/misses-update-after-source-compaction"
  | none, some _ => if srcRev = 0 then none else some "IncrementalBackup/serves-deleted-blob-after-source-compaction"
  | none, none => none

/-- Judge of one read of the backup, right after a backup run.  Whether the read FAILS is decided by
    `verdict` (source vs. backup, nothing else).  A failure carries the class of a recorded defect
    only when that defect's mechanism — the key-ordered index after a source compaction defeating the
    binary search, a delete compacted away at the source, an empty blob indexed as a deletion; all
    three are part of the model, `modelV` = what the model's backup serves — produces exactly the
    observed answer.  Any other failure keeps the verdict's own class (not recorded ⇒ VIOLATION):
    e.g. a live blob missing from the backup after a run that the recorded mechanisms do not lose. -/
def classify (srcRev : Nat) (srcV modelV impl : Option (Nat × String)) : Option String :=
  match verdict srcV impl with
  | none => none
  | some cls =>
    if impl = modelV then some ((recordedClass srcRev srcV impl).getD cls) else some cls

end SwV.Spec.C37
