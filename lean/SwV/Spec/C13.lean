/-
C13 spec: what a user of the sequencers relies on, over the LOG of observable events
(newest first): ranges handed out and max keys reported.

  every range [k, k+count) handed out is disjoint from every range handed out before (same key
  space), and starts above every max key reported (to the same sequencer instance) before.

`GoodLog` is the property; `clash` / `notAbove` are its executable form used by the driver's judge
on the IMPLEMENTATION's outputs (`goodLog_cons_issue` relates the two).
Core Lean only.
-/
namespace SwV.Spec.C13

inductive Obs where
  | issue (inst start count : Nat)   -- instance `inst` returned `start` for `count` keys
  | report (inst seen : Nat)         -- a heartbeat reported max key `seen` to instance `inst`
deriving Repr, DecidableEq

/-- [a, a+ca) and [b, b+cb) have a key in common -/
def overlap (a ca b cb : Nat) : Bool := decide (ca ≠ 0 ∧ cb ≠ 0 ∧ a < b + cb ∧ b < a + ca)

theorem overlap_iff (a ca b cb : Nat) : overlap a ca b cb = true ↔ ∃ x, a ≤ x ∧ x < a + ca ∧ b ≤ x ∧ x < b + cb := by
  unfold overlap
  simp only [decide_eq_true_eq]
  constructor
  · intro h
    by_cases hab : a ≤ b
    · exact ⟨b, by omega⟩
    · exact ⟨a, by omega⟩
  · rintro ⟨x, h⟩; omega

/-- an earlier issue overlapping [start, start+count) -/
def clash (log : List Obs) (start count : Nat) : Option Obs :=
  log.find? fun o => match o with
    | .issue _ s c => overlap start count s c
    | .report _ _ => false

/-- an earlier report to the same instance that is not below `start` -/
def notAbove (log : List Obs) (inst start : Nat) : Option Obs :=
  log.find? fun o => match o with
    | .issue _ _ _ => false
    | .report i seen => i == inst && decide (start ≤ seen)

/-- the property, over a log (newest first) -/
def GoodLog : List Obs → Prop
  | [] => True
  | .report _ _ :: rest => GoodLog rest
  | .issue i s c :: rest =>
    (∀ j s' c', Obs.issue j s' c' ∈ rest → overlap s c s' c' = false) ∧
    (∀ seen, Obs.report i seen ∈ rest → seen < s) ∧ GoodLog rest

/-- disjointness part only -/
def DisjLog : List Obs → Prop
  | [] => True
  | .report _ _ :: rest => DisjLog rest
  | .issue _ s c :: rest => (∀ j s' c', Obs.issue j s' c' ∈ rest → overlap s c s' c' = false) ∧ DisjLog rest

theorem GoodLog.disj : ∀ {l : List Obs}, GoodLog l → DisjLog l
  | [], _ => trivial
  | .report _ _ :: rest, h => GoodLog.disj (l := rest) h
  | .issue _ _ _ :: rest, h => ⟨h.1, GoodLog.disj (l := rest) h.2.2⟩

theorem clash_none_iff (log : List Obs) (s c : Nat) :
    clash log s c = none ↔ ∀ j s' c', Obs.issue j s' c' ∈ log → overlap s c s' c' = false := by
  unfold clash
  rw [List.find?_eq_none]
  constructor
  · intro h j s' c' hm
    have := h _ hm
    simpa using this
  · intro h o ho
    cases o with
    | issue j s' c' => simpa using h j s' c' ho
    | report _ _ => simp

theorem notAbove_none_iff (log : List Obs) (i s : Nat) :
    notAbove log i s = none ↔ ∀ seen, Obs.report i seen ∈ log → seen < s := by
  unfold notAbove
  rw [List.find?_eq_none]
  constructor
  · intro h seen hm
    have := h _ hm
    simp at this
    omega
  · intro h o ho
    cases o with
    | issue _ _ _ => simp
    | report j seen =>
      simp
      intro hj
      subst hj
      have := h seen ho
      omega

/-- the judge's executable test is exactly the property's step -/
theorem goodLog_cons_issue (log : List Obs) (i s c : Nat) :
    GoodLog (.issue i s c :: log) ↔ clash log s c = none ∧ notAbove log i s = none ∧ GoodLog log := by
  simp only [GoodLog, clash_none_iff, notAbove_none_iff]

/-- volume ids: a list of returned ids (newest first) is good when they are pairwise distinct -/
def Distinct : List Nat → Prop
  | [] => True
  | x :: rest => x ∉ rest ∧ Distinct rest

/-- the volume-id judge of the driver, executable form: the returned id has not been returned before -/
def vidJudge (ids : List Nat) (id : Nat) : Bool := !ids.contains id

/-- the judge's executable test is exactly the property's step (as `goodLog_cons_issue` for key ranges) -/
theorem vidJudge_iff (ids : List Nat) (id : Nat) : Distinct (id :: ids) ↔ vidJudge ids id = true ∧ Distinct ids := by
  simp [Distinct, vidJudge]

/-- a whole list of returned ids passes the judge one by one iff it is `Distinct` -/
def vidJudgeAll : List Nat → Bool
  | [] => true
  | id :: rest => vidJudge rest id && vidJudgeAll rest

theorem vidJudgeAll_iff : ∀ (ids : List Nat), vidJudgeAll ids = true ↔ Distinct ids
  | [] => by simp [vidJudgeAll, Distinct]
  | id :: rest => by
    rw [vidJudge_iff, ← vidJudgeAll_iff rest]
    simp [vidJudgeAll]

/-! ## a heartbeat and the assigns racing with it

"No assignment returns a key already used in the target volume": a volume server's heartbeat reports the
largest key in use in any of its volumes (`maxFileKey`) together with the volumes (`vols`).  Every grant
`(vid, key)` handed out once the master has seen that heartbeat — the master can only grant on `vid ∈ vols`
after it has seen it — must carry a key above `maxFileKey`. -/

def hbClass : String := "SendHeartbeat/assign-before-setmax-returns-used-key"

/-- the property for the grants observed around one heartbeat -/
def HbGood (maxFileKey : Nat) (vols : List Nat) (grants : List (Nat × Nat)) : Prop :=
  ∀ g ∈ grants, g.1 ∈ vols → maxFileKey < g.2

/-- executable form: the first grant on one of the heartbeat's volumes whose key is not above the reported max -/
def hbBad (maxFileKey : Nat) (vols : List Nat) (grants : List (Nat × Nat)) : Option (Nat × Nat) :=
  grants.find? fun g => vols.contains g.1 && decide (g.2 ≤ maxFileKey)

/-- the judge of the driver for an `hbrace` line -/
def hbJudge (maxFileKey : Nat) (vols : List Nat) (grants : List (Nat × Nat)) : Option String :=
  (hbBad maxFileKey vols grants).map fun _ => hbClass

/-- the judge's executable test is exactly the property -/
theorem hbJudge_none_iff (m : Nat) (vols : List Nat) (grants : List (Nat × Nat)) :
    hbJudge m vols grants = none ↔ HbGood m vols grants := by
  unfold hbJudge hbBad HbGood
  rw [Option.map_eq_none_iff, List.find?_eq_none]
  constructor
  · intro h g hg hv
    have := h g hg
    simp at this
    exact this hv
  · intro h g hg
    simp
    intro hv
    exact h g hg hv

end SwV.Spec.C13
