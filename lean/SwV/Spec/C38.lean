/-
C38 — recorded concurrent histories and the linearization search (core Lean only).
A recorded call carries logical-clock stamps taken just before the invocation and just
after the response.  `linearize` looks for an order of the calls that (a) never puts a call
before one that had already returned when it was invoked, and (b) makes the sequential
step function reproduce every recorded output.  It is generic in the step function; the
driver instantiates it with the C01 model's `step`.
-/
import SwV.Model.C01
import SwV.Spec.C01
import SwV.Model.C01Codec
namespace SwV.Spec.C38
open SwV.Model.C01

structure Rcd where
  client : Nat
  inv : Nat
  ret : Nat
  op : Op
  outs : List String
  line : Nat

inductive Verdict | found | notFound | budget
deriving DecidableEq, Repr

/-- calls that may be linearized first: invoked before every pending call's response -/
def minimal (pending : List Rcd) : List Rcd :=
  pending.filter fun c => pending.all fun d => c.inv < d.ret || c.line == d.line

/-- depth-first search; `fuel` bounds the number of visited nodes. Returns the verdict and the remaining fuel. -/
def search {σ : Type} (stepf : σ → Op → σ × List String) (okf : Rcd → List String → Bool) : Nat → σ → List Rcd → Nat → Verdict × Nat
  | 0, _, _, fuel => (.budget, fuel)
  | depth + 1, st, pending, fuel =>
    if pending.isEmpty then (.found, fuel) else
    let rec tryAll (cands : List Rcd) (fuel : Nat) : Verdict × Nat :=
      match cands with
      | [] => (.notFound, fuel)
      | c :: rest =>
        if fuel = 0 then (.budget, 0) else
        let (st', outs) := stepf st c.op
        if okf c outs then
          match search stepf okf depth st' (pending.filter fun d => d.line != c.line) (fuel - 1) with
          | (.found, f) => (.found, f)
          | (.budget, f) => (.budget, f)
          | (.notFound, f) => tryAll rest f
        else tryAll rest (fuel - 1)
    tryAll (minimal pending) fuel

/-- strict comparison: the sequential oracle must reproduce the recorded output -/
def strict (c : Rcd) (outs : List String) : Bool := outs == c.outs

/-- Used only to CLASSIFY a failure. An HTTP DELETE is a read followed by a delete (two
    critical sections): it answers 202 with the size its READ part saw, and its delete part is
    an unconditional storage-level delete at a later instant — by then a concurrent delete may
    have removed the entry, a concurrent write may have replaced it (even with a blob whose
    cookie the request does not match, when the read part saw an empty blob). The relaxed
    history replaces every DELETE that answered 202 by its delete part with an unobserved output. -/
def relaxHttpDelete (c : Rcd) : Rcd :=
  match c.op with
  | .hdelete id ck => if c.outs.head? == some "202" then { c with op := .delete id ck, outs := ["*"] } else c
  | _ => c

def strictOrWild (c : Rcd) (outs : List String) : Bool := c.outs == ["*"] || outs == c.outs

def linearize {σ : Type} (stepf : σ → Op → σ × List String) (okf : Rcd → List String → Bool) (st0 : σ)
    (calls : List Rcd) (fuel : Nat) : Verdict :=
  (search stepf okf (calls.length + 1) st0 calls fuel).1

/-! ## the per-key decomposition the driver uses (justified by `SwV.Props.C38.linearizable_of_per_key`) -/

/-- the file ids that occur in a history, in order of first occurrence -/
def keysOf (cs : List Rcd) : List Nat :=
  cs.foldl (fun acc c => if acc.contains (SwV.Spec.C01.opId c.op) then acc else acc ++ [SwV.Spec.C01.opId c.op]) []

/-- the calls on one file id, in recording order -/
def subHistory (cs : List Rcd) (k : Nat) : List Rcd := cs.filter fun c => SwV.Spec.C01.opId c.op == k

/-- an operation that addresses one file id (everything but the read-only toggle, which is global) -/
def keyed : Op → Bool
  | .setRO _ => false
  | _ => true

/-- the sequential oracle of the search: the C01 model's step with its outputs as protocol tokens -/
def modelStep (st : Vol) (op : Op) : Vol × List String :=
  let (st', o) := step st op
  (st', SwV.Codec.C01.mToks o)

end SwV.Spec.C38
