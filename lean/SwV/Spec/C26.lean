/-
C26 — specification side.

`authorized cfg rt rq`: what the property text demands of a request that has an effect at
the filer: it CARRIES a valid signature of an identity whose actions allow the route's
action on the request's bucket, or an anonymous identity is configured that may do it.
It speaks about the credentials the request carries — not about the auth type the gateway
classifies it as, and not about which verifier ran.

`grants`: the (action, bucket) pairs an IAM policy document's Allow statements name.
-/
import SwV.Model.C26
namespace SwV.Spec.C26
open SwV.Model.C26

/-- `none` action = any authenticated caller (ListBuckets filters the result per bucket itself) -/
def permitted (i : Identity) (action : Option Str) (bucket : Str) : Bool :=
  match action with
  | none => true
  | some a => canDo i.actions a bucket

/-- identity `i` owns the key pair the credential was made with, the signature is intact, and `i` may do it -/
def credAuthorizes (cfg : Config) (c : Cred) (action : Option Str) (bucket : Str) : Bool :=
  c.intact && cfg.any fun i => i.creds.contains (c.ak, c.sk) && permitted i action bucket

def routeAction (rt : Route) : Option Str := if rt.action == "-" then none else some (actionValue rt.action)

/-- a POST policy signs a form upload and nothing else -/
def formCounts (rt : Route) : Bool := kindOf rt.handler = .postPolicy

def anonymousAllowed (cfg : Config) (action : Option Str) (bucket : Str) : Bool :=
  cfg.any fun i => i.name == "anonymous" && permitted i action bucket

def authorized (cfg : Config) (rt : Route) (rq : Req) : Bool :=
  let act := routeAction rt
  (match rq.transport with | some c => credAuthorizes cfg c act rq.bucket | none => false)
  || (formCounts rt && match rq.form with | some c => credAuthorizes cfg c act rq.bucket | none => false)
  || anonymousAllowed cfg act rq.bucket

def authTypeName : AuthType → String
  | .unknown => "unknown" | .anonymous => "anonymous" | .presigned => "presigned" | .presignedV2 => "presignedV2"
  | .postPolicy => "postPolicy" | .streamingSigned => "streaming" | .signed => "signed" | .signedV2 => "signedV2" | .jwt => "jwt"

/-- The exclusion predicate of the partial theorem = the classes of the known findings:
    (auth type that `authRequest` lets through unverified) × (handler that does not verify it itself). -/
def excludedClass (cfg : Config) (rt : Route) (rq : Req) (eff : Nat) : Option String :=
  let t := authTypeOf rq
  if armOf t = .pass then
    match kindOf rt.handler with
    | .plain => some s!"{rt.handler}/{authTypeName t}-not-verified"
    | .putPart => if eff = 1 ∧ t = .streamingSigned then some "PutObjectPartHandler/filer-lookup-before-seed-verification"
                  else if t = .postPolicy then some s!"{rt.handler}/{authTypeName t}-not-verified" else none
    | .putObject => if t = .postPolicy then some s!"{rt.handler}/{authTypeName t}-not-verified" else none
    | .postPolicy => if (verifyForm cfg rq).isSome then some "PostPolicyBucketHandler/policy-signer-not-permitted" else none
    | .listBuckets => some s!"{rt.handler}/{authTypeName t}-not-verified"   -- unreachable on the real table (GET route)
  else none

/-- Judge over the IMPLEMENTATION's outputs (matched route, effect at the filer). -/
def effectJudge (cfg : Config) (rt : Route) (rq : Req) (eff : Nat) : Option String :=
  if !enabled cfg then none            -- the property speaks about gateways with identities configured
  else if eff = 0 then none
  else if authorized cfg rt rq then none
  else match excludedClass cfg rt rq eff with
    | some c => some c
    | none => some s!"{rt.handler}/{authTypeName (authTypeOf rq)}-effect-without-authorization"

/-! ### IAM policy documents -/

/-- `f` holds of some suffix of the string -/
def someSuffix (f : Str → Bool) : Str → Bool
  | [] => f []
  | d :: s => f (d :: s) || someSuffix f s

/-- first character equal, `f` of the rest -/
def headMatch (c : Char) (f : Str → Bool) : Str → Bool
  | [] => false
  | d :: s' => c == d && f s'

/-- `*` matches any run of characters (the only wildcard of S3 resource ARNs used here) -/
def globMatch : Str → Str → Bool
  | [] => fun s => s.isEmpty
  | c :: p => if c = '*' then someSuffix (globMatch p) else headMatch c (globMatch p)

/-- the gateway action an IAM action pattern stands for (`s3:Get*` ↦ Read, …; `s3:*` ↦ everything) -/
def iamAction : Str → Option Str
  | a => if a = "s3:*".toList then some adminA
    else if a = "s3:Put*".toList then some "Write".toList
    else if a = "s3:Get*".toList then some "Read".toList
    else if a = "s3:List*".toList then some "List".toList
    else if a = "s3:Tagging*".toList then some "Tagging".toList
    else none

def joinWith (c : Char) : List Str → Str
  | [] => []
  | [a] => a
  | a :: b :: t => a ++ c :: joinWith c (b :: t)

/-- a resource ARN `arn:aws:s3:<region>:<account>:<pat>` names bucket `b` when `pat` is `*` or `<glob>/*` with the glob matching `b` -/
def resourceNames (res : Str) (b : Str) : Prop :=
  ∃ region account pat : Str, res = joinWith ':' ["arn".toList, "aws".toList, "s3".toList, region, account, pat] ∧
    (pat = "*".toList ∨ ∃ g : Str, pat = g ++ "/*".toList ∧ globMatch g b = true)

/-- an Allow statement names (action, bucket) -/
def stmtNames (st : Stmt) (action bucket : Str) : Prop :=
  st.effect = "Allow".toList ∧
  ∃ res ∈ st.resources, ∃ a ∈ st.actions, resourceNames res bucket ∧ (iamAction a = some action ∨ iamAction a = some adminA)

def grants (p : List Stmt) (action bucket : Str) : Prop := ∃ st ∈ p, stmtNames st action bucket

/-- executable judge for one (action, bucket) probe: what `canDo` gives on the IMPLEMENTATION's action list
    must be named by an Allow statement (decidable version over the split structure, validated against `grants` in Props) -/
def resourceNamesB (res b : Str) : Bool :=
  match splitOn ':' res with
  | [x, y, z, _, _, pat] =>
    x = "arn".toList && y = "aws".toList && z = "s3".toList &&
      (pat = "*".toList || (match splitOn '/' pat with | [g, s] => s = "*".toList && globMatch g b | _ => false))
  | _ => false

def grantsB (p : List Stmt) (action bucket : Str) : Bool :=
  p.any fun st => st.effect = "Allow".toList && st.resources.any fun res => st.actions.any fun a =>
    resourceNamesB res bucket && (iamAction a = some action || iamAction a = some adminA)

def gatewayActions : List Str := ["Read".toList, "Write".toList, "List".toList, "Tagging".toList, "Admin".toList]

/-- returns the first (action, bucket) probe the implementation's list grants without being named -/
def iamJudge (p : List Stmt) (implActions : List Str) (buckets : List Str) : Option String :=
  let bad := gatewayActions.flatMap fun a => buckets.filterMap fun b =>
    if canDo implActions a b && !grantsB p a b then some (String.ofList a ++ ":" ++ String.ofList b) else none
  match bad with
  | [] => none
  | _ :: _ => some "GetActions/grants-more-than-named"

end SwV.Spec.C26
