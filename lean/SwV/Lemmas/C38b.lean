/-
C38 — the two instances of `Lemmas.C38.Local`:
  * `local_sstep`     : the C01 key-value SPECIFICATION `sstep` (view of id k = its entry + the two globals);
  * `local_step`, `local_modelStep` : the C01 MODEL's `step` (and the same with token outputs — the oracle the
                        driver runs); view of id k = the two globals, its index entry's size, whether its offset
                        is 0, and the record the offset points at; invariant: index offsets point into the log.
-/
import SwV.Lemmas.C38
namespace SwV.Lemmas.C38
open SwV.Model.C01 SwV.Spec.C01 SwV.Spec.C38

/-! ## the specification -/
def sview (s : KV) (k : Nat) : Option Entry × Bool × (Nat × Nat) := (s.m k, s.ro, s.volTtl)

theorem sstep_loc (s1 s2 : KV) (op : Op) (hk : keyed op = true) (hv : sview s1 (opId op) = sview s2 (opId op)) :
    (sstep s1 op).2 = (sstep s2 op).2 ∧ sview (sstep s1 op).1 (opId op) = sview (sstep s2 op).1 (opId op) := by
  obtain ⟨m1, ro1, ttl1⟩ := s1
  obtain ⟨m2, ro2, ttl2⟩ := s2
  simp only [sview, Prod.mk.injEq] at hv
  obtain ⟨hm, hro, httl⟩ := hv
  subst hro httl
  cases op <;> simp only [keyed, opId] at hk hm <;> unfold sstep sview <;> simp only [opId, ← hm] <;>
    (repeat' split) <;> simp_all [setM]

theorem sstep_frame (s : KV) (op : Op) (k : Nat) (hk : keyed op = true) (hne : opId op ≠ k) :
    sview (sstep s op).1 k = sview s k := by
  cases op <;> simp only [keyed, opId, ne_eq] at hk hne <;> unfold sstep sview <;> simp only [] <;>
    (repeat' split) <;> simp_all [setM] <;> omega

/-- FRAME + LOCALITY of the C01 specification: a step on id `a` leaves every other id's entry unchanged, and its
    output and the new entry of `a` depend on the old entry of `a` (and the read-only flag / volume TTL) only -/
theorem local_sstep : Local sstep sview (fun _ => True) where
  inv_step := fun _ _ _ => trivial
  frame := fun s op k _ hk hne => sstep_frame s op k hk hne
  loc := fun s1 s2 op _ _ hk hv => sstep_loc s1 s2 op hk hv

/-! ## the model -/
abbrev EView := Option (Bool × Int × Option Rec)
abbrev MView := Bool × (Nat × Nat) × EView

def eview (st : Vol) (k : Nat) : EView := (st.idx k).map fun e => (decide (e.off = 0), e.size, recAt st.log e.off)
def mview (st : Vol) (k : Nat) : MView := (st.ro, st.volTtl, eview st k)

/-- index offsets point into the log (or are 0) -/
def minv (st : Vol) : Prop := ∀ k e, st.idx k = some e → e.off ≤ st.log.length

theorem recAt_append (log : List Rec) (r : Rec) (off : Nat) (h : off ≤ log.length) :
    recAt (log ++ [r]) off = recAt log off := by
  unfold recAt
  by_cases h0 : off = 0
  · simp [h0]
  · simp only [h0, if_false]
    rw [List.getElem?_append_left (by omega)]

theorem recAt_new (log : List Rec) (r : Rec) : recAt (log ++ [r]) (log.length + 1) = some r := by
  unfold recAt; simp

/-- the three shapes of a successor state -/
inductive Shape (st : Vol) (a : Nat) : Vol → Prop
  | same : Shape st a st
  | app (r : Rec) : Shape st a { st with log := st.log ++ [r] }
  | put (r : Rec) (e : Ent) (h : e.off ≤ st.log.length + 1) :
      Shape st a { st with log := st.log ++ [r], idx := setIdx st.idx a e }

theorem writeStep_shape (st : Vol) (id ck : Nat) (c : Content) : Shape st id (writeStep st id ck c).1 := by
  unfold writeStep
  split
  · exact .same
  · simp only []
    split
    · exact .same
    · split
      · exact .same
      · split
        · exact .put _ _ (by simp)
        · split
          · exact .put _ _ (by simp)
          · exact .app _

theorem deleteStep_shape (st : Vol) (id ck : Nat) (hI : minv st) : Shape st id (deleteStep st id ck).1 := by
  unfold deleteStep
  split
  · exact .same
  · split
    · exact .same
    · rename_i e he
      split
      · exact .put _ _ (by have := hI _ _ he; simp; omega)
      · exact .same

theorem step_shape (st : Vol) (op : Op) (hk : keyed op = true) (hI : minv st) : Shape st (opId op) (step st op).1 := by
  cases op with
  | setRO b => simp [keyed] at hk
  | write id ck c => exact writeStep_shape st id ck c
  | delete id ck => exact deleteStep_shape st id ck hI
  | read id ck => exact .same
  | hread id ck => exact .same
  | hdelete id ck =>
    simp only [step, httpDelete, opId]
    split
    · split
      · exact .same
      · have := deleteStep_shape st id ck hI
        split <;> rename_i heq <;> rw [heq] at this <;> exact this
    · exact .same

theorem minv_of_shape {st st' : Vol} {a : Nat} (hI : minv st) (h : Shape st a st') : minv st' := by
  cases h with
  | same => exact hI
  | app r => intro k e he; have := hI k e he; simp; omega
  | put r e0 h0 =>
    intro k e he
    simp only [setIdx] at he
    by_cases hk : k = a
    · simp only [hk, if_true, Option.some.injEq] at he; subst he; simp; omega
    · simp only [hk, if_false] at he; have := hI k e he; simp; omega

theorem frame_of_shape {st st' : Vol} {a : Nat} (hI : minv st) (h : Shape st a st') (k : Nat) (hk : a ≠ k) :
    mview st' k = mview st k := by
  cases h with
  | same => rfl
  | app r =>
    simp only [mview, eview]
    cases he : st.idx k with
    | none => simp
    | some e => simp [recAt_append _ r _ (hI k e he)]
  | put r e0 h0 =>
    have hk' : ¬ k = a := fun h => hk h.symm
    simp only [mview, eview, setIdx, hk', if_false]
    cases he : st.idx k with
    | none => simp
    | some e => simp [recAt_append _ r _ (hI k e he)]

/-! locality -/

theorem eview_cases {st1 st2 : Vol} {id : Nat} (h : eview st1 id = eview st2 id) :
    (st1.idx id = none ∧ st2.idx id = none) ∨
    ∃ e1 e2, st1.idx id = some e1 ∧ st2.idx id = some e2 ∧ (e1.off = 0 ↔ e2.off = 0) ∧ e1.size = e2.size ∧
      recAt st1.log e1.off = recAt st2.log e2.off := by
  unfold eview at h
  cases h1 : st1.idx id with
  | none =>
    cases h2 : st2.idx id with
    | none => exact Or.inl ⟨rfl, rfl⟩
    | some e2 => simp [h1, h2] at h
  | some e1 =>
    cases h2 : st2.idx id with
    | none => simp [h1, h2] at h
    | some e2 =>
      simp only [h1, h2, Option.map_some, Option.some.injEq, Prod.mk.injEq, decide_eq_decide] at h
      exact Or.inr ⟨e1, e2, rfl, rfl, h.1, h.2.1, h.2.2⟩

theorem readStep_loc {st1 st2 : Vol} {id : Nat} (ck : Nat) (h : eview st1 id = eview st2 id) :
    readStep st1 id ck = readStep st2 id ck := by
  unfold readStep
  rcases eview_cases h with ⟨h1, h2⟩ | ⟨e1, e2, h1, h2, hz, hs, hr⟩
  · simp [h1, h2]
  · simp only [h1, h2, hs, hr]
    by_cases h0 : e1.off = 0
    · simp [h0, hz.1 h0]
    · have h0' : ¬ e2.off = 0 := fun h => h0 (hz.2 h)
      simp [h0, h0']

theorem unch_loc {st1 st2 : Vol} {id : Nat} (ck : Nat) (c : Content) (ht : st1.volTtl = st2.volTtl)
    (h : eview st1 id = eview st2 id) : isFileUnchanged st1 id ck c = isFileUnchanged st2 id ck c := by
  unfold isFileUnchanged
  rcases eview_cases h with ⟨h1, h2⟩ | ⟨e1, e2, h1, h2, hz, hs, hr⟩
  · simp [h1, h2, ht]
  · simp only [h1, h2, hs, hr, ht]
    by_cases h0 : e1.off = 0
    · simp [h0, hz.1 h0]
    · have h0' : ¬ e2.off = 0 := fun h => h0 (hz.2 h)
      simp [h0, h0']

theorem deleteStep_loc {st1 st2 : Vol} {id : Nat} (ck : Nat) (hI1 : minv st1) (hI2 : minv st2)
    (h : mview st1 id = mview st2 id) :
    (deleteStep st1 id ck).2 = (deleteStep st2 id ck).2 ∧ mview (deleteStep st1 id ck).1 id = mview (deleteStep st2 id ck).1 id := by
  simp only [mview, Prod.mk.injEq] at h
  obtain ⟨hro, ht, he⟩ := h
  unfold deleteStep
  by_cases hr : st1.ro = true
  · have hr2 : st2.ro = true := by rw [← hro]; exact hr
    rw [if_pos hr, if_pos hr2]
    simp only [mview, hro, ht, he, and_self]
  · have hr2 : ¬ st2.ro = true := by rw [← hro]; exact hr
    rw [if_neg hr, if_neg hr2]
    rcases eview_cases he with ⟨h1, h2⟩ | ⟨e1, e2, h1, h2, hz, hs, hrc⟩
    · simp only [h1, h2, mview, hro, ht, he, and_self]
    · simp only [h1, h2, hs]
      by_cases hp : 0 < e2.size
      · simp only [hp, if_true, true_and, mview, hro, ht, Prod.mk.injEq, eview, setIdx, Option.map_some, Option.some.injEq,
          decide_eq_decide]
        refine ⟨hz, ?_⟩
        rw [recAt_append _ _ _ (hI1 _ _ h1), recAt_append _ _ _ (hI2 _ _ h2)]
        exact hrc
      · simp only [hp, if_false, mview, hro, ht, he, and_self]

theorem writeStep_loc {st1 st2 : Vol} {id : Nat} (ck : Nat) (c : Content) (hI1 : minv st1) (hI2 : minv st2)
    (h : mview st1 id = mview st2 id) :
    (writeStep st1 id ck c).2 = (writeStep st2 id ck c).2 ∧
      mview (writeStep st1 id ck c).1 id = mview (writeStep st2 id ck c).1 id := by
  have h0 := h
  simp only [mview, Prod.mk.injEq] at h
  obtain ⟨hro, ht, he⟩ := h
  unfold writeStep
  by_cases hr : st1.ro = true
  · have hr2 : st2.ro = true := by rw [← hro]; exact hr
    rw [if_pos hr, if_pos hr2]
    simp only [h0, and_self]
  · have hr2 : ¬ st2.ro = true := by rw [← hro]; exact hr
    rw [if_neg hr, if_neg hr2]
    simp only [← unch_loc ck _ ht he, ← ht]
    by_cases hu : isFileUnchanged st1 id ck (inheritTtl st1.volTtl c) = true
    · simp only [hu, if_true, h0, and_self]
    · simp only [hu, Bool.false_eq_true, if_false]
      rcases eview_cases he with ⟨h1, h2⟩ | ⟨e1, e2, h1, h2, hz, hs, hrc⟩
      · simp only [h1, h2, if_true, true_and, mview, hro, ht, Prod.mk.injEq, eview, setIdx, Option.map_some, Option.some.injEq,
          decide_eq_decide, recAt_new]
        simp
      · simp only [h1, h2, ← hrc]
        cases hrec : recAt st1.log e1.off with
        | none => simp only [h0, and_self]
        | some r =>
          by_cases hc : r.cookie = ck
          · have p1 : e1.off < st1.log.length + 1 := by have := hI1 _ _ h1; omega
            have p2 : e2.off < st2.log.length + 1 := by have := hI2 _ _ h2; omega
            simp only [hc, ne_eq, not_true_eq_false, if_false, p1, p2, decide_true, if_true, true_and, mview, hro, ht, Prod.mk.injEq,
              eview, setIdx, Option.map_some, Option.some.injEq, decide_eq_decide, recAt_new]
            simp
          · simp only [hc, ne_eq, not_false_eq_true, if_true, h0, and_self]

theorem step_loc {st1 st2 : Vol} (op : Op) (hk : keyed op = true) (hI1 : minv st1) (hI2 : minv st2)
    (h : mview st1 (opId op) = mview st2 (opId op)) :
    (step st1 op).2 = (step st2 op).2 ∧ mview (step st1 op).1 (opId op) = mview (step st2 op).1 (opId op) := by
  have he : eview st1 (opId op) = eview st2 (opId op) := by
    simp only [mview, Prod.mk.injEq] at h; exact h.2.2
  cases op with
  | setRO b => simp [keyed] at hk
  | write id ck c =>
    have := writeStep_loc ck c hI1 hI2 h
    simp only [step, opId] at this ⊢
    exact ⟨by rw [this.1], this.2⟩
  | delete id ck =>
    have := deleteStep_loc ck hI1 hI2 h
    simp only [step, opId] at this ⊢
    exact ⟨by rw [this.1], this.2⟩
  | read id ck =>
    simp only [step, opId] at h he ⊢
    exact ⟨by rw [readStep_loc ck he], h⟩
  | hread id ck =>
    simp only [step, opId, httpRead] at h he ⊢
    exact ⟨by rw [readStep_loc ck he], h⟩
  | hdelete id ck =>
    have hd := deleteStep_loc ck hI1 hI2 h
    simp only [step, opId, httpDelete] at h he hd ⊢
    rw [← readStep_loc ck he]
    cases hrd : readStep st1 id ck with
    | notfound => exact ⟨rfl, h⟩
    | deleted => exact ⟨rfl, h⟩
    | ioerr => exact ⟨rfl, h⟩
    | ok n ck' sz c =>
      simp only []
      by_cases hck : ck' = ck
      · simp only [hck, ne_eq, not_true_eq_false, if_false]
        generalize deleteStep st1 id ck = r1 at hd ⊢
        generalize deleteStep st2 id ck = r2 at hd ⊢
        obtain ⟨s1, o1⟩ := r1
        obtain ⟨s2, o2⟩ := r2
        simp only at hd
        obtain ⟨ho, hv⟩ := hd
        subst ho
        cases o1 <;> simp only [] <;> first | exact ⟨rfl, hv⟩ | exact ⟨trivial, hv⟩
      · simp only [hck, ne_eq, not_false_eq_true, if_true]
        first | exact ⟨rfl, h⟩ | exact ⟨trivial, h⟩

/-- FRAME + LOCALITY of the C01 model's step -/
theorem local_step : Local step mview minv where
  inv_step := fun st op hI => by
    by_cases hk : keyed op = true
    · exact minv_of_shape hI (step_shape st op hk hI)
    · cases op <;> simp [keyed] at hk
      exact hI
  frame := fun st op k hI hk hne => frame_of_shape hI (step_shape st op hk hI) k hne
  loc := fun st1 st2 op h1 h2 hk hv => step_loc op hk h1 h2 hv

/-- post-composing the outputs with a function keeps locality -/
theorem Local.mapOut {σ V O O' : Type} {stepf : σ → Op → σ × O} {view : σ → Nat → V} {inv : σ → Prop}
    (L : Local stepf view inv) (g : O → O') : Local (fun st op => ((stepf st op).1, g (stepf st op).2)) view inv where
  inv_step := L.inv_step
  frame := L.frame
  loc := fun st1 st2 op h1 h2 hk hv => ⟨congrArg g (L.loc st1 st2 op h1 h2 hk hv).1, (L.loc st1 st2 op h1 h2 hk hv).2⟩

/-- … and of the oracle the driver runs -/
theorem local_modelStep : Local modelStep mview minv := by
  have : modelStep = fun st op => ((step st op).1, SwV.Codec.C01.mToks (step st op).2) := by
    funext st op; rfl
  rw [this]
  exact local_step.mapOut _

theorem minv_init (t : Nat × Nat) : minv (Vol.init t) := by
  intro k e h; simp [Vol.init] at h

end SwV.Lemmas.C38
