/-
C40 — a codec-free, decidable characterisation of `StableForward` (the replica rebuilds exactly the primary's needle
from the request `ReplicatedWrite` forwards through `operation.UploadData`).
-/
import SwV.Model.C40
import SwV.Spec.C40
namespace SwV.Lemmas.C40
open SwV.Model.C33 SwV.Model.C40

/-- the media type `doUploadData` ends up with on the forwarding path for the primary's needle `n`: the stored one, or
    (nothing stored, bytes not pre-compressed) what `http.DetectContentType` says unless that is octet-stream -/
def fwdType (s : Sniff) (n : Rec) : List Char :=
  if n.compressed then n.mime
  else if n.mime = [] then (if s.detected = octet then [] else s.detected) else n.mime

/-- does the forwarding upload gzip the bytes (sure-compressible type, or the 128-byte sample of an untyped blob > 16 KiB) -/
def fwdGzips (s : Sniff) (n : Rec) : Bool :=
  if n.compressed then false else
  let base := if n.name = [] then ['.'] else n.name
  let (sbc, sure) := isCompressable base (fwdType s n)
  if sure && sbc then true
  else if !sure && fwdType s n = [] && n.data.length > 16 * 1024 then s.gz128
  else false

/-- the mime type the REPLICA derives from the forwarded request -/
def replicaMime (s : Sniff) (n : Rec) : List Char :=
  let ext := if n.name = [] then [] else s.extMime
  let srvExt := if dotIndexPositive n.name then ext else []
  let ctype := if fwdType s n = [] then ext else fwdType s n
  let m := if !n.cm ∧ ctype ≠ [] ∧ ctype ≠ octet ∧ srvExt ≠ ctype then ctype else []
  if m.length < 256 then m else []

/-- SYNTACTIC stability: the forwarding upload does not re-compress, and the replica derives the mime type the primary
    stored.  No codec, no Store: a decidable property of the request and of the three sniffing oracles. -/
def stableSyntactic (s : Sniff) (q : Req) : Bool :=
  !fwdGzips s (createNeedle q) && decide (replicaMime s (createNeedle q) = (createNeedle q).mime)

theorem decide1_forward (s : Sniff) (n : Rec) :
    decide1 { name := n.name, mime := n.mime, cipher := false, inputCompressed := n.compressed, data := n.data,
              detected := s.detected, extMime := (if n.name = [] then [] else s.extMime), gz128 := s.gz128 } =
      (fwdType s n, fwdGzips s n) := by
  unfold decide1 fwdGzips fwdType
  cases hc : n.compressed
  · simp only [Bool.false_eq_true, if_false]
    generalize (if n.name = [] then ['.'] else n.name) = base
    generalize (if n.mime = [] then (if s.detected = octet then [] else s.detected) else n.mime) = mtype
    rcases isCompressable base mtype with ⟨sbc, sure⟩
    cases sbc <;> cases sure <;> simp <;> (by_cases h : mtype = [] ∧ 16384 < n.data.length <;> simp [h]) <;> (intro h1 h2; exact absurd ⟨h1, h2⟩ h)
  · simp

theorem createNeedle_name_short (q : Req) : (createNeedle q).name.length < 256 := by
  unfold createNeedle
  dsimp only
  split
  · assumption
  · simp

/-- the needle the replica builds, when the forwarding upload does not gzip -/
theorem replica_needle_of_no_gzip (c : Codec) (s : Sniff) (n : Rec) (hname : n.name.length < 256)
    (hg : fwdGzips s n = false) :
    createNeedle (forward c s n) = { n with mime := replicaMime s n } := by
  unfold forward
  simp only [decide1_forward, hg]
  unfold createNeedle replicaMime
  simp [hname]

/-- soundness: syntactic stability ⇒ `StableForward`, whatever gzip is -/
theorem stable_of_syntactic (c : Codec) (s : Sniff) (q : Req) (h : stableSyntactic s q = true) :
    createNeedle (forward c s (createNeedle q)) = createNeedle q := by
  simp only [stableSyntactic, Bool.and_eq_true, Bool.not_eq_true', decide_eq_true_eq] at h
  rw [replica_needle_of_no_gzip c s _ (createNeedle_name_short q) h.1, h.2]

theorem fwdGzips_not_compressed (s : Sniff) (n : Rec) (h : fwdGzips s n = true) : n.compressed = false := by
  cases hc : n.compressed
  · rfl
  · simp [fwdGzips, hc] at h

/-- completeness: when the forwarding upload gzips, the replica's needle is flagged compressed and the primary's is not;
    otherwise the only field that can differ is the mime type -/
theorem syntactic_of_stable (c : Codec) (s : Sniff) (q : Req)
    (h : createNeedle (forward c s (createNeedle q)) = createNeedle q) : stableSyntactic s q = true := by
  simp only [stableSyntactic, Bool.and_eq_true, Bool.not_eq_true', decide_eq_true_eq]
  cases hg : fwdGzips s (createNeedle q)
  · refine ⟨rfl, ?_⟩
    rw [replica_needle_of_no_gzip c s _ (createNeedle_name_short q) hg] at h
    exact congrArg Rec.mime h
  · exfalso
    have hc := fwdGzips_not_compressed s _ hg
    have h2 := congrArg Rec.compressed h
    rw [hc] at h2
    unfold forward at h2
    simp only [decide1_forward, hg] at h2
    simp [createNeedle] at h2

theorem createNeedle_mime_cases (q : Req) :
    (createNeedle q).mime = [] ∨
    ((createNeedle q).mime = q.ctype ∧ q.cm = false ∧ q.ctype ≠ octet ∧
        (if dotIndexPositive q.name then q.extMime else []) ≠ q.ctype ∧ q.ctype.length < 256) := by
  by_cases hc : (!q.cm) = true ∧ q.ctype ≠ [] ∧ q.ctype ≠ octet ∧ (if dotIndexPositive q.name then q.extMime else []) ≠ q.ctype
  · by_cases hl : q.ctype.length < 256
    · right
      refine ⟨?_, by simpa using hc.1, hc.2.2.1, hc.2.2.2, hl⟩
      simp only [createNeedle, if_pos hc, if_pos hl]
    · left
      simp only [createNeedle, if_pos hc, if_neg hl]
  · left
    simp only [createNeedle, if_neg hc]
    simp

/-- a readable sufficient class: the primary STORED a media type (client-supplied, not octet-stream, not the one the
    extension gives), the extension oracle of the forwarding step is the one of the request, and the bytes are not
    re-compressed (already compressed, or the type is not one `IsCompressableFileType` is sure to compress) -/
theorem syntactic_of_typed (s : Sniff) (q : Req) (hm : (createNeedle q).mime ≠ []) (hext : s.extMime = q.extMime)
    (hz : q.gz = true ∨
      (isCompressable (if (createNeedle q).name = [] then ['.'] else (createNeedle q).name) (createNeedle q).mime).1 = false ∨
      (isCompressable (if (createNeedle q).name = [] then ['.'] else (createNeedle q).name) (createNeedle q).mime).2 = false) :
    stableSyntactic s q = true := by
  have hcomp : (createNeedle q).compressed = q.gz := rfl
  have hcm : (createNeedle q).cm = q.cm := rfl
  have hty : fwdType s (createNeedle q) = (createNeedle q).mime := by
    unfold fwdType; simp [hm]
  simp only [stableSyntactic, Bool.and_eq_true, Bool.not_eq_true', decide_eq_true_eq]
  constructor
  · unfold fwdGzips
    rw [hty, hcomp]
    cases hgz : q.gz
    · simp only [Bool.false_eq_true, if_false]
      rcases hz with hz | hz | hz
      · simp [hgz] at hz
      · generalize isCompressable _ (createNeedle q).mime = p at hz ⊢
        obtain ⟨sbc, sure⟩ := p
        simp only at hz
        subst hz
        simp [hm]
      · generalize isCompressable _ (createNeedle q).mime = p at hz ⊢
        obtain ⟨sbc, sure⟩ := p
        simp only at hz
        subst hz
        simp [hm]
    · simp
  · -- the mime type: the primary kept q.ctype, so it is non-empty, not octet-stream, not the extension's type
    unfold replicaMime
    rw [hty, hcm]
    simp only [hm, if_false]
    -- unfold what the primary did
    have key : (createNeedle q).mime = q.ctype ∧ q.cm = false ∧ q.ctype ≠ octet ∧
        (if dotIndexPositive q.name then q.extMime else []) ≠ q.ctype ∧ q.ctype.length < 256 := by
      rcases createNeedle_mime_cases q with h0 | h1
      · exact absurd h0 hm
      · exact h1
    obtain ⟨k1, k2, k3, k4, k5⟩ := key
    rw [k1] at hm ⊢
    have hsrv : (if dotIndexPositive (createNeedle q).name then (if (createNeedle q).name = [] then [] else s.extMime) else []) ≠ q.ctype := by
      unfold createNeedle
      dsimp only
      by_cases hl : q.name.length < 256
      · simp only [hl, if_true]
        by_cases hd : dotIndexPositive q.name = true
        · have hne : q.name ≠ [] := by intro e; rw [e] at hd; simp [dotIndexPositive] at hd
          simp only [hd, if_true, hne, if_false, hext]
          simpa [hd] using k4
        · simp only [hd]; exact fun e => hm e.symm
      · simp only [hl, if_false]
        simp [dotIndexPositive]; exact hm
    simp [k2, hm, k3, hsrv, k5]

end SwV.Lemmas.C40
