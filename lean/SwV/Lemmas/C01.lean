/-
C01 — helper lemmas: the representation invariant of the model's state and the
one-step simulation squares used by SwV/Props/C01.lean.
-/
import SwV.Model.C01
import SwV.Spec.C01
namespace SwV.Lemmas.C01
open SwV.Model.C01 SwV.Spec.C01

/-! ### the record log -/

theorem recAt_some_le {log : List Rec} {off : Nat} {r : Rec} (h : recAt log off = some r) :
    off ≠ 0 ∧ off ≤ log.length := by
  unfold recAt at h
  split at h
  · simp at h
  · obtain ⟨hlt, _⟩ := List.getElem?_eq_some_iff.mp h
    omega

theorem recAt_append {log : List Rec} {off : Nat} {r : Rec} (x : Rec) (h : recAt log off = some r) :
    recAt (log ++ [x]) off = some r := by
  have hle := recAt_some_le h
  unfold recAt at h ⊢
  simp only [hle.1, if_false] at h ⊢
  rw [List.getElem?_append_left (by omega)]
  exact h

theorem recAt_new (log : List Rec) (x : Rec) : recAt (log ++ [x]) (log.length + 1) = some x := by
  unfold recAt
  simp

/-! ### contents -/

theorem stored_empty {c : Content} (h : c.data = "") : stored c = Content.empty := by
  simp [stored, h]

theorem stored_data (c : Content) : (stored c).data = c.data := by
  unfold stored
  split
  · rename_i h; simp [Content.empty, h]
  · rfl

theorem stored_wf {c : Content} (hw : wfContent c = true) (hd : c.data ≠ "") : stored c = c := by
  rcases c with ⟨data, fl, name, mime, pairs, lm, ttl⟩
  simp only [wfContent, Bool.and_eq_true, Bool.or_eq_true, beq_iff_eq, decide_eq_true_eq] at hw
  obtain ⟨⟨⟨⟨⟨h1, h2⟩, h3⟩, h4⟩, h5⟩, h6⟩ := hw
  simp only [stored]
  simp only at hd
  rw [if_neg hd]
  congr 1
  · rcases h1 with h | h <;> simp [h]
  · rcases h2 with h | h <;> simp [h]
  · rcases h3 with h | h <;> simp [h]
  · rcases h4 with h | h
    · simp [h]; exact h5
    · simp [h]
  · rcases h6 with h | h <;> simp [h]

theorem needleSize_pos_iff (c : Content) : 0 < needleSize c ↔ c.data ≠ "" := by
  unfold needleSize
  split <;> rename_i h
  · simp [h]
  · constructor
    · intro _; exact h
    · intro _; omega

theorem needleSize_zero_iff (c : Content) : needleSize c = 0 ↔ c.data = "" := by
  have := needleSize_pos_iff c
  constructor
  · intro h; by_cases hd : c.data = ""
    · exact hd
    · have := this.mpr hd; omega
  · intro h; simp [needleSize, h]

theorem inheritTtl_wf {t : Nat × Nat} {c : Content} (hw : wfContent c = true) : wfContent (inheritTtl t c) = true := by
  unfold inheritTtl
  split
  · simp only [wfContent, Bool.and_eq_true, Bool.or_eq_true, beq_iff_eq, decide_eq_true_eq] at hw ⊢
    obtain ⟨⟨⟨⟨⟨h1, h2⟩, h3⟩, h4⟩, h5⟩, _⟩ := hw
    exact ⟨⟨⟨⟨⟨h1, h2⟩, h3⟩, h4⟩, h5⟩, Or.inl trivial⟩
  · exact hw

/-- well-formed and not in class (iii): what reaches the disk is what was written -/
theorem stored_eq_self {c : Content} (hw : wfContent c = true) (hx : ¬(c.data = "" ∧ c ≠ Content.empty)) :
    stored c = c := by
  by_cases hd : c.data = ""
  · have : c = Content.empty := by
      by_cases he : c = Content.empty
      · exact he
      · exact absurd ⟨hd, he⟩ hx
    rw [stored_empty hd, this]
  · exact stored_wf hw hd

/-! ### the representation invariant -/

/-- every index entry points at a record of the log; a positive size is the size of that
    record and the record has data; size 0 means the record is a bare header -/
def Inv (st : Vol) : Prop :=
  ∀ id e, st.idx id = some e →
    ∃ r, recAt st.log e.off = some r ∧ (0 < e.size → r.size = e.size ∧ r.c.data ≠ "") ∧ (e.size = 0 → r.c = Content.empty)

theorem inv_init (t : Nat × Nat) : Inv (Vol.init t) := by
  intro id e h
  simp [Vol.init] at h

theorem absEntry_some {st : Vol} {id : Nat} {e : Ent} {r : Rec} (h1 : st.idx id = some e)
    (h2 : recAt st.log e.off = some r) :
    absEntry st id = some ⟨r.cookie, if e.size < 0 then none else some r.c⟩ := by
  simp [absEntry, h1, h2]

theorem absEntry_none {st : Vol} {id : Nat} (h : st.idx id = none) : absEntry st id = none := by
  simp [absEntry, h]

theorem setM_self {m : Nat → Option Entry} {id : Nat} {e : Entry} (h : m id = some e) : setM m id e = m := by
  funext k
  unfold setM
  split
  · rename_i hk; rw [hk, h]
  · rfl

/-- the state after appending record `x` and pointing `id` at `e'` -/
def appendSet (st : Vol) (x : Rec) (id : Nat) (e' : Ent) : Vol :=
  { st with log := st.log ++ [x], idx := setIdx st.idx id e' }

def newRec (id ck : Nat) (c : Content) : Rec := { id := id, cookie := ck, size := (needleSize c : Int), c := stored c }

/-- appending a record and re-pointing one id: the abstraction changes at that id only -/
theorem absEntry_appendSet {st : Vol} (hI : Inv st) (id : Nat) (x : Rec) (e' : Ent) (r' : Rec)
    (hr : recAt (st.log ++ [x]) e'.off = some r') :
    absEntry (appendSet st x id e') =
      setM (absEntry st) id ⟨r'.cookie, if e'.size < 0 then none else some r'.c⟩ := by
  funext k
  unfold setM
  by_cases hk : k = id
  · subst hk
    simp [absEntry, appendSet, setIdx, hr]
  · simp only [hk, if_false]
    unfold absEntry
    simp only [appendSet, setIdx, hk, if_false]
    cases hik : st.idx k with
    | none => rfl
    | some e =>
      obtain ⟨r, hr0, _⟩ := hI k e hik
      simp [recAt_append x hr0, hr0]

theorem abs_appendSet {st : Vol} (hI : Inv st) (id : Nat) (x : Rec) (e' : Ent) (r' : Rec)
    (hr : recAt (st.log ++ [x]) e'.off = some r') :
    abs (appendSet st x id e') =
      { abs st with m := setM (abs st).m id ⟨r'.cookie, if e'.size < 0 then none else some r'.c⟩ } := by
  unfold abs
  rw [absEntry_appendSet hI id x e' r' hr]
  rfl

theorem inv_appendSet {st : Vol} (hI : Inv st) (id : Nat) (x : Rec) (e' : Ent) (r' : Rec)
    (hr : recAt (st.log ++ [x]) e'.off = some r')
    (h1 : 0 < e'.size → r'.size = e'.size ∧ r'.c.data ≠ "") (h2 : e'.size = 0 → r'.c = Content.empty) :
    Inv (appendSet st x id e') := by
  intro k e hk
  simp only [appendSet, setIdx] at hk
  by_cases hki : k = id
  · simp only [hki, if_true, Option.some.injEq] at hk
    subst hk
    exact ⟨r', hr, h1, h2⟩
  · simp only [hki, if_false] at hk
    obtain ⟨r, hr0, ha, hb⟩ := hI k e hk
    exact ⟨r, recAt_append x hr0, ha, hb⟩

/-! ### the model's steps, case by case -/

theorem writeStep_ro {st : Vol} (id ck : Nat) (c0 : Content) (h : st.ro = true) :
    writeStep st id ck c0 = (st, .ro) := by
  simp [writeStep, h]

theorem writeStep_unchanged {st : Vol} (id ck : Nat) (c0 : Content) (h : st.ro = false)
    (hu : isFileUnchanged st id ck (inheritTtl st.volTtl c0) = true) :
    writeStep st id ck c0 = (st, .ok true) := by
  simp [writeStep, h, hu]

theorem writeStep_cookie {st : Vol} (id ck : Nat) (c0 : Content) (h : st.ro = false)
    (hu : isFileUnchanged st id ck (inheritTtl st.volTtl c0) = false)
    {e : Ent} {r : Rec} (hi : st.idx id = some e) (hr : recAt st.log e.off = some r) (hck : r.cookie ≠ ck) :
    writeStep st id ck c0 = (st, .cookie) := by
  simp [writeStep, h, hu, hi, hr, hck]

theorem writeStep_append {st : Vol} (id ck : Nat) (c0 : Content) (h : st.ro = false)
    (hu : isFileUnchanged st id ck (inheritTtl st.volTtl c0) = false)
    (hok : ∀ e, st.idx id = some e → ∃ r, recAt st.log e.off = some r ∧ r.cookie = ck) :
    writeStep st id ck c0 =
      (appendSet st (newRec id ck (inheritTtl st.volTtl c0)) id
        ⟨st.log.length + 1, (needleSize (inheritTtl st.volTtl c0) : Int)⟩, .ok false) := by
  cases hi : st.idx id with
  | none => simp [writeStep, h, hu, hi, appendSet, newRec]
  | some e =>
    obtain ⟨r, hr, hck⟩ := hok e hi
    have hle := (recAt_some_le hr).2
    have : e.off < st.log.length + 1 := by omega
    simp [writeStep, h, hu, hi, hr, hck, appendSet, newRec, this]

/-! ### the specification's steps, case by case -/

theorem sstep_write_ro {s : KV} (id ck : Nat) (c0 : Content) (h : s.ro = true) :
    sstep s (.write id ck c0) = (s, .wRo) := by
  simp [sstep, h]

theorem sstep_write_cookie {s : KV} (id ck : Nat) (c0 : Content) (h : s.ro = false) {e : Entry}
    (hm : s.m id = some e) (hck : e.cookie ≠ ck) : sstep s (.write id ck c0) = (s, .wCookie) := by
  simp [sstep, h, hm, hck]

theorem sstep_write_set {s : KV} (id ck : Nat) (c0 : Content) (h : s.ro = false)
    (hm : ∀ e, s.m id = some e → e.cookie = ck) :
    sstep s (.write id ck c0) = ({ s with m := setM s.m id ⟨ck, some (inheritTtl s.volTtl c0)⟩ }, .wOk) := by
  cases hi : s.m id with
  | none => simp [sstep, h, hi]
  | some e => simp [sstep, h, hi, hm e hi]

theorem excluded_write_none {s : KV} {id ck : Nat} {c0 : Content} (hx : excluded s (.write id ck c0) = none) :
    ¬((inheritTtl s.volTtl c0).data = "" ∧ inheritTtl s.volTtl c0 ≠ Content.empty) ∧
    ∀ k c', s.m id = some ⟨k, some c'⟩ →
      ¬(k = ck ∧ c'.data = (inheritTtl s.volTtl c0).data ∧ c' ≠ inheritTtl s.volTtl c0) := by
  simp only [excluded] at hx
  split at hx
  · simp at hx
  · rename_i h3
    refine ⟨h3, ?_⟩
    intro k c' hm
    rw [hm] at hx
    simp only at hx
    split at hx
    · simp at hx
    · assumption


/-! ### one-step simulation, operation by operation -/


theorem isFileUnchanged_true {st : Vol} {id ck : Nat} {c : Content} {e : Ent} {r : Rec}
    (hi : st.idx id = some e) (hr : recAt st.log e.off = some r)
    (hu : isFileUnchanged st id ck c = true) : 0 < e.size ∧ r.cookie = ck ∧ r.c.data = c.data := by
  unfold isFileUnchanged at hu
  split at hu
  · simp at hu
  · simp only [hi] at hu
    split at hu
    · rename_i h
      simp only [hr, Bool.and_eq_true, beq_iff_eq] at hu
      exact ⟨h.2, hu.1.2, hu.2⟩
    · simp at hu

theorem write_sim {st : Vol} (hI : Inv st) (id ck : Nat) (c0 : Content) (hw : wfContent c0 = true)
    (hx : excluded (abs st) (.write id ck c0) = none) :
    Inv (writeStep st id ck c0).1 ∧ abs (writeStep st id ck c0).1 = (sstep (abs st) (.write id ck c0)).1 ∧
      absOut (.w (writeStep st id ck c0).2) = (sstep (abs st) (.write id ck c0)).2 := by
  obtain ⟨h3, h1⟩ := excluded_write_none hx
  have hvt : (abs st).volTtl = st.volTtl := rfl
  rw [hvt] at h3 h1
  have hwc : wfContent (inheritTtl st.volTtl c0) = true := inheritTtl_wf hw
  have hst := stored_eq_self hwc h3
  by_cases hro : st.ro = true
  · rw [writeStep_ro _ _ _ hro, sstep_write_ro _ _ _ (show (abs st).ro = true from hro)]
    exact ⟨hI, rfl, rfl⟩
  · have hro' : st.ro = false := by simpa using hro
    have hsro : (abs st).ro = false := hro'
    -- the append case, shared by "new id" and "same cookie"
    have happend : isFileUnchanged st id ck (inheritTtl st.volTtl c0) = false →
        (∀ e, st.idx id = some e → ∃ r, recAt st.log e.off = some r ∧ r.cookie = ck) →
        (∀ e, (abs st).m id = some e → e.cookie = ck) →
        Inv (writeStep st id ck c0).1 ∧ abs (writeStep st id ck c0).1 = (sstep (abs st) (.write id ck c0)).1 ∧
          absOut (.w (writeStep st id ck c0).2) = (sstep (abs st) (.write id ck c0)).2 := by
      intro hu hok hm
      rw [writeStep_append _ _ _ hro' hu hok, sstep_write_set _ _ _ hsro hm]
      have hrec := recAt_new st.log (newRec id ck (inheritTtl st.volTtl c0))
      refine ⟨?_, ?_, rfl⟩
      · apply inv_appendSet hI id _ ⟨st.log.length + 1, _⟩ _ hrec
        · intro hp
          refine ⟨rfl, ?_⟩
          simp only [newRec, stored_data]
          exact (needleSize_pos_iff _).mp (by simpa using hp)
        · intro hz
          simp only [newRec]
          exact stored_empty ((needleSize_zero_iff _).mp (by simpa using hz))
      · simp only []
        rw [abs_appendSet hI id _ ⟨st.log.length + 1, _⟩ _ hrec]
        have hnn : ¬ ((needleSize (inheritTtl st.volTtl c0) : Int) < 0) := by omega
        simp only [newRec, hnn, if_false, hst, hvt]
    cases hidx : st.idx id with
    | none =>
      have habs : (abs st).m id = none := absEntry_none hidx
      apply happend
      · simp [isFileUnchanged, hidx]
      · intro e he; rw [hidx] at he; cases he
      · intro e he; rw [habs] at he; cases he
    | some e =>
      obtain ⟨r, hr, hpos, hzero⟩ := hI id e hidx
      have habs : (abs st).m id = some ⟨r.cookie, if e.size < 0 then none else some r.c⟩ := absEntry_some hidx hr
      by_cases hu : isFileUnchanged st id ck (inheritTtl st.volTtl c0) = true
      · obtain ⟨hp, hck, hdata⟩ := isFileUnchanged_true hidx hr hu
        have hnn : ¬ e.size < 0 := by omega
        rw [if_neg hnn] at habs
        have hsame : r.c = inheritTtl st.volTtl c0 := by
          by_cases hne : r.c = inheritTtl st.volTtl c0
          · exact hne
          · exact absurd ⟨hck, hdata, hne⟩ (h1 _ _ habs)
        rw [writeStep_unchanged _ _ _ hro' hu,
          sstep_write_set _ _ _ hsro (by intro e' he'; rw [habs] at he'; cases he'; exact hck)]
        refine ⟨hI, ?_, rfl⟩
        simp only [hvt]
        rw [setM_self (by rw [habs, hck, hsame])]
        rfl
      · have hu' : isFileUnchanged st id ck (inheritTtl st.volTtl c0) = false := by simpa using hu
        by_cases hck : r.cookie = ck
        · apply happend hu'
          · intro e' he'; rw [hidx] at he'; cases he'; exact ⟨r, hr, hck⟩
          · intro e' he'; rw [habs] at he'; cases he'; exact hck
        · rw [writeStep_cookie _ _ _ hro' hu' hidx hr hck, sstep_write_cookie _ _ _ hsro habs hck]
          exact ⟨hI, rfl, rfl⟩


def tomb (id ck : Nat) : Rec := { id := id, cookie := ck, size := 0, c := Content.empty }

theorem deleteStep_ro {st : Vol} (id ck : Nat) (h : st.ro = true) : deleteStep st id ck = (st, .ro) := by
  simp [deleteStep, h]

theorem deleteStep_none {st : Vol} (id ck : Nat) (h : st.ro = false) (hi : st.idx id = none) :
    deleteStep st id ck = (st, .ok 0) := by
  simp [deleteStep, h, hi]

theorem deleteStep_noop {st : Vol} (id ck : Nat) (h : st.ro = false) {e : Ent} (hi : st.idx id = some e)
    (hs : ¬ 0 < e.size) : deleteStep st id ck = (st, .ok 0) := by
  simp [deleteStep, h, hi, hs]

theorem deleteStep_live {st : Vol} (id ck : Nat) (h : st.ro = false) {e : Ent} (hi : st.idx id = some e)
    (hs : 0 < e.size) : deleteStep st id ck = (appendSet st (tomb id ck) id ⟨e.off, -e.size⟩, .ok e.size) := by
  simp [deleteStep, h, hi, hs, appendSet, tomb]

/-- the live / deleted / absent trichotomy of the abstraction, read off the index -/
theorem abs_cases {st : Vol} (hI : Inv st) (id : Nat) :
    (st.idx id = none ∧ (abs st).m id = none) ∨
    (∃ e r, st.idx id = some e ∧ recAt st.log e.off = some r ∧ e.size < 0 ∧ (abs st).m id = some ⟨r.cookie, none⟩) ∨
    (∃ e r, st.idx id = some e ∧ recAt st.log e.off = some r ∧ e.size = 0 ∧ r.c = Content.empty ∧
        (abs st).m id = some ⟨r.cookie, some Content.empty⟩) ∨
    (∃ e r, st.idx id = some e ∧ recAt st.log e.off = some r ∧ 0 < e.size ∧ r.size = e.size ∧ r.c.data ≠ "" ∧
        (abs st).m id = some ⟨r.cookie, some r.c⟩) := by
  cases hidx : st.idx id with
  | none => exact Or.inl ⟨rfl, absEntry_none hidx⟩
  | some e =>
    obtain ⟨r, hr, hpos, hzero⟩ := hI id e hidx
    have habs : (abs st).m id = some ⟨r.cookie, if e.size < 0 then none else some r.c⟩ := absEntry_some hidx hr
    rcases Int.lt_trichotomy e.size 0 with hlt | heq | hgt
    · rw [if_pos hlt] at habs
      exact Or.inr (Or.inl ⟨e, r, rfl, hr, hlt, habs⟩)
    · have hnn : ¬ e.size < 0 := by omega
      rw [if_neg hnn, hzero heq] at habs
      exact Or.inr (Or.inr (Or.inl ⟨e, r, rfl, hr, heq, hzero heq, habs⟩))
    · have hnn : ¬ e.size < 0 := by omega
      rw [if_neg hnn] at habs
      exact Or.inr (Or.inr (Or.inr ⟨e, r, rfl, hr, hgt, (hpos hgt).1, (hpos hgt).2, habs⟩))

theorem readStep_live {st : Vol} (id ck : Nat) {e : Ent} {r : Rec} (hidx : st.idx id = some e)
    (hr : recAt st.log e.off = some r) (hgt : 0 < e.size) (hsz : r.size = e.size) :
    readStep st id ck = .ok (byteLen r.c.data) r.cookie r.size r.c := by
  have := (recAt_some_le hr).1
  have h1 : ¬ e.size < 0 := by omega
  have h2 : ¬ e.size = 0 := by omega
  simp [readStep, hidx, this, h1, h2, hr, hsz]

theorem delete_live_sim {st : Vol} (hI : Inv st) (id ck : Nat) {e : Ent} {r : Rec} (hro : st.ro = false)
    (hidx : st.idx id = some e) (hr : recAt st.log e.off = some r) (hgt : 0 < e.size) :
    Inv (deleteStep st id ck).1 ∧
      abs (deleteStep st id ck).1 = { abs st with m := setM (abs st).m id ⟨r.cookie, none⟩ } ∧
      (deleteStep st id ck).2 = .ok e.size := by
  rw [deleteStep_live _ _ hro hidx hgt]
  have hrec : recAt (st.log ++ [tomb id ck]) (⟨e.off, -e.size⟩ : Ent).off = some r := recAt_append _ hr
  refine ⟨?_, ?_, rfl⟩
  · apply inv_appendSet hI id _ ⟨e.off, -e.size⟩ r hrec
    · intro hp; simp only at hp; omega
    · intro hz; simp only at hz; omega
  · rw [abs_appendSet hI id _ ⟨e.off, -e.size⟩ r hrec]
    have : (-e.size < 0) := by omega
    simp only [this, if_true]

theorem delete_sim {st : Vol} (hI : Inv st) (id ck : Nat) (hx : excluded (abs st) (.delete id ck) = none) :
    Inv (deleteStep st id ck).1 ∧ abs (deleteStep st id ck).1 = (sstep (abs st) (.delete id ck)).1 ∧
      absOut (.d (deleteStep st id ck).2) = (sstep (abs st) (.delete id ck)).2 := by
  by_cases hro : st.ro = true
  · rw [deleteStep_ro _ _ hro]
    have : (abs st).ro = true := hro
    simp only [sstep, this, if_true]
    refine ⟨hI, ?_, ?_⟩ <;> first | rfl | trivial
  · have hro' : st.ro = false := by simpa using hro
    have hsro : (abs st).ro = false := hro'
    rcases abs_cases hI id with ⟨hidx, habs⟩ | ⟨e, r, hidx, hr, hlt, habs⟩ | ⟨e, r, hidx, hr, heq, hre, habs⟩ | ⟨e, r, hidx, hr, hgt, hsz, hd, habs⟩
    · rw [deleteStep_none _ _ hro' hidx]
      simp only [sstep, hsro, habs]
      refine ⟨hI, ?_, ?_⟩ <;> first | rfl | trivial
    · rw [deleteStep_noop _ _ hro' hidx (by omega)]
      simp only [sstep, hsro, habs]
      refine ⟨hI, ?_, ?_⟩ <;> first | rfl | trivial
    · simp [excluded, habs, Content.empty] at hx
    · obtain ⟨h1, h2, h3⟩ := delete_live_sim hI id ck hro' hidx hr hgt
      refine ⟨h1, ?_, ?_⟩
      · rw [h2]; simp only [sstep, hsro, habs]; rfl
      · rw [h3]; simp only [sstep, hsro, habs, absOut, hgt, decide_true]; rfl

theorem read_sim {st : Vol} (hI : Inv st) (id ck : Nat) :
    absOut (.r (readStep st id ck)) = (sstep (abs st) (.read id ck)).2 ∧ (sstep (abs st) (.read id ck)).1 = abs st := by
  rcases abs_cases hI id with ⟨hidx, habs⟩ | ⟨e, r, hidx, hr, hlt, habs⟩ | ⟨e, r, hidx, hr, heq, hre, habs⟩ | ⟨e, r, hidx, hr, hgt, hsz, hd, habs⟩
  · simp [readStep, hidx, sstep, habs, absOut]
  · have := (recAt_some_le hr).1
    simp [readStep, hidx, sstep, habs, absOut, this, hlt]
  · have := (recAt_some_le hr).1
    simp [readStep, hidx, sstep, habs, absOut, this, heq]
  · have := (recAt_some_le hr).1
    have h1 : ¬ e.size < 0 := by omega
    have h2 : ¬ e.size = 0 := by omega
    simp [readStep, hidx, sstep, habs, absOut, this, h1, h2, hr, hsz]

theorem hread_sim {st : Vol} (hI : Inv st) (id ck : Nat) :
    absOut (.hr (httpRead st id ck).1 (httpRead st id ck).2) = (sstep (abs st) (.hread id ck)).2 ∧
      (sstep (abs st) (.hread id ck)).1 = abs st := by
  rcases abs_cases hI id with ⟨hidx, habs⟩ | ⟨e, r, hidx, hr, hlt, habs⟩ | ⟨e, r, hidx, hr, heq, hre, habs⟩ | ⟨e, r, hidx, hr, hgt, hsz, hd, habs⟩
  · simp [httpRead, readStep, hidx, sstep, habs, absOut]
  · have := (recAt_some_le hr).1
    simp [httpRead, readStep, hidx, sstep, habs, absOut, this, hlt]
  · have := (recAt_some_le hr).1
    simp [httpRead, readStep, hidx, sstep, habs, absOut, this, heq, Content.empty]
  · have := (recAt_some_le hr).1
    have h1 : ¬ e.size < 0 := by omega
    have h2 : ¬ e.size = 0 := by omega
    by_cases hck : r.cookie = ck
    · simp [httpRead, readStep, hidx, sstep, habs, absOut, this, h1, h2, hr, hsz, hck]
    · simp [httpRead, readStep, hidx, sstep, habs, absOut, this, h1, h2, hr, hsz, hck, hd]

theorem hdelete_sim {st : Vol} (hI : Inv st) (id ck : Nat) (hx : excluded (abs st) (.hdelete id ck) = none) :
    Inv (httpDelete st id ck).1 ∧ abs (httpDelete st id ck).1 = (sstep (abs st) (.hdelete id ck)).1 ∧
      absOut (.hd (httpDelete st id ck).2.1 (httpDelete st id ck).2.2) = (sstep (abs st) (.hdelete id ck)).2 := by
  rcases abs_cases hI id with ⟨hidx, habs⟩ | ⟨e, r, hidx, hr, hlt, habs⟩ | ⟨e, r, hidx, hr, heq, hre, habs⟩ | ⟨e, r, hidx, hr, hgt, hsz, hd, habs⟩
  · simp only [httpDelete, readStep, hidx, sstep, habs, absOut]
    refine ⟨hI, ?_, ?_⟩ <;> first | rfl | trivial
  · have := (recAt_some_le hr).1
    simp only [httpDelete, readStep, hidx, sstep, habs, absOut, this, hlt, if_true, if_false]
    refine ⟨hI, ?_, ?_⟩ <;> first | rfl | trivial
  · by_cases hk : r.cookie = ck <;> simp [excluded, habs, Content.empty, hk] at hx
  · have hrs := readStep_live id ck hidx hr hgt hsz
    by_cases hck : r.cookie = ck
    · by_cases hro : st.ro = true
      · have hsro : (abs st).ro = true := hro
        have : httpDelete st id ck = (st, 500, none) := by
          simp [httpDelete, hrs, hck, deleteStep_ro _ _ hro]
        rw [this]
        simp only [sstep, habs, hck, hsro, absOut]
        refine ⟨hI, ?_, ?_⟩ <;> first | rfl | trivial | simp
      · have hro' : st.ro = false := by simpa using hro
        have hsro : (abs st).ro = false := hro'
        obtain ⟨d1, d2, d3⟩ := delete_live_sim hI id ck hro' hidx hr hgt
        have hds : deleteStep st id ck = ((deleteStep st id ck).1, .ok e.size) := by rw [← d3]
        have : httpDelete st id ck = ((deleteStep st id ck).1, 202, some r.size) := by
          simp only [httpDelete, hrs, hck]
          rw [hds]
          simp
        rw [this]
        simp only [sstep, habs, hck, hsro, absOut]
        refine ⟨d1, ?_, ?_⟩
        · rw [d2, hck]; simp [hsro]
        · simp
    · have : httpDelete st id ck = (st, 400, none) := by
        simp [httpDelete, hrs, hck]
      rw [this]
      simp only [sstep, habs, absOut]
      refine ⟨hI, ?_, ?_⟩ <;> simp [hck]

end SwV.Lemmas.C01
