/-
C17 lemmas, part 1: MergeIntoVisibles keeps the invariant "sorted, disjoint, and denoting the
overlay of the chunks processed so far" (ported from the design-phase prototype to the model's types).
-/
import SwV.Model.C17
import SwV.Spec.C17
namespace SwV.Lemmas.C17
open SwV.Model.C17 SwV.Spec.C17

/-- what a visible interval shows at p: (file id, mtime, chunk size, offset inside the chunk) -/
abbrev Shown := Nat × Int × Nat × Nat

def cov (v : Vis) (p : Nat) : Prop := v.start ≤ p ∧ p < v.stop
def val (v : Vis) (p : Nat) : Shown := (v.fid, v.mtime, v.csize, v.coff + (p - v.start))
def shows (c : Chunk) (p : Nat) : Shown := (c.fid, c.mtime, c.size, p - c.off)

def stepSpec (c : Chunk) (f : Nat → Option Shown) : Nat → Option Shown :=
  fun p => if c.off ≤ p ∧ p < c.stop then some (shows c p) else f p

def specOf (cs : List Chunk) : Nat → Option Shown :=
  cs.foldl (fun f c => stepSpec c f) (fun _ => none)

structure VInv (vs : List Vis) (f : Nat → Option Shown) : Prop where
  pos : ∀ v ∈ vs, v.start < v.stop
  sorted : vs.Pairwise (fun a b => a.stop ≤ b.start)
  sem : ∀ p r, (∃ v ∈ vs, cov v p ∧ val v p = r) ↔ f p = some r

theorem mem_bubbleRev (xs : List Vis) (n v : Vis) : v ∈ bubbleRev xs n ↔ v = n ∨ v ∈ xs := by
  induction xs with
  | nil => simp [bubbleRev]
  | cons x xs ih =>
    unfold bubbleRev; split
    · simp [ih]; constructor <;> (intro h; rcases h with h | h | h <;> simp [h])
    · simp

theorem mem_bubble (xs : List Vis) (n v : Vis) : v ∈ bubble xs n ↔ v = n ∨ v ∈ xs := by
  simp [bubble, mem_bubbleRev]

theorem mem_pieces {o e : Nat} {v w : Vis} (h : w ∈ pieces o e v) :
    (w = { v with stop := o } ∧ v.start < o ∧ o < v.stop) ∨
    (w = { v with start := e, coff := v.coff + (e - v.start) } ∧ v.start < e ∧ e < v.stop) ∨
    (w = v ∧ (e ≤ v.start ∨ v.stop ≤ o)) := by
  unfold pieces at h
  simp only [List.mem_append] at h
  rcases h with (h | h) | h
  · split at h <;> simp at h; left; exact ⟨h, by assumption⟩
  · split at h <;> simp at h; right; left; exact ⟨h, by assumption⟩
  · split at h <;> simp at h; right; right; exact ⟨h, by assumption⟩

/-- semantic effect of splitting around [o,e): outside the new chunk, coverage and value are preserved -/
theorem pieces_sem {o e : Nat} (hoe : o < e) (v : Vis) (p : Nat) (r : Shown) (hp : ¬ (o ≤ p ∧ p < e)) :
    (∃ w ∈ pieces o e v, cov w p ∧ val w p = r) ↔ (cov v p ∧ val v p = r) := by
  constructor
  · rintro ⟨w, hw, hc, hv⟩
    rcases mem_pieces hw with ⟨rfl, h1, h2⟩ | ⟨rfl, h1, h2⟩ | ⟨rfl, _⟩
    · simp only [cov, val] at *; refine ⟨⟨hc.1, by omega⟩, hv⟩
    · simp only [cov, val] at *
      refine ⟨⟨by omega, hc.2⟩, ?_⟩
      rw [← hv]; simp only [Prod.mk.injEq, true_and]; omega
    · exact ⟨hc, hv⟩
  · rintro ⟨hc, hv⟩
    simp only [cov] at hc
    by_cases h1 : p < o
    · by_cases h2 : o < v.stop
      · refine ⟨{ v with stop := o }, ?_, ?_, ?_⟩
        · unfold pieces; simp only [List.mem_append]; left; left
          have : v.start < o ∧ o < v.stop := ⟨by omega, h2⟩
          simp [this]
        · simp only [cov]; omega
        · simpa [val] using hv
      · refine ⟨v, ?_, hc, hv⟩
        unfold pieces; simp only [List.mem_append]; right
        have : e ≤ v.start ∨ v.stop ≤ o := Or.inr (by omega)
        simp [this]
    · have h3 : e ≤ p := by omega
      by_cases h2 : v.start < e
      · refine ⟨{ v with start := e, coff := v.coff + (e - v.start) }, ?_, ?_, ?_⟩
        · unfold pieces; simp only [List.mem_append]; left; right
          have : v.start < e ∧ e < v.stop := ⟨h2, by omega⟩
          simp [this]
        · simp only [cov]; omega
        · rw [← hv]; simp only [val, Prod.mk.injEq, true_and]; omega
      · refine ⟨v, ?_, hc, hv⟩
        unfold pieces; simp only [List.mem_append]; right
        have : e ≤ v.start ∨ v.stop ≤ o := Or.inl (by omega)
        simp [this]

theorem pieces_outside {o e : Nat} (hoe : o < e) {v w : Vis} (hv : v.start < v.stop) (hw : w ∈ pieces o e v) :
    w.start < w.stop ∧ v.start ≤ w.start ∧ w.stop ≤ v.stop ∧ (w.stop ≤ o ∨ e ≤ w.start) := by
  rcases mem_pieces hw with ⟨rfl, h1, h2⟩ | ⟨rfl, h1, h2⟩ | ⟨rfl, h⟩
  · simp; omega
  · simp; omega
  · refine ⟨hv, by omega, by omega, ?_⟩; omega

abbrev R (a b : Vis) : Prop := a.stop ≤ b.start

theorem pieces_pairwise {o e : Nat} (hoe : o < e) (v : Vis) (hv : v.start < v.stop) :
    (pieces o e v).Pairwise R := by
  unfold pieces
  by_cases h1 : v.start < o ∧ o < v.stop <;> by_cases h2 : v.start < e ∧ e < v.stop <;>
    by_cases h3 : e ≤ v.start ∨ v.stop ≤ o <;> simp [h1, h2, h3, R] <;> omega

theorem flatMap_pairwise {o e : Nat} (hoe : o < e) (vs : List Vis)
    (hpos : ∀ v ∈ vs, v.start < v.stop) (hs : vs.Pairwise R) :
    (vs.flatMap (pieces o e)).Pairwise R := by
  induction vs with
  | nil => simp
  | cons v vs ih =>
    rw [List.flatMap_cons, List.pairwise_append]
    rw [List.pairwise_cons] at hs
    refine ⟨pieces_pairwise hoe v (hpos v (by simp)), ih (fun w hw => hpos w (by simp [hw])) hs.2, ?_⟩
    intro a ha b hb
    rw [List.mem_flatMap] at hb
    obtain ⟨v', hv', hb⟩ := hb
    have h1 := pieces_outside hoe (hpos v (by simp)) ha
    have h2 := pieces_outside hoe (hpos v' (by simp [hv'])) hb
    have h3 : v.stop ≤ v'.start := hs.1 v' hv'
    show a.stop ≤ b.start
    omega

theorem bubbleRev_pairwise (ys : List Vis) (n : Vis) (hn : n.start < n.stop)
    (hpos : ∀ y ∈ ys, y.start < y.stop)
    (hsep : ∀ y ∈ ys, y.stop ≤ n.start ∨ n.stop ≤ y.start)
    (hs : ys.Pairwise (fun a b => b.stop ≤ a.start)) :
    (bubbleRev ys n).Pairwise (fun a b => b.stop ≤ a.start) := by
  induction ys with
  | nil => simp [bubbleRev]
  | cons y ys ih =>
    rw [List.pairwise_cons] at hs
    have hy := hpos y (by simp)
    have hsy := hsep y (by simp)
    unfold bubbleRev; split
    · rename_i hlt
      rw [List.pairwise_cons]
      refine ⟨?_, ih (fun w hw => hpos w (by simp [hw])) (fun w hw => hsep w (by simp [hw])) hs.2⟩
      intro z hz
      rw [mem_bubbleRev] at hz
      rcases hz with rfl | hz
      · omega
      · exact hs.1 z hz
    · rename_i hge
      rw [List.pairwise_cons]
      refine ⟨?_, List.pairwise_cons.2 hs⟩
      intro z hz
      rcases List.mem_cons.1 hz with rfl | hz
      · omega
      · have := hs.1 z hz; omega

theorem bubble_pairwise (xs : List Vis) (n : Vis) (hn : n.start < n.stop)
    (hpos : ∀ y ∈ xs, y.start < y.stop)
    (hsep : ∀ y ∈ xs, y.stop ≤ n.start ∨ n.stop ≤ y.start)
    (hs : xs.Pairwise R) : (bubble xs n).Pairwise R := by
  unfold bubble
  rw [List.pairwise_reverse]
  apply bubbleRev_pairwise _ _ hn
  · intro y hy; exact hpos y (by simpa using hy)
  · intro y hy; exact hsep y (by simpa using hy)
  · rw [List.pairwise_reverse]; exact hs

theorem stop_le_last (vs : List Vis) (last : Vis) (hl : vs.getLast? = some last)
    (hpos : ∀ v ∈ vs, v.start < v.stop) (hs : vs.Pairwise R) :
    ∀ v ∈ vs, v.stop ≤ last.stop := by
  intro v hv
  obtain ⟨ys, rfl⟩ : ∃ ys, vs = ys ++ [last] := by
    have := List.getLast?_eq_some_iff.1 hl
    obtain ⟨ys, h⟩ := this; exact ⟨ys, h⟩
  rw [List.pairwise_append] at hs
  rcases List.mem_append.1 hv with h | h
  · have h1 : v.stop ≤ last.start := hs.2.2 v h last (by simp)
    have h2 := hpos last (by simp)
    omega
  · simp at h; subst h; omega

theorem val_newVis (c : Chunk) (p : Nat) : val (newVis c) p = shows c p := by
  simp [val, newVis, shows]

theorem step_inv (vs : List Vis) (f : Nat → Option Shown) (c : Chunk) (hc : 0 < c.size)
    (h : VInv vs f) : VInv (mergeInto vs c) (stepSpec c f) := by
  have hoe : c.off < c.stop := by unfold Chunk.stop; omega
  have hnew : (newVis c).start < (newVis c).stop := by simp [newVis]; exact hoe
  unfold mergeInto
  split
  · -- empty
    rename_i hnone
    have hnil : vs = [] := by simpa using hnone
    subst hnil
    refine ⟨by simpa using hnew, by simp, ?_⟩
    intro p r
    have hf : f p = none := by
      cases hfp : f p with
      | none => rfl
      | some r' => have := (h.sem p r').2 hfp; simp at this
    simp only [stepSpec, List.mem_singleton, exists_eq_left]
    by_cases hin : c.off ≤ p ∧ p < c.stop
    · simp only [if_pos hin, Option.some.injEq]
      constructor
      · rintro ⟨_, hv⟩; rw [← hv, val_newVis]
      · intro hr; refine ⟨by simpa [cov, newVis] using hin, ?_⟩; rw [← hr, val_newVis]
    · simp only [if_neg hin, hf]
      constructor
      · rintro ⟨hc, _⟩; exact absurd (by simpa [cov, newVis] using hc) hin
      · intro h; cases h
  · rename_i last hl
    split
    · -- fast path
      rename_i hfast
      have hle := stop_le_last vs last hl h.pos h.sorted
      refine ⟨?_, ?_, ?_⟩
      · intro v hv; rcases List.mem_append.1 hv with hv | hv
        · exact h.pos v hv
        · simp at hv; subst hv; exact hnew
      · rw [List.pairwise_append]
        refine ⟨h.sorted, by simp, ?_⟩
        intro a ha b hb; simp at hb; subst hb
        have := hle a ha; simp [newVis]; omega
      · intro p r
        simp only [stepSpec]
        split
        · rename_i hin
          constructor
          · rintro ⟨v, hv, hcv, hvv⟩
            rcases List.mem_append.1 hv with hv | hv
            · have := hle v hv; simp only [cov] at hcv; omega
            · simp at hv; subst hv; rw [val_newVis] at hvv; rw [hvv]
          · intro hr
            refine ⟨newVis c, by simp, ?_, ?_⟩
            · simp [cov, newVis]; exact hin
            · rw [val_newVis]; exact Option.some.inj hr
        · rename_i hout
          rw [← h.sem p r]
          constructor
          · rintro ⟨v, hv, hcv, hvv⟩
            rcases List.mem_append.1 hv with hv | hv
            · exact ⟨v, hv, hcv, hvv⟩
            · simp at hv; subst hv; simp [cov, newVis] at hcv; omega
          · rintro ⟨v, hv, hcv, hvv⟩; exact ⟨v, by simp [hv], hcv, hvv⟩
    · -- general path
      have hposP : ∀ w ∈ vs.flatMap (pieces c.off c.stop), w.start < w.stop := by
        intro w hw; rw [List.mem_flatMap] at hw; obtain ⟨v, hv, hw⟩ := hw
        exact (pieces_outside hoe (h.pos v hv) hw).1
      have hsepP : ∀ w ∈ vs.flatMap (pieces c.off c.stop), w.stop ≤ (newVis c).start ∨ (newVis c).stop ≤ w.start := by
        intro w hw; rw [List.mem_flatMap] at hw; obtain ⟨v, hv, hw⟩ := hw
        simpa [newVis] using (pieces_outside hoe (h.pos v hv) hw).2.2.2
      refine ⟨?_, bubble_pairwise _ _ hnew hposP hsepP (flatMap_pairwise hoe vs h.pos h.sorted), ?_⟩
      · intro v hv; rw [mem_bubble] at hv
        rcases hv with rfl | hv
        · exact hnew
        · exact hposP v hv
      · intro p r
        simp only [stepSpec]
        split
        · rename_i hin
          constructor
          · rintro ⟨v, hv, hcv, hvv⟩
            rw [mem_bubble] at hv
            rcases hv with rfl | hv
            · rw [val_newVis] at hvv; rw [hvv]
            · have := hsepP v hv; simp [newVis] at this; simp only [cov] at hcv
              have := hposP v hv; omega
          · intro hr
            refine ⟨newVis c, by rw [mem_bubble]; simp, ?_, ?_⟩
            · simp [cov, newVis]; exact hin
            · rw [val_newVis]; exact Option.some.inj hr
        · rename_i hout
          rw [← h.sem p r]
          constructor
          · rintro ⟨w, hw, hcw, hvw⟩
            rw [mem_bubble] at hw
            rcases hw with rfl | hw
            · simp [cov, newVis] at hcw; omega
            · rw [List.mem_flatMap] at hw; obtain ⟨v, hv, hw⟩ := hw
              have := (pieces_sem hoe v p r hout).1 ⟨w, hw, hcw, hvw⟩
              exact ⟨v, hv, this.1, this.2⟩
          · rintro ⟨v, hv, hcv, hvv⟩
            obtain ⟨w, hw, hcw, hvw⟩ := (pieces_sem hoe v p r hout).2 ⟨hcv, hvv⟩
            exact ⟨w, by rw [mem_bubble]; right; rw [List.mem_flatMap]; exact ⟨v, hv, hw⟩, hcw, hvw⟩

theorem visibles_inv_gen (cs : List Chunk) (hcs : ∀ c ∈ cs, 0 < c.size)
    (vs : List Vis) (f : Nat → Option Shown) (h : VInv vs f) :
    VInv (cs.foldl mergeInto vs) (cs.foldl (fun f c => stepSpec c f) f) := by
  induction cs generalizing vs f with
  | nil => simpa
  | cons c cs ih =>
    simp only [List.foldl_cons]
    exact ih (fun c' hc' => hcs c' (by simp [hc'])) _ _ (step_inv vs f c (hcs c (by simp)) h)

/-- C17 core: the visible intervals denote exactly the last-writer-wins overlay, for every chunk list. -/
theorem visibles_eq_overlay (cs : List Chunk) (hcs : ∀ c ∈ cs, 0 < c.size) :
    VInv (visibles cs) (specOf cs) :=
  visibles_inv_gen cs hcs [] (fun _ => none) ⟨by simp, by simp, by simp⟩


end SwV.Lemmas.C17
