/-
C13 — run functions (events, ghost logs) over the machines of SwV/Model/C13.lean and the helper
lemmas (invariants) used by SwV/Props/C13.lean.  Logs are newest first.
-/
import SwV.Model.C13
import SwV.Spec.C13

namespace SwV.Lemmas.C13
open SwV.Model.C13 SwV.Spec.C13

/-! ## generic facts about the spec -/

theorem overlap_false_of {a c a' c' : Nat} (h : c = 0 ∨ c' = 0 ∨ a + c ≤ a' ∨ a' + c' ≤ a) :
    overlap a c a' c' = false := by
  unfold overlap
  simp only [decide_eq_false_iff_not]
  omega

theorem overlap_true_of {a c a' c' : Nat} (h : c ≠ 0 ∧ c' ≠ 0 ∧ a < a' + c' ∧ a' < a + c) :
    overlap a c a' c' = true := by
  unfold overlap
  simp only [decide_eq_true_eq]
  omega

/-! ## A. memory sequencer -/

inductive MEv where
  | next (count : Nat)
  | setMax (seen : Nat)
deriving Repr, DecidableEq

/-- run instance `i` (one MemorySequencer) over the events, recording what it hands out / is told -/
def mrun (i : Nat) : Mem → List MEv → List Obs → Mem × List Obs
  | m, [], log => (m, log)
  | m, .next c :: evs, log => mrun i (m.next c).2 evs (.issue i m.counter c :: log)
  | m, .setMax s :: evs, log => mrun i (m.setMax s) evs (.report i s :: log)

/-- along the run no uint64 addition wraps: every `next c` has counter + c < 2^64 and every
    `setMax s` has s + 1 < 2^64 -/
def NoWrap : Mem → List MEv → Prop
  | _, [] => True
  | m, .next c :: evs => m.counter + c < W ∧ NoWrap (m.next c).2 evs
  | m, .setMax s :: evs => s + 1 < W ∧ NoWrap (m.setMax s) evs

/-- invariant of a memory-sequencer run of instance `i` -/
def MInv (i : Nat) (m : Mem) (log : List Obs) : Prop :=
  GoodLog log ∧ (∀ j s c, Obs.issue j s c ∈ log → s + c ≤ m.counter) ∧
  (∀ seen, Obs.report i seen ∈ log → seen < m.counter)

theorem mrun_inv (i : Nat) : ∀ (evs : List MEv) (m : Mem) (log : List Obs),
    MInv i m log → NoWrap m evs → MInv i (mrun i m evs log).1 (mrun i m evs log).2 := by
  intro evs
  induction evs with
  | nil => intro m log h _; simpa [mrun] using h
  | cons ev evs ih =>
    intro m log h hw
    obtain ⟨hg, hi, hr⟩ := h
    cases ev with
    | next c =>
      simp only [NoWrap] at hw
      simp only [mrun]
      apply ih _ _ _ hw.2
      have hc : (m.next c).2.counter = m.counter + c := by
        simp only [Mem.next]; exact Nat.mod_eq_of_lt hw.1
      refine ⟨⟨?_, ?_, hg⟩, ?_, ?_⟩
      · intro j s' c' hm
        have := hi j s' c' hm
        exact overlap_false_of (by omega)
      · intro seen hm; exact hr seen hm
      · intro j s' c' hm
        rw [hc]
        simp only [List.mem_cons] at hm
        rcases hm with hm | hm
        · cases hm; omega
        · have := hi j s' c' hm; omega
      · intro seen hm
        rw [hc]
        simp only [List.mem_cons, reduceCtorEq, false_or] at hm
        have := hr seen hm; omega
    | setMax s =>
      simp only [NoWrap] at hw
      simp only [mrun]
      apply ih _ _ _ hw.2
      have hc : (m.setMax s).counter = if m.counter ≤ s then s + 1 else m.counter := by
        simp only [Mem.setMax]
        split
        · exact Nat.mod_eq_of_lt hw.1
        · rfl
      refine ⟨hg, ?_, ?_⟩
      · intro j s' c' hm
        rw [hc]
        simp only [List.mem_cons, reduceCtorEq, false_or] at hm
        have := hi j s' c' hm
        split <;> omega
      · intro seen hm
        rw [hc]
        simp only [List.mem_cons] at hm
        rcases hm with hm | hm
        · cases hm; split <;> omega
        · have := hr seen hm
          split <;> omega

/-! ## C. volume ids -/

inductive VEv where
  | start (t : Nat)
  | apply (t : Nat) (fault : Bool)
  | hb (m : Nat)
deriving Repr, DecidableEq

def vnext (s : VSt) : VEv → VSt
  | .start t => (vStart s t).1
  | .apply t f => (vApply s t f).1
  | .hb m => vHb s m

/-- the volume id returned to the caller by this step, if any -/
def vout (s : VSt) : VEv → Option Nat
  | .apply t f => (vApply s t f).2.join
  | _ => none

def vstep (st : VSt × List Nat) (ev : VEv) : VSt × List Nat :=
  (vnext st.1 ev, match vout st.1 ev with | some id => id :: st.2 | none => st.2)

/-- run the events; the second component is the list of returned volume ids, newest first -/
def vrun (st : VSt × List Nat) (evs : List VEv) : VSt × List Nat := evs.foldl vstep st

/-- a `start` happens only when no thread is in flight (the volume growth lock) -/
def startOk (s : VSt) : VEv → Prop
  | .start _ => ∀ k, s.pend k = none
  | _ => True

def Serial : VSt → List VEv → Prop
  | _, [] => True
  | s, ev :: evs => startOk s ev ∧ Serial (vnext s ev) evs

def VInv (s : VSt) (ids : List Nat) : Prop :=
  Distinct ids ∧ (∀ id, id ∈ ids → id ≤ s.max) ∧
  (∀ t nx, s.pend t = some nx → ∀ id, id ∈ ids → id < nx) ∧
  (∀ t t' a b, s.pend t = some a → s.pend t' = some b → t = t')

theorem vstep_inv (s : VSt) (ids : List Nat) (ev : VEv) (h : VInv s ids) (hs : startOk s ev) :
    VInv (vstep (s, ids) ev).1 (vstep (s, ids) ev).2 := by
  obtain ⟨hd, hm, hp, h1⟩ := h
  cases ev with
  | start t =>
    have hn : ∀ k, s.pend k = none := hs
    simp only [vstep, vnext, vout, vStart, hn t]
    refine ⟨hd, hm, ?_, ?_⟩
    · intro k nx hk id hid
      simp only [hn k] at hk
      split at hk
      · cases hk; have := hm id hid; omega
      · cases hk
    · intro k k' a b hk hk'
      simp only [hn k, hn k'] at hk hk'
      split at hk
      · split at hk'
        · omega
        · cases hk'
      · cases hk
  | apply t f =>
    cases hpt : s.pend t with
    | none =>
      simp only [vstep, vnext, vout, vApply, hpt, Option.join, Option.bind_none]
      exact ⟨hd, hm, hp, h1⟩
    | some nx =>
      have hother : ∀ k a, (if k = t then none else s.pend k) = some a → False := by
        intro k a hk
        split at hk
        · cases hk
        · next hne => exact hne (h1 k t a nx hk hpt)
      cases f with
      | true =>
        simp only [vstep, vnext, vout, vApply, hpt, if_true, Option.join, Option.bind_some, id_eq]
        refine ⟨hd, hm, ?_, ?_⟩
        · intro k a hk; exact (hother k a hk).elim
        · intro k k' a b hk; exact (hother k a hk).elim
      | false =>
        simp only [vstep, vnext, vout, vApply, hpt, Bool.false_eq_true, if_false, Option.join, Option.bind_some, id_eq]
        refine ⟨⟨?_, hd⟩, ?_, ?_, ?_⟩
        · intro hmem; have := hp t nx hpt nx hmem; omega
        · intro id hid
          simp only [List.mem_cons] at hid
          dsimp only
          rcases hid with rfl | hid
          · split <;> omega
          · have := hm id hid; split <;> omega
        · intro k a hk; exact (hother k a hk).elim
        · intro k k' a b hk; exact (hother k a hk).elim
  | hb m =>
    simp only [vstep, vnext, vout, vHb]
    refine ⟨hd, ?_, hp, h1⟩
    intro id hid
    have := hm id hid
    dsimp only
    split <;> omega

theorem vstep_fst (s : VSt) (ids : List Nat) (ev : VEv) : (vstep (s, ids) ev).1 = vnext s ev := rfl

theorem vrun_inv : ∀ (evs : List VEv) (s : VSt) (ids : List Nat),
    VInv s ids → Serial s evs → VInv (vrun (s, ids) evs).1 (vrun (s, ids) evs).2 := by
  intro evs
  induction evs with
  | nil => intro s ids h _; simpa [vrun] using h
  | cons ev evs ih =>
    intro s ids h hs
    simp only [Serial] at hs
    have h' := vstep_inv s ids ev h hs.1
    have := ih (vnext s ev) (vstep (s, ids) ev).2 h' hs.2
    have e : vrun (s, ids) (ev :: evs) = vrun (vnext s ev, (vstep (s, ids) ev).2) evs := rfl
    rw [e]; exact this

/-! ## B. etcd sequencer -/

inductive EEv where
  | start (i : Nat) (op : Op)
  | kv (i : Nat) (fault : Bool)
deriving Repr, DecidableEq

/-- a finished `NextFileId` that returned a real range is logged; a failed reservation (`failKey`,
    which the real code returns as key 0) and everything else is not -/
def logOut (i : Nat) (log : List Obs) : Out → List Obs
  | .done (.key k c) => .issue i k c :: log
  | _ => log

/-- an accepted `SetMax seen` call is logged as a report to that instance -/
def logReport (i : Nat) (log : List Obs) : Op → Out → List Obs
  | .setMax _, .invalid => log
  | .setMax seen, _ => .report i seen :: log
  | _, _ => log

def estep (st : ESt × List Obs) : EEv → ESt × List Obs
  | .start i op =>
    ((start st.1 i op).1, logOut i (logReport i st.2 op (start st.1 i op).2) (start st.1 i op).2)
  | .kv i f => ((kvStep st.1 i f).1, logOut i st.2 (kvStep st.1 i f).2.2)

def erun (st : ESt × List Obs) (evs : List EEv) : ESt × List Obs := evs.foldl estep st

/-- what the program counter remembers is consistent -/
def PcOk : Pc → Prop
  | .sSet _ m p => p < m
  | .bGet count req => count ≤ req
  | .bSet count req _ => count ≤ req
  | _ => True

/-- invariant of all interleavings (E = the etcd value, 0 when absent; window of i = [cur, max)) -/
structure EInv (s : ESt) (log : List Obs) : Prop where
  /-- every window is well formed and below E -/
  win : ∀ i, (s.inst i).cur ≤ (s.inst i).max ∧ (s.inst i).max ≤ s.kv.getD 0
  /-- every issued range is below E -/
  below : ∀ j a c, Obs.issue j a c ∈ log → a + c ≤ s.kv.getD 0
  /-- every issued range is outside every window -/
  used : ∀ i j a c, Obs.issue j a c ∈ log →
    c = 0 ∨ (s.inst i).cur = (s.inst i).max ∨ a + c ≤ (s.inst i).cur ∨ (s.inst i).max ≤ a
  /-- windows of different instances are disjoint -/
  apart : ∀ i j, i ≠ j → (s.inst i).cur = (s.inst i).max ∨ (s.inst j).cur = (s.inst j).max ∨
    (s.inst i).max ≤ (s.inst j).cur ∨ (s.inst j).max ≤ (s.inst i).cur
  disj : DisjLog log
  pcs : ∀ i, PcOk (s.inst i).pc

theorem einv_init : EInv {} [] where
  win := fun _ => ⟨Nat.le_refl _, Nat.le_refl _⟩
  below := fun _ _ _ hm => by cases hm
  used := fun _ _ _ _ hm => by cases hm
  apart := fun _ _ _ => Or.inl rfl
  disj := trivial
  pcs := fun _ => trivial

/-- reports do not matter for the invariant -/
theorem einv_report {s : ESt} {log : List Obs} (j seen : Nat) (h : EInv s log) :
    EInv s (.report j seen :: log) where
  win := h.win
  below := fun j a c hm => h.below j a c (by simpa using hm)
  used := fun i j a c hm => h.used i j a c (by simpa using hm)
  apart := h.apart
  disj := h.disj
  pcs := h.pcs

/-- a step of instance i that issues nothing: its window is unchanged or becomes empty, and the
    etcd value does not decrease -/
theorem einv_keep {s s' : ESt} {log : List Obs} {i : Nat} {x' : Inst} (h : EInv s log)
    (hinst : ∀ k, s'.inst k = if k = i then x' else s.inst k)
    (hE : s.kv.getD 0 ≤ s'.kv.getD 0)
    (hw : x'.cur ≤ x'.max ∧ x'.max ≤ s'.kv.getD 0)
    (hc : x'.cur = x'.max ∨ (x'.cur = (s.inst i).cur ∧ x'.max = (s.inst i).max))
    (hpc : PcOk x'.pc) : EInv s' log where
  win := by
    intro k
    rw [hinst k]
    by_cases hk : k = i
    · rw [if_pos hk]; exact hw
    · rw [if_neg hk]; have := h.win k; omega
  below := by
    intro j a c hm
    have := h.below j a c hm; omega
  used := by
    intro k j a c hm
    rw [hinst k]
    by_cases hk : k = i
    · rw [if_pos hk]; have := h.used i j a c hm; omega
    · rw [if_neg hk]; exact h.used k j a c hm
  apart := by
    intro k j hne
    rw [hinst k, hinst j]
    by_cases hk : k = i
    · have hj : ¬ j = i := fun e => hne (hk.trans e.symm)
      rw [if_pos hk, if_neg hj]
      have := h.apart i j (fun e => hj e.symm); omega
    · rw [if_neg hk]
      by_cases hj : j = i
      · rw [if_pos hj]
        have := h.apart k i hk; omega
      · rw [if_neg hj]; exact h.apart k j hne
  disj := h.disj
  pcs := by
    intro k
    rw [hinst k]
    by_cases hk : k = i
    · rw [if_pos hk]; exact hpc
    · rw [if_neg hk]; exact h.pcs k

/-- `NextFileId` served from the local window -/
theorem einv_issue_fast {s s' : ESt} {log : List Obs} {i count : Nat} {x' : Inst} (h : EInv s log)
    (hinst : ∀ k, s'.inst k = if k = i then x' else s.inst k)
    (hE : s.kv.getD 0 ≤ s'.kv.getD 0)
    (hlt : (s.inst i).cur + count < (s.inst i).max)
    (hcur : x'.cur = (s.inst i).cur + count) (hmax : x'.max = (s.inst i).max)
    (hpc : PcOk x'.pc) : EInv s' (.issue i (s.inst i).cur count :: log) where
  win := by
    intro k
    rw [hinst k]
    by_cases hk : k = i
    · rw [if_pos hk]; have := h.win i; omega
    · rw [if_neg hk]; have := h.win k; omega
  below := by
    intro j a c hm
    simp only [List.mem_cons] at hm
    rcases hm with hm | hm
    · cases hm; have := h.win i; omega
    · have := h.below j a c hm; omega
  used := by
    intro k j a c hm
    rw [hinst k]
    simp only [List.mem_cons] at hm
    by_cases hk : k = i
    · rw [if_pos hk]
      rcases hm with hm | hm
      · cases hm; omega
      · have := h.used i j a c hm; omega
    · rw [if_neg hk]
      rcases hm with hm | hm
      · cases hm
        have := h.apart i k (fun e => hk e.symm); omega
      · exact h.used k j a c hm
  apart := by
    intro k j hne
    rw [hinst k, hinst j]
    by_cases hk : k = i
    · have hj : ¬ j = i := fun e => hne (hk.trans e.symm)
      rw [if_pos hk, if_neg hj]
      have := h.apart i j (fun e => hj e.symm); omega
    · rw [if_neg hk]
      by_cases hj : j = i
      · rw [if_pos hj]
        have := h.apart k i hk; omega
      · rw [if_neg hj]; exact h.apart k j hne
  disj := by
    refine ⟨?_, h.disj⟩
    intro j a c hm
    have := h.used i j a c hm
    exact overlap_false_of (by omega)
  pcs := by
    intro k
    rw [hinst k]
    by_cases hk : k = i
    · rw [if_pos hk]; exact hpc
    · rw [if_neg hk]; exact h.pcs k

/-- `NextFileId` after a successful compare-and-swap prev → prev + req in etcd -/
theorem einv_issue_slow {s s' : ESt} {log : List Obs} {i prev count req : Nat} {x' : Inst}
    (h : EInv s log)
    (hinst : ∀ k, s'.inst k = if k = i then x' else s.inst k)
    (hkv : s.kv = some prev) (hkv' : s'.kv = some (prev + req)) (hcr : count ≤ req)
    (hcur : x'.cur = prev + count) (hmax : x'.max = prev + req)
    (hpc : PcOk x'.pc) : EInv s' (.issue i prev count :: log) where
  win := by
    intro k
    rw [hinst k, hkv']
    have := h.win k
    rw [hkv] at this
    simp only [Option.getD_some] at this ⊢
    by_cases hk : k = i
    · rw [if_pos hk]; omega
    · rw [if_neg hk]; omega
  below := by
    intro j a c hm
    rw [hkv']
    simp only [Option.getD_some]
    simp only [List.mem_cons] at hm
    rcases hm with hm | hm
    · cases hm; omega
    · have := h.below j a c hm
      rw [hkv] at this
      simp only [Option.getD_some] at this
      omega
  used := by
    intro k j a c hm
    rw [hinst k]
    simp only [List.mem_cons] at hm
    by_cases hk : k = i
    · rw [if_pos hk]
      rcases hm with hm | hm
      · cases hm; omega
      · have := h.below j a c hm
        rw [hkv] at this
        simp only [Option.getD_some] at this
        omega
    · rw [if_neg hk]
      rcases hm with hm | hm
      · cases hm
        have := h.win k
        rw [hkv] at this
        simp only [Option.getD_some] at this
        omega
      · exact h.used k j a c hm
  apart := by
    intro k j hne
    rw [hinst k, hinst j]
    have hk' := h.win k
    have hj' := h.win j
    rw [hkv] at hk' hj'
    simp only [Option.getD_some] at hk' hj'
    by_cases hk : k = i
    · have hj : ¬ j = i := fun e => hne (hk.trans e.symm)
      rw [if_pos hk, if_neg hj]; omega
    · rw [if_neg hk]
      by_cases hj : j = i
      · rw [if_pos hj]; omega
      · rw [if_neg hj]; exact h.apart k j hne
  disj := by
    refine ⟨?_, h.disj⟩
    intro j a c hm
    have := h.below j a c hm
    rw [hkv] at this
    simp only [Option.getD_some] at this
    exact overlap_false_of (by omega)
  pcs := by
    intro k
    rw [hinst k]
    by_cases hk : k = i
    · rw [if_pos hk]; exact hpc
    · rw [if_neg hk]; exact h.pcs k

theorem logReport_inv {s : ESt} {log : List Obs} (i : Nat) (op : Op) (o : Out) (h : EInv s log) :
    EInv s (logReport i log op o) := by
  cases op <;> cases o <;> simp only [logReport] <;> first | exact h | exact einv_report _ _ h

theorem start_inv (s : ESt) (log : List Obs) (i : Nat) (op : Op) (h : EInv s log) :
    EInv (start s i op).1 (logOut i log (start s i op).2) := by
  have hwi := h.win i
  by_cases hidle : (s.inst i).pc = .idle
  · cases op with
    | new slot =>
      simp only [start, hidle, ne_eq, not_true_eq_false, if_false, logOut]
      cases hf : s.files slot with
      | none =>
        simp only []
        refine einv_keep h (fun _ => rfl) (Nat.le_refl _) ?_ (Or.inl rfl) trivial
        exact ⟨Nat.le_refl _, Nat.zero_le _⟩
      | some v =>
        simp only []
        refine einv_keep h (fun _ => rfl) (Nat.le_refl _) ?_ (Or.inl rfl) trivial
        exact ⟨Nat.le_refl _, Nat.zero_le _⟩
    | next count =>
      simp only [start, hidle, ne_eq, not_true_eq_false, if_false]
      cases ha : (s.inst i).alive with
      | false => simp only [Bool.not_false, if_true, logOut]; exact h
      | true =>
        simp only [Bool.not_true, Bool.false_eq_true, if_false]
        by_cases hge : (s.inst i).cur + count ≥ (s.inst i).max
        · simp only [hge, if_true, logOut]
          refine einv_keep h (fun _ => rfl) (Nat.le_refl _) hwi (Or.inr ⟨rfl, rfl⟩) ?_
          simp only [PcOk]
          split <;> simp only [DefaultEtcdSteps] at * <;> omega
        · simp only [hge, if_false, logOut]
          exact einv_issue_fast h (fun _ => rfl) (Nat.le_refl _) (by omega) rfl rfl
            (by simp only [PcOk])
    | setMax seen =>
      simp only [start, hidle, ne_eq, not_true_eq_false, if_false]
      cases ha : (s.inst i).alive with
      | false => simp only [Bool.not_false, if_true, logOut]; exact h
      | true =>
        simp only [Bool.not_true, Bool.false_eq_true, if_false]
        by_cases hgt : seen > (s.inst i).max
        · simp only [hgt, if_true, logOut]
          exact einv_keep h (fun _ => rfl) (Nat.le_refl _) hwi (Or.inr ⟨rfl, rfl⟩) trivial
        · simp only [hgt, if_false, logOut]; exact h
  · simp only [start, ne_eq, hidle, not_false_eq_true, if_true, logOut]
    exact h

/-- the `setMaxSequenceToEtcd` loop returns: with a value only when that value is the etcd value -/
theorem finish_inv (s : ESt) (log : List Obs) (i : Nat) (c : Ctx) (r : Option Nat) (h : EInv s log)
    (hr : ∀ v, r = some v → s.kv = some v) :
    EInv (finishSet s i (s.inst i) c r).1 (logOut i log (finishSet s i (s.inst i) c r).2) := by
  have hwi := h.win i
  cases r with
  | none =>
    cases c <;> simp only [finishSet, logOut] <;>
      exact einv_keep h (fun _ => rfl) (Nat.le_refl _) hwi (Or.inr ⟨rfl, rfl⟩) trivial
  | some v =>
    have hkv := hr v rfl
    have hE : s.kv.getD 0 = v := by rw [hkv]; rfl
    cases c <;> simp only [finishSet, logOut] <;>
      exact einv_keep h (fun _ => rfl) (Nat.le_refl _) ⟨Nat.le_refl _, Nat.le_of_eq hE.symm⟩
        (Or.inl rfl) trivial

theorem kv_inv (s : ESt) (log : List Obs) (i : Nat) (f : Bool) (h : EInv s log) :
    EInv (kvStep s i f).1 (logOut i log (kvStep s i f).2.2) := by
  have hwi := h.win i
  have hpi := h.pcs i
  have hnone : ∀ c, EInv (finishSet s i (s.inst i) c none).1
      (logOut i log (finishSet s i (s.inst i) c none).2) :=
    fun c => finish_inv s log i c none h (fun _ hv => by cases hv)
  cases hpc : (s.inst i).pc with
  | idle => simp only [kvStep, hpc, logOut]; exact h
  | bGet count req =>
    rw [hpc] at hpi
    simp only [PcOk] at hpi
    cases f with
    | true =>
      simp only [kvStep, hpc, if_true, logOut]
      exact einv_keep h (fun _ => rfl) (Nat.le_refl _) hwi (Or.inr ⟨rfl, rfl⟩) trivial
    | false =>
      simp only [kvStep, hpc, Bool.false_eq_true, if_false]
      cases hkv : s.kv with
      | none =>
        simp only [logOut]
        exact einv_keep h (fun _ => rfl) (Nat.le_refl _) hwi (Or.inr ⟨rfl, rfl⟩) trivial
      | some v =>
        simp only [logOut]
        exact einv_keep h (fun _ => rfl) (Nat.le_refl _) hwi (Or.inr ⟨rfl, rfl⟩) hpi
  | bSet count req prev =>
    rw [hpc] at hpi
    simp only [PcOk] at hpi
    cases f with
    | true =>
      simp only [kvStep, hpc, if_true, logOut]
      exact einv_keep h (fun _ => rfl) (Nat.le_refl _) hwi (Or.inr ⟨rfl, rfl⟩) hpi
    | false =>
      simp only [kvStep, hpc, Bool.false_eq_true, if_false]
      by_cases hkv : s.kv = some prev
      · simp only [hkv, if_true, logOut]
        exact einv_issue_slow h (fun _ => rfl) hkv rfl hpi rfl rfl trivial
      · simp only [hkv, if_false, logOut]
        exact einv_keep h (fun _ => rfl) (Nat.le_refl _) hwi (Or.inr ⟨rfl, rfl⟩) hpi
  | sGet c m =>
    cases f with
    | true =>
      simp only [kvStep, hpc, if_true]
      exact hnone c
    | false =>
      simp only [kvStep, hpc, Bool.false_eq_true, if_false]
      cases hkv : s.kv with
      | none =>
        simp only [logOut]
        exact einv_keep h (fun _ => rfl) (Nat.le_refl _) hwi (Or.inr ⟨rfl, rfl⟩) trivial
      | some p =>
        simp only []
        by_cases hge : p ≥ m
        · simp only [hge, if_true]
          exact finish_inv s log i c (some p) h (fun v hv => by cases hv; exact hkv)
        · simp only [hge, if_false, logOut]
          refine einv_keep h (fun _ => rfl) (Nat.le_refl _) hwi (Or.inr ⟨rfl, rfl⟩) ?_
          simp only [PcOk]; omega
  | sCreate c m =>
    cases f with
    | true =>
      simp only [kvStep, hpc, if_true]
      exact hnone c
    | false =>
      simp only [kvStep, hpc, Bool.false_eq_true, if_false]
      cases hkv : s.kv with
      | none =>
        simp only [logOut]
        rw [hkv] at hwi
        simp only [Option.getD_none] at hwi
        refine einv_keep h (fun _ => rfl) ?_ ?_ (Or.inr ⟨rfl, rfl⟩) trivial
        · rw [hkv]; exact Nat.zero_le _
        · simp only [setInst, Option.getD_some]; omega
      | some v =>
        simp only [logOut]
        exact einv_keep h (fun _ => rfl) (Nat.le_refl _) hwi (Or.inr ⟨rfl, rfl⟩) trivial
  | sSet c m p =>
    rw [hpc] at hpi
    simp only [PcOk] at hpi
    cases f with
    | true =>
      simp only [kvStep, hpc, if_true]
      exact hnone c
    | false =>
      simp only [kvStep, hpc, Bool.false_eq_true, if_false]
      by_cases hkv : s.kv = some p
      · simp only [hkv, if_true, logOut]
        rw [hkv] at hwi
        simp only [Option.getD_some] at hwi
        refine einv_keep h (fun _ => rfl) ?_ ?_ (Or.inr ⟨rfl, rfl⟩) trivial
        · rw [hkv]; simp only [setInst, Option.getD_some]; omega
        · simp only [setInst, Option.getD_some]; omega
      · simp only [hkv, if_false]
        exact hnone c

theorem estep_inv (s : ESt) (log : List Obs) (ev : EEv) (h : EInv s log) :
    EInv (estep (s, log) ev).1 (estep (s, log) ev).2 := by
  cases ev with
  | start i op =>
    simp only [estep]
    exact start_inv s _ i op (logReport_inv i op _ h)
  | kv i f =>
    simp only [estep]
    exact kv_inv s log i f h

theorem erun_inv : ∀ (evs : List EEv) (s : ESt) (log : List Obs),
    EInv s log → EInv (erun (s, log) evs).1 (erun (s, log) evs).2 := by
  intro evs
  induction evs with
  | nil => intro s log h; exact h
  | cons ev evs ih =>
    intro s log h
    have h' := estep_inv s log ev h
    have := ih _ _ h'
    have e : erun (s, log) (ev :: evs) = erun ((estep (s, log) ev).1, (estep (s, log) ev).2) evs := rfl
    rw [e]; exact this

end SwV.Lemmas.C13
