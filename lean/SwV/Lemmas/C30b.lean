/-
C30 lemmas, part 2: AddInterval.

  * `linv_perm`, `has_perm`, `set_perm`, `eraseIdx_perm`   invariant and bytes do not depend on the order of the lists
  * `keepParts_spec`, `phase1`                             the first loop: what is kept of every list around the new node
  * `removeByOffset_spec`, `phase2`                        the second part: link the new node to its neighbours
  * `addInterval_spec`                                     invariant + "last write wins" for AddInterval
  * `removeLargest_spec`, `linv_temp_append`               RemoveLargest…, growth of the temp file
  * `readDataAt_bytes`, `readDataAt_max_fold`              ReadDataAt = the dirty bytes of the window; maxStop
  * `written`, `memFold_spec`, `tmpFold_spec`, `posix_fold`, `pread_pad`      any sequence of writes against POSIX
  * `byteOk_append_cover/_nocover`, `byteOk_compact`, `resolve_eq`             the stored entry as C17 sees it
  * `SInv`, `saveLargest_sinv`, `saveAll_sinv`, `write_sinv`                   state invariant of the open file, savers, Write
  * `sectionBytes_spec`, `PInv`, `tmpSaveList_pinv`, `tmpFlush_sinv`, `flush_sinv`, `resolve_of_sinv`   doFlush, both buffers
-/
import SwV.Lemmas.C30
import SwV.Props.C17
namespace SwV.Lemmas.C30
open SwV.Model.C30 SwV.Spec.C30

/-! ### order of the lists is irrelevant -/

theorem gap_symm {a b : LList} (h : tailStop a < headOff b ∨ tailStop b < headOff a) :
    tailStop b < headOff a ∨ tailStop a < headOff b := h.symm

theorem linv_perm {tk : Bool} {temp : List Nat} {l1 l2 : List LList} (hp : l1.Perm l2) (h : LInv tk temp l1) :
    LInv tk temp l2 :=
  ⟨fun l hl => h.1 l (hp.mem_iff.2 hl), (List.Perm.pairwise_iff (fun {_ _} h => gap_symm h) hp).1 h.2⟩

theorem has_perm {tk : Bool} {temp : List Nat} {l1 l2 : List LList} (hp : l1.Perm l2) (p b : Nat) :
    Has tk temp l1 p b ↔ Has tk temp l2 p b := by
  constructor
  · rintro ⟨l, hl, h⟩; exact ⟨l, hp.mem_iff.1 hl, h⟩
  · rintro ⟨l, hl, h⟩; exact ⟨l, hp.mem_iff.2 hl, h⟩

theorem has_cons (tk : Bool) (temp : List Nat) (l : LList) (ls : List LList) (p b : Nat) :
    Has tk temp (l :: ls) p b ↔ LHas tk temp l p b ∨ Has tk temp ls p b := by
  simp [Has]

theorem has_append (tk : Bool) (temp : List Nat) (l1 l2 : List LList) (p b : Nat) :
    Has tk temp (l1 ++ l2) p b ↔ Has tk temp l1 p b ∨ Has tk temp l2 p b := by
  simp only [Has, List.mem_append]
  constructor
  · rintro ⟨l, hl | hl, h⟩
    · exact Or.inl ⟨l, hl, h⟩
    · exact Or.inr ⟨l, hl, h⟩
  · rintro (⟨l, hl, h⟩ | ⟨l, hl, h⟩)
    · exact ⟨l, Or.inl hl, h⟩
    · exact ⟨l, Or.inr hl, h⟩

theorem has_nil (tk : Bool) (temp : List Nat) (p b : Nat) : ¬ Has tk temp [] p b := by
  simp [Has]

theorem linv_cons {tk : Bool} {temp : List Nat} {l : LList} {ls : List LList} :
    LInv tk temp (l :: ls) ↔ ListOk tk temp l ∧
      (∀ l' ∈ ls, tailStop l < headOff l' ∨ tailStop l' < headOff l) ∧ LInv tk temp ls := by
  unfold LInv
  rw [List.pairwise_cons]
  simp only [List.mem_cons, forall_eq_or_imp]
  constructor
  · rintro ⟨⟨h1, h2⟩, h3, h4⟩; exact ⟨h1, h3, h2, h4⟩
  · rintro ⟨h1, h3, h2, h4⟩; exact ⟨⟨h1, h2⟩, h3, h4⟩

theorem linv_nil (tk : Bool) (temp : List Nat) : LInv tk temp [] := ⟨by simp, List.Pairwise.nil⟩

theorem set_perm {α : Type} : ∀ (l : List α) (i : Nat) (x : α), i < l.length → (l.set i x).Perm (x :: l.eraseIdx i)
  | [], _, _, h => by simp at h
  | a :: l, 0, x, _ => by simp
  | a :: l, i + 1, x, h => by
    rw [List.set_cons_succ, List.eraseIdx_cons_succ]
    have := set_perm l i x (by simpa using h)
    exact (List.Perm.cons a this).trans (List.Perm.swap x a _)

theorem eraseIdx_perm {α : Type} : ∀ (l : List α) (i : Nat) (h : i < l.length), l.Perm (l[i] :: l.eraseIdx i)
  | [], _, h => by simp at h
  | a :: l, 0, _ => by simp
  | a :: l, i + 1, h => by
    rw [List.eraseIdx_cons_succ]
    have := eraseIdx_perm l i (by simpa using h)
    simp only [List.getElem_cons_succ]
    exact (List.Perm.cons a this).trans (List.Perm.swap _ a _)

theorem getD_of_lt {α : Type} (l : List α) (i : Nat) (d : α) (h : i < l.length) : l.getD i d = l[i] := by
  simp [List.getD_eq_getElem?_getD, h]

/-- two lists of an invariant buffer with the same head are the same list -/
theorem linv_head_unique {tk : Bool} {temp : List Nat} {lists : List LList} (h : LInv tk temp lists)
    {l l' : LList} (hl : l ∈ lists) (hl' : l' ∈ lists) (he : headOff l = headOff l') : l = l' := by
  have h1 := (h.1 l hl).lt
  have h2 := (h.1 l' hl').lt
  exact linv_list_unique (p := headOff l) h hl hl' ⟨Nat.le_refl _, h1⟩ ⟨by omega, by omega⟩

theorem linv_tail_unique {tk : Bool} {temp : List Nat} {lists : List LList} (h : LInv tk temp lists)
    {l l' : LList} (hl : l ∈ lists) (hl' : l' ∈ lists) (he : tailStop l = tailStop l') : l = l' := by
  have h1 := (h.1 l hl).lt
  have h2 := (h.1 l' hl').lt
  exact linv_list_unique (p := tailStop l - 1) h hl hl' ⟨by omega, by omega⟩ ⟨by omega, by omega⟩

/-! ### the first loop of AddInterval -/

def Sep (n : Node) (l : LList) : Prop := tailStop l ≤ n.off ∨ n.off + n.size ≤ headOff l

theorem keepParts_eq (n : Node) (l : LList) : keepParts n l =
    (if tailStop l ≤ n.off then [l] else []) ++ (if n.off + n.size ≤ headOff l then [l] else []) ++
    (if headOff l < n.off ∧ n.off < tailStop l then [subList l (headOff l) n.off] else []) ++
    (if headOff l < n.off + n.size ∧ n.off + n.size < tailStop l then [subList l (n.off + n.size) (tailStop l)] else []) := rfl

theorem keepParts_out {n : Node} {l : LList} (hn : 0 < n.size) (hlt : headOff l < tailStop l) (h : Sep n l) :
    keepParts n l = [l] := by
  rw [keepParts_eq]
  rcases h with h | h
  · rw [if_pos h, if_neg (by omega), if_neg (by omega), if_neg (by omega)]; rfl
  · rw [if_neg (by omega), if_pos h, if_neg (by omega), if_neg (by omega)]; rfl

theorem keepParts_in {n : Node} {l : LList} (h1 : n.off < tailStop l) (h2 : headOff l < n.off + n.size) :
    keepParts n l =
    (if headOff l < n.off then [subList l (headOff l) n.off] else []) ++
    (if n.off + n.size < tailStop l then [subList l (n.off + n.size) (tailStop l)] else []) := by
  rw [keepParts_eq, if_neg (by omega), if_neg (by omega)]
  simp only [List.nil_append, h1, h2, and_true, true_and]

theorem keepParts_spec {tk : Bool} {temp : List Nat} {n : Node} {l : LList} (hn : 0 < n.size) (hl : ListOk tk temp l) :
    (∀ k ∈ keepParts n l, ListOk tk temp k ∧ Sep n k ∧ headOff l ≤ headOff k ∧ tailStop k ≤ tailStop l) ∧
    (keepParts n l).Pairwise (fun a b => tailStop a < headOff b ∨ tailStop b < headOff a) ∧
    (∀ p b, (∃ k ∈ keepParts n l, LHas tk temp k p b) ↔ ¬ (n.off ≤ p ∧ p < n.off + n.size) ∧ LHas tk temp l p b) := by
  have hlt := hl.lt
  by_cases hs : Sep n l
  · rw [keepParts_out hn hlt hs]
    refine ⟨?_, by simp, ?_⟩
    · intro k hk
      simp only [List.mem_singleton] at hk
      subst hk
      exact ⟨hl, hs, Nat.le_refl _, Nat.le_refl _⟩
    · intro p b
      simp only [List.mem_singleton, exists_eq_left]
      constructor
      · intro h
        have := lhas_range hl h
        refine ⟨?_, h⟩
        unfold Sep at hs
        omega
      · exact fun h => h.2
  · have h1 : n.off < tailStop l := by unfold Sep at hs; omega
    have h2 : headOff l < n.off + n.size := by unfold Sep at hs; omega
    rw [keepParts_in h1 h2]
    have hL : headOff l < n.off → ListOk tk temp (subList l (headOff l) n.off) ∧
        headOff (subList l (headOff l) n.off) = headOff l ∧ tailStop (subList l (headOff l) n.off) = n.off := by
      intro h
      have := subList_ok l hl (headOff l) n.off (by omega)
      refine ⟨this.1, by rw [this.2.1]; omega, by rw [this.2.2]; omega⟩
    have hR : n.off + n.size < tailStop l → ListOk tk temp (subList l (n.off + n.size) (tailStop l)) ∧
        headOff (subList l (n.off + n.size) (tailStop l)) = n.off + n.size ∧
        tailStop (subList l (n.off + n.size) (tailStop l)) = tailStop l := by
      intro h
      have := subList_ok l hl (n.off + n.size) (tailStop l) (by omega)
      refine ⟨this.1, by rw [this.2.1]; omega, by rw [this.2.2]; omega⟩
    refine ⟨?_, ?_, ?_⟩
    · intro k hk
      rcases List.mem_append.1 hk with hk | hk
      · by_cases hc : headOff l < n.off
        · rw [if_pos hc] at hk
          simp only [List.mem_singleton] at hk
          subst hk
          obtain ⟨a1, a2, a3⟩ := hL hc
          exact ⟨a1, Or.inl (by omega), by omega, by omega⟩
        · rw [if_neg hc] at hk; cases hk
      · by_cases hc : n.off + n.size < tailStop l
        · rw [if_pos hc] at hk
          simp only [List.mem_singleton] at hk
          subst hk
          obtain ⟨a1, a2, a3⟩ := hR hc
          exact ⟨a1, Or.inr (by omega), by omega, by omega⟩
        · rw [if_neg hc] at hk; cases hk
    · by_cases hc : headOff l < n.off <;> by_cases hc' : n.off + n.size < tailStop l
      · rw [if_pos hc, if_pos hc']
        obtain ⟨a1, a2, a3⟩ := hL hc
        obtain ⟨b1, b2, b3⟩ := hR hc'
        simp only [List.singleton_append, List.pairwise_cons, List.mem_singleton, forall_eq, List.not_mem_nil,
          false_imp_iff, implies_true, List.Pairwise.nil, and_true]
        left; omega
      · rw [if_pos hc, if_neg hc']; simp
      · rw [if_neg hc, if_pos hc']; simp
      · rw [if_neg hc, if_neg hc']; simp
    · intro p b
      constructor
      · rintro ⟨k, hk, hh⟩
        rcases List.mem_append.1 hk with hk | hk
        · by_cases hc : headOff l < n.off
          · rw [if_pos hc] at hk
            simp only [List.mem_singleton] at hk
            subst hk
            have := (lhas_subList hl _ _ p b).1 hh
            exact ⟨by omega, this.2.2⟩
          · rw [if_neg hc] at hk; cases hk
        · by_cases hc : n.off + n.size < tailStop l
          · rw [if_pos hc] at hk
            simp only [List.mem_singleton] at hk
            subst hk
            have := (lhas_subList hl _ _ p b).1 hh
            exact ⟨by omega, this.2.2⟩
          · rw [if_neg hc] at hk; cases hk
      · rintro ⟨hnp, hh⟩
        have hr := lhas_range hl hh
        by_cases hp : p < n.off
        · have hc : headOff l < n.off := by omega
          refine ⟨subList l (headOff l) n.off, ?_, (lhas_subList hl _ _ p b).2 ⟨hr.1, hp, hh⟩⟩
          rw [if_pos hc]; simp
        · have hc : n.off + n.size < tailStop l := by omega
          refine ⟨subList l (n.off + n.size) (tailStop l), ?_, (lhas_subList hl _ _ p b).2 ⟨by omega, hr.2, hh⟩⟩
          rw [if_pos hc]; simp

/-- after the first loop: still an invariant buffer, every list lies left or right of the new node, and the
    bytes are the old ones outside the new node -/
theorem phase1 {tk : Bool} {temp : List Nat} {n : Node} (hn : 0 < n.size) : ∀ (lists : List LList), LInv tk temp lists →
    LInv tk temp (lists.flatMap (keepParts n)) ∧
    (∀ k ∈ lists.flatMap (keepParts n), Sep n k ∧ ∃ l ∈ lists, headOff l ≤ headOff k ∧ tailStop k ≤ tailStop l) ∧
    (∀ p b, Has tk temp (lists.flatMap (keepParts n)) p b ↔
      ¬ (n.off ≤ p ∧ p < n.off + n.size) ∧ Has tk temp lists p b)
  | [], _ => by
    refine ⟨linv_nil tk temp, by simp, ?_⟩
    intro p b
    simp [Has]
  | l :: ls, h => by
    obtain ⟨hl, hg, hls⟩ := linv_cons.1 h
    obtain ⟨i1, i2, i3⟩ := phase1 hn ls hls
    obtain ⟨k1, k2, k3⟩ := keepParts_spec (n := n) hn hl
    rw [List.flatMap_cons]
    refine ⟨⟨?_, ?_⟩, ?_, ?_⟩
    · intro k hk
      rcases List.mem_append.1 hk with hk | hk
      · exact (k1 k hk).1
      · exact i1.1 k hk
    · rw [List.pairwise_append]
      refine ⟨k2, i1.2, ?_⟩
      intro a ha b hb
      obtain ⟨_, l', hl', c1, c2⟩ := i2 b hb
      obtain ⟨_, _, d1, d2⟩ := k1 a ha
      have := hg l' hl'
      have := (i1.1 b hb).lt
      have := (k1 a ha).1.lt
      omega
    · intro k hk
      rcases List.mem_append.1 hk with hk | hk
      · obtain ⟨_, d0, d1, d2⟩ := k1 k hk
        exact ⟨d0, l, by simp, d1, d2⟩
      · obtain ⟨d0, l', hl', c1, c2⟩ := i2 k hk
        exact ⟨d0, l', by simp [hl'], c1, c2⟩
    · intro p b
      rw [has_append, i3, has_cons]
      have : Has tk temp (keepParts n l) p b ↔ ∃ k ∈ keepParts n l, LHas tk temp k p b := Iff.rfl
      rw [this, k3]
      constructor
      · rintro (⟨h1, h2⟩ | ⟨h1, h2⟩)
        · exact ⟨h1, Or.inl h2⟩
        · exact ⟨h1, Or.inr h2⟩
      · rintro ⟨h1, h2 | h2⟩
        · exact Or.inl ⟨h1, h2⟩
        · exact Or.inr ⟨h1, h2⟩

/-! ### the second part of AddInterval: link the node to its neighbours -/

theorem removeByOffset_spec (L : List LList) (o : Nat) :
    (removeByOffset L o = L ∧ ∀ l ∈ L, headOff l ≠ o) ∨
    ∃ k, ∃ h : k < L.length, headOff L[k] = o ∧ removeByOffset L o = L.eraseIdx k := by
  unfold removeByOffset
  cases hg : ((List.range L.length).filter fun k => headOff (L.getD k []) == o).getLast? with
  | none =>
    left
    refine ⟨rfl, ?_⟩
    intro l hl
    obtain ⟨i, hi, rfl⟩ := List.mem_iff_getElem.1 hl
    have := List.getLast?_eq_none_iff.1 hg
    have := List.filter_eq_nil_iff.1 this i (List.mem_range.2 hi)
    rw [getD_of_lt _ _ _ hi] at this
    simpa using this
  | some k =>
    right
    have hm := List.mem_of_getLast? hg
    obtain ⟨h1, h2⟩ := List.mem_filter.1 hm
    have hk := List.mem_range.1 h1
    refine ⟨k, hk, ?_, rfl⟩
    rw [getD_of_lt _ _ _ hk] at h2
    simpa using h2

def link (tk : Bool) (nl : List LList) (n : Node) : List LList :=
  match nl.findIdx? (fun l => headOff l + lsize l == n.off), nl.findIdx? (fun l => headOff l == n.off + n.size) with
  | some p, some q => removeByOffset (nl.set p (addToTail tk (nl.getD p []) n ++ nl.getD q [])) (n.off + n.size)
  | some p, none => nl.set p (addToTail tk (nl.getD p []) n)
  | none, some q => nl.set q (n :: nl.getD q [])
  | none, none => nl ++ [[n]]

theorem addGeneral_eq (tk : Bool) (lists : List LList) (n : Node) :
    addGeneral tk lists n = link tk (lists.flatMap (keepParts n)) n := rfl

theorem find_prev_none {tk : Bool} {temp : List Nat} {nl : List LList} {n : Node} (h : LInv tk temp nl)
    (hf : nl.findIdx? (fun l => headOff l + lsize l == n.off) = none) : ∀ l ∈ nl, tailStop l ≠ n.off := by
  intro l hl
  have := List.findIdx?_eq_none_iff.1 hf l hl
  rw [(h.1 l hl).lsize] at this
  simpa using this

theorem find_prev_some {tk : Bool} {temp : List Nat} {nl : List LList} {n : Node} (h : LInv tk temp nl) {i : Nat}
    (hf : nl.findIdx? (fun l => headOff l + lsize l == n.off) = some i) : ∃ hi : i < nl.length, tailStop nl[i] = n.off := by
  obtain ⟨hi, hp, _⟩ := List.findIdx?_eq_some_iff_getElem.1 hf
  refine ⟨hi, ?_⟩
  rw [(h.1 _ (List.getElem_mem hi)).lsize] at hp
  simpa using hp

theorem find_next_none {nl : List LList} {o : Nat}
    (hf : nl.findIdx? (fun l => headOff l == o) = none) : ∀ l ∈ nl, headOff l ≠ o := by
  intro l hl
  have := List.findIdx?_eq_none_iff.1 hf l hl
  simpa using this

theorem find_next_some {nl : List LList} {o : Nat} {i : Nat}
    (hf : nl.findIdx? (fun l => headOff l == o) = some i) : ∃ hi : i < nl.length, headOff nl[i] = o := by
  obtain ⟨hi, hp, _⟩ := List.findIdx?_eq_some_iff_getElem.1 hf
  exact ⟨hi, by simpa using hp⟩

theorem phase2 {tk : Bool} {temp : List Nat} {n : Node} (hn : NodeOk tk temp n) (nl : List LList)
    (h : LInv tk temp nl) (hsep : ∀ k ∈ nl, Sep n k) :
    LInv tk temp (link tk nl n) ∧
    ∀ p b, Has tk temp (link tk nl n) p b ↔ LHas tk temp [n] p b ∨ Has tk temp nl p b := by
  have hnpos := hn.1
  have hsing := listOk_singleton hn
  unfold link
  cases hpi : nl.findIdx? (fun l => headOff l + lsize l == n.off) with
  | none =>
    have hnp := find_prev_none h hpi
    cases hni : nl.findIdx? (fun l => headOff l == n.off + n.size) with
    | none =>
      have hnn := find_next_none hni
      simp only
      have hperm : (nl ++ [[n]]).Perm ([n] :: nl) := List.perm_append_singleton _ _
      have hinv : LInv tk temp ([n] :: nl) := by
        refine linv_cons.2 ⟨hsing, ?_, h⟩
        intro e he
        have h1 := (h.1 e he).lt
        have h2 := hsep e he
        have h3 := hnp e he
        have h4 := hnn e he
        unfold Sep at h2
        rw [tailStop_singleton, headOff_cons]
        omega
      refine ⟨linv_perm hperm.symm hinv, ?_⟩
      intro p b
      rw [has_perm hperm, has_cons]
    | some q =>
      obtain ⟨hq, hhead⟩ := find_next_some hni
      simp only
      rw [getD_of_lt _ _ _ hq]
      have hperm1 := eraseIdx_perm nl q hq
      have hpermL := set_perm nl q (n :: nl[q]) hq
      have hinv1 := linv_perm hperm1 h
      obtain ⟨a1, a2, a3⟩ := linv_cons.1 hinv1
      have hM := listOk_cons hn a1 hhead.symm
      have hinv : LInv tk temp ((n :: nl[q]) :: nl.eraseIdx q) := by
        refine linv_cons.2 ⟨hM.1, ?_, a3⟩
        intro e he
        have hemem : e ∈ nl := hperm1.mem_iff.2 (List.mem_cons_of_mem _ he)
        have h1 := (h.1 e hemem).lt
        have h2 := hsep e hemem
        have h3 := hnp e hemem
        have h5 := a2 e he
        have h6 := a1.lt
        unfold Sep at h2
        rw [hM.2.1, hM.2.2]
        omega
      refine ⟨linv_perm hpermL.symm hinv, ?_⟩
      intro p b
      rw [has_perm hpermL, has_cons, has_perm hperm1, has_cons, show n :: nl[q] = [n] ++ nl[q] from rfl, lhas_append]
      constructor
      · rintro ((h1 | h1) | h1)
        · exact Or.inl h1
        · exact Or.inr (Or.inl h1)
        · exact Or.inr (Or.inr h1)
      · rintro (h1 | h1 | h1)
        · exact Or.inl (Or.inl h1)
        · exact Or.inl (Or.inr h1)
        · exact Or.inr h1
  | some i =>
    obtain ⟨hi, htail⟩ := find_prev_some h hpi
    have hperm1 := eraseIdx_perm nl i hi
    have hinv1 := linv_perm hperm1 h
    obtain ⟨a1, a2, a3⟩ := linv_cons.1 hinv1
    obtain ⟨t1, t2, t3, t4⟩ := addToTail_spec a1 hn htail
    cases hni : nl.findIdx? (fun l => headOff l == n.off + n.size) with
    | none =>
      have hnn := find_next_none hni
      simp only
      rw [getD_of_lt _ _ _ hi]
      have hpermL := set_perm nl i (addToTail tk nl[i] n) hi
      have hinv : LInv tk temp (addToTail tk nl[i] n :: nl.eraseIdx i) := by
        refine linv_cons.2 ⟨t1, ?_, a3⟩
        intro e he
        have hemem : e ∈ nl := hperm1.mem_iff.2 (List.mem_cons_of_mem _ he)
        have h1 := (h.1 e hemem).lt
        have h2 := hsep e hemem
        have h4 := hnn e hemem
        have h5 := a2 e he
        have h6 := a1.lt
        unfold Sep at h2
        rw [t2, t3]
        omega
      refine ⟨linv_perm hpermL.symm hinv, ?_⟩
      intro p b
      rw [has_perm hpermL, has_cons, has_perm hperm1, has_cons, t4]
      constructor
      · rintro ((h1 | h1) | h1)
        · exact Or.inr (Or.inl h1)
        · exact Or.inl h1
        · exact Or.inr (Or.inr h1)
      · rintro (h1 | h1 | h1)
        · exact Or.inl (Or.inr h1)
        · exact Or.inl (Or.inl h1)
        · exact Or.inr h1
    | some j =>
      obtain ⟨hj, hhead⟩ := find_next_some hni
      simp only
      rw [getD_of_lt _ _ _ hi, getD_of_lt _ _ _ hj]
      have hnext_ok := h.1 _ (List.getElem_mem hj)
      have hne : nl[j] ≠ nl[i] := by
        intro he
        have := hnext_ok.lt
        rw [he] at hhead this
        omega
      have hnextE : nl[j] ∈ nl.eraseIdx i := by
        have := hperm1.mem_iff.1 (List.getElem_mem hj)
        rcases List.mem_cons.1 this with h1 | h1
        · exact absurd h1 hne
        · exact h1
      have hperm2 := List.perm_cons_erase hnextE
      have hM := listOk_append t1 hnext_ok (by rw [t3, hhead])
      have hpermL := set_perm nl i (addToTail tk nl[i] n ++ nl[j]) hi
      -- the list removed by removeByOffset is the old next list
      have hrem : (removeByOffset (nl.set i (addToTail tk nl[i] n ++ nl[j])) (n.off + n.size)).Perm
          ((addToTail tk nl[i] n ++ nl[j]) :: (nl.eraseIdx i).erase nl[j]) := by
        rcases removeByOffset_spec (nl.set i (addToTail tk nl[i] n ++ nl[j])) (n.off + n.size) with ⟨_, hno⟩ | ⟨k, hk, hkh, hke⟩
        · exact absurd hhead (hno _ (hpermL.mem_iff.2 (List.mem_cons_of_mem _ hnextE)))
        · rw [hke]
          have hX := eraseIdx_perm _ k hk
          have hXm := hpermL.mem_iff.1 (List.getElem_mem hk)
          have hXe : (nl.set i (addToTail tk nl[i] n ++ nl[j]))[k] = nl[j] := by
            rcases List.mem_cons.1 hXm with h1 | h1
            · rw [h1, hM.2.1, t2] at hkh
              have := a1.lt
              omega
            · exact linv_head_unique a3 h1 hnextE (by rw [hkh, hhead])
          rw [hXe] at hX
          have h2 : (nl.set i (addToTail tk nl[i] n ++ nl[j])).Perm
              (nl[j] :: (addToTail tk nl[i] n ++ nl[j]) :: (nl.eraseIdx i).erase nl[j]) :=
            hpermL.trans ((List.Perm.cons _ hperm2).trans (List.Perm.swap _ _ _))
          exact (hX.symm.trans h2).cons_inv
      have hperm3 : nl.Perm (nl[i] :: nl[j] :: (nl.eraseIdx i).erase nl[j]) :=
        hperm1.trans (List.Perm.cons _ hperm2)
      have hinv3 := linv_perm hperm3 h
      obtain ⟨b1, b2, b3⟩ := linv_cons.1 hinv3
      obtain ⟨c1, c2, c3⟩ := linv_cons.1 b3
      have hinv : LInv tk temp ((addToTail tk nl[i] n ++ nl[j]) :: (nl.eraseIdx i).erase nl[j]) := by
        refine linv_cons.2 ⟨hM.1, ?_, c3⟩
        intro e he
        have hemem : e ∈ nl := hperm3.mem_iff.2 (List.mem_cons_of_mem _ (List.mem_cons_of_mem _ he))
        have h1 := (h.1 e hemem).lt
        have h2 := hsep e hemem
        have h5 := b2 e (List.mem_cons_of_mem _ he)
        have h7 := c2 e he
        have h6 := a1.lt
        have h8 := c1.lt
        unfold Sep at h2
        rw [hM.2.1, hM.2.2, t2]
        omega
      refine ⟨linv_perm hrem.symm hinv, ?_⟩
      intro p b
      rw [has_perm hrem, has_cons, has_perm hperm3, has_cons, has_cons, lhas_append, t4]
      constructor
      · rintro (((h1 | h1) | h1) | h1)
        · exact Or.inr (Or.inl h1)
        · exact Or.inl h1
        · exact Or.inr (Or.inr (Or.inl h1))
        · exact Or.inr (Or.inr (Or.inr h1))
      · rintro (h1 | h1 | h1 | h1)
        · exact Or.inl (Or.inl (Or.inr h1))
        · exact Or.inl (Or.inl (Or.inl h1))
        · exact Or.inl (Or.inr h1)
        · exact Or.inr h1

/-- AddInterval keeps the invariant and is "last write wins" on bytes -/
theorem addInterval_spec {tk : Bool} {temp : List Nat} {n : Node} (hn : NodeOk tk temp n) (lists : List LList)
    (h : LInv tk temp lists) :
    LInv tk temp (addInterval tk lists n) ∧
    ∀ p b, Has tk temp (addInterval tk lists n) p b ↔
      LHas tk temp [n] p b ∨ (¬ (n.off ≤ p ∧ p < n.off + n.size) ∧ Has tk temp lists p b) := by
  have general : LInv tk temp (addGeneral tk lists n) ∧
      ∀ p b, Has tk temp (addGeneral tk lists n) p b ↔
        LHas tk temp [n] p b ∨ (¬ (n.off ≤ p ∧ p < n.off + n.size) ∧ Has tk temp lists p b) := by
    rw [addGeneral_eq]
    obtain ⟨i1, i2, i3⟩ := phase1 (n := n) hn.1 lists h
    obtain ⟨j1, j2⟩ := phase2 hn _ i1 (fun k hk => (i2 k hk).1)
    refine ⟨j1, ?_⟩
    intro p b
    rw [j2, i3]
  unfold addInterval
  split
  · rename_i l
    by_cases ht : tailStop l = n.off
    · rw [if_pos ht]
      obtain ⟨a1, _, _⟩ := linv_cons.1 h
      obtain ⟨t1, t2, t3, t4⟩ := addToTail_spec a1 hn ht
      refine ⟨linv_cons.2 ⟨t1, by simp, linv_nil tk temp⟩, ?_⟩
      intro p b
      rw [has_cons, has_cons, t4]
      have hr : ∀ {p b}, LHas tk temp l p b → ¬ (n.off ≤ p ∧ p < n.off + n.size) := by
        intro p b hh
        have := lhas_range a1 hh
        omega
      constructor
      · rintro ((h1 | h1) | h1)
        · exact Or.inr ⟨hr h1, Or.inl h1⟩
        · exact Or.inl h1
        · exact absurd h1 (has_nil tk temp p b)
      · rintro (h1 | ⟨_, h1 | h1⟩)
        · exact Or.inl (Or.inr h1)
        · exact Or.inl (Or.inl h1)
        · exact absurd h1 (has_nil tk temp p b)
    · rw [if_neg ht]; exact general
  · exact general

/-! ### RemoveLargestIntervalLinkedList -/

def lfold (lists : List LList) (m : Nat) : Nat × Option Nat :=
  (List.range m).foldl (fun (acc : Nat × Option Nat) k =>
      if acc.1 ≤ lsize (lists.getD k []) then (lsize (lists.getD k []), some k) else acc) (0, none)

theorem lfold_succ (lists : List LList) (m : Nat) : lfold lists (m + 1) =
    if (lfold lists m).1 ≤ lsize (lists.getD m []) then (lsize (lists.getD m []), some m) else lfold lists m := by
  unfold lfold
  rw [List.range_succ, List.foldl_append]
  rfl

theorem largestIdx_eq (lists : List LList) : largestIdx lists =
    if (lfold lists lists.length).1 = 0 then none else (lfold lists lists.length).2 := rfl

theorem largest_fold (lists : List LList) : ∀ (m : Nat),
    (∀ k, k < m → lsize (lists.getD k []) ≤ (lfold lists m).1) ∧ ((lfold lists m).2 = none → (lfold lists m).1 = 0) ∧
    (∀ k, (lfold lists m).2 = some k → k < m ∧ lsize (lists.getD k []) = (lfold lists m).1)
  | 0 => by simp [lfold]
  | m + 1 => by
    obtain ⟨i1, i2, i3⟩ := largest_fold lists m
    rw [lfold_succ]
    by_cases hc : (lfold lists m).1 ≤ lsize (lists.getD m [])
    · rw [if_pos hc]
      refine ⟨?_, by simp, ?_⟩
      · intro k hk
        by_cases hkm : k = m
        · subst hkm; exact Nat.le_refl _
        · have := i1 k (by omega); simp only; omega
      · intro k hk
        simp only [Option.some.injEq] at hk
        subst hk
        exact ⟨by omega, rfl⟩
    · rw [if_neg hc]
      refine ⟨?_, i2, ?_⟩
      · intro k hk
        by_cases hkm : k = m
        · subst hkm; omega
        · exact i1 k (by omega)
      · intro k hk
        have := i3 k hk
        exact ⟨by omega, this.2⟩

theorem largestIdx_none (lists : List LList) : largestIdx lists = none ↔ ∀ l ∈ lists, lsize l = 0 := by
  obtain ⟨i1, i2, i3⟩ := largest_fold lists lists.length
  rw [largestIdx_eq]
  constructor
  · intro h
    have h0 : (lfold lists lists.length).1 = 0 := by
      by_cases hc : (lfold lists lists.length).1 = 0
      · exact hc
      · rw [if_neg hc] at h; exact i2 h
    intro l hl
    obtain ⟨k, hk, rfl⟩ := List.mem_iff_getElem.1 hl
    have := i1 k hk
    rw [getD_of_lt _ _ _ hk] at this
    omega
  · intro h
    by_cases hc : (lfold lists lists.length).1 = 0
    · rw [if_pos hc]
    · rw [if_neg hc]
      cases hr : (lfold lists lists.length).2 with
      | none => rfl
      | some k =>
        exfalso
        have := i3 k hr
        rw [getD_of_lt _ _ _ this.1] at this
        have := h _ (List.getElem_mem this.1)
        omega

theorem largestIdx_some (lists : List LList) (k : Nat) (h : largestIdx lists = some k) :
    ∃ hk : k < lists.length, ∀ l ∈ lists, lsize l ≤ lsize lists[k] := by
  obtain ⟨i1, i2, i3⟩ := largest_fold lists lists.length
  rw [largestIdx_eq] at h
  by_cases hc : (lfold lists lists.length).1 = 0
  · rw [if_pos hc] at h; cases h
  · rw [if_neg hc] at h
    obtain ⟨hk, he⟩ := i3 k h
    refine ⟨hk, ?_⟩
    intro l hl
    obtain ⟨j, hj, rfl⟩ := List.mem_iff_getElem.1 hl
    have := i1 j hj
    rw [getD_of_lt _ _ _ hj] at this
    rw [getD_of_lt _ _ _ hk] at he
    omega

theorem removeLargest_spec {tk : Bool} {temp : List Nat} {lists : List LList} (h : LInv tk temp lists) {l : LList}
    {rest : List LList} (hr : removeLargest lists = some (l, rest)) :
    ListOk tk temp l ∧ LInv tk temp rest ∧ lists.Perm (l :: rest) ∧ (∀ l' ∈ rest, lsize l' ≤ lsize l) := by
  unfold removeLargest at hr
  cases hk : largestIdx lists with
  | none => rw [hk] at hr; cases hr
  | some k =>
    rw [hk] at hr
    obtain ⟨hlt, hmax⟩ := largestIdx_some lists k hk
    simp only [Option.some.injEq, Prod.mk.injEq] at hr
    rw [getD_of_lt _ _ _ hlt] at hr
    obtain ⟨rfl, rfl⟩ := hr
    have hperm := eraseIdx_perm lists k hlt
    have hinv := linv_perm hperm h
    obtain ⟨a1, _, a3⟩ := linv_cons.1 hinv
    exact ⟨a1, a3, hperm, fun l' hl' => hmax l' (hperm.mem_iff.2 (List.mem_cons_of_mem _ hl'))⟩

theorem removeLargest_none_iff {tk : Bool} {temp : List Nat} {lists : List LList} (h : LInv tk temp lists) :
    removeLargest lists = none ↔ lists = [] := by
  have h1 : removeLargest lists = none ↔ largestIdx lists = none := by
    unfold removeLargest
    cases largestIdx lists <;> simp
  rw [h1, largestIdx_none]
  constructor
  · intro h0
    cases lists with
    | nil => rfl
    | cons l ls =>
      exfalso
      have := h0 l (by simp)
      have hl := h.1 l (by simp)
      have := hl.lsize
      have := hl.lt
      omega
  · rintro rfl; simp

/-! ### the temp file only grows -/

theorem nodeOk_temp_append {temp : List Nat} (more : List Nat) {x : Node} (h : NodeOk true temp x) :
    NodeOk true (temp ++ more) x :=
  ⟨h.1, h.2.1, fun hk => by have := h.2.2 hk; simp only [List.length_append]; omega⟩

theorem listOk_temp_append {temp : List Nat} (more : List Nat) {l : LList} (h : ListOk true temp l) :
    ListOk true (temp ++ more) l :=
  ⟨h.1, fun n hn => nodeOk_temp_append more (h.2.1 n hn), h.2.2⟩

theorem linv_temp_append {temp : List Nat} (more : List Nat) {lists : List LList} (h : LInv true temp lists) :
    LInv true (temp ++ more) lists :=
  ⟨fun l hl => listOk_temp_append more (h.1 l hl), h.2⟩

theorem nodeByte_temp_append {temp : List Nat} (more : List Nat) {x : Node} (h : NodeOk true temp x) (p : Nat)
    (h1 : x.off ≤ p) (h2 : p < x.off + x.size) : nodeByte true (temp ++ more) x p = nodeByte true temp x p := by
  unfold nodeByte
  rw [nodeBytes_getD true _ x (nodeOk_temp_append more h) _ (by omega), nodeBytes_getD true _ x h _ (by omega)]
  have := h.2.2 rfl
  simp only [if_true, List.getD_eq_getElem?_getD]
  rw [List.getElem?_append_left (by omega)]

theorem has_temp_append {temp : List Nat} (more : List Nat) {lists : List LList} (h : LInv true temp lists) (p b : Nat) :
    Has true (temp ++ more) lists p b ↔ Has true temp lists p b := by
  constructor
  · rintro ⟨l, hl, x, hx, h1, h2, rfl⟩
    exact ⟨l, hl, x, hx, h1, h2, nodeByte_temp_append more ((h.1 l hl).2.1 x hx) p h1 h2⟩
  · rintro ⟨l, hl, x, hx, h1, h2, rfl⟩
    exact ⟨l, hl, x, hx, h1, h2, (nodeByte_temp_append more ((h.1 l hl).2.1 x hx) p h1 h2).symm⟩

/-! ### ReadDataAt -/

theorem writeAt_length (buf : List (Option Nat)) (pos : Nat) (bs : List Nat) :
    (writeAt buf pos bs).length = buf.length := by
  unfold writeAt
  simp only [List.length_append, List.length_take, List.length_map, List.length_drop]
  omega

theorem writeAt_getElem? (buf : List (Option Nat)) (pos : Nat) (bs : List Nat) (hfit : pos + bs.length ≤ buf.length)
    (i : Nat) : (writeAt buf pos bs)[i]? = if pos ≤ i ∧ i < pos + bs.length then (bs[i - pos]?).map some else buf[i]? := by
  have htk : (bs.map some).take (buf.length - pos) = bs.map some :=
    List.take_of_length_le (by rw [List.length_map]; omega)
  have hmin : min pos buf.length = pos := by omega
  unfold writeAt
  rw [htk]
  by_cases h1 : i < pos
  · rw [if_neg (by omega), List.append_assoc, List.getElem?_append_left (by rw [List.length_take]; omega),
      List.getElem?_take, if_pos h1]
  · by_cases h2 : i < pos + bs.length
    · rw [if_pos ⟨by omega, h2⟩,
        List.getElem?_append_left (by rw [List.length_append, List.length_take, List.length_map]; omega),
        List.getElem?_append_right (by rw [List.length_take]; omega), List.length_take, hmin, List.getElem?_map]
    · rw [if_neg (by omega),
        List.getElem?_append_right (by rw [List.length_append, List.length_take, List.length_map]; omega),
        List.length_append, List.length_take, List.length_map, hmin, List.getElem?_drop]
      congr 1
      omega

theorem getElem?_eq_some_getD {α : Type} (l : List α) (k : Nat) (d : α) (h : k < l.length) : l[k]? = some (l.getD k d) := by
  simp [List.getD_eq_getElem?_getD, List.getElem?_eq_getElem h]

/-- one node of ReadData -/
def nstep (tk : Bool) (temp : List Nat) (start stop base : Nat) (b : List (Option Nat)) (t : Node) : List (Option Nat) :=
  if max start t.off < min stop (t.off + t.size) then
    writeAt b (max start t.off - base)
      (((nodeBytes tk temp t).drop (max start t.off - t.off)).take (min stop (t.off + t.size) - max start t.off))
  else b

theorem readList_eq (tk : Bool) (temp : List Nat) (l : LList) (start stop base : Nat) (buf : List (Option Nat)) :
    readList tk temp l start stop base buf = l.foldl (nstep tk temp start stop base) buf := rfl

theorem nstep_spec {tk : Bool} {temp : List Nat} {t : Node} (ht : NodeOk tk temp t) {off len start stop : Nat}
    (h1 : off ≤ start) (h2 : stop ≤ off + len) {b : List (Option Nat)} (hb : b.length = len) :
    (nstep tk temp start stop off b t).length = len ∧
    ∀ i, (nstep tk temp start stop off b t)[i]? =
      if max start t.off ≤ off + i ∧ off + i < min stop (t.off + t.size) then some (some (nodeByte tk temp t (off + i)))
      else b[i]? := by
  unfold nstep
  have hlen := nodeBytes_length tk temp t ht
  by_cases hc : max start t.off < min stop (t.off + t.size)
  · rw [if_pos hc]
    refine ⟨by rw [writeAt_length, hb], ?_⟩
    intro i
    have hbl : (((nodeBytes tk temp t).drop (max start t.off - t.off)).take
        (min stop (t.off + t.size) - max start t.off)).length = min stop (t.off + t.size) - max start t.off := by
      simp only [List.length_take, List.length_drop, hlen]
      omega
    rw [writeAt_getElem? _ _ _ (by rw [hbl, hb]; omega), hbl]
    by_cases hi : max start t.off ≤ off + i ∧ off + i < min stop (t.off + t.size)
    · rw [if_pos hi, if_pos (by omega)]
      rw [List.getElem?_take, if_pos (by omega), List.getElem?_drop,
        getElem?_eq_some_getD _ _ 0 (by rw [hlen]; omega)]
      simp only [Option.map_some, nodeByte]
      congr 3
      omega
    · rw [if_neg hi, if_neg (by omega)]
  · rw [if_neg hc]
    refine ⟨hb, ?_⟩
    intro i
    rw [if_neg (by omega)]

theorem readList_spec {tk : Bool} {temp : List Nat} {off len start stop : Nat} (h1 : off ≤ start) (h2 : stop ≤ off + len) :
    ∀ (l : LList) (buf : List (Option Nat)), (∀ x ∈ l, NodeOk tk temp x) →
    l.Pairwise (fun a b => a.off + a.size ≤ b.off) → buf.length = len →
    (readList tk temp l start stop off buf).length = len ∧
    (∀ i b, start ≤ off + i → off + i < stop → LHas tk temp l (off + i) b →
      (readList tk temp l start stop off buf)[i]? = some (some b)) ∧
    (∀ i, (∀ x ∈ l, ¬ (x.off ≤ off + i ∧ off + i < x.off + x.size)) →
      (readList tk temp l start stop off buf)[i]? = buf[i]?)
  | [], buf, _, _, hb => by
    refine ⟨hb, ?_, fun i _ => rfl⟩
    rintro i b _ _ ⟨x, hx, _⟩
    cases hx
  | t :: l, buf, hok, hpw, hb => by
    obtain ⟨s1, s2⟩ := nstep_spec (hok t (by simp)) h1 h2 hb (start := start) (stop := stop)
    have hpw' := List.pairwise_cons.1 hpw
    obtain ⟨i1, i2, i3⟩ := readList_spec h1 h2 l (nstep tk temp start stop off buf t)
      (fun x hx => hok x (List.mem_cons_of_mem _ hx)) hpw'.2 s1
    rw [readList_eq, List.foldl_cons, ← readList_eq]
    refine ⟨i1, ?_, ?_⟩
    · rintro i b hs he ⟨x, hx, c1, c2, rfl⟩
      rcases List.mem_cons.1 hx with rfl | hx
      · rw [i3 i, s2 i, if_pos (by omega)]
        intro y hy
        have := hpw'.1 y hy
        omega
      · exact i2 i _ hs he ⟨x, hx, c1, c2, rfl⟩
    · intro i hno
      rw [i3 i (fun x hx => hno x (List.mem_cons_of_mem _ hx)), s2 i, if_neg]
      have := hno t (by simp)
      omega

/-- one list of ReadDataAt -/
def lstep (tk : Bool) (temp : List Nat) (off len : Nat) (acc : Nat × List (Option Nat)) (l : LList) : Nat × List (Option Nat) :=
  if max off (headOff l) < min (off + len) (headOff l + lsize l) then
    (max acc.1 (min (off + len) (headOff l + lsize l)),
      readList tk temp l (max off (headOff l)) (min (off + len) (headOff l + lsize l)) off acc.2)
  else acc

theorem readDataAt_eq (tk : Bool) (temp : List Nat) (lists : List LList) (off len : Nat) :
    readDataAt tk temp lists off len = lists.foldl (lstep tk temp off len) (0, List.replicate len none) := rfl

theorem lstep_spec {tk : Bool} {temp : List Nat} {off len : Nat} {l : LList} (hl : ListOk tk temp l)
    {acc : Nat × List (Option Nat)} (hb : acc.2.length = len) :
    (lstep tk temp off len acc l).2.length = len ∧
    (∀ i b, i < len → LHas tk temp l (off + i) b → (lstep tk temp off len acc l).2[i]? = some (some b)) ∧
    (∀ i, (∀ x ∈ l, ¬ (x.off ≤ off + i ∧ off + i < x.off + x.size)) → (lstep tk temp off len acc l).2[i]? = acc.2[i]?) := by
  unfold lstep
  rw [hl.lsize]
  by_cases hc : max off (headOff l) < min (off + len) (tailStop l)
  · rw [if_pos hc]
    obtain ⟨i1, i2, i3⟩ := readList_spec (tk := tk) (temp := temp) (off := off) (len := len)
      (start := max off (headOff l)) (stop := min (off + len) (tailStop l)) (by omega) (by omega) l acc.2 hl.2.1
      (chained_sorted l hl.2.2 hl.pos) hb
    refine ⟨i1, ?_, i3⟩
    intro i b hi hh
    have := lhas_range hl hh
    exact i2 i b (by omega) (by omega) hh
  · rw [if_neg hc]
    refine ⟨hb, ?_, fun i _ => rfl⟩
    intro i b hi hh
    have := lhas_range hl hh
    omega

theorem readDataAt_fold {tk : Bool} {temp : List Nat} {off len : Nat} : ∀ (lists : List LList) (acc : Nat × List (Option Nat)),
    LInv tk temp lists → acc.2.length = len →
    (lists.foldl (lstep tk temp off len) acc).2.length = len ∧
    (∀ i b, i < len → Has tk temp lists (off + i) b → (lists.foldl (lstep tk temp off len) acc).2[i]? = some (some b)) ∧
    (∀ i, (∀ l ∈ lists, ∀ x ∈ l, ¬ (x.off ≤ off + i ∧ off + i < x.off + x.size)) →
      (lists.foldl (lstep tk temp off len) acc).2[i]? = acc.2[i]?)
  | [], acc, _, hb => by
    refine ⟨hb, ?_, fun i _ => rfl⟩
    intro i b _ hh
    exact absurd hh (has_nil tk temp _ _)
  | l :: ls, acc, h, hb => by
    obtain ⟨a1, a2, a3⟩ := linv_cons.1 h
    obtain ⟨s1, s2, s3⟩ := lstep_spec (off := off) a1 hb
    obtain ⟨i1, i2, i3⟩ := readDataAt_fold (off := off) (len := len) ls (lstep tk temp off len acc l) a3 s1
    rw [List.foldl_cons]
    refine ⟨i1, ?_, ?_⟩
    · intro i b hi hh
      rcases (has_cons tk temp l ls _ _).1 hh with hh | hh
      · rw [i3 i, s2 i b hi hh]
        intro l' hl' x hx hcov
        have := lhas_range a1 hh
        have := (a3.1 l' hl').bounds x hx
        have := a2 l' hl'
        omega
      · exact i2 i b hi hh
    · intro i hno
      rw [i3 i (fun l' hl' => hno l' (List.mem_cons_of_mem _ hl')), s3 i (hno l (by simp))]

theorem readDataAt_bytes {tk : Bool} {temp : List Nat} {lists : List LList} (h : LInv tk temp lists) (off len : Nat) :
    (readDataAt tk temp lists off len).2 = (List.range len).map (fun i => dirtyByte tk temp lists (off + i)) := by
  obtain ⟨i1, i2, i3⟩ := readDataAt_fold (off := off) (len := len) lists (0, List.replicate len none) h (by simp)
  rw [readDataAt_eq]
  apply List.ext_getElem?
  intro i
  by_cases hi : i < len
  · rw [List.getElem?_map, List.getElem?_range hi, Option.map_some]
    cases hd : dirtyByte tk temp lists (off + i) with
    | none =>
      rw [i3 i ((dirtyByte_eq_none _).1 hd)]
      simp [hi]
    | some b =>
      exact i2 i b hi ((dirtyByte_eq_some h _ _).1 hd)
  · rw [List.getElem?_eq_none (by omega), List.getElem?_eq_none (by simp; omega)]

/-- maxStop: at least the (clamped) stop of every list that meets the window, and either 0 or one of them -/
theorem readDataAt_max_fold {tk : Bool} {temp : List Nat} {off len : Nat} : ∀ (lists : List LList) (acc : Nat × List (Option Nat)),
    LInv tk temp lists →
    acc.1 ≤ (lists.foldl (lstep tk temp off len) acc).1 ∧
    (∀ l ∈ lists, max off (headOff l) < min (off + len) (tailStop l) →
      min (off + len) (tailStop l) ≤ (lists.foldl (lstep tk temp off len) acc).1) ∧
    ((lists.foldl (lstep tk temp off len) acc).1 = acc.1 ∨
      ∃ l ∈ lists, max off (headOff l) < min (off + len) (tailStop l) ∧
        (lists.foldl (lstep tk temp off len) acc).1 = min (off + len) (tailStop l))
  | [], acc, _ => by simp
  | l :: ls, acc, h => by
    obtain ⟨a1, a2, a3⟩ := linv_cons.1 h
    obtain ⟨i1, i2, i3⟩ := readDataAt_max_fold (off := off) (len := len) ls (lstep tk temp off len acc l) a3
    rw [List.foldl_cons]
    have hs : (lstep tk temp off len acc l).1 =
        if max off (headOff l) < min (off + len) (tailStop l) then max acc.1 (min (off + len) (tailStop l)) else acc.1 := by
      unfold lstep
      rw [a1.lsize]
      split <;> rfl
    refine ⟨?_, ?_, ?_⟩
    · rw [hs] at i1
      split at i1 <;> omega
    · intro l' hl' hc
      rcases List.mem_cons.1 hl' with rfl | hl'
      · rw [hs, if_pos hc] at i1
        omega
      · exact i2 l' hl' hc
    · rcases i3 with i3 | ⟨l', hl', hc, he⟩
      · rw [i3, hs]
        by_cases hc : max off (headOff l) < min (off + len) (tailStop l)
        · rw [if_pos hc]
          by_cases hm : acc.1 ≤ min (off + len) (tailStop l)
          · right
            exact ⟨l, by simp, hc, by omega⟩
          · left; omega
        · rw [if_neg hc]; left; rfl
      · right
        exact ⟨l', List.mem_cons_of_mem _ hl', hc, he⟩

/-! ### AddInterval on `dirtyByte` -/

theorem addInterval_dirtyByte {tk : Bool} {temp : List Nat} {n : Node} (hn : NodeOk tk temp n) (lists : List LList)
    (h : LInv tk temp lists) (p : Nat) :
    dirtyByte tk temp (addInterval tk lists n) p =
      if n.off ≤ p ∧ p < n.off + n.size then some ((nodeBytes tk temp n).getD (p - n.off) 0) else dirtyByte tk temp lists p := by
  obtain ⟨hinv, hbytes⟩ := addInterval_spec hn lists h
  apply Option.ext
  intro b
  rw [dirtyByte_eq_some hinv, hbytes, lhas_singleton]
  by_cases hc : n.off ≤ p ∧ p < n.off + n.size
  · rw [if_pos hc]
    simp only [Option.some.injEq, nodeByte]
    constructor
    · rintro (⟨_, _, rfl⟩ | ⟨h1, _⟩)
      · rfl
      · exact absurd hc h1
    · intro hb; exact Or.inl ⟨hc.1, hc.2, hb.symm⟩
  · rw [if_neg hc, dirtyByte_eq_some h]
    constructor
    · rintro (⟨h1, h2, _⟩ | ⟨_, h2⟩)
      · exact absurd ⟨h1, h2⟩ hc
      · exact h2
    · intro hb; exact Or.inr ⟨hc, hb⟩

theorem dirtyByte_temp_append {temp : List Nat} (more : List Nat) {lists : List LList} (h : LInv true temp lists) (p : Nat) :
    dirtyByte true (temp ++ more) lists p = dirtyByte true temp lists p := by
  apply Option.ext
  intro b
  rw [dirtyByte_eq_some (linv_temp_append more h), dirtyByte_eq_some h, has_temp_append more h]

/-! ### write histories: the last write covering a position -/

def written (init : Option Nat) (ws : List (Nat × List Nat)) (p : Nat) : Option Nat :=
  ws.foldl (fun acc w => if w.1 ≤ p ∧ p < w.1 + w.2.length then some (w.2.getD (p - w.1) 0) else acc) init

def memFold (ls : List LList) (ws : List (Nat × List Nat)) : List LList :=
  ws.foldl (fun ls w => addInterval false ls { off := w.1, size := w.2.length, tmp := 0, data := w.2 }) ls

def tmpFold (s : List Nat × List LList) (ws : List (Nat × List Nat)) : List Nat × List LList :=
  ws.foldl (fun (s : List Nat × List LList) w =>
    (s.1 ++ w.2, addInterval true s.2 { off := w.1, size := w.2.length, tmp := s.1.length, data := [] })) s

theorem memFold_spec : ∀ (ws : List (Nat × List Nat)) (ls : List LList), LInv false [] ls → (∀ w ∈ ws, w.2 ≠ []) →
    LInv false [] (memFold ls ws) ∧ ∀ p, dirtyByte false [] (memFold ls ws) p = written (dirtyByte false [] ls p) ws p
  | [], ls, h, _ => ⟨h, fun _ => rfl⟩
  | w :: ws, ls, h, hne => by
    have hw : w.2 ≠ [] := hne w (by simp)
    have hn : NodeOk false [] { off := w.1, size := w.2.length, tmp := 0, data := w.2 } :=
      ⟨List.length_pos_iff.2 hw, fun _ => rfl, fun hk => by cases hk⟩
    obtain ⟨hinv, _⟩ := addInterval_spec hn ls h
    obtain ⟨i1, i2⟩ := memFold_spec ws _ hinv (fun w' hw' => hne w' (List.mem_cons_of_mem _ hw'))
    refine ⟨i1, ?_⟩
    intro p
    have := i2 p
    rw [addInterval_dirtyByte hn ls h p] at this
    exact this

theorem tmpFold_spec : ∀ (ws : List (Nat × List Nat)) (s : List Nat × List LList), LInv true s.1 s.2 → (∀ w ∈ ws, w.2 ≠ []) →
    LInv true (tmpFold s ws).1 (tmpFold s ws).2 ∧
    ∀ p, dirtyByte true (tmpFold s ws).1 (tmpFold s ws).2 p = written (dirtyByte true s.1 s.2 p) ws p
  | [], s, h, _ => ⟨h, fun _ => rfl⟩
  | w :: ws, s, h, hne => by
    have hw : w.2 ≠ [] := hne w (by simp)
    have hn : NodeOk true (s.1 ++ w.2) { off := w.1, size := w.2.length, tmp := s.1.length, data := [] } :=
      ⟨List.length_pos_iff.2 hw, (fun hk => by cases hk), (fun _ => by simp)⟩
    have h' := linv_temp_append w.2 h
    obtain ⟨hinv, _⟩ := addInterval_spec hn s.2 h'
    obtain ⟨i1, i2⟩ := tmpFold_spec ws (s.1 ++ w.2, addInterval true s.2 { off := w.1, size := w.2.length, tmp := s.1.length, data := [] })
      hinv (fun w' hw' => hne w' (List.mem_cons_of_mem _ hw'))
    refine ⟨i1, ?_⟩
    intro p
    have := i2 p
    simp only at this
    rw [addInterval_dirtyByte hn s.2 h' p, dirtyByte_temp_append w.2 h] at this
    have hb : (nodeBytes true (s.1 ++ w.2) { off := w.1, size := w.2.length, tmp := s.1.length, data := [] }) = w.2 := by
      simp [nodeBytes]
    rw [hb] at this
    exact this

/-! ### the POSIX side -/

theorem pad_getD (f : List Nat) (k p : Nat) : (f ++ List.replicate k 0).getD p 0 = f.getD p 0 := by
  simp only [List.getD_eq_getElem?_getD, List.getElem?_append]
  by_cases h : p < f.length
  · rw [if_pos h]
  · rw [if_neg h, List.getElem?_replicate, List.getElem?_eq_none (by omega)]
    split <;> rfl

theorem pwrite_length (f : File) (off : Nat) (d : List Nat) (hd : d ≠ []) :
    (pwrite f off d).length = max f.length (off + d.length) := by
  unfold pwrite
  have : d.isEmpty = false := by cases d with | nil => exact absurd rfl hd | cons _ _ => rfl
  simp only [this, Bool.false_eq_true, if_false, List.length_append, List.length_take, List.length_drop, List.length_replicate]
  omega

theorem pwrite_getD (f : File) (off : Nat) (d : List Nat) (hd : d ≠ []) (p : Nat) :
    (pwrite f off d).getD p 0 = if off ≤ p ∧ p < off + d.length then d.getD (p - off) 0 else f.getD p 0 := by
  unfold pwrite
  have : d.isEmpty = false := by cases d with | nil => exact absurd rfl hd | cons _ _ => rfl
  simp only [this, Bool.false_eq_true, if_false]
  have hpad := pad_getD f (off + d.length - f.length) p
  generalize hf' : f ++ List.replicate (off + d.length - f.length) 0 = f' at hpad
  have hlen : off + d.length ≤ f'.length := by
    rw [← hf', List.length_append, List.length_replicate]; omega
  rw [← hpad]
  simp only [List.getD_eq_getElem?_getD]
  by_cases h1 : p < off
  · rw [if_neg (by omega), List.append_assoc, List.getElem?_append_left (by rw [List.length_take]; omega),
      List.getElem?_take, if_pos h1]
  · by_cases h2 : p < off + d.length
    · rw [if_pos ⟨by omega, h2⟩, List.getElem?_append_left (by rw [List.length_append, List.length_take]; omega),
        List.getElem?_append_right (by rw [List.length_take]; omega), List.length_take]
      congr 2
      omega
    · rw [if_neg (by omega), List.getElem?_append_right (by rw [List.length_append, List.length_take]; omega),
        List.length_append, List.length_take, List.getElem?_drop]
      congr 2
      omega

theorem posix_fold (p : Nat) : ∀ (ws : List (Nat × List Nat)) (f : File) (init : Option Nat), (∀ w ∈ ws, w.2 ≠ []) →
    init.getD 0 = f.getD p 0 → (ws.foldl (fun f w => pwrite f w.1 w.2) f).getD p 0 = (written init ws p).getD 0
  | [], f, init, _, h => h.symm
  | w :: ws, f, init, hne, h => by
    unfold written
    rw [List.foldl_cons, List.foldl_cons]
    apply posix_fold p ws _ _ (fun w' hw' => hne w' (List.mem_cons_of_mem _ hw'))
    rw [pwrite_getD f w.1 w.2 (hne w (by simp)) p]
    split
    · rfl
    · exact h

theorem pread_pad (f : File) (off len : Nat) :
    pread f off len ++ List.replicate (len - (pread f off len).length) 0 = (List.range len).map (fun i => f.getD (off + i) 0) := by
  apply List.ext_getElem?
  intro i
  have hl : (pread f off len).length = min len (f.length - off) := by
    unfold pread; simp only [List.length_take, List.length_drop]
  by_cases hi : i < len
  · rw [List.getElem?_map, List.getElem?_range hi, Option.map_some, List.getElem?_append]
    by_cases h2 : i < (pread f off len).length
    · rw [if_pos h2]
      unfold pread
      rw [List.getElem?_take, if_pos hi, List.getElem?_drop]
      exact getElem?_eq_some_getD _ _ 0 (by omega)
    · rw [if_neg h2, List.getElem?_replicate, if_pos (by omega), List.getD_eq_getElem?_getD,
        List.getElem?_eq_none (by omega)]
      rfl
  · rw [List.getElem?_eq_none (by simp only [List.length_append, List.length_replicate]; omega),
      List.getElem?_eq_none (by simp; omega)]

/-- every position some write covered lies inside the POSIX file -/
theorem posix_fold_len (p : Nat) : ∀ (ws : List (Nat × List Nat)) (f : File) (init : Option Nat), (∀ w ∈ ws, w.2 ≠ []) →
    (init ≠ none → p < f.length) → written init ws p ≠ none → p < (ws.foldl (fun f w => pwrite f w.1 w.2) f).length
  | [], f, init, _, h, hw => h hw
  | w :: ws, f, init, hne, h, hw => by
    unfold written at hw
    rw [List.foldl_cons] at hw ⊢
    apply posix_fold_len p ws _ _ (fun w' hw' => hne w' (List.mem_cons_of_mem _ hw')) _ hw
    rw [pwrite_length f w.1 w.2 (hne w (by simp))]
    intro hi
    split at hi
    · omega
    · have := h hi; omega
open SwV.Model.C17 (Chunk maxInt64 compact readAcc readAt viewFromChunks)
open SwV.Spec.C17 (ByteOk Newest covers keyLe)
open SwV.Props.C17 (KeysDistinct)

/-! ### the stored entry: chunks as C17 sees them -/

def conv (c : SChunk) : Chunk := { off := c.off, size := c.size, mtime := (c.mt : Int), fid := c.mt, key := c.mt }

theorem toC17_eq (cs : List SChunk) : toC17 cs = cs.map conv := rfl

def MtDistinct (cs : List SChunk) : Prop := cs.Pairwise (fun a b => a.mt ≠ b.mt)

theorem mt_unique {cs : List SChunk} (hd : MtDistinct cs) {a b : SChunk} (ha : a ∈ cs) (hb : b ∈ cs) (h : a.mt = b.mt) :
    a = b :=
  pairwise_unique (C := fun c => c.mt = a.mt) (fun _ _ hr cx cy => hr (cx.trans cy.symm)) hd a ha b hb rfl h.symm

theorem dataOf_mem {cs : List SChunk} (hd : MtDistinct cs) {c : SChunk} (hc : c ∈ cs) (i : Nat) :
    dataOf cs c.mt i = c.data.getD i 0 := by
  unfold dataOf
  cases hf : cs.find? (fun c' => c'.mt == c.mt) with
  | none =>
    have := List.find?_eq_none.1 hf c hc
    simp at this
  | some c' =>
    have hm := List.mem_of_find?_eq_some hf
    have hp := List.find?_some hf
    simp only [beq_iff_eq] at hp
    rw [mt_unique hd hm hc hp]

theorem keysDistinct_toC17 {cs : List SChunk} (hd : MtDistinct cs) : KeysDistinct (toC17 cs) := by
  intro a ha b hb _ hk
  obtain ⟨c1, h1, rfl⟩ := List.mem_map.1 ha
  obtain ⟨c2, h2, rfl⟩ := List.mem_map.1 hb
  have : c1.mt = c2.mt := hk
  rw [mt_unique hd h1 h2 this]

theorem dataOf_append_left {cs : List SChunk} (more : List SChunk) {fid : Nat} (h : ∃ c ∈ cs, c.mt = fid) (i : Nat) :
    dataOf (cs ++ more) fid i = dataOf cs fid i := by
  unfold dataOf
  rw [List.find?_append]
  cases hf : cs.find? (fun c => c.mt == fid) with
  | none =>
    obtain ⟨c, hc, he⟩ := h
    have := List.find?_eq_none.1 hf c hc
    simp [he] at this
  | some c => rfl

theorem byteOk_append_cover {cs : List SChunk} {c : SChunk} (hlt : ∀ c' ∈ cs, c'.mt < c.mt) {p : Nat}
    (h1 : c.off ≤ p) (h2 : p < c.off + c.size) :
    ByteOk (dataOf (cs ++ [c])) (toC17 (cs ++ [c])) p (c.data.getD (p - c.off) 0) := by
  left
  refine ⟨conv c, ⟨List.mem_map.2 ⟨c, by simp, rfl⟩, (show covers (conv c) p from ⟨h1, h2⟩), ?_⟩, ?_⟩
  · intro c' hc' _
    obtain ⟨s, hs, rfl⟩ := List.mem_map.1 hc'
    rcases List.mem_append.1 hs with hs | hs
    · left
      show (s.mt : Int) < (c.mt : Int)
      have := hlt s hs
      omega
    · simp only [List.mem_singleton] at hs
      subst hs
      right
      exact ⟨rfl, Nat.le_refl _⟩
  · show _ = dataOf (cs ++ [c]) c.mt (p - c.off)
    unfold dataOf
    rw [List.find?_append]
    have : cs.find? (fun c' => c'.mt == c.mt) = none := by
      apply List.find?_eq_none.2
      intro x hx
      have := hlt x hx
      simp only [beq_iff_eq]
      omega
    rw [this]
    simp

theorem byteOk_append_nocover {cs : List SChunk} {c : SChunk} {p b : Nat} (hnc : ¬ (c.off ≤ p ∧ p < c.off + c.size))
    (h : ByteOk (dataOf cs) (toC17 cs) p b) : ByteOk (dataOf (cs ++ [c])) (toC17 (cs ++ [c])) p b := by
  have hsub : ∀ x ∈ toC17 cs, x ∈ toC17 (cs ++ [c]) := by
    intro x hx
    obtain ⟨s, hs, rfl⟩ := List.mem_map.1 hx
    exact List.mem_map.2 ⟨s, List.mem_append_left _ hs, rfl⟩
  have hback : ∀ x ∈ toC17 (cs ++ [c]), covers x p → x ∈ toC17 cs := by
    intro x hx hcov
    obtain ⟨s, hs, rfl⟩ := List.mem_map.1 hx
    rcases List.mem_append.1 hs with hs | hs
    · exact List.mem_map.2 ⟨s, hs, rfl⟩
    · simp only [List.mem_singleton] at hs
      subst hs
      exact absurd hcov hnc
  rcases h with ⟨c0, hc0, rfl⟩ | ⟨hn, rfl⟩
  · left
    refine ⟨c0, ⟨hsub c0 hc0.1, hc0.2.1, fun c' hc' hcov => hc0.2.2 c' (hback c' hc' hcov) hcov⟩, ?_⟩
    obtain ⟨s, hs, rfl⟩ := List.mem_map.1 hc0.1
    exact (dataOf_append_left [c] ⟨s, hs, rfl⟩ _).symm
  · right
    exact ⟨fun x hx hcov => hn x (hback x hx hcov) hcov, rfl⟩

theorem byteOk_congr_data {data data' : Nat → Nat → Nat} {cs : List Chunk} {p b : Nat}
    (he : ∀ c ∈ cs, ∀ i, data c.fid i = data' c.fid i) (h : ByteOk data cs p b) : ByteOk data' cs p b := by
  rcases h with ⟨c0, hc0, rfl⟩ | ⟨hn, rfl⟩
  · exact Or.inl ⟨c0, hc0, he c0 hc0.1 _⟩
  · exact Or.inr ⟨hn, rfl⟩

/-- the chunk list `flush` keeps is C17's compacted list -/
theorem compact_filter (cs : List SChunk) :
    toC17 (cs.filter fun c => ((compact (toC17 cs)).1.map (·.fid)).contains c.mt) = (compact (toC17 cs)).1 := by
  have hc : ∃ F : List Nat, (compact (toC17 cs)).1 = (toC17 cs).filter (fun c => F.contains c.fid) := ⟨_, rfl⟩
  obtain ⟨F, hF⟩ := hc
  rw [hF, toC17_eq, toC17_eq, List.filter_map]
  congr 1
  apply List.filter_congr
  intro c hc
  show (List.map (·.fid) (List.map conv (List.filter ((fun c => F.contains c.fid) ∘ conv) cs))).contains c.mt
    = F.contains c.mt
  rw [Bool.eq_iff_iff]
  simp only [List.contains_eq_mem, decide_eq_true_eq]
  constructor
  · intro h
    obtain ⟨x, hx, he⟩ := List.mem_map.1 h
    obtain ⟨s, hs, rfl⟩ := List.mem_map.1 hx
    obtain ⟨_, hs2⟩ := List.mem_filter.1 hs
    simp only [Function.comp, decide_eq_true_eq] at hs2
    have he' : s.mt = c.mt := he
    rw [← he']
    exact hs2
  · intro h
    refine List.mem_map.2 ⟨conv c, List.mem_map.2 ⟨c, List.mem_filter.2 ⟨hc, ?_⟩, rfl⟩, rfl⟩
    simp only [Function.comp, decide_eq_true_eq]
    exact h

theorem mtDistinct_filter {cs : List SChunk} (hd : MtDistinct cs) (g : SChunk → Bool) : MtDistinct (cs.filter g) :=
  List.Pairwise.sublist List.filter_sublist hd

/-- CompactFileChunks as `flush` applies it keeps the content byte of every position below 2^63 -/
theorem byteOk_compact {cs : List SChunk} (hd : MtDistinct cs) {p b : Nat} (hp : p < maxInt64)
    (h : ByteOk (dataOf cs) (toC17 cs) p b) :
    ByteOk (dataOf (cs.filter fun c => ((compact (toC17 cs)).1.map (·.fid)).contains c.mt))
      (toC17 (cs.filter fun c => ((compact (toC17 cs)).1.map (·.fid)).contains c.mt)) p b := by
  have h1 := (SwV.Props.C17.compact_preserves (dataOf cs) (toC17 cs) (keysDistinct_toC17 hd) p hp b).2 h
  rw [← compact_filter] at h1
  apply byteOk_congr_data _ h1
  intro c hc i
  obtain ⟨s, hs, rfl⟩ := List.mem_map.1 hc
  show dataOf cs s.mt i = dataOf _ s.mt i
  rw [dataOf_mem hd (List.mem_filter.1 hs).1, dataOf_mem (mtDistinct_filter hd _) hs]

theorem extent_fold_le (l : List SChunk) (B : Nat) (h : ∀ c ∈ l, c.off + c.size ≤ B) : ∀ (init : Nat), init ≤ B →
    l.foldl (fun m c => max m (c.off + c.size)) init ≤ B := by
  induction l with
  | nil => intro init hi; simpa using hi
  | cons x xs ih =>
    intro init hi
    simp only [List.foldl_cons]
    have hx := h x (by simp)
    exact ih (fun c hc => h c (by simp [hc])) _ (by omega)

theorem extent_le (cs : List SChunk) (B : Nat) (h : ∀ c ∈ cs, c.off + c.size ≤ B) : extent cs ≤ B :=
  extent_fold_le cs B h 0 (Nat.zero_le _)

/-- a fresh reader of an entry whose every position p has the legal content byte f[p] reads exactly f -/
theorem resolve_eq {st : St} {f : File} (hd : MtDistinct st.chunks) (hfs : st.fileSize = f.length)
    (hin : ∀ c ∈ st.chunks, c.off + c.size ≤ st.fileSize) (hmax : f.length ≤ maxInt64)
    (hcontent : ∀ p, ByteOk (dataOf st.chunks) (toC17 st.chunks) p (f.getD p 0)) : resolve st = f := by
  have hext := extent_le st.chunks st.fileSize hin
  unfold resolve
  have htot : max (extent st.chunks) st.fileSize = f.length := by omega
  simp only [htot]
  by_cases h0 : f.length = 0
  · rw [if_pos h0]
    exact (List.length_eq_zero_iff.1 h0).symm
  · rw [if_neg h0]
    have hfs' : ∀ c ∈ SwV.Spec.C17.flatten ((toC17 st.chunks).map SwV.Model.C17.Node.data), c.off + c.size ≤ f.length := by
      rw [SwV.Props.C17.flatten_map_data]
      intro c hc
      obtain ⟨s, hs, rfl⟩ := List.mem_map.1 hc
      have := hin s hs
      show s.off + s.size ≤ _
      omega
    have h := SwV.Props.C17.readAt_eq_overlay_model (dataOf st.chunks) ((toC17 st.chunks).map SwV.Model.C17.Node.data)
      (SwV.Props.C17.wellFormed_map_data _) f.length hfs' hmax (List.replicate f.length 0) 0
    simp only [readAt, List.length_replicate, SwV.Props.C17.flatten_map_data] at h
    generalize readAcc (dataOf st.chunks) (viewFromChunks ((toC17 st.chunks).map SwV.Model.C17.Node.data) 0 maxInt64)
      f.length f.length 0 = r at h
    obtain ⟨h1, -, -, h4, -⟩ := h
    have hl : r.length = f.length := by omega
    apply List.ext_getElem?
    intro i
    by_cases hi : i < f.length
    · rw [getElem?_eq_some_getD r i 0 (by omega), getElem?_eq_some_getD f i 0 hi]
      congr 1
      have := h4 i (by omega)
      rw [List.getD_eq_getElem?_getD, List.getElem?_append_left (by omega)] at this
      rw [List.getD_eq_getElem?_getD]
      have h5 := hcontent i
      simp only [Nat.zero_add] at this
      exact SwV.Props.C17.byteOk_unique (dataOf st.chunks) (keysDistinct_toC17 hd) this h5
    · rw [List.getElem?_eq_none (by omega), List.getElem?_eq_none (by omega)]

/-! ### the open file: invariant of the state against the POSIX file -/

structure SInv (st : St) (f : File) : Prop where
  inv : LInv st.tk st.temp st.lists
  fs : st.fileSize = f.length
  dirtyIn : ∀ p b, dirtyByte st.tk st.temp st.lists p = some b → p < st.fileSize
  mtLt : ∀ c ∈ st.chunks, c.mt < st.nextMt
  mtD : MtDistinct st.chunks
  cin : ∀ c ∈ st.chunks, c.off + c.size ≤ st.fileSize
  dirty : ∀ p b, dirtyByte st.tk st.temp st.lists p = some b → f.getD p 0 = b
  clean : ∀ p, dirtyByte st.tk st.temp st.lists p = none → ByteOk (dataOf st.chunks) (toC17 st.chunks) p (f.getD p 0)
  tempOk : st.tk = true → st.hasTemp = false → st.lists = []
  lim : 0 < st.limit

/-- the fields the savers do not touch -/
def Same (st st' : St) : Prop :=
  st'.tk = st.tk ∧ st'.limit = st.limit ∧ st'.fileSize = st.fileSize ∧ st'.dirtyMeta = st.dirtyMeta ∧
  st'.hasTemp = st.hasTemp ∧ st'.temp = st.temp

theorem Same.refl (st : St) : Same st st := ⟨rfl, rfl, rfl, rfl, rfl, rfl⟩

theorem Same.trans {a b c : St} (h1 : Same a b) (h2 : Same b c) : Same a c :=
  ⟨h2.1.trans h1.1, h2.2.1.trans h1.2.1, h2.2.2.1.trans h1.2.2.1, h2.2.2.2.1.trans h1.2.2.2.1,
   h2.2.2.2.2.1.trans h1.2.2.2.2.1, h2.2.2.2.2.2.trans h1.2.2.2.2.2⟩

theorem dirtyByte_nil (tk : Bool) (temp : List Nat) (p : Nat) : dirtyByte tk temp [] p = none := rfl

theorem tailStop_le_of_dirtyIn {tk : Bool} {temp : List Nat} {lists : List LList} (h : LInv tk temp lists) {B : Nat}
    (hd : ∀ p b, dirtyByte tk temp lists p = some b → p < B) {l : LList} (hl : l ∈ lists) : tailStop l ≤ B := by
  have hok := h.1 l hl
  have hlt := hok.lt
  obtain ⟨x, hx, h1, h2⟩ := chained_cover l hok.2.2 (tailStop l - 1) (by omega) (by omega)
  have := hd (tailStop l - 1) _ ((dirtyByte_eq_some h _ _).2 ⟨l, hl, x, hx, h1, h2, rfl⟩)
  omega

/-- bytes of a whole list, position by position -/
theorem listBytes_spec {tk : Bool} {temp : List Nat} : ∀ (l : LList), ListOk tk temp l →
    (listBytes tk temp l).length = lsize l ∧
    ∀ p b, LHas tk temp l p b → (listBytes tk temp l).getD (p - headOff l) 0 = b
  | [], h => absurd rfl h.1
  | [t], h => by
    have ht := h.2.1 t (by simp)
    have e : listBytes tk temp [t] = nodeBytes tk temp t := by simp [listBytes]
    rw [e]
    refine ⟨?_, ?_⟩
    · rw [nodeBytes_length tk temp t ht]
      simp [lsize, headOff, tailStop_singleton]
    · rintro p b ⟨x, hx, h1, h2, rfl⟩
      simp only [List.mem_singleton] at hx
      subst hx
      rfl
  | t :: u :: r, h => by
    have hr := listOk_tail h
    obtain ⟨i1, i2⟩ := listBytes_spec (u :: r) hr
    have ht := h.2.1 t (by simp)
    have hlink : t.off + t.size = u.off := h.2.2.1
    have hlen := nodeBytes_length tk temp t ht
    have e : listBytes tk temp (t :: u :: r) = nodeBytes tk temp t ++ listBytes tk temp (u :: r) := by
      simp [listBytes]
    rw [e]
    have hlt := hr.lt
    have hsz := hr.lsize
    simp only [headOff_cons] at hlt hsz i2
    refine ⟨?_, ?_⟩
    · rw [List.length_append, hlen, i1]
      unfold lsize
      rw [tailStop_cons_cons]
      simp only [headOff_cons]
      unfold lsize at hsz
      omega
    · rintro p b ⟨x, hx, h1, h2, rfl⟩
      simp only [headOff_cons]
      rcases List.mem_cons.1 hx with rfl | hx
      · rw [List.getD_eq_getElem?_getD, List.getElem?_append_left (by rw [hlen]; omega)]
        unfold nodeByte
        rw [List.getD_eq_getElem?_getD]
      · have hb := hr.bounds x hx
        simp only [headOff_cons] at hb
        rw [List.getD_eq_getElem?_getD, List.getElem?_append_right (by rw [hlen]; omega), hlen,
          ← List.getD_eq_getElem?_getD]
        have := i2 p _ ⟨x, hx, h1, h2, rfl⟩
        rw [← this]
        congr 1
        omega

/-- one more chunk (with the next mtime) behind the entry's chunks, the dirty lists replaced by a part of them -/
theorem sinv_push {st st' : St} {f f' : File} (h : SInv st f) (c : SChunk) (hmt : c.mt = st.nextMt)
    (e1 : st'.tk = st.tk) (e2 : st'.temp = st.temp) (e3 : st'.chunks = st.chunks ++ [c]) (e4 : st'.nextMt = st.nextMt + 1)
    (e5 : st'.fileSize = st.fileSize) (e6 : st'.hasTemp = st.hasTemp) (e7 : st'.limit = st.limit)
    (hinv' : LInv st.tk st.temp st'.lists)
    (hfit : c.off + c.size ≤ st.fileSize) (hlen : f'.length = f.length)
    (hdin : ∀ p b, dirtyByte st.tk st.temp st'.lists p = some b → p < st.fileSize)
    (hdirty : ∀ p b, dirtyByte st.tk st.temp st'.lists p = some b → f'.getD p 0 = b)
    (hin : ∀ p, c.off ≤ p → p < c.off + c.size → dirtyByte st.tk st.temp st'.lists p = none →
      f'.getD p 0 = c.data.getD (p - c.off) 0)
    (hout : ∀ p, ¬ (c.off ≤ p ∧ p < c.off + c.size) → dirtyByte st.tk st.temp st'.lists p = none →
      ByteOk (dataOf st.chunks) (toC17 st.chunks) p (f'.getD p 0))
    (htemp : st.tk = true → st.hasTemp = false → st'.lists = []) : SInv st' f' := by
  have hlt : ∀ c' ∈ st.chunks, c'.mt < c.mt := fun c' hc' => by rw [hmt]; exact h.mtLt c' hc'
  refine ⟨by rw [e1, e2]; exact hinv', by rw [e5, hlen]; exact h.fs, ?_, ?_, ?_, ?_, ?_, ?_, ?_, by rw [e7]; exact h.lim⟩
  · rw [e1, e2, e5]; exact hdin
  · rw [e3, e4]
    intro c' hc'
    rcases List.mem_append.1 hc' with hc' | hc'
    · have := h.mtLt c' hc'; omega
    · simp only [List.mem_singleton] at hc'; subst hc'; omega
  · rw [e3]
    unfold MtDistinct
    rw [List.pairwise_append]
    refine ⟨h.mtD, by simp, ?_⟩
    intro a ha b hb
    simp only [List.mem_singleton] at hb
    subst hb
    have := hlt a ha
    omega
  · rw [e3, e5]
    intro c' hc'
    rcases List.mem_append.1 hc' with hc' | hc'
    · exact h.cin c' hc'
    · simp only [List.mem_singleton] at hc'; subst hc'; exact hfit
  · rw [e1, e2]; exact hdirty
  · rw [e1, e2, e3]
    intro p hp
    by_cases hc : c.off ≤ p ∧ p < c.off + c.size
    · rw [hin p hc.1 hc.2 hp]
      exact byteOk_append_cover hlt hc.1 hc.2
    · exact byteOk_append_nocover hc (hout p hc hp)
  · rw [e1, e6]; exact htemp

theorem saveLargest_sinv {st : St} {f : File} (h : SInv st f) :
    SInv (saveLargest st).1 f ∧ Same st (saveLargest st).1 ∧
    ((saveLargest st).2 = true → (saveLargest st).1.lists.length + 1 = st.lists.length) ∧
    ((saveLargest st).2 = false → (saveLargest st).1.lists = []) := by
  unfold saveLargest
  cases hr : removeLargest st.lists with
  | none =>
    have := (removeLargest_none_iff h.inv).1 hr
    exact ⟨h, Same.refl st, (fun hh => by cases hh), (fun _ => this)⟩
  | some lr =>
    obtain ⟨l, rest⟩ := lr
    obtain ⟨hl, hrest, hperm, _⟩ := removeLargest_spec h.inv hr
    have hlmem : l ∈ st.lists := hperm.mem_iff.2 (by simp)
    have htl := tailStop_le_of_dirtyIn h.inv h.dirtyIn hlmem
    have hsz := hl.lsize
    have hlt := hl.lt
    obtain ⟨b1, b2⟩ := listBytes_spec l hl
    have hcs : min (lsize l : Int) ((st.fileSize : Int) - (headOff l : Int)) = (lsize l : Int) := by omega
    have htake : (listBytes st.tk st.temp l).take (Int.toNat (lsize l : Int)) = listBytes st.tk st.temp l := by
      rw [Int.toNat_natCast, ← b1, List.take_length]
    simp only [hcs]
    rw [if_neg (by omega)]
    simp only [saveChunk, htake]
    have hlen : st.lists.length = rest.length + 1 := by rw [hperm.length_eq]; rfl
    have hsub : ∀ p b, dirtyByte st.tk st.temp rest p = some b → dirtyByte st.tk st.temp st.lists p = some b := by
      intro p b hb
      rw [dirtyByte_eq_some hrest] at hb
      rw [dirtyByte_eq_some h.inv, has_perm hperm, has_cons]
      exact Or.inr hb
    refine ⟨?_, ⟨rfl, rfl, rfl, rfl, rfl, rfl⟩, (fun _ => by show rest.length + 1 = st.lists.length; omega), (fun hh => by cases hh)⟩
    apply sinv_push h ⟨headOff l, (listBytes st.tk st.temp l).length, st.nextMt, listBytes st.tk st.temp l⟩ rfl <;>
      try rfl
    · exact hrest
    · show headOff l + (listBytes st.tk st.temp l).length ≤ st.fileSize
      rw [b1]; omega
    · intro p b hb; exact h.dirtyIn p b (hsub p b hb)
    · intro p b hb; exact h.dirty p b (hsub p b hb)
    · intro p h1 h2 _
      have h2' : p < headOff l + (listBytes st.tk st.temp l).length := h2
      rw [b1] at h2'
      have h1' : headOff l ≤ p := h1
      show f.getD p 0 = (listBytes st.tk st.temp l).getD (p - headOff l) 0
      obtain ⟨x, hx, c1, c2⟩ := chained_cover l hl.2.2 p h1' (by omega)
      have hh : LHas st.tk st.temp l p (nodeByte st.tk st.temp x p) := ⟨x, hx, c1, c2, rfl⟩
      rw [b2 p _ hh]
      exact h.dirty p _ ((dirtyByte_eq_some h.inv _ _).2 ⟨l, hlmem, hh⟩)
    · intro p hnc hp
      apply h.clean p
      rw [dirtyByte_eq_none] at hp ⊢
      intro l' hl' x hx hcov
      rcases List.mem_cons.1 (hperm.mem_iff.1 hl') with rfl | hl''
      · apply hnc
        have := hl.bounds x hx
        show headOff l' ≤ p ∧ p < headOff l' + (listBytes st.tk st.temp l').length
        rw [b1]
        omega
      · exact hp l' hl'' x hx hcov
    · intro h1 h2
      have := h.tempOk h1 h2
      rw [this] at hlmem
      cases hlmem

theorem saveAll_sinv {f : File} : ∀ (fuel : Nat) (st : St), SInv st f → st.lists.length < fuel →
    SInv (saveAll fuel st) f ∧ Same st (saveAll fuel st) ∧ (saveAll fuel st).lists = []
  | 0, st, _, hf => by omega
  | fuel + 1, st, h, hf => by
    obtain ⟨s1, s2, s3, s4⟩ := saveLargest_sinv h
    unfold saveAll
    simp only
    cases hm : (saveLargest st).2 with
    | false =>
      simp only [Bool.false_eq_true, if_false]
      exact ⟨s1, s2, s4 hm⟩
    | true =>
      simp only [if_true]
      have := s3 hm
      obtain ⟨i1, i2, i3⟩ := saveAll_sinv fuel (saveLargest st).1 s1 (by omega)
      exact ⟨i1, s2.trans i2, i3⟩

/-! ### FileHandle.Write -/

/-- FileSize = max(offset+len, FileSize): the POSIX file zero-extended -/
theorem sinv_extend {st : St} {f : File} (h : SInv st f) (n : Nat) :
    SInv { st with fileSize := max n st.fileSize, dirtyMeta := true } (f ++ List.replicate (n - f.length) 0) := by
  have hfs := h.fs
  refine ⟨h.inv, ?_, ?_, h.mtLt, h.mtD, ?_, ?_, ?_, h.tempOk, h.lim⟩
  · show max n st.fileSize = _
    rw [List.length_append, List.length_replicate]; omega
  · intro p b hb
    have := h.dirtyIn p b hb
    show p < max n st.fileSize
    omega
  · intro c hc
    have := h.cin c hc
    show c.off + c.size ≤ max n st.fileSize
    omega
  · intro p b hb
    rw [pad_getD]; exact h.dirty p b hb
  · intro p hp
    rw [pad_getD]; exact h.clean p hp

theorem sinv_add_mem {s : St} {g g' : File} (h : SInv s g) (htk : s.tk = false) (off : Nat) (d : List Nat) (hd : d ≠ [])
    (hfit : off + d.length ≤ s.fileSize) (hlen : g'.length = g.length)
    (hg : ∀ p, g'.getD p 0 = if off ≤ p ∧ p < off + d.length then d.getD (p - off) 0 else g.getD p 0) :
    SInv { s with lists := addInterval false s.lists { off := off, size := d.length, tmp := 0, data := d } } g' := by
  have hinv := h.inv
  rw [htk] at hinv
  have hn : NodeOk false s.temp { off := off, size := d.length, tmp := 0, data := d } :=
    ⟨List.length_pos_iff.2 hd, (fun _ => rfl), (fun hk => by cases hk)⟩
  obtain ⟨hinv', _⟩ := addInterval_spec hn s.lists hinv
  have hdb : ∀ p, dirtyByte s.tk s.temp (addInterval false s.lists { off := off, size := d.length, tmp := 0, data := d }) p =
      if off ≤ p ∧ p < off + d.length then some (d.getD (p - off) 0) else dirtyByte s.tk s.temp s.lists p := by
    intro p
    rw [htk]
    exact addInterval_dirtyByte hn s.lists hinv p
  refine ⟨?_, by show s.fileSize = _; rw [hlen]; exact h.fs, ?_, h.mtLt, h.mtD, h.cin, ?_, ?_, ?_, h.lim⟩
  · show LInv s.tk s.temp _
    rw [htk]; exact hinv'
  · intro p b hb
    have hb' : dirtyByte s.tk s.temp (addInterval false s.lists { off := off, size := d.length, tmp := 0, data := d }) p = some b := hb
    rw [hdb] at hb'
    show p < s.fileSize
    split at hb'
    · omega
    · exact h.dirtyIn p b hb'
  · intro p b hb
    have hb' : dirtyByte s.tk s.temp (addInterval false s.lists { off := off, size := d.length, tmp := 0, data := d }) p = some b := hb
    rw [hdb] at hb'
    rw [hg]
    split at hb'
    · rename_i hc
      rw [if_pos hc]
      exact Option.some.inj hb'
    · rename_i hc
      rw [if_neg hc]
      exact h.dirty p b hb'
  · intro p hp
    have hp' : dirtyByte s.tk s.temp (addInterval false s.lists { off := off, size := d.length, tmp := 0, data := d }) p = none := hp
    rw [hdb] at hp'
    rw [hg]
    split at hp'
    · cases hp'
    · rename_i hc
      rw [if_neg hc]
      exact h.clean p hp'
  · intro h1
    show s.hasTemp = false → _
    rw [htk] at h1; cases h1

/-- AddPage up to the auto-save: (a write longer than the limit: save everything, upload the data,) add the interval -/
def memStage2 (s : St) (off : Nat) (d : List Nat) : St :=
  let st1 := if d.length > s.limit then saveChunk (saveAll (s.lists.length + 1) s) d off d.length else s
  { st1 with lists := addInterval false st1.lists { off := off, size := d.length, tmp := 0, data := d } }

theorem memAddPage_eq (s : St) (off : Nat) (d : List Nat) : memAddPage s off d =
    if totalSize (memStage2 s off d).lists ≥ (memStage2 s off d).limit then (saveLargest (memStage2 s off d)).1
    else memStage2 s off d := rfl

theorem saveChunk_whole (st : St) (bytes : List Nat) (off : Nat) :
    saveChunk st bytes off (bytes.length : Int) =
      { st with chunks := st.chunks ++ [⟨off, bytes.length, st.nextMt, bytes⟩], nextMt := st.nextMt + 1 } := by
  unfold saveChunk
  simp only [Int.toNat_natCast, List.take_length]

theorem memAddPage_sinv {s : St} {g g' : File} (h : SInv s g) (htk : s.tk = false) (off : Nat) (d : List Nat) (hd : d ≠ [])
    (hfit : off + d.length ≤ s.fileSize) (hlen : g'.length = g.length)
    (hg : ∀ p, g'.getD p 0 = if off ≤ p ∧ p < off + d.length then d.getD (p - off) 0 else g.getD p 0) :
    SInv (memAddPage s off d) g' ∧ (memAddPage s off d).tk = s.tk ∧ (memAddPage s off d).limit = s.limit := by
  have h2 : SInv (memStage2 s off d) g' ∧ (memStage2 s off d).tk = s.tk ∧ (memStage2 s off d).limit = s.limit := by
    unfold memStage2
    by_cases hbig : d.length > s.limit
    · simp only [if_pos hbig]
      obtain ⟨a1, a2, a3⟩ := saveAll_sinv (f := g) (s.lists.length + 1) s h (by omega)
      generalize saveAll (s.lists.length + 1) s = sA at a1 a2 a3
      rw [saveChunk_whole]
      have hB : SInv { sA with chunks := sA.chunks ++ [⟨off, d.length, sA.nextMt, d⟩], nextMt := sA.nextMt + 1 } g' := by
        apply sinv_push a1 ⟨off, d.length, sA.nextMt, d⟩ rfl <;> try rfl
        case hinv' => exact a1.inv
        case hfit =>
          show off + d.length ≤ sA.fileSize
          rw [a2.2.2.1]; exact hfit
        case hlen => exact hlen
        case hdin =>
          intro p b hb
          have hb' : dirtyByte sA.tk sA.temp sA.lists p = some b := hb
          rw [a3] at hb'; cases hb'
        case hdirty =>
          intro p b hb
          have hb' : dirtyByte sA.tk sA.temp sA.lists p = some b := hb
          rw [a3] at hb'; cases hb'
        case hin =>
          intro p h1 h2 _
          have h1' : off ≤ p := h1
          have h2' : p < off + d.length := h2
          rw [hg, if_pos ⟨h1', h2'⟩]
        case hout =>
          intro p hnc hp
          have hnc' : ¬ (off ≤ p ∧ p < off + d.length) := hnc
          rw [hg, if_neg hnc']
          exact a1.clean p hp
        case htemp => exact a1.tempOk
      have hC := sinv_add_mem hB (by show sA.tk = false; rw [a2.1]; exact htk) off d hd
        (by show off + d.length ≤ sA.fileSize; rw [a2.2.2.1]; exact hfit) rfl
        (by intro p; rw [hg]; split <;> rfl)
      refine ⟨hC, ?_, ?_⟩
      · show sA.tk = s.tk; exact a2.1
      · show sA.limit = s.limit; exact a2.2.1
    · simp only [if_neg hbig]
      refine ⟨sinv_add_mem h htk off d hd hfit hlen hg, ?_, ?_⟩ <;> trivial
  rw [memAddPage_eq]
  split
  · obtain ⟨b1, b2, _, _⟩ := saveLargest_sinv h2.1
    exact ⟨b1, b2.1.trans h2.2.1, b2.2.1.trans h2.2.2⟩
  · exact h2

/-- TempFileDirtyPages.AddPage -/
theorem tmpAddPage_sinv {s : St} {g g' : File} (h : SInv s g) (htk : s.tk = true) (off : Nat) (d : List Nat) (hd : d ≠ [])
    (hfit : off + d.length ≤ s.fileSize) (hlen : g'.length = g.length)
    (hg : ∀ p, g'.getD p 0 = if off ≤ p ∧ p < off + d.length then d.getD (p - off) 0 else g.getD p 0) :
    SInv (tmpAddPage s off d) g' ∧ (tmpAddPage s off d).tk = s.tk ∧ (tmpAddPage s off d).limit = s.limit := by
  -- the state after the temp file has been (re)created
  have h1 : ∃ s1 : St, (if s.hasTemp then s else { s with hasTemp := true, temp := [] }) = s1 ∧ SInv s1 g ∧ s1.tk = true ∧
      s1.hasTemp = true ∧ s1.limit = s.limit ∧ s1.fileSize = s.fileSize := by
    by_cases hh : s.hasTemp = true
    · exact ⟨s, by rw [if_pos hh], h, htk, hh, rfl, rfl⟩
    · have hh' : s.hasTemp = false := by simpa using hh
      have hl := h.tempOk htk hh'
      refine ⟨{ s with hasTemp := true, temp := [] }, by rw [if_neg hh], ?_, htk, rfl, rfl, rfl⟩
      refine ⟨?_, h.fs, ?_, h.mtLt, h.mtD, h.cin, ?_, ?_, (fun _ hf => by cases hf), h.lim⟩
      · show LInv s.tk [] s.lists
        rw [hl]; exact linv_nil _ _
      · intro p b hb
        have hb' : dirtyByte s.tk [] s.lists p = some b := hb
        rw [hl] at hb'; cases hb'
      · intro p b hb
        have hb' : dirtyByte s.tk [] s.lists p = some b := hb
        rw [hl] at hb'; cases hb'
      · intro p _
        apply h.clean p
        rw [hl]; rfl
  obtain ⟨s1, e1, hs1, htk1, hht1, hlim1, hfs1⟩ := h1
  unfold tmpAddPage
  simp only [e1]
  have hinv := hs1.inv
  rw [htk1] at hinv
  have hinv2 := linv_temp_append d hinv
  have hn : NodeOk true (s1.temp ++ d) { off := off, size := d.length, tmp := s1.temp.length, data := [] } :=
    ⟨List.length_pos_iff.2 hd, (fun hk => by cases hk), (fun _ => by simp)⟩
  obtain ⟨hinv', _⟩ := addInterval_spec hn s1.lists hinv2
  have hb : (nodeBytes true (s1.temp ++ d) { off := off, size := d.length, tmp := s1.temp.length, data := [] }) = d := by
    simp [nodeBytes]
  have hdb : ∀ p, dirtyByte s1.tk (s1.temp ++ d)
      (addInterval true s1.lists { off := off, size := d.length, tmp := s1.temp.length, data := [] }) p =
      if off ≤ p ∧ p < off + d.length then some (d.getD (p - off) 0) else dirtyByte s1.tk s1.temp s1.lists p := by
    intro p
    rw [htk1, addInterval_dirtyByte hn s1.lists hinv2 p, dirtyByte_temp_append d hinv, hb]
  refine ⟨⟨?_, by show s1.fileSize = _; rw [hlen]; exact hs1.fs, ?_, hs1.mtLt, hs1.mtD, hs1.cin, ?_, ?_, ?_, hs1.lim⟩,
    htk1.trans htk.symm, hlim1⟩
  · show LInv s1.tk (s1.temp ++ d) _
    rw [htk1]; exact hinv'
  · intro p b hb
    have hb' : dirtyByte s1.tk (s1.temp ++ d)
      (addInterval true s1.lists { off := off, size := d.length, tmp := s1.temp.length, data := [] }) p = some b := hb
    rw [hdb] at hb'
    show p < s1.fileSize
    split at hb'
    · omega
    · exact hs1.dirtyIn p b hb'
  · intro p b hb
    have hb' : dirtyByte s1.tk (s1.temp ++ d)
      (addInterval true s1.lists { off := off, size := d.length, tmp := s1.temp.length, data := [] }) p = some b := hb
    rw [hdb] at hb'
    rw [hg]
    split at hb'
    · rename_i hc
      rw [if_pos hc]
      exact Option.some.inj hb'
    · rename_i hc
      rw [if_neg hc]
      exact hs1.dirty p b hb'
  · intro p hp
    have hp' : dirtyByte s1.tk (s1.temp ++ d)
      (addInterval true s1.lists { off := off, size := d.length, tmp := s1.temp.length, data := [] }) p = none := hp
    rw [hdb] at hp'
    rw [hg]
    split at hp'
    · cases hp'
    · rename_i hc
      rw [if_neg hc]
      exact hs1.clean p hp'
  · intro _ hf
    have hf' : s1.hasTemp = false := hf
    rw [hht1] at hf'; cases hf'

/-- FileHandle.Write against POSIX pwrite, both buffers -/
theorem write_sinv {st : St} {f : File} (h : SInv st f) (off : Nat) (d : List Nat) (hd : d ≠ []) :
    SInv (write st off d) (pwrite f off d) ∧ (write st off d).tk = st.tk ∧ (write st off d).limit = st.limit := by
  have h0 := sinv_extend h (off + d.length)
  have hlen : (pwrite f off d).length = (f ++ List.replicate (off + d.length - f.length) 0).length := by
    rw [pwrite_length f off d hd, List.length_append, List.length_replicate]; omega
  have hg : ∀ p, (pwrite f off d).getD p 0 =
      if off ≤ p ∧ p < off + d.length then d.getD (p - off) 0 else (f ++ List.replicate (off + d.length - f.length) 0).getD p 0 := by
    intro p
    rw [pwrite_getD f off d hd p, pad_getD]
  have hfit : off + d.length ≤ ({ st with fileSize := max (off + d.length) st.fileSize, dirtyMeta := true } : St).fileSize := by
    show off + d.length ≤ max (off + d.length) st.fileSize
    omega
  unfold write
  by_cases htk : st.tk = true
  · simp only [if_pos htk]
    exact tmpAddPage_sinv h0 htk off d hd hfit hlen hg
  · have htk' : st.tk = false := by simpa using htk
    simp only [if_neg htk]
    exact memAddPage_sinv h0 htk' off d hd hfit hlen hg

/-! ### FileHandle.doFlush -/

/-- the part of doFlush behind FlushData: CompactFileChunks + the entry goes to the filer -/
def flushTail (st1 : St) : St × Option (List SChunk) :=
  if st1.dirtyMeta then
    let keep := (SwV.Model.C17.compact (toC17 st1.chunks)).1.map (·.fid)
    let cs := st1.chunks.filter fun c => keep.contains c.mt
    ({ st1 with chunks := cs, dirtyMeta := false }, some cs)
  else (st1, none)

theorem flush_eq (st : St) :
    flush st = flushTail (if st.tk then tmpFlush st else saveAll (st.lists.length + 1) st) := rfl

theorem flushTail_sinv {st1 : St} {f : File} (h : SInv st1 f) (hmax : f.length ≤ maxInt64) :
    SInv (flushTail st1).1 f ∧ (flushTail st1).1.lists = st1.lists ∧ (flushTail st1).1.tk = st1.tk ∧
      (flushTail st1).1.limit = st1.limit := by
  unfold flushTail
  by_cases hdm : st1.dirtyMeta = true
  · rw [if_pos hdm]
    refine ⟨?_, rfl, rfl, rfl⟩
    refine ⟨h.inv, h.fs, h.dirtyIn, ?_, mtDistinct_filter h.mtD _, ?_, h.dirty, ?_, h.tempOk, h.lim⟩
    · intro c hc
      exact h.mtLt c (List.mem_filter.1 hc).1
    · intro c hc
      exact h.cin c (List.mem_filter.1 hc).1
    · intro p hp
      have hold := h.clean p hp
      by_cases hpm : p < maxInt64
      · exact byteOk_compact h.mtD hpm hold
      · right
        refine ⟨?_, ?_⟩
        · intro c hc hcov
          obtain ⟨s, hs, rfl⟩ := List.mem_map.1 hc
          have := h.cin s (List.mem_filter.1 hs).1
          have hfs := h.fs
          have hcov' : s.off ≤ p ∧ p < s.off + s.size := hcov
          omega
        · rw [List.getD_eq_getElem?_getD, List.getElem?_eq_none (by omega)]
          rfl
  · rw [if_neg hdm]
    exact ⟨h, rfl, rfl, rfl⟩

theorem flush_sinv_mem {st : St} {f : File} (h : SInv st f) (htk : st.tk = false) (hmax : f.length ≤ maxInt64) :
    SInv (flush st).1 f ∧ (flush st).1.lists = [] ∧ (flush st).1.tk = st.tk ∧ (flush st).1.limit = st.limit := by
  rw [flush_eq]
  have hif : (if st.tk = true then tmpFlush st else saveAll (st.lists.length + 1) st) = saveAll (st.lists.length + 1) st := by
    rw [if_neg (by rw [htk]; decide)]
  rw [hif]
  obtain ⟨a1, a2, a3⟩ := saveAll_sinv (f := f) (st.lists.length + 1) st h (by omega)
  obtain ⟨b1, b2, b3, b4⟩ := flushTail_sinv a1 hmax
  exact ⟨b1, b2.trans a3, b3.trans a2.1, b4.trans a2.2.1⟩

/-- a flushed entry read back by a fresh reader -/
theorem resolve_of_sinv {st : St} {f : File} (h : SInv st f) (hl : st.lists = []) (hmax : f.length ≤ maxInt64) :
    resolve st = f :=
  resolve_eq h.mtD h.fs h.cin hmax (fun p => h.clean p (by rw [hl]; rfl))

theorem sinv_init (tk : Bool) (limit : Nat) (hl : 0 < limit) : SInv { tk := tk, limit := limit } [] := by
  refine ⟨linv_nil _ _, rfl, ?_, ?_, List.Pairwise.nil, ?_, ?_, ?_, (fun _ _ => rfl), hl⟩
  · intro p b hb; cases hb
  · intro c hc; cases hc
  · intro c hc; cases hc
  · intro p b hb; cases hb
  · intro p _
    right
    exact ⟨(fun c hc => by cases hc), rfl⟩

/-! ### TempFileDirtyPages.FlushData -/

/-- what one node contributes to ToReader(start, stop) -/
def piece (temp : List Nat) (start stop : Nat) (t : Node) : List Nat :=
  let s := max t.off start
  let e := min (t.off + t.size) stop
  if s < e then (temp.drop (s - t.off + t.tmp)).take (e - s) else []

theorem sectionBytes_cons (temp : List Nat) (t : Node) (l : LList) (start stop : Nat) :
    sectionBytes temp (t :: l) start stop = piece temp start stop t ++ sectionBytes temp l start stop := by
  simp only [sectionBytes, List.flatMap_cons, piece]

theorem piece_spec {temp : List Nat} {t : Node} (ht : NodeOk true temp t) (start stop : Nat) :
    (piece temp start stop t).length = min (t.off + t.size) stop - max t.off start ∧
    ∀ p, max t.off start ≤ p → p < min (t.off + t.size) stop →
      (piece temp start stop t).getD (p - max t.off start) 0 = nodeByte true temp t p := by
  have hin := ht.2.2 rfl
  unfold piece
  by_cases hc : max t.off start < min (t.off + t.size) stop
  · simp only [if_pos hc]
    refine ⟨by rw [List.length_take, List.length_drop]; omega, ?_⟩
    intro p h1 h2
    unfold nodeByte
    rw [nodeBytes_getD true temp t ht _ (by omega)]
    simp only [if_true, List.getD_eq_getElem?_getD, List.getElem?_take, List.getElem?_drop]
    rw [if_pos (by omega)]
    congr 2
    omega
  · simp only [if_neg hc]
    refine ⟨by simp; omega, ?_⟩
    intro p h1 h2
    omega

theorem sectionBytes_spec {temp : List Nat} : ∀ (l : LList), ListOk true temp l → ∀ (start stop : Nat),
    (sectionBytes temp l start stop).length = min stop (tailStop l) - max start (headOff l) ∧
    ∀ p b, start ≤ p → p < stop → LHas true temp l p b →
      (sectionBytes temp l start stop).getD (p - max start (headOff l)) 0 = b
  | [], h, _, _ => absurd rfl h.1
  | [t], h, start, stop => by
    have ht := h.2.1 t (by simp)
    obtain ⟨p1, p2⟩ := piece_spec ht start stop
    have e : sectionBytes temp [t] start stop = piece temp start stop t := by
      rw [sectionBytes_cons]; simp [sectionBytes]
    rw [e, tailStop_singleton, headOff_cons]
    refine ⟨by rw [p1]; omega, ?_⟩
    rintro p b hs he ⟨x, hx, h1, h2, rfl⟩
    simp only [List.mem_singleton] at hx
    subst hx
    have := p2 p (by omega) (by omega)
    rw [← this]
    congr 1
    omega
  | t :: u :: r, h, start, stop => by
    have hr := listOk_tail h
    obtain ⟨i1, i2⟩ := sectionBytes_spec (u :: r) hr start stop
    have ht := h.2.1 t (by simp)
    have htp := ht.1
    have hlink : t.off + t.size = u.off := h.2.2.1
    obtain ⟨p1, p2⟩ := piece_spec ht start stop
    have hlt := hr.lt
    simp only [headOff_cons] at hlt i1 i2
    rw [sectionBytes_cons, tailStop_cons_cons, headOff_cons]
    refine ⟨by rw [List.length_append, p1, i1]; omega, ?_⟩
    rintro p b hs he ⟨x, hx, h1, h2, rfl⟩
    rcases List.mem_cons.1 hx with rfl | hx
    · rw [List.getD_eq_getElem?_getD, List.getElem?_append_left (by rw [p1]; omega), ← List.getD_eq_getElem?_getD]
      have := p2 p (by omega) (by omega)
      rw [← this]
      congr 1
      omega
    · have hb := hr.bounds x hx
      simp only [headOff_cons] at hb
      rw [List.getD_eq_getElem?_getD, List.getElem?_append_right (by rw [p1]; omega), p1, ← List.getD_eq_getElem?_getD]
      have := i2 p _ hs he ⟨x, hx, h1, h2, rfl⟩
      rw [← this]
      congr 1
      omega

/-- the state invariant while a flush is under way: the positions in `S` are already saved -/
structure PInv (st : St) (f : File) (S : Nat → Prop) : Prop where
  inv : LInv st.tk st.temp st.lists
  fs : st.fileSize = f.length
  dirtyIn : ∀ p b, dirtyByte st.tk st.temp st.lists p = some b → p < st.fileSize
  mtLt : ∀ c ∈ st.chunks, c.mt < st.nextMt
  mtD : MtDistinct st.chunks
  cin : ∀ c ∈ st.chunks, c.off + c.size ≤ st.fileSize
  dirty : ∀ p b, dirtyByte st.tk st.temp st.lists p = some b → f.getD p 0 = b
  clean : ∀ p, (dirtyByte st.tk st.temp st.lists p = none ∨ S p) →
    ByteOk (dataOf st.chunks) (toC17 st.chunks) p (f.getD p 0)
  tempOk : st.tk = true → st.hasTemp = false → st.lists = []
  lim : 0 < st.limit

theorem SInv.toPInv {st : St} {f : File} (h : SInv st f) : PInv st f (fun _ => False) :=
  ⟨h.inv, h.fs, h.dirtyIn, h.mtLt, h.mtD, h.cin, h.dirty,
   (fun p hp => h.clean p (by rcases hp with hp | hp; exact hp; exact hp.elim)), h.tempOk, h.lim⟩

/-- fields the temp-file saver does not touch -/
def Same2 (st st' : St) : Prop :=
  st'.tk = st.tk ∧ st'.limit = st.limit ∧ st'.fileSize = st.fileSize ∧ st'.dirtyMeta = st.dirtyMeta ∧
  st'.hasTemp = st.hasTemp ∧ st'.temp = st.temp ∧ st'.lists = st.lists

theorem Same2.refl (st : St) : Same2 st st := ⟨rfl, rfl, rfl, rfl, rfl, rfl, rfl⟩

theorem Same2.trans {a b c : St} (h1 : Same2 a b) (h2 : Same2 b c) : Same2 a c :=
  ⟨h2.1.trans h1.1, h2.2.1.trans h1.2.1, h2.2.2.1.trans h1.2.2.1, h2.2.2.2.1.trans h1.2.2.2.1,
   h2.2.2.2.2.1.trans h1.2.2.2.2.1, h2.2.2.2.2.2.1.trans h1.2.2.2.2.2.1, h2.2.2.2.2.2.2.trans h1.2.2.2.2.2.2⟩

/-- one more chunk showing the file's bytes: its positions are saved -/
theorem pinv_push {st : St} {f : File} {S : Nat → Prop} (h : PInv st f S) (c : SChunk) (hmt : c.mt = st.nextMt)
    (hfit : c.off + c.size ≤ st.fileSize)
    (hin : ∀ p, c.off ≤ p → p < c.off + c.size → f.getD p 0 = c.data.getD (p - c.off) 0) :
    PInv { st with chunks := st.chunks ++ [c], nextMt := st.nextMt + 1 } f (fun p => S p ∨ (c.off ≤ p ∧ p < c.off + c.size)) := by
  have hlt : ∀ c' ∈ st.chunks, c'.mt < c.mt := fun c' hc' => by rw [hmt]; exact h.mtLt c' hc'
  refine ⟨h.inv, h.fs, h.dirtyIn, ?_, ?_, ?_, h.dirty, ?_, h.tempOk, h.lim⟩
  · intro c' hc'
    show c'.mt < st.nextMt + 1
    rcases List.mem_append.1 hc' with hc' | hc'
    · have := h.mtLt c' hc'; omega
    · simp only [List.mem_singleton] at hc'; subst hc'; omega
  · show MtDistinct (st.chunks ++ [c])
    unfold MtDistinct
    rw [List.pairwise_append]
    refine ⟨h.mtD, by simp, ?_⟩
    intro a ha b hb
    simp only [List.mem_singleton] at hb
    subst hb
    have := hlt a ha
    omega
  · intro c' hc'
    rcases List.mem_append.1 hc' with hc' | hc'
    · exact h.cin c' hc'
    · simp only [List.mem_singleton] at hc'; subst hc'; exact hfit
  · intro p hp
    show ByteOk (dataOf (st.chunks ++ [c])) (toC17 (st.chunks ++ [c])) p (f.getD p 0)
    by_cases hc : c.off ≤ p ∧ p < c.off + c.size
    · rw [hin p hc.1 hc.2]
      exact byteOk_append_cover hlt hc.1 hc.2
    · apply byteOk_append_nocover hc
      apply h.clean p
      rcases hp with hp | hp | hp
      · exact Or.inl hp
      · exact Or.inr hp
      · exact absurd hp hc

theorem tmpSaveList_pinv {f : File} {l : LList} {L : Nat} (hL : 0 < L) : ∀ (fuel up : Nat) (s : St) (S : Nat → Prop),
    PInv s f S → l ∈ s.lists → s.tk = true → s.limit = L →
    (∀ p, headOff l ≤ p → p < tailStop l → p < up → S p) → tailStop l / L + 2 ≤ up / L + fuel →
    ∃ S', PInv (tmpSaveList l fuel up s) f S' ∧ (∀ p, S p → S' p) ∧ (∀ p, headOff l ≤ p → p < tailStop l → S' p) ∧
      Same2 s (tmpSaveList l fuel up s)
  | 0, up, s, S, h, _, _, _, hS, hfuel => by
    refine ⟨S, h, fun _ hp => hp, ?_, Same2.refl s⟩
    intro p h1 h2
    have : tailStop l / L < up / L := by omega
    have := Nat.lt_of_div_lt_div this
    exact hS p h1 h2 (by omega)
  | fuel + 1, up, s, S, h, hl, htk, hlim, hS, hfuel => by
    have hinv := h.inv
    rw [htk] at hinv
    have hok := hinv.1 l hl
    have hsz := hok.lsize
    have hlt := hok.lt
    unfold tmpSaveList
    simp only [hsz]
    by_cases hup : up < tailStop l
    · rw [if_pos hup]
      have hfuel' : tailStop l / L + 2 ≤ (up + L) / L + fuel := by
        rw [Nat.add_div_right up hL]; omega
      by_cases hc : max (headOff l) up < min (tailStop l) (up + s.limit)
      · rw [if_pos hc]
        obtain ⟨b1, b2⟩ := sectionBytes_spec l hok (max (headOff l) up) (min (tailStop l) (up + s.limit))
        generalize sectionBytes s.temp l (max (headOff l) up) (min (tailStop l) (up + s.limit)) = B at b1 b2 ⊢
        have hblen : B.length = min (tailStop l) (up + s.limit) - max (headOff l) up := by rw [b1]; omega
        have htake : B.take
            (Int.toNat (((min (tailStop l) (up + s.limit) : Nat) : Int) - ((max (headOff l) up : Nat) : Int))) = B := by
          apply List.take_of_length_le
          rw [hblen]; omega
        simp only [saveChunk, htake]
        have htl := tailStop_le_of_dirtyIn (tk := true) (by have := h.inv; rw [htk] at this; exact this)
          (by have := h.dirtyIn; rw [htk] at this; exact this) hl
        have hP := pinv_push h ⟨max (headOff l) up, B.length, s.nextMt, B⟩ rfl
          (by show max (headOff l) up + B.length ≤ s.fileSize; rw [hblen]; omega)
          (by
            intro p h1 h2
            have h1' : max (headOff l) up ≤ p := h1
            have h2' : p < max (headOff l) up + B.length := h2
            rw [hblen] at h2'
            show f.getD p 0 = B.getD (p - max (headOff l) up) 0
            obtain ⟨x, hx, c1, c2⟩ := chained_cover l hok.2.2 p (by omega) (by omega)
            have hh : LHas true s.temp l p (nodeByte true s.temp x p) := ⟨x, hx, c1, c2, rfl⟩
            have := b2 p _ h1' (by omega) hh
            have hmx : max (max (headOff l) up) (headOff l) = max (headOff l) up := by omega
            rw [hmx] at this
            rw [this]
            have hd := h.dirty p (nodeByte true s.temp x p)
            rw [htk] at hd
            exact hd ((dirtyByte_eq_some hinv _ _).2 ⟨l, hl, hh⟩))
        obtain ⟨S', q1, q2, q3, q4⟩ := tmpSaveList_pinv hL fuel (up + s.limit) _ _ hP hl htk hlim
          (by
            intro p h1 h2 h3
            by_cases hpu : p < up
            · exact Or.inl (hS p h1 h2 hpu)
            · right
              show max (headOff l) up ≤ p ∧ p < max (headOff l) up + B.length
              rw [hblen]
              omega)
          (by rw [hlim]; exact hfuel')
        exact ⟨S', q1, fun p hp => q2 p (Or.inl hp), q3, Same2.trans ⟨rfl, rfl, rfl, rfl, rfl, rfl, rfl⟩ q4⟩
      · rw [if_neg hc]
        obtain ⟨S', q1, q2, q3, q4⟩ := tmpSaveList_pinv hL fuel (up + s.limit) s S h hl htk hlim
          (by
            intro p h1 h2 h3
            have := h.lim
            exact hS p h1 h2 (by omega))
          (by rw [hlim]; exact hfuel')
        exact ⟨S', q1, q2, q3, q4⟩
    · rw [if_neg hup]
      exact ⟨S, h, fun _ hp => hp, fun p h1 h2 => hS p h1 h2 (by omega), Same2.refl s⟩

/-- the page loop of one list, as `tmpFlush` calls it -/
def tstep (s : St) (l : LList) : St := tmpSaveList l ((headOff l + lsize l) / (max s.limit 1) + 2) 0 s

theorem tmpFlush_eq (st : St) : tmpFlush st =
    if (st.lists.foldl tstep st).hasTemp then { (st.lists.foldl tstep st) with lists := [], hasTemp := false, temp := [] }
    else st.lists.foldl tstep st := rfl

theorem tmpFold_pinv {f : File} : ∀ (ls : List LList) (s : St) (S : Nat → Prop), PInv s f S → (∀ l ∈ ls, l ∈ s.lists) →
    s.tk = true →
    ∃ S', PInv (ls.foldl tstep s) f S' ∧ (∀ p, S p → S' p) ∧
      (∀ l ∈ ls, ∀ p, headOff l ≤ p → p < tailStop l → S' p) ∧ Same2 s (ls.foldl tstep s)
  | [], s, S, h, _, _ => ⟨S, h, fun _ hp => hp, by simp, Same2.refl s⟩
  | l :: ls, s, S, h, hsub, htk => by
    have hl := hsub l (by simp)
    have hinv := h.inv
    rw [htk] at hinv
    have hok := hinv.1 l hl
    have hlim := h.lim
    have hmax : max s.limit 1 = s.limit := by omega
    obtain ⟨S1, a1, a2, a3, a4⟩ := tmpSaveList_pinv (f := f) (l := l) hlim ((headOff l + lsize l) / (max s.limit 1) + 2) 0 s S
      h hl htk rfl (by intro p _ _ h3; omega) (by rw [hmax, hok.lsize, Nat.zero_div]; omega)
    obtain ⟨S2, b1, b2, b3, b4⟩ := tmpFold_pinv ls (tstep s l) S1 a1
      (fun l' hl' => by
        show l' ∈ (tmpSaveList l ((headOff l + lsize l) / (max s.limit 1) + 2) 0 s).lists
        rw [a4.2.2.2.2.2.2]; exact hsub l' (List.mem_cons_of_mem _ hl'))
      (a4.1.trans htk)
    rw [List.foldl_cons]
    refine ⟨S2, b1, fun p hp => b2 p (a2 p hp), ?_, Same2.trans a4 b4⟩
    intro l' hl' p h1 h2
    rcases List.mem_cons.1 hl' with rfl | hl'
    · exact b2 p (a3 p h1 h2)
    · exact b3 l' hl' p h1 h2

theorem tmpFlush_sinv {st : St} {f : File} (h : SInv st f) (htk : st.tk = true) :
    SInv (tmpFlush st) f ∧ (tmpFlush st).lists = [] ∧ (tmpFlush st).tk = st.tk ∧ (tmpFlush st).limit = st.limit ∧
      (tmpFlush st).dirtyMeta = st.dirtyMeta := by
  obtain ⟨S', a1, _, a3, a4⟩ := tmpFold_pinv st.lists st _ h.toPInv (fun l hl => hl) htk
  rw [tmpFlush_eq]
  generalize st.lists.foldl tstep st = st1 at a1 a4
  have hsaved : ∀ p b, dirtyByte st1.tk st1.temp st1.lists p = some b → S' p := by
    intro p b hb
    have hinv := a1.inv
    obtain ⟨l, hl, hh⟩ := (dirtyByte_eq_some hinv _ _).1 hb
    have hr := lhas_range (hinv.1 l hl) hh
    exact a3 l (by rw [← a4.2.2.2.2.2.2]; exact hl) p hr.1 hr.2
  by_cases hht : st1.hasTemp = true
  · rw [if_pos hht]
    refine ⟨⟨linv_nil _ _, a1.fs, ?_, a1.mtLt, a1.mtD, a1.cin, ?_, ?_, (fun _ _ => rfl), a1.lim⟩,
      rfl, a4.1, a4.2.1, a4.2.2.2.1⟩
    · intro p b hb; cases hb
    · intro p b hb; cases hb
    · intro p _
      apply a1.clean p
      cases hd : dirtyByte st1.tk st1.temp st1.lists p with
      | none => exact Or.inl rfl
      | some b => exact Or.inr (hsaved p b hd)
  · rw [if_neg hht]
    have hht' : st1.hasTemp = false := by simpa using hht
    have hl := a1.tempOk (a4.1.trans htk) hht'
    exact ⟨⟨a1.inv, a1.fs, a1.dirtyIn, a1.mtLt, a1.mtD, a1.cin, a1.dirty, (fun p hp => a1.clean p (Or.inl hp)),
      a1.tempOk, a1.lim⟩, hl, a4.1, a4.2.1, a4.2.2.2.1⟩

/-- doFlush, both buffers: the invariant survives and no dirty page is left -/
theorem flush_sinv {st : St} {f : File} (h : SInv st f) (hmax : f.length ≤ maxInt64) :
    SInv (flush st).1 f ∧ (flush st).1.lists = [] ∧ (flush st).1.tk = st.tk ∧ (flush st).1.limit = st.limit := by
  by_cases htk : st.tk = true
  · rw [flush_eq, if_pos htk]
    obtain ⟨a1, a2, a3, a4, _⟩ := tmpFlush_sinv h htk
    obtain ⟨b1, b2, b3, b4⟩ := flushTail_sinv a1 hmax
    exact ⟨b1, b2.trans a2, b3.trans a3, b4.trans a4⟩
  · exact flush_sinv_mem h (by simpa using htk) hmax

end SwV.Lemmas.C30
