/-
C20 — chunk GC in the world WITH hard links: what every live name shows (`Shows`), ownership
(`ExclL`: a chunk is shown by one plain name or by the names of one link identity), and the four
state transitions of the operations that are not recorded findings: put a plain entry, write through
a linked name, link, remove one name.
-/
import SwV.Model.C18
import SwV.Lemmas.C18
import SwV.Lemmas.C20
import SwV.Lemmas.C21
namespace SwV.Lemmas.C20Links
open SwV.Model.C18 SwV.Lemmas.C18 SwV.Lemmas.C20 SwV.Lemmas.C21

/-- the stored name p carries link identity k (0 = plain) and shows the chunk list cs through FindEntry:
    its own chunks when plain, the chunks of the identity's record when linked -/
def Shows (s : St) (p : RPath) (k : Nat) (cs : List Nat) : Prop :=
  ∃ e, (p, e) ∈ s.ents ∧ e.hl = k ∧ ((k = 0 ∧ cs = e.chunks) ∨ (k ≠ 0 ∧ ∃ r, kvGet s k = some r ∧ cs = r.chunks))

def RefS (s : St) (c : Nat) : Prop := ∃ p k cs, Shows s p k cs ∧ c ∈ cs

theorem shows_fun {s : St} (inv : TreeInv s) {p : RPath} {k k' : Nat} {cs cs' : List Nat}
    (h : Shows s p k cs) (h' : Shows s p k' cs') : k = k' ∧ cs = cs' := by
  rcases h with ⟨e, hm, hk, hc⟩
  rcases h' with ⟨e', hm', hk', hc'⟩
  have := mem_unique inv.nodup hm hm'
  subst this
  have hkk : k = k' := hk.symm.trans hk'
  subst hkk
  refine ⟨rfl, ?_⟩
  rcases hc with ⟨h0, rfl⟩ | ⟨h0, r, hr, rfl⟩
  · rcases hc' with ⟨_, rfl⟩ | ⟨h1, _⟩
    · rfl
    · exact absurd h0 h1
  · rcases hc' with ⟨h1, _⟩ | ⟨_, r', hr', rfl⟩
    · exact absurd h1 h0
    · rw [hr] at hr'; cases hr'; rfl

/-- with consistent identities, "referenced by a live name" (through FindEntry) is "shown by a stored name" -/
theorem referenced_shows {s : St} (inv : TreeInv s) (c : ConsAll s) (ch : Nat) : Referenced s ch ↔ RefS s ch := by
  constructor
  · rintro ⟨p, e, v, hm, hf, hc⟩
    have FC := find_of_cons inv hm
    by_cases h0 : e.hl = 0
    · have := FC.1 h0
      rw [hf] at this
      rw [Option.some.inj this] at hc
      exact ⟨p, 0, e.chunks, ⟨e, hm, h0, Or.inl ⟨rfl, rfl⟩⟩, hc⟩
    · rcases FC.2 h0 (c _ h0) with ⟨r, hg, hfr, _⟩
      rw [hf] at hfr
      cases hfr
      exact ⟨p, e.hl, v.chunks, ⟨e, hm, rfl, Or.inr ⟨h0, v, hg, rfl⟩⟩, hc⟩
  · rintro ⟨p, k, cs, ⟨e, hm, hk, hcs⟩, hc⟩
    have FC := find_of_cons inv hm
    rcases hcs with ⟨h0, rfl⟩ | ⟨h0, r, hr, rfl⟩
    · exact ⟨p, e, e, hm, FC.1 (hk.trans h0), hc⟩
    · subst hk
      rcases FC.2 h0 (c _ h0) with ⟨r', hg, hfr, _⟩
      rw [hr] at hg
      cases hg
      exact ⟨p, e, r, hm, hfr, hc⟩

/-- ownership: two names that are not names of one link identity never show the same chunk -/
def ExclL (s : St) : Prop :=
  ∀ p q k k' cs cs', Shows s p k cs → Shows s q k' cs' → p ≠ q → ¬ (k ≠ 0 ∧ k = k') → ∀ c ∈ cs, c ∉ cs'

/-- client contract for new content written at / through the name p: its chunks are shown by no name of ANOTHER owner
    (it may share chunks with the old version: append, partial rewrite) -/
def FreshL (s : St) (p : RPath) (new : List Nat) : Prop :=
  ∀ q k' cs', Shows s q k' cs' → q ≠ p → (∀ kp csp, Shows s p kp csp → ¬ (kp ≠ 0 ∧ kp = k')) → ∀ c ∈ new, c ∉ cs'

/-- the three obligations of one step on the `Shows` level -/
def GcS (s s' : St) (E : List Nat) (req : Bool) : Prop :=
  ExclL s' ∧ (∀ c ∈ E, ¬ RefS s' c) ∧ (req = true → ∀ c, RefS s c → ¬ RefS s' c → c ∈ E)

theorem gcS_refl {s : St} (ex : ExclL s) (req : Bool) : GcS s s [] req :=
  ⟨ex, by simp, fun _ c h h' => absurd h h'⟩

/-! ### the four transitions, abstractly -/

/-- a plain entry with chunks `new` is put at p (absent, or a plain name) -/
theorem gc_put {s s' : St} (ex : ExclL s) {p : RPath} {new E : List Nat}
    (tr : ∀ q k cs, Shows s' q k cs ↔ (q = p ∧ k = 0 ∧ cs = new) ∨ (q ≠ p ∧ Shows s q k cs))
    (hplain : ∀ k cs, Shows s p k cs → k = 0)
    (fr : FreshL s p new)
    (hE : ∀ c, c ∈ E ↔ ∃ cs, Shows s p 0 cs ∧ c ∈ cs ∧ c ∉ new) (req : Bool) : GcS s s' E req := by
  have frp : ∀ kp csp k', Shows s p kp csp → ¬ (kp ≠ 0 ∧ kp = k') := by
    intro kp csp k' hp h
    exact h.1 (hplain kp csp hp)
  refine ⟨?_, ?_, ?_⟩
  · intro a b k k' cs cs' ha hb hne hown c hc
    rcases (tr a k cs).mp ha with ⟨rfl, rfl, rfl⟩ | ⟨hap, ha0⟩
    · rcases (tr b k' cs').mp hb with ⟨rfl, _, _⟩ | ⟨hbp, hb0⟩
      · exact absurd rfl hne
      · exact fr b k' cs' hb0 hbp (fun kp csp hp => frp kp csp k' hp) c hc
    · rcases (tr b k' cs').mp hb with ⟨rfl, rfl, rfl⟩ | ⟨hbp, hb0⟩
      · intro hcn
        exact fr a k cs ha0 hap (fun kp csp hp => frp kp csp k hp) c hcn hc
      · exact ex a b k k' cs cs' ha0 hb0 hne hown c hc
  · intro c hc ⟨q, k, cs, hq, hcq⟩
    rcases (hE c).mp hc with ⟨cs0, hp0, hc0, hcn⟩
    rcases (tr q k cs).mp hq with ⟨_, _, rfl⟩ | ⟨hqp, hq0⟩
    · exact hcn hcq
    · exact ex p q 0 k cs0 cs hp0 hq0 (fun h => hqp h.symm) (fun h => h.1 rfl) c hc0 hcq
  · intro _ c ⟨q, k, cs, hq, hcq⟩ hn
    by_cases hqp : q = p
    · subst hqp
      have hk := hplain k cs hq
      subst hk
      refine (hE c).mpr ⟨cs, hq, hcq, fun hcn => hn ⟨q, 0, new, (tr q 0 new).mpr (Or.inl ⟨rfl, rfl, rfl⟩), hcn⟩⟩
    · exact absurd ⟨q, k, cs, (tr q k cs).mpr (Or.inr ⟨hqp, hq⟩), hcq⟩ hn

/-- the record of identity k (shown by p and every other name of k) gets the chunks `new` -/
theorem gc_rec {s s' : St} (inv : TreeInv s) (ex : ExclL s) {p : RPath} {k : Nat} {old new E : List Nat} (hk : k ≠ 0)
    (tr : ∀ q k' cs, Shows s' q k' cs ↔ (k' = k ∧ cs = new ∧ ∃ cs0, Shows s q k cs0) ∨ (k' ≠ k ∧ Shows s q k' cs))
    (hp : Shows s p k old) (hold : ∀ q cs0, Shows s q k cs0 → cs0 = old)
    (fr : FreshL s p new)
    (hE : ∀ c, c ∈ E ↔ c ∈ old ∧ c ∉ new) (req : Bool) : GcS s s' E req := by
  have frp : ∀ kp csp k', k' ≠ k → Shows s p kp csp → ¬ (kp ≠ 0 ∧ kp = k') := by
    intro kp csp k' hk' hp' h
    have := (shows_fun inv hp' hp).1
    exact hk' (h.2.symm.trans this)
  have hnp : ∀ q k' cs, k' ≠ k → Shows s q k' cs → q ≠ p := by
    intro q k' cs hk' hq hqp
    subst hqp
    exact hk' (shows_fun inv hq hp).1
  refine ⟨?_, ?_, ?_⟩
  · intro a b ka kb cs cs' ha hb hne hown c hc
    rcases (tr a ka cs).mp ha with ⟨rfl, rfl, _⟩ | ⟨hak, ha0⟩
    · rcases (tr b kb cs').mp hb with ⟨rfl, _, _⟩ | ⟨hbk, hb0⟩
      · exact absurd ⟨hk, rfl⟩ hown
      · exact fr b kb cs' hb0 (hnp b kb cs' hbk hb0) (fun kp csp hp' => frp kp csp kb hbk hp') c hc
    · rcases (tr b kb cs').mp hb with ⟨rfl, rfl, _⟩ | ⟨hbk, hb0⟩
      · intro hcn
        exact fr a ka cs ha0 (hnp a ka cs hak ha0) (fun kp csp hp' => frp kp csp ka hak hp') c hcn hc
      · exact ex a b ka kb cs cs' ha0 hb0 hne hown c hc
  · intro c hc ⟨q, k', cs, hq, hcq⟩
    rcases (hE c).mp hc with ⟨hco, hcn⟩
    rcases (tr q k' cs).mp hq with ⟨_, rfl, _⟩ | ⟨hqk, hq0⟩
    · exact hcn hcq
    · exact ex p q k k' old cs hp hq0 (fun h => hnp q k' cs hqk hq0 h.symm) (fun h => hqk h.2.symm) c hco hcq
  · intro _ c ⟨q, k', cs, hq, hcq⟩ hn
    by_cases hqk : k' = k
    · subst hqk
      have := hold q cs hq
      subst this
      refine (hE c).mpr ⟨hcq, fun hcn => hn ⟨q, k', new, (tr q k' new).mpr (Or.inl ⟨rfl, rfl, cs, hq⟩), hcn⟩⟩
    · exact absurd ⟨q, k', cs, (tr q k' cs).mpr (Or.inr ⟨hqk, hq⟩), hcq⟩ hn

/-- src (plain with a fresh identity k, or already a name of k) and the new name dst become names of k showing what src showed -/
theorem gc_link {s s' : St} (inv : TreeInv s) (ex : ExclL s) {src dst : RPath} {k k0 : Nat} {cs0 : List Nat} (hk : k ≠ 0)
    (tr : ∀ q k' cs, Shows s' q k' cs ↔ ((q = dst ∨ q = src) ∧ k' = k ∧ cs = cs0) ∨ (q ≠ src ∧ q ≠ dst ∧ Shows s q k' cs))
    (hsrc : Shows s src k0 cs0) (hk0 : k0 = k ∨ k0 = 0)
    (hdst : ∀ k' cs, ¬ Shows s dst k' cs) (req : Bool) : GcS s s' [] req := by
  have own : ∀ b kb cs', Shows s b kb cs' → b ≠ src → kb ≠ k → ∀ c ∈ cs0, c ∉ cs' := by
    intro b kb cs' hb hbs hkb
    refine ex src b k0 kb cs0 cs' hsrc hb (fun h => hbs h.symm) ?_
    rintro ⟨h1, h2⟩
    rcases hk0 with h | h
    · exact hkb (h2.symm.trans h)
    · exact h1 h
  refine ⟨?_, by simp, ?_⟩
  · intro a b ka kb cs cs' ha hb hne hown c hc
    rcases (tr a ka cs).mp ha with ⟨_, rfl, rfl⟩ | ⟨has, _, ha0⟩
    · rcases (tr b kb cs').mp hb with ⟨_, rfl, _⟩ | ⟨hbs, _, hb0⟩
      · exact absurd ⟨hk, rfl⟩ hown
      · exact own b kb cs' hb0 hbs (fun h => hown ⟨hk, h.symm⟩) c hc
    · rcases (tr b kb cs').mp hb with ⟨_, rfl, rfl⟩ | ⟨_, _, hb0⟩
      · intro hcn
        exact own a ka cs ha0 has (fun h => hown ⟨by rw [h]; exact hk, h⟩) c hcn hc
      · exact ex a b ka kb cs cs' ha0 hb0 hne hown c hc
  · intro _ c ⟨q, k', cs, hq, hcq⟩ hn
    refine absurd ?_ hn
    by_cases hqs : q = src
    · subst hqs
      have := (shows_fun inv hq hsrc).2
      subst this
      exact ⟨q, k, cs, (tr q k cs).mpr (Or.inl ⟨Or.inr rfl, rfl, rfl⟩), hcq⟩
    · have hqd : q ≠ dst := fun h => hdst k' cs (h ▸ hq)
      exact ⟨q, k', cs, (tr q k' cs).mpr (Or.inr ⟨hqs, hqd, hq⟩), hcq⟩

/-- the name p goes; its chunks are handed over when `dc` says so, which for a linked name is allowed only for the last name -/
theorem gc_del {s s' : St} (inv : TreeInv s) (ex : ExclL s) {p : RPath} {k : Nat} {cs0 E : List Nat} {dc : Bool}
    (tr : ∀ q k' cs, Shows s' q k' cs ↔ (q ≠ p ∧ Shows s q k' cs))
    (hp : Shows s p k cs0)
    (hlast : dc = true → k ≠ 0 → ∀ q cs, Shows s q k cs → q = p)
    (hE : E = if dc then cs0 else []) : GcS s s' E dc := by
  refine ⟨?_, ?_, ?_⟩
  · intro a b ka kb cs cs' ha hb hne hown c hc
    exact ex a b ka kb cs cs' ((tr _ _ _).mp ha).2 ((tr _ _ _).mp hb).2 hne hown c hc
  · intro c hc ⟨q, k', cs, hq, hcq⟩
    rcases (tr q k' cs).mp hq with ⟨hqp, hq0⟩
    cases dc with
    | false => simp [hE] at hc
    | true =>
      simp only [hE, if_true] at hc
      refine ex p q k k' cs0 cs hp hq0 (fun h => hqp h.symm) ?_ c hc hcq
      rintro ⟨h1, h2⟩
      subst h2
      exact hqp (hlast rfl h1 q cs hq0)
  · intro hdc c ⟨q, k', cs, hq, hcq⟩ hn
    by_cases hqp : q = p
    · subst hqp
      have := (shows_fun inv hq hp).2
      subst this
      simp [hE, hdc, hcq]
    · exact absurd ⟨q, k', cs, (tr q k' cs).mpr ⟨hqp, hq⟩, hcq⟩ hn

/-! ### the four transitions, concretely (what `Shows` becomes) -/

theorem shows_wInsert_plain {s : St} {p : RPath} {e : Entry} (he : e.hl = 0) (q : RPath) (k : Nat) (cs : List Nat) :
    Shows (wInsert s p e) q k cs ↔ (q = p ∧ k = 0 ∧ cs = e.chunks) ∨ (q ≠ p ∧ Shows s q k cs) := by
  have hkv : ∀ k', kvGet (wInsert s p e) k' = kvGet s k' := kvGet_congr (kv_wInsert_plain s p e he)
  unfold Shows
  simp only [hkv]
  constructor
  · rintro ⟨e', hm, hk, hc⟩
    rcases mem_wInsert.mp hm with h | ⟨h, hne⟩
    · cases h
      rcases hc with ⟨h0, rfl⟩ | ⟨h0, _⟩
      · exact Or.inl ⟨rfl, h0, rfl⟩
      · exact absurd (hk.symm.trans he) h0
    · exact Or.inr ⟨hne, e', h, hk, hc⟩
  · rintro (⟨rfl, rfl, rfl⟩ | ⟨hne, e', hm, hk, hc⟩)
    · exact ⟨e, mem_wInsert.mpr (Or.inl rfl), he, Or.inl ⟨rfl, rfl⟩⟩
    · exact ⟨e', mem_wInsert.mpr (Or.inr ⟨hm, hne⟩), hk, hc⟩

theorem shows_wInsert_linked {s : St} (inv : TreeInv s) {p : RPath} {e ex r0 : Entry} (hk : e.hl ≠ 0)
    (hm : (p, ex) ∈ s.ents) (hex : ex.hl = e.hl) (hr0 : kvGet s e.hl = some r0) (q : RPath) (k' : Nat) (cs : List Nat) :
    Shows (wInsert s p e) q k' cs ↔
      (k' = e.hl ∧ cs = e.chunks ∧ ∃ cs0, Shows s q e.hl cs0) ∨ (k' ≠ e.hl ∧ Shows s q k' cs) := by
  have hkv : ∀ k', kvGet (wInsert s p e) k' = if k' = e.hl then some e else kvGet s k' := by
    intro k'
    rw [kvGet_congr (kv_wInsert_same s p e ex hk (lookup_of_mem_nodup inv.nodup hm) (Or.inl hex)), kvGet_kvPut]
  constructor
  · rintro ⟨e', hm', hk', hc⟩
    rcases mem_wInsert.mp hm' with h | ⟨h, hne⟩
    · cases h
      subst hk'
      rcases hc with ⟨h0, _⟩ | ⟨_, r, hr, rfl⟩
      · exact absurd h0 hk
      · rw [hkv, if_pos rfl] at hr
        cases hr
        exact Or.inl ⟨rfl, rfl, r0.chunks, ex, hm, hex, Or.inr ⟨hk, r0, hr0, rfl⟩⟩
    · by_cases hkk : k' = e.hl
      · subst hkk
        rcases hc with ⟨h0, _⟩ | ⟨_, r, hr, rfl⟩
        · exact absurd h0 hk
        · rw [hkv, if_pos rfl] at hr
          cases hr
          exact Or.inl ⟨rfl, rfl, r0.chunks, e', h, hk', Or.inr ⟨hk, r0, hr0, rfl⟩⟩
      · refine Or.inr ⟨hkk, e', h, hk', ?_⟩
        rcases hc with hc | ⟨h0, r, hr, hcs⟩
        · exact Or.inl hc
        · rw [hkv, if_neg hkk] at hr
          exact Or.inr ⟨h0, r, hr, hcs⟩
  · rintro (⟨rfl, rfl, cs0, e', hm', hk', _⟩ | ⟨hkk, e', hm', hk', hc⟩)
    · by_cases hqp : q = p
      · subst hqp
        exact ⟨e, mem_wInsert.mpr (Or.inl rfl), rfl, Or.inr ⟨hk, e, by rw [hkv, if_pos rfl], rfl⟩⟩
      · exact ⟨e', mem_wInsert.mpr (Or.inr ⟨hm', hqp⟩), hk', Or.inr ⟨hk, e, by rw [hkv, if_pos rfl], rfl⟩⟩
    · have hqp : q ≠ p := by
        intro h
        subst h
        rw [mem_unique inv.nodup hm' hm] at hk'
        exact hkk (hk'.symm.trans hex)
      refine ⟨e', mem_wInsert.mpr (Or.inr ⟨hm', hqp⟩), hk', ?_⟩
      rcases hc with hc | ⟨h0, r, hr, hcs⟩
      · exact Or.inl hc
      · exact Or.inr ⟨h0, r, by rw [hkv, if_neg hkk]; exact hr, hcs⟩

theorem two_names {l : List (RPath × Entry)} (nd : (l.map (·.1)).Nodup) {p q : RPath} {ex e' : Entry} {k : Nat}
    (hp : (p, ex) ∈ l) (hq : (q, e') ∈ l) (hne : q ≠ p) (h1 : ex.hl = k) (h2 : e'.hl = k) : 2 ≤ nameCount l k := by
  have h := nameCount_erase nd hp k
  rw [if_pos h1] at h
  have := nameCount_pos_of_mem (mem_erase.mpr ⟨hq, hne⟩) k h2
  omega

theorem kvGet_deleteHardLink {s : St} {k : Nat} {r : Entry} (hg : kvGet s k = some r) (k' : Nat) :
    kvGet (deleteHardLink s k) k' =
      if k' = k then (if r.cnt - 1 ≤ 0 then none else some { r with cnt := r.cnt - 1 }) else kvGet s k' := by
  unfold deleteHardLink
  rw [hg]
  simp only
  by_cases hle : r.cnt - 1 ≤ 0
  · rw [if_pos hle, kvGet_kvDel]
    by_cases hk : k' = k <;> simp [hk, hle]
  · rw [if_neg hle, kvGet_kvPut]
    by_cases hk : k' = k <;> simp [hk, hle]

/-- one name goes (DeleteOneEntry with what FindEntry returned): every other name shows what it showed -/
theorem shows_deleteOne {s : St} (inv : TreeInv s) (c : ConsAll s) {p : RPath} {ex o : Entry}
    (hm : (p, ex) ∈ s.ents) (hf : find s p = some o) (q : RPath) (k' : Nat) (cs : List Nat) :
    Shows (deleteOne s p o) q k' cs ↔ (q ≠ p ∧ Shows s q k' cs) := by
  have FC := find_of_cons inv hm
  by_cases h0 : ex.hl = 0
  · have ho : o = ex := by
      have := FC.1 h0
      rw [hf] at this
      exact Option.some.inj this
    subst ho
    have hs : deleteOne s p o = { s with ents := erase p s.ents } := by simp [deleteOne, h0]
    rw [hs]
    have hkv : ∀ k, kvGet { s with ents := erase p s.ents } k = kvGet s k := fun _ => rfl
    unfold Shows
    simp only [hkv]
    constructor
    · rintro ⟨e', hm', hk', hc⟩
      exact ⟨(mem_erase.mp hm').2, e', (mem_erase.mp hm').1, hk', hc⟩
    · rintro ⟨hne, e', hm', hk', hc⟩
      exact ⟨e', mem_erase.mpr ⟨hm', hne⟩, hk', hc⟩
  · rcases FC.2 h0 (c _ h0) with ⟨r, hg, hfr, hrl, hrf, hrc⟩
    have ho : o = r := by rw [hf] at hfr; exact Option.some.inj hfr
    subst ho
    have hok : o.hl ≠ 0 := by rw [hrl]; exact h0
    rw [← hrl] at hg hrc
    have hents : (deleteOne s p o).ents = erase p s.ents := by simp [deleteOne, hok]
    have hkv0 : (deleteOne s p o).kv = (deleteHardLink s o.hl).kv := by simp [deleteOne, hok]
    have hkv : ∀ k, kvGet (deleteOne s p o) k =
        if k = o.hl then (if o.cnt - 1 ≤ 0 then none else some { o with cnt := o.cnt - 1 }) else kvGet s k := by
      intro k
      rw [kvGet_congr hkv0, kvGet_deleteHardLink hg]
    constructor
    · rintro ⟨e', hm', hk', hc⟩
      rw [hents] at hm'
      refine ⟨(mem_erase.mp hm').2, e', (mem_erase.mp hm').1, hk', ?_⟩
      rcases hc with hc | ⟨hn0, r', hr', hcs⟩
      · exact Or.inl hc
      · rw [hkv] at hr'
        by_cases hkk : k' = o.hl
        · rw [if_pos hkk] at hr'
          by_cases hle : o.cnt - 1 ≤ 0
          · rw [if_pos hle] at hr'; cases hr'
          · rw [if_neg hle] at hr'
            cases hr'
            exact Or.inr ⟨hn0, o, by rw [hkk]; exact hg, hcs⟩
        · rw [if_neg hkk] at hr'
          exact Or.inr ⟨hn0, r', hr', hcs⟩
    · rintro ⟨hne, e', hm', hk', hc⟩
      refine ⟨e', by rw [hents]; exact mem_erase.mpr ⟨hm', hne⟩, hk', ?_⟩
      rcases hc with hc | ⟨hn0, r', hr', hcs⟩
      · exact Or.inl hc
      · by_cases hkk : k' = o.hl
        · have h2 := two_names inv.nodup hm hm' hne hrl.symm (hk'.trans hkk)
          have hle : ¬ o.cnt - 1 ≤ 0 := by rw [hrc]; omega
          refine Or.inr ⟨hn0, { o with cnt := o.cnt - 1 }, by rw [hkv, if_pos hkk, if_neg hle], ?_⟩
          rw [hkk, hg] at hr'
          cases hr'
          exact hcs
        · exact Or.inr ⟨hn0, r', by rw [hkv, if_neg hkk]; exact hr', hcs⟩

/-- every name of a consistent identity that has a name also has a record -/
theorem record_of_name {s : St} (c : ConsAll s) {q : RPath} {e' : Entry} (hm : (q, e') ∈ s.ents) (hk : e'.hl ≠ 0) :
    ∃ r, kvGet s e'.hl = some r := by
  have := c _ hk
  unfold Cons at this
  cases hg : kvGet s e'.hl with
  | none =>
    rw [hg] at this
    exact absurd this (nameCount_pos_of_mem hm _ rfl)
  | some r => exact ⟨r, rfl⟩

/-- Dir.Link (UpdateEntry(old name) + CreateEntry(new name) with the linked entry L of identity k) -/
theorem shows_link {s : St} (inv : TreeInv s) (c : ConsAll s) {src dst : RPath} {L : Entry} {k : Nat} (hk : k ≠ 0) (hL : L.hl = k)
    (hne : dst ≠ src) (hdst : ∀ y, (dst, y) ∉ s.ents)
    (hkv : (wInsert (wInsert s src L) dst L).kv = (kvPut (kvPut s k L) k L).kv)
    (hsame : ∀ q cs, Shows s q k cs → cs = L.chunks) (q : RPath) (k' : Nat) (cs : List Nat) :
    Shows (wInsert (wInsert s src L) dst L) q k' cs ↔
      ((q = dst ∨ q = src) ∧ k' = k ∧ cs = L.chunks) ∨ (q ≠ src ∧ q ≠ dst ∧ Shows s q k' cs) := by
  have hg : ∀ k', kvGet (wInsert (wInsert s src L) dst L) k' = if k' = k then some L else kvGet s k' := by
    intro k'
    rw [kvGet_congr hkv, kvGet_kvPut, kvGet_kvPut]
    by_cases h : k' = k <;> simp [h]
  have hmem : ∀ y, y ∈ (wInsert (wInsert s src L) dst L).ents ↔
      y = (dst, L) ∨ y = (src, L) ∨ (y ∈ s.ents ∧ y.1 ≠ src ∧ y.1 ≠ dst) := by
    intro y
    rw [mem_wInsert, mem_wInsert]
    constructor
    · rintro (h | ⟨h | ⟨h1, h2⟩, h3⟩)
      · exact Or.inl h
      · exact Or.inr (Or.inl h)
      · exact Or.inr (Or.inr ⟨h1, h2, h3⟩)
    · rintro (h | h | ⟨h1, h2, h3⟩)
      · exact Or.inl h
      · exact Or.inr ⟨Or.inl h, by rw [h]; exact fun hh => hne hh.symm⟩
      · exact Or.inr ⟨Or.inr ⟨h1, h2⟩, h3⟩
  have hnew : ∀ q, (q = dst ∨ q = src) → Shows (wInsert (wInsert s src L) dst L) q k L.chunks := by
    intro q hq
    refine ⟨L, (hmem _).mpr ?_, hL, Or.inr ⟨hk, L, by rw [hg, if_pos rfl], rfl⟩⟩
    rcases hq with rfl | rfl
    · exact Or.inl rfl
    · exact Or.inr (Or.inl rfl)
  constructor
  · rintro ⟨e', hm', hk', hc⟩
    have hLcase : e' = L → ((k' = k) ∧ cs = L.chunks) := by
      intro he
      subst he
      have hkk : k' = k := hk'.symm.trans hL
      refine ⟨hkk, ?_⟩
      rcases hc with ⟨h0, _⟩ | ⟨_, r, hr, rfl⟩
      · exact absurd (hkk ▸ h0) hk
      · rw [hg, if_pos hkk] at hr
        cases hr
        rfl
    rcases (hmem _).mp hm' with h | h | ⟨h1, h2, h3⟩
    · cases h
      exact Or.inl ⟨Or.inl rfl, hLcase rfl⟩
    · cases h
      exact Or.inl ⟨Or.inr rfl, hLcase rfl⟩
    · refine Or.inr ⟨h2, h3, ?_⟩
      rcases hc with hc | ⟨hn0, r, hr, hcs⟩
      · exact ⟨e', h1, hk', Or.inl hc⟩
      · rw [hg] at hr
        by_cases hkk : k' = k
        · rw [if_pos hkk] at hr
          cases hr
          subst hkk
          rcases record_of_name c h1 (by rw [hk']; exact hn0) with ⟨r0, hr0⟩
          rw [hk'] at hr0
          have hsh : Shows s q k' r0.chunks := ⟨e', h1, hk', Or.inr ⟨hn0, r0, hr0, rfl⟩⟩
          rw [hcs, ← hsame q _ hsh]
          exact hsh
        · rw [if_neg hkk] at hr
          exact ⟨e', h1, hk', Or.inr ⟨hn0, r, hr, hcs⟩⟩
  · rintro (⟨hq, rfl, rfl⟩ | ⟨h2, h3, hsh⟩)
    · exact hnew q hq
    · have hsh' := hsh
      rcases hsh with ⟨e', h1, hk', hc⟩
      refine ⟨e', (hmem _).mpr (Or.inr (Or.inr ⟨h1, h2, h3⟩)), hk', ?_⟩
      rcases hc with hc | ⟨hn0, r, hr, hcs⟩
      · exact Or.inl hc
      · by_cases hkk : k' = k
        · subst hkk
          exact Or.inr ⟨hn0, L, by rw [hg, if_pos rfl], hsame q cs hsh'⟩
        · exact Or.inr ⟨hn0, r, by rw [hg, if_neg hkk]; exact hr, hcs⟩

end SwV.Lemmas.C20Links
