/-
C04 — the index-based copy (Compact2 / copyDataBasedOnIndexFile) writes the .cpd in ascending key order, the .cpx
is saved in ascending key order too, so the i-th index entry points at the i-th record; makeupDiff only ever appends
an entry that points at the record it just appended (or a tombstone entry with offset 0).  Hence the LAST index entry
of the committed files points at the LAST record of the .dat (or has offset 0) and the reload's integrity check
(`cutAt`) never truncates.  Also: operations never change the volume TTL.
-/
import SwV.Lemmas.C04
namespace SwV.Lemmas.C04
open SwV.Model.C01 SwV.Model.C04

/-! ## the last index entry -/

/-- the last .idx entry has offset 0 or points at (or behind) the last record of the .dat -/
def TailOK (L : List Rec) (X : List IEnt) : Prop := ∀ e, X.getLast? = some e → e.off = 0 ∨ L.length ≤ e.off

theorem cutAt_none_of_tailOK {L : List Rec} {X : List IEnt} (h : TailOK L X) : cutAt X L = none := by
  unfold cutAt
  cases hl : X.getLast? with
  | none => rfl
  | some e =>
    simp only
    have ht := h e hl
    by_cases h1 : e.off = 0 ∨ e.size < 0
    · simp [h1]
    · simp only [h1, if_false]
      cases hr : recAt L e.off with
      | none => rfl
      | some r =>
        simp only
        by_cases h2 : r.size ≠ e.size
        · simp [h2]
        · have h3 : ¬ e.off < L.length := by
            rcases ht with h | h
            · exact absurd (Or.inl h) h1
            · omega
          simp [h2, h3]

theorem makeupOne_tailOK (old : CVol) (suf : List IEnt) (t : Nat) (acc f : Files) (k : Nat)
    (h : makeupOne old suf t acc k = some f) (ht : TailOK acc.1 acc.2.2) : TailOK f.1 f.2.2 := by
  unfold makeupOne at h
  split at h
  · cases h; exact ht
  · rename_i e he
    split at h
    · split at h
      · cases h
      · cases h
        intro e' he'
        simp only [List.getLast?_concat, Option.some.injEq] at he'
        subst he'
        right
        simp
    · cases h
      intro e' he'
      simp only [List.getLast?_concat, Option.some.injEq] at he'
      subst he'
      left
      rfl

theorem makeupFold_tailOK (old : CVol) (suf : List IEnt) (t : Nat) (order : List Nat) :
    ∀ (acc : Option Files) (f : Files), makeupFold old suf t acc order = some f →
      (∀ a, acc = some a → TailOK a.1 a.2.2) → TailOK f.1 f.2.2 := by
  induction order with
  | nil =>
    intro acc f h ha
    simp only [makeupFold, List.foldl_nil] at h
    exact ha f h
  | cons k rest ih =>
    intro acc f h ha
    simp only [makeupFold, List.foldl_cons] at h
    refine ih (acc.bind fun f => makeupOne old suf t f k) f h ?_
    intro a hb
    cases acc with
    | none => simp at hb
    | some a0 =>
      simp only [Option.bind_some] at hb
      exact makeupOne_tailOK old suf t a0 a k hb (ha a0 rfl)

theorem makeup_tailOK (s : CVol) (sn : Snap) (order : List Nat) (t : Nat) (f : Files)
    (h : makeup s sn order t = some f) (ht : TailOK sn.log sn.cpx) : TailOK f.1 f.2.2 := by
  unfold makeup at h
  split at h
  · cases h; exact ht
  · split at h
    · cases h
    · split at h
      · cases h
      · refine makeupFold_tailOK s _ t order _ f h ?_
        intro a ha
        cases ha
        exact ht

/-! ## a key-sorted list of entries is its own MemDb -/

theorem mset_append_last {m : List IEnt} {x : IEnt} (h : ∀ y ∈ m, y.key < x.key) : mset m x = m ++ [x] := by
  induction m with
  | nil => rfl
  | cons y ys ih =>
    have hy := h y (by simp)
    have h1 : ¬ x.key < y.key := by omega
    have h2 : ¬ x.key = y.key := by omega
    simp only [mset, h1, h2, if_false, List.cons_append]
    rw [ih (fun z hz => h z (List.mem_cons_of_mem _ hz))]

theorem foldl_mset_sorted (l : List IEnt) : ∀ m : List IEnt, KeysLt (m ++ l) → l.foldl mset m = m ++ l := by
  induction l with
  | nil => intro m _; simp
  | cons x xs ih =>
    intro m h
    have hx : ∀ y ∈ m, y.key < x.key := by
      intro y hy
      exact (List.pairwise_append.mp h).2.2 y hy x (by simp)
    simp only [List.foldl_cons]
    rw [mset_append_last hx, ih (m ++ [x]) (by simpa using h)]
    simp

theorem keysLt_cpxEnts {keep : List (Nat × Rec × Nat)} (h : keep.Pairwise (fun a b => a.2.1.id < b.2.1.id)) :
    KeysLt (cpxEnts keep) := by
  unfold KeysLt cpxEnts
  rw [List.pairwise_map]
  have : List.Pairwise (fun a b => a.2.1.id < b.2.1.id) (List.map Prod.fst (keep.zipIdx 1)) := by
    rw [List.zipIdx_map_fst]; exact h
  exact (List.pairwise_map (f := Prod.fst) (R := fun a b : Nat × Rec × Nat => a.2.1.id < b.2.1.id)).mp this

theorem tailOK_of_sorted {keep : List (Nat × Rec × Nat)} (h : keep.Pairwise (fun a b => a.2.1.id < b.2.1.id)) :
    TailOK (keep.map (·.2.1)) (cpxOf keep) := by
  have hc : cpxOf keep = cpxEnts keep := by
    rw [cpxOf_eq, foldl_mset_sorted _ [] (by simpa using keysLt_cpxEnts h)]
    simp
  intro e he
  rw [hc] at he
  unfold cpxEnts at he
  rw [List.getLast?_map, List.getLast?_zipIdx] at he
  cases hl : keep.getLast? with
  | none => rw [hl] at he; simp at he
  | some a =>
    rw [hl] at he
    simp only [Option.map_some, Option.some.injEq] at he
    subst he
    right
    simp

/-! ## Compact2 copies in ascending key order -/

theorem keepIdx_ids_lt {s : CVol} (hw : WF s) (nowSec : Nat) :
    (keepIdx s nowSec).Pairwise (fun a b => a.2.1.id < b.2.1.id) := by
  unfold keepIdx
  have hk := List.Pairwise.and_mem.mp (keysLt_loadFromIdx s.ilog)
  refine List.Pairwise.filterMap _ ?_ hk
  -- a copied record carries the key of the index entry it was read through
  have hid : ∀ (e : IEnt) (p : Nat × Rec × Nat), e ∈ loadFromIdx s.ilog →
      (if e.off = 0 ∨ e.size < 0 then none else
        match recAt s.v.log e.off with
        | none => none
        | some r =>
          if ¬ (r.size = e.size) then none
          else if dropsTtl s nowSec r (atOf s.ats e.off) then none
          else some (e.off, r, atOf s.ats e.off)) = some p → p.2.1.id = e.key := by
    intro e p he hb
    by_cases hd : e.off = 0 ∨ e.size < 0
    · simp [hd] at hb
    · simp only [hd, if_false] at hb
      cases hr : recAt s.v.log e.off with
      | none => simp [hr] at hb
      | some r =>
        simp only [hr] at hb
        by_cases hsz : r.size = e.size
        · simp only [hsz, not_true_eq_false, if_false] at hb
          by_cases hdr : dropsTtl s nowSec r (atOf s.ats e.off) = true
          · simp [hdr] at hb
          · simp only [hdr, if_false] at hb
            cases hb
            have hmg := mget_of_mem (keysLt_loadFromIdx s.ilog) he
            rw [hw.mem e.key] at hmg
            cases hi : s.v.idx e.key with
            | none => simp [hi] at hmg
            | some e' =>
              simp only [hi] at hmg
              by_cases hpos : 0 ≤ e'.size
              · simp only [hpos, if_true, Option.some.injEq] at hmg
                have ho : e'.off = e.off := by rw [← hmg]
                exact (hw.own e.key e' r hi (ho ▸ hr)).1
              · simp [hpos] at hmg
        · simp [hsz] at hb
  intro a a' hR b hb b' hb'
  rw [hid a b hR.1 hb, hid a' b' hR.2.1 hb']
  exact hR.2.2

theorem tailOK_keepIdx {s : CVol} (hw : WF s) (nowSec : Nat) :
    TailOK ((keepIdx s nowSec).map (·.2.1)) (cpxOf (keepIdx s nowSec)) :=
  tailOK_of_sorted (keepIdx_ids_lt hw nowSec)

/-! ## operations never change the volume TTL -/

theorem writeStep_volTtl (v : Vol) (id ck : Nat) (c : Content) : (writeStep v id ck c).1.volTtl = v.volTtl := by
  unfold writeStep
  split
  · rfl
  · simp only
    split
    · rfl
    · split <;> rfl

theorem deleteStep_volTtl (v : Vol) (id ck : Nat) : (deleteStep v id ck).1.volTtl = v.volTtl := by
  unfold deleteStep
  split
  · rfl
  · split
    · rfl
    · split <;> rfl

theorem step_volTtl (v : Vol) (op : Op) : (step v op).1.volTtl = v.volTtl := by
  cases op with
  | write id ck c => exact writeStep_volTtl v id ck c
  | delete id ck => exact deleteStep_volTtl v id ck
  | read id ck => rfl
  | setRO b => rfl
  | hread id ck => rfl
  | hdelete id ck =>
    simp only [step]
    unfold httpDelete
    split
    · split
      · rfl
      · have := deleteStep_volTtl v id ck
        split <;> rename_i h <;> (rw [h] at this; exact this)
    · rfl

theorem opStep_volTtl (s : CVol) (t : Nat) (op : Op) : (opStep s t op).1.v.volTtl = s.v.volTtl := by
  unfold opStep
  simp only
  split <;> exact step_volTtl s.v op

theorem runOps_volTtl (s : CVol) (ops : List (Nat × Op)) : (runOps s ops).v.volTtl = s.v.volTtl := by
  induction ops generalizing s with
  | nil => rfl
  | cons o ops ih =>
    obtain ⟨t, op⟩ := o
    simp only [runOps]
    rw [ih, opStep_volTtl]

end SwV.Lemmas.C04
