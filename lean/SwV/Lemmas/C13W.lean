/-
C13 — the uint64 (wrapping) etcd sequencer machines `startW` / `kvStepW` coincide with the unbounded
ones of the invariant proof wherever no uint64 operation wraps (`ENoWrapStep`), hence whole runs do
(`erunW_eq`); the heartbeat-order lemmas.  Core Lean only.
-/
import SwV.Model.C13
import SwV.Spec.C13
import SwV.Lemmas.C13
namespace SwV.Lemmas.C13
open SwV.Model.C13 SwV.Spec.C13

def estepW (st : ESt × List Obs) : EEv → ESt × List Obs
  | .start i op =>
    ((startW st.1 i op).1, logOut i (logReport i st.2 op (startW st.1 i op).2) (startW st.1 i op).2)
  | .kv i f => ((kvStepW st.1 i f).1, logOut i st.2 (kvStepW st.1 i f).2.2)

/-- the run of the machines the correspondence check ties to the Go code (uint64 arithmetic) -/
def erunW (st : ESt × List Obs) (evs : List EEv) : ESt × List Obs := evs.foldl estepW st

/-- NO-OVERFLOW HYPOTHESIS, per step: none of the uint64 additions this step performs exceeds 2^64-1.
    `NextFileId(count)`: `currentSeqId + count`, `DefaultEtcdSteps + count`;
    `batchGetSequenceFromEtcd`: `prevSeqValue + step`; then `currentSeqId += count`. -/
def pcNoWrap : Pc → Prop
  | .bSet count req prev => prev + req < W ∧ prev + count < W
  | _ => True

instance (pc : Pc) : Decidable (pcNoWrap pc) := by
  cases pc <;> (unfold pcNoWrap; infer_instance)

def ENoWrapStep (s : ESt) : EEv → Prop
  | .start i (.next count) => (s.inst i).cur + count < W ∧ DefaultEtcdSteps + count < W
  | .start _ _ => True
  | .kv i _ => pcNoWrap (s.inst i).pc

instance (s : ESt) (ev : EEv) : Decidable (ENoWrapStep s ev) := by
  cases ev with
  | start i op =>
    cases op <;> (unfold ENoWrapStep; infer_instance)
  | kv i f =>
    unfold ENoWrapStep; infer_instance

/-- … along a run (evaluated on the machines themselves: decidable for any concrete schedule) -/
def ENoWrap : ESt × List Obs → List EEv → Prop
  | _, [] => True
  | st, ev :: rest => ENoWrapStep st.1 ev ∧ ENoWrap (estep st ev) rest

instance decENoWrap : (evs : List EEv) → (st : ESt × List Obs) → Decidable (ENoWrap st evs)
  | [], _ => isTrue trivial
  | ev :: rest, st => by
    unfold ENoWrap
    exact @instDecidableAnd _ _ _ (decENoWrap rest (estep st ev))

theorem startW_eq (s : ESt) (i : Nat) (op : Op) (h : ENoWrapStep s (.start i op)) : startW s i op = start s i op := by
  cases op with
  | next count =>
    obtain ⟨h1, h2⟩ := h
    unfold startW start
    simp only [Nat.mod_eq_of_lt h1, Nat.mod_eq_of_lt h2]
  | setMax seen => rfl
  | new slot => rfl

theorem kvStepW_eq (s : ESt) (i : Nat) (f : Bool) (h : ENoWrapStep s (.kv i f)) : kvStepW s i f = kvStep s i f := by
  have h' : pcNoWrap (s.inst i).pc := h
  unfold kvStepW kvStep
  cases hpc : (s.inst i).pc with
  | bSet count req prev =>
    rw [hpc] at h'
    obtain ⟨h1, h2⟩ := h'
    have e1 : (prev + req) % W = prev + req := Nat.mod_eq_of_lt h1
    have e2 : (prev + req + W - req) % W = prev := by
      have : prev + req + W - req = prev + W := by omega
      rw [this, Nat.add_mod_right]; exact Nat.mod_eq_of_lt (by omega)
    simp only [hpc, e1, e2, Nat.mod_eq_of_lt h2]
  | _ => simp only [hpc]

theorem estepW_eq (st : ESt × List Obs) (ev : EEv) (h : ENoWrapStep st.1 ev) : estepW st ev = estep st ev := by
  cases ev with
  | start i op =>
    show ((startW st.1 i op).1, logOut i (logReport i st.2 op (startW st.1 i op).2) (startW st.1 i op).2) = _
    rw [startW_eq st.1 i op h]; rfl
  | kv i f =>
    show ((kvStepW st.1 i f).1, logOut i st.2 (kvStepW st.1 i f).2.2) = _
    rw [kvStepW_eq st.1 i f h]; rfl

theorem erunW_eq : ∀ (evs : List EEv) (st : ESt × List Obs), ENoWrap st evs → erunW st evs = erun st evs := by
  intro evs
  induction evs with
  | nil => intro _ _; rfl
  | cons ev rest ih =>
    intro st h
    show erunW (estepW st ev) rest = erun (estep st ev) rest
    rw [estepW_eq st ev h.1]
    exact ih _ h.2

/-! ## heartbeat order -/

theorem mem_setMax_gt (m : Mem) (seen : Nat) (h : seen + 1 < W) : seen < (m.setMax seen).counter := by
  unfold Mem.setMax
  split
  · simp only; rw [Nat.mod_eq_of_lt h]; omega
  · omega

theorem foldl_register_writable (hb : Heartbeat) (s : MSt) :
    (hbStep hb s .setMax).writable = s.writable ∧ (hbStep hb s .register).seq = s.seq := ⟨rfl, rfl⟩

end SwV.Lemmas.C13
