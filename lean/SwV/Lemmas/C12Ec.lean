/- C12 helper lemmas for the full EC heartbeat (`DataNode.UpdateEcShards`): popcount of shard-bit
   set differences, the EC counter deltas of the two loops written as sums over the volume ids, and
   the resulting theorem `diskEc_updateEcShards` (the EC shard counter of every disk equals the
   recount after a full EC heartbeat). -/
import SwV.Model.C11
import SwV.Spec.C12
import SwV.Lemmas.C12
namespace SwV.Lemmas.C12Ec
open SwV.Model.C11 SwV.Spec.C12 SwV.Lemmas.C12

/-! ## popcount and set difference of shard bits -/

/-- popcount a = popcount (a ∩ b) + popcount (a \ b) -/
theorem popAux_split (f a b : Nat) : popAux f a = popAux f (a &&& b) + popAux f (a - (a &&& b)) := by
  induction f generalizing a b with
  | zero => rfl
  | succ f ih =>
    simp only [popAux]
    have h1 : (a &&& b) / 2 = a / 2 &&& b / 2 := Nat.and_div_two
    have h2 : (a &&& b) ≤ a := Nat.and_le_left
    have h3 : a / 2 &&& b / 2 ≤ a / 2 := Nat.and_le_left
    have h4 : (a &&& b) % 2 ≤ a % 2 := by
      have := @Nat.and_mod_two_eq_one a b
      omega
    have h5 : (a - (a &&& b)) / 2 = a / 2 - (a / 2 &&& b / 2) := by omega
    have h6 : (a - (a &&& b)) % 2 = a % 2 - (a &&& b) % 2 := by omega
    have := ih (a / 2) (b / 2)
    rw [h5, h6, h1]
    omega

/-- popcount(new) − popcount(old) = popcount(new \ old) − popcount(old \ new) -/
theorem popcount_diff (new old : Nat) :
    (popcount new : Int) - (popcount old : Int) =
      (popcount (bitsMinus new old) : Int) - (popcount (bitsMinus old new) : Int) := by
  unfold popcount bitsMinus
  have h1 := popAux_split 32 new old
  have h2 := popAux_split 32 old new
  rw [Nat.and_comm old new] at h2 ⊢
  omega

theorem popcount_zero : popcount 0 = 0 := by decide

/-! ## sums -/

def lsum {α : Type} (f : α → Int) : List α → Int
  | [] => 0
  | a :: l => f a + lsum f l

theorem lsum_append {α : Type} (f : α → Int) (a b : List α) : lsum f (a ++ b) = lsum f a + lsum f b := by
  induction a with
  | nil => simp [lsum]
  | cons x a ih => simp only [List.cons_append, lsum, ih]; omega

theorem lsum_zero {α : Type} (f : α → Int) (l : List α) (h : ∀ x ∈ l, f x = 0) : lsum f l = 0 := by
  induction l with
  | nil => rfl
  | cons x l ih =>
    simp only [lsum]
    rw [h x (by simp), ih (fun y hy => h y (by simp [hy]))]; rfl

theorem sumI_add (n : Nat) (f g : Nat → Int) : sumI n (fun i => f i + g i) = sumI n f + sumI n g := by
  induction n with
  | zero => rfl
  | succ n ih => simp only [sumI, ih]; omega

theorem sumI_single (n a : Nat) (v : Int) (ha : a < n) : sumI n (fun i => if a = i then v else 0) = v := by
  have := sumI_upd (n := n) (s := a) (f := fun _ => 0) (g := fun i => if a = i then v else 0) (d := v) ha
    (by intro i hi; simp [Ne.symm hi]) (by simp)
  rw [this, sumI_zero (fun _ _ => rfl)]; omega

/-- a sum over a list of messages, regrouped by volume id -/
theorem lsum_by_vid (n : Nat) (g : EcInfo → Int) (l : List EcInfo) (h : ∀ e ∈ l, e.id < n) :
    lsum g l = sumI n (fun vid => lsum (fun e => if e.id = vid then g e else 0) l) := by
  induction l with
  | nil => simp only [lsum]; rw [sumI_zero (fun _ _ => rfl)]
  | cons e l ih =>
    simp only [lsum]
    rw [sumI_add, ← ih (fun x hx => h x (by simp [hx])), sumI_single n e.id (g e) (h e (by simp))]

/-! ## the three folds of UpdateEcShards at one volume id -/

theorem actualBits_none_aux (l : List EcInfo) (vid : Nat) (acc : Option Nat) (h : ∀ e ∈ l, e.id ≠ vid) :
    l.foldl (fun acc e => if e.id = vid then some e.bits else acc) acc = acc := by
  induction l generalizing acc with
  | nil => rfl
  | cons a l ih =>
    simp only [List.foldl_cons, h a (by simp), if_false]
    exact ih acc (fun x hx => h x (by simp [hx]))

theorem store_ecs_other (s : Nat) (l : List EcInfo) (base : Core) (s' t vid : Nat)
    (h : s' ≠ s ∨ ∀ e ∈ l, ¬ (e.disk = t ∧ e.id = vid)) :
    (l.foldl (Core.ecStore s) base).ecs s' t vid = base.ecs s' t vid := by
  induction l generalizing base with
  | nil => rfl
  | cons a l ih =>
    simp only [List.foldl_cons]
    rw [ih]
    · simp only [Core.ecStore, upd3]
      rcases h with h | h
      · simp [h]
      · have := h a (by simp)
        have : ¬ (s' = s ∧ t = a.disk ∧ vid = a.id) := fun ⟨_, b, c⟩ => this ⟨b.symm, c.symm⟩
        simp [this]
    · rcases h with h | h
      · exact Or.inl h
      · exact Or.inr (fun x hx => h x (by simp [hx]))

theorem store_fields (s : Nat) (l : List EcInfo) (base : Core) :
    (l.foldl (Core.ecStore s) base).conn = base.conn ∧ (l.foldl (Core.ecStore s) base).nVid = base.nVid ∧
    (l.foldl (Core.ecStore s) base).cDisk = base.cDisk := by
  induction l generalizing base with
  | nil => exact ⟨rfl, rfl, rfl⟩
  | cons a l ih =>
    simp only [List.foldl_cons]
    have := ih (Core.ecStore s base a)
    exact this

/-- a message list with pairwise different volume ids, split at one of its entries -/
theorem split_of_mem_nodup (l : List EcInfo) (e : EcInfo) (hn : (l.map (·.id)).Nodup) (he : e ∈ l) :
    ∃ l1 l2, l = l1 ++ e :: l2 ∧ (∀ x ∈ l1, x.id ≠ e.id) ∧ (∀ x ∈ l2, x.id ≠ e.id) := by
  obtain ⟨l1, l2, rfl⟩ := List.append_of_mem he
  refine ⟨l1, l2, rfl, ?_, ?_⟩
  · intro x hx heq
    simp only [List.map_append, List.map_cons, List.nodup_append] at hn
    exact hn.2.2 x.id (List.mem_map_of_mem hx) e.id (by simp) heq
  · intro x hx heq
    simp only [List.map_append, List.map_cons, List.nodup_append, List.nodup_cons] at hn
    exact hn.2.1.1 (by rw [← heq]; exact List.mem_map_of_mem hx)

theorem actualBits_of_mem (l : List EcInfo) (e : EcInfo) (hn : (l.map (·.id)).Nodup) (he : e ∈ l) :
    actualBits l e.id = some e.bits := by
  obtain ⟨l1, l2, rfl, h1, h2⟩ := split_of_mem_nodup l e hn he
  unfold actualBits
  rw [List.foldl_append, List.foldl_cons, actualBits_none_aux l1 e.id none h1]
  simp only [if_true]
  exact actualBits_none_aux l2 e.id _ h2

theorem actualBits_of_not_mem (l : List EcInfo) (vid : Nat) (h : ∀ e ∈ l, e.id ≠ vid) : actualBits l vid = none :=
  actualBits_none_aux l vid none h

theorem lsum_vid_of_mem (g : EcInfo → Int) (l : List EcInfo) (e : EcInfo) (hn : (l.map (·.id)).Nodup) (he : e ∈ l) :
    lsum (fun x => if x.id = e.id then g x else 0) l = g e := by
  obtain ⟨l1, l2, rfl, h1, h2⟩ := split_of_mem_nodup l e hn he
  rw [lsum_append]
  simp only [lsum, if_true]
  rw [lsum_zero _ l1 (fun x hx => by simp [h1 x hx]), lsum_zero _ l2 (fun x hx => by simp [h2 x hx])]
  omega

theorem store_ecs_of_mem (s : Nat) (l : List EcInfo) (e : EcInfo) (hn : (l.map (·.id)).Nodup) (he : e ∈ l)
    (base : Core) (t : Nat) :
    (l.foldl (Core.ecStore s) base).ecs s t e.id = if e.disk = t then e.bits else base.ecs s t e.id := by
  obtain ⟨l1, l2, rfl, h1, h2⟩ := split_of_mem_nodup l e hn he
  rw [List.foldl_append, List.foldl_cons]
  rw [store_ecs_other s l2 _ s t e.id (Or.inr (fun x hx hh => h2 x hx hh.2))]
  by_cases ht : e.disk = t
  · subst ht; simp [Core.ecStore, upd3]
  · have : ¬ (t = e.disk) := fun h => ht h.symm
    simp only [Core.ecStore, upd3, this, false_and, and_false, if_false, ht]
    exact store_ecs_other s l1 base s t e.id (Or.inr (fun x hx hh => h1 x hx hh.2))

/-! ## the counter deltas of the two loops -/

theorem upAdj_ec (c : Core) (s t : Nat) (d : Counts) (s' t' : Nat) :
    ((c.upAdj s t d).cDisk s' t').ec = (c.cDisk s' t').ec + if s' = s ∧ t' = t then d.ec else 0 := by
  by_cases h : s' = s ∧ t' = t
  · obtain ⟨rfl, rfl⟩ := h; simp [Core.upAdj, Core.nodeUp, upd2, Counts.add]
  · simp [Core.upAdj, Core.nodeUp, upd2, h]

/-- the EC delta loop 1 applies for one registered EC volume (disk type, vid, bits) -/
def d1 (actual : List EcInfo) (x : Nat × Nat × Nat) : Int :=
  match actualBits actual x.2.1 with
  | none => - (popcount x.2.2 : Int)
  | some ab => (popcount (bitsMinus ab x.2.2) : Int) - (popcount (bitsMinus x.2.2 ab) : Int)

/-- the EC delta loop 2 applies on disk type `t` for one message entry -/
def d2 (c0 : Core) (s t : Nat) (e : EcInfo) : Int :=
  if c0.hasEc s e.id then 0 else if e.disk = t then (popcount e.bits : Int) else 0

theorem ecStep1_core (s : Nat) (actual : List EcInfo) (acc : Core × List (Nat × Nat) × List (Nat × Nat)) (x : Nat × Nat × Nat) :
    (Core.ecStep1 s actual acc x).1 = acc.1.upAdj s x.1 { ec := d1 actual x } := by
  cases h : actualBits actual x.2.1 <;> simp [Core.ecStep1, d1, h]

theorem loop1_track (s : Nat) (actual : List EcInfo) (L : List (Nat × Nat × Nat))
    (acc : Core × List (Nat × Nat) × List (Nat × Nat)) :
    (L.foldl (Core.ecStep1 s actual) acc).1.conn = acc.1.conn ∧
    (L.foldl (Core.ecStep1 s actual) acc).1.nVid = acc.1.nVid ∧
    (L.foldl (Core.ecStep1 s actual) acc).1.ecs = acc.1.ecs ∧
    ∀ s' t', ((L.foldl (Core.ecStep1 s actual) acc).1.cDisk s' t').ec =
      (acc.1.cDisk s' t').ec + if s' = s then lsum (fun x => if x.1 = t' then d1 actual x else 0) L else 0 := by
  induction L generalizing acc with
  | nil => refine ⟨rfl, rfl, rfl, ?_⟩; intro s' t'; simp [lsum]
  | cons x L ih =>
    simp only [List.foldl_cons]
    obtain ⟨h1, h2, h3, h4⟩ := ih (Core.ecStep1 s actual acc x)
    rw [ecStep1_core] at h1 h2 h3
    refine ⟨h1, h2, h3, ?_⟩
    intro s' t'
    rw [h4, ecStep1_core, upAdj_ec]
    simp only [lsum]
    by_cases e1 : s' = s <;> by_cases e2 : x.1 = t'
    · subst e2; simp [e1]; omega
    · have : ¬ (t' = x.1) := fun h => e2 h.symm
      simp [e1, e2, this]
    · simp [e1]
    · simp [e1]

theorem ecStep2_core (c0 : Core) (s : Nat) (acc : Core × List (Nat × Nat)) (e : EcInfo) (s' t' : Nat) :
    (Core.ecStep2 c0 s acc e).1.conn = acc.1.conn ∧ (Core.ecStep2 c0 s acc e).1.nVid = acc.1.nVid ∧
    (Core.ecStep2 c0 s acc e).1.ecs = acc.1.ecs ∧
    ((Core.ecStep2 c0 s acc e).1.cDisk s' t').ec = (acc.1.cDisk s' t').ec + if s' = s then d2 c0 s t' e else 0 := by
  unfold Core.ecStep2 d2
  split
  · simp
  · refine ⟨rfl, rfl, rfl, ?_⟩
    rw [upAdj_ec]
    by_cases e1 : s' = s <;> by_cases e2 : e.disk = t'
    · subst e2; simp [e1]
    · have : ¬ (t' = e.disk) := fun h => e2 h.symm
      simp [e1, e2, this]
    · simp [e1]
    · simp [e1]

theorem loop2_track (c0 : Core) (s : Nat) (L : List EcInfo) (acc : Core × List (Nat × Nat)) :
    (L.foldl (Core.ecStep2 c0 s) acc).1.conn = acc.1.conn ∧
    (L.foldl (Core.ecStep2 c0 s) acc).1.nVid = acc.1.nVid ∧
    (L.foldl (Core.ecStep2 c0 s) acc).1.ecs = acc.1.ecs ∧
    ∀ s' t', ((L.foldl (Core.ecStep2 c0 s) acc).1.cDisk s' t').ec =
      (acc.1.cDisk s' t').ec + if s' = s then lsum (d2 c0 s t') L else 0 := by
  induction L generalizing acc with
  | nil => refine ⟨rfl, rfl, rfl, ?_⟩; intro s' t'; simp [lsum]
  | cons x L ih =>
    simp only [List.foldl_cons]
    obtain ⟨h1, h2, h3, h4⟩ := ih (Core.ecStep2 c0 s acc x)
    have k := fun s' t' => ecStep2_core c0 s acc x s' t'
    refine ⟨h1.trans (k 0 0).1, h2.trans (k 0 0).2.1, h3.trans (k 0 0).2.2.1, ?_⟩
    intro s' t'
    rw [h4, (k s' t').2.2.2]
    simp only [lsum]
    by_cases e1 : s' = s
    · simp [e1]; omega
    · simp [e1]

/-- nothing reported as new or deleted by loop 1: every delta of loop 1 was zero -/
theorem loop1_lists_empty (s : Nat) (actual : List EcInfo) (L : List (Nat × Nat × Nat))
    (acc : Core × List (Nat × Nat) × List (Nat × Nat))
    (h1 : (L.foldl (Core.ecStep1 s actual) acc).2.1 = []) (h2 : (L.foldl (Core.ecStep1 s actual) acc).2.2 = []) :
    acc.2.1 = [] ∧ acc.2.2 = [] ∧ ∀ x ∈ L, d1 actual x = 0 := by
  induction L generalizing acc with
  | nil => exact ⟨h1, h2, by simp⟩
  | cons x L ih =>
    simp only [List.foldl_cons] at h1 h2
    obtain ⟨a1, a2, a3⟩ := ih _ h1 h2
    have key : acc.2.1 = [] ∧ acc.2.2 = [] ∧ d1 actual x = 0 := by
      unfold Core.ecStep1 at a1 a2
      unfold d1
      cases h : actualBits actual x.2.1 with
      | none => simp [h] at a2
      | some ab =>
        simp only [h] at a1 a2 ⊢
        by_cases p1 : popcount (bitsMinus ab x.2.2) > 0
        · simp [p1] at a1
        · by_cases p2 : popcount (bitsMinus x.2.2 ab) > 0
          · simp [p2] at a2
          · simp only [p1, p2, if_false] at a1 a2
            refine ⟨a1, a2, ?_⟩
            omega
    refine ⟨key.1, key.2.1, ?_⟩
    intro y hy
    rcases List.mem_cons.mp hy with rfl | hy
    · exact key.2.2
    · exact a3 y hy

/-- nothing reported as new by loop 2: every message entry was already registered -/
theorem loop2_list_empty (c0 : Core) (s : Nat) (L : List EcInfo) (acc : Core × List (Nat × Nat))
    (h : (L.foldl (Core.ecStep2 c0 s) acc).2 = []) : acc.2 = [] ∧ ∀ e ∈ L, c0.hasEc s e.id = true := by
  induction L generalizing acc with
  | nil => exact ⟨h, by simp⟩
  | cons x L ih =>
    simp only [List.foldl_cons] at h
    obtain ⟨a1, a2⟩ := ih _ h
    have key : acc.2 = [] ∧ c0.hasEc s x.id = true := by
      unfold Core.ecStep2 at a1
      by_cases p : c0.hasEc s x.id = true
      · simp only [p, if_true] at a1; exact ⟨a1, p⟩
      · simp [p] at a1
    refine ⟨key.1, ?_⟩
    intro y hy
    rcases List.mem_cons.mp hy with rfl | hy
    · exact key.2
    · exact a2 y hy

/-! ## loop 1 as a sum over the volume ids -/

def row (c : Core) (s t m : Nat) : List (Nat × Nat × Nat) :=
  (List.range m).filterMap fun vid => if c.ecs s t vid = 0 then none else some (t, vid, c.ecs s t vid)

theorem ecOf_eq (c : Core) (s : Nat) : c.ecOf s = row c s 0 (c.nVid + 1) ++ row c s 1 (c.nVid + 1) := by
  simp [Core.ecOf, row, show List.range 2 = [0, 1] from rfl]

theorem lsum_row (c : Core) (s t t' m : Nat) (g : Nat × Nat × Nat → Int) :
    lsum (fun x => if x.1 = t' then g x else 0) (row c s t m) =
      if t = t' then sumI m (fun vid => if c.ecs s t vid = 0 then 0 else g (t, vid, c.ecs s t vid)) else 0 := by
  induction m with
  | zero => simp [row, lsum, sumI]
  | succ m ih =>
    unfold row at ih ⊢
    rw [List.range_succ, List.filterMap_append, lsum_append, ih]
    by_cases e : t = t'
    · subst e
      simp only [if_true, sumI]
      by_cases z : c.ecs s t m = 0
      · simp [z, lsum]
      · simp [z, lsum]
    · simp only [e, if_false]
      by_cases z : c.ecs s t m = 0
      · simp [z, lsum]
      · simp [z, lsum, e]

/-- the condition under which the model's two-disk enumeration sees every registered shard -/
def EcDisksOk (c : Core) : Prop := ∀ s t vid, 2 ≤ t → c.ecs s t vid = 0

theorem loop1_sum (c : Core) (s t' : Nat) (g : Nat × Nat × Nat → Int) (hd : EcDisksOk c) :
    lsum (fun x => if x.1 = t' then g x else 0) (c.ecOf s) =
      sumI (c.nVid + 1) (fun vid => if c.ecs s t' vid = 0 then 0 else g (t', vid, c.ecs s t' vid)) := by
  rw [ecOf_eq, lsum_append, lsum_row, lsum_row]
  by_cases e0 : 0 = t'
  · subst e0; simp
  · by_cases e1 : 1 = t'
    · subst e1; simp
    · simp only [e0, e1, if_false]
      rw [sumI_zero]
      · rfl
      · intro i _
        rw [hd s t' i (by omega)]; rfl

/-! ## the full EC heartbeat -/

/-- well-formed full EC heartbeat of server `s` in state `c`: ids in range and pairwise different (one
    message never lists a volume twice), modelled disk types, and the disk type of an EC volume is a
    function of the volume id (the message names the disk type the volume's shards are registered on) -/
structure EcFullOk (c : Core) (s : Nat) (actual : List EcInfo) : Prop where
  nodup : (actual.map (·.id)).Nodup
  range : ∀ e ∈ actual, e.id < c.nVid + 1 ∧ e.disk < 2
  disk : ∀ e ∈ actual, ∀ t, t < 2 → c.ecs s t e.id ≠ 0 → t = e.disk

/-- per volume id and disk type: the deltas of both loops add up to popcount(stored) − popcount(old) -/
theorem ec_vid_balance (c : Core) (s : Nat) (actual : List EcInfo) (w : EcFullOk c s actual) (hd : EcDisksOk c) (base : Core)
    (hb : ∀ t vid, base.ecs s t vid = 0) (t vid : Nat) :
    (popcount (c.ecs s t vid) : Int)
      + (if c.ecs s t vid = 0 then 0 else d1 actual (t, vid, c.ecs s t vid))
      + lsum (fun e => if e.id = vid then d2 c s t e else 0) actual
    = (popcount ((actual.foldl (Core.ecStore s) base).ecs s t vid) : Int) := by
  by_cases hex : ∃ e ∈ actual, e.id = vid
  · obtain ⟨e, he, rfl⟩ := hex
    rw [lsum_vid_of_mem (d2 c s t) actual e w.nodup he, store_ecs_of_mem s actual e w.nodup he base t, hb]
    have hab := actualBits_of_mem actual e w.nodup he
    by_cases z : c.ecs s t e.id = 0
    · simp only [z, if_true, popcount_zero]
      by_cases ht : e.disk = t
      · -- not registered on the message's disk: by `disk` not registered on the other one either
        have hno : c.hasEc s e.id = false := by
          unfold Core.hasEc
          have h0 : c.ecs s 0 e.id = 0 := by
            by_cases q : c.ecs s 0 e.id = 0
            · exact q
            · have := w.disk e he 0 (by decide) q; rw [← this] at ht; subst ht; exact z
          have h1 : c.ecs s 1 e.id = 0 := by
            by_cases q : c.ecs s 1 e.id = 0
            · exact q
            · have := w.disk e he 1 (by decide) q; rw [← this] at ht; subst ht; exact z
          simp [h0, h1]
        simp [d2, hno, ht]
      · simp [d2, ht, popcount_zero]
    · have ht2 : t < 2 := by
        by_cases q : t < 2
        · exact q
        · exact absurd (hd s t e.id (by omega)) z
      have ht : t = e.disk := w.disk e he t ht2 z
      have hyes : c.hasEc s e.id = true := by
        unfold Core.hasEc
        have : t = 0 ∨ t = 1 := by omega
        rcases this with rfl | rfl <;> simp [z]
      simp only [z, if_false, d1, hab, d2, hyes, if_true, ht.symm]
      have := popcount_diff e.bits (c.ecs s t e.id)
      omega
  · have hno : ∀ e ∈ actual, e.id ≠ vid := fun e he h => hex ⟨e, he, h⟩
    rw [lsum_zero _ actual (fun e he => by simp [hno e he]),
      store_ecs_other s actual base s t vid (Or.inr (fun e he hh => hno e he hh.2)), hb]
    by_cases z : c.ecs s t vid = 0
    · simp [z, popcount_zero]
    · simp only [z, if_false, d1, actualBits_of_not_mem actual vid hno, popcount_zero]
      omega

/-- C12, full EC heartbeat: after `DataNode.UpdateEcShards` the EC shard counter of every disk of every
    connected server equals the recount of the registered shard bits -/
theorem diskEc_updateEcShards (c : Core) (s : Nat) (actual : List EcInfo) (h : DiskEcOk c) (hc : c.conn s = true)
    (w : EcFullOk c s actual) (hd : EcDisksOk c) : DiskEcOk (c.updateEcShards s actual).1 := by
  -- the two loops
  have T1 := loop1_track s actual (c.ecOf s) (c, [], [])
  have T2 := loop2_track c s actual
    ((List.foldl (Core.ecStep1 s actual) (c, [], []) (c.ecOf s)).1, (List.foldl (Core.ecStep1 s actual) (c, [], []) (c.ecOf s)).2.1)
  obtain ⟨a1, a2, a3, a4⟩ := T1
  obtain ⟨b1, b2, b3, b4⟩ := T2
  simp only [] at a1 a2 a3 a4 b1 b2 b3 b4
  unfold Core.updateEcShards
  simp only []
  split
  · next hemp =>
    -- nothing changed: all deltas are zero and the shard map is kept
    simp only [Bool.and_eq_true, List.isEmpty_iff] at hemp
    obtain ⟨e2, e1⟩ := hemp
    obtain ⟨e21, e22⟩ := loop2_list_empty c s actual _ e2
    simp only [] at e21
    obtain ⟨_, _, e13⟩ := loop1_lists_empty s actual (c.ecOf s) (c, [], []) e21 e1
    intro s' t' hc'
    rw [b1, a1] at hc'
    rw [b4, a4]
    have z1 : lsum (fun x => if x.1 = t' then d1 actual x else 0) (c.ecOf s) = 0 :=
      lsum_zero _ _ (fun x hx => by simp [e13 x hx])
    have z2 : lsum (d2 c s t') actual = 0 :=
      lsum_zero _ _ (fun x hx => by simp [d2, e22 x hx])
    rw [z1, z2, h s' t' hc']
    unfold recountEc
    rw [b2, a2, b3, a3]
    simp
  · -- the shard map of `s` is rebuilt from the message
    have F := store_fields s actual
      { (List.foldl (Core.ecStep2 c s) ((List.foldl (Core.ecStep1 s actual) (c, [], []) (c.ecOf s)).1, (List.foldl (Core.ecStep1 s actual) (c, [], []) (c.ecOf s)).2.1) actual).1 with
        ecs := fun x => if x = s then fun _ _ => 0 else
          (List.foldl (Core.ecStep2 c s) ((List.foldl (Core.ecStep1 s actual) (c, [], []) (c.ecOf s)).1, (List.foldl (Core.ecStep1 s actual) (c, [], []) (c.ecOf s)).2.1) actual).1.ecs x }
    obtain ⟨f1, f2, f3⟩ := F
    intro s' t' hc'
    rw [f1] at hc'
    simp only [] at hc'
    rw [b1, a1] at hc'
    rw [f3]
    simp only []
    rw [b4, a4, h s' t' hc']
    unfold recountEc
    rw [f2]
    simp only []
    rw [b2, a2]
    by_cases es : s' = s
    · subst es
      simp only [if_true]
      rw [loop1_sum c s' t' (d1 actual) hd, lsum_by_vid (c.nVid + 1) (d2 c s' t') actual (fun e he => (w.range e he).1)]
      rw [← sumI_add, ← sumI_add]
      apply sumI_congr
      intro vid _
      exact ec_vid_balance c s' actual w hd _ (fun t v => by simp) t' vid
    · simp only [es, if_false, Int.add_zero]
      apply sumI_congr
      intro vid _
      rw [store_ecs_other s actual _ s' t' vid (Or.inl es)]
      simp only [es, if_false]
      rw [b3, a3]

/-! ## shards are only ever registered on the two modelled disk types -/

theorem ecDisks_updateEcShards (c : Core) (s : Nat) (actual : List EcInfo) (hd : EcDisksOk c)
    (hr : ∀ e ∈ actual, e.disk < 2) : EcDisksOk (c.updateEcShards s actual).1 := by
  have T1 := loop1_track s actual (c.ecOf s) (c, [], [])
  have T2 := loop2_track c s actual
    ((List.foldl (Core.ecStep1 s actual) (c, [], []) (c.ecOf s)).1, (List.foldl (Core.ecStep1 s actual) (c, [], []) (c.ecOf s)).2.1)
  obtain ⟨_, _, a3, _⟩ := T1
  obtain ⟨_, _, b3, _⟩ := T2
  simp only [] at a3 b3
  unfold Core.updateEcShards
  simp only []
  split
  · intro s' t vid ht; rw [b3, a3]; exact hd s' t vid ht
  · intro s' t vid ht
    rw [store_ecs_other s actual _ s' t vid (Or.inr (fun e he hh => by have := hr e he; omega))]
    simp only []
    split
    · rfl
    · rw [b3, a3]; exact hd s' t vid ht

end SwV.Lemmas.C12Ec
