/- C04 — helper lemmas: the ordered map (MemDb), "last entry per key" characterisations of
   LoadFromIdx / doLoading / makeupDiff, the copy phases, the idx suffix written by operations. -/
import SwV.Model.C04
import SwV.Spec.C04
import SwV.Spec.C01
namespace SwV.Lemmas.C04
open SwV.Model.C01 SwV.Model.C04 SwV.Spec.C04

/-! ## MemDb -/

theorem mget_cons (x : IEnt) (xs : List IEnt) (k : Nat) :
    mget (x :: xs) k = if x.key = k then some x else mget xs k := rfl

theorem mget_mset (m : List IEnt) (e : IEnt) (k : Nat) :
    mget (mset m e) k = if e.key = k then some e else mget m k := by
  induction m with
  | nil => simp [mset, mget]
  | cons x xs ih =>
    unfold mset
    by_cases h1 : e.key < x.key
    · simp [h1, mget]
    · by_cases h2 : e.key = x.key
      · rw [if_neg h1, if_pos h2]
        unfold mget
        by_cases h3 : x.key = k
        · simp [h3, h2.trans h3]
        · have : ¬ e.key = k := fun h => h3 (h2.symm.trans h)
          simp [h3, this]
      · rw [if_neg h1, if_neg h2]
        unfold mget
        rw [ih]
        by_cases h3 : x.key = k
        · have : ¬ e.key = k := fun h => h2 (h.trans h3.symm)
          simp [h3, this]
        · simp [h3]

theorem mget_mdel (m : List IEnt) (j k : Nat) :
    mget (mdel m j) k = if j = k then none else mget m k := by
  induction m with
  | nil => simp [mdel, mget]
  | cons x xs ih =>
    unfold mdel
    by_cases h1 : x.key = j
    · simp only [h1, if_true, ih, mget]
      by_cases h2 : j = k <;> simp [h2]
    · simp only [h1, if_false, mget, ih]
      by_cases h2 : j = k
      · have : ¬ x.key = k := fun h => h1 (h.trans h2.symm)
        simp [h2, this]
      · simp [h2]

theorem mget_some {m : List IEnt} {k : Nat} {e : IEnt} (h : mget m k = some e) : e ∈ m ∧ e.key = k := by
  induction m with
  | nil => simp [mget] at h
  | cons x xs ih =>
    unfold mget at h
    by_cases h1 : x.key = k
    · simp [h1] at h; subst h; exact ⟨List.mem_cons_self, h1⟩
    · simp [h1] at h; exact ⟨List.mem_cons_of_mem _ (ih h).1, (ih h).2⟩

/-- strictly ascending keys -/
def KeysLt (m : List IEnt) : Prop := m.Pairwise (fun a b => a.key < b.key)

theorem mem_mset {m : List IEnt} {e x : IEnt} (h : x ∈ mset m e) : x = e ∨ x ∈ m := by
  induction m with
  | nil => simp [mset] at h; exact Or.inl h
  | cons y ys ih =>
    unfold mset at h
    by_cases h1 : e.key < y.key
    · simp [h1] at h; rcases h with h | h | h
      · exact Or.inl h
      · exact Or.inr (h ▸ List.mem_cons_self)
      · exact Or.inr (List.mem_cons_of_mem _ h)
    · by_cases h2 : e.key = y.key
      · rw [if_neg h1, if_pos h2] at h; rcases List.mem_cons.1 h with h | h
        · exact Or.inl h
        · exact Or.inr (List.mem_cons_of_mem _ h)
      · rw [if_neg h1, if_neg h2] at h; rcases List.mem_cons.1 h with h | h
        · exact Or.inr (h ▸ List.mem_cons_self)
        · rcases ih h with h | h
          · exact Or.inl h
          · exact Or.inr (List.mem_cons_of_mem _ h)

theorem keysLt_mset {m : List IEnt} (e : IEnt) (h : KeysLt m) : KeysLt (mset m e) := by
  induction m with
  | nil => simp [mset, KeysLt]
  | cons y ys ih =>
    unfold KeysLt at h ⊢
    rw [List.pairwise_cons] at h
    unfold mset
    by_cases h1 : e.key < y.key
    · simp only [h1, if_true]
      refine List.pairwise_cons.2 ⟨?_, List.pairwise_cons.2 h⟩
      intro b hb
      rcases List.mem_cons.1 hb with hb | hb
      · exact hb ▸ h1
      · exact Nat.lt_trans h1 (h.1 b hb)
    · by_cases h2 : e.key = y.key
      · rw [if_neg h1, if_pos h2]
        exact List.pairwise_cons.2 ⟨fun b hb => h2 ▸ h.1 b hb, h.2⟩
      · rw [if_neg h1, if_neg h2]
        refine List.pairwise_cons.2 ⟨?_, ih h.2⟩
        intro b hb
        rcases mem_mset hb with hb | hb
        · subst hb; omega
        · exact h.1 b hb

theorem mem_mdel {m : List IEnt} {j : Nat} {x : IEnt} (h : x ∈ mdel m j) : x ∈ m := by
  induction m with
  | nil => simp [mdel] at h
  | cons y ys ih =>
    unfold mdel at h
    by_cases h1 : y.key = j
    · simp [h1] at h; exact List.mem_cons_of_mem _ (ih h)
    · simp [h1] at h; rcases h with h | h
      · exact h ▸ List.mem_cons_self
      · exact List.mem_cons_of_mem _ (ih h)

theorem keysLt_mdel {m : List IEnt} (j : Nat) (h : KeysLt m) : KeysLt (mdel m j) := by
  induction m with
  | nil => simp [mdel, KeysLt]
  | cons y ys ih =>
    unfold KeysLt at h ⊢
    rw [List.pairwise_cons] at h
    unfold mdel
    by_cases h1 : y.key = j
    · simp only [h1, if_true]; exact ih h.2
    · simp only [h1, if_false]
      exact List.pairwise_cons.2 ⟨fun b hb => h.1 b (mem_mdel hb), ih h.2⟩

/-! ## last entry per key -/

theorem lastFor_foldl (l : List IEnt) (k : Nat) (acc : Option IEnt) :
    l.foldl (fun acc e => if e.key = k then some e else acc) acc = (lastFor l k).or acc := by
  induction l generalizing acc with
  | nil => simp [lastFor]
  | cons x xs ih =>
    simp only [List.foldl_cons, lastFor]
    rw [ih, ih (if x.key = k then some x else none)]
    by_cases h : x.key = k <;> simp [h, Option.or_assoc]

theorem lastFor_nil (k : Nat) : lastFor [] k = none := rfl

theorem lastFor_cons (x : IEnt) (xs : List IEnt) (k : Nat) :
    lastFor (x :: xs) k = (lastFor xs k).or (if x.key = k then some x else none) := by
  simp only [lastFor, List.foldl_cons]
  exact lastFor_foldl xs k _

theorem lastFor_append (a b : List IEnt) (k : Nat) :
    lastFor (a ++ b) k = (lastFor b k).or (lastFor a k) := by
  simp only [lastFor, List.foldl_append]
  exact lastFor_foldl b k _

theorem lastFor_some {l : List IEnt} {k : Nat} {e : IEnt} (h : lastFor l k = some e) : e ∈ l ∧ e.key = k := by
  induction l with
  | nil => simp [lastFor] at h
  | cons x xs ih =>
    rw [lastFor_cons] at h
    cases hx : lastFor xs k with
    | some e' =>
      rw [hx] at h; simp at h; subst h
      exact ⟨List.mem_cons_of_mem _ (ih hx).1, (ih hx).2⟩
    | none =>
      rw [hx] at h; simp at h
      exact ⟨h.2 ▸ List.mem_cons_self, h.2 ▸ h.1⟩

theorem lastFor_none_of_not_mem {l : List IEnt} {k : Nat} (h : ∀ e ∈ l, e.key ≠ k) : lastFor l k = none := by
  cases hx : lastFor l k with
  | none => rfl
  | some e => exact absurd (lastFor_some hx).2 (h e (lastFor_some hx).1)

theorem lastFor_eq_mget {l : List IEnt} (h : KeysLt l) (k : Nat) : lastFor l k = mget l k := by
  induction l with
  | nil => rfl
  | cons x xs ih =>
    unfold KeysLt at h
    rw [List.pairwise_cons] at h
    rw [lastFor_cons, ih h.2, mget_cons]
    by_cases h1 : x.key = k
    · have : mget xs k = none := by
        cases hm : mget xs k with
        | none => rfl
        | some e =>
          have := mget_some hm
          have := h.1 e this.1
          omega
      simp [h1, this]
    · simp [h1]

/-! ## LoadFromIdx -/

/-- what MemDb holds for a key whose last idx entry is `acc` -/
def memOf (acc : Option IEnt) : Option IEnt :=
  acc.bind fun e => if e.off = 0 ∨ e.size < 0 then none else some e

theorem mget_loadFromIdx_aux (l : List IEnt) (k : Nat) (m : List IEnt) (acc : Option IEnt)
    (h : mget m k = memOf acc) :
    mget (l.foldl (fun m e => if e.off = 0 ∨ e.size < 0 then mdel m e.key else mset m e) m) k
      = memOf (l.foldl (fun acc e => if e.key = k then some e else acc) acc) := by
  induction l generalizing m acc with
  | nil => simpa using h
  | cons x xs ih =>
    simp only [List.foldl_cons]
    apply ih
    by_cases hk : x.key = k
    · by_cases hd : x.off = 0 ∨ x.size < 0
      · simp [hk, hd, mget_mdel, memOf]
      · simp [hk, hd, mget_mset, memOf]
    · by_cases hd : x.off = 0 ∨ x.size < 0
      · simp [hk, hd, mget_mdel, h]
      · simp [hk, hd, mget_mset, h]

theorem mget_loadFromIdx (l : List IEnt) (k : Nat) : mget (loadFromIdx l) k = memOf (lastFor l k) :=
  mget_loadFromIdx_aux l k [] none rfl

theorem keysLt_loadFromIdx (l : List IEnt) : KeysLt (loadFromIdx l) := by
  unfold loadFromIdx
  have : ∀ m, KeysLt m → KeysLt (l.foldl (fun m e => if e.off = 0 ∨ e.size < 0 then mdel m e.key else mset m e) m) := by
    induction l with
    | nil => intro m h; exact h
    | cons x xs ih =>
      intro m h
      simp only [List.foldl_cons]
      apply ih
      by_cases hd : x.off = 0 ∨ x.size < 0
      · simp only [hd, if_true]; exact keysLt_mdel _ h
      · simp only [hd, if_false]; exact keysLt_mset _ h
  exact this [] List.Pairwise.nil


/-! ## doLoading / generateLevelDbFile -/

theorem validEnt_iff (e : IEnt) : validEnt e = true ↔ e.off ≠ 0 ∧ 0 < e.size := by
  simp [validEnt]

theorem setIdx_same (m : Nat → Option Ent) (k : Nat) (e : Ent) : setIdx m k e k = some e := by simp [setIdx]
theorem setIdx_ne (m : Nat → Option Ent) {j k : Nat} (e : Ent) (h : k ≠ j) : setIdx m j e k = m k := by simp [setIdx, h]

theorem delIdx_ne (kind : Kind) (m : Nat → Option Ent) {j k : Nat} (h : k ≠ j) : delIdx kind m j k = m k := by
  cases kind with
  | ldb => simp [delIdx, h]
  | mem =>
    unfold delIdx
    simp only
    cases m j with
    | none => rfl
    | some e => by_cases hp : 0 < e.size <;> simp [hp, setIdx, h]

/-- the index value of key `k` after loading an idx file whose last entry for `k` is `acc` -/
def RelOK (k : Nat) (m : Nat → Option Ent) (acc : Option IEnt) : Prop :=
  (∀ e', m k = some e' → e'.size ≠ 0) ∧
  (match acc with
   | none => m k = none
   | some e => if validEnt e = true then m k = some ⟨e.off, e.size⟩ else (m k = none ∨ ∃ e', m k = some e' ∧ e'.size < 0))

theorem reload_char_aux (kind : Kind) (l : List IEnt) (k : Nat) (m : Nat → Option Ent) (acc : Option IEnt)
    (h : RelOK k m acc) :
    RelOK k (l.foldl (fun m e => if validEnt e then setIdx m e.key ⟨e.off, e.size⟩ else delIdx kind m e.key) m)
            (l.foldl (fun acc e => if e.key = k then some e else acc) acc) := by
  induction l generalizing m acc with
  | nil => exact h
  | cons x xs ih =>
    simp only [List.foldl_cons]
    apply ih
    by_cases hk : x.key = k
    · by_cases hv : validEnt x = true
      · have := (validEnt_iff x).1 hv
        simp only [hv, if_true, hk]
        refine ⟨?_, ?_⟩
        · intro e' he'; rw [setIdx_same] at he'; cases he'; simp; omega
        · simp [hv, setIdx_same]
      · simp only [hv, hk, if_true]
        simp only [Bool.false_eq_true, if_false]
        have hv' : ¬ (validEnt x = true) := hv
        cases kind with
        | ldb =>
          refine ⟨?_, ?_⟩
          · intro e' he'; simp [delIdx] at he'
          · simp [hv', delIdx]
        | mem =>
          cases hm : m k with
          | none =>
            have : delIdx Kind.mem m k = m := by simp [delIdx, hm]
            rw [this]
            exact ⟨by simp [hm], by simp [hv', hm]⟩
          | some e =>
            by_cases hp : 0 < e.size
            · have : delIdx Kind.mem m k k = some ⟨e.off, -e.size⟩ := by simp [delIdx, hm, hp, setIdx]
              refine ⟨?_, ?_⟩
              · intro e' he'; rw [this] at he'; cases he'; simp; omega
              · simp only [hv', if_false]; exact Or.inr ⟨_, this, by simp; omega⟩
            · have : delIdx Kind.mem m k = m := by simp [delIdx, hm, hp]
              rw [this]
              have hne := h.1 e hm
              exact ⟨h.1, by simp only [hv', if_false]; exact Or.inr ⟨e, hm, by omega⟩⟩
    · have hk' : k ≠ x.key := fun h => hk h.symm
      have hm : (if validEnt x = true then setIdx m x.key ⟨x.off, x.size⟩ else delIdx kind m x.key) k = m k := by
        by_cases hv : validEnt x = true
        · simp only [hv, if_true]; exact setIdx_ne _ _ hk'
        · simp only [hv]; exact delIdx_ne _ _ hk'
      simp only [hk, if_false]
      unfold RelOK
      rw [hm]
      exact h

theorem reload_char (kind : Kind) (l : List IEnt) (k : Nat) : RelOK k (reloadIdx kind l) (lastFor l k) :=
  reload_char_aux kind l k (fun _ => none) none ⟨by simp, rfl⟩

/-! ## the new index written by the copy phases -/

theorem mget_foldl_mset (l : List IEnt) (m : List IEnt) (k : Nat) :
    mget (l.foldl mset m) k = (lastFor l k).or (mget m k) := by
  induction l generalizing m with
  | nil => simp [lastFor]
  | cons x xs ih =>
    simp only [List.foldl_cons]
    rw [ih, mget_mset, lastFor_cons]
    by_cases h : x.key = k <;> simp [h, Option.or_assoc]

theorem keysLt_foldl_mset (l : List IEnt) (m : List IEnt) (h : KeysLt m) : KeysLt (l.foldl mset m) := by
  induction l generalizing m with
  | nil => exact h
  | cons x xs ih => exact ih _ (keysLt_mset x h)

def cpxEnts (keep : List (Nat × Rec × Nat)) : List IEnt :=
  (keep.zipIdx 1).map fun p => (⟨p.1.2.1.id, p.2, p.1.2.1.size⟩ : IEnt)

theorem cpxOf_eq (keep : List (Nat × Rec × Nat)) : cpxOf keep = (cpxEnts keep).foldl mset [] := by
  simp [cpxOf, cpxEnts, List.foldl_map]

theorem keysLt_cpxOf (keep : List (Nat × Rec × Nat)) : KeysLt (cpxOf keep) := by
  rw [cpxOf_eq]; exact keysLt_foldl_mset _ _ List.Pairwise.nil

theorem mget_cpxOf (keep : List (Nat × Rec × Nat)) (k : Nat) : mget (cpxOf keep) k = lastFor (cpxEnts keep) k := by
  rw [cpxOf_eq, mget_foldl_mset]; simp [mget]

theorem lastFor_cpxOf (keep : List (Nat × Rec × Nat)) (k : Nat) : lastFor (cpxOf keep) k = lastFor (cpxEnts keep) k := by
  rw [lastFor_eq_mget (keysLt_cpxOf keep), mget_cpxOf]

theorem mem_cpxEnts {keep : List (Nat × Rec × Nat)} {e : IEnt} (h : e ∈ cpxEnts keep) :
    ∃ p, keep[e.off - 1]? = some p ∧ 1 ≤ e.off ∧ e.key = p.2.1.id ∧ e.size = p.2.1.size := by
  unfold cpxEnts at h
  obtain ⟨q, hq, rfl⟩ := List.mem_map.1 h
  obtain ⟨p, j⟩ := q
  have := List.mk_mem_zipIdx_iff_le_and_getElem?_sub.1 hq
  exact ⟨p, this.2, this.1, rfl, rfl⟩

theorem cpxEnts_of_mem {keep : List (Nat × Rec × Nat)} {p : Nat × Rec × Nat} (h : p ∈ keep) :
    ∃ e ∈ cpxEnts keep, e.key = p.2.1.id := by
  obtain ⟨i, hi⟩ := List.mem_iff_getElem?.1 h
  refine ⟨⟨p.2.1.id, i + 1, p.2.1.size⟩, ?_, rfl⟩
  unfold cpxEnts
  refine List.mem_map.2 ⟨(p, i + 1), ?_, rfl⟩
  exact List.mk_mem_zipIdx_iff_le_and_getElem?_sub.2 ⟨by omega, by simpa using hi⟩


/-! ## well-formed volumes and the copy phases -/

structure WF (s : CVol) : Prop where
  bound : ∀ k e, s.v.idx k = some e → e.off ≠ 0 ∧ e.off ≤ s.v.log.length
  own   : ∀ k e r, s.v.idx k = some e → recAt s.v.log e.off = some r → r.id = k ∧ (0 ≤ e.size → r.size = e.size)
  mem   : ∀ k, mget (loadFromIdx s.ilog) k =
            (match s.v.idx k with
             | some e => if 0 ≤ e.size then some ⟨k, e.off, e.size⟩ else none
             | none => none)
  len   : s.ats.length = s.v.log.length

theorem recAt_eq (log : List Rec) {off : Nat} (h : off ≠ 0) : recAt log off = log[off - 1]? := by
  simp [recAt, h]

theorem recAt_of_bound {log : List Rec} {off : Nat} (h0 : off ≠ 0) (h1 : off ≤ log.length) : ∃ r, recAt log off = some r := by
  rw [recAt_eq log h0]
  exact ⟨log[off - 1]'(by omega), List.getElem?_eq_getElem (by omega)⟩

theorem recAt_some_bound {log : List Rec} {off : Nat} {r : Rec} (h : recAt log off = some r) : off ≠ 0 ∧ off ≤ log.length := by
  by_cases h0 : off = 0
  · simp [recAt, h0] at h
  · rw [recAt_eq log h0] at h
    have := (List.getElem?_eq_some_iff.1 h).1
    omega

theorem recAt_append_left {log : List Rec} (ext : List Rec) {off : Nat} {r : Rec} (h : recAt log off = some r) :
    recAt (log ++ ext) off = some r := by
  have hb := recAt_some_bound h
  rw [recAt_eq _ hb.1] at h ⊢
  rw [List.getElem?_append_left (by omega)]; exact h

theorem atOf_append_left (ats ext : List Nat) {off : Nat} (h0 : off ≠ 0) (h1 : off ≤ ats.length) :
    atOf (ats ++ ext) off = atOf ats off := by
  unfold atOf
  rw [List.getD_eq_getElem?_getD, List.getD_eq_getElem?_getD, List.getElem?_append_left (by omega)]

theorem mem_olog (s : CVol) (p : Nat × Rec × Nat) :
    p ∈ olog s ↔ recAt s.v.log p.1 = some p.2.1 ∧ p.2.2 = atOf s.ats p.1 := by
  unfold olog
  constructor
  · intro h
    obtain ⟨q, hq, rfl⟩ := List.mem_map.1 h
    obtain ⟨r, o⟩ := q
    have := List.mk_mem_zipIdx_iff_le_and_getElem?_sub.1 hq
    refine ⟨?_, rfl⟩
    show recAt s.v.log o = some r
    rw [recAt_eq _ (by omega)]; exact this.2
  · intro ⟨h1, h2⟩
    obtain ⟨o, r, a⟩ := p
    simp only at h1 h2
    have hb := recAt_some_bound h1
    refine List.mem_map.2 ⟨(r, o), ?_, by simp [h2]⟩
    rw [recAt_eq _ hb.1] at h1
    exact List.mk_mem_zipIdx_iff_le_and_getElem?_sub.2 ⟨by omega, h1⟩

def KeepSound (s : CVol) (keep : List (Nat × Rec × Nat)) : Prop :=
  ∀ p ∈ keep, recAt s.v.log p.1 = some p.2.1 ∧ p.2.2 = atOf s.ats p.1 ∧
    s.v.idx p.2.1.id = some ⟨p.1, p.2.1.size⟩ ∧ 0 ≤ p.2.1.size

def KeepComplete (s : CVol) (nowSec : Nat) (keep : List (Nat × Rec × Nat)) : Prop :=
  ∀ k e r, s.v.idx k = some e → 0 < e.size → recAt s.v.log e.off = some r →
    dropsTtl s nowSec r (atOf s.ats e.off) = false → (e.off, r, atOf s.ats e.off) ∈ keep

theorem keepScan_sound {s : CVol} (hw : WF s) (nowSec : Nat) : KeepSound s (keepScan s nowSec) := by
  intro p hp
  unfold keepScan at hp
  obtain ⟨hm, hpred⟩ := List.mem_filter.1 hp
  obtain ⟨h1, h2⟩ := (mem_olog s p).1 hm
  simp only [Bool.and_eq_true] at hpred
  obtain ⟨_, hidx⟩ := hpred
  cases hi : s.v.idx p.2.1.id with
  | none => simp [hi] at hidx
  | some e =>
    simp only [hi, Bool.and_eq_true, beq_iff_eq, decide_eq_true_eq] at hidx
    obtain ⟨heo, hes⟩ := hidx
    have := hw.own _ e p.2.1 hi (heo ▸ h1)
    have hsz := this.2 (by omega)
    refine ⟨h1, h2, ?_, by omega⟩
    cases e; simp only at heo hsz ⊢; subst heo; rw [hsz]

theorem keepScan_complete {s : CVol} (hw : WF s) (nowSec : Nat) : KeepComplete s nowSec (keepScan s nowSec) := by
  intro k e r hi hs hr hd
  unfold keepScan
  refine List.mem_filter.2 ⟨(mem_olog s _).2 ⟨hr, rfl⟩, ?_⟩
  have := (hw.own k e r hi hr).1
  simp [hd, this, hi, hs]

theorem mget_of_mem {l : List IEnt} (h : KeysLt l) {e : IEnt} (he : e ∈ l) : mget l e.key = some e := by
  induction l with
  | nil => cases he
  | cons x xs ih =>
    unfold KeysLt at h
    rw [List.pairwise_cons] at h
    rw [mget_cons]
    rcases List.mem_cons.1 he with he | he
    · subst he; simp
    · have := h.1 e he
      have hne : ¬ x.key = e.key := by omega
      simp only [hne, if_false]
      exact ih h.2 he

theorem keepIdx_sound {s : CVol} (hw : WF s) (nowSec : Nat) : KeepSound s (keepIdx s nowSec) := by
  intro p hp
  unfold keepIdx at hp
  obtain ⟨e, he, hb⟩ := List.mem_filterMap.1 hp
  by_cases hd : e.off = 0 ∨ e.size < 0
  · simp [hd] at hb
  · simp only [hd, if_false] at hb
    cases hr : recAt s.v.log e.off with
    | none => simp [hr] at hb
    | some r =>
      simp only [hr] at hb
      by_cases hsz : r.size = e.size
      · simp only [hsz, not_true_eq_false, if_false] at hb
        by_cases hdr : dropsTtl s nowSec r (atOf s.ats e.off) = true
        · simp [hdr] at hb
        · simp only [hdr, if_false] at hb
          cases hb
          have hmg := mget_of_mem (keysLt_loadFromIdx s.ilog) he
          rw [hw.mem e.key] at hmg
          cases hi : s.v.idx e.key with
          | none => simp [hi] at hmg
          | some e' =>
            simp only [hi] at hmg
            by_cases hpos : 0 ≤ e'.size
            · simp only [hpos, if_true, Option.some.injEq] at hmg
              have ho : e'.off = e.off := by rw [← hmg]
              have hs' : e'.size = e.size := by rw [← hmg]
              have hown := hw.own e.key e' r hi (ho ▸ hr)
              refine ⟨hr, rfl, ?_, by simp only; omega⟩
              simp only
              rw [hown.1, hi]
              cases e'; simp only at ho hs' ⊢; rw [ho, hs', hsz]
            · simp [hpos] at hmg
      · simp [hsz] at hb

theorem keepIdx_complete {s : CVol} (hw : WF s) (nowSec : Nat) : KeepComplete s nowSec (keepIdx s nowSec) := by
  intro k e r hi hs hr hd
  unfold keepIdx
  have hm := hw.mem k
  simp only [hi] at hm
  have hpos : 0 ≤ e.size := by omega
  simp only [hpos, if_true] at hm
  have hmem := (mget_some hm).1
  refine List.mem_filterMap.2 ⟨_, hmem, ?_⟩
  have hb := hw.bound k e hi
  have hown := hw.own k e r hi hr
  have : ¬ (e.off = 0 ∨ e.size < 0) := by omega
  simp [this, hr, hown.2 hpos, hd]

theorem keepOf_sound {s : CVol} (hw : WF s) (alg nowSec : Nat) : KeepSound s (keepOf s alg nowSec) := by
  unfold keepOf; split
  · exact keepScan_sound hw nowSec
  · exact keepIdx_sound hw nowSec

theorem keepOf_complete {s : CVol} (hw : WF s) (alg nowSec : Nat) : KeepComplete s nowSec (keepOf s alg nowSec) := by
  unfold keepOf; split
  · exact keepScan_complete hw nowSec
  · exact keepIdx_complete hw nowSec

/-! ## reads -/

theorem view_none_idx {s : CVol} {k : Nat} (t : Nat) (h : s.v.idx k = none) : view s t k = none := by
  simp [view, readT, readStep, h]

theorem view_neg {s : CVol} {k : Nat} {e : Ent} (t : Nat) (h : s.v.idx k = some e) (hs : e.size < 0) : view s t k = none := by
  by_cases h0 : e.off = 0
  · simp [view, readT, readStep, h, h0]
  · simp [view, readT, readStep, h, h0, hs]

theorem view_live {s : CVol} {k off : Nat} {sz : Int} {r : Rec} (t : Nat) (hi : s.v.idx k = some ⟨off, sz⟩)
    (hoff : off ≠ 0) (hsz : 0 < sz) (hr : recAt s.v.log off = some r) (hrs : r.size = sz) :
    view s t k = if SwV.Model.C09.readable (needleOf r.c (atOf s.ats off)) t = true then some (r.cookie, r.c) else none := by
  have h1 : ¬ sz < 0 := by omega
  have h2 : ¬ sz = 0 := by omega
  by_cases hrd : SwV.Model.C09.readable (needleOf r.c (atOf s.ats off)) t = true
  · simp [view, readT, readStep, hi, hoff, h1, h2, hr, hrs, hsz, hrd]
  · simp [view, readT, readStep, hi, hoff, h1, h2, hr, hrs, hsz, hrd]

theorem view_empty {s : CVol} {k off : Nat} (t : Nat) (hi : s.v.idx k = some ⟨off, 0⟩) (hoff : off ≠ 0) :
    view s t k = some (0, Content.empty) := by
  simp [view, readT, readStep, hi, hoff]


/-! ## what one C01 step does to the log and the index -/
open SwV.Spec.C01 (opId)

inductive Eff (v v' : Vol) (op : Op) : Prop
  | same (h1 : v'.log = v.log) (h2 : v'.idx = v.idx) : Eff v v' op
  | put (x : Rec) (h1 : v'.log = v.log ++ [x]) (hid : x.id = opId op) (hw : ∃ id ck c, op = .write id ck c)
        (h2 : v'.idx = setIdx v.idx (opId op) ⟨v.log.length + 1, x.size⟩) (h3 : 0 ≤ x.size) : Eff v v' op
  | noput (x : Rec) (h1 : v'.log = v.log ++ [x]) (h2 : v'.idx = v.idx) (e : Ent) (h3 : v.idx (opId op) = some e)
        (h4 : ¬ e.off < v.log.length + 1) : Eff v v' op
  | del (x : Rec) (e : Ent) (h1 : v'.log = v.log ++ [x]) (hd : (∃ id ck, op = .delete id ck) ∨ (∃ id ck, op = .hdelete id ck))
        (h3 : v.idx (opId op) = some e) (h4 : 0 < e.size)
        (h2 : v'.idx = setIdx v.idx (opId op) ⟨e.off, -e.size⟩) (hx : x.id = opId op) (hxs : x.size = 0) : Eff v v' op

theorem write_eff (v : Vol) (id ck : Nat) (c : Content) : Eff v (writeStep v id ck c).1 (.write id ck c) := by
  unfold writeStep
  split
  · exact .same rfl rfl
  · simp only
    split
    · exact .same rfl rfl
    · split
      · exact .same rfl rfl
      · rename_i hcc
        cases hi : v.idx id with
        | none =>
          simp only [hi]
          refine .put _ rfl rfl ⟨id, ck, c, rfl⟩ ?_ (by simp)
          simp [opId]
        | some e =>
          simp only [hi]
          by_cases hlt : e.off < v.log.length + 1
          · refine .put _ rfl rfl ⟨id, ck, c, rfl⟩ ?_ (by simp)
            simp [opId, hlt]
          · refine .noput _ rfl ?_ e (by simp [opId, hi]) hlt
            simp [hlt]

theorem delete_eff (v : Vol) (id ck : Nat) (op : Op) (hop : op = .delete id ck ∨ op = .hdelete id ck) :
    Eff v (deleteStep v id ck).1 op := by
  have hid : opId op = id := by rcases hop with h | h <;> simp [h, opId]
  unfold deleteStep
  split
  · exact .same rfl rfl
  · cases hi : v.idx id with
    | none => exact .same rfl rfl
    | some e =>
      simp only
      split
      · rename_i hs
        refine .del _ e rfl ?_ (hid ▸ hi) hs (by rw [hid]) (by simp [hid]) rfl
        rcases hop with h | h
        · exact Or.inl ⟨id, ck, h⟩
        · exact Or.inr ⟨id, ck, h⟩
      · exact .same rfl rfl

theorem step_eff (v : Vol) (op : Op) : Eff v (step v op).1 op := by
  cases op with
  | write id ck c => exact write_eff v id ck c
  | delete id ck => exact delete_eff v id ck _ (Or.inl rfl)
  | read id ck => exact .same rfl rfl
  | setRO b => exact .same rfl rfl
  | hread id ck => exact .same rfl rfl
  | hdelete id ck =>
    simp only [step]
    unfold httpDelete
    split
    · split
      · exact .same rfl rfl
      · have := delete_eff v id ck (.hdelete id ck) (Or.inr rfl)
        split <;> rename_i h <;> (rw [h] at this; exact this)
    · exact .same rfl rfl


/-! ## the idx suffix written by the operations that run while the copy is in flight -/

structure Suf (s0 s : CVol) (ext : List Rec) (exta : List Nat) (suf : List IEnt) : Prop where
  hlog : s.v.log = s0.v.log ++ ext
  hats : s.ats = s0.ats ++ exta
  hlen : ext.length = exta.length
  hilog : s.ilog = s0.ilog ++ suf
  hsnap : s.snap = s0.snap
  hrev : s.rev = s0.rev
  hkind : s.kind = s0.kind
  bound : ∀ k e, s.v.idx k = some e → e.off ≠ 0 ∧ e.off ≤ s.v.log.length
  own : ∀ k e r, s.v.idx k = some e → recAt s.v.log e.off = some r → r.id = k ∧ (0 ≤ e.size → r.size = e.size)
  key : ∀ k, match lastFor suf k with
        | none => s.v.idx k = s0.v.idx k
        | some e => e.off ≠ 0 ∧ (0 ≤ e.size → s.v.idx k = some ⟨e.off, e.size⟩) ∧
                    (e.size < 0 → ∃ e', s.v.idx k = some e' ∧ e'.size < 0)

theorem suf_refl {s0 : CVol} (hw : WF s0) : Suf s0 s0 [] [] [] :=
  ⟨by simp, by simp, rfl, by simp, rfl, rfl, rfl, hw.bound, hw.own, fun k => by simp [lastFor]⟩

theorem suf_append {s0 s s' : CVol} {ext : List Rec} {exta : List Nat} {suf : List IEnt} (hs : Suf s0 s ext exta suf)
    (x : Rec) (t id : Nat) (e' : Ent) (ent : IEnt)
    (hl : s'.v.log = s.v.log ++ [x]) (hi : s'.v.idx = setIdx s.v.idx id e') (ha : s'.ats = s.ats ++ [t])
    (hil : s'.ilog = s.ilog ++ [ent]) (hsn : s'.snap = s.snap) (hrv : s'.rev = s.rev) (hkd : s'.kind = s.kind)
    (hk : ent.key = id) (ho : ent.off = s.v.log.length + 1) (hx : x.id = id)
    (hpos : 0 ≤ ent.size → e' = ⟨ent.off, ent.size⟩ ∧ x.size = ent.size)
    (hneg : ent.size < 0 → e'.size < 0 ∧ ∃ e, s.v.idx id = some e ∧ e'.off = e.off) :
    Suf s0 s' (ext ++ [x]) (exta ++ [t]) (suf ++ [ent]) := by
  have hoff' : e'.off ≠ 0 ∧ e'.off ≤ s.v.log.length + 1 := by
    by_cases hp : 0 ≤ ent.size
    · have := (hpos hp).1; rw [this]; simp only; omega
    · obtain ⟨_, e, he, heo⟩ := hneg (by omega)
      have := hs.bound id e he
      omega
  refine ⟨by rw [hl, hs.hlog, List.append_assoc], by rw [ha, hs.hats, List.append_assoc], by simp [hs.hlen],
    by rw [hil, hs.hilog, List.append_assoc], hsn.trans hs.hsnap, hrv.trans hs.hrev, hkd.trans hs.hkind, ?_, ?_, ?_⟩
  · intro k e hke
    rw [hi] at hke
    rw [hl, List.length_append]
    by_cases hkid : k = id
    · subst hkid; rw [setIdx_same] at hke; cases hke; simp; exact hoff'
    · rw [setIdx_ne _ _ hkid] at hke
      have := hs.bound k e hke
      simp; omega
  · intro k e r hke hr
    rw [hi] at hke
    rw [hl] at hr
    by_cases hkid : k = id
    · subst hkid; rw [setIdx_same] at hke; cases hke
      by_cases hp : 0 ≤ ent.size
      · obtain ⟨he', hxs⟩ := hpos hp
        subst he'
        simp only at hr
        have hnew : recAt (s.v.log ++ [x]) (s.v.log.length + 1) = some x := by simp [recAt]
        rw [ho, hnew] at hr
        have hrr : x = r := Option.some.inj hr
        rw [← hrr]
        exact ⟨hx, fun _ => hxs⟩
      · obtain ⟨hn, e0, he0, heo⟩ := hneg (by omega)
        have hb := hs.bound _ e0 he0
        obtain ⟨r0, hr0⟩ := recAt_of_bound hb.1 hb.2
        rw [heo, recAt_append_left [x] hr0] at hr
        have hrr : r0 = r := Option.some.inj hr
        rw [← hrr]
        exact ⟨(hs.own _ e0 r0 he0 hr0).1, fun h => by omega⟩
    · rw [setIdx_ne _ _ hkid] at hke
      have hb := hs.bound k e hke
      obtain ⟨r0, hr0⟩ := recAt_of_bound hb.1 hb.2
      rw [recAt_append_left [x] hr0] at hr
      have hrr : r0 = r := Option.some.inj hr
      rw [← hrr]
      exact hs.own k e r0 hke hr0
  · intro k
    rw [lastFor_append]
    by_cases hkid : k = id
    · subst hkid
      have : lastFor [ent] ent.key = some ent := by simp [lastFor]
      rw [hk] at this
      rw [this]
      simp only [Option.some_or]
      refine ⟨by omega, ?_, ?_⟩
      · intro hp; rw [hi, setIdx_same, (hpos hp).1]
      · intro hn; rw [hi, setIdx_same]; exact ⟨e', rfl, (hneg hn).1⟩
    · have : lastFor [ent] k = none := by
        have : ¬ ent.key = k := fun h => hkid (h.symm.trans hk)
        simp [lastFor, this]
      rw [this]
      simp only [Option.none_or]
      have := hs.key k
      rw [hi, setIdx_ne _ _ hkid]
      exact this

theorem suf_step {s0 s : CVol} {ext : List Rec} {exta : List Nat} {suf : List IEnt} (hs : Suf s0 s ext exta suf)
    (t : Nat) (op : Op) : ∃ ext' exta' suf', Suf s0 (opStep s t op).1 ext' exta' suf' := by
  have heff := step_eff s.v op
  unfold opStep
  cases heff with
  | same h1 h2 =>
    simp only [h1, if_true]
    exact ⟨ext, exta, suf, by simpa [h1] using hs.hlog, hs.hats, hs.hlen, hs.hilog, hs.hsnap, hs.hrev, hs.hkind,
      by simpa [h1, h2] using hs.bound, by simpa [h1, h2] using hs.own, by simpa [h2] using hs.key⟩
  | put x h1 hid hw h2 h3 =>
    have hne : ¬ (step s.v op).1.log.length = s.v.log.length := by rw [h1]; simp
    simp only [hne, if_false]
    obtain ⟨id, ck, c, rfl⟩ := hw
    have hida : idxAppend (step s.v (Op.write id ck c)).1 (s.v.log.length + 1) (Op.write id ck c)
        = [⟨id, s.v.log.length + 1, x.size⟩] := by
      simp only [idxAppend, h2, opId, setIdx_same]; simp
    rw [hida]
    exact ⟨_, _, _, suf_append hs x t id ⟨s.v.log.length + 1, x.size⟩ ⟨id, s.v.log.length + 1, x.size⟩ h1 h2 rfl rfl rfl rfl rfl
      rfl rfl hid (fun _ => ⟨rfl, rfl⟩) (fun h => by simp at h; omega)⟩
  | noput x h1 h2 e h3 h4 =>
    have := hs.bound _ e h3
    omega
  | del x e h1 hd h3 h4 h2 hx hxs =>
    have hne : ¬ (step s.v op).1.log.length = s.v.log.length := by rw [h1]; simp
    simp only [hne, if_false]
    have hida : idxAppend (step s.v op).1 (s.v.log.length + 1) op = [⟨opId op, s.v.log.length + 1, -1⟩] := by
      rcases hd with ⟨id, ck, rfl⟩ | ⟨id, ck, rfl⟩ <;> simp [idxAppend, opId]
    rw [hida]
    exact ⟨_, _, _, suf_append hs x t (opId op) ⟨e.off, -e.size⟩ ⟨opId op, s.v.log.length + 1, -1⟩ h1 h2 rfl rfl rfl rfl rfl
      rfl rfl hx (fun h => by simp at h) (fun _ => ⟨by simp; omega, e, h3, rfl⟩)⟩

theorem suf_run {s0 s : CVol} {ext : List Rec} {exta : List Nat} {suf : List IEnt} (hs : Suf s0 s ext exta suf)
    (ops : List (Nat × Op)) : ∃ ext' exta' suf', Suf s0 (runOps s ops) ext' exta' suf' := by
  induction ops generalizing s ext exta suf with
  | nil => exact ⟨ext, exta, suf, hs⟩
  | cons o ops ih =>
    obtain ⟨t, op⟩ := o
    obtain ⟨e1, e2, e3, h⟩ := suf_step hs t op
    exact ih h


/-! ## makeupDiff -/

/-- what `makeupDiff` appended, per key (`L`, `A` = the final .dat records / AppendAtNs) -/
def MkOK (s2 : CVol) (suf : List IEnt) (order : List Nat) (L : List Rec) (A : List Nat) (ments : List IEnt) : Prop :=
  (∀ e ∈ ments, e.key ∈ order ∧ (lastFor suf e.key).isSome = true) ∧
  ∀ k, k ∈ order → ∀ e, lastFor suf k = some e →
    if validEnt e = true then
      ∃ j r, lastFor ments k = some ⟨k, j, e.size⟩ ∧ 1 ≤ j ∧ recAt s2.v.log e.off = some r ∧ L[j - 1]? = some r ∧
        A[j - 1]? = some (atOf s2.ats e.off)
    else ∃ sz, lastFor ments k = some ⟨k, 0, sz⟩

theorem makeupOne_some (s2 : CVol) (suf : List IEnt) (t : Nat) (L : List Rec) (A : List Nat) (X : List IEnt) (k0 : Nat)
    {e0 : IEnt} (h0 : lastFor suf k0 = some e0)
    (hrec : validEnt e0 = true → ∃ r, recAt s2.v.log e0.off = some r) :
    ∃ r a ent, makeupOne s2 suf t (L, A, X) k0 = some (L ++ [r], A ++ [a], X ++ [ent]) ∧ ent.key = k0 ∧
      (if validEnt e0 = true then ent = ⟨k0, L.length + 1, e0.size⟩ ∧ recAt s2.v.log e0.off = some r ∧ a = atOf s2.ats e0.off
       else ent.off = 0) := by
  unfold makeupOne
  simp only [h0]
  by_cases hv : validEnt e0 = true
  · obtain ⟨r, hr⟩ := hrec hv
    simp only [hv, if_true, hr]
    exact ⟨r, _, _, rfl, rfl, rfl, rfl, rfl⟩
  · simp only [hv]
    exact ⟨_, _, _, rfl, rfl, rfl⟩

theorem makeupFold_char (s2 : CVol) (suf : List IEnt) (t : Nat)
    (hrec : ∀ k e, lastFor suf k = some e → validEnt e = true → ∃ r, recAt s2.v.log e.off = some r)
    (order : List Nat) (L0 : List Rec) (A0 : List Nat) (X0 : List IEnt) (hlen : L0.length = A0.length) :
    ∃ mrecs mats ments, makeupFold s2 suf t (some (L0, A0, X0)) order = some (L0 ++ mrecs, A0 ++ mats, X0 ++ ments) ∧
      mrecs.length = mats.length ∧ MkOK s2 suf order (L0 ++ mrecs) (A0 ++ mats) ments := by
  induction order generalizing L0 A0 X0 with
  | nil =>
    refine ⟨[], [], [], by simp [makeupFold], rfl, ?_, ?_⟩
    · intro e he; cases he
    · intro k hk; cases hk
  | cons k0 rest ih =>
    unfold makeupFold
    simp only [List.foldl_cons, Option.bind_some]
    cases h0 : lastFor suf k0 with
    | none =>
      have : makeupOne s2 suf t (L0, A0, X0) k0 = some (L0, A0, X0) := by simp [makeupOne, h0]
      rw [this]
      obtain ⟨mrecs, mats, ments, hf, hl, hm1, hm2⟩ := ih L0 A0 X0 hlen
      refine ⟨mrecs, mats, ments, hf, hl, ?_, ?_⟩
      · intro e he; exact ⟨List.mem_cons_of_mem _ (hm1 e he).1, (hm1 e he).2⟩
      · intro k hk e he
        rcases List.mem_cons.1 hk with hk | hk
        · subst hk; rw [h0] at he; cases he
        · exact hm2 k hk e he
    | some e0 =>
      obtain ⟨r, a, ent, hone, hkey, hent⟩ := makeupOne_some s2 suf t L0 A0 X0 k0 h0 (hrec k0 e0 h0)
      rw [hone]
      obtain ⟨mrecs, mats, ments, hf, hl, hm1, hm2⟩ := ih (L0 ++ [r]) (A0 ++ [a]) (X0 ++ [ent]) (by simp [hlen])
      refine ⟨r :: mrecs, a :: mats, ent :: ments, by simpa [makeupFold] using hf, by simp [hl], ?_, ?_⟩
      · intro e he
        rcases List.mem_cons.1 he with he | he
        · subst he; rw [hkey]; exact ⟨List.mem_cons_self, by simp [h0]⟩
        · exact ⟨List.mem_cons_of_mem _ (hm1 e he).1, (hm1 e he).2⟩
      · intro k hk e he
        have hL : L0 ++ r :: mrecs = L0 ++ [r] ++ mrecs := by simp
        have hA : A0 ++ a :: mats = A0 ++ [a] ++ mats := by simp
        by_cases hkr : k ∈ rest
        · have := hm2 k hkr e he
          rw [hL, hA, lastFor_cons]
          by_cases hv : validEnt e = true
          · simp only [hv, if_true] at this ⊢
            obtain ⟨j, r', h1, h2⟩ := this
            exact ⟨j, r', by rw [h1, Option.some_or], h2⟩
          · simp only [hv] at this ⊢
            obtain ⟨sz, h1⟩ := this
            exact ⟨sz, by rw [h1, Option.some_or]⟩
        · have hk0 : k = k0 := by
            rcases List.mem_cons.1 hk with h | h
            · exact h
            · exact absurd h hkr
          subst hk0
          rw [h0] at he; cases he
          have hnone : lastFor ments k = none :=
            lastFor_none_of_not_mem (fun e he hek => hkr (hek ▸ (hm1 e he).1))
          rw [lastFor_cons, hnone]
          simp only [hkey, if_true, Option.none_or]
          by_cases hv : validEnt e0 = true
          · simp only [hv, if_true] at hent ⊢
            obtain ⟨hent1, hr, ha⟩ := hent
            refine ⟨L0.length + 1, r, by rw [hent1], by omega, hr, ?_, ?_⟩
            · simp
            · simp [hlen, ha]
          · simp only [hv] at hent ⊢
            refine ⟨ent.size, ?_⟩
            obtain ⟨ek, eo, es⟩ := ent
            simp only at hkey hent
            rw [hkey, hent]


theorem lastFor_none_mem {l : List IEnt} {k : Nat} (h : lastFor l k = none) : ∀ e ∈ l, e.key ≠ k := by
  induction l with
  | nil => intro e he; cases he
  | cons x xs ih =>
    rw [lastFor_cons] at h
    cases hx : lastFor xs k with
    | some e' => rw [hx] at h; simp at h
    | none =>
      rw [hx] at h
      simp only [Option.none_or] at h
      intro e he
      rcases List.mem_cons.1 he with he | he
      · subst he; intro hk; simp [hk] at h
      · exact ih hx e he

theorem view_congr {s s' : CVol} (h1 : s.v.idx = s'.v.idx) (h2 : s.v.log = s'.v.log) (h3 : s.ats = s'.ats) (t k : Nat) :
    view s t k = view s' t k := by
  simp [view, readT, readStep, h1, h2, h3]

/-- cutting the .dat behind record `n` can only make blobs unreadable -/
theorem view_cut (s s' : CVol) (n : Nat) (h1 : s'.v.idx = s.v.idx) (h2 : s'.v.log = s.v.log.take n) (h3 : s'.ats = s.ats.take n)
    (t k : Nat) : view s' t k = view s t k ∨ view s' t k = none := by
  cases hi : s.v.idx k with
  | none => left; rw [view_none_idx t hi, view_none_idx t (h1 ▸ hi)]
  | some e =>
    by_cases h0 : e.off = 0
    · left; simp [view, readT, readStep, h1, hi, h0]
    · by_cases hle : e.off ≤ n
      · left
        have hr : recAt s'.v.log e.off = recAt s.v.log e.off := by
          rw [h2, recAt_eq _ h0, recAt_eq _ h0, List.getElem?_take]; simp; intro h; omega
        have ha : atOf s'.ats e.off = atOf s.ats e.off := by
          unfold atOf
          rw [h3, List.getD_eq_getElem?_getD, List.getD_eq_getElem?_getD, List.getElem?_take]
          have : e.off - 1 < n := by omega
          simp [this]
        simp [view, readT, readStep, h1, hi, h0, hr, ha]
      · have hr : recAt s'.v.log e.off = none := by
          rw [h2, recAt_eq _ h0, List.getElem?_take]
          have : ¬ e.off - 1 < n := by omega
          simp [this]
        by_cases hs : e.size < 0
        · right; exact view_neg t (h1 ▸ hi) hs
        · by_cases hz : e.size = 0
          · left; simp [view, readT, readStep, h1, hi, h0, hz]
          · right; simp [view, readT, readStep, h1, hi, h0, hs, hz, hr]


/-! ## fresh volumes; reads after `Volume.load` -/

theorem wf_init (kind : Kind) (ttl : Nat × Nat) : WF (CVol.init kind ttl) :=
  ⟨fun k e h => by simp [CVol.init, Vol.init] at h, fun k e r h => by simp [CVol.init, Vol.init] at h,
   fun k => by simp [CVol.init, Vol.init, loadFromIdx, mget], rfl⟩

theorem view_reload_nocut (s : CVol) (h : cutAt s.ilog s.v.log = none) (t k : Nat) :
    view (reload s) t k = view { s with v := { s.v with idx := reloadIdx s.kind s.ilog } } t k := by
  apply view_congr <;> simp [reload, h]

theorem view_reload_cut (s : CVol) (t k : Nat) :
    view (reload s) t k = view { s with v := { s.v with idx := reloadIdx s.kind s.ilog } } t k ∨ view (reload s) t k = none := by
  cases h : cutAt s.ilog s.v.log with
  | none => left; exact view_reload_nocut s h t k
  | some n => exact view_cut _ _ n (by simp [reload, h]) (by simp [reload, h]) (by simp [reload, h]) t k


/-- volumes reachable from a fresh one are well-formed -/
theorem wf_reachable (kind : Kind) (ttl : Nat × Nat) (pre : List (Nat × Op)) : WF (runOps (CVol.init kind ttl) pre) := by
  obtain ⟨ext, exta, suf, hs⟩ := suf_run (suf_refl (wf_init kind ttl)) pre
  refine ⟨hs.bound, hs.own, ?_, ?_⟩
  · intro k
    have hil : (runOps (CVol.init kind ttl) pre).ilog = suf := by rw [hs.hilog]; simp [CVol.init]
    rw [hil, mget_loadFromIdx]
    have hk := hs.key k
    cases hl : lastFor suf k with
    | none =>
      rw [hl] at hk
      have : (runOps (CVol.init kind ttl) pre).v.idx k = none := by rw [hk]; simp [CVol.init, Vol.init]
      simp [memOf, this]
    | some e =>
      rw [hl] at hk
      have hek := (lastFor_some hl).2
      by_cases hn : e.size < 0
      · obtain ⟨e', he', hn'⟩ := hk.2.2 hn
        have : ¬ (0 ≤ e'.size) := by omega
        simp [memOf, hn, he', this]
      · have hi := hk.2.1 (by omega)
        have h0 := hk.1
        have : ¬ (e.off = 0 ∨ e.size < 0) := by omega
        have hp : (0 : Int) ≤ e.size := by omega
        simp only [memOf, Option.bind_some, this, if_false, hi, hp, if_true]
        cases e; simp only at hek; rw [hek]
  · rw [hs.hats, hs.hlog]; simp [CVol.init, Vol.init, hs.hlen]


theorem runOps_append (s : CVol) (a b : List (Nat × Op)) : runOps s (a ++ b) = runOps (runOps s a) b := by
  induction a generalizing s with
  | nil => rfl
  | cons o a ih => obtain ⟨t, op⟩ := o; simp only [List.cons_append, runOps]; exact ih _

end SwV.Lemmas.C04
