/- C04 — helper lemmas: the ordered map (MemDb), "last entry per key" characterisations of
   LoadFromIdx / doLoading / makeupDiff, the copy phases, the idx suffix written by operations. -/
import SwV.Model.C04
import SwV.Spec.C04
namespace SwV.Lemmas.C04
open SwV.Model.C01 SwV.Model.C04 SwV.Spec.C04

/-! ## MemDb -/

theorem mget_cons (x : IEnt) (xs : List IEnt) (k : Nat) :
    mget (x :: xs) k = if x.key = k then some x else mget xs k := rfl

theorem mget_mset (m : List IEnt) (e : IEnt) (k : Nat) :
    mget (mset m e) k = if e.key = k then some e else mget m k := by
  induction m with
  | nil => simp [mset, mget]
  | cons x xs ih =>
    unfold mset
    by_cases h1 : e.key < x.key
    · simp [h1, mget]
    · by_cases h2 : e.key = x.key
      · rw [if_neg h1, if_pos h2]
        unfold mget
        by_cases h3 : x.key = k
        · simp [h3, h2.trans h3]
        · have : ¬ e.key = k := fun h => h3 (h2.symm.trans h)
          simp [h3, this]
      · rw [if_neg h1, if_neg h2]
        unfold mget
        rw [ih]
        by_cases h3 : x.key = k
        · have : ¬ e.key = k := fun h => h2 (h.trans h3.symm)
          simp [h3, this]
        · simp [h3]

theorem mget_mdel (m : List IEnt) (j k : Nat) :
    mget (mdel m j) k = if j = k then none else mget m k := by
  induction m with
  | nil => simp [mdel, mget]
  | cons x xs ih =>
    unfold mdel
    by_cases h1 : x.key = j
    · simp only [h1, if_true, ih, mget]
      by_cases h2 : j = k <;> simp [h2]
    · simp only [h1, if_false, mget, ih]
      by_cases h2 : j = k
      · have : ¬ x.key = k := fun h => h1 (h.trans h2.symm)
        simp [h2, this]
      · simp [h2]

theorem mget_some {m : List IEnt} {k : Nat} {e : IEnt} (h : mget m k = some e) : e ∈ m ∧ e.key = k := by
  induction m with
  | nil => simp [mget] at h
  | cons x xs ih =>
    unfold mget at h
    by_cases h1 : x.key = k
    · simp [h1] at h; subst h; exact ⟨List.mem_cons_self, h1⟩
    · simp [h1] at h; exact ⟨List.mem_cons_of_mem _ (ih h).1, (ih h).2⟩

/-- strictly ascending keys -/
def KeysLt (m : List IEnt) : Prop := m.Pairwise (fun a b => a.key < b.key)

theorem mem_mset {m : List IEnt} {e x : IEnt} (h : x ∈ mset m e) : x = e ∨ x ∈ m := by
  induction m with
  | nil => simp [mset] at h; exact Or.inl h
  | cons y ys ih =>
    unfold mset at h
    by_cases h1 : e.key < y.key
    · simp [h1] at h; rcases h with h | h | h
      · exact Or.inl h
      · exact Or.inr (h ▸ List.mem_cons_self)
      · exact Or.inr (List.mem_cons_of_mem _ h)
    · by_cases h2 : e.key = y.key
      · rw [if_neg h1, if_pos h2] at h; rcases List.mem_cons.1 h with h | h
        · exact Or.inl h
        · exact Or.inr (List.mem_cons_of_mem _ h)
      · rw [if_neg h1, if_neg h2] at h; rcases List.mem_cons.1 h with h | h
        · exact Or.inr (h ▸ List.mem_cons_self)
        · rcases ih h with h | h
          · exact Or.inl h
          · exact Or.inr (List.mem_cons_of_mem _ h)

theorem keysLt_mset {m : List IEnt} (e : IEnt) (h : KeysLt m) : KeysLt (mset m e) := by
  induction m with
  | nil => simp [mset, KeysLt]
  | cons y ys ih =>
    unfold KeysLt at h ⊢
    rw [List.pairwise_cons] at h
    unfold mset
    by_cases h1 : e.key < y.key
    · simp only [h1, if_true]
      refine List.pairwise_cons.2 ⟨?_, List.pairwise_cons.2 h⟩
      intro b hb
      rcases List.mem_cons.1 hb with hb | hb
      · exact hb ▸ h1
      · exact Nat.lt_trans h1 (h.1 b hb)
    · by_cases h2 : e.key = y.key
      · rw [if_neg h1, if_pos h2]
        exact List.pairwise_cons.2 ⟨fun b hb => h2 ▸ h.1 b hb, h.2⟩
      · rw [if_neg h1, if_neg h2]
        refine List.pairwise_cons.2 ⟨?_, ih h.2⟩
        intro b hb
        rcases mem_mset hb with hb | hb
        · subst hb; omega
        · exact h.1 b hb

theorem mem_mdel {m : List IEnt} {j : Nat} {x : IEnt} (h : x ∈ mdel m j) : x ∈ m := by
  induction m with
  | nil => simp [mdel] at h
  | cons y ys ih =>
    unfold mdel at h
    by_cases h1 : y.key = j
    · simp [h1] at h; exact List.mem_cons_of_mem _ (ih h)
    · simp [h1] at h; rcases h with h | h
      · exact h ▸ List.mem_cons_self
      · exact List.mem_cons_of_mem _ (ih h)

theorem keysLt_mdel {m : List IEnt} (j : Nat) (h : KeysLt m) : KeysLt (mdel m j) := by
  induction m with
  | nil => simp [mdel, KeysLt]
  | cons y ys ih =>
    unfold KeysLt at h ⊢
    rw [List.pairwise_cons] at h
    unfold mdel
    by_cases h1 : y.key = j
    · simp only [h1, if_true]; exact ih h.2
    · simp only [h1, if_false]
      exact List.pairwise_cons.2 ⟨fun b hb => h.1 b (mem_mdel hb), ih h.2⟩

/-! ## last entry per key -/

theorem lastFor_foldl (l : List IEnt) (k : Nat) (acc : Option IEnt) :
    l.foldl (fun acc e => if e.key = k then some e else acc) acc = (lastFor l k).or acc := by
  induction l generalizing acc with
  | nil => simp [lastFor]
  | cons x xs ih =>
    simp only [List.foldl_cons, lastFor]
    rw [ih, ih (if x.key = k then some x else none)]
    by_cases h : x.key = k <;> simp [h, Option.or_assoc]

theorem lastFor_nil (k : Nat) : lastFor [] k = none := rfl

theorem lastFor_cons (x : IEnt) (xs : List IEnt) (k : Nat) :
    lastFor (x :: xs) k = (lastFor xs k).or (if x.key = k then some x else none) := by
  simp only [lastFor, List.foldl_cons]
  exact lastFor_foldl xs k _

theorem lastFor_append (a b : List IEnt) (k : Nat) :
    lastFor (a ++ b) k = (lastFor b k).or (lastFor a k) := by
  simp only [lastFor, List.foldl_append]
  exact lastFor_foldl b k _

theorem lastFor_some {l : List IEnt} {k : Nat} {e : IEnt} (h : lastFor l k = some e) : e ∈ l ∧ e.key = k := by
  induction l with
  | nil => simp [lastFor] at h
  | cons x xs ih =>
    rw [lastFor_cons] at h
    cases hx : lastFor xs k with
    | some e' =>
      rw [hx] at h; simp at h; subst h
      exact ⟨List.mem_cons_of_mem _ (ih hx).1, (ih hx).2⟩
    | none =>
      rw [hx] at h; simp at h
      exact ⟨h.2 ▸ List.mem_cons_self, h.2 ▸ h.1⟩

theorem lastFor_none_of_not_mem {l : List IEnt} {k : Nat} (h : ∀ e ∈ l, e.key ≠ k) : lastFor l k = none := by
  cases hx : lastFor l k with
  | none => rfl
  | some e => exact absurd (lastFor_some hx).2 (h e (lastFor_some hx).1)

theorem lastFor_eq_mget {l : List IEnt} (h : KeysLt l) (k : Nat) : lastFor l k = mget l k := by
  induction l with
  | nil => rfl
  | cons x xs ih =>
    unfold KeysLt at h
    rw [List.pairwise_cons] at h
    rw [lastFor_cons, ih h.2, mget_cons]
    by_cases h1 : x.key = k
    · have : mget xs k = none := by
        cases hm : mget xs k with
        | none => rfl
        | some e =>
          have := mget_some hm
          have := h.1 e this.1
          omega
      simp [h1, this]
    · simp [h1]

/-! ## LoadFromIdx -/

/-- what MemDb holds for a key whose last idx entry is `acc` -/
def memOf (acc : Option IEnt) : Option IEnt :=
  acc.bind fun e => if e.off = 0 ∨ e.size < 0 then none else some e

theorem mget_loadFromIdx_aux (l : List IEnt) (k : Nat) (m : List IEnt) (acc : Option IEnt)
    (h : mget m k = memOf acc) :
    mget (l.foldl (fun m e => if e.off = 0 ∨ e.size < 0 then mdel m e.key else mset m e) m) k
      = memOf (l.foldl (fun acc e => if e.key = k then some e else acc) acc) := by
  induction l generalizing m acc with
  | nil => simpa using h
  | cons x xs ih =>
    simp only [List.foldl_cons]
    apply ih
    by_cases hk : x.key = k
    · by_cases hd : x.off = 0 ∨ x.size < 0
      · simp [hk, hd, mget_mdel, memOf]
      · simp [hk, hd, mget_mset, memOf]
    · by_cases hd : x.off = 0 ∨ x.size < 0
      · simp [hk, hd, mget_mdel, h]
      · simp [hk, hd, mget_mset, h]

theorem mget_loadFromIdx (l : List IEnt) (k : Nat) : mget (loadFromIdx l) k = memOf (lastFor l k) :=
  mget_loadFromIdx_aux l k [] none rfl

theorem keysLt_loadFromIdx (l : List IEnt) : KeysLt (loadFromIdx l) := by
  unfold loadFromIdx
  have : ∀ m, KeysLt m → KeysLt (l.foldl (fun m e => if e.off = 0 ∨ e.size < 0 then mdel m e.key else mset m e) m) := by
    induction l with
    | nil => intro m h; exact h
    | cons x xs ih =>
      intro m h
      simp only [List.foldl_cons]
      apply ih
      by_cases hd : x.off = 0 ∨ x.size < 0
      · simp only [hd, if_true]; exact keysLt_mdel _ h
      · simp only [hd, if_false]; exact keysLt_mset _ h
  exact this [] List.Pairwise.nil

end SwV.Lemmas.C04
