/-
C27 — lemmas: closed form of the receive loop and of one page for the flat case
(delimiter "/", prefix without directory part, markers without "/").
-/
import SwV.Model.C27
import SwV.Lemmas.C19
namespace SwV.Lemmas.C27
open SwV.Model.C19 (Bytes ltB isPrefix)
open SwV.Model.C27
open SwV.Lemmas.C19

/-- an entry the flat listing handles without its known deviations: not the `.uploads` directory,
    and (for directories) the emptiness probe finds the directory -/
def Good (ks : List (List Bytes)) (e : Ent) : Prop :=
  ¬(e.expired = true ∧ e.key = uploadsName) ∧ (e.expired = true → looksEmpty ks [] e.key = false)

/-- Contents emitted for a list of entries of the bucket's top directory -/
def emitK (L : List Ent) : List Bytes := (L.filter fun e => !e.expired).map (·.key)
/-- CommonPrefixes emitted -/
def emitP (L : List Ent) : List Bytes := (L.filter fun e => e.expired).map fun e => e.key ++ [slash]

theorem keyOf_root (n : Bytes) : keyOf [] n = n := by simp [keyOf]

theorem emitK_cons (e : Ent) (L : List Ent) : emitK (e :: L) = (if e.expired then [] else [e.key]) ++ emitK L := by
  unfold emitK; cases h : e.expired <;> simp [h]
theorem emitP_cons (e : Ent) (L : List Ent) : emitP (e :: L) = (if e.expired then [e.key ++ [slash]] else []) ++ emitP L := by
  unfold emitP; cases h : e.expired <;> simp [h]

theorem emit_length (L : List Ent) : (emitK L).length + (emitP L).length = L.length := by
  induction L with
  | nil => rfl
  | cons e L ih =>
    rw [emitK_cons, emitP_cons]; cases e.expired <;> simp <;> omega

theorem emitK_append (A B : List Ent) : emitK (A ++ B) = emitK A ++ emitK B := by simp [emitK]
theorem emitP_append (A B : List Ent) : emitP (A ++ B) = emitP A ++ emitP B := by simp [emitP]

/-- closed form of the receive loop for delimiter "/" in the top directory -/
theorem recv_flat (ks : List (List Bytes)) (sub : Bytes → Nat → Res) (maxKeys : Nat) :
    ∀ (L : List Ent) (st : Res), (∀ e ∈ L, Good ks e) →
      recvLoop ks sub true [] maxKeys L st =
        { counter := st.counter + (L.take (maxKeys - st.counter)).length,
          trunc := if L.length > maxKeys - st.counter then true else st.trunc,
          next := (((L.take (maxKeys - st.counter)).getLast?).map (·.key)).getD st.next,
          keys := st.keys ++ emitK (L.take (maxKeys - st.counter)),
          pfxs := st.pfxs ++ emitP (L.take (maxKeys - st.counter)),
          deleted := st.deleted } := by
  intro L
  induction L with
  | nil => intro st _; simp [recvLoop, emitK, emitP]
  | cons e rest ih =>
    intro st hg
    have hge := hg e (by simp)
    have hgr : ∀ x ∈ rest, Good ks x := fun x hx => hg x (by simp [hx])
    unfold recvLoop
    by_cases hc : st.counter ≥ maxKeys
    · have hk : maxKeys - st.counter = 0 := by omega
      simp [hc, hk, emitK, emitP]
    · obtain ⟨k, hk⟩ : ∃ k, maxKeys - st.counter = k + 1 := ⟨maxKeys - st.counter - 1, by omega⟩
      have hk' : ∀ d : Nat, maxKeys - (st.counter + 1) = k := by intro _; omega
      simp only [hc, if_false, hk, List.take_succ_cons, List.length_cons]
      cases hexp : e.expired with
      | true =>
        have h1 : e.key ≠ uploadsName := fun h => hge.1 ⟨hexp, h⟩
        have h2 : looksEmpty ks [] e.key = false := hge.2 hexp
        simp only [if_true, h1, if_false, Bool.not_true, Bool.false_eq_true, h2]
        rw [ih _ hgr]
        simp only [hk' 0, keyOf_root, emitK_cons, emitP_cons, hexp, if_true, List.getLast?_cons]
        congr 1
        all_goals first
          | omega
          | (simp; done)
          | (simp; omega)
          | (cases (List.take k rest).getLast? <;> simp)
      | false =>
        simp only [Bool.false_eq_true, if_false]
        rw [ih _ hgr]
        simp only [hk' 0, keyOf_root, emitK_cons, emitP_cons, hexp, Bool.false_eq_true, if_false, List.getLast?_cons]
        congr 1
        all_goals first
          | omega
          | (simp; done)
          | (simp; omega)
          | (cases (List.take k rest).getLast? <;> simp)


/-- the store listing of a sorted directory = the entries with the name prefix strictly after the marker,
    for a marker that is empty or itself carries the prefix (C19: a marker BELOW the prefix may stop early) -/
theorem listPrim_sorted (es : List Ent) (hs : SortedDb es) (pfx m : Bytes) (n : Nat)
    (hne : ∀ e ∈ es, e.key ≠ []) (hm : m = [] ∨ isPrefix pfx m = true) :
    listPrim es pfx m n = ((es.filter fun e => isPrefix pfx e.key).filter fun e => ltB m e.key).take n := by
  unfold listPrim
  congr 1
  by_cases hme : m = []
  · subst hme
    simp only [if_true]
    have := seek_takeWhile es hs pfx pfx (ltB_irrefl pfx)
    unfold SwV.Model.C19.seek at this
    rw [this, List.filter_filter, List.filter_filter]
    congr 1
    apply List.filter_congr
    intro e he
    have h1 := hne e he
    have h2 : ltB [] e.key = true := (ltB_nil e.key).2 h1
    cases hp : isPrefix pfx e.key with
    | false => simp
    | true => simp [h1, h2, not_lt_of_isPrefix pfx e.key hp]
  · have hpm : isPrefix pfx m = true := by cases hm with | inl h => exact absurd h hme | inr h => exact h
    simp only [hme, if_false]
    have := seek_takeWhile es hs m pfx (not_lt_of_isPrefix pfx m hpm)
    unfold SwV.Model.C19.seek at this
    rw [this, List.filter_filter, List.filter_filter]
    congr 1
    apply List.filter_congr
    intro e _
    cases hp : isPrefix pfx e.key with
    | false => simp
    | true =>
      simp only [Bool.and_true]
      cases hlt : ltB m e.key with
      | true =>
        have h1 : e.key ≠ m := by intro h; rw [h, ltB_irrefl] at hlt; cases hlt
        simp [h1, ltB_asymm _ _ hlt]
      | false =>
        cases hgt : ltB e.key m with
        | true => simp
        | false => have := ltB_total m e.key hlt hgt; simp [this]

/-- entries of the top directory carrying the name prefix -/
def F (ks : List (List Bytes)) (pfx : Bytes) : List Ent := (dirEntries ks []).filter fun e => isPrefix pfx e.key
/-- … strictly after the marker -/
def G (ks : List (List Bytes)) (pfx m : Bytes) : List Ent := (F ks pfx).filter fun e => ltB m e.key

/-- The inputs of the flat theorem: the prefix has no directory part; the top directory is sorted, its
    names are non-empty and free of "/", and every entry under the prefix is `Good`
    (= no `.uploads` directory in range, emptiness probe sound). -/
structure Flat (ks : List (List Bytes)) (pfx : Bytes) : Prop where
  split : splitLastSlash pfx = ([], pfx)
  sorted : SortedDb (dirEntries ks [])
  good : ∀ e ∈ dirEntries ks [], isPrefix pfx e.key = true → Good ks e
  noslash : ∀ e ∈ dirEntries ks [], cutFirstSlash e.key = none
  nonempty : ∀ e ∈ dirEntries ks [], e.key ≠ []

/-- a marker the flat pagination produces -/
def MarkerOk (pfx m : Bytes) : Prop := m = [] ∨ (isPrefix pfx m = true ∧ cutFirstSlash m = none)

theorem mem_G {ks : List (List Bytes)} {pfx m : Bytes} {e : Ent} (h : e ∈ G ks pfx m) :
    e ∈ dirEntries ks [] ∧ isPrefix pfx e.key = true ∧ ltB m e.key = true := by
  unfold G F at h
  have h1 := List.mem_filter.1 h
  have h2 := List.mem_filter.1 h1.1
  exact ⟨h2.1, by simpa using h2.2, by simpa using h1.2⟩

/-- closed form of one page (delimiter "/") -/
theorem page_flat (ks : List (List Bytes)) (pfx : Bytes) (h : Flat ks pfx) (maxKeys : Nat) (hmk : 0 < maxKeys)
    (m : Bytes) (hm : MarkerOk pfx m) :
    listFiler ks pfx maxKeys m true =
      { counter := ((G ks pfx m).take maxKeys).length,
        trunc := decide ((G ks pfx m).length > maxKeys),
        next := if (G ks pfx m).length > maxKeys then ((((G ks pfx m).take maxKeys).getLast?).map (·.key)).getD [] else [],
        keys := emitK ((G ks pfx m).take maxKeys),
        pfxs := emitP ((G ks pfx m).take maxKeys),
        deleted := [] } := by
  have hp1 : pfx ≠ [slash] := by
    intro hp; have := h.split; rw [hp] at this; revert this; decide
  have hcut : cutFirstSlash m = none := by
    cases hm with
    | inl h0 => subst h0; rfl
    | inr h1 => exact h1.2
  have hm' : m = [] ∨ isPrefix pfx m = true := by
    cases hm with
    | inl h0 => exact Or.inl h0
    | inr h1 => exact Or.inr h1.1
  have hmk0 : maxKeys ≠ 0 := by omega
  unfold listFiler
  rw [h.split]
  simp only [List.head?_nil, List.append_nil]
  have hrd : (if ([slash] : Bytes).getLast? = some slash then ([slash] : Bytes).dropLast else [slash]) = [] := by decide
  have hh : ((none : Option Nat) = some slash) = False := by simp
  simp only [hh, if_false, hrd]
  show (let res := doList ks true (11 + 1) [] pfx maxKeys m; if res.trunc then res else { res with next := [] }) = _
  unfold doList
  simp only [hp1, false_and, if_false, hmk0, hcut]
  rw [listPrim_sorted _ h.sorted pfx m _ h.nonempty hm']
  have hG : ((dirEntries ks []).filter fun e => isPrefix pfx e.key).filter (fun e => ltB m e.key) = G ks pfx m := rfl
  rw [hG]
  rw [recv_flat]
  · simp only [Nat.sub_zero, Nat.zero_add, List.nil_append, List.take_take, List.length_take]
    have hmin : min maxKeys (maxKeys + 1) = maxKeys := by omega
    simp only [hmin]
    by_cases hlen : (G ks pfx m).length > maxKeys
    · have : min (maxKeys + 1) (G ks pfx m).length > maxKeys := by omega
      simp [hlen, this]
    · have : ¬ min (maxKeys + 1) (G ks pfx m).length > maxKeys := by omega
      simp [hlen, this]
  · intro e he
    have := mem_G (List.mem_of_mem_take he)
    exact h.good e this.1 this.2.1

theorem removeDirs_nil (ks : List (List Bytes)) : removeDirs ks [] = ks := by
  unfold removeDirs; simp

theorem G_sorted (ks : List (List Bytes)) (pfx m : Bytes) (h : Flat ks pfx) : SortedBy (fun e : Ent => e.key) (G ks pfx m) := by
  unfold G F
  exact List.Pairwise.sublist (List.Sublist.trans List.filter_sublist List.filter_sublist) h.sorted

/-- after a page that ends in `l`, what remains is the rest of the list -/
theorem G_next (ks : List (List Bytes)) (pfx m : Bytes) (h : Flat ks pfx) (n : Nat) (l : Ent)
    (hl : ((G ks pfx m).take n).getLast? = some l) : G ks pfx l.key = (G ks pfx m).drop n := by
  have hmem : l ∈ G ks pfx m := List.mem_of_mem_take (List.mem_of_getLast? hl)
  have hml := (mem_G hmem).2.2
  have h1 := filter_after_page_by (fun e : Ent => e.key) (G ks pfx m) n l (G_sorted ks pfx m h) hl
  rw [← h1]
  unfold G
  rw [List.filter_filter]
  apply List.filter_congr
  intro e _
  cases hle : ltB l.key e.key with
  | false => simp
  | true => simp [ltB_trans m l.key e.key hml hle]

end SwV.Lemmas.C27
