/-
C17 lemmas, part 5: the write loop of StreamContent after the zero-fill repair.  Over a sorted view list
inside [a, b) the loop writes exactly the bytes the views denote on [a, b) — zeros in the gaps before,
between and after the views.  Without a window end (size = MaxInt64) it stops at the end of the last view.
-/
import SwV.Lemmas.C17c
namespace SwV.Lemmas.C17
open SwV.Model.C17 SwV.Spec.C17

theorem zeros_eq_viewByte (data : Nat → Nat → Nat) (ws : List View) (a n : Nat)
    (h : ∀ p, a ≤ p → p < a + n → ∀ w ∈ ws, ¬ vcov w p) :
    List.replicate n 0 = (List.range' a n).map (viewByte data ws) := by
  rw [← map_const_range' n a]
  apply List.map_congr_left
  intro p hp
  have := List.mem_range'_1.1 hp
  symm; exact viewByte_before data (h p this.1 this.2)

/-- bounded window: the loop with window end b writes the denoted bytes of [a, b) -/
theorem streamLoop_spec (data : Nat → Nat → Nat) (b : Nat) : ∀ (ws : List View) (a : Nat), VSorted ws →
    (∀ w ∈ ws, a ≤ w.logic ∧ w.logic + w.size ≤ b) → a ≤ b →
    streamLoop data b ws a = (List.range' a (b - a)).map (viewByte data ws)
  | [], a, _, _, _ => by
    unfold streamLoop
    exact zeros_eq_viewByte data [] a (b - a) (fun p _ _ w hw => by simp at hw)
  | w :: ws, a, hs, hw, hab => by
    have hs' := List.pairwise_cons.1 hs
    have hw0 := hw w List.mem_cons_self
    have hmax : max a w.logic = w.logic := by omega
    have ih := streamLoop_spec data b ws (w.logic + w.size) hs'.2
      (fun x hx => ⟨hs'.1 x hx, (hw x (List.mem_cons_of_mem _ hx)).2⟩) hw0.2
    unfold streamLoop
    rw [hmax, ih]
    have h0 : List.replicate (w.logic - a) 0 = (List.range' a (w.logic - a)).map (viewByte data (w :: ws)) := by
      apply zeros_eq_viewByte
      intro p hp1 hp2 x hx
      rcases List.mem_cons.1 hx with rfl | hx
      · unfold vcov; omega
      · have := hs'.1 x hx; unfold vcov; omega
    have h1 : (List.range' w.off w.size).map (data w.fid) =
        (List.range' (a + (w.logic - a)) w.size).map (viewByte data (w :: ws)) := by
      apply map_range'_shift
      intro i hi
      rw [viewByte_head data w ws (by unfold vcov; omega)]
      congr 1; omega
    have h2 : (List.range' (w.logic + w.size) (b - (w.logic + w.size))).map (viewByte data ws) =
        (List.range' (a + (w.logic - a + w.size)) (b - (w.logic + w.size))).map (viewByte data (w :: ws)) := by
      have e : a + (w.logic - a + w.size) = w.logic + w.size := by omega
      rw [e]
      apply List.map_congr_left
      intro p hp
      have := List.mem_range'_1.1 hp
      symm; apply viewByte_tail; unfold vcov; omega
    rw [h0, h1, h2, ← List.map_append, List.range'_append_1, ← List.map_append, List.range'_append_1]
    have : w.logic - a + w.size + (b - (w.logic + w.size)) = b - a := by omega
    rw [this]

/-- the offset at which the loop arrives after the last view -/
def streamEnd : List View → Nat → Nat
  | [], pos => pos
  | v :: vs, pos => streamEnd vs (max pos v.logic + v.size)

theorem streamEnd_ge : ∀ (ws : List View) (a : Nat), a ≤ streamEnd ws a ∧ ∀ w ∈ ws, w.logic + w.size ≤ streamEnd ws a
  | [], a => ⟨Nat.le_refl _, fun w hw => by simp at hw⟩
  | v :: vs, a => by
    have ih := streamEnd_ge vs (max a v.logic + v.size)
    unfold streamEnd
    refine ⟨by omega, ?_⟩
    intro w hw
    rcases List.mem_cons.1 hw with rfl | hw
    · omega
    · exact ih.2 w hw

theorem streamEnd_le (B : Nat) : ∀ (ws : List View) (a : Nat), VSorted ws →
    (∀ w ∈ ws, a ≤ w.logic ∧ w.logic + w.size ≤ B) → a ≤ B → streamEnd ws a ≤ B
  | [], a, _, _, h => h
  | v :: vs, a, hs, hw, _ => by
    have hs' := List.pairwise_cons.1 hs
    have hv := hw v List.mem_cons_self
    have hmax : max a v.logic = v.logic := by omega
    unfold streamEnd
    rw [hmax]
    exact streamEnd_le B vs _ hs'.2 (fun x hx => ⟨hs'.1 x hx, (hw x (List.mem_cons_of_mem _ hx)).2⟩) hv.2

/-- a window end at or below the end of the last view adds nothing -/
theorem streamLoop_stop (data : Nat → Nat → Nat) (s : Nat) : ∀ (ws : List View) (a : Nat), s ≤ streamEnd ws a →
    streamLoop data s ws a = streamLoop data (streamEnd ws a) ws a
  | [], a, h => by
    unfold streamEnd at h
    simp [streamLoop, streamEnd, Nat.sub_eq_zero_of_le h]
  | v :: vs, a, h => by
    unfold streamEnd at h
    unfold streamLoop
    rw [streamLoop_stop data s vs _ h]
    rfl

/-- no window end (size = MaxInt64): the loop writes the denoted bytes from a up to the end of the last view -/
theorem streamLoop_open (data : Nat → Nat → Nat) (ws : List View) (a : Nat) (hs : VSorted ws)
    (hw : ∀ w ∈ ws, a ≤ w.logic) :
    streamLoop data 0 ws a = (List.range' a (streamEnd ws a - a)).map (viewByte data ws) := by
  have hge := streamEnd_ge ws a
  rw [streamLoop_stop data 0 ws a (Nat.zero_le _)]
  exact streamLoop_spec data _ ws a hs (fun w h => ⟨hw w h, hge.2 w h⟩) hge.1

theorem le_extent : ∀ (cs : List Chunk) (init : Nat), init ≤ cs.foldl (fun m c => max m (c.off + c.size)) init ∧
    ∀ c ∈ cs, c.off + c.size ≤ cs.foldl (fun m c => max m (c.off + c.size)) init
  | [], init => ⟨Nat.le_refl _, fun c hc => by simp at hc⟩
  | d :: cs, init => by
    have ih := le_extent cs (max init (d.off + d.size))
    simp only [List.foldl_cons]
    refine ⟨by omega, ?_⟩
    intro c hc
    rcases List.mem_cons.1 hc with rfl | hc
    · omega
    · exact ih.2 c hc

theorem extent_le (B : Nat) : ∀ (cs : List Chunk) (init : Nat), init ≤ B → (∀ c ∈ cs, c.off + c.size ≤ B) →
    cs.foldl (fun m c => max m (c.off + c.size)) init ≤ B
  | [], _, h, _ => h
  | d :: cs, init, h, hc => by
    simp only [List.foldl_cons]
    have := hc d List.mem_cons_self
    exact extent_le B cs _ (by omega) (fun c h' => hc c (List.mem_cons_of_mem _ h'))

end SwV.Lemmas.C17
