/-
C20 — chunk accounting of the recursive delete (doBatchDeleteFolderMetaAndData): the chunks it
collects are chunks of entries it removes (sound), and every plain file it removes has its
chunks collected (complete).
-/
import SwV.Model.C18
import SwV.Lemmas.C18
namespace SwV.Lemmas.C20Batch
open SwV.Model.C18 SwV.Lemmas.C18

theorem pd_of_pd_child {d q : RPath} {n : String} (h : PD (n :: d) q) : PD d q := by
  refine ⟨(List.suffix_cons n d).trans h.1, ?_⟩
  intro hh
  have := h.1.length_le
  rw [hh] at this
  simp only [List.length_cons] at this
  omega

/-- every collected chunk is a chunk of a stored entry properly below d -/
def Sound (s0 : St) (d : RPath) (cs : List Nat) : Prop :=
  ∀ c ∈ cs, ∃ q b, (q, b) ∈ s0.ents ∧ PD d q ∧ c ∈ b.chunks

theorem batch_loop_sound (rec : St → RPath → Option Batch) (d : RPath) (s0 : St)
    (hrec : ∀ sa n r, TreeInv sa → (∀ x ∈ sa.ents, x ∈ s0.ents) → rec sa (n :: d) = some r →
      BatchOk sa (n :: d) r ∧ Sound s0 (n :: d) r.2.1) :
    ∀ (subs : List (String × Entry)) (acc r : Batch), TreeInv acc.1 → (∀ x ∈ acc.1.ents, x ∈ s0.ents) →
      (∀ sub ∈ subs, (sub.1 :: d, sub.2) ∈ s0.ents) → Sound s0 d acc.2.1 →
      subs.foldl (batchStep rec d) (some acc) = some r → Sound s0 d r.2.1 := by
  intro subs
  induction subs with
  | nil =>
    intro acc r _ _ _ hs h
    simp only [List.foldl] at h
    cases h
    exact hs
  | cons sub t ih =>
    intro acc r inv hsub hmem hs h
    rcases acc with ⟨sa, cs, hl⟩
    simp only [List.foldl] at h
    have hmem' : ∀ sub' ∈ t, (sub'.1 :: d, sub'.2) ∈ s0.ents := fun s' h' => hmem s' (List.mem_cons_of_mem _ h')
    by_cases hd : sub.2.isDir = true
    · cases hr : rec sa (sub.1 :: d) with
      | none => simp [batchStep, hd, hr, foldl_batch_none] at h
      | some r1 =>
        rcases r1 with ⟨s1, cs1, hl1⟩
        have ok := hrec sa sub.1 _ inv hsub hr
        simp only [batchStep, hd, hr, if_true] at h
        refine ih (s1, cs ++ cs1, hl ++ hl1) r ok.1.1 (fun x hx => hsub x (ok.1.2.1.subset hx)) hmem' ?_ h
        intro c hc
        rcases List.mem_append.mp hc with hc | hc
        · exact hs c hc
        · rcases ok.2 c hc with ⟨q, b, hq, hpd, hcb⟩
          exact ⟨q, b, hq, pd_of_pd_child hpd, hcb⟩
    · have hd' : sub.2.isDir = false := by simpa using hd
      by_cases hh : sub.2.hl ≠ 0
      · have hstep : batchStep rec d (some (sa, cs, hl)) sub = some (sa, cs, hl ++ [sub.2.hl]) := by
          simp [batchStep, hd', hh]
        rw [hstep] at h
        exact ih (sa, cs, hl ++ [sub.2.hl]) r inv hsub hmem' hs h
      · have hstep : batchStep rec d (some (sa, cs, hl)) sub = some (sa, cs ++ sub.2.chunks, hl) := by
          simp [batchStep, hd', hh]
        rw [hstep] at h
        refine ih (sa, cs ++ sub.2.chunks, hl) r inv hsub hmem' ?_ h
        intro c hc
        rcases List.mem_append.mp hc with hc | hc
        · exact hs c hc
        · exact ⟨sub.1 :: d, sub.2, hmem sub (by simp), ⟨List.suffix_cons _ _, by simp⟩, hc⟩

theorem doBatch_sound (f : Nat) : ∀ (s : St) (d : RPath) (r : Batch), TreeInv s → doBatch f s d = some r → Sound s d r.2.1 := by
  induction f with
  | zero => intro s d r _ h; simp [doBatch] at h
  | succ f ih =>
    intro s d r inv h
    unfold doBatch at h
    split at h
    · cases h
    · rename_i s' cs hs hfold
      cases h
      refine batch_loop_sound (doBatch f) d s ?_ (children s d) (s, [], []) (s', cs, hs) inv (fun _ hx => hx) ?_ (by intro c hc; simp at hc) hfold
      · intro sa n r1 inva hsub hr1
        refine ⟨batchOk_doBatch f sa (n :: d) r1 inva hr1, ?_⟩
        intro c hc
        rcases ih sa (n :: d) r1 inva hr1 c hc with ⟨q, b, hq, hpd, hcb⟩
        exact ⟨q, b, hsub _ hq, hpd, hcb⟩
      · intro sub hsub
        exact mem_children.mp hsub

/-- every plain file stored properly below d has its chunks collected -/
def Complete (s0 : St) (d : RPath) (cs : List Nat) : Prop :=
  ∀ q b, (q, b) ∈ s0.ents → PD d q → b.isDir = false → b.hl = 0 → ∀ c ∈ b.chunks, c ∈ cs

theorem batch_loop_complete (rec : St → RPath → Option Batch) (d : RPath) (s0 : St)
    (hrec : ∀ sa n, TreeInv sa → (∀ x ∈ sa.ents, x ∈ s0.ents) →
      ∃ r, rec sa (n :: d) = some r ∧ TreeInv r.1 ∧ (∀ x, x ∈ r.1.ents ↔ x ∈ sa.ents ∧ ¬ PD (n :: d) x.1) ∧
        Complete sa (n :: d) r.2.1) :
    ∀ (subs : List (String × Entry)) (acc : Batch), TreeInv acc.1 → (∀ x ∈ acc.1.ents, x ∈ s0.ents) →
      ∃ r, subs.foldl (batchStep rec d) (some acc) = some r ∧ (∀ c ∈ acc.2.1, c ∈ r.2.1) ∧
        ∀ q b, (q, b) ∈ acc.1.ents → b.isDir = false → b.hl = 0 →
          (∃ sub ∈ subs, (sub.2.isDir = true ∧ PD (sub.1 :: d) q) ∨ (sub.2.isDir = false ∧ q = sub.1 :: d ∧ sub.2 = b)) →
          ∀ c ∈ b.chunks, c ∈ r.2.1 := by
  intro subs
  induction subs with
  | nil =>
    intro acc _ _
    exact ⟨acc, rfl, fun _ h => h, by simp⟩
  | cons sub t ih =>
    intro acc inv hsub0
    rcases acc with ⟨sa, cs, hl⟩
    simp only [List.foldl]
    by_cases hd : sub.2.isDir = true
    · rcases hrec sa sub.1 inv hsub0 with ⟨r1, hr1, inv1, hx1, hc1⟩
      rcases r1 with ⟨s1, cs1, hl1⟩
      have hstep : batchStep rec d (some (sa, cs, hl)) sub = some (s1, cs ++ cs1, hl ++ hl1) := by
        simp [batchStep, hd, hr1]
      rw [hstep]
      rcases ih (s1, cs ++ cs1, hl ++ hl1) inv1 (fun x hx => hsub0 x ((hx1 x).mp hx).1) with ⟨r, hr, hmono, hcomp⟩
      refine ⟨r, hr, fun c hc => hmono c (List.mem_append_left _ hc), ?_⟩
      intro q b hq hf h0 hw c hc
      by_cases hpd : PD (sub.1 :: d) q
      · exact hmono c (List.mem_append_right _ (hc1 q b hq hpd hf h0 c hc))
      · rcases hw with ⟨sub', hs', hw'⟩
        rcases List.mem_cons.mp hs' with rfl | hs'
        · rcases hw' with ⟨_, h2⟩ | ⟨h1, _⟩
          · exact absurd h2 hpd
          · rw [hd] at h1; cases h1
        · exact hcomp q b ((hx1 (q, b)).mpr ⟨hq, hpd⟩) hf h0 ⟨sub', hs', hw'⟩ c hc
    · have hd' : sub.2.isDir = false := by simpa using hd
      by_cases hh : sub.2.hl ≠ 0
      · have hstep : batchStep rec d (some (sa, cs, hl)) sub = some (sa, cs, hl ++ [sub.2.hl]) := by
          simp [batchStep, hd', hh]
        rw [hstep]
        rcases ih (sa, cs, hl ++ [sub.2.hl]) inv hsub0 with ⟨r, hr, hmono, hcomp⟩
        refine ⟨r, hr, hmono, ?_⟩
        intro q b hq hf h0 hw c hc
        rcases hw with ⟨sub', hs', hw'⟩
        rcases List.mem_cons.mp hs' with rfl | hs'
        · rcases hw' with ⟨h1, _⟩ | ⟨_, _, h3⟩
          · exact absurd h1 hd
          · rw [h3] at hh; exact absurd h0 hh
        · exact hcomp q b hq hf h0 ⟨sub', hs', hw'⟩ c hc
      · have hstep : batchStep rec d (some (sa, cs, hl)) sub = some (sa, cs ++ sub.2.chunks, hl) := by
          simp [batchStep, hd', hh]
        rw [hstep]
        rcases ih (sa, cs ++ sub.2.chunks, hl) inv hsub0 with ⟨r, hr, hmono, hcomp⟩
        refine ⟨r, hr, fun c hc => hmono c (List.mem_append_left _ hc), ?_⟩
        intro q b hq hf h0 hw c hc
        rcases hw with ⟨sub', hs', hw'⟩
        rcases List.mem_cons.mp hs' with rfl | hs'
        · rcases hw' with ⟨h1, _⟩ | ⟨_, _, h3⟩
          · exact absurd h1 hd
          · rw [← h3] at hc
            exact hmono c (List.mem_append_right _ hc)
        · exact hcomp q b hq hf h0 ⟨sub', hs', hw'⟩ c hc

theorem doBatch_complete (f : Nat) : ∀ (s : St) (d : RPath), TreeInv s →
    (∀ x ∈ s.ents, d <:+ x.1 → x.1.length ≤ d.length + f) →
    ∃ r, doBatch (f + 1) s d = some r ∧ TreeInv r.1 ∧ (∀ x, x ∈ r.1.ents ↔ x ∈ s.ents ∧ ¬ PD d x.1) ∧ Complete s d r.2.1 := by
  induction f with
  | zero =>
    intro s d inv hb
    rcases doBatch_exact 0 s d inv hb with ⟨r, hr, invr, hx⟩
    refine ⟨r, hr, invr, hx, ?_⟩
    intro q b hq hpd
    have h1 := hb _ hq hpd.1
    exact absurd (hpd.1.eq_of_length (by have := hpd.1.length_le; simp only at h1; omega)).symm hpd.2
  | succ f ih =>
    intro s d inv hb
    rcases doBatch_exact (f + 1) s d inv hb with ⟨r, hr, invr, hx⟩
    refine ⟨r, hr, invr, hx, ?_⟩
    -- re-run the loop with the accounting invariant
    have hrec : ∀ sa n, TreeInv sa → (∀ x ∈ sa.ents, x ∈ s.ents) →
        ∃ r, doBatch (f + 1) sa (n :: d) = some r ∧ TreeInv r.1 ∧ (∀ x, x ∈ r.1.ents ↔ x ∈ sa.ents ∧ ¬ PD (n :: d) x.1) ∧
          Complete sa (n :: d) r.2.1 := by
      intro sa n inva hsub
      apply ih sa (n :: d) inva
      intro x hx hs
      have := hb x (hsub x hx) ((List.suffix_cons n d).trans hs)
      simp only [List.length_cons]
      omega
    rcases batch_loop_complete (doBatch (f + 1)) d s hrec (children s d) (s, [], []) inv (fun _ h => h) with ⟨r0, hr0, _, hcomp⟩
    have hr' := hr
    unfold doBatch at hr'
    rw [hr0] at hr'
    rcases r0 with ⟨s', cs, hs⟩
    simp only at hr'
    cases hr'
    intro q b hq hpd hf h0 c hc
    refine hcomp q b hq hf h0 ?_ c hc
    have hne := (inv.parent _ hq).1
    cases q with
    | nil => exact absurd rfl hne
    | cons a t =>
      rcases List.suffix_cons_iff.mp hpd.1 with h3 | h3
      · exact absurd h3.symm hpd.2
      · by_cases htd : t = d
        · subst htd
          exact ⟨(a, b), mem_children.mpr hq, Or.inr ⟨hf, rfl, rfl⟩⟩
        · rcases pd_child_on_path t ⟨h3, htd⟩ with ⟨n, hn⟩
          have hpar := (inv.parent _ hq).2
          simp only [List.tail_cons] at hpar
          rcases hpar with h0' | ⟨dd, hdd, hdir⟩
          · subst h0'
            have := List.suffix_nil.mp hn
            cases this
          · have hcc : ∃ dc, (n :: d, dc) ∈ s.ents ∧ dc.isDir = true := by
              by_cases hct : n :: d = t
              · exact ⟨dd, hct ▸ hdd, hdir⟩
              · exact ancestors_of_inv inv t dd hdd (n :: d) (by simp) hn hct
            rcases hcc with ⟨dc, hdc, hdcdir⟩
            refine ⟨(n, dc), mem_children.mpr hdc, Or.inl ⟨hdcdir, hn.trans (List.suffix_cons a t), ?_⟩⟩
            intro hh
            have := hn.length_le
            rw [← hh] at this
            simp only [List.length_cons] at this
            omega

theorem deleteOne_ents' (s : St) (p : RPath) (e : Entry) : (deleteOne s p e).ents = erase p s.ents := by
  unfold deleteOne
  split <;> simp

/-- shape of a recursive delete with data deletion: succeeds, removes exactly the subtree, and hands over the entry's
    own chunks followed by chunks that are sound and complete for the removed descendants -/
theorem deleteEntry_recursive_shape {s : St} (inv : TreeInv s) (n : String) (par : RPath) (e : Entry)
    (h : find s (n :: par) = some e) :
    ∃ s' dcs, deleteEntry s (n :: par) true true = (s', Res.ok, e.chunks ++ dcs) ∧
      (∀ x, x ∈ s'.ents ↔ x ∈ s.ents ∧ ¬ (n :: par) <:+ x.1) ∧
      Sound s (n :: par) dcs ∧ Complete s (n :: par) dcs := by
  rcases find_stored inv h with ⟨e0, hm, hk⟩
  unfold deleteEntry
  simp only [h, Bool.not_true, Bool.false_and, Bool.false_eq_true, if_false, if_true]
  by_cases hd : e.isDir = true
  · simp only [hd, if_true]
    have hb : ∀ x ∈ s.ents, (n :: par) <:+ x.1 → x.1.length ≤ (n :: par).length + maxLen s.ents := by
      intro x hx _
      have := length_le_maxLen s.ents x hx
      omega
    rcases doBatch_complete (maxLen s.ents) s (n :: par) inv hb with ⟨r, hr, _, hx, hcomp⟩
    have hsound := doBatch_sound _ s (n :: par) r inv hr
    rcases r with ⟨s1, dcs, hs⟩
    rw [hr]
    refine ⟨_, dcs, rfl, ?_, hsound, hcomp⟩
    intro x
    rw [foldl_deleteHardLink_ents, deleteOne_ents', mem_erase, hx x]
    constructor
    · rintro ⟨⟨h1, h2⟩, h3⟩
      exact ⟨h1, fun hs' => h2 ⟨hs', h3⟩⟩
    · rintro ⟨h1, h2⟩
      exact ⟨⟨h1, fun hp => h2 hp.1⟩, fun heq => h2 (heq ▸ List.suffix_refl _)⟩
  · have hd' : e.isDir = false := by simpa using hd
    simp only [hd', Bool.false_eq_true, if_false]
    have nobelow : ∀ q b, (q, b) ∈ s.ents → ¬ PD (n :: par) q := by
      intro q b hq hpd
      rcases ancestors_of_inv inv q b hq (n :: par) (by simp) hpd.1 (fun hh => hpd.2 hh.symm) with ⟨dd, hdd, hdir⟩
      rw [mem_unique inv.nodup hdd hm, hk, hd'] at hdir
      cases hdir
    refine ⟨_, [], rfl, ?_, by intro c hc; simp at hc, fun q b hq hpd => absurd hpd (nobelow q b hq)⟩
    intro x
    rw [foldl_deleteHardLink_ents, deleteOne_ents', mem_erase]
    constructor
    · rintro ⟨h1, h2⟩
      refine ⟨h1, fun hs' => ?_⟩
      rcases x with ⟨x1, x2⟩
      exact nobelow x1 x2 h1 ⟨hs', h2⟩
    · rintro ⟨h1, h2⟩
      exact ⟨h1, fun heq => h2 (heq ▸ List.suffix_refl _)⟩

end SwV.Lemmas.C20Batch
