/-
C05 — reload: replaying the index-entry log written by the in-memory NeedleMap through
`doLoading` (`loadMem`) reproduces the CompactMap and ALL counters maintained online.
-/
import SwV.Model.C05
import SwV.Spec.C05
import SwV.Lemmas.C05d
namespace SwV.Lemmas.C05
open SwV.Model.C05 SwV.Spec.C05

/-- operations on the in-memory NeedleMap (`off` = offset in 8-byte units; for a delete the
    offset of the tombstone record, which plays no role) -/
inductive MOp where
  | put (key off : Nat) (size : Int)
  | del (key off : Nat)
deriving DecidableEq, Repr

def MOp.toOp : MOp → Op
  | .put key off size => .set key (offLo off) (offHi off) size
  | .del key _ => .del key

def applyM (batch : Nat) (m : MemMap) : MOp → MemMap
  | .put key off size => m.put batch key off size
  | .del key off => m.delete batch key off

/-- the operation is outside the recorded reload findings, in model state `cm` / reference `r`:
    * a put stores a non-empty needle (size > 0: `mem-reload/empty-needle-counted-as-deletion`) at a
      real offset (offset 0 is the superblock; `doLoading` reads it as a deletion) and is admissible
      for the CompactMap (no stale high byte);
    * a delete addresses a LIVE key (`mem-reload/noop-delete-counted-as-deletion`; Volume.deleteNeedle
      checks Get first) without aliasing. -/
def mopOk (cm : List Sec) (r : Ref) : MOp → Bool
  | .put key off size => decide (size > 0) && decide (off ≠ 0) && opOk cm (.set key (offLo off) (offHi off) size)
  | .del key _ => noAlias key cm && (match r.get key with | some (_, s) => decide (s > 0) | none => false)

def reloadOkFrom (batch : Nat) : MemMap → Ref → List MOp → Bool
  | _, _, [] => true
  | m, r, op :: ops => mopOk m.cm r op && reloadOkFrom batch (applyM batch m op) (applyR r op.toOp) ops

theorem put_eq (batch : Nat) (m : MemMap) (key off : Nat) (size : Int) :
    m.put batch key off size =
      { cm := (setL batch key (offLo off) (offHi off) size m.cm).1,
        met := m.met.logPut key (setL batch key (offLo off) (offHi off) size m.cm).2.2.2 size,
        idx := ⟨key, off, size⟩ :: m.idx } := rfl

theorem delete_eq (batch : Nat) (m : MemMap) (key off : Nat) :
    m.delete batch key off =
      { cm := (delL batch key m.cm).1, met := m.met.logDel (delL batch key m.cm).2,
        idx := ⟨key, off, -1⟩ :: m.idx } := rfl

theorem loadMem_snoc (batch : Nat) (l : List Rec) (r : Rec) :
    loadMem batch (l ++ [r]) = loadStep batch (loadMem batch l) r := by
  unfold loadMem; rw [List.foldl_append]; rfl

theorem loadStep_put (batch : Nat) (cm : List Sec) (met : Metric) (key off : Nat) (size : Int)
    (ho : off ≠ 0) (hs : size > 0)
    (hold : (setL batch key (offLo off) (offHi off) size cm).2.2.2 > 0 →
      (setL batch key (offLo off) (offHi off) size cm).2.1 ≠ 0 ∨ (setL batch key (offLo off) (offHi off) size cm).2.2.1 ≠ 0) :
    loadStep batch (cm, met) ⟨key, off, size⟩ =
      ((setL batch key (offLo off) (offHi off) size cm).1,
        met.logPut key (setL batch key (offLo off) (offHi off) size cm).2.2.2 size) := by
  unfold loadStep
  simp only [ne_eq, ho, not_false_eq_true, hs, and_self, if_true]
  unfold Metric.logPut Metric.logDel
  by_cases hp : (setL batch key (offLo off) (offHi off) size cm).2.2.2 > 0
  · have := hold hp
    simp only [hp, this, and_self, if_true]
  · simp [hp]

theorem maybeMax_of_le (m : Metric) (key : Nat) (h : key ≤ m.maxKey) : m.maybeMax key = m := by
  unfold Metric.maybeMax
  have : ¬ key > m.maxKey := by omega
  simp [this]

theorem loadStep_del (batch : Nat) (cm : List Sec) (met : Metric) (key off : Nat)
    (hk : key ≤ met.maxKey) (hd : (delL batch key cm).2 > 0) :
    loadStep batch (cm, met) ⟨key, off, -1⟩ = ((delL batch key cm).1, met.logDel (delL batch key cm).2) := by
  unfold loadStep
  simp only [maybeMax_of_le met key hk]
  have : ¬ ((-1 : Int) > 0) := by omega
  simp only [this, and_false, if_false]
  unfold Metric.logDel
  simp [hd]

theorem logPut_maxKey (m : Metric) (key : Nat) (old new : Int) :
    m.maxKey ≤ (m.logPut key old new).maxKey ∧ key ≤ (m.logPut key old new).maxKey := by
  unfold Metric.logPut Metric.logDel Metric.maybeMax
  by_cases h1 : key > m.maxKey <;> by_cases h2 : old > 0 <;> simp [h1, h2] <;> omega

theorem logDel_maxKey (m : Metric) (d : Int) : (m.logDel d).maxKey = m.maxKey := by
  unfold Metric.logDel; split <;> rfl

theorem fullOff_lo_hi (off : Nat) : fullOff (offLo off) (offHi off) = off := by
  unfold fullOff offLo offHi; omega

/-- invariant relating the online NeedleMap, the reference, and the reload of the log so far -/
def ReloadInv (batch : Nat) (m : MemMap) (r : Ref) : Prop :=
  MapInv batch m.cm ∧ Abs m.cm r ∧ loadMem batch m.idx.reverse = (m.cm, m.met) ∧
  (∀ k, (r.get k).isSome → k ≤ m.met.maxKey) ∧
  (∀ k o s, r.get k = some (o, s) → o ≠ 0)

theorem reload_init (batch : Nat) : ReloadInv batch {} [] := by
  refine ⟨trivial, abs_nil, rfl, ?_, ?_⟩
  · intro k hk; simp [Ref.get] at hk
  · intro k o s hk; simp [Ref.get] at hk

theorem reload_step (batch : Nat) (m : MemMap) (r : Ref) (op : MOp)
    (hinv : ReloadInv batch m r) (hok : mopOk m.cm r op = true) :
    ReloadInv batch (applyM batch m op) (applyR r op.toOp) := by
  obtain ⟨h1, h2, h3, h4, h5⟩ := hinv
  cases op with
  | put key off size =>
    have hok' : (decide (size > 0) && decide (off ≠ 0) && opOk m.cm (.set key (offLo off) (offHi off) size)) = true := hok
    simp only [Bool.and_eq_true, decide_eq_true_eq] at hok'
    obtain ⟨⟨hs, ho⟩, hopk⟩ := hok'
    obtain ⟨s1, s2, _⟩ := step_sim batch m.cm r (.set key (offLo off) (offHi off) size) h1 h2 hopk
    obtain ⟨_, _, _, i4⟩ := setL_refines batch key (offLo off) (offHi off) size m.cm h1
    show ReloadInv batch (m.put batch key off size) ((key, fullOff (offLo off) (offHi off), size) :: r)
    rw [put_eq]
    refine ⟨s1, s2, ?_, ?_, ?_⟩
    · simp only [List.reverse_cons]
      rw [loadMem_snoc, h3]
      apply loadStep_put batch m.cm m.met key off size ho hs
      intro hp
      rw [i4] at hp ⊢
      cases hd : denote key m.cm with
      | none => rw [hd] at hp; simp at hp
      | some v =>
        have hr := h2 key
        rw [hd] at hr
        have := h5 key _ _ hr.symm
        simp only [Option.getD_some]
        unfold fullOff at this
        omega
    · intro k hk
      have hm := logPut_maxKey m.met key (setL batch key (offLo off) (offHi off) size m.cm).2.2.2 size
      rw [ref_get_cons] at hk
      simp only
      by_cases hkk : k = key
      · subst hkk; exact hm.2
      · simp only [hkk, if_false] at hk
        have := h4 k hk; omega
    · intro k o s hk
      rw [ref_get_cons] at hk
      by_cases hkk : k = key
      · simp only [hkk, if_true, Option.some.injEq, Prod.mk.injEq] at hk
        rw [← hk.1, fullOff_lo_hi]; exact ho
      · simp only [hkk, if_false] at hk
        exact h5 k o s hk
  | del key off =>
    have hok' : (noAlias key m.cm && (match r.get key with | some (_, s) => decide (s > 0) | none => false)) = true := hok
    simp only [Bool.and_eq_true] at hok'
    obtain ⟨hna, hlive⟩ := hok'
    obtain ⟨s1, s2, s3⟩ := step_sim batch m.cm r (.del key) h1 h2 hna
    cases hg : r.get key with
    | none => rw [hg] at hlive; cases hlive
    | some p =>
      obtain ⟨o, s⟩ := p
      rw [hg] at hlive
      have hs : s > 0 := by simpa using hlive
      have hrd : r.delete key = ((key, o, -s) :: r, s) := by
        rw [ref_delete_some r key o s hg]; simp [hs]
      have hd : (delL batch key m.cm).2 = s := by
        have s3' : (delL batch key m.cm).2 = (r.delete key).2 ∨
          ((delL batch key m.cm).2 < 0 ∧ (r.delete key).2 = 0 ∧ ∃ o, r.get key = some (o, (delL batch key m.cm).2)) := s3
        rw [hrd] at s3'
        rcases s3' with h | ⟨_, h, _⟩
        · exact h
        · simp only at h; omega
      have s2' : Abs (delL batch key m.cm).1 ((key, o, -s) :: r) := by
        have : Abs (delL batch key m.cm).1 (r.delete key).1 := s2
        rw [hrd] at this; exact this
      show ReloadInv batch (m.delete batch key off) (r.delete key).1
      rw [delete_eq, hrd]
      refine ⟨s1, s2', ?_, ?_, ?_⟩
      · simp only [List.reverse_cons]
        rw [loadMem_snoc, h3]
        exact loadStep_del batch m.cm m.met key off (h4 key (by rw [hg]; rfl)) (by rw [hd]; exact hs)
      · intro k hk
        simp only [logDel_maxKey]
        rw [ref_get_cons] at hk
        by_cases hkk : k = key
        · subst hkk; exact h4 k (by rw [hg]; rfl)
        · simp only [hkk, if_false] at hk; exact h4 k hk
      · intro k o' s' hk
        rw [ref_get_cons] at hk
        by_cases hkk : k = key
        · simp only [hkk, if_true, Option.some.injEq, Prod.mk.injEq] at hk
          rw [← hk.1]; exact h5 key o s hg
        · simp only [hkk, if_false] at hk
          exact h5 k o' s' hk

theorem reload_run (batch : Nat) : ∀ (ops : List MOp) (m : MemMap) (r : Ref),
    ReloadInv batch m r → reloadOkFrom batch m r ops = true →
    ReloadInv batch (ops.foldl (applyM batch) m) (ops.foldl (fun r op => applyR r op.toOp) r) := by
  intro ops
  induction ops with
  | nil => intro m r h _; exact h
  | cons op ops ih =>
    intro m r h hok
    simp only [reloadOkFrom, Bool.and_eq_true] at hok
    exact ih _ _ (reload_step batch m r op h hok.1) hok.2

end SwV.Lemmas.C05
