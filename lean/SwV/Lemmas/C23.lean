/- C23 — helper lemmas: association-list facts and the generic "longest setting" induction. -/
import SwV.Model.C23
import SwV.Spec.C23

namespace SwV.Lemmas.C23
open SwV.Model.C23 SwV.Spec.C23

theorem lookup_cons_eq (k : Key) (c : Conf) (rest : Rules) (q : Key) :
    List.lookup q ((k, c) :: rest) = if q = k then some c else List.lookup q rest := by
  simp only [List.lookup_cons]
  by_cases h : q = k
  · subst h; simp
  · have : (q == k) = false := by simpa using h
    simp [this, h]

theorem lookup_putRule (rs : Rules) (k : Key) (c : Conf) (q : Key) :
    List.lookup q (putRule rs k c) = if q = k then some c else List.lookup q rs := by
  induction rs with
  | nil => simp [putRule, lookup_cons_eq]
  | cons r rest ih =>
    rcases r with ⟨k', c'⟩
    simp only [putRule]
    by_cases h : k' = k
    · subst h
      simp only [if_true, lookup_cons_eq]
      by_cases hq : q = k' <;> simp [hq]
    · simp only [h, if_false, lookup_cons_eq, ih]
      by_cases hq : q = k
      · subst hq
        have : ¬ q = k' := fun e => h e.symm
        simp [this]
      · simp [hq]

theorem lookup_delRule (rs : Rules) (k : Key) (q : Key) :
    List.lookup q (delRule rs k) = if q = k then none else List.lookup q rs := by
  induction rs with
  | nil => simp [delRule]
  | cons r rest ih =>
    rcases r with ⟨k', c'⟩
    simp only [delRule] at ih ⊢
    by_cases h : k' = k
    · subst h
      simp only [List.filter_cons, ne_eq, not_true_eq_false, decide_false, Bool.false_eq_true, if_false, ih, lookup_cons_eq]
      by_cases hq : q = k' <;> simp [hq]
    · simp only [List.filter_cons, ne_eq, h, not_false_eq_true, decide_true, if_true, lookup_cons_eq, ih]
      by_cases hq : q = k
      · subst hq
        have : ¬ q = k' := fun e => h e.symm
        simp [this]
      · simp [hq]

theorem lookup_some_mem (rs : Rules) (k : Key) (c : Conf) (h : List.lookup k rs = some c) : (k, c) ∈ rs := by
  induction rs with
  | nil => simp at h
  | cons r rest ih =>
    rcases r with ⟨k', c'⟩
    rw [lookup_cons_eq] at h
    by_cases hq : k = k'
    · subst hq; simp at h; subst h; simp
    · simp [hq] at h; exact List.mem_cons_of_mem _ (ih h)

theorem mem_lookup_of_nodup (rs : Rules) (hnd : (rs.map (·.1)).Nodup) (k : Key) (c : Conf) (h : (k, c) ∈ rs) :
    List.lookup k rs = some c := by
  induction rs with
  | nil => simp at h
  | cons r rest ih =>
    rcases r with ⟨k', c'⟩
    simp only [List.map_cons, List.nodup_cons] at hnd
    rw [lookup_cons_eq]
    rcases List.mem_cons.mp h with e | hm
    · injection e with e1 e2; subst e1; subst e2; simp
    · have : k ≠ k' := by
        intro e; subst e
        exact hnd.1 (List.mem_map.mpr ⟨(k, c), hm, rfl⟩)
      simp [this, ih hnd.2 hm]

theorem matchUpTo_succ (rs : Rules) (p : Key) (n : Nat) :
    matchUpTo rs p (n + 1) = matchStep rs p (matchUpTo rs p n) n := by
  simp [matchUpTo, List.range_succ, List.foldl_append]

theorem prefix_eq_take {k p : Key} (h : k <+: p) : k = p.take k.length :=
  List.prefix_iff_eq_take.mp h

/-- bounded form of `IsLongestSetting`: only rules of length ≤ n count -/
def LongestUpTo {α : Type} (rs : Rules) (path : Key) (get : Conf → α) (isSet : α → Bool) (dflt : α) (n : Nat) (v : α) : Prop :=
  (∃ k c, (k, c) ∈ rs ∧ k <+: path ∧ k.length ≤ n ∧ isSet (get c) = true ∧ v = get c ∧
      ∀ k' c', (k', c') ∈ rs → k' <+: path → k'.length ≤ n → isSet (get c') = true → k'.length ≤ k.length)
  ∨ ((∀ k c, (k, c) ∈ rs → k <+: path → k.length ≤ n → isSet (get c) = false) ∧ v = dflt)

/-- the induction along the descent: after visiting the prefixes of length ≤ n, the accumulated
    field is the longest setting among the rules of length ≤ n -/
theorem upTo_longest {α : Type} (get : Conf → α) (isSet : α → Bool) (dflt : α)
    (hm : ∀ a b, get (mergePathConf a b) = if isSet (get b) = true then get b else get a)
    (h0 : get {} = dflt)
    (rs : Rules) (hwf : WF rs) (p : Key) (n : Nat) (hn : n ≤ p.length) :
    LongestUpTo rs p get isSet dflt n (get (matchUpTo rs p n)) := by
  induction n with
  | zero =>
    right
    refine ⟨?_, by simp [matchUpTo, h0]⟩
    intro k c hmem _ hlen
    have : k = [] := List.eq_nil_of_length_eq_zero (by omega)
    exact absurd this (hwf.2 (k, c) hmem)
  | succ n ih =>
    have ih := ih (by omega)
    rw [matchUpTo_succ]
    -- every matching rule of length exactly n+1 has the key p.take (n+1)
    have key_of : ∀ k, k <+: p → k.length = n + 1 → k = p.take (n + 1) := by
      intro k hk hl; have := prefix_eq_take hk; rw [hl] at this; exact this
    have take_len : (p.take (n + 1)).length = n + 1 := by simp; omega
    unfold matchStep
    cases hl : List.lookup (p.take (n + 1)) rs with
    | none =>
      simp only
      -- no rule of length n+1 matches
      have none_new : ∀ k c, (k, c) ∈ rs → k <+: p → k.length ≤ n + 1 → k.length ≤ n := by
        intro k c hmem hk hlen
        by_cases e : k.length = n + 1
        · have hkk := key_of k hk e
          have hlk := mem_lookup_of_nodup rs hwf.1 k c hmem
          rw [hkk, hl] at hlk
          exact absurd hlk (by simp)
        · omega
      rcases ih with ⟨k, c, hmem, hk, hlen, hset, hv, hmax⟩ | ⟨hnone, hv⟩
      · left
        exact ⟨k, c, hmem, hk, by omega, hset, hv, fun k' c' hm' hk' hl' hs' => hmax k' c' hm' hk' (none_new k' c' hm' hk' hl') hs'⟩
      · right
        exact ⟨fun k c hm' hk' hl' => hnone k c hm' hk' (none_new k c hm' hk' hl'), hv⟩
    | some c =>
      simp only
      have hmemc : (p.take (n + 1), c) ∈ rs := lookup_some_mem rs _ c hl
      -- a matching rule of length n+1 is this rule
      have same : ∀ k' c', (k', c') ∈ rs → k' <+: p → k'.length = n + 1 → c' = c := by
        intro k' c' hm' hk' e
        have hk := key_of k' hk' e
        have := mem_lookup_of_nodup rs hwf.1 k' c' hm'
        rw [hk, hl] at this
        exact (Option.some.inj this).symm
      rw [hm]
      by_cases hs : isSet (get c) = true
      · simp only [hs, if_true]
        left
        refine ⟨p.take (n + 1), c, hmemc, List.take_prefix _ _, by omega, hs, rfl, ?_⟩
        intro k' c' _ _ hl' _
        omega
      · simp only [hs]
        have hsf : isSet (get c) = false := by simpa using hs
        have older : ∀ k' c', (k', c') ∈ rs → k' <+: p → k'.length ≤ n + 1 → isSet (get c') = true → k'.length ≤ n := by
          intro k' c' hm' hk' hl' hs'
          by_cases e : k'.length = n + 1
          · have := same k' c' hm' hk' e
            subst this
            simp [hsf] at hs'
          · omega
        rcases ih with ⟨k, c0, hmem, hk, hlen, hset, hv, hmax⟩ | ⟨hnone, hv⟩
        · left
          exact ⟨k, c0, hmem, hk, by omega, hset, hv,
            fun k' c' hm' hk' hl' hs' => hmax k' c' hm' hk' (older k' c' hm' hk' hl' hs') hs'⟩
        · right
          refine ⟨?_, hv⟩
          intro k' c' hm' hk' hl'
          by_cases e : k'.length = n + 1
          · have := same k' c' hm' hk' e
            subst this; exact hsf
          · exact hnone k' c' hm' hk' (by omega)

theorem longest_of_upTo {α : Type} (rs : Rules) (p : Key) (get : Conf → α) (isSet : α → Bool) (dflt v : α)
    (h : LongestUpTo rs p get isSet dflt p.length v) : IsLongestSetting rs p get isSet dflt v := by
  rcases h with ⟨k, c, hmem, hk, _, hset, hv, hmax⟩ | ⟨hnone, hv⟩
  · left
    exact ⟨k, c, hmem, hk, hset, hv, fun k' c' hm' hk' hs' => hmax k' c' hm' hk' hk'.length_le hs'⟩
  · right
    exact ⟨fun k c hm' hk' => hnone k c hm' hk' hk'.length_le, hv⟩

end SwV.Lemmas.C23
