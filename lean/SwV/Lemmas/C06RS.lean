/-
C06 — GF(2^8) arithmetic of the model (`gfMul`, polynomial 0x11D) and the linear algebra needed to turn the
kernel-checked certificates of SwV/Lemmas/C06Certs.lean into the MDS property of the concrete code.

Field laws are proved WITHOUT enumerating pairs/triples of field elements: `gfMul` is shown additive in each
argument structurally (the shift-and-reduce step `xt` is additive on bytes), every byte is an xor of the 8
basis bytes (`byte_ind`), so commutativity and associativity follow from the 64 / 512 basis cases
(`decide +kernel` over those complete finite tables).
-/
import SwV.Model.C06
import SwV.Model.C06RS
import SwV.Spec.C06
namespace SwV.Lemmas.C06
open SwV.Model.C06 SwV.Spec.C06

/-! ### `gfMul` in recursive form; additivity in the second argument -/

/-- multiplication by x in GF(2^8) = GF(2)[x]/(x^8+x^4+x^3+x^2+1) -/
def xt (a : Nat) : Nat := if a * 2 ≥ 256 then (a * 2) ^^^ 0x11D else a * 2

theorem gfMulAux_acc (f : Nat) : ∀ a b acc, gfMulAux f a b acc = acc ^^^ gfMulAux f a b 0 := by
  induction f with
  | zero => intro a b acc; simp [gfMulAux]
  | succ f ih =>
    intro a b acc
    simp only [gfMulAux]
    rw [ih _ _ (if b % 2 = 1 then acc ^^^ a else acc), ih _ _ (if b % 2 = 1 then 0 ^^^ a else 0)]
    split <;> simp [Nat.xor_assoc]

theorem gfMulAux_succ (f a b : Nat) :
    gfMulAux (f + 1) a b 0 = (if b % 2 = 1 then a else 0) ^^^ gfMulAux f (xt a) (b / 2) 0 := by
  conv => lhs; simp only [gfMulAux]
  rw [gfMulAux_acc]
  simp [xt]

theorem xor_mod2 (x y : Nat) : (x ^^^ y) % 2 = (x % 2 + y % 2) % 2 := by
  have := Nat.testBit_xor x y 0
  simp only [Nat.testBit_zero] at this
  rcases Nat.mod_two_eq_zero_or_one x with hx | hx <;> rcases Nat.mod_two_eq_zero_or_one y with hy | hy <;>
    rcases Nat.mod_two_eq_zero_or_one (x ^^^ y) with hz | hz <;> simp_all

theorem xor_div2 (x y : Nat) : (x ^^^ y) / 2 = x / 2 ^^^ y / 2 := by
  have := @Nat.shiftRight_xor_distrib 1 x y
  simpa [Nat.shiftRight_eq_div_pow] using this

theorem xor_cancel4 (a u w : Nat) : a ^^^ u ^^^ (a ^^^ w) = u ^^^ w := by
  rw [show a ^^^ u ^^^ (a ^^^ w) = (a ^^^ a) ^^^ (u ^^^ w) by ac_rfl]; simp

/-- additive in the second argument (all naturals) -/
theorem gfMulAux_add_right (f : Nat) : ∀ a x y, gfMulAux f a (x ^^^ y) 0 = gfMulAux f a x 0 ^^^ gfMulAux f a y 0 := by
  induction f with
  | zero => intro a x y; simp [gfMulAux]
  | succ f ih =>
    intro a x y
    rw [gfMulAux_succ, gfMulAux_succ, gfMulAux_succ, xor_div2, ih, xor_mod2]
    rcases Nat.mod_two_eq_zero_or_one x with hx | hx <;> rcases Nat.mod_two_eq_zero_or_one y with hy | hy <;>
      simp [hx, hy] <;> first | ac_rfl | exact (xor_cancel4 _ _ _).symm


/-! ### first argument -/

theorem xor_mul2 (a b : Nat) : (a ^^^ b) * 2 = a * 2 ^^^ b * 2 := by
  have := @Nat.shiftLeft_xor_distrib 1 a b
  simpa [Nat.shiftLeft_eq] using this

theorem xor_div128 (a b : Nat) : (a ^^^ b) / 128 = a / 128 ^^^ b / 128 := by
  have := @Nat.shiftRight_xor_distrib 7 a b
  simpa [Nat.shiftRight_eq_div_pow] using this

theorem xt_eq (a : Nat) (h : a < 256) : xt a = a * 2 ^^^ (if a / 128 = 1 then 0x11D else 0) := by
  unfold xt
  by_cases h1 : a * 2 ≥ 256
  · have : a / 128 = 1 := by omega
    simp [h1, this]
  · have : ¬ (a / 128 = 1) := by omega
    simp [h1, this]

theorem xt_lt : ∀ a, a < 256 → xt a < 256 := by decide +kernel

theorem xor_byte {a b : Nat} (ha : a < 256) (hb : b < 256) : a ^^^ b < 256 :=
  @Nat.xor_lt_two_pow a b 8 ha hb

theorem xt_add (a b : Nat) (ha : a < 256) (hb : b < 256) : xt (a ^^^ b) = xt a ^^^ xt b := by
  rw [xt_eq a ha, xt_eq b hb, xt_eq _ (xor_byte ha hb), xor_mul2, xor_div128]
  have h1 : a / 128 = 0 ∨ a / 128 = 1 := by omega
  have h2 : b / 128 = 0 ∨ b / 128 = 1 := by omega
  rcases h1 with h1 | h1 <;> rcases h2 with h2 | h2 <;> simp [h1, h2] <;>
    first | ac_rfl | (rw [show a * 2 ^^^ 285 ^^^ (b * 2 ^^^ 285) = (285 ^^^ (a * 2)) ^^^ (285 ^^^ (b * 2)) by ac_rfl, xor_cancel4])

theorem gfMulAux_add_left (f : Nat) : ∀ a a' b, a < 256 → a' < 256 →
    gfMulAux f (a ^^^ a') b 0 = gfMulAux f a b 0 ^^^ gfMulAux f a' b 0 := by
  induction f with
  | zero => intro a a' b _ _; simp [gfMulAux]
  | succ f ih =>
    intro a a' b ha ha'
    rw [gfMulAux_succ, gfMulAux_succ, gfMulAux_succ, xt_add a a' ha ha', ih _ _ _ (xt_lt a ha) (xt_lt a' ha')]
    split
    · ac_rfl
    · simp

theorem gfMulAux_lt (f : Nat) : ∀ a b, a < 256 → gfMulAux f a b 0 < 256 := by
  induction f with
  | zero => intro a b _; simp [gfMulAux]
  | succ f ih =>
    intro a b ha
    rw [gfMulAux_succ]
    apply xor_byte
    · split <;> omega
    · exact ih _ _ (xt_lt a ha)

theorem gfMul_add_right (a x y : Nat) : gfMul a (x ^^^ y) = gfMul a x ^^^ gfMul a y := gfMulAux_add_right 8 a x y
theorem gfMul_add_left (a a' b : Nat) (ha : a < 256) (ha' : a' < 256) :
    gfMul (a ^^^ a') b = gfMul a b ^^^ gfMul a' b := gfMulAux_add_left 8 a a' b ha ha'
theorem gfMul_lt (a b : Nat) (ha : a < 256) : gfMul a b < 256 := gfMulAux_lt 8 a b ha

theorem gfMulAux_zero_right (f : Nat) : ∀ a, gfMulAux f a 0 0 = 0 := by
  induction f with
  | zero => intro a; rfl
  | succ f ih => intro a; rw [gfMulAux_succ]; simp [ih]

theorem gfMulAux_zero_left (f : Nat) : ∀ b, gfMulAux f 0 b 0 = 0 := by
  induction f with
  | zero => intro b; rfl
  | succ f ih => intro b; rw [gfMulAux_succ]; simp [ih, show xt 0 = 0 from rfl]

theorem gfMul_zero_right (a : Nat) : gfMul a 0 = 0 := gfMulAux_zero_right 8 a
theorem gfMul_zero_left (b : Nat) : gfMul 0 b = 0 := gfMulAux_zero_left 8 b


/-! ### from the 8 basis bytes to all bytes -/

theorem byte_decomp : ∀ x, x < 256 →
    x = (x &&& 2 ^ 0) ^^^ (x &&& 2 ^ 1) ^^^ (x &&& 2 ^ 2) ^^^ (x &&& 2 ^ 3) ^^^ (x &&& 2 ^ 4) ^^^ (x &&& 2 ^ 5) ^^^
      (x &&& 2 ^ 6) ^^^ (x &&& 2 ^ 7) := by decide +kernel

theorem and_two_pow_cases : ∀ x, x < 256 → ∀ i, i < 8 → x &&& 2 ^ i = 0 ∨ x &&& 2 ^ i = 2 ^ i := by decide +kernel

theorem byte_ind (P : Nat → Prop) (h0 : P 0) (hb : ∀ i, i < 8 → P (2 ^ i))
    (hx : ∀ x y, x < 256 → y < 256 → P x → P y → P (x ^^^ y)) (x : Nat) (h : x < 256) : P x := by
  have ht : ∀ i, i < 8 → P (x &&& 2 ^ i) ∧ x &&& 2 ^ i < 256 := by
    intro i hi
    rcases and_two_pow_cases x h i hi with e | e <;> rw [e]
    · exact ⟨h0, by omega⟩
    · exact ⟨hb i hi, Nat.pow_lt_pow_right (by omega) (by omega : i < 8)⟩
  have hq : ∀ u w, (P u ∧ u < 256) → (P w ∧ w < 256) → (P (u ^^^ w) ∧ u ^^^ w < 256) :=
    fun u w hu hw => ⟨hx u w hu.2 hw.2 hu.1 hw.1, xor_byte hu.2 hw.2⟩
  rw [byte_decomp x h]
  exact (hq _ _ (hq _ _ (hq _ _ (hq _ _ (hq _ _ (hq _ _ (hq _ _ (ht 0 (by omega)) (ht 1 (by omega))) (ht 2 (by omega)))
    (ht 3 (by omega))) (ht 4 (by omega))) (ht 5 (by omega))) (ht 6 (by omega))) (ht 7 (by omega))).1

/-! ### field laws on bytes, from the basis -/

theorem gfMul_comm_basis : ∀ i, i < 8 → ∀ j, j < 8 → gfMul (2 ^ i) (2 ^ j) = gfMul (2 ^ j) (2 ^ i) := by decide +kernel

theorem gfMul_assoc_basis : ∀ i, i < 8 → ∀ j, j < 8 → ∀ l, l < 8 →
    gfMul (2 ^ i) (gfMul (2 ^ j) (2 ^ l)) = gfMul (gfMul (2 ^ i) (2 ^ j)) (2 ^ l) := by decide +kernel

theorem pow_byte (i : Nat) (h : i < 8) : 2 ^ i < 256 := Nat.pow_lt_pow_right (by omega) (by omega : i < 8)

theorem gfMul_comm (a b : Nat) (ha : a < 256) (hb : b < 256) : gfMul a b = gfMul b a := by
  revert b
  refine byte_ind (fun a => ∀ b, b < 256 → gfMul a b = gfMul b a) ?_ ?_ ?_ a ha
  · intro b _; rw [gfMul_zero_left, gfMul_zero_right]
  · intro i hi b hb
    refine byte_ind (fun b => gfMul (2 ^ i) b = gfMul b (2 ^ i)) ?_ ?_ ?_ b hb
    · rw [gfMul_zero_left, gfMul_zero_right]
    · intro j hj; exact gfMul_comm_basis i hi j hj
    · intro x y hx hy px py; rw [gfMul_add_right, gfMul_add_left _ _ _ hx hy, px, py]
  · intro x y hx hy px py b hb
    rw [gfMul_add_right, gfMul_add_left _ _ _ hx hy, px b hb, py b hb]

theorem gfMul_assoc (a b c : Nat) (ha : a < 256) (hb : b < 256) (hc : c < 256) :
    gfMul a (gfMul b c) = gfMul (gfMul a b) c := by
  revert b c
  refine byte_ind (fun a => ∀ b c, b < 256 → c < 256 → gfMul a (gfMul b c) = gfMul (gfMul a b) c) ?_ ?_ ?_ a ha
  · intro b c _ _; simp [gfMul_zero_left]
  · intro i hi b c hb hc
    revert c
    refine byte_ind (fun b => ∀ c, c < 256 → gfMul (2 ^ i) (gfMul b c) = gfMul (gfMul (2 ^ i) b) c) ?_ ?_ ?_ b hb
    · intro c _; simp [gfMul_zero_left, gfMul_zero_right]
    · intro j hj c hc
      refine byte_ind (fun c => gfMul (2 ^ i) (gfMul (2 ^ j) c) = gfMul (gfMul (2 ^ i) (2 ^ j)) c) ?_ ?_ ?_ c hc
      · simp [gfMul_zero_right]
      · intro l hl; exact gfMul_assoc_basis i hi j hj l hl
      · intro x y _ _ px py; rw [gfMul_add_right, gfMul_add_right, gfMul_add_right, px, py]
    · intro x y hx hy px py c hc
      rw [gfMul_add_left _ _ _ hx hy, gfMul_add_right, px c hc, py c hc, gfMul_add_right,
        gfMul_add_left _ _ _ (gfMul_lt _ _ (pow_byte i hi)) (gfMul_lt _ _ (pow_byte i hi))]
  · intro x y hx hy px py b c hb hc
    rw [gfMul_add_left _ _ _ hx hy, px b c hb hc, py b c hb hc, gfMul_add_left _ _ _ hx hy,
      gfMul_add_left _ _ _ (gfMul_lt _ _ hx) (gfMul_lt _ _ hy)]

theorem gfMul_one_left : ∀ x, x < 256 → gfMul 1 x = x := by decide +kernel
theorem gfMul_one_right (x : Nat) (h : x < 256) : gfMul x 1 = x := by
  rw [gfMul_comm x 1 h (by omega)]; exact gfMul_one_left x h


/-! ### vectors of bytes -/

def IsBytes (l : List Nat) : Prop := ∀ x ∈ l, x < 256

instance (l : List Nat) : Decidable (IsBytes l) := by unfold IsBytes; infer_instance

theorem isBytes_cons {x : Nat} {l : List Nat} : IsBytes (x :: l) ↔ x < 256 ∧ IsBytes l := by
  unfold IsBytes; simp

theorem mulQ_eq (a x : Nat) (ha : a < 256) (hx : x < 256) : mulQ a x = gfMul a x := by
  unfold mulQ
  split
  · rename_i h; rw [h, gfMul_zero_right]
  · split
    · rename_i h; rw [h, gfMul_one_right a ha]
    · split
      · rename_i h; rw [h, gfMul_one_left x hx]
      · rfl

theorem gfDot_foldl_acc (l : List (Nat × Nat)) : ∀ acc,
    l.foldl (fun acc xy => acc ^^^ gfMul xy.1 xy.2) acc = acc ^^^ l.foldl (fun acc xy => acc ^^^ gfMul xy.1 xy.2) 0 := by
  induction l with
  | nil => intro acc; simp
  | cons h t ih => intro acc; simp only [List.foldl_cons]; rw [ih (acc ^^^ _), ih (0 ^^^ _)]; simp [Nat.xor_assoc]

theorem gfDot_cons (x y : Nat) (r c : List Nat) : gfDot (x :: r) (y :: c) = gfMul x y ^^^ gfDot r c := by
  unfold gfDot
  simp only [List.zip_cons_cons, List.foldl_cons]
  rw [gfDot_foldl_acc]; simp

@[simp] theorem gfDot_nil_left (c : List Nat) : gfDot [] c = 0 := by simp [gfDot]
@[simp] theorem gfDot_nil_right (r : List Nat) : gfDot r [] = 0 := by simp [gfDot]

theorem gfDot_lt : ∀ (r c : List Nat), IsBytes r → gfDot r c < 256 := by
  intro r
  induction r with
  | nil => intro c _; simp
  | cons x r ih =>
    intro c h
    cases c with
    | nil => simp
    | cons y c =>
      rw [gfDot_cons]
      exact xor_byte (gfMul_lt _ _ (isBytes_cons.mp h).1) (ih c (isBytes_cons.mp h).2)

theorem gfDot_smul (a : Nat) (ha : a < 256) : ∀ (b v : List Nat), IsBytes b → IsBytes v →
    gfDot (b.map (mulQ a)) v = gfMul a (gfDot b v) := by
  intro b
  induction b with
  | nil => intro v _ _; simp [gfMul_zero_right]
  | cons x b ih =>
    intro v hb hv
    cases v with
    | nil => simp [gfMul_zero_right]
    | cons y v =>
      have hx := (isBytes_cons.mp hb).1
      have hy := (isBytes_cons.mp hv).1
      rw [List.map_cons, gfDot_cons, gfDot_cons, gfMul_add_right, ih v (isBytes_cons.mp hb).2 (isBytes_cons.mp hv).2,
        mulQ_eq a x ha hx, gfMul_assoc a x y ha hx hy]

theorem gfDot_vadd : ∀ (u w v : List Nat), IsBytes u → IsBytes w → u.length = w.length →
    gfDot (vadd u w) v = gfDot u v ^^^ gfDot w v := by
  intro u
  induction u with
  | nil => intro w v _ _ hl; cases w <;> simp_all [vadd]
  | cons x u ih =>
    intro w v hu hw hl
    cases w with
    | nil => simp at hl
    | cons z w =>
      cases v with
      | nil => simp [vadd]
      | cons y v =>
        have hx := (isBytes_cons.mp hu).1
        have hz := (isBytes_cons.mp hw).1
        have := ih w v (isBytes_cons.mp hu).2 (isBytes_cons.mp hw).2 (by simpa using hl)
        unfold vadd at this ⊢
        rw [List.zipWith_cons_cons, gfDot_cons, gfDot_cons, gfDot_cons, this, gfMul_add_left x z y hx hz]
        ac_rfl

theorem gfDot_zeros (p : Nat) : ∀ v, gfDot (List.replicate p 0) v = 0 := by
  induction p with
  | zero => intro v; simp
  | succ p ih =>
    intro v
    cases v with
    | nil => simp
    | cons y v => rw [List.replicate_succ, gfDot_cons, ih, gfMul_zero_left]; rfl

theorem vadd_length (u w : List Nat) : (vadd u w).length = min u.length w.length := by simp [vadd]

theorem vadd_bytes (u w : List Nat) (hu : IsBytes u) (hw : IsBytes w) : IsBytes (vadd u w) := by
  intro x hx
  unfold vadd at hx
  obtain ⟨i, hi, rfl⟩ := List.getElem_of_mem hx
  simp only [List.getElem_zipWith]
  simp only [List.length_zipWith] at hi
  exact xor_byte (hu _ (List.getElem_mem _)) (hw _ (List.getElem_mem _))

theorem vecMat_cons (p x : Nat) (a b : List Nat) (B : List (List Nat)) :
    vecMat p (x :: a) (b :: B) = if x = 0 then vecMat p a B else vadd (b.map (mulQ x)) (vecMat p a B) := by
  rw [vecMat]

theorem vecMat_spec (p : Nat) : ∀ (a : List Nat) (B : List (List Nat)), IsBytes a →
    (∀ b ∈ B, b.length = p ∧ IsBytes b) → (vecMat p a B).length = p ∧ IsBytes (vecMat p a B) := by
  intro a
  induction a with
  | nil => intro B _ _; cases B <;> simp [vecMat, IsBytes]
  | cons x a ih =>
    intro B ha hB
    cases B with
    | nil => simp [vecMat, IsBytes]
    | cons b B =>
      have hx := (isBytes_cons.mp ha).1
      have hb := hB b (List.mem_cons_self)
      have hr := ih B (isBytes_cons.mp ha).2 (fun b' hb' => hB b' (List.mem_cons_of_mem _ hb'))
      rw [vecMat_cons]
      split
      · exact hr
      · constructor
        · rw [vadd_length, List.length_map, hb.1, hr.1]; simp
        · apply vadd_bytes _ _ _ hr.2
          intro y hy
          obtain ⟨z, hz, rfl⟩ := List.mem_map.mp hy
          rw [mulQ_eq x z hx (hb.2 z hz)]; exact gfMul_lt _ _ hx

/-- `a · (B · v) = (a · B) · v` for byte vectors/matrices -/
theorem gfDot_matVec (p : Nat) (v : List Nat) (hv : IsBytes v) : ∀ (a : List Nat) (B : List (List Nat)), IsBytes a →
    (∀ b ∈ B, b.length = p ∧ IsBytes b) → gfDot a (matVec B v) = gfDot (vecMat p a B) v := by
  intro a
  induction a with
  | nil => intro B _ _; cases B <;> simp [vecMat, gfDot_zeros]
  | cons x a ih =>
    intro B ha hB
    cases B with
    | nil => simp [vecMat, matVec, gfDot_zeros]
    | cons b B =>
      have hx := (isBytes_cons.mp ha).1
      have hb := hB b (List.mem_cons_self)
      have hB' : ∀ b' ∈ B, b'.length = p ∧ IsBytes b' := fun b' hb' => hB b' (List.mem_cons_of_mem _ hb')
      have hr := ih B (isBytes_cons.mp ha).2 hB'
      have hs := vecMat_spec p a B (isBytes_cons.mp ha).2 hB'
      have hmv : matVec (b :: B) v = gfDot b v :: matVec B v := rfl
      rw [hmv, gfDot_cons, hr, vecMat_cons]
      split
      · rename_i h0; rw [h0, gfMul_zero_left]; simp
      · rw [gfDot_vadd _ _ _ _ hs.2 (by rw [List.length_map, hb.1, hs.1]), gfDot_smul x hx b v hb.2 hv]
        intro y hy
        obtain ⟨z, hz, rfl⟩ := List.mem_map.mp hy
        rw [mulQ_eq x z hx (hb.2 z hz)]; exact gfMul_lt _ _ hx

end SwV.Lemmas.C06
