/-
C36 — lemmas about the path-component reading of the model's string functions:
`comps` of `clean`, of `join` (= util.Join) and of a suffix cut off after the source directory.
-/
import SwV.Model.C36
import SwV.Spec.C36
namespace SwV.Lemmas.C36
open SwV.Model.C36 SwV.Spec.C36

theorem compsAux_append_slash (a b cur : Str) : compsAux (a ++ '/' :: b) cur = compsAux a cur ++ comps b := by
  induction a generalizing cur with
  | nil =>
    simp only [List.nil_append, compsAux, if_true, comps]
    by_cases h : cur = [] <;> simp [h]
  | cons c cs ih =>
    simp only [List.cons_append, compsAux]
    by_cases hc : c = '/'
    · simp only [hc, if_true]
      by_cases h : cur = [] <;> simp [h, ih]
    · simp only [hc, if_false, ih]

theorem comps_append_slash (a b : Str) : comps (a ++ '/' :: b) = comps a ++ comps b :=
  compsAux_append_slash a b []

theorem comps_nil : comps [] = [] := by simp [comps, compsAux]

theorem comps_slash_cons (b : Str) : comps ('/' :: b) = comps b := by
  simp [comps, compsAux]

def NoSlash (x : Str) : Prop := ∀ c ∈ x, c ≠ '/'

/-- a slash-free string is one component (or none when empty) -/
theorem compsAux_noslash (a : Str) (h : NoSlash a) : ∀ cur, compsAux a cur = if cur ++ a = [] then [] else [cur ++ a] := by
  induction a with
  | nil => intro cur; simp [compsAux]
  | cons c cs ih =>
    intro cur
    have hc : c ≠ '/' := h c List.mem_cons_self
    have hcs : NoSlash cs := fun x hx => h x (List.mem_cons_of_mem _ hx)
    simp only [compsAux, hc, if_false]
    rw [ih hcs]
    simp

theorem comps_noslash (a : Str) (h : NoSlash a) (hne : a ≠ []) : comps a = [a] := by
  unfold comps
  rw [compsAux_noslash a h]
  simp [hne]

/-- every component is non-empty and slash-free -/
theorem compsAux_good : ∀ (s cur : Str), NoSlash cur → ∀ x ∈ compsAux s cur, x ≠ [] ∧ NoSlash x := by
  intro s
  induction s with
  | nil =>
    intro cur hcur x hx
    simp only [compsAux] at hx
    by_cases h : cur = []
    · simp [h] at hx
    · simp only [h, if_false, List.mem_singleton] at hx
      subst hx; exact ⟨h, hcur⟩
  | cons c cs ih =>
    intro cur hcur x hx
    simp only [compsAux] at hx
    by_cases hc : c = '/'
    · simp only [hc, if_true] at hx
      by_cases h : cur = []
      · simp only [h, if_true] at hx
        exact ih [] (fun _ h => by cases h) x hx
      · simp only [h, if_false, List.mem_cons] at hx
        cases hx with
        | inl h1 => subst h1; exact ⟨h, hcur⟩
        | inr h1 => exact ih [] (fun _ h => by cases h) x h1
    · simp only [hc, if_false] at hx
      refine ih (cur ++ [c]) ?_ x hx
      intro y hy
      cases List.mem_append.1 hy with
      | inl h1 => exact hcur y h1
      | inr h1 => simp only [List.mem_singleton] at h1; subst h1; exact hc

theorem comps_good (s : Str) : ∀ x ∈ comps s, x ≠ [] ∧ NoSlash x :=
  compsAux_good s [] (fun _ h => by cases h)

theorem compsAux_ne_nil : ∀ (s cur : Str), cur ≠ [] → compsAux s cur ≠ [] := by
  intro s
  induction s with
  | nil => intro cur h; simp [compsAux, h]
  | cons c cs ih =>
    intro cur h
    simp only [compsAux]
    by_cases hc : c = '/'
    · simp [hc, h]
    · simp only [hc, if_false]
      exact ih _ (by simp)

theorem intercalate_cons_cons (x y : Str) (r : List Str) :
    ['/'].intercalate (x :: y :: r) = x ++ '/' :: ['/'].intercalate (y :: r) := by
  simp [List.intercalate, List.intersperse]

theorem intercalate_single (x : Str) : ['/'].intercalate [x] = x := by
  simp [List.intercalate, List.intersperse]

/-- splitting a '/'-joined list = splitting its parts -/
theorem comps_intercalate : ∀ parts : List Str, comps (['/'].intercalate parts) = parts.flatMap comps := by
  intro parts
  induction parts with
  | nil => simp [List.intercalate, comps_nil]
  | cons x r ih =>
    cases r with
    | nil => simp
    | cons y r =>
      rw [intercalate_cons_cons, comps_append_slash, ih]
      simp

theorem flatMap_comps_of_good : ∀ L : List Str, (∀ x ∈ L, x ≠ [] ∧ NoSlash x) → L.flatMap comps = L := by
  intro L
  induction L with
  | nil => intro _; rfl
  | cons x r ih =>
    intro h
    have hx := h x List.mem_cons_self
    rw [List.flatMap_cons, comps_noslash x hx.2 hx.1, ih (fun y hy => h y (List.mem_cons_of_mem _ hy))]
    rfl

/-- `filepath.Clean` keeps the components -/
theorem comps_clean (s : Str) (hs : s ≠ []) : comps (clean s) = comps s := by
  have hbody : comps (['/'].intercalate (comps s)) = comps s := by
    rw [comps_intercalate, flatMap_comps_of_good _ (comps_good s)]
  unfold clean
  simp only []
  by_cases hr : rooted s = true
  · simp only [hr, if_true]
    rw [if_neg (by simp), comps_slash_cons, hbody]
  · simp only [hr]
    by_cases hb : ['/'].intercalate (comps s) = []
    · -- impossible: a non-empty unrooted string has a component
      exfalso
      cases s with
      | nil => exact hs rfl
      | cons c cs =>
        have hc : c ≠ '/' := by
          intro h; apply hr; simp [rooted, h]
        have hne : comps (c :: cs) ≠ [] := by
          simp only [comps, compsAux, hc, if_false]
          exact compsAux_ne_nil cs _ (by simp)
        have h0 : comps (['/'].intercalate (comps (c :: cs))) = [] := by rw [hb, comps_nil]
        rw [hbody] at h0
        exact hne h0
    · simp only [Bool.false_eq_true, if_false, hb]
      exact hbody

/-- `util.Join`, read component-wise: the components of the parts, in order -/
theorem comps_join (parts : List Str) : comps (join parts) = parts.flatMap comps := by
  unfold join
  simp only []
  have hfm : (parts.filter (· ≠ [])).flatMap comps = parts.flatMap comps := by
    induction parts with
    | nil => rfl
    | cons x r ih =>
      by_cases hx : x = []
      · subst hx
        rw [List.filter_cons]
        simp only [ne_eq, not_true_eq_false, decide_false, Bool.false_eq_true, if_false, List.flatMap_cons, comps_nil,
          List.nil_append]
        exact ih
      · rw [List.filter_cons]
        simp only [ne_eq, hx, not_false_eq_true, decide_true, if_true, List.flatMap_cons]
        rw [← ih]
  by_cases hne : parts.filter (· ≠ []) = []
  · simp only [hne, if_true]
    rw [← hfm, hne]; simp [comps_nil]
  · simp only [hne, if_false]
    have hi : ['/'].intercalate (parts.filter (· ≠ [])) ≠ [] := by
      cases hL : parts.filter (· ≠ []) with
      | nil => exact absurd hL hne
      | cons x r =>
        have hx : x ≠ [] := by
          have : x ∈ parts.filter (· ≠ []) := by rw [hL]; exact List.mem_cons_self
          simpa using (List.mem_filter.1 this).2
        cases r with
        | nil => rw [intercalate_single]; exact hx
        | cons y r => rw [intercalate_cons_cons]; simp [hx]
    rw [comps_clean _ hi, comps_intercalate, hfm]

/-! ## inside, as the code tests it -/

/-- The string test of the code (`strings.HasPrefix(p, src)`) together with the boundary condition that makes
    it a component-wise test: the source path ends in '/', or `p` is the source path, or the next character
    of `p` is '/'.  Accepted paths WITHOUT the boundary condition are the sibling-prefix findings. -/
def Boundary (src p : Str) : Prop :=
  (∃ d, src = d ++ ['/']) ∨ p = src ∨ (p.drop src.length).head? = some '/'

instance (src p : Str) : Decidable (Boundary src p) := by
  unfold Boundary
  have : Decidable (∃ d, src = d ++ ['/']) :=
    decidable_of_iff (src.getLast? = some '/') (by
      constructor
      · intro h
        have hne : src ≠ [] := by intro h0; simp [h0] at h
        refine ⟨src.dropLast, ?_⟩
        have h1 := List.dropLast_concat_getLast hne
        rw [List.getLast?_eq_some_getLast hne] at h
        simp only [Option.some.injEq] at h
        rw [h] at h1; exact h1.symm
      · rintro ⟨d, rfl⟩; simp)
  exact inferInstance

def InsideStr (src p : Str) : Prop := hasPrefix p src = true ∧ Boundary src p

instance (src p : Str) : Decidable (InsideStr src p) := by unfold InsideStr; exact inferInstance

theorem comps_trailing_slash (d : Str) : comps (d ++ ['/']) = comps d := by
  have := comps_append_slash d []
  simpa [comps_nil] using this

/-- the components of an inside path = those of the source directory, then those of the remainder -/
theorem comps_of_insideStr {src p : Str} (h : InsideStr src p) :
    comps p = comps src ++ comps (p.drop src.length) := by
  obtain ⟨hp, hb⟩ := h
  simp only [hasPrefix, List.isPrefixOf_iff_prefix] at hp
  obtain ⟨rest, rfl⟩ := hp
  simp only [List.drop_left]
  rcases hb with ⟨d, rfl⟩ | hk | hs
  · rw [comps_trailing_slash]
    have := comps_append_slash d rest
    simpa using this
  · have : rest = [] := by
      have := congrArg List.length hk
      simpa using this
    subst this; simp [comps_nil]
  · simp only [List.drop_left] at hs
    cases rest with
    | nil => simp at hs
    | cons c r =>
      simp only [List.head?_cons, Option.some.injEq] at hs
      subst hs
      rw [comps_append_slash, comps_slash_cons]

theorem inside_of_insideStr {src p : Str} (h : InsideStr src p) : inside src p = true := by
  simp only [inside, List.isPrefixOf_iff_prefix]
  rw [comps_of_insideStr h]
  exact List.prefix_append _ _

theorem drop_comps_of_insideStr {src p : Str} (h : InsideStr src p) :
    (comps p).drop (comps src).length = comps (p.drop src.length) := by
  rw [comps_of_insideStr h, List.drop_left]

/-- THE MAPPING: the key `util.Join(target, [date,] p[len(src):])` has the components
    target ++ [date] ++ (p relative to src) -/
theorem comps_mapped {src p : Str} (tgt : Str) (incr : Bool) (h : InsideStr src p) :
    comps (join [tgt, dateKey incr, p.drop src.length]) = mappedComps src tgt incr p := by
  rw [comps_join]
  unfold mappedComps
  rw [drop_comps_of_insideStr h]
  cases incr with
  | false => simp [dateKey, comps_nil]
  | true =>
    have : comps (dateKey true) = [dateKey true] := by decide
    simp [this]

theorem comps_mapped_plain {src p : Str} (tgt : Str) (h : InsideStr src p) :
    comps (join [tgt, p.drop src.length]) = mappedComps src tgt false p := by
  rw [comps_join]
  unfold mappedComps
  rw [drop_comps_of_insideStr h]
  simp

theorem comps_buildKey {src p : Str} (tgt : Str) (incr : Bool) (h : InsideStr src p) :
    comps (buildKey src tgt incr p) = mappedComps src tgt incr p := by
  cases incr with
  | false => exact comps_mapped_plain tgt h
  | true => exact comps_mapped tgt true h

/-- outside component-wise and not a sibling-prefix (the string test does not fire without the boundary) -/
def OutsideStr (src p : Str) : Prop := inside src p = false ∧ (hasPrefix p src = true → Boundary src p)

instance (src p : Str) : Decidable (OutsideStr src p) := by unfold OutsideStr; exact inferInstance

theorem not_prefix_of_outsideStr {src p : Str} (h : OutsideStr src p) : hasPrefix p src = false := by
  cases hp : hasPrefix p src with
  | false => rfl
  | true =>
    have := inside_of_insideStr ⟨hp, h.2 hp⟩
    rw [h.1] at this; cases this

end SwV.Lemmas.C36
