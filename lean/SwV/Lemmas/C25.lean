/-
C25 lemmas: auxiliary facts for SwV/Props/C25.lean.

  * `mem_toC17`, `dataOf_of_getElem?`, `le_extent`, `extent_le`   the C17 view of a C25 chunk list
  * `readBack_spec`   every byte `readBack` delivers is `ByteOk` (C17's `readAt_eq_overlay_model`)
  * `byteOk_of_agree`, `byteOk_append_left`, `keysDistinct_toC17`   when `ByteOk` determines the byte
  * `loop_nofail`, `loop_readErr_nofail`, `loop_fails`   what the upload loop produces outside its inline branch
-/
import SwV.Model.C25
import SwV.Spec.C25
import SwV.Props.C17
namespace SwV.Lemmas.C25
open SwV.Model.C25
open SwV.Model.C17 (Chunk Node maxInt64 readAcc readAt viewFromChunks)
open SwV.Spec.C17 (ByteOk Newest covers keyLe flatten wellFormed)
open SwV.Props.C17 (KeysDistinct)

/-! ### the C17 view of a chunk list -/

theorem mem_toC17 {cs : List MChunk} {c : Chunk} :
    c ∈ toC17 cs ↔ ∃ idx mc, cs[idx]? = some mc ∧
      c = { off := mc.off, size := mc.data.length, mtime := (mc.gen : Int), fid := idx, key := idx } := by
  unfold toC17
  simp only [List.mem_map, Prod.exists, List.mem_zipIdx_iff_getElem?]
  constructor
  · rintro ⟨mc, idx, h, rfl⟩; exact ⟨idx, mc, h, rfl⟩
  · rintro ⟨idx, mc, h, rfl⟩; exact ⟨mc, idx, h, rfl⟩

theorem dataOf_of_getElem? {cs : List MChunk} {idx : Nat} {mc : MChunk} (h : cs[idx]? = some mc) (k : Nat) :
    dataOf cs idx k = mc.data.getD k 0 := by
  unfold dataOf
  simp [List.getD_eq_getElem?_getD, h]

theorem foldl_max_stop (l : List MChunk) : ∀ (init : Nat),
    init ≤ l.foldl (fun m c => max m c.stop) init ∧ ∀ c ∈ l, c.stop ≤ l.foldl (fun m c => max m c.stop) init := by
  induction l with
  | nil => intro init; simp
  | cons x xs ih =>
    intro init
    have := ih (max init x.stop)
    simp only [List.foldl_cons, List.mem_cons, forall_eq_or_imp]
    refine ⟨by omega, by omega, this.2⟩

theorem foldl_max_stop_le (l : List MChunk) (B : Nat) (h : ∀ c ∈ l, c.stop ≤ B) : ∀ (init : Nat), init ≤ B →
    l.foldl (fun m c => max m c.stop) init ≤ B := by
  induction l with
  | nil => intro init hi; simpa using hi
  | cons x xs ih =>
    intro init hi
    simp only [List.foldl_cons]
    have hx := h x (by simp)
    exact ih (fun c hc => h c (by simp [hc])) _ (by omega)

theorem le_extent (cs : List MChunk) (c : MChunk) (h : c ∈ cs) : c.stop ≤ extent cs :=
  (foldl_max_stop cs 0).2 c h

theorem extent_le (cs : List MChunk) (B : Nat) (h : ∀ c ∈ cs, c.stop ≤ B) : extent cs ≤ B :=
  foldl_max_stop_le cs B h 0 (Nat.zero_le _)

/-! ### readBack through C17 -/

/-- the chunk branch of `readBack`: as long as the size, and every byte is a legal content byte (C17) -/
theorem readBack_spec (e : Entry) (hlt : e.content.length < e.size) (hmax : e.size ≤ maxInt64) :
    (readBack e).length = e.size ∧
    ∀ i, i < e.size → ByteOk (dataOf e.chunks) (toC17 e.chunks) i ((readBack e).getD i 0) := by
  have hfs : ∀ c ∈ flatten ((toC17 e.chunks).map Node.data), c.off + c.size ≤ e.size := by
    rw [SwV.Props.C17.flatten_map_data]
    intro c hc
    obtain ⟨idx, mc, h, rfl⟩ := mem_toC17.1 hc
    have := le_extent e.chunks mc (List.mem_of_getElem? h)
    simp only [Entry.size, MChunk.stop] at *
    omega
  have h := SwV.Props.C17.readAt_eq_overlay_model (dataOf e.chunks) ((toC17 e.chunks).map Node.data)
    (SwV.Props.C17.wellFormed_map_data _) e.size hfs hmax (List.replicate e.size 0) 0
  have hrb : readBack e = readAcc (dataOf e.chunks) (viewFromChunks ((toC17 e.chunks).map Node.data) 0 maxInt64) e.size e.size 0 := by
    unfold readBack
    rw [if_neg (by omega)]
  simp only [readAt, List.length_replicate, SwV.Props.C17.flatten_map_data] at h
  rw [← hrb] at h
  obtain ⟨h1, -, -, h4, -⟩ := h
  have hl : (readBack e).length = e.size := by omega
  refine ⟨hl, ?_⟩
  intro i hi
  have := h4 i (by omega)
  rw [List.getD_eq_getElem?_getD, List.getElem?_append_left (by omega)] at this
  rw [List.getD_eq_getElem?_getD]
  simpa using this

/-! ### when `ByteOk` determines the byte -/

/-- all chunks covering position i show the byte v there, and at least one does: the content byte is v -/
theorem byteOk_of_agree (cs : List MChunk) (i v b : Nat)
    (hag : ∀ mc ∈ cs, mc.off ≤ i → i < mc.off + mc.data.length → mc.data[i - mc.off]? = some v)
    (hcov : ∃ mc ∈ cs, mc.off ≤ i ∧ i < mc.off + mc.data.length)
    (h : ByteOk (dataOf cs) (toC17 cs) i b) : b = v := by
  rcases h with ⟨c, hc, rfl⟩ | ⟨hn, -⟩
  · obtain ⟨idx, mc, hidx, rfl⟩ := mem_toC17.1 hc.1
    have hcv := hc.2.1
    simp only [covers] at hcv
    have := hag mc (List.mem_of_getElem? hidx) hcv.1 hcv.2
    simp [dataOf_of_getElem? hidx, List.getD_eq_getElem?_getD, this]
  · obtain ⟨mc, hmc, h1, h2⟩ := hcov
    obtain ⟨idx, hidx⟩ := List.mem_iff_getElem?.1 hmc
    exact absurd (show covers _ i from ⟨h1, h2⟩) (hn _ (mem_toC17.2 ⟨idx, mc, hidx, rfl⟩))

/-- chunks appended behind a list that do not cover position i do not change its content byte -/
theorem byteOk_append_left (a b' : List MChunk) (i b : Nat)
    (hnc : ∀ mc ∈ b', ¬ (mc.off ≤ i ∧ i < mc.off + mc.data.length))
    (h : ByteOk (dataOf (a ++ b')) (toC17 (a ++ b')) i b) : ByteOk (dataOf a) (toC17 a) i b := by
  have hsub : ∀ c ∈ toC17 a, c ∈ toC17 (a ++ b') := by
    intro c hc
    obtain ⟨idx, mc, hidx, rfl⟩ := mem_toC17.1 hc
    refine mem_toC17.2 ⟨idx, mc, ?_, rfl⟩
    have hlt : idx < a.length := (List.getElem?_eq_some_iff.1 hidx).1
    rw [List.getElem?_append_left hlt]; exact hidx
  have hback : ∀ c ∈ toC17 (a ++ b'), covers c i →
      c ∈ toC17 a ∧ ∀ k, dataOf (a ++ b') c.fid k = dataOf a c.fid k := by
    intro c hc hcv
    obtain ⟨idx, mc, hidx, rfl⟩ := mem_toC17.1 hc
    by_cases hlt : idx < a.length
    · have hidx' := hidx
      rw [List.getElem?_append_left hlt] at hidx'
      exact ⟨mem_toC17.2 ⟨idx, mc, hidx', rfl⟩, fun k => by rw [dataOf_of_getElem? hidx, dataOf_of_getElem? hidx']⟩
    · rw [List.getElem?_append_right (by omega)] at hidx
      exact absurd hcv (hnc mc (List.mem_of_getElem? hidx))
  rcases h with ⟨c, hc, rfl⟩ | ⟨hn, rfl⟩
  · obtain ⟨hm, hd⟩ := hback c hc.1 hc.2.1
    exact Or.inl ⟨c, ⟨hm, hc.2.1, fun c' hc' hcv' => hc.2.2 c' (hsub c' hc') hcv'⟩, hd _⟩
  · exact Or.inr ⟨fun c hc => hn c (hsub c hc), rfl⟩

theorem keysDistinct_toC17 (cs : List MChunk) : KeysDistinct (toC17 cs) := by
  intro a ha b hb _ hk
  obtain ⟨i, m, hi, rfl⟩ := mem_toC17.1 ha
  obtain ⟨j, n, hj, rfl⟩ := mem_toC17.1 hb
  simp only at hk
  subst hk
  rw [hi] at hj
  cases hj
  rfl

/-! ### the upload loop outside its inline branch -/

/-- `new` = chunks at offsets ≥ off that show `rest` (placed at off) and cover all of it -/
structure TilesAt (off : Nat) (new : List MChunk) (rest : List Nat) : Prop where
  lo : ∀ c ∈ new, off ≤ c.off
  hi : ∀ c ∈ new, c.off + c.data.length ≤ off + rest.length
  agree : ∀ c ∈ new, ∀ i, i < c.data.length → rest[c.off - off + i]? = c.data[i]?
  cover : ∀ q, q < rest.length → ∃ c ∈ new, c.off ≤ off + q ∧ off + q < c.off + c.data.length

/-- error-free reader, inline branch not taken now (hence never: later iterations have off > 0): the loop
    uploads all of `rest` as chunks tiling it from `off` on -/
theorem loop_nofail (cs limit : Nat) (inlineOK etc : Bool) (gen : Nat) (hcs : 0 < cs) :
    ∀ (fuel : Nat) (rest : List Nat) (off : Nat) (acc : List MChunk), rest.length < fuel →
      (rest = [] ∨ off ≠ 0 ∨ inlineOK = false ∨ (etc = false ∧ limit ≤ min cs rest.length)) →
      ∃ new, uploadLoop cs limit inlineOK etc gen false fuel rest off acc = ⟨acc ++ new, off + rest.length, [], false⟩ ∧
        TilesAt off new rest := by
  intro fuel
  induction fuel with
  | zero => intro rest off acc h; omega
  | succ fuel ih =>
    intro rest off acc hfuel hni
    unfold uploadLoop
    simp only [List.length_take, Bool.false_eq_true, false_and, if_false]
    by_cases h0 : min cs rest.length = 0
    · have hr : rest = [] := by
        cases rest with
        | nil => rfl
        | cons x xs => simp at h0; omega
      subst hr
      refine ⟨[], by simp, ⟨by simp, by simp, by simp, by simp⟩⟩
    · rw [if_neg h0]
      have hne : rest ≠ [] := by
        intro hr; subst hr; simp at h0
      have hinl : ¬ (off = 0 ∧ inlineOK = true ∧ (min cs rest.length < limit ∨ etc = true)) := by
        rintro ⟨h1, h2, h3⟩
        rcases hni with h | h | h | ⟨h, h'⟩
        · exact hne h
        · exact h h1
        · rw [h] at h2; cases h2
        · rcases h3 with h3 | h3
          · omega
          · rw [h] at h3; cases h3
      rw [if_neg hinl]
      by_cases hshort : min cs rest.length < cs
      · rw [if_pos hshort]
        have htk : rest.take cs = rest := List.take_of_length_le (by omega)
        refine ⟨[{ off := off, gen := gen, data := rest }], ?_, ?_⟩
        · rw [htk]
          have : min cs rest.length = rest.length := by omega
          rw [this]
        · refine ⟨?_, ?_, ?_, ?_⟩
          · intro c hc; simp at hc; subst hc; exact Nat.le_refl _
          · intro c hc; simp at hc; subst hc; exact Nat.le_refl _
          · intro c hc i _; simp at hc; subst hc; simp
          · intro q hq
            exact ⟨⟨off, gen, rest⟩, List.mem_singleton.2 rfl, Nat.le_add_right _ _, by simpa using hq⟩
      · rw [if_neg hshort]
        have hlen : cs ≤ rest.length := by omega
        have hmin : min cs rest.length = cs := by omega
        obtain ⟨new', heq, ht⟩ := ih (rest.drop cs) (off + min cs rest.length)
          (acc ++ [{ off := off, gen := gen, data := rest.take cs }])
          (by simp only [List.length_drop]; omega) (Or.inr (Or.inl (by omega)))
        refine ⟨{ off := off, gen := gen, data := rest.take cs } :: new', ?_, ?_⟩
        · rw [heq]
          simp only [List.length_drop, List.append_assoc, List.singleton_append, Upload.mk.injEq, and_true, true_and]
          omega
        · rw [hmin] at ht
          refine ⟨?_, ?_, ?_, ?_⟩
          · intro c hc
            rcases List.mem_cons.1 hc with rfl | hc
            · exact Nat.le_refl _
            · have := ht.lo c hc; omega
          · intro c hc
            rcases List.mem_cons.1 hc with rfl | hc
            · simp only [List.length_take]; omega
            · have := ht.hi c hc
              simp only [List.length_drop] at this
              omega
          · intro c hc i hi
            rcases List.mem_cons.1 hc with rfl | hc
            · simp only [List.length_take] at hi
              simp only [Nat.sub_self, Nat.zero_add, List.getElem?_take]
              rw [if_pos (by omega)]
            · have h1 := ht.agree c hc i hi
              have h2 := ht.lo c hc
              rw [List.getElem?_drop] at h1
              rw [← h1]
              congr 1
              omega
          · intro q hq
            by_cases hq' : q < cs
            · refine ⟨_, List.mem_cons_self, Nat.le_add_right _ _, ?_⟩
              simp only [List.length_take]; omega
            · obtain ⟨c, hc, h1, h2⟩ := ht.cover (q - cs) (by simp only [List.length_drop]; omega)
              exact ⟨c, List.mem_cons_of_mem _ hc, by omega, by omega⟩

/-- an error-free reader never makes the loop remember a read error -/
theorem loop_readErr_nofail (cs limit : Nat) (inlineOK etc : Bool) (gen : Nat) :
    ∀ (fuel : Nat) (rest : List Nat) (off : Nat) (acc : List MChunk),
      (uploadLoop cs limit inlineOK etc gen false fuel rest off acc).readErr = false := by
  intro fuel
  induction fuel with
  | zero => intro rest off acc; rfl
  | succ fuel ih =>
    intro rest off acc
    unfold uploadLoop
    simp only [Bool.false_eq_true, false_and, if_false]
    split
    · rfl
    · split
      · rfl
      · split
        · rfl
        · exact ih _ _ _

/-- a reader that fails after `rest`, inline branch not taken: the loop behaves like an error-free reader of
    the whole reads before the error, and ends with the read error remembered -/
theorem loop_fails (cs limit : Nat) (inlineOK etc : Bool) (gen : Nat) (hcs : 0 < cs) :
    ∀ (fuel : Nat) (rest : List Nat) (off : Nat) (acc : List MChunk) (j : Nat),
      rest.length < fuel → j * cs ≤ rest.length → rest.length < (j + 1) * cs →
      (off ≠ 0 ∨ inlineOK = false ∨ (etc = false ∧ limit ≤ cs) ∨ rest.length < cs) →
      uploadLoop cs limit inlineOK etc gen true fuel rest off acc =
        { uploadLoop cs limit inlineOK etc gen false fuel (rest.take (j * cs)) off acc with readErr := true } := by
  intro fuel
  induction fuel with
  | zero => intro rest off acc j hf _ _ _; omega
  | succ fuel ih =>
    intro rest off acc j hf h1 h2 hni
    cases j with
    | zero =>
      have hlt : rest.length < cs := by simpa using h2
      unfold uploadLoop
      simp [hlt]
    | succ j =>
      have hsm : (j + 1) * cs = j * cs + cs := Nat.succ_mul j cs
      have hsm2 : (j + 1 + 1) * cs = j * cs + cs + cs := by rw [Nat.succ_mul (j + 1) cs, hsm]
      have hge : cs ≤ rest.length := by omega
      have hrec := ih (rest.drop cs) (off + cs) (acc ++ [{ off := off, gen := gen, data := rest.take cs }]) j
        (by simp only [List.length_drop]; omega) (by simp only [List.length_drop]; omega)
        (by simp only [List.length_drop]; omega) (Or.inl (by omega))
      have htt : (rest.take ((j + 1) * cs)).take cs = rest.take cs := by
        rw [List.take_take]; congr 1; omega
      have hdt : (rest.take ((j + 1) * cs)).drop cs = (rest.drop cs).take (j * cs) := by
        rw [List.drop_take]; congr 1; omega
      have hl1 : (rest.take ((j + 1) * cs)).length = j * cs + cs := by
        simp only [List.length_take]; omega
      have hpl : (rest.take cs).length = cs := by simp only [List.length_take]; omega
      have hnl : ¬ rest.length < cs := by omega
      have h0 : cs ≠ 0 := by omega
      have hinl : ¬ (off = 0 ∧ inlineOK = true ∧ (cs < limit ∨ etc = true)) := by
        rintro ⟨a1, a2, a3⟩
        rcases hni with h | h | ⟨h, h'⟩ | h
        · exact h a1
        · rw [h] at a2; cases a2
        · rcases a3 with a3 | a3
          · omega
          · rw [h] at a3; cases a3
        · omega
      conv => lhs; unfold uploadLoop
      conv => rhs; unfold uploadLoop
      simp only [htt, hdt, hpl, hnl, hl1, h0, hinl, and_false, Bool.false_eq_true, false_and, Nat.lt_irrefl, if_false]
      rw [hrec]

/-! ### how many chunks the loop uploads -/

/-- the loop never drops a chunk it has collected -/
theorem loop_acc_le (cs limit : Nat) (inlineOK etc : Bool) (gen : Nat) (fails : Bool) :
    ∀ (fuel : Nat) (rest : List Nat) (off : Nat) (acc : List MChunk),
      acc.length ≤ (uploadLoop cs limit inlineOK etc gen fails fuel rest off acc).chunks.length := by
  intro fuel
  induction fuel with
  | zero => intro rest off acc; exact Nat.le_refl _
  | succ fuel ih =>
    intro rest off acc
    unfold uploadLoop
    simp only
    split
    · exact Nat.le_refl _
    · split
      · exact Nat.le_refl _
      · split
        · exact Nat.le_refl _
        · split
          · simp
          · refine Nat.le_trans ?_ (ih _ _ _)
            simp

/-- error-free reader, inline branch not taken: a body that reaches beyond `k` whole chunks has a chunk read k-th -/
theorem loop_count (cs limit : Nat) (inlineOK etc : Bool) (gen : Nat) (hcs : 0 < cs) :
    ∀ (fuel : Nat) (rest : List Nat) (off : Nat) (acc : List MChunk) (k : Nat), rest.length < fuel →
      (off ≠ 0 ∨ inlineOK = false ∨ (etc = false ∧ limit ≤ min cs rest.length)) → k * cs < rest.length →
      acc.length + k < (uploadLoop cs limit inlineOK etc gen false fuel rest off acc).chunks.length := by
  intro fuel
  induction fuel with
  | zero => intro rest off acc k h; omega
  | succ fuel ih =>
    intro rest off acc k hfuel hni hk
    have hpos : 0 < rest.length := by omega
    unfold uploadLoop
    simp only [List.length_take, Bool.false_eq_true, false_and, if_false]
    have h0 : ¬ min cs rest.length = 0 := by omega
    rw [if_neg h0]
    have hinl : ¬ (off = 0 ∧ inlineOK = true ∧ (min cs rest.length < limit ∨ etc = true)) := by
      rintro ⟨h1, h2, h3⟩
      rcases hni with h | h | ⟨h, h'⟩
      · exact h h1
      · rw [h] at h2; cases h2
      · rcases h3 with h3 | h3
        · omega
        · rw [h] at h3; cases h3
    rw [if_neg hinl]
    by_cases hshort : min cs rest.length < cs
    · rw [if_pos hshort]
      have hk0 : k = 0 := by
        cases k with
        | zero => rfl
        | succ k =>
          have : (k + 1) * cs = k * cs + cs := Nat.succ_mul k cs
          omega
      subst hk0
      simp
    · rw [if_neg hshort]
      have hmin : min cs rest.length = cs := by omega
      cases k with
      | zero =>
        refine Nat.lt_of_lt_of_le ?_ (loop_acc_le cs limit inlineOK etc gen false fuel _ _ _)
        simp
      | succ k =>
        have hsm : (k + 1) * cs = k * cs + cs := Nat.succ_mul k cs
        have := ih (rest.drop cs) (off + min cs rest.length)
          (acc ++ [{ off := off, gen := gen, data := rest.take cs }]) k
          (by simp only [List.length_drop]; omega) (Or.inl (by omega))
          (by simp only [List.length_drop]; omega)
        simp only [List.length_append, List.length_singleton] at this
        omega

end SwV.Lemmas.C25
