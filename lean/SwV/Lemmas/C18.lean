/-
Helper lemmas for C18 / C20 / C21: the association-list store, the invariant `TreeInv`
and its preservation by every building block of the model.
-/
import SwV.Model.C18
namespace SwV.Lemmas.C18
open SwV.Model.C18

/-! ### association lists -/

theorem lookup_some_mem {p : RPath} {l : List (RPath × Entry)} {e : Entry} (h : lookup p l = some e) : (p, e) ∈ l := by
  induction l with
  | nil => simp [lookup] at h
  | cons x r ih =>
    simp only [lookup] at h
    split at h
    · rename_i hx
      cases h
      rcases x with ⟨a, b⟩
      simp at hx
      simp [hx]
    · exact List.mem_cons_of_mem _ (ih h)

theorem lookup_of_mem_nodup {p : RPath} {l : List (RPath × Entry)} {e : Entry}
    (nd : (l.map (·.1)).Nodup) (h : (p, e) ∈ l) : lookup p l = some e := by
  induction l with
  | nil => simp at h
  | cons x r ih =>
    simp only [List.map_cons, List.nodup_cons] at nd
    simp only [lookup]
    rcases List.mem_cons.mp h with h | h
    · subst h; simp
    · have : x.1 ≠ p := by
        intro hx
        apply nd.1
        rw [hx]
        exact List.mem_map.mpr ⟨(p, e), h, rfl⟩
      simp [this, ih nd.2 h]

theorem lookup_none_of_not_mem {p : RPath} {l : List (RPath × Entry)} (h : ∀ e, (p, e) ∉ l) : lookup p l = none := by
  cases hl : lookup p l with
  | none => rfl
  | some e => exact absurd (lookup_some_mem hl) (h e)

theorem mem_erase {p : RPath} {l : List (RPath × Entry)} {x : RPath × Entry} : x ∈ erase p l ↔ x ∈ l ∧ x.1 ≠ p := by
  simp [erase, List.mem_filter]

theorem mem_put {p : RPath} {l : List (RPath × Entry)} {e : Entry} {x : RPath × Entry} :
    x ∈ put l p e ↔ x = (p, e) ∨ (x ∈ l ∧ x.1 ≠ p) := by
  simp [put, mem_erase]

theorem nodup_erase {p : RPath} {l : List (RPath × Entry)} (nd : (l.map (·.1)).Nodup) : ((erase p l).map (·.1)).Nodup :=
  nd.sublist ((List.filter_sublist (l := l)).map _)

theorem nodup_put {p : RPath} {l : List (RPath × Entry)} {e : Entry} (nd : (l.map (·.1)).Nodup) :
    ((put l p e).map (·.1)).Nodup := by
  simp only [put, List.map_cons, List.nodup_cons]
  refine ⟨?_, nodup_erase nd⟩
  intro h
  rcases List.mem_map.mp h with ⟨x, hx, hp⟩
  exact (mem_erase.mp hx).2 hp

theorem mem_delChildren {d : RPath} {l : List (RPath × Entry)} {x : RPath × Entry} :
    x ∈ delChildren l d ↔ x ∈ l ∧ (x.1 = [] ∨ x.1.tail ≠ d) := by
  rcases x with ⟨p, e⟩
  cases p with
  | nil => simp [delChildren, List.mem_filter]
  | cons n par => simp [delChildren, List.mem_filter]

theorem delChildren_sublist (d : RPath) (l : List (RPath × Entry)) : (delChildren l d).Sublist l :=
  List.filter_sublist

theorem erase_sublist (p : RPath) (l : List (RPath × Entry)) : (erase p l).Sublist l :=
  List.filter_sublist

/-! ### KV -/

theorem kvGet_some_mem {s : St} {k : Nat} {r : Entry} (h : kvGet s k = some r) : (k, r) ∈ s.kv := by
  simp only [kvGet, Option.map_eq_some_iff] at h
  rcases h with ⟨x, hx, rfl⟩
  have hm := List.mem_of_find?_eq_some hx
  have hk := List.find?_some hx
  rcases x with ⟨a, b⟩
  simp at hk
  subst hk
  exact hm

theorem mem_kvPut {s : St} {k : Nat} {r : Entry} {x : Nat × Entry} (h : x ∈ (kvPut s k r).kv) : x = (k, r) ∨ x ∈ s.kv := by
  simp only [kvPut, List.mem_cons, List.mem_filter] at h
  rcases h with h | h
  · exact Or.inl h
  · exact Or.inr h.1

theorem mem_kvDel {s : St} {k : Nat} {x : Nat × Entry} (h : x ∈ (kvDel s k).kv) : x ∈ s.kv := by
  simp only [kvDel, List.mem_filter] at h
  exact h.1

@[simp] theorem kvPut_ents (s : St) (k : Nat) (r : Entry) : (kvPut s k r).ents = s.ents := rfl
@[simp] theorem kvDel_ents (s : St) (k : Nat) : (kvDel s k).ents = s.ents := rfl

@[simp] theorem deleteHardLink_ents (s : St) (k : Nat) : (deleteHardLink s k).ents = s.ents := by
  unfold deleteHardLink
  split
  · rfl
  · split <;> rfl

theorem recFile_deleteHardLink {s : St} {k : Nat} (h : ∀ x ∈ s.kv, x.2.isDir = false) :
    ∀ x ∈ (deleteHardLink s k).kv, x.2.isDir = false := by
  unfold deleteHardLink
  split
  · exact h
  · rename_i r hr
    split
    · intro x hx; exact h x (mem_kvDel hx)
    · intro x hx
      rcases mem_kvPut hx with rfl | hx
      · exact h (k, r) (kvGet_some_mem hr)
      · exact h x hx

@[simp] theorem foldl_deleteHardLink_ents (hs : List Nat) (s : St) : (hs.foldl deleteHardLink s).ents = s.ents := by
  induction hs generalizing s with
  | nil => rfl
  | cons h t ih => simp [List.foldl, ih]

theorem recFile_foldl_deleteHardLink (hs : List Nat) {s : St} (h : ∀ x ∈ s.kv, x.2.isDir = false) :
    ∀ x ∈ (hs.foldl deleteHardLink s).kv, x.2.isDir = false := by
  induction hs generalizing s with
  | nil => exact h
  | cons k t ih => exact ih (recFile_deleteHardLink h)

/-! ### the invariant -/

/-- the store is a map; it is parent-closed (every stored path is below the root and its parent is the root or a
    stored directory); directories carry no link id; link records are files -/
structure TreeInv (s : St) : Prop where
  nodup : (s.ents.map (·.1)).Nodup
  parent : ∀ x ∈ s.ents, x.1 ≠ [] ∧ (x.1.tail = [] ∨ ∃ d, (x.1.tail, d) ∈ s.ents ∧ d.isDir = true)
  dirNoLink : ∀ x ∈ s.ents, x.2.isDir = true → x.2.hl = 0
  recFile : ∀ x ∈ s.kv, x.2.isDir = false

theorem mem_unique {l : List (RPath × Entry)} (nd : (l.map (·.1)).Nodup) {p : RPath} {a b : Entry}
    (ha : (p, a) ∈ l) (hb : (p, b) ∈ l) : a = b := by
  have h1 := lookup_of_mem_nodup nd ha
  have h2 := lookup_of_mem_nodup nd hb
  rw [h1] at h2
  exact Option.some.inj h2

theorem tail_ne_self {p : RPath} (hp : p ≠ []) : p.tail ≠ p := by
  intro h
  have := congrArg List.length h
  cases p with
  | nil => exact hp rfl
  | cons a t => simp at this

theorem find_stored {s : St} (inv : TreeInv s) {p : RPath} {e : Entry} (h : find s p = some e) :
    ∃ e0, (p, e0) ∈ s.ents ∧ e0.isDir = e.isDir := by
  unfold find at h
  split at h
  · cases h
  · rename_i e0 h0
    have hm := lookup_some_mem h0
    split at h
    · cases h; exact ⟨_, hm, rfl⟩
    · rename_i hne
      have hf : e0.isDir = false := by
        cases hd : e0.isDir with
        | false => rfl
        | true => exact absurd (inv.dirNoLink _ hm hd) hne
      split at h
      · rename_i r hr
        cases h
        exact ⟨e0, hm, by rw [hf, inv.recFile _ (kvGet_some_mem hr)]⟩
      · cases h; exact ⟨_, hm, rfl⟩

theorem find_none {s : St} (inv : TreeInv s) {p : RPath} (h : find s p = none) : ∀ e, (p, e) ∉ s.ents := by
  intro e he
  have := lookup_of_mem_nodup inv.nodup he
  unfold find at h
  rw [this] at h
  simp only at h
  split at h
  · cases h
  · split at h <;> cases h

@[simp] theorem handleUpdate_ents (s : St) (p : RPath) (e : Entry) : (handleUpdateToHardLinks s p e).ents = s.ents := by
  unfold handleUpdateToHardLinks
  split
  · rfl
  · simp only
    split
    · split <;> simp
    · simp

theorem recFile_handleUpdate {s : St} (p : RPath) {e : Entry} (h : ∀ x ∈ s.kv, x.2.isDir = false)
    (he : e.isDir = true → e.hl = 0) : ∀ x ∈ (handleUpdateToHardLinks s p e).kv, x.2.isDir = false := by
  unfold handleUpdateToHardLinks
  split
  · exact h
  · rename_i hne
    have h1 : ∀ x ∈ (kvPut s e.hl e).kv, x.2.isDir = false := by
      intro x hx
      rcases mem_kvPut hx with rfl | hx
      · cases hd : e.isDir with
        | false => rfl
        | true => exact absurd (he hd) hne
      · exact h x hx
    simp only
    split
    · split
      · exact recFile_deleteHardLink h1
      · exact h1
    · exact h1

theorem mem_wInsert {s : St} {p : RPath} {e : Entry} {x : RPath × Entry} :
    x ∈ (wInsert s p e).ents ↔ x = (p, e) ∨ (x ∈ s.ents ∧ x.1 ≠ p) := by
  simp [wInsert, mem_put]

theorem inv_wInsert {s : St} {p : RPath} {e : Entry} (inv : TreeInv s) (he : e.isDir = true → e.hl = 0) (hp : p ≠ [])
    (hpar : p.tail = [] ∨ ∃ d, (p.tail, d) ∈ s.ents ∧ d.isDir = true)
    (hty : ∀ e0, (p, e0) ∈ s.ents → e0.isDir = e.isDir) : TreeInv (wInsert s p e) := by
  refine ⟨?_, ?_, ?_, ?_⟩
  · simp only [wInsert, handleUpdate_ents]
    exact nodup_put inv.nodup
  · intro x hx
    rcases mem_wInsert.mp hx with rfl | ⟨hx, hne⟩
    · refine ⟨hp, ?_⟩
      rcases hpar with h | ⟨d, hd, hdd⟩
      · exact Or.inl h
      · exact Or.inr ⟨d, mem_wInsert.mpr (Or.inr ⟨hd, tail_ne_self hp⟩), hdd⟩
    · have := inv.parent x hx
      refine ⟨this.1, ?_⟩
      rcases this.2 with h | ⟨d, hd, hdd⟩
      · exact Or.inl h
      · by_cases hc : x.1.tail = p
        · refine Or.inr ⟨e, mem_wInsert.mpr (Or.inl (by rw [hc])), ?_⟩
          rw [← hty d (hc ▸ hd)]; exact hdd
        · exact Or.inr ⟨d, mem_wInsert.mpr (Or.inr ⟨hd, hc⟩), hdd⟩
  · intro x hx
    rcases mem_wInsert.mp hx with rfl | ⟨hx, _⟩
    · exact he
    · exact inv.dirNoLink x hx
  · simp only [wInsert]
    exact recFile_handleUpdate p inv.recFile he

theorem inv_ensureParent (e : Entry) (q : RPath) : ∀ s, TreeInv s →
    TreeInv (ensureParent e q s).1
    ∧ ((ensureParent e q s).2 = true → q = [] ∨ ∃ d, (q, d) ∈ (ensureParent e q s).1.ents ∧ d.isDir = true)
    ∧ (∀ x : RPath × Entry, x.1.length > q.length → (x ∈ (ensureParent e q s).1.ents ↔ x ∈ s.ents)) := by
  induction q with
  | nil => intro s inv; simp [ensureParent, inv]
  | cons n q ih =>
    intro s inv
    unfold ensureParent
    split
    · rename_i d hd
      refine ⟨inv, ?_, fun _ _ => Iff.rfl⟩
      intro hdd
      rcases find_stored inv hd with ⟨e0, hm, hk⟩
      exact Or.inr ⟨e0, hm, by rw [hk]; exact hdd⟩
    · rename_i hnone
      have IH := ih s inv
      rcases hr : ensureParent e q s with ⟨s1, b⟩
      rw [hr] at IH
      cases b with
      | false =>
        simp only
        refine ⟨IH.1, by simp, ?_⟩
        intro x hx
        exact IH.2.2 x (by simp at hx; omega)
      | true =>
        simp only
        have hty : ∀ e0, (n :: q, e0) ∈ s1.ents → e0.isDir = (mkdirEntry e).isDir := by
          intro e0 h0
          have := (IH.2.2 (n :: q, e0) (by simp)).mp h0
          exact absurd this (find_none inv hnone e0)
        have hpar : (n :: q).tail = [] ∨ ∃ d, ((n :: q).tail, d) ∈ s1.ents ∧ d.isDir = true := by
          simpa using IH.2.1 rfl
        refine ⟨inv_wInsert IH.1 (by simp [mkdirEntry]) (by simp) hpar hty, ?_, ?_⟩
        · intro _
          exact Or.inr ⟨mkdirEntry e, mem_wInsert.mpr (Or.inl rfl), rfl⟩
        · intro x hx
          rw [mem_wInsert]
          constructor
          · rintro (rfl | ⟨h, _⟩)
            · simp at hx
            · exact (IH.2.2 x (by simp at hx; omega)).mp h
          · intro h
            refine Or.inr ⟨(IH.2.2 x (by simp at hx; omega)).mpr h, ?_⟩
            intro hc
            rw [hc] at hx
            simp at hx

theorem inv_createEntry {s : St} {p : RPath} {e : Entry} {x : Bool} (inv : TreeInv s) (he : e.isDir = true → e.hl = 0) :
    TreeInv (createEntry s p e x).1 := by
  unfold createEntry
  split
  · exact inv
  · rename_i n par
    split
    · rename_i hnone
      have IH := inv_ensureParent e par s inv
      rcases hr : ensureParent e par s with ⟨s1, b⟩
      rw [hr] at IH
      cases b with
      | false => exact IH.1
      | true =>
        simp only
        refine inv_wInsert IH.1 he (by simp) (by simpa using IH.2.1 rfl) ?_
        intro e0 h0
        have := (IH.2.2 (n :: par, e0) (by simp)).mp h0
        exact absurd this (find_none inv hnone e0)
    · rename_i old hold
      split
      · exact inv
      · split
        · exact inv
        · rename_i hty
          rcases find_stored inv hold with ⟨e0, hm, hk⟩
          refine inv_wInsert inv he (by simp) ?_ ?_
          · exact (inv.parent _ hm).2
          · intro e1 h1
            rw [mem_unique inv.nodup h1 hm, hk]
            simpa using hty

theorem inv_updateEntry {s : St} {p : RPath} {e : Entry} (inv : TreeInv s) (he : e.isDir = true → e.hl = 0) :
    TreeInv (updateEntry s p e).1 := by
  unfold updateEntry
  split
  · exact inv
  · rename_i old hold
    split
    · exact inv
    · rename_i hty
      rcases find_stored inv hold with ⟨e0, hm, hk⟩
      refine inv_wInsert inv he (inv.parent _ hm).1 (inv.parent _ hm).2 ?_
      intro e1 h1
      rw [mem_unique inv.nodup h1 hm, hk]
      simpa using hty

/-! ### delete -/

theorem mem_insertByName {x y : String × Entry} {l : List (String × Entry)} : x ∈ insertByName y l ↔ x = y ∨ x ∈ l := by
  induction l with
  | nil => simp [insertByName]
  | cons z r ih =>
    simp only [insertByName]
    split
    · simp
    · simp only [List.mem_cons, ih]
      constructor
      · rintro (h | h | h)
        · exact Or.inr (Or.inl h)
        · exact Or.inl h
        · exact Or.inr (Or.inr h)
      · rintro (h | h | h)
        · exact Or.inr (Or.inl h)
        · exact Or.inl h
        · exact Or.inr (Or.inr h)

theorem mem_sortByName {x : String × Entry} {l : List (String × Entry)} : x ∈ sortByName l ↔ x ∈ l := by
  induction l with
  | nil => simp [sortByName]
  | cons y r ih =>
    have : sortByName (y :: r) = insertByName y (sortByName r) := rfl
    rw [this, mem_insertByName, ih]
    simp

theorem mem_children {s : St} {d : RPath} {n : String} {e : Entry} : (n, e) ∈ children s d ↔ (n :: d, e) ∈ s.ents := by
  unfold children
  rw [mem_sortByName, List.mem_filterMap]
  constructor
  · rintro ⟨⟨p, e'⟩, hm, hf⟩
    cases p with
    | nil => simp at hf
    | cons m par =>
      simp only at hf
      split at hf
      · rename_i hpar
        cases hf
        subst hpar
        exact hm
      · cases hf
  · intro h
    exact ⟨(n :: d, e), h, by simp⟩

theorem foldl_batch_none (rec : St → RPath → Option Batch) (d : RPath) (subs : List (String × Entry)) :
    subs.foldl (batchStep rec d) none = none := by
  induction subs with
  | nil => rfl
  | cons a t ih => simpa [List.foldl, batchStep] using ih

/-- what a (sub-)batch guarantees -/
def BatchOk (s : St) (d : RPath) (r : Batch) : Prop :=
  TreeInv r.1 ∧ r.1.ents.Sublist s.ents ∧ r.1.kv = s.kv ∧ ∀ x ∈ r.1.ents, x.1.tail ≠ d

theorem batch_loop (rec : St → RPath → Option Batch) (d : RPath)
    (hrec : ∀ s d r, TreeInv s → rec s d = some r → BatchOk s d r) :
    ∀ (subs : List (String × Entry)) (acc r : Batch), TreeInv acc.1 →
      subs.foldl (batchStep rec d) (some acc) = some r →
      TreeInv r.1 ∧ r.1.ents.Sublist acc.1.ents ∧ r.1.kv = acc.1.kv ∧
      (∀ sub ∈ subs, sub.2.isDir = true → ∀ x ∈ r.1.ents, x.1.tail ≠ sub.1 :: d) := by
  intro subs
  induction subs with
  | nil =>
    intro acc r inv h
    simp only [List.foldl] at h
    cases h
    exact ⟨inv, List.Sublist.refl _, rfl, by simp⟩
  | cons sub t ih =>
    intro acc r inv h
    rcases acc with ⟨sa, cs, hs⟩
    simp only [List.foldl] at h
    by_cases hd : sub.2.isDir = true
    · cases hr : rec sa (sub.1 :: d) with
      | none =>
        simp [batchStep, hd, hr, foldl_batch_none] at h
      | some r1 =>
        rcases r1 with ⟨s1, cs1, hs1⟩
        have ok := hrec sa (sub.1 :: d) _ inv hr
        simp only [batchStep, hd, hr, if_true] at h
        have IH := ih (s1, cs ++ cs1, hs ++ hs1) r ok.1 h
        refine ⟨IH.1, IH.2.1.trans ok.2.1, IH.2.2.1.trans ok.2.2.1, ?_⟩
        intro sub' hsub' hd' x hx
        rcases List.mem_cons.mp hsub' with rfl | hsub'
        · exact ok.2.2.2 x (IH.2.1.subset hx)
        · exact IH.2.2.2 sub' hsub' hd' x hx
    · have hstep : ∃ cs' hs', batchStep rec d (some (sa, cs, hs)) sub = some (sa, cs', hs') := by
        have hd' : sub.2.isDir = false := by simpa using hd
        simp only [batchStep, hd', Bool.false_eq_true, if_false]
        split
        · exact ⟨_, _, rfl⟩
        · exact ⟨_, _, rfl⟩
      rcases hstep with ⟨cs', hs', hstep⟩
      rw [hstep] at h
      have IH := ih (sa, cs', hs') r inv h
      refine ⟨IH.1, IH.2.1, IH.2.2.1, ?_⟩
      intro sub' hsub' hd' x hx
      rcases List.mem_cons.mp hsub' with rfl | hsub'
      · exact absurd hd' hd
      · exact IH.2.2.2 sub' hsub' hd' x hx

theorem batchOk_doBatch (f : Nat) : ∀ (s : St) (d : RPath) (r : Batch), TreeInv s → doBatch f s d = some r → BatchOk s d r := by
  induction f with
  | zero => intro s d r _ h; simp [doBatch] at h
  | succ f ih =>
    intro s d r inv h
    unfold doBatch at h
    split at h
    · cases h
    · rename_i s' cs hs hfold
      cases h
      have L := batch_loop (doBatch f) d ih (children s d) (s, [], []) (s', cs, hs) inv hfold
      simp only at L
      have hsub : (delChildren s'.ents d).Sublist s.ents := (delChildren_sublist d _).trans L.2.1
      refine ⟨⟨?_, ?_, ?_, ?_⟩, hsub, L.2.2.1, ?_⟩
      · exact inv.nodup.sublist (hsub.map _)
      · intro x hx
        rcases mem_delChildren.mp hx with ⟨hx', _⟩
        have P := L.1.parent x hx'
        refine ⟨P.1, ?_⟩
        rcases P.2 with h0 | ⟨dd, hdd, hdir⟩
        · exact Or.inl h0
        · refine Or.inr ⟨dd, mem_delChildren.mpr ⟨hdd, ?_⟩, hdir⟩
          by_cases ht : x.1.tail = []
          · exact Or.inl ht
          · refine Or.inr ?_
            intro htd
            -- the parent of x is a child c :: d of d, a directory: its batch left nothing below it
            cases hxt : x.1.tail with
            | nil => exact ht hxt
            | cons c rest =>
              rw [hxt] at htd hdd
              simp only [List.tail_cons] at htd
              subst htd
              have hin : (c, dd) ∈ children s rest := mem_children.mpr (L.2.1.subset hdd)
              exact L.2.2.2 (c, dd) hin hdir x hx' hxt
      · intro x hx
        exact L.1.dirNoLink x (mem_delChildren.mp hx).1
      · exact L.1.recFile
      · intro x hx
        rcases mem_delChildren.mp hx with ⟨hx', h1 | h1⟩
        · exact absurd h1 (L.1.parent x hx').1
        · exact h1

theorem inv_of_ents_eq {s s' : St} (inv : TreeInv s) (he : s'.ents = s.ents) (hk : ∀ x ∈ s'.kv, x.2.isDir = false) : TreeInv s' :=
  ⟨he ▸ inv.nodup, he ▸ inv.parent, he ▸ inv.dirNoLink, hk⟩

theorem inv_deleteOne {s : St} {p : RPath} {e : Entry} (inv : TreeInv s) (hk : ∀ x ∈ s.ents, x.1.tail ≠ p) :
    TreeInv (deleteOne s p e) := by
  have inv1 : TreeInv (if e.hl ≠ 0 then deleteHardLink s e.hl else s) := by
    split
    · exact inv_of_ents_eq inv (by simp) (recFile_deleteHardLink inv.recFile)
    · exact inv
  have he : (if e.hl ≠ 0 then deleteHardLink s e.hl else s).ents = s.ents := by split <;> simp
  unfold deleteOne
  simp only
  refine ⟨?_, ?_, ?_, inv1.recFile⟩
  · rw [he]; exact nodup_erase inv.nodup
  · rw [he]
    intro x hx
    rcases mem_erase.mp hx with ⟨hx', _⟩
    have P := inv.parent x hx'
    refine ⟨P.1, ?_⟩
    rcases P.2 with h0 | ⟨dd, hdd, hdir⟩
    · exact Or.inl h0
    · exact Or.inr ⟨dd, mem_erase.mpr ⟨hdd, hk x hx'⟩, hdir⟩
  · rw [he]
    intro x hx
    exact inv.dirNoLink x (mem_erase.mp hx).1

theorem inv_deleteEntry {s : St} {p : RPath} {recursive dc : Bool} (inv : TreeInv s) : TreeInv (deleteEntry s p recursive dc).1 := by
  unfold deleteEntry
  split
  · exact inv
  · rename_i n par
    split
    · exact inv
    · rename_i e he
      simp only
      rcases find_stored inv he with ⟨e0, hm, hk⟩
      split
      · exact inv
      · rename_i s1 dcs hs hr
        have key : TreeInv s1 ∧ ∀ x ∈ s1.ents, x.1.tail ≠ n :: par := by
          by_cases hd : e.isDir = true
          · simp only [hd, if_true] at hr
            split at hr
            · cases hr
            · have ok := batchOk_doBatch _ s (n :: par) _ inv hr
              exact ⟨ok.1, ok.2.2.2⟩
          · simp only [hd] at hr
            cases hr
            refine ⟨inv, ?_⟩
            intro x hx ht
            rcases (inv.parent x hx).2 with h0 | ⟨dd, hdd, hdir⟩
            · rw [ht] at h0; cases h0
            · rw [ht] at hdd
              have := mem_unique inv.nodup hdd hm
              rw [this, hk] at hdir
              exact hd hdir
        have inv2 := inv_deleteOne (e := e) key.1 key.2
        split
        · exact inv_of_ents_eq inv2 (by simp) (recFile_foldl_deleteHardLink _ inv2.recFile)
        · exact inv2

/-! ### rename, operations, runs -/

theorem inv_move_loop (rec : St → RPath → Entry → RPath → Mv) (old new : RPath)
    (ih : ∀ s o e n, TreeInv s → TreeInv (rec s o e n).1) :
    ∀ (items : List (String × Entry)) (acc : Mv), TreeInv acc.1 →
      TreeInv (items.foldl (moveStep rec old new) acc).1 := by
  intro items
  induction items with
  | nil => intro acc h; exact h
  | cons it t iht =>
    intro acc h
    simp only [List.foldl]
    apply iht
    rcases acc with ⟨sa, ra, qa⟩
    cases ra <;> first | exact h | (simp only [moveStep]; exact ih _ _ _ _ h)

theorem inv_moveEntry (f : Nat) : ∀ s old e new, TreeInv s → TreeInv (moveEntry f s old e new).1 := by
  induction f with
  | zero => intro s old e new inv; exact inv
  | succ f ih =>
    intro s old e new inv
    unfold moveEntry
    split
    · exact inv
    · have hc := inv_createEntry (s := s) (p := new) (e := { e with hl := 0, cnt := 0 }) (x := false) inv (by simp)
      split
      · rename_i s1 q1 hcr
        rw [hcr] at hc
        simp only at hc
        have hsub : TreeInv (if e.isDir = true then
            (children s1 old).foldl (moveStep (moveEntry f) old new) (s1, Res.ok, []) else (s1, Res.ok, [])).1 := by
          split
          · exact inv_move_loop _ old new ih _ (s1, Res.ok, []) hc
          · exact hc
        split
        · rename_i s2 q2 hs2
          rw [hs2] at hsub
          have hd := inv_deleteEntry (s := s2) (p := old) (recursive := false) (dc := false) hsub
          rcases hde : deleteEntry s2 old false false with ⟨s3, r3, d3⟩
          rw [hde] at hd
          cases r3 <;> exact hd
        · rename_i s2 r2 q2 _ hs2
          rw [hs2] at hsub
          exact hsub
      · rename_i s1 r1 q1 _ hcr
        rw [hcr] at hc
        exact hc

/-- the client contract: directories are never given a link identity -/
def OpOk : Op → Prop
  | .create _ e _ => e.isDir = true → e.hl = 0
  | .update _ e => e.isDir = true → e.hl = 0
  | _ => True

theorem inv_step {s : St} {op : Op} (inv : TreeInv s) (ok : OpOk op) : TreeInv (step s op).1 := by
  cases op with
  | create p e x =>
    simp only [step]
    exact inv_createEntry inv ok
  | update p e =>
    simp only [step]
    exact inv_updateEntry inv ok
  | write p tag chunks =>
    simp only [step]
    refine inv_createEntry inv ?_
    split <;> simp
  | link src dst hl =>
    simp only [step]
    have : TreeInv (linkOp s src dst hl).1 := by
      unfold linkOp
      split
      · exact inv
      · rename_i o ho
        split
        · exact inv
        · rename_i hc
          have hfile : o.isDir = false := by
            cases hd : o.isDir with
            | false => rfl
            | true => simp [hd] at hc
          have hl1 : (linked o hl).isDir = false := by unfold linked; split <;> simpa using hfile
          rcases find_stored inv ho with ⟨e0, hm, hk⟩
          have h1 : TreeInv (wInsert s src (linked o hl)) := by
            refine inv_wInsert inv (by simp [hl1]) (inv.parent _ hm).1 (inv.parent _ hm).2 ?_
            intro e1 h1
            rw [mem_unique inv.nodup h1 hm, hk, hl1, hfile]
          exact inv_createEntry h1 (by simp [hl1])
    rcases hlo : linkOp s src dst hl with ⟨s', r, q⟩
    rw [hlo] at this
    exact this
  | delete p r i dc =>
    simp only [step]
    exact inv_deleteEntry inv
  | unlink p =>
    simp only [step]
    split
    · exact inv
    · exact inv_deleteEntry inv
  | rename src dst =>
    simp only [step, renameEntry]
    split
    · exact inv
    · exact inv_moveEntry _ _ _ _ _ inv

theorem inv_empty : TreeInv {} := ⟨by simp, by simp, by simp, by simp⟩

theorem inv_run (ops : List Op) : ∀ s, TreeInv s → (∀ op ∈ ops, OpOk op) → TreeInv (run s ops) := by
  induction ops with
  | nil => intro s inv _; exact inv
  | cons op t ih =>
    intro s inv ok
    simp only [run, List.foldl]
    exact ih _ (inv_step inv (ok op (by simp))) (fun o ho => ok o (by simp [ho]))

/-! ### consequences of the invariant -/

theorem ancestors_of_inv {s : St} (inv : TreeInv s) : ∀ (p : RPath) (e : Entry), (p, e) ∈ s.ents →
    ∀ q : RPath, q ≠ [] → q <:+ p → q ≠ p → ∃ d, (q, d) ∈ s.ents ∧ d.isDir = true := by
  intro p
  induction p with
  | nil =>
    intro e _ q hq hs _
    exact absurd (List.suffix_nil.mp hs) hq
  | cons a t ih =>
    intro e he q hq hs hne
    rcases List.suffix_cons_iff.mp hs with h | h
    · exact absurd h hne
    · rcases (inv.parent _ he).2 with h0 | ⟨d, hd, hdir⟩
      · simp only [List.tail_cons] at h0
        subst h0
        exact absurd (List.suffix_nil.mp h) hq
      · simp only [List.tail_cons] at hd
        by_cases hqt : q = t
        · subst hqt; exact ⟨d, hd, hdir⟩
        · exact ih d hd q hq h hqt

theorem mem_ensureParent (e : Entry) (q : RPath) : ∀ (s : St), TreeInv s → ∀ x, x ∈ (ensureParent e q s).1.ents →
    x ∈ s.ents ∨ (x.2.isDir = true ∧ ∀ y, (x.1, y) ∉ s.ents) := by
  induction q with
  | nil => intro s _ x hx; exact Or.inl hx
  | cons n q ih =>
    intro s inv x hx
    unfold ensureParent at hx
    split at hx
    · exact Or.inl hx
    · rename_i hnone
      rcases hr : ensureParent e q s with ⟨s1, b⟩
      have IH := ih s inv
      rw [hr] at hx IH
      cases b with
      | false => exact IH x hx
      | true =>
        simp only at hx
        rcases mem_wInsert.mp hx with rfl | ⟨hx', _⟩
        · exact Or.inr ⟨rfl, find_none inv hnone⟩
        · exact IH x hx'

theorem createEntry_type_stable {s : St} {p : RPath} {e : Entry} {x : Bool} (inv : TreeInv s) {q : RPath} {a b : Entry}
    (ha : (q, a) ∈ s.ents) (hb : (q, b) ∈ (createEntry s p e x).1.ents) : a.isDir = b.isDir := by
  unfold createEntry at hb
  split at hb
  · rw [mem_unique inv.nodup ha hb]
  · rename_i n par
    split at hb
    · rename_i hnone
      have M := mem_ensureParent e par s inv
      rcases hr : ensureParent e par s with ⟨s1, bb⟩
      rw [hr] at hb M
      have old : ∀ y, y ∈ s1.ents → y.1 = q → y.2.isDir = a.isDir := by
        intro y hy hq
        rcases M y hy with h | h
        · rcases y with ⟨y1, y2⟩
          simp only at hq; subst hq
          rw [mem_unique inv.nodup h ha]
        · exact absurd (hq ▸ ha) (h.2 a)
      cases bb with
      | false => exact (old _ hb rfl).symm
      | true =>
        simp only at hb
        rcases mem_wInsert.mp hb with h | ⟨h, _⟩
        · cases h
          exact absurd ha (find_none inv hnone a)
        · exact (old _ h rfl).symm
    · rename_i oldE hold
      rcases find_stored inv hold with ⟨e0, hm, hk⟩
      split at hb
      · rw [mem_unique inv.nodup ha hb]
      · split at hb
        · rw [mem_unique inv.nodup ha hb]
        · rename_i hty
          rcases mem_wInsert.mp hb with h | ⟨h, _⟩
          · cases h
            rw [mem_unique inv.nodup ha hm, hk]
            simpa using hty
          · rw [mem_unique inv.nodup ha h]

theorem updateEntry_type_stable {s : St} {p : RPath} {e : Entry} (inv : TreeInv s) {q : RPath} {a b : Entry}
    (ha : (q, a) ∈ s.ents) (hb : (q, b) ∈ (updateEntry s p e).1.ents) : a.isDir = b.isDir := by
  unfold updateEntry at hb
  split at hb
  · rw [mem_unique inv.nodup ha hb]
  · rename_i oldE hold
    rcases find_stored inv hold with ⟨e0, hm, hk⟩
    split at hb
    · rw [mem_unique inv.nodup ha hb]
    · rename_i hty
      rcases mem_wInsert.mp hb with h | ⟨h, _⟩
      · cases h
        rw [mem_unique inv.nodup ha hm, hk]
        simpa using hty
      · rw [mem_unique inv.nodup ha h]

theorem deleteEntry_subset {s : St} {p : RPath} {recursive dc : Bool} (inv : TreeInv s) :
    ∀ x ∈ (deleteEntry s p recursive dc).1.ents, x ∈ s.ents := by
  unfold deleteEntry
  split
  · exact fun _ h => h
  · rename_i n par
    split
    · exact fun _ h => h
    · rename_i e he
      simp only
      split
      · exact fun _ h => h
      · rename_i s1 dcs hs hr
        have key : ∀ x ∈ s1.ents, x ∈ s.ents := by
          by_cases hd : e.isDir = true
          · simp only [hd, if_true] at hr
            split at hr
            · cases hr
            · exact (batchOk_doBatch _ s (n :: par) _ inv hr).2.1.subset
          · simp only [hd] at hr
            cases hr
            exact fun _ h => h
        have h2 : ∀ x ∈ (deleteOne s1 (n :: par) e).ents, x ∈ s.ents := by
          intro x hx
          unfold deleteOne at hx
          simp only at hx
          have := (mem_erase.mp hx).1
          apply key
          split at this <;> simpa using this
        split
        · intro x hx
          rw [foldl_deleteHardLink_ents] at hx
          exact h2 x hx
        · exact h2

/-! ### recursive delete removes exactly the subtree -/

/-- p is a proper descendant of d -/
def PD (d p : RPath) : Prop := d <:+ p ∧ p ≠ d

theorem pd_child_on_path {d : RPath} : ∀ t : RPath, PD d t → ∃ n, (n :: d) <:+ t := by
  intro t
  induction t with
  | nil =>
    intro h
    exact absurd (List.suffix_nil.mp h.1).symm h.2
  | cons b t' ih =>
    intro h
    rcases List.suffix_cons_iff.mp h.1 with h1 | h1
    · exact absurd h1.symm h.2
    · by_cases hd : t' = d
      · subst hd; exact ⟨b, List.suffix_refl _⟩
      · rcases ih ⟨h1, hd⟩ with ⟨n, hn⟩
        exact ⟨n, hn.trans (List.suffix_cons b t')⟩

theorem batch_loop_exact (rec : St → RPath → Option Batch) (d : RPath) (s0 : St)
    (hrec : ∀ sa n, TreeInv sa → (∀ x ∈ sa.ents, x ∈ s0.ents) →
      ∃ r, rec sa (n :: d) = some r ∧ TreeInv r.1 ∧ ∀ x, x ∈ r.1.ents ↔ x ∈ sa.ents ∧ ¬ PD (n :: d) x.1) :
    ∀ (subs : List (String × Entry)) (acc : Batch), TreeInv acc.1 → (∀ x ∈ acc.1.ents, x ∈ s0.ents) →
      ∃ r, subs.foldl (batchStep rec d) (some acc) = some r ∧ TreeInv r.1 ∧
        ∀ x, x ∈ r.1.ents ↔ x ∈ acc.1.ents ∧ ∀ sub ∈ subs, sub.2.isDir = true → ¬ PD (sub.1 :: d) x.1 := by
  intro subs
  induction subs with
  | nil =>
    intro acc inv _
    exact ⟨acc, rfl, inv, by simp⟩
  | cons sub t ih =>
    intro acc inv hsub
    rcases acc with ⟨sa, cs, hs⟩
    simp only [List.foldl]
    by_cases hd : sub.2.isDir = true
    · rcases hrec sa sub.1 inv hsub with ⟨r1, hr1, inv1, hx1⟩
      rcases r1 with ⟨s1, cs1, hs1⟩
      have hstep : batchStep rec d (some (sa, cs, hs)) sub = some (s1, cs ++ cs1, hs ++ hs1) := by
        simp [batchStep, hd, hr1]
      rw [hstep]
      rcases ih (s1, cs ++ cs1, hs ++ hs1) inv1 (fun x hx => hsub x ((hx1 x).mp hx).1) with ⟨r, hr, invr, hxr⟩
      refine ⟨r, hr, invr, ?_⟩
      intro x
      rw [hxr x]
      simp only at hx1 ⊢
      rw [hx1 x]
      constructor
      · rintro ⟨⟨h1, h2⟩, h3⟩
        refine ⟨h1, ?_⟩
        intro sub' hs' hd'
        rcases List.mem_cons.mp hs' with rfl | hs'
        · exact h2
        · exact h3 sub' hs' hd'
      · rintro ⟨h1, h2⟩
        exact ⟨⟨h1, h2 sub (by simp) hd⟩, fun sub' hs' hd' => h2 sub' (List.mem_cons_of_mem _ hs') hd'⟩
    · have hd' : sub.2.isDir = false := by simpa using hd
      have hstep : ∃ cs' hs', batchStep rec d (some (sa, cs, hs)) sub = some (sa, cs', hs') := by
        simp only [batchStep, hd', Bool.false_eq_true, if_false]
        split
        · exact ⟨_, _, rfl⟩
        · exact ⟨_, _, rfl⟩
      rcases hstep with ⟨cs', hs', hstep⟩
      rw [hstep]
      rcases ih (sa, cs', hs') inv hsub with ⟨r, hr, invr, hxr⟩
      refine ⟨r, hr, invr, ?_⟩
      intro x
      rw [hxr x]
      constructor
      · rintro ⟨h1, h3⟩
        refine ⟨h1, ?_⟩
        intro sub' hs'' hd''
        rcases List.mem_cons.mp hs'' with rfl | hs''
        · exact absurd hd'' hd
        · exact h3 sub' hs'' hd''
      · rintro ⟨h1, h2⟩
        exact ⟨h1, fun sub' hs'' hd'' => h2 sub' (List.mem_cons_of_mem _ hs'') hd''⟩

theorem doBatch_exact (f : Nat) : ∀ (s : St) (d : RPath), TreeInv s →
    (∀ x ∈ s.ents, d <:+ x.1 → x.1.length ≤ d.length + f) →
    ∃ r, doBatch (f + 1) s d = some r ∧ TreeInv r.1 ∧ ∀ x, x ∈ r.1.ents ↔ x ∈ s.ents ∧ ¬ PD d x.1 := by
  induction f with
  | zero =>
    intro s d inv hb
    have hkids : children s d = [] := by
      rw [List.eq_nil_iff_forall_not_mem]
      rintro ⟨n, e⟩ hne
      have := hb _ (mem_children.mp hne) (List.suffix_cons n d)
      simp only [List.length_cons] at this
      omega
    have heq : doBatch 1 s d = some ({ s with ents := delChildren s.ents d }, [], []) := by
      simp [doBatch, hkids]
    refine ⟨_, heq, (batchOk_doBatch 1 s d _ inv heq).1, ?_⟩
    intro x
    simp only [mem_delChildren]
    constructor
    · rintro ⟨hx, _⟩
      refine ⟨hx, ?_⟩
      rintro ⟨h1, h2⟩
      have hl := hb x hx h1
      exact h2 (h1.eq_of_length (by have := h1.length_le; omega)).symm
    · rintro ⟨hx, hn⟩
      refine ⟨hx, Or.inr ?_⟩
      intro ht
      have hne := (inv.parent x hx).1
      apply hn
      cases hx1 : x.1 with
      | nil => exact absurd hx1 hne
      | cons a t =>
        rw [hx1] at ht
        simp only [List.tail_cons] at ht
        subst ht
        exact ⟨List.suffix_cons a t, by simp⟩
  | succ f ih =>
    intro s d inv hb
    have hrec : ∀ sa n, TreeInv sa → (∀ x ∈ sa.ents, x ∈ s.ents) →
        ∃ r, doBatch (f + 1) sa (n :: d) = some r ∧ TreeInv r.1 ∧ ∀ x, x ∈ r.1.ents ↔ x ∈ sa.ents ∧ ¬ PD (n :: d) x.1 := by
      intro sa n inva hsub
      apply ih sa (n :: d) inva
      intro x hx hs
      have := hb x (hsub x hx) ((List.suffix_cons n d).trans hs)
      simp only [List.length_cons]
      omega
    rcases batch_loop_exact (doBatch (f + 1)) d s hrec (children s d) (s, [], []) inv (fun _ h => h) with ⟨r0, hr0, inv0, hx0⟩
    rcases r0 with ⟨s', cs, hs⟩
    have heq : doBatch (f + 1 + 1) s d = some ({ s' with ents := delChildren s'.ents d }, cs, hs) := by
      unfold doBatch
      rw [hr0]
    refine ⟨_, heq, (batchOk_doBatch _ s d _ inv heq).1, ?_⟩
    intro x
    simp only [mem_delChildren] at hx0 ⊢
    rw [hx0 x]
    constructor
    · rintro ⟨⟨hx, hkid⟩, htail⟩
      refine ⟨hx, ?_⟩
      rintro ⟨h1, h2⟩
      have hne := (inv.parent x hx).1
      cases hx1 : x.1 with
      | nil => exact hne hx1
      | cons a t =>
        rw [hx1] at h1 h2 htail
        simp only [List.tail_cons] at htail
        have htd : t ≠ d := by
          rcases htail with h | h
          · cases h
          · exact h
        rcases List.suffix_cons_iff.mp h1 with h3 | h3
        · exact h2 h3.symm
        · -- t, the parent of x, lies properly below d: some child c of d is t or an ancestor of t
          rcases pd_child_on_path t ⟨h3, htd⟩ with ⟨n, hn⟩
          have hpar := (inv.parent x hx).2
          rw [hx1] at hpar
          simp only [List.tail_cons] at hpar
          rcases hpar with h0 | ⟨dd, hdd, hdir⟩
          · subst h0
            have := List.suffix_nil.mp hn
            cases this
          · have hc : ∃ dc, (n :: d, dc) ∈ s.ents ∧ dc.isDir = true := by
              by_cases hct : n :: d = t
              · exact ⟨dd, hct ▸ hdd, hdir⟩
              · exact ancestors_of_inv inv t dd hdd (n :: d) (by simp) hn hct
            rcases hc with ⟨dc, hdc, hdcdir⟩
            refine hkid (n, dc) (mem_children.mpr hdc) hdcdir ⟨?_, ?_⟩
            · rw [hx1]; exact hn.trans (List.suffix_cons a t)
            · rw [hx1]
              intro hh
              have := hn.length_le
              rw [← hh] at this
              simp only [List.length_cons] at this
              omega
    · rintro ⟨hx, hn⟩
      refine ⟨⟨hx, ?_⟩, Or.inr ?_⟩
      · intro sub _ _ hpd
        apply hn
        refine ⟨(List.suffix_cons sub.1 d).trans hpd.1, ?_⟩
        intro hh
        have := hpd.1.length_le
        rw [hh] at this
        simp only [List.length_cons] at this
        omega
      · intro ht
        have hne := (inv.parent x hx).1
        apply hn
        cases hx1 : x.1 with
        | nil => exact absurd hx1 hne
        | cons a t =>
          rw [hx1] at ht
          simp only [List.tail_cons] at ht
          subst ht
          exact ⟨List.suffix_cons a t, by simp⟩

theorem length_le_maxLen (l : List (RPath × Entry)) : ∀ x ∈ l, x.1.length ≤ maxLen l := by
  have gen : ∀ (l : List (RPath × Entry)) (m : Nat), m ≤ l.foldl (fun m x => max m x.1.length) m ∧
      ∀ x ∈ l, x.1.length ≤ l.foldl (fun m x => max m x.1.length) m := by
    intro l
    induction l with
    | nil => intro m; simp
    | cons y t ih =>
      intro m
      simp only [List.foldl]
      have I := ih (max m y.1.length)
      refine ⟨by omega, ?_⟩
      intro x hx
      rcases List.mem_cons.mp hx with rfl | hx
      · omega
      · exact I.2 x hx
  exact (gen l 0).2

/-! ### frame: what an operation cannot touch -/

theorem ensureParent_frame_suffix (e : Entry) (q : RPath) : ∀ s (x : RPath × Entry), ¬ x.1 <:+ q →
    (x ∈ (ensureParent e q s).1.ents ↔ x ∈ s.ents) := by
  induction q with
  | nil => intro s x _; rfl
  | cons n q ih =>
    intro s x hx
    have hxq : ¬ x.1 <:+ q := fun h => hx (h.trans (List.suffix_cons n q))
    unfold ensureParent
    split
    · rfl
    · rcases hr : ensureParent e q s with ⟨s1, b⟩
      have IH := ih s x hxq
      rw [hr] at IH
      cases b with
      | false => exact IH
      | true =>
        simp only
        rw [mem_wInsert]
        constructor
        · rintro (h | ⟨h, _⟩)
          · exact absurd (by rw [h]; exact List.suffix_refl _) hx
          · exact IH.mp h
        · intro h
          exact Or.inr ⟨IH.mpr h, fun hh => hx (hh ▸ List.suffix_refl _)⟩

/-- CreateEntry of path p touches only p and its ancestors -/
theorem createEntry_frame {s : St} {p : RPath} {e : Entry} {b : Bool} (x : RPath × Entry) (hx : ¬ x.1 <:+ p) :
    x ∈ (createEntry s p e b).1.ents ↔ x ∈ s.ents := by
  unfold createEntry
  split
  · rfl
  · rename_i n par
    have hxp : ¬ x.1 <:+ par := fun h => hx (h.trans (List.suffix_cons n par))
    have hne : x.1 ≠ n :: par := fun hh => hx (hh ▸ List.suffix_refl _)
    split
    · have F := ensureParent_frame_suffix e par s x hxp
      rcases hr : ensureParent e par s with ⟨s1, bb⟩
      rw [hr] at F
      cases bb with
      | false => exact F
      | true =>
        simp only
        rw [mem_wInsert]
        constructor
        · rintro (h | ⟨h, _⟩)
          · exact absurd (congrArg Prod.fst h) hne
          · exact F.mp h
        · intro h; exact Or.inr ⟨F.mpr h, hne⟩
    · split
      · rfl
      · split
        · rfl
        · rw [mem_wInsert]
          constructor
          · rintro (h | ⟨h, _⟩)
            · exact absurd (congrArg Prod.fst h) hne
            · exact h
          · intro h; exact Or.inr ⟨h, hne⟩

theorem batch_loop_frame (rec : St → RPath → Option Batch) (d : RPath)
    (hrec : ∀ sa n r, rec sa (n :: d) = some r → ∀ x : RPath × Entry, ¬ (n :: d) <:+ x.1 → (x ∈ r.1.ents ↔ x ∈ sa.ents)) :
    ∀ (subs : List (String × Entry)) (acc r : Batch), subs.foldl (batchStep rec d) (some acc) = some r →
      ∀ x : RPath × Entry, ¬ d <:+ x.1 → (x ∈ r.1.ents ↔ x ∈ acc.1.ents) := by
  intro subs
  induction subs with
  | nil =>
    intro acc r h x _
    simp only [List.foldl] at h
    cases h; rfl
  | cons sub t ih =>
    intro acc r h x hx
    rcases acc with ⟨sa, cs, hl⟩
    simp only [List.foldl] at h
    by_cases hd : sub.2.isDir = true
    · cases hr : rec sa (sub.1 :: d) with
      | none => simp [batchStep, hd, hr, foldl_batch_none] at h
      | some r1 =>
        rcases r1 with ⟨s1, cs1, hl1⟩
        simp only [batchStep, hd, hr, if_true] at h
        have h1 := hrec sa sub.1 _ hr x (fun hh => hx ((List.suffix_cons sub.1 d).trans hh))
        exact (ih (s1, cs ++ cs1, hl ++ hl1) r h x hx).trans h1
    · have hd' : sub.2.isDir = false := by simpa using hd
      have hstep : ∃ cs' hs', batchStep rec d (some (sa, cs, hl)) sub = some (sa, cs', hs') := by
        simp only [batchStep, hd', Bool.false_eq_true, if_false]
        split
        · exact ⟨_, _, rfl⟩
        · exact ⟨_, _, rfl⟩
      rcases hstep with ⟨cs', hs', hstep⟩
      rw [hstep] at h
      exact ih (sa, cs', hs') r h x hx

theorem doBatch_frame (f : Nat) : ∀ (s : St) (d : RPath) (r : Batch), doBatch f s d = some r →
    ∀ x : RPath × Entry, ¬ d <:+ x.1 → (x ∈ r.1.ents ↔ x ∈ s.ents) := by
  induction f with
  | zero => intro s d r h; simp [doBatch] at h
  | succ f ih =>
    intro s d r h x hx
    unfold doBatch at h
    split at h
    · cases h
    · rename_i s' cs hs hfold
      cases h
      have L := batch_loop_frame (doBatch f) d (fun sa n r => ih sa (n :: d) r) (children s d) (s, [], []) (s', cs, hs) hfold x hx
      simp only at L ⊢
      rw [mem_delChildren, L]
      constructor
      · exact fun h => h.1
      · intro h
        refine ⟨h, ?_⟩
        by_cases hn : x.1 = []
        · exact Or.inl hn
        · refine Or.inr fun ht => hx ?_
          cases hx1 : x.1 with
          | nil => exact absurd hx1 hn
          | cons a t =>
            rw [hx1] at ht
            simp only [List.tail_cons] at ht
            subst ht
            exact List.suffix_cons a t

/-- DeleteEntryMetaAndData of path p touches only the subtree of p -/
theorem deleteEntry_frame {s : St} {p : RPath} {r dc : Bool} (x : RPath × Entry) (hx : ¬ p <:+ x.1) :
    x ∈ (deleteEntry s p r dc).1.ents ↔ x ∈ s.ents := by
  unfold deleteEntry
  split
  · rfl
  · rename_i n par
    have hne : x.1 ≠ n :: par := fun hh => hx (hh ▸ List.suffix_refl _)
    split
    · rfl
    · rename_i e he
      simp only
      split
      · rfl
      · rename_i s1 dcs hs hr
        have key : x ∈ s1.ents ↔ x ∈ s.ents := by
          by_cases hd : e.isDir = true
          · simp only [hd, if_true] at hr
            split at hr
            · cases hr
            · exact doBatch_frame _ s (n :: par) _ hr x hx
          · simp only [hd] at hr
            cases hr
            rfl
        have e1 : ∀ st : St, (deleteOne st (n :: par) e).ents = erase (n :: par) st.ents := by
          intro st; unfold deleteOne; split <;> simp
        split
        · rw [foldl_deleteHardLink_ents, e1, mem_erase, key]
          exact ⟨fun h => h.1, fun h => ⟨h, hne⟩⟩
        · rw [e1, mem_erase, key]
          exact ⟨fun h => h.1, fun h => ⟨h, hne⟩⟩

/-- outside the source subtree, the target subtree and the target's ancestors -/
def Outside (old new : RPath) (x : RPath × Entry) : Prop := ¬ old <:+ x.1 ∧ ¬ new <:+ x.1 ∧ ¬ x.1 <:+ new

theorem outside_child {old new : RPath} {n : String} {x : RPath × Entry} (h : Outside old new x) :
    Outside (n :: old) (n :: new) x := by
  refine ⟨fun hh => h.1 ((List.suffix_cons n old).trans hh), fun hh => h.2.1 ((List.suffix_cons n new).trans hh), ?_⟩
  intro hh
  rcases List.suffix_cons_iff.mp hh with h1 | h1
  · exact h.2.1 (by rw [h1]; exact List.suffix_cons n new)
  · exact h.2.2 h1

theorem move_loop_frame (rec : St → RPath → Entry → RPath → Mv) (old new : RPath) (x : RPath × Entry)
    (hrec : ∀ sa n e, x ∈ (rec sa (n :: old) e (n :: new)).1.ents ↔ x ∈ sa.ents) :
    ∀ (items : List (String × Entry)) (acc : Mv), x ∈ (items.foldl (moveStep rec old new) acc).1.ents ↔ x ∈ acc.1.ents := by
  intro items
  induction items with
  | nil => intro acc; rfl
  | cons it t ih =>
    intro acc
    simp only [List.foldl]
    rw [ih]
    rcases acc with ⟨sa, ra, qa⟩
    cases ra <;> first | rfl | (simp only [moveStep]; exact hrec sa it.1 it.2)

/-- a rename — finished, failed half-way or cut off — changes nothing outside the source subtree, the target subtree
    and the target's ancestors -/
theorem moveEntry_frame (f : Nat) : ∀ (s : St) (old : RPath) (e : Entry) (new : RPath) (x : RPath × Entry),
    Outside old new x → (x ∈ (moveEntry f s old e new).1.ents ↔ x ∈ s.ents) := by
  induction f with
  | zero => intro s old e new x _; rfl
  | succ f ih =>
    intro s old e new x hx
    unfold moveEntry
    split
    · rfl
    · have hc := createEntry_frame (s := s) (p := new) (e := { e with hl := 0, cnt := 0 }) (b := false) x hx.2.2
      split
      · rename_i s1 q1 hcr
        rw [hcr] at hc
        simp only at hc
        have hsub : x ∈ (if e.isDir = true then
            (children s1 old).foldl (moveStep (moveEntry f) old new) (s1, Res.ok, []) else (s1, Res.ok, [])).1.ents ↔ x ∈ s1.ents := by
          split
          · exact move_loop_frame _ old new x (fun sa n e' => ih sa (n :: old) e' (n :: new) x (outside_child hx)) _ _
          · rfl
        split
        · rename_i s2 q2 hs2
          rw [hs2] at hsub
          have hd := deleteEntry_frame (s := s2) (p := old) (r := false) (dc := false) x hx.1
          rcases hde : deleteEntry s2 old false false with ⟨s3, r3, d3⟩
          rw [hde] at hd
          have : x ∈ s3.ents ↔ x ∈ s.ents := hd.trans (hsub.trans hc)
          cases r3 <;> exact this
        · rename_i s2 r2 q2 _ hs2
          rw [hs2] at hsub
          exact hsub.trans hc
      · rename_i s1 r1 q1 _ hcr
        rw [hcr] at hc
        exact hc

end SwV.Lemmas.C18
