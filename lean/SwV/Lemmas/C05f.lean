/-
C05 — sufficient conditions for admissibility that do not replay the model: 4-byte offsets
(`OffsetHigher` = 0 in every Set) and all keys inside one window of 2^32.
-/
import SwV.Model.C05
import SwV.Spec.C05
import SwV.Lemmas.C05e
namespace SwV.Lemmas.C05
open SwV.Model.C05 SwV.Spec.C05

theorem sel_mem {α : Type} (f : Sec → Option α) (k : Nat) (cm : List Sec) (a : α) (h : sel f k cm = some a) :
    ∃ s, s ∈ cm ∧ s.start ≤ k ∧ f s = some a := by
  induction cm with
  | nil => simp [sel] at h
  | cons s rest ih =>
    by_cases hlt : k < s.start
    · rw [sel_cons_lt _ _ _ _ hlt] at h; cases h
    · cases rest with
      | nil => rw [sel_single _ _ _ hlt] at h; exact ⟨s, by simp, by omega, h⟩
      | cons t rest' =>
        rw [sel_cons_cons _ _ _ _ _ hlt] at h
        by_cases ht : t.start ≤ k
        · rw [if_pos ht] at h
          obtain ⟨s', hs', h2⟩ := ih h
          exact ⟨s', List.mem_cons_of_mem _ hs', h2⟩
        · rw [if_neg ht] at h; exact ⟨s, by simp, by omega, h⟩

/-- every section of the list after `setL` is an old one, an old one after `Set`, or a first one -/
theorem setL_forall (P : Sec → Prop) (batch key off hi : Nat) (size : Int) (cm : List Sec)
    (h : ∀ s, s ∈ cm → P s)
    (hset : ∀ s, P s → P (Sec.set batch s key off hi size).1)
    (hfirst : P (Sec.first batch key off hi size)) :
    ∀ s, s ∈ (setL batch key off hi size cm).1 → P s := by
  induction cm with
  | nil => rw [setL_nil]; intro s hs; simp at hs; rw [hs]; exact hfirst
  | cons s0 rest ih =>
    by_cases hlt : key < s0.start
    · rw [setL_cons_lt _ _ _ _ _ _ _ hlt]
      intro s hs
      simp only [List.mem_cons] at hs
      rcases hs with hs | hs
      · rw [hs]; exact hfirst
      · exact h s (by simpa using hs)
    · cases rest with
      | nil =>
        rw [setL_single _ _ _ _ _ _ hlt]
        split
        · intro s hs; simp at hs; rw [hs]; exact hset s0 (h s0 (by simp))
        · intro s hs; simp at hs
          rcases hs with hs | hs
          · rw [hs]; exact h s0 (by simp)
          · rw [hs]; exact hfirst
      | cons t rest' =>
        rw [setL_cons_cons _ _ _ _ _ _ _ _ hlt]
        split
        · intro s hs
          simp only [List.mem_cons] at hs
          rcases hs with hs | hs
          · rw [hs]; exact h s0 (by simp)
          · exact ih (fun s' hs' => h s' (List.mem_cons_of_mem _ hs')) s (by simpa using hs)
        · split
          · intro s hs
            simp only [List.mem_cons] at hs
            rcases hs with hs | hs
            · rw [hs]; exact hset s0 (h s0 (by simp))
            · exact h s (by simp only [List.mem_cons]; right; exact hs)
          · intro s hs
            simp only [List.mem_cons] at hs
            rcases hs with hs | hs | hs
            · rw [hs]; exact h s0 (by simp)
            · rw [hs]; exact hfirst
            · exact h s (by simp only [List.mem_cons]; right; exact hs)

theorem delL_forall (P : Sec → Prop) (batch key : Nat) (cm : List Sec)
    (h : ∀ s, s ∈ cm → P s) (hdel : ∀ s, P s → P (Sec.delete s key).1) :
    ∀ s, s ∈ (delL batch key cm).1 → P s := by
  induction cm with
  | nil => intro s hs; simp [delL] at hs
  | cons s0 rest ih =>
    by_cases hlt : key < s0.start
    · rw [delL_cons_lt _ _ _ _ hlt]; exact h
    · cases rest with
      | nil =>
        rw [delL_single _ _ _ hlt]
        split
        · intro s hs; simp at hs; rw [hs]; exact hdel s0 (h s0 (by simp))
        · exact h
      | cons t rest' =>
        rw [delL_cons_cons _ _ _ _ _ hlt]
        split
        · intro s hs
          simp only [List.mem_cons] at hs
          rcases hs with hs | hs
          · rw [hs]; exact h s0 (by simp)
          · exact ih (fun s' hs' => h s' (List.mem_cons_of_mem _ hs')) s (by simpa using hs)
        · intro s hs
          simp only [List.mem_cons] at hs
          rcases hs with hs | hs
          · rw [hs]; exact hdel s0 (h s0 (by simp))
          · exact h s (by simp only [List.mem_cons]; right; exact hs)

/-- shape of the section after `Set`: same start; overflow untouched or `setOverflowEntry` -/
theorem secSet_shape (batch : Nat) (s0 : Sec) (key off hi : Nat) (size : Int) :
    (Sec.set batch s0 key off hi size).1.start = s0.start ∧
    ((Sec.set batch s0 key off hi size).1.ovf = s0.ovf ∨
     (Sec.set batch s0 key off hi size).1.ovf = setAsc ⟨skeyOf s0 key, off, hi, size⟩ s0.ovf) := by
  unfold Sec.set
  by_cases hst : key > s0.stop
  · simp only [hst, if_true]
    have hsk : skeyOf { s0 with stop := key } key = skeyOf s0 key := rfl
    rw [hsk]
    split
    · exact ⟨rfl, Or.inl rfl⟩
    · split
      · split
        · exact ⟨rfl, Or.inl rfl⟩
        · exact ⟨rfl, Or.inr rfl⟩
      · exact ⟨rfl, Or.inl rfl⟩
  · simp only [hst, if_false]
    split
    · exact ⟨rfl, Or.inl rfl⟩
    · split
      · split
        · exact ⟨rfl, Or.inl rfl⟩
        · exact ⟨rfl, Or.inr rfl⟩
      · exact ⟨rfl, Or.inl rfl⟩

theorem forall_setAsc (P : Ent → Prop) (n : Ent) (l : List Ent) (hn : P n)
    (hupd : ∀ e, P e → P { e with off := n.off, size := n.size }) (h : ∀ e, e ∈ l → P e) :
    ∀ e, e ∈ setAsc n l → P e := by
  induction l with
  | nil => intro e he; simp [setAsc] at he; rw [he]; exact hn
  | cons a rest ih =>
    unfold setAsc
    split
    · intro e he
      simp only [List.mem_cons] at he
      rcases he with he | he
      · rw [he]; exact hupd a (h a (by simp))
      · exact h e (by simp only [List.mem_cons]; right; exact he)
    · split
      · intro e he
        simp only [List.mem_cons] at he
        rcases he with he | he | he
        · rw [he]; exact hn
        · rw [he]; exact h a (by simp)
        · exact h e (by simp only [List.mem_cons]; right; exact he)
      · intro e he
        simp only [List.mem_cons] at he
        rcases he with he | he
        · rw [he]; exact h a (by simp)
        · exact ih (fun e' he' => h e' (List.mem_cons_of_mem _ he')) e he

theorem forall_delAsc (P : Ent → Prop) (k : Nat) (l : List Ent)
    (hupd : ∀ e, P e → P { e with size := -e.size }) (h : ∀ e, e ∈ l → P e) :
    ∀ e, e ∈ delAsc k l → P e := by
  induction l with
  | nil => intro e he; simp [delAsc] at he
  | cons a rest ih =>
    unfold delAsc
    split
    · intro e he
      simp only [List.mem_cons] at he
      rcases he with he | he
      · rw [he]; split
        · exact hupd a (h a (by simp))
        · exact h a (by simp)
      · exact h e (by simp only [List.mem_cons]; right; exact he)
    · split
      · exact h
      · intro e he
        simp only [List.mem_cons] at he
        rcases he with he | he
        · rw [he]; exact h a (by simp)
        · exact ih (fun e' he' => h e' (List.mem_cons_of_mem _ he')) e he

/-- section-wise invariant of a 4-byte, one-window run -/
def Plain (lo : Nat) (s : Sec) : Prop := lo ≤ s.start ∧ ∀ e, e ∈ s.ovf → e.hi = 0

theorem plain_set (lo batch : Nat) (s : Sec) (key off : Nat) (size : Int) (h : Plain lo s) :
    Plain lo (Sec.set batch s key off 0 size).1 := by
  obtain ⟨h1, h2⟩ := secSet_shape batch s key off 0 size
  refine ⟨by rw [h1]; exact h.1, ?_⟩
  rcases h2 with h2 | h2
  · rw [h2]; exact h.2
  · rw [h2]; exact forall_setAsc (fun e => e.hi = 0) _ _ rfl (fun e he => he) h.2

theorem plain_first (lo batch : Nat) (key off : Nat) (size : Int) (h : lo ≤ key) :
    Plain lo (Sec.first batch key off 0 size) := by
  have : Plain lo (Sec.fresh key) := ⟨h, by intro e he; simp [Sec.fresh] at he⟩
  exact plain_set lo batch _ key off size this

theorem plain_delete (lo : Nat) (s : Sec) (key : Nat) (h : Plain lo s) : Plain lo (Sec.delete s key).1 := by
  have hst := (secDelete_frame s key).1
  refine ⟨by rw [hst]; exact h.1, ?_⟩
  have hov : (Sec.delete s key).1.ovf = s.ovf ∨ (Sec.delete s key).1.ovf = delAsc (skeyOf s key) s.ovf := by
    unfold Sec.delete
    simp only
    split <;> simp
  rcases hov with hov | hov
  · rw [hov]; exact h.2
  · rw [hov]; exact forall_delAsc (fun e => e.hi = 0) _ _ (fun e he => he) h.2

theorem noAlias_of_plain (lo : Nat) (cm : List Sec) (h : ∀ s, s ∈ cm → Plain lo s) (key : Nat)
    (hk : key < lo + 4294967296) : noAlias key cm = true := by
  unfold noAlias
  cases hs : sel (fun s => some (decide (key - s.start ≤ limit))) key cm with
  | none => rfl
  | some b =>
    obtain ⟨s, hs1, _, hs3⟩ := sel_mem _ _ _ _ hs
    have := (h s hs1).1
    have hle : key - s.start ≤ limit := by unfold limit; omega
    simp only [hle, decide_true, Option.some.injEq] at hs3
    rw [← hs3]; rfl

theorem setOk_of_plain (lo : Nat) (cm : List Sec) (h : ∀ s, s ∈ cm → Plain lo s) (key off : Nat) (size : Int) :
    opOk cm (.set key off 0 size) = true := by
  show (match ovfAt key cm with | some e => decide (e.hi = 0) | none => true) = true
  cases ho : ovfAt key cm with
  | none => rfl
  | some e =>
    obtain ⟨s, hs1, _, hs3⟩ := sel_mem _ _ _ _ ho
    unfold dovf at hs3
    split at hs3
    · have hm : e ∈ s.ovf := by unfold getK at hs3; exact List.mem_of_find?_eq_some hs3
      simp [(h s hs1).2 e hm]
    · cases hs3

/-- 4-byte offsets and all keys in `[lo, lo + 2^32)`: a condition on the op list alone -/
def plainOp (lo : Nat) : Op → Bool
  | .set key _ hi _ => decide (hi = 0) && decide (lo ≤ key) && decide (key < lo + 4294967296)
  | .del key => decide (lo ≤ key) && decide (key < lo + 4294967296)
  | .get key => decide (lo ≤ key) && decide (key < lo + 4294967296)

theorem plain_step (lo batch : Nat) (cm : List Sec) (h : ∀ s, s ∈ cm → Plain lo s) (op : Op)
    (hop : plainOp lo op = true) :
    opOk cm op = true ∧ ∀ s, s ∈ applyL batch cm op → Plain lo s := by
  cases op with
  | set key off hi size =>
    simp only [plainOp, Bool.and_eq_true, decide_eq_true_eq] at hop
    obtain ⟨⟨hhi, hlo⟩, _⟩ := hop
    subst hhi
    exact ⟨setOk_of_plain lo cm h key off size,
      setL_forall (Plain lo) batch key off 0 size cm h (fun s hs => plain_set lo batch s key off size hs)
        (plain_first lo batch key off size hlo)⟩
  | del key =>
    simp only [plainOp, Bool.and_eq_true, decide_eq_true_eq] at hop
    exact ⟨noAlias_of_plain lo cm h key hop.2,
      delL_forall (Plain lo) batch key cm h (fun s hs => plain_delete lo s key hs)⟩
  | get key =>
    simp only [plainOp, Bool.and_eq_true, decide_eq_true_eq] at hop
    exact ⟨noAlias_of_plain lo cm h key hop.2, h⟩

theorem admFrom_of_plain (lo batch : Nat) : ∀ (ops : List Op) (cm : List Sec),
    (∀ s, s ∈ cm → Plain lo s) → ops.all (plainOp lo) = true → admFrom batch cm ops = true := by
  intro ops
  induction ops with
  | nil => intro cm _ _; rfl
  | cons op ops ih =>
    intro cm h hall
    simp only [List.all_cons, Bool.and_eq_true] at hall
    obtain ⟨s1, s2⟩ := plain_step lo batch cm h op hall.1
    simp only [admFrom, Bool.and_eq_true]
    exact ⟨s1, ih _ s2 hall.2⟩

/-! ### the same for the NeedleMap operations -/

/-- condition on the op list and the REFERENCE only: 4-byte non-zero offsets, positive sizes, keys
    in one window, deletes of keys that are live in the reference -/
def plainMOp (lo : Nat) (r : Ref) : MOp → Bool
  | .put key off size => decide (size > 0) && decide (off ≠ 0) && decide (off < 4294967296) &&
      decide (lo ≤ key) && decide (key < lo + 4294967296)
  | .del key _ => decide (lo ≤ key) && decide (key < lo + 4294967296) &&
      (match r.get key with | some (_, s) => decide (s > 0) | none => false)

def plainMFrom (lo : Nat) : Ref → List MOp → Bool
  | _, [] => true
  | r, op :: ops => plainMOp lo r op && plainMFrom lo (applyR r op.toOp) ops

theorem applyM_cm (batch : Nat) (m : MemMap) (op : MOp) : (applyM batch m op).cm = applyL batch m.cm op.toOp := by
  cases op <;> rfl

theorem reloadOk_of_plain (lo batch : Nat) : ∀ (ops : List MOp) (m : MemMap) (r : Ref),
    (∀ s, s ∈ m.cm → Plain lo s) → plainMFrom lo r ops = true → reloadOkFrom batch m r ops = true := by
  intro ops
  induction ops with
  | nil => intro m r _ _; rfl
  | cons op ops ih =>
    intro m r h hall
    simp only [plainMFrom, Bool.and_eq_true] at hall
    obtain ⟨h1, h2⟩ := hall
    have hstep : mopOk m.cm r op = true ∧ plainOp lo op.toOp = true := by
      cases op with
      | put key off size =>
        simp only [plainMOp, Bool.and_eq_true, decide_eq_true_eq] at h1
        obtain ⟨⟨⟨⟨hs, ho⟩, h32⟩, hlo⟩, hhi⟩ := h1
        have hz : offHi off = 0 := by unfold offHi; omega
        have hp : plainOp lo (MOp.put key off size).toOp = true := by
          simp only [MOp.toOp, plainOp, hz, Bool.and_eq_true, decide_eq_true_eq]
          exact ⟨⟨trivial, hlo⟩, hhi⟩
        refine ⟨?_, hp⟩
        show (decide (size > 0) && decide (off ≠ 0) && opOk m.cm (.set key (offLo off) (offHi off) size)) = true
        rw [hz, setOk_of_plain lo m.cm h key (offLo off) size]
        simp [hs, ho]
      | del key off =>
        simp only [plainMOp, Bool.and_eq_true, decide_eq_true_eq] at h1
        obtain ⟨⟨hlo, hhi⟩, hlive⟩ := h1
        have hp : plainOp lo (MOp.del key off).toOp = true := by
          simp only [MOp.toOp, plainOp, Bool.and_eq_true, decide_eq_true_eq]
          exact ⟨hlo, hhi⟩
        refine ⟨?_, hp⟩
        show (noAlias key m.cm && (match r.get key with | some (_, s) => decide (s > 0) | none => false)) = true
        rw [noAlias_of_plain lo m.cm h key hhi, hlive]; rfl
    simp only [reloadOkFrom, Bool.and_eq_true]
    refine ⟨hstep.1, ih _ _ ?_ h2⟩
    rw [applyM_cm]
    exact (plain_step lo batch m.cm h op.toOp hstep.2).2

end SwV.Lemmas.C05
