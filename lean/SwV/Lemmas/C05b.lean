/-
C05 — a section (`CompactSection`) refines a map sectional-key ↦ entry: representation invariant,
denotation, and the three refinement theorems (Get, Delete, Set).
-/
import SwV.Model.C05
import SwV.Lemmas.C05
namespace SwV.Lemmas.C05
open SwV.Model.C05

/-- representation invariant of a section: `counter` is the number of values, values strictly
    sorted (reversed list strictly descending), overflow strictly ascending, no key in both, and —
    while the section is not full — every overflow key lies below the whole look-back window
    (so that an in-window insertion can never duplicate an overflow key). -/
def SecInv (batch : Nat) (s : Sec) : Prop :=
  s.cnt = s.rvals.length ∧ DescSorted s.rvals ∧ AscSorted s.ovf ∧
  (∀ x, x ∈ keys s.ovf → getK x s.rvals = none) ∧
  (s.cnt < batch → ∀ x, x ∈ keys s.ovf →
    0 < s.cnt ∧ ∀ y ∈ (keys s.rvals).take (min lookBack s.cnt), x < y)

/-- the map a section denotes (sectional key ↦ entry): overflow binding, else values binding -/
def look (s : Sec) (k : Nat) : Option Ent :=
  match getK k s.ovf with
  | some e => some e
  | none => getK k s.rvals

theorem getK_key (k : Nat) (l : List Ent) (e : Ent) (h : getK k l = some e) : e.key = k ∧ k ∈ keys l := by
  unfold getK at h
  have h1 := List.find?_some h
  have h2 := List.mem_of_find?_eq_some h
  simp at h1
  exact ⟨h1, by rw [← h1]; exact List.mem_map_of_mem h2⟩

theorem look_key (s : Sec) (k : Nat) (e : Ent) (h : look s k = some e) : e.key = k := by
  unfold look at h
  cases hov : getK k s.ovf with
  | some v => rw [hov] at h; cases h; exact (getK_key _ _ _ hov).1
  | none => rw [hov] at h; exact (getK_key _ _ _ h).1

theorem look_mem (s : Sec) (k : Nat) (e : Ent) (h : look s k = some e) : k ∈ keys s.ovf ∨ k ∈ keys s.rvals := by
  unfold look at h
  cases hov : getK k s.ovf with
  | some v => left; exact (getK_key _ _ _ hov).2
  | none => rw [hov] at h; right; exact (getK_key _ _ _ h).2

theorem look_none_of_not_mem (s : Sec) (k : Nat) (h1 : k ∉ keys s.ovf) (h2 : k ∉ keys s.rvals) : look s k = none := by
  unfold look
  rw [(getK_eq_none_iff _ _).mpr h1, (getK_eq_none_iff _ _).mpr h2]

theorem secGet_refines (batch : Nat) (s : Sec) (h : SecInv batch s) (key : Nat) :
    Sec.get s key = (look s (skeyOf s key)).map (toNV s) := by
  unfold Sec.get look
  simp only
  rw [findAsc_eq _ _ h.2.2.1, findDesc_eq _ _ h.2.1]
  cases getK (skeyOf s key) s.ovf <;> rfl

theorem secDelete_refines (batch : Nat) (s : Sec) (h : SecInv batch s) (key : Nat) (k' : Nat) :
    let r := Sec.delete s key
    let sk := skeyOf s key
    SecInv batch r.1 ∧
    look r.1 k' = (if k' = sk then (look s sk).map (fun e => if e.size > 0 then { e with size := -e.size } else e) else look s k') ∧
    r.2 = (match getK sk s.ovf with
           | some v => v.size
           | none => match getK sk s.rvals with
             | some e => if e.size > 0 then e.size else 0
             | none => 0) := by
  obtain ⟨hc, hd, ha, hdis, hwin⟩ := h
  simp only
  unfold Sec.delete
  simp only
  rw [findAsc_eq _ _ ha, findDesc_eq _ _ hd]
  have hneg : ∀ e : Ent, ({ e with size := -e.size } : Ent).key = e.key := fun _ => rfl
  cases hov : getK (skeyOf s key) s.ovf with
  | some v =>
    have hk := getK_key _ _ _ hov
    have hrv : getK (skeyOf s key) s.rvals = none := hdis _ hk.2
    simp only [hrv]
    have hkeys : keys (delAsc (skeyOf s key) s.ovf) = keys s.ovf := keys_delAsc _ _
    refine ⟨⟨hc, hd, ?_, ?_, ?_⟩, ?_, by first | rfl | trivial⟩
    · unfold AscSorted; rw [hkeys]; exact ha
    · intro x hx; rw [hkeys] at hx; exact hdis x hx
    · intro hb x hx; rw [hkeys] at hx; exact hwin hb x hx
    · unfold look; simp only
      rw [getK_delAsc _ _ _ ha]
      by_cases hk' : k' = skeyOf s key
      · subst hk'; simp [hov]
      · simp [hk']
  | none =>
    simp only
    cases hrv : getK (skeyOf s key) s.rvals with
    | none =>
      simp only
      refine ⟨⟨hc, hd, ha, hdis, hwin⟩, ?_, by first | rfl | trivial⟩
      unfold look
      by_cases hk' : k' = skeyOf s key
      · subst hk'; simp [hov, hrv]
      · simp [hk']
    | some e =>
      simp only
      by_cases hpos : e.size > 0
      · simp only [hpos, if_true]
        have hkeys := keys_updDesc (skeyOf s key) (fun e => { e with size := -e.size }) hneg s.rvals
        refine ⟨⟨?_, ?_, ha, ?_, ?_⟩, ?_, by first | rfl | trivial⟩
        · simp only [length_updDesc]; exact hc
        · unfold DescSorted; rw [hkeys]; exact hd
        · intro x hx
          rw [getK_updDesc _ _ _ hneg _ hd]
          by_cases hx2 : x = skeyOf s key
          · subst hx2
            have : getK (skeyOf s key) s.rvals = none := hdis _ hx
            rw [this] at hrv; cases hrv
          · simp [hx2]; exact hdis x hx
        · intro hb x hx; simp only [hkeys]; exact hwin hb x hx
        · unfold look; simp only
          rw [getK_updDesc _ _ _ hneg _ hd]
          by_cases hk' : k' = skeyOf s key
          · subst hk'; simp [hov, hrv, hpos]
          · simp [hk']
      · simp only [hpos, if_false]
        refine ⟨⟨hc, hd, ha, hdis, hwin⟩, ?_, by first | rfl | trivial⟩
        unfold look
        by_cases hk' : k' = skeyOf s key
        · subst hk'; simp [hov, hrv, hpos]
        · simp [hk']

/-- `Delete` changes neither the section bounds nor the key sets -/
theorem secDelete_frame (s : Sec) (key : Nat) :
    (Sec.delete s key).1.start = s.start ∧ (Sec.delete s key).1.stop = s.stop ∧
    (Sec.delete s key).1.cnt = s.cnt ∧ keys (Sec.delete s key).1.rvals = keys s.rvals ∧
    keys (Sec.delete s key).1.ovf = keys s.ovf := by
  have hneg : ∀ e : Ent, ({ e with size := -e.size } : Ent).key = e.key := fun _ => rfl
  have hk := keys_updDesc (skeyOf s key) (fun e => { e with size := -e.size }) hneg s.rvals
  unfold Sec.delete
  simp only
  cases findDesc (skeyOf s key) s.rvals with
  | none =>
    cases findAsc (skeyOf s key) s.ovf with
    | none => exact ⟨rfl, rfl, rfl, rfl, rfl⟩
    | some v => exact ⟨rfl, rfl, rfl, rfl, keys_delAsc _ _⟩
  | some e =>
    by_cases hp : e.size > 0
    · simp only [hp, if_true]
      cases findAsc (skeyOf s key) s.ovf with
      | none => exact ⟨rfl, rfl, rfl, hk, rfl⟩
      | some v => exact ⟨rfl, rfl, rfl, hk, keys_delAsc _ _⟩
    · simp only [hp, if_false]
      cases findAsc (skeyOf s key) s.ovf with
      | none => exact ⟨rfl, rfl, rfl, rfl, rfl⟩
      | some v => exact ⟨rfl, rfl, rfl, rfl, keys_delAsc _ _⟩

/-- the entry `CompactSection.Set` leaves for the key: an overwritten OVERFLOW entry keeps its old
    `OffsetHigher` byte (finding CompactSection.setOverflowEntry/stale-offset-high-byte) -/
def setEnt (s : Sec) (sk off hi : Nat) (size : Int) : Ent :=
  match getK sk s.ovf with
  | some e => ⟨sk, off, e.hi, size⟩
  | none => ⟨sk, off, hi, size⟩

def oldOf (o : Option Ent) : Old :=
  match o with
  | some e => (e.off, e.hi, e.size)
  | none => (0, 0, 0)

/-- `stop` bookkeeping of `Set` -/
def bumpStop (s : Sec) (key : Nat) : Sec := if key > s.stop then { s with stop := key } else s

theorem secSet_refines (batch : Nat) (s0 : Sec) (h0 : SecInv batch s0) (key off hi : Nat) (size : Int) (k' : Nat) :
    let r := Sec.set batch s0 key off hi size
    let sk := skeyOf s0 key
    SecInv batch r.1 ∧ r.1.start = s0.start ∧ r.1.stop = max s0.stop key ∧ s0.cnt ≤ r.1.cnt ∧
    (∀ x, x ∈ keys r.1.rvals ∨ x ∈ keys r.1.ovf ↔ x = sk ∨ (x ∈ keys s0.rvals ∨ x ∈ keys s0.ovf)) ∧
    look r.1 k' = (if k' = sk then some (setEnt s0 sk off hi size) else look s0 k') ∧
    r.2 = oldOf (look s0 sk) := by
  intro r sk
  -- the section after the `stop` update
  have hs : ∃ s : Sec, s = bumpStop s0 key ∧ s.start = s0.start ∧ s.cnt = s0.cnt ∧ s.rvals = s0.rvals ∧
      s.ovf = s0.ovf ∧ s.stop = max s0.stop key := by
    refine ⟨bumpStop s0 key, rfl, ?_⟩
    unfold bumpStop
    split
    · refine ⟨rfl, rfl, rfl, rfl, ?_⟩; simp only; omega
    · refine ⟨rfl, rfl, rfl, rfl, ?_⟩; omega
  obtain ⟨s, hsdef, hst, hcn, hrv, hov, hstop⟩ := hs
  have hsk : skeyOf s key = sk := by show skeyOf s key = skeyOf s0 key; unfold skeyOf; rw [hst]
  have hr : r = (match findDesc sk s.rvals with
    | some e => ({ s with rvals := updDesc sk (fun e => { e with off := off, hi := hi, size := size }) s.rvals }, (e.off, e.hi, e.size))
    | none =>
      let needOverflow := decide (s.cnt ≥ batch) || (decide (s.cnt > 0) && decide ((s.rvals.headD default).key > sk))
      if needOverflow then
        let lb := s.rvals.getD (min lookBack s.cnt - 1) default
        if s.cnt < batch ∧ lb.key < sk then
          ({ s with rvals := insertDesc ⟨sk, off, hi, size⟩ s.rvals, cnt := s.cnt + 1 }, (0, 0, 0))
        else
          let old : Old := match findAsc sk s.ovf with
            | some e => (e.off, e.hi, e.size)
            | none => (0, 0, 0)
          ({ s with ovf := setAsc ⟨sk, off, hi, size⟩ s.ovf }, old)
      else ({ s with rvals := ⟨sk, off, hi, size⟩ :: s.rvals, cnt := s.cnt + 1 }, (0, 0, 0))) := by
    show Sec.set batch s0 key off hi size = _
    unfold Sec.set
    simp only
    rw [hsdef, ← hsk, hsdef]
    rfl
  have h : SecInv batch s := by
    unfold SecInv; rw [hcn, hrv, hov]; exact h0
  have hlook : ∀ k, look s k = look s0 k := by intro k; unfold look; rw [hrv, hov]
  have hsetEnt : setEnt s0 sk off hi size = setEnt s sk off hi size := by unfold setEnt; rw [hov]
  rw [← hst, ← hstop, ← hcn, ← hrv, ← hov, ← hlook sk, ← hlook k', hsetEnt]
  clear hsetEnt hlook hstop hov hrv hcn hst hsk h0 hsdef
  obtain ⟨hc, hd, ha, hdis, hwin⟩ := h
  rw [findDesc_eq _ _ hd, findAsc_eq _ _ ha] at hr
  have hfk : ∀ e : Ent, ({ e with off := off, hi := hi, size := size } : Ent).key = e.key := fun _ => rfl
  cases hfd : getK sk s.rvals with
  | some e =>
    rw [hfd] at hr; simp only at hr
    have hek := getK_key _ _ _ hfd
    have hnov : getK sk s.ovf = none := by
      rw [getK_eq_none_iff]; intro hx; have := hdis _ hx; rw [this] at hfd; cases hfd
    have hkeys := keys_updDesc sk (fun e => { e with off := off, hi := hi, size := size }) hfk s.rvals
    rw [hr]
    refine ⟨⟨?_, ?_, ha, ?_, ?_⟩, rfl, rfl, Nat.le_refl _, ?_, ?_, ?_⟩
    · simp only [length_updDesc]; exact hc
    · unfold DescSorted; rw [hkeys]; exact hd
    · intro x hx
      rw [getK_updDesc _ _ _ hfk _ hd]
      by_cases hx2 : x = sk
      · subst hx2; have := hdis _ hx; rw [this] at hfd; cases hfd
      · simp [hx2]; exact hdis x hx
    · intro hb x hx; simp only [hkeys]; exact hwin hb x hx
    · intro x; simp only [hkeys]
      constructor
      · intro hx; right; exact hx
      · intro hx; rcases hx with hx | hx
        · left; rw [hx]; exact hek.2
        · exact hx
    · unfold look; simp only
      rw [getK_updDesc _ _ _ hfk _ hd]
      by_cases hk' : k' = sk
      · subst hk'; simp only [hnov, hfd, if_true, setEnt, Option.map]
        congr 1; cases e; simp only at hek; simp [hek.1]
      · simp [hk']
    · unfold look; rw [hnov, hfd]; rfl
  | none =>
    rw [hfd] at hr; simp only at hr
    have hnotin : sk ∉ keys s.rvals := (getK_eq_none_iff _ _).mp hfd
    by_cases hno : (decide (s.cnt ≥ batch) || (decide (s.cnt > 0) && decide ((s.rvals.headD default).key > sk))) = true
    · rw [if_pos hno] at hr
      by_cases hwinIns : s.cnt < batch ∧ (s.rvals.getD (min lookBack s.cnt - 1) default).key < sk
      · -- in-window insertion
        rw [if_pos hwinIns] at hr
        obtain ⟨hb, hlb⟩ := hwinIns
        have hpos : 0 < s.cnt := by
          simp only [Bool.or_eq_true, Bool.and_eq_true, decide_eq_true_eq] at hno
          rcases hno with hno | hno
          · omega
          · exact hno.1
        have hm1 : min lookBack s.cnt - 1 < (keys s.rvals).length := by
          simp only [keys, List.length_map, ← hc, lookBack]; omega
        have hm2 : min lookBack s.cnt - 1 + 1 = min lookBack s.cnt := by simp only [lookBack]; omega
        rw [keys_getD] at hlb
        have hlbmem := getD_mem_take (keys s.rvals) _ hm1
        rw [hm2] at hlbmem
        have hovlt : ∀ x, x ∈ keys s.ovf → x < sk := by
          intro x hx; have := (hwin hb x hx).2 _ hlbmem; omega
        have hnov : getK sk s.ovf = none := by
          rw [getK_eq_none_iff]; intro hx; have := hovlt _ hx; omega
        rw [hr]
        refine ⟨⟨?_, ?_, ha, ?_, ?_⟩, rfl, rfl, Nat.le_succ _, ?_, ?_, ?_⟩
        · simp only [length_insertDesc]; omega
        · exact descSorted_insertDesc _ _ hd hnotin
        · intro x hx
          simp only [getK_insertDesc]
          have := hovlt x hx
          have hne : ¬ x = sk := by omega
          simp only [hne, if_false]; exact hdis x hx
        · intro _ x hx
          refine ⟨Nat.succ_pos _, ?_⟩
          intro y hy
          simp only at hy
          have hold := (hwin hb x hx).2
          by_cases h128 : s.cnt < lookBack
          · -- the window is the whole list
            have hmin : min lookBack s.cnt = s.cnt := by omega
            have hy' := List.mem_of_mem_take hy
            rcases (keys_insertDesc_perm _ _ y).mp hy' with hy' | hy'
            · have := hovlt x hx; simp only at hy'; omega
            · apply hold; rw [hmin, List.take_of_length_le]; exact hy'
              simp only [keys, List.length_map]; omega
          · have hmin : min lookBack (s.cnt + 1) = min lookBack s.cnt := by omega
            rw [hmin] at hy
            rcases mem_take_insertDesc _ _ _ _ hy with hy' | hy'
            · have := hovlt x hx; simp only at hy'; omega
            · exact hold _ hy'
        · intro x; simp only
          rw [keys_insertDesc_perm]
          constructor
          · intro hx; rcases hx with (hx | hx) | hx
            · left; exact hx
            · right; left; exact hx
            · right; right; exact hx
          · intro hx; rcases hx with hx | hx | hx
            · left; left; exact hx
            · left; right; exact hx
            · right; exact hx
        · unfold look; simp only
          rw [getK_insertDesc]
          by_cases hk' : k' = sk
          · subst hk'; simp [hnov, setEnt]
          · simp [hk']
        · unfold look; rw [hnov, hfd]; rfl
      · -- overflow
        rw [if_neg hwinIns] at hr
        rw [hr]
        refine ⟨⟨hc, hd, ascSorted_setAsc _ _ ha, ?_, ?_⟩, rfl, rfl, Nat.le_refl _, ?_, ?_, ?_⟩
        · intro x hx
          rcases (mem_keys_setAsc _ _ x).mp hx with hx | hx
          · simp only at hx; rw [hx]; exact hfd
          · exact hdis x hx
        · intro hb x hx
          simp only at hb hx ⊢
          have hpos : 0 < s.cnt := by
            simp only [Bool.or_eq_true, Bool.and_eq_true, decide_eq_true_eq] at hno
            rcases hno with hno | hno
            · omega
            · exact hno.1
          rcases (mem_keys_setAsc _ _ x).mp hx with hx | hx
          · simp only at hx
            refine ⟨hpos, ?_⟩
            intro y hy
            have hlb : ¬ (s.rvals.getD (min lookBack s.cnt - 1) default).key < sk := fun hh => hwinIns ⟨hb, hh⟩
            rw [keys_getD] at hlb
            have hm1 : min lookBack s.cnt - 1 < (keys s.rvals).length := by
              simp only [keys, List.length_map, ← hc, lookBack]; omega
            have hm2 : min lookBack s.cnt - 1 + 1 = min lookBack s.cnt := by simp only [lookBack]; omega
            have hge := desc_take_ge (keys s.rvals) hd _ hm1
            rw [hm2] at hge
            have h1 := hge y hy
            have hyin : y ∈ keys s.rvals := List.mem_of_mem_take hy
            have : y ≠ sk := fun hh => hnotin (hh ▸ hyin)
            omega
          · exact hwin hb x hx
        · intro x; simp only
          rw [mem_keys_setAsc]
          constructor
          · intro hx; rcases hx with hx | hx | hx
            · right; left; exact hx
            · left; exact hx
            · right; right; exact hx
          · intro hx; rcases hx with hx | hx | hx
            · right; left; exact hx
            · left; exact hx
            · right; right; exact hx
        · unfold look; simp only
          rw [getK_setAsc _ _ _ ha]
          by_cases hk' : k' = sk
          · subst hk'
            simp only [if_true, setEnt]
            cases hgo : getK sk s.ovf with
            | some e =>
              simp only
              have := (getK_key _ _ _ hgo).1
              congr 1; cases e; simp only at this; simp [this]
            | none => rfl
          · simp only [hk', if_false]
        · unfold look
          cases hgo : getK sk s.ovf with
          | some e => rfl
          | none => simp only [hfd]; rfl
    · -- append
      rw [if_neg hno] at hr
      simp only [Bool.or_eq_true, Bool.and_eq_true, decide_eq_true_eq, not_or, not_and] at hno
      obtain ⟨hb, hhead⟩ := hno
      have hb' : s.cnt < batch := by omega
      have hall : ∀ y ∈ keys s.rvals, y < sk := by
        intro y hy
        cases hrvs : s.rvals with
        | nil => rw [hrvs] at hy; simp [keys] at hy
        | cons e rest =>
          rw [hrvs] at hy hd hnotin
          have hp : 0 < s.cnt := by rw [hc, hrvs]; simp
          have hh := hhead hp
          rw [hrvs] at hh; simp only [List.headD_cons] at hh
          have hlt : ∀ y ∈ keys rest, e.key > y := (List.pairwise_cons.mp hd).1
          simp only [keys, List.map_cons, List.mem_cons] at hy hnotin hlt
          rcases hy with hy | hy
          · omega
          · have := hlt y hy; omega
      have hovlt : ∀ x, x ∈ keys s.ovf → x < sk := by
        intro x hx
        obtain ⟨hp, hw⟩ := hwin hb' x hx
        cases hrvs : s.rvals with
        | nil => rw [hc, hrvs] at hp; simp at hp
        | cons e rest =>
          have hm : min lookBack s.cnt = (min lookBack s.cnt - 1) + 1 := by simp only [lookBack]; omega
          rw [hm, hrvs] at hw
          simp only [keys, List.map_cons, List.take_succ_cons, List.mem_cons] at hw
          have h1 := hw e.key (Or.inl rfl)
          have h2 := hall e.key (by rw [hrvs]; simp [keys])
          omega
      have hnov : getK sk s.ovf = none := by
        rw [getK_eq_none_iff]; intro hx; have := hovlt _ hx; omega
      rw [hr]
      refine ⟨⟨?_, ?_, ha, ?_, ?_⟩, rfl, rfl, Nat.le_succ _, ?_, ?_, ?_⟩
      · simp only [List.length_cons]; omega
      · unfold DescSorted; simp only [keys, List.map_cons]
        exact List.pairwise_cons.mpr ⟨fun y hy => hall y hy, hd⟩
      · intro x hx
        rw [getK_cons]
        have := hovlt x hx
        have hne : ¬ sk = x := by omega
        simp only [hne, if_false]; exact hdis x hx
      · intro _ x hx
        refine ⟨Nat.succ_pos _, ?_⟩
        intro y hy
        simp only at hy
        have hm : min lookBack (s.cnt + 1) = (min lookBack (s.cnt + 1) - 1) + 1 := by simp only [lookBack]; omega
        rw [hm] at hy
        simp only [keys, List.map_cons, List.take_succ_cons, List.mem_cons] at hy
        rcases hy with hy | hy
        · have := hovlt x hx; omega
        · have hsub : List.take (min lookBack (s.cnt + 1) - 1) (List.map (·.key) s.rvals) ⊆
              List.take (min lookBack s.cnt) (List.map (·.key) s.rvals) :=
            List.take_subset_take_left _ (by simp only [lookBack]; omega)
          exact (hwin hb' x hx).2 y (hsub hy)
      · intro x; simp only [keys, List.map_cons, List.mem_cons]
        constructor
        · intro hx; rcases hx with (hx | hx) | hx
          · left; exact hx
          · right; left; exact hx
          · right; right; exact hx
        · intro hx; rcases hx with hx | hx | hx
          · left; left; exact hx
          · left; right; exact hx
          · right; exact hx
      · unfold look; simp only
        rw [getK_cons]
        by_cases hk' : k' = sk
        · subst hk'; simp [hnov, setEnt]
        · have : ¬ sk = k' := fun x => hk' x.symm
          simp [this, hk']
      · unfold look; rw [hnov, hfd]; rfl

end SwV.Lemmas.C05
