/- C39 — helper lemmas: what is found where after each tree operation. -/
import SwV.Model.C39
import SwV.Spec.C39

namespace SwV.Lemmas.C39
open SwV.Model.C39 SwV.Spec.C39

/-- what the tree holds at a path: `none` = no FsNode, `some none` = placeholder -/
def find (t : Node) (q : Path) : Option (Option Nat) := (sub t q).map (·.1)

theorem child_setChild (f : Forest) (x y : Name) (c : Node) :
    (f.setChild x c).child y = if y = x then some c else f.child y := by
  induction f with
  | nil =>
    simp only [Forest.setChild, Forest.child]
    by_cases h : y = x
    · subst h; simp
    · have : ¬ x = y := fun e => h e.symm
      simp [h, this]
  | cons n v k r _ ih =>
    simp only [Forest.setChild]
    by_cases hn : n = x
    · subst hn
      simp only [if_true, Forest.child]
      by_cases h : y = n
      · subst h; simp
      · have : ¬ n = y := fun e => h e.symm
        simp [h, this]
    · simp only [hn, if_false, Forest.child, ih]
      by_cases h : y = x
      · subst h; simp [hn]
      · simp [h]

theorem child_delChild (f : Forest) (x y : Name) :
    (f.delChild x).child y = if y = x then none else f.child y := by
  induction f with
  | nil => simp [Forest.delChild, Forest.child]
  | cons n v k r _ ih =>
    simp only [Forest.delChild]
    by_cases hn : n = x
    · subst hn
      simp only [if_true, ih, Forest.child]
      by_cases h : y = n
      · simp [h]
      · have : ¬ n = y := fun e => h e.symm
        simp [h, this]
    · simp only [hn, if_false, Forest.child, ih]
      by_cases h : y = x
      · subst h; simp [hn]
      · simp [h]

theorem find_nil (t : Node) : find t [] = some t.1 := by simp [find, sub]

theorem find_cons (t : Node) (y : Name) (q : Path) :
    find t (y :: q) = (t.2.child y).bind (fun c => find c q) := by
  simp only [find, sub]
  cases t.2.child y <;> simp

theorem find_empty (q : Path) : find emptyNode q = if q = [] then some none else none := by
  cases q with
  | nil => simp [find_nil, emptyNode]
  | cons y q => simp [find_cons, emptyNode, Forest.child]

theorem get_eq (t : Node) (q : Path) : get t q = (find t q).getD none := by
  simp only [SwV.Model.C39.get, find]
  cases sub t q <;> simp

theorem sub_append (t : Node) (p r : Path) : sub t (p ++ r) = (sub t p).bind (fun s => sub s r) := by
  induction p generalizing t with
  | nil => simp [sub]
  | cons x p ih =>
    simp only [List.cons_append, sub]
    cases t.2.child x with
    | none => simp
    | some c => simp [ih]

theorem find_append (t s : Node) (p r : Path) (h : sub t p = some s) : find t (p ++ r) = find s r := by
  simp [find, sub_append, h]

/-- C: after `putSub t p s` -/
theorem find_putSub (t : Node) (p : Path) (s : Node) (q : Path) :
    find (putSub t p s) q =
      if p <+: q then find s (q.drop p.length)
      else if q <+: p then some ((find t q).getD none)
      else find t q := by
  induction p generalizing t q with
  | nil => simp [putSub]
  | cons x p ih =>
    cases q with
    | nil => simp [putSub, find_nil]
    | cons y q =>
      simp only [putSub, find_cons, child_setChild, List.cons_prefix_cons, List.length_cons, List.drop_succ_cons]
      by_cases hy : y = x
      · subst hy
        simp only [if_true, Option.bind_some, ih, true_and]
        cases hc : t.2.child y with
        | none =>
          simp only [Option.getD_none, Option.bind_none, find_empty]
          by_cases h1 : p <+: q
          · simp [h1]
          · simp only [h1, if_false]
            by_cases h2 : q <+: p
            · simp only [h2, if_true]
              by_cases hq : q = [] <;> simp [hq]
            · have : q ≠ [] := by
                intro e; subst e; exact h2 (List.nil_prefix)
              simp [h2, this]
        | some c => simp
      · have hxy : ¬ x = y := fun e => hy e.symm
        simp [hy, hxy]

/-- A: after `SetFsNode` -/
theorem find_setNode (t : Node) (p : Path) (v : Nat) (q : Path) :
    find (setNode t p v) q = refSet (find t) p v q := by
  induction p generalizing t q with
  | nil =>
    cases q with
    | nil => simp [setNode, refSet, find_nil]
    | cons y q => simp [setNode, refSet, find_cons]
  | cons x p ih =>
    cases q with
    | nil => simp [setNode, refSet, find_nil]
    | cons y q =>
      simp only [setNode, find_cons, child_setChild, refSet, List.cons_prefix_cons, List.cons.injEq]
      by_cases hy : y = x
      · subst hy
        simp only [if_true, Option.bind_some, ih, refSet, true_and]
        cases hc : t.2.child y with
        | none =>
          simp only [Option.getD_none, Option.bind_none, find_empty]
          by_cases h0 : q = p
          · simp [h0]
          · simp only [h0, if_false]
            by_cases h2 : q <+: p
            · simp only [h2, if_true]
              by_cases hq : q = [] <;> simp [hq]
            · have : q ≠ [] := by
                intro e; subst e; exact h2 (List.nil_prefix)
              simp [h2, this]
        | some c => simp
      · simp [hy]

theorem remove_cons_cons (t : Node) (x y : Name) (p : Path) :
    remove t (x :: y :: p) =
      match t.2.child x with
      | none => t
      | some c => (t.1, t.2.setChild x (remove c (y :: p))) := by
  rw [remove]
  cases t.2.child x <;> rfl

/-- B: after `DeleteFsNode` of a non-root path -/
theorem find_remove_cons (t : Node) (x : Name) (p : Path) (q : Path) :
    find (remove t (x :: p)) q = if (x :: p) <+: q then none else find t q := by
  induction p generalizing t x q with
  | nil =>
    cases q with
    | nil => simp [remove, find_nil]
    | cons y q =>
      simp only [remove, find_cons, child_delChild, List.cons_prefix_cons, List.nil_prefix, and_true]
      by_cases hy : y = x
      · simp [hy]
      · have hxy : ¬ x = y := fun e => hy e.symm
        simp [hy, hxy]
  | cons x' p ih =>
    rw [remove_cons_cons]
    cases hc : t.2.child x with
    | none =>
      simp only
      cases q with
      | nil => simp
      | cons y q =>
        by_cases hy : x = y
        · subst hy
          simp [find_cons, hc]
        · simp [List.cons_prefix_cons, hy]
    | some c =>
      simp only
      cases q with
      | nil => simp [find_nil]
      | cons y q =>
        simp only [find_cons, child_setChild, List.cons_prefix_cons]
        by_cases hy : y = x
        · subst hy
          simp [ih, hc]
        · have hxy : ¬ x = y := fun e => hy e.symm
          simp [hy, hxy]

theorem find_remove (t : Node) (p q : Path) : find (remove t p) q = refDel (find t) p q := by
  cases p with
  | nil => simp [remove, refDel, find_empty, refEmpty]
  | cons x p => simp [refDel, find_remove_cons]

end SwV.Lemmas.C39
