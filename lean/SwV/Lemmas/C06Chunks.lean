/-
C06 — the rebuilder's chunk loop on shard lengths (`rebuildLen`, used by the driver for shards far above
the chunk size): it is the read phase of the byte-level model (`rebuildReads_len`), and for shard files of
one common length that is a multiple of the chunk size it writes exactly that length whenever at least
`k` shards are present (`rebuildLen_uniform`).  Core Lean only.
-/
import SwV.Model.C06
import SwV.Spec.C06
namespace SwV.Lemmas.C06
open SwV.Model.C06 SwV.Spec.C06

/-- the length-level read phase IS the byte-level one -/
theorem rebuildReads_len (C start : Nat) (present : List (Option (List Nat))) (ibds : Nat) :
    rebuildReads C start present ibds = rebuildReadsLen C start (present.map (·.map List.length)) ibds := by
  induction present generalizing ibds with
  | nil => rfl
  | cons o rest ih =>
    cases o with
    | none => simpa [rebuildReads, rebuildReadsLen] using ih ibds
    | some sh =>
      simp only [rebuildReads, rebuildReadsLen, List.map_cons, Option.map_some, ih]

/-- shard files of one common length; `mask[i] = true` = shard `i` is present -/
def uniformLens (len : Nat) (mask : List Bool) : List (Option Nat) :=
  mask.map fun p => if p then some len else none

theorem reads_uniform_same (C start len : Nat) (mask : List Bool) (hn : min C (len - start) ≠ 0) :
    rebuildReadsLen C start (uniformLens len mask) (min C (len - start)) = .ok (min C (len - start)) := by
  induction mask with
  | nil => rfl
  | cons b rest ih =>
    cases b with
    | false => simpa [uniformLens, rebuildReadsLen] using ih
    | true =>
      simp only [uniformLens, List.map_cons, if_true, rebuildReadsLen, hn, if_false]
      simpa [uniformLens] using ih

theorem reads_uniform_first (C start len : Nat) (mask : List Bool) (hn : min C (len - start) ≠ 0)
    (hp : mask.any id = true) :
    rebuildReadsLen C start (uniformLens len mask) 0 = .ok (min C (len - start)) := by
  induction mask with
  | nil => simp at hp
  | cons b rest ih =>
    cases b with
    | false =>
      have : rest.any id = true := by simpa using hp
      simpa [uniformLens, rebuildReadsLen] using ih this
    | true =>
      simp only [uniformLens, List.map_cons, if_true, rebuildReadsLen, hn, if_false, ne_eq, not_true_eq_false]
      simpa [uniformLens] using reads_uniform_same C start len rest hn

theorem reads_uniform_stop (C start len ibds : Nat) (mask : List Bool) (hn : min C (len - start) = 0)
    (hp : mask.any id = true) :
    rebuildReadsLen C start (uniformLens len mask) ibds = .stop := by
  induction mask with
  | nil => simp at hp
  | cons b rest ih =>
    cases b with
    | false =>
      have : rest.any id = true := by simpa using hp
      simpa [uniformLens, rebuildReadsLen] using ih this
    | true => simp [uniformLens, rebuildReadsLen, hn]

theorem uniform_present_count (len : Nat) (mask : List Bool) :
    ((uniformLens len mask).filter Option.isSome).length = (mask.filter id).length := by
  induction mask with
  | nil => rfl
  | cons b rest ih => cases b <;> simp [uniformLens] at ih ⊢ <;> exact ih

/-- from chunk `j` on (after the first iteration) the loop writes up to `q * C` -/
theorem loop_uniform_from (k C q : Nat) (mask : List Bool) (hC : 0 < C)
    (hk : k ≤ (mask.filter id).length) (hp : mask.any id = true) :
    ∀ (d j fuel : Nat), j + d = q → d < fuel →
      rebuildLenLoop k C (uniformLens (q * C) mask) fuel (j * C) C = some (q * C) := by
  intro d
  induction d with
  | zero =>
    intro j fuel hj hf
    obtain ⟨f, rfl⟩ : ∃ f, fuel = f + 1 := ⟨fuel - 1, by omega⟩
    have hjq : j = q := by omega
    subst hjq
    have hn : min C (j * C - j * C) = 0 := by simp
    simp only [rebuildLenLoop, reads_uniform_stop C (j * C) (j * C) C mask hn hp]
  | succ d ih =>
    intro j fuel hj hf
    obtain ⟨f, rfl⟩ : ∃ f, fuel = f + 1 := ⟨fuel - 1, by omega⟩
    have hlen : q * C - j * C = (d + 1) * C := by
      rw [← hj, Nat.add_mul]; omega
    have hge : C ≤ (d + 1) * C := by
      rw [Nat.add_mul]; omega
    have hmin : min C (q * C - j * C) = C := by rw [hlen]; exact Nat.min_eq_left hge
    have hn : min C (q * C - j * C) ≠ 0 := by rw [hmin]; omega
    have hr := reads_uniform_same C (j * C) (q * C) mask hn
    rw [hmin] at hr
    have hcnt : ¬ ((uniformLens (q * C) mask).filter Option.isSome).length < k := by
      rw [uniform_present_count]; omega
    simp only [rebuildLenLoop, hr, hcnt, if_false]
    have := ih (j + 1) f (by omega) (by omega)
    rwa [Nat.add_mul, Nat.one_mul] at this

theorem loop_uniform (k C q : Nat) (mask : List Bool) (hC : 0 < C)
    (hk : k ≤ (mask.filter id).length) (hp : mask.any id = true) (fuel : Nat) (hf : q < fuel) :
    rebuildLenLoop k C (uniformLens (q * C) mask) fuel 0 0 = some (q * C) := by
  obtain ⟨f, rfl⟩ : ∃ f, fuel = f + 1 := ⟨fuel - 1, by omega⟩
  cases q with
  | zero =>
    have hn : min C (0 - 0) = 0 := by simp
    simp only [Nat.zero_mul, rebuildLenLoop, reads_uniform_stop C 0 0 0 mask hn hp]
  | succ q =>
    have hge : C ≤ (q + 1) * C := by rw [Nat.add_mul]; omega
    have hmin : min C ((q + 1) * C - 0) = C := by simpa using Nat.min_eq_left hge
    have hn : min C ((q + 1) * C - 0) ≠ 0 := by rw [hmin]; omega
    have hr := reads_uniform_first C 0 ((q + 1) * C) mask hn hp
    rw [hmin] at hr
    have hcnt : ¬ ((uniformLens ((q + 1) * C) mask).filter Option.isSome).length < k := by
      rw [uniform_present_count]; omega
    simp only [rebuildLenLoop, hr, hcnt, if_false, Nat.zero_add]
    have := loop_uniform_from k C (q + 1) mask hC hk hp q 1 f (by omega) (by omega)
    simpa using this

theorem uniform_maxLen (len : Nat) (mask : List Bool) (a : Nat) :
    (uniformLens len mask).foldl (fun a o => max a (o.getD 0)) a = if mask.any id then max a len else a := by
  induction mask generalizing a with
  | nil => rfl
  | cons b rest ih =>
    cases b with
    | false => simpa [uniformLens] using ih a
    | true =>
      have := ih (max a len)
      simp only [uniformLens, List.map_cons, if_true, List.foldl_cons, Option.getD_some] at this ⊢
      rw [this]; simp only [List.any_cons, id, Bool.true_or, if_true]
      split <;> omega

/-- shards of one common length `q * C`, at least `k` (> 0) of them present: the loop returns without
    error and has written exactly `q * C` bytes to every regenerated shard -/
theorem rebuildLen_uniform (k C q : Nat) (mask : List Bool) (hC : 0 < C) (hk0 : 0 < k)
    (hk : k ≤ (mask.filter id).length) :
    rebuildLen k C (uniformLens (q * C) mask) = some (q * C) := by
  have hp : mask.any id = true := by
    cases h : mask.any id with
    | true => rfl
    | false =>
      have : mask.filter id = [] := by
        rw [List.filter_eq_nil_iff]; intro x hx hx'
        have := List.any_eq_false.mp h x hx
        exact this hx'
      rw [this] at hk; simp at hk; omega
  unfold rebuildLen
  simp only [uniform_maxLen, hp, if_true]
  apply loop_uniform k C q mask hC hk hp
  have : q ≤ q * C := Nat.le_mul_of_pos_right q hC
  omega

/-- the report the model predicts (original length, every chunk flag set) passes the chunk judge -/
theorem chunksJudge_all_equal (m C q : Nat) (lost : List Nat) :
    rebuildChunksJudge m C (q * C) lost true (lost.map fun _ => (q * C, List.replicate q true)) = none := by
  unfold rebuildChunksJudge
  split
  · simp
  · rfl

end SwV.Lemmas.C06
