/- C06 — kernel check of the decoding-matrix certificates, part 3 (see SwV/Lemmas/C06Certs.lean) -/
import SwV.Model.C06RS
namespace SwV.Lemmas.C06
open SwV.Model.C06
set_option maxRecDepth 100000

theorem certs_chunk_15 : ((certTable.drop (50 * 15)).take 50).all certOk = true := by decide +kernel
theorem certs_chunk_16 : ((certTable.drop (50 * 16)).take 50).all certOk = true := by decide +kernel
theorem certs_chunk_17 : ((certTable.drop (50 * 17)).take 50).all certOk = true := by decide +kernel
theorem certs_chunk_18 : ((certTable.drop (50 * 18)).take 50).all certOk = true := by decide +kernel
theorem certs_chunk_19 : ((certTable.drop (50 * 19)).take 50).all certOk = true := by decide +kernel

end SwV.Lemmas.C06
