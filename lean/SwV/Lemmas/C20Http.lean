/-
C20, HTTP write handlers — lemmas about the save-path model `SwV.Model.C20Http.save`:
a Filer.CreateEntry that does not succeed leaves the store as it was and hands nothing to a deletion sink;
hence a failed save emits exactly the chunks the request uploaded.
-/
import SwV.Model.C18
import SwV.Model.C20Http
import SwV.Lemmas.C20
namespace SwV.Lemmas.C20Http
open SwV.Model.C18 SwV.Model.C20Http SwV.Lemmas.C20

/-- ensureParentDirecotryEntry makes directories only after the topmost existing ancestor turned out to be a directory -/
theorem ensureParent_false (e : Entry) : ∀ (q : RPath) (s : St), (ensureParent e q s).2 = false → (ensureParent e q s).1 = s := by
  intro q
  induction q with
  | nil => intro s h; simp [ensureParent] at h
  | cons n q ih =>
    intro s h
    unfold ensureParent at h ⊢
    cases hf : find s (n :: q) with
    | some d => rfl
    | none =>
      simp only [hf] at h ⊢
      rcases hp : ensureParent e q s with ⟨s1, b⟩
      cases b with
      | true => rw [hp] at h; simp at h
      | false =>
        have := ih s (by rw [hp])
        rw [hp] at this
        simpa using this

/-- a Filer.CreateEntry that does not succeed: store unchanged, nothing handed to DeleteChunks -/
theorem createEntry_not_ok {s : St} {p : RPath} {e : Entry} {x : Bool} (h : (createEntry s p e x).2.1 ≠ .ok) :
    (createEntry s p e x).1 = s ∧ (createEntry s p e x).2.2 = [] := by
  cases p with
  | nil => exact ⟨rfl, rfl⟩
  | cons n par =>
    unfold createEntry at h ⊢
    cases hf : find s (n :: par) with
    | none =>
      simp only [hf] at h ⊢
      rcases hp : ensureParent e par s with ⟨s1, b⟩
      cases b with
      | true => rw [hp] at h; simp at h
      | false =>
        have := ensureParent_false e par s (by rw [hp])
        rw [hp] at this
        simpa using this
    | some old =>
      simp only [hf] at h ⊢
      by_cases hx : x = true
      · simp [hx]
      · by_cases ht : (old.isDir != e.isDir) = true
        · simp [hx, ht]
        · simp [hx, ht] at h

theorem createEntryDown_not_ok {s : St} {p : RPath} : (createEntryDown s p).1 = s ∧ (createEntryDown s p).2.2 = [] := by
  unfold createEntryDown
  split <;> exact ⟨rfl, rfl⟩

/-- the outcome of the CreateEntry call of `save` -/
def saveCall (s : St) (r : Req) (e : Entry) : St × Res × List Nat :=
  if r.down then createEntryDown s (targetPath s r.path) else createEntry s (targetPath s r.path) e false

theorem saveCall_not_ok {s : St} {r : Req} {e : Entry} (h : (saveCall s r e).2.1 ≠ .ok) :
    (saveCall s r e).1 = s ∧ (saveCall s r e).2.2 = [] := by
  unfold saveCall at h ⊢
  split
  · exact createEntryDown_not_ok
  · rename_i hd
    simp only [hd] at h
    exact createEntry_not_ok (by simpa using h)

/-- `save` in terms of the CreateEntry call -/
theorem save_eq (s : St) (next : Nat) (r : Req) : save s next r =
    match entryToSave s next r with
    | none => (s, { res := .err, q := [], uploaded := (upload r).2, stage := .refused })
    | some e =>
      if (saveCall s r e).2.1 = .ok then
        ((if savesInline s r then markInline (saveCall s r e).1 (targetPath s r.path) else (saveCall s r e).1),
          { res := .ok, q := (saveCall s r e).2.2, uploaded := (upload r).2, stage := .saved })
      else ((saveCall s r e).1, { res := .err, q := (saveCall s r e).2.2 ++ newIds next r, uploaded := (upload r).2, stage := .saveFailed }) := by
  unfold save
  cases entryToSave s next r with
  | none => rfl
  | some e =>
    simp only []
    show (match saveCall s r e with
      | (s', .ok, q) => _
      | (s', _, q) => _) = _
    rcases h : saveCall s r e with ⟨s', res, q⟩
    cases res <;> simp

/-- a failed save: the store is what it was, the request answers an error, and the deletion queue received exactly
    the chunks this request uploaded -/
theorem save_failed {s : St} {next : Nat} {r : Req} (h : (save s next r).2.stage = .saveFailed) :
    (save s next r).1 = s ∧ (save s next r).2.res = .err ∧ (save s next r).2.q = newIds next r ∧
    (save s next r).2.uploaded = (newIds next r).length := by
  rw [save_eq] at h ⊢
  cases he : entryToSave s next r with
  | none => rw [he] at h; simp at h
  | some e =>
    rw [he] at h
    simp only [] at h ⊢
    by_cases hok : (saveCall s r e).2.1 = .ok
    · simp [hok] at h
    · have := saveCall_not_ok hok
      simp only [hok, if_false]
      refine ⟨this.1, ?_⟩
      simp [this.2, newIds]

/-- while the store is down no request (below the root) is saved -/
theorem save_down {s : St} {next : Nat} {r : Req} (hd : r.down = true) (hp : r.path ≠ []) :
    (save s next r).2.stage ≠ .saved ∧ (save s next r).1 = s := by
  have htp : targetPath s r.path ≠ [] := by
    unfold targetPath
    cases hq : r.path with
    | nil => exact absurd hq hp
    | cons n par =>
      simp only []
      split
      · split <;> simp
      · simp
  rw [save_eq]
  cases he : entryToSave s next r with
  | none => simp
  | some e =>
    have hc : saveCall s r e = (s, .err, []) := by
      unfold saveCall createEntryDown
      simp only [hd, if_true]
      split
      · rename_i heq; exact absurd heq htp
      · rfl
    simp [hc]

end SwV.Lemmas.C20Http
