/-
C06 — helper lemmas (core Lean only): list slicing, block arithmetic with a VARIABLE block
length (omega cannot divide by a variable; the products are isolated by hand), and the loop
invariants of the locator, the encoder and the decoder.
-/
import SwV.Model.C06
import SwV.Spec.C06
namespace SwV.Lemmas.C06
open SwV.Model.C06 SwV.Spec.C06

/-! ### lists -/

theorem slice_eq_map (D : List Nat) (off len : Nat) (h : off + len ≤ D.length) :
    (D.drop off).take len = (List.range len).map fun t => D.getD (off + t) 0 := by
  apply List.ext_getElem
  · simp; omega
  · intro i h1 h2
    simp at h1 h2 ⊢
    rw [List.getElem?_eq_getElem (by omega)]; rfl

theorem map_range_slice (f : Nat → Nat) (n a len : Nat) (h : a + len ≤ n) :
    (((List.range n).map f).drop a).take len = (List.range len).map fun t => f (a + t) := by
  apply List.ext_getElem
  · simp; omega
  · intro i h1 h2
    simp at h1 h2 ⊢

theorem take_drop_append (D : List Nat) (off a b : Nat) :
    (D.drop off).take a ++ (D.drop (off + a)).take b = (D.drop off).take (a + b) := by
  rw [List.take_add, List.drop_drop]

/-! ### block arithmetic -/

theorem div_mod_block (B q r : Nat) (hr : r < B) : (q * B + r) / B = q ∧ (q * B + r) % B = r := by
  have hB : 0 < B := by omega
  constructor
  · rw [Nat.add_comm, Nat.add_mul_div_right _ _ hB, Nat.div_eq_of_lt hr, Nat.zero_add]
  · rw [Nat.add_comm, Nat.add_mul_mod_self_right, Nat.mod_eq_of_lt hr]

theorem succ_mul_le (a b B : Nat) (h : a < b) : a * B + B ≤ b * B := by
  have : (a + 1) * B ≤ b * B := Nat.mul_le_mul_right B h
  rw [Nat.add_mul] at this; omega

/-- row-major block index: `(bi / k)` rows of `k` blocks plus `bi % k` blocks are `bi` blocks -/
theorem block_identity (bi k B : Nat) : (bi / k) * (k * B) + (bi % k) * B = bi * B := by
  have h := Nat.div_add_mod bi k
  have : bi * B = (k * (bi / k) + bi % k) * B := by rw [h]
  rw [this]; grind

theorem lt_of_mul_lt (a b B : Nat) (h : a * B < b * B) : a < b := by
  apply Nat.lt_of_not_le
  intro hle
  have := Nat.mul_le_mul_right B hle
  omega


/-! ### reading one located interval from laid-out shards -/

/-- the shards under consideration: data shard `i` is the layout of `D` -/
def IsLayout (k L S nL len : Nat) (D : List Nat) (shards : List (List Nat)) : Prop :=
  ∀ i, i < k → shards.getD i [] = layoutShard k L S nL len D i

theorem layoutShard_length (k L S nL len : Nat) (D : List Nat) (i : Nat) :
    (layoutShard k L S nL len D i).length = len := by simp [layoutShard]

theorem srcPos_large (k L S nL bi inner t : Nat) (hbi : bi < nL * k) (hin : inner + t < L) :
    srcPos k L S nL (bi % k) (inner + (bi / k) * L + t) = bi * L + inner + t := by
  have hq : bi / k < nL := Nat.div_lt_of_lt_mul (by rw [Nat.mul_comm]; exact hbi)
  have h1 := succ_mul_le (bi / k) nL L hq
  have hp : inner + (bi / k) * L + t = (bi / k) * L + (inner + t) := by omega
  have hdm := div_mod_block L (bi / k) (inner + t) hin
  have hid := block_identity bi k L
  unfold srcPos
  rw [if_pos (by omega), hp, hdm.1, hdm.2]
  omega

theorem srcPos_small (k L S nL bi inner t : Nat) (hin : inner + t < S) :
    srcPos k L S nL (bi % k) (inner + (nL * L + (bi / k) * S) + t) = nL * (k * L) + bi * S + inner + t := by
  have hp : inner + (nL * L + (bi / k) * S) + t - nL * L = (bi / k) * S + (inner + t) := by omega
  have hdm := div_mod_block S (bi / k) (inner + t) hin
  have hid := block_identity bi k S
  unfold srcPos
  rw [if_neg (by omega), hp, hdm.1, hdm.2]
  omega

theorem readInterval_large (k L S nL len : Nat) (D : List Nat) (shards : List (List Nat))
    (hsh : IsLayout k L S nL len D shards) (hk : 0 < k) (hlen : nL * L ≤ len)
    (bi inner size off rows : Nat) (hbi : bi < nL * k) (hsz : inner + size ≤ L)
    (hoff : off = bi * L + inner) (hD : off + size ≤ D.length) :
    readInterval k L S shards ⟨bi, inner, size, true, rows⟩ = some ((D.drop off).take size) := by
  have hq : bi / k < nL := Nat.div_lt_of_lt_mul (by rw [Nat.mul_comm]; exact hbi)
  have h1 := succ_mul_le (bi / k) nL L hq
  have hm : bi % k < k := Nat.mod_lt _ hk
  simp only [readInterval, toShardIdAndOffset, if_true]
  rw [hsh _ hm]
  unfold readExact
  rw [layoutShard_length, if_pos (by omega)]
  unfold layoutShard
  rw [map_range_slice _ _ _ _ (by omega), slice_eq_map D off size hD]
  congr 1
  apply List.map_congr_left
  intro t ht
  have ht' : t < size := by simpa using ht
  rw [srcPos_large k L S nL bi inner t hbi (by omega)]
  congr 1; omega

theorem readInterval_small (k L S nL nS len : Nat) (D : List Nat) (shards : List (List Nat))
    (hsh : IsLayout k L S nL len D shards) (hk : 0 < k) (hlen : len = nL * L + nS * S)
    (hn : D.length ≤ nL * (k * L) + nS * (k * S))
    (bi inner size off : Nat) (hsz : inner + size ≤ S) (hpos : 0 < size)
    (hoff : off = nL * (k * L) + bi * S + inner) (hD : off + size ≤ D.length) :
    readInterval k L S shards ⟨bi, inner, size, false, nL⟩ = some ((D.drop off).take size) := by
  have hbi : bi < nS * k := by
    apply lt_of_mul_lt bi (nS * k) S
    have : nS * k * S = nS * (k * S) := Nat.mul_assoc _ _ _
    omega
  have hq : bi / k < nS := Nat.div_lt_of_lt_mul (by rw [Nat.mul_comm]; exact hbi)
  have h1 := succ_mul_le (bi / k) nS S hq
  have hm : bi % k < k := Nat.mod_lt _ hk
  simp only [readInterval, toShardIdAndOffset, Bool.false_eq_true, if_false]
  rw [hsh _ hm]
  unfold readExact
  rw [layoutShard_length, if_pos (by omega)]
  unfold layoutShard
  rw [map_range_slice _ _ _ _ (by omega), slice_eq_map D off size hD]
  congr 1
  apply List.map_congr_left
  intro t ht
  have ht' : t < size := by simpa using ht
  rw [srcPos_small k L S nL bi inner t (by omega)]
  congr 1; omega


/-! ### the loop of LocateData -/

theorem readIntervals_single (k L S : Nat) (shards : List (List Nat)) (iv : Interval) (d : List Nat)
    (h : readInterval k L S shards iv = some d) : readIntervals k L S shards [iv] = some d := by
  simp [readIntervals, h]

theorem readIntervals_cons (k L S : Nat) (shards : List (List Nat)) (iv : Interval) (rest : List Interval)
    (d ds : List Nat) (h : readInterval k L S shards iv = some d) (hr : readIntervals k L S shards rest = some ds) :
    readIntervals k L S shards (iv :: rest) = some (d ++ ds) := by
  simp [readIntervals, h, hr]

theorem locateLoop_read (k L S nL nS len : Nat) (D : List Nat) (shards : List (List Nat))
    (hsh : IsLayout k L S nL len D shards) (hk : 0 < k) (hS : 0 < S)
    (hlen : len = nL * L + nS * S) (hn : D.length ≤ nL * (k * L) + nS * (k * S)) :
    ∀ fuel size bi isL inner off, size ≤ fuel → off + size ≤ D.length →
      (isL = true → bi < nL * k ∧ inner < L ∧ off = bi * L + inner) →
      (isL = false → inner < S ∧ off = nL * (k * L) + bi * S + inner) →
      readIntervals k L S shards (locateLoop k L S nL fuel size bi isL inner) = some ((D.drop off).take size) := by
  intro fuel
  induction fuel with
  | zero =>
    intro size bi isL inner off hf _ _ _
    have : size = 0 := by omega
    subst this
    simp [locateLoop, readIntervals]
  | succ f ih =>
    intro size bi isL inner off hf hD hLg hSm
    unfold locateLoop
    by_cases h0 : size = 0
    · subst h0; simp [readIntervals]
    · rw [if_neg h0]
      cases isL with
      | false =>
        obtain ⟨hin, hoff⟩ := hSm rfl
        simp only [Bool.false_eq_true, if_false, Bool.false_and]
        by_cases hfit : size ≤ S - inner
        · rw [if_pos hfit]
          exact readIntervals_single _ _ _ _ _ _
            (readInterval_small k L S nL nS len D shards hsh hk hlen hn bi inner size off (by omega) (by omega) hoff hD)
        · rw [if_neg hfit]
          have hiv := readInterval_small k L S nL nS len D shards hsh hk hlen hn bi inner (S - inner) off (by omega) (by omega) hoff (by omega)
          have hrest := ih (size - (S - inner)) (bi + 1) false 0 (off + (S - inner)) (by omega) (by omega)
            (by intro h; cases h) (by
              intro _
              refine ⟨by omega, ?_⟩
              have : (bi + 1) * S = bi * S + S := by rw [Nat.add_mul]; omega
              omega)
          rw [readIntervals_cons _ _ _ _ _ _ _ _ hiv hrest, take_drop_append]
          congr 2; omega
      | true =>
        obtain ⟨hbi, hin, hoff⟩ := hLg rfl
        have hlenL : nL * L ≤ len := by omega
        simp only [if_true, Bool.true_and]
        by_cases hfit : size ≤ L - inner
        · rw [if_pos hfit]
          exact readIntervals_single _ _ _ _ _ _
            (readInterval_large k L S nL len D shards hsh hk hlenL bi inner size off nL hbi (by omega) hoff hD)
        · rw [if_neg hfit]
          have hiv := readInterval_large k L S nL len D shards hsh hk hlenL bi inner (L - inner) off nL hbi (by omega) hoff (by omega)
          have hmul : (bi + 1) * L = bi * L + L := by rw [Nat.add_mul]; omega
          by_cases hsw : bi + 1 = nL * k
          · have hrest := ih (size - (L - inner)) 0 false 0 (off + (L - inner)) (by omega) (by omega)
              (by intro h; cases h) (by
                intro _
                refine ⟨by omega, ?_⟩
                have : nL * k * L = nL * (k * L) := Nat.mul_assoc _ _ _
                rw [hsw] at hmul
                omega)
            simp only [hsw, beq_self_eq_true, if_true]
            rw [readIntervals_cons _ _ _ _ _ _ _ _ hiv hrest, take_drop_append]
            congr 2; omega
          · have hrest := ih (size - (L - inner)) (bi + 1) true 0 (off + (L - inner)) (by omega) (by omega)
              (by intro _; exact ⟨by omega, by omega, by omega⟩) (by intro h; cases h)
            have hne : (bi + 1 == nL * k) = false := by simpa using hsw
            simp only [hne, Bool.false_eq_true, if_false]
            rw [readIntervals_cons _ _ _ _ _ _ _ _ hiv hrest, take_drop_append]
            congr 2; omega


/-! ### the whole read path over laid-out shards -/

theorem ecRead_layout (k L S nL nS : Nat) (D : List Nat) (shards : List (List Nat))
    (hk : 0 < k) (hL : 0 < L) (hS : 0 < S)
    (hsh : IsLayout k L S nL (nL * L + nS * S) D shards)
    (hhead : (shards.headD []).length = nL * L + nS * S)
    (hn : D.length ≤ nL * (k * L) + nS * (k * S))
    (hg : (nS + 1) * S < L)
    (off size : Nat) (hD : off + size ≤ D.length) :
    ecRead k L S shards off size = some ((D.drop off).take size) := by
  have hkL : 0 < L * k := Nat.mul_pos hL hk
  have hnS : (nS + 1) * S = nS * S + S := by rw [Nat.add_mul]; omega
  have hlt : k * (nS * S + S) < k * L := Nat.mul_lt_mul_of_pos_left (by omega) hk
  have hdist : k * (nS * S + S) = k * (nS * S) + k * S := Nat.mul_add _ _ _
  have hcomm : L * k = k * L := Nat.mul_comm _ _
  have hds : k * (nL * L + nS * S) = nL * (L * k) + k * (nS * S) := by grind
  have hrows1 : k * (nL * L + nS * S) / (L * k) = nL := by
    rw [hds]; exact (div_mod_block (L * k) nL (k * (nS * S)) (by omega)).1
  have hrows2 : (k * (nL * L + nS * S) + k * S) / (L * k) = nL := by
    rw [hds, Nat.add_assoc]; exact (div_mod_block (L * k) nL (k * (nS * S) + k * S) (by omega)).1
  unfold ecRead locateData locateOffset
  simp only [hhead, hrows1, hrows2]
  by_cases hlarge : off < nL * (L * k)
  · rw [if_pos hlarge]
    apply locateLoop_read k L S nL nS _ D shards hsh hk hS rfl hn size size (off / L) true (off % L) off (Nat.le_refl _) hD
    · intro _
      refine ⟨?_, Nat.mod_lt _ hL, ?_⟩
      · apply Nat.div_lt_of_lt_mul
        have : L * (nL * k) = nL * (L * k) := by grind
        omega
      · have := Nat.div_add_mod off L
        have h2 : off / L * L = L * (off / L) := Nat.mul_comm _ _
        omega
    · intro h; cases h
  · rw [if_neg hlarge]
    apply locateLoop_read k L S nL nS _ D shards hsh hk hS rfl hn size size ((off - nL * (L * k)) / S) false ((off - nL * (L * k)) % S) off (Nat.le_refl _) hD
    · intro h; cases h
    · intro _
      refine ⟨Nat.mod_lt _ hS, ?_⟩
      have := Nat.div_add_mod (off - nL * (L * k)) S
      have h2 : (off - nL * (L * k)) / S * S = S * ((off - nL * (L * k)) / S) := Nat.mul_comm _ _
      have h3 : nL * (L * k) = nL * (k * L) := by rw [hcomm]
      omega


/-! ### the closed-form layout satisfies the hypotheses of `ecRead_layout` -/

theorem le_ceil_mul (a B : Nat) (hB : 0 < B) : a ≤ ((a + B - 1) / B) * B := by
  have h := Nat.div_add_mod (a + B - 1) B
  have hr := Nat.mod_lt (a + B - 1) hB
  have hc : (a + B - 1) / B * B = B * ((a + B - 1) / B) := Nat.mul_comm _ _
  omega

theorem layout_isLayout (k L S : Nat) (strict : Bool) (D : List Nat) :
    IsLayout k L S (nLargeRows k L strict D.length) (shardLen k L S strict D.length) D (layout k L S strict D) := by
  intro i hi
  unfold layout
  rw [List.getD_eq_getElem?_getD, List.getElem?_map, List.getElem?_range hi]
  rfl

theorem layout_head_length (k L S : Nat) (strict : Bool) (D : List Nat) (hk : 0 < k) :
    ((layout k L S strict D).headD []).length = shardLen k L S strict D.length := by
  unfold layout
  obtain ⟨k', rfl⟩ : ∃ k', k = k' + 1 := ⟨k - 1, by omega⟩
  rw [List.range_succ_eq_map]
  simp [layoutShard]

theorem length_le_rows (k L S : Nat) (strict : Bool) (n : Nat) (hk : 0 < k) (hS : 0 < S) :
    n ≤ nLargeRows k L strict n * (k * L) + nSmallRows k L S strict n * (k * S) := by
  have h := le_ceil_mul (smallArea k L strict n) (k * S) (Nat.mul_pos hk hS)
  unfold nSmallRows
  unfold smallArea at h ⊢
  omega


/-! ### decoder -/

theorem readSegs_append (shards : List (List Nat)) (a b : List (Nat × Nat × Nat)) (da db : List Nat)
    (ha : readSegs shards a = some da) (hb : readSegs shards b = some db) :
    readSegs shards (a ++ b) = some (da ++ db) := by
  induction a generalizing da with
  | nil => simp [readSegs] at ha; subst ha; simpa using hb
  | cons x rest ih =>
    obtain ⟨i, o, l⟩ := x
    simp only [List.cons_append, readSegs] at ha ⊢
    split at ha
    · cases ha
    · rename_i d hd
      split at ha
      · cases ha
      · rename_i ds hds
        rw [ih ds hds]
        simp only [Option.some.injEq] at ha ⊢
        rw [← ha, List.append_assoc]

/-- one segment inside the large area of a laid-out shard -/
theorem readSeg_large (k L S nL len : Nat) (D : List Nat) (shards : List (List Nat))
    (hsh : IsLayout k L S nL len D shards) (hlen : nL * L ≤ len)
    (r i : Nat) (hr : r < nL) (hi : i < k) (hD : r * (k * L) + i * L + L ≤ D.length) :
    readExact (shards.getD i []) (r * L) L = some ((D.drop (r * (k * L) + i * L)).take L) := by
  have h1 := succ_mul_le r nL L hr
  rw [hsh i hi]
  unfold readExact
  rw [layoutShard_length, if_pos (by omega)]
  unfold layoutShard
  rw [map_range_slice _ _ _ _ (by omega), slice_eq_map D _ L hD]
  congr 1
  apply List.map_congr_left
  intro t ht
  have ht' : t < L := by simpa using ht
  have hdm := div_mod_block L r t ht'
  unfold srcPos
  rw [if_pos (by omega), hdm.1, hdm.2]

/-- one segment inside the small area -/
theorem readSeg_small (k L S nL nS len : Nat) (D : List Nat) (shards : List (List Nat))
    (hsh : IsLayout k L S nL len D shards) (hlen : len = nL * L + nS * S)
    (r i l : Nat) (hr : r < nS) (hi : i < k) (hl : l ≤ S)
    (hD : nL * (k * L) + r * (k * S) + i * S + l ≤ D.length) :
    readExact (shards.getD i []) (nL * L + r * S) l = some ((D.drop (nL * (k * L) + r * (k * S) + i * S)).take l) := by
  have h1 := succ_mul_le r nS S hr
  rw [hsh i hi]
  unfold readExact
  rw [layoutShard_length, if_pos (by omega)]
  unfold layoutShard
  rw [map_range_slice _ _ _ _ (by omega), slice_eq_map D _ l hD]
  congr 1
  apply List.map_congr_left
  intro t ht
  have ht' : t < l := by simpa using ht
  have hp : nL * L + r * S + t - nL * L = r * S + t := by omega
  have hdm := div_mod_block S r t (by omega)
  unfold srcPos
  rw [if_neg (by omega), hp, hdm.1, hdm.2]

/-- a whole row of large blocks -/
theorem readSegs_large_row (k L S nL len : Nat) (D : List Nat) (shards : List (List Nat))
    (hsh : IsLayout k L S nL len D shards) (hlen : nL * L ≤ len)
    (r : Nat) (hr : r < nL) (hD : r * (k * L) + k * L ≤ D.length) :
    ∀ j, j ≤ k → readSegs shards ((List.range j).map fun i => (i, r * L, L))
      = some ((D.drop (r * (k * L))).take (j * L)) := by
  intro j
  induction j with
  | zero => intro _; simp [readSegs]
  | succ j ih =>
    intro hj
    have hjL : j * L + L ≤ k * L := succ_mul_le j k L (by omega)
    rw [List.range_succ, List.map_append]
    have hlast : readSegs shards ([j].map fun i => (i, r * L, L)) = some ((D.drop (r * (k * L) + j * L)).take L) := by
      simp only [List.map_cons, List.map_nil, readSegs]
      rw [readSeg_large k L S nL len D shards hsh hlen r j hr (by omega) (by omega)]
      simp
    rw [readSegs_append _ _ _ _ _ (ih (by omega)) hlast, take_drop_append, Nat.add_mul]
    simp

theorem nLargeRows_step (k L : Nat) (strict : Bool) (rem : Nat) (hkL : 0 < k * L) :
    (guardHolds strict rem (k * L) = true →
      nLargeRows k L strict rem = nLargeRows k L strict (rem - k * L) + 1 ∧ k * L ≤ rem) ∧
    (guardHolds strict rem (k * L) = false → nLargeRows k L strict rem = 0) := by
  unfold guardHolds nLargeRows
  cases strict with
  | true =>
    simp only [if_true, decide_eq_true_eq, decide_eq_false_iff_not]
    constructor
    · intro h
      have := Nat.div_eq_sub_div hkL (show k * L ≤ rem - 1 by omega)
      have h2 : rem - 1 - k * L = rem - k * L - 1 := by omega
      rw [this, h2]; omega
    · intro h
      exact Nat.div_eq_of_lt (by omega)
  | false =>
    simp only [Bool.false_eq_true, if_false, decide_eq_true_eq, decide_eq_false_iff_not]
    constructor
    · intro h
      have := Nat.div_eq_sub_div hkL h
      omega
    · intro h
      exact Nat.div_eq_of_lt (by omega)

theorem decLargeLoop_read (k L S nL len n : Nat) (strict : Bool) (D : List Nat) (shards : List (List Nat))
    (hsh : IsLayout k L S nL len D shards) (hlen : nL * L ≤ len) (hkL : 0 < k * L) (hn : n = D.length) :
    ∀ fuel r rem, rem ≤ fuel → r + nLargeRows k L strict rem = nL → rem + r * (k * L) = n →
      readSegs shards (decLargeLoop k L strict fuel (r * L) rem).1
          = some ((D.drop (r * (k * L))).take (nLargeRows k L strict rem * (k * L))) ∧
      (decLargeLoop k L strict fuel (r * L) rem).2.1 = nL * L ∧
      (decLargeLoop k L strict fuel (r * L) rem).2.2 + nL * (k * L) = n := by
  intro fuel
  induction fuel with
  | zero =>
    intro r rem hf hq hrem
    have h0 : rem = 0 := by omega
    subst h0
    have hz : nLargeRows k L strict 0 = 0 := by unfold nLargeRows; cases strict <;> simp
    rw [hz] at hq ⊢
    simp only [decLargeLoop, readSegs, Nat.zero_mul, List.take_zero, true_and]
    have : r = nL := by omega
    subst this; omega
  | succ f ih =>
    intro r rem hf hq hrem
    have hstep := nLargeRows_step k L strict rem hkL
    unfold decLargeLoop
    cases hg : guardHolds strict rem (k * L) with
    | false =>
      have hz := hstep.2 hg
      rw [hz] at hq ⊢
      simp only [Bool.false_eq_true, if_false, readSegs, Nat.zero_mul, List.take_zero, true_and]
      have : r = nL := by omega
      subst this; omega
    | true =>
      obtain ⟨hq1, hge⟩ := hstep.1 hg
      simp only [if_true]
      have hrL : (r + 1) * L = r * L + L := by rw [Nat.add_mul]; omega
      have hrk : (r + 1) * (k * L) = r * (k * L) + k * L := by rw [Nat.add_mul]; omega
      have hih := ih (r + 1) (rem - k * L) (by omega) (by omega) (by omega)
      rw [← hrL]
      refine ⟨?_, hih.2.1, hih.2.2⟩
      have hrow := readSegs_large_row k L S nL len D shards hsh hlen r (by omega) (by omega) k (Nat.le_refl _)
      rw [readSegs_append _ _ _ _ _ hrow hih.1, hrk, take_drop_append, hq1, Nat.add_mul]
      congr 2; omega


theorem decSmallRow_read (k L S nL nS len n r : Nat) (D : List Nat) (shards : List (List Nat))
    (hsh : IsLayout k L S nL len D shards) (hlen : len = nL * L + nS * S) (hS : 0 < S)
    (hn : n = D.length) (hn2 : n ≤ nL * (k * L) + nS * (k * S)) :
    ∀ cnt i rem outpos, i + cnt = k → rem + outpos = n →
      (0 < rem → outpos = nL * (k * L) + r * (k * S) + i * S) →
      readSegs shards (decSmallRow S (nL * L + r * S) cnt i rem).1
          = some ((D.drop outpos).take (rem - (decSmallRow S (nL * L + r * S) cnt i rem).2)) ∧
      (decSmallRow S (nL * L + r * S) cnt i rem).2 = rem - min rem (cnt * S) := by
  intro cnt
  induction cnt with
  | zero => intro i rem outpos _ _ _; simp [decSmallRow, readSegs]
  | succ c ih =>
    intro i rem outpos hik hrem hout
    unfold decSmallRow
    have hcS : (c + 1) * S = c * S + S := by rw [Nat.add_mul]; omega
    by_cases h0 : rem = 0
    · subst h0
      have hih := ih (i + 1) 0 outpos (by omega) hrem (by intro h; omega)
      simp only [Nat.zero_min, Nat.sub_zero, if_true] at hih ⊢
      exact hih
    · have hpos : 0 < rem := by omega
      have ho := hout hpos
      have htr : min rem S ≠ 0 := by omega
      have hiS : (i + 1) * S = i * S + S := by rw [Nat.add_mul]; omega
      have hih := ih (i + 1) (rem - min rem S) (outpos + min rem S) (by omega) (by omega) (by intro h; omega)
      simp only [if_neg htr, readSegs]
      have hr : r < nS := by
        apply lt_of_mul_lt r nS (k * S)
        omega
      rw [readSeg_small k L S nL nS len D shards hsh hlen r i (min rem S) hr (by omega) (by omega) (by omega), hih.1]
      refine ⟨?_, by rw [hih.2]; omega⟩
      simp only [Option.some.injEq]
      rw [← ho, take_drop_append, hih.2]
      congr 1; omega

theorem decSmallLoop_read (k L S nL nS len n : Nat) (D : List Nat) (shards : List (List Nat))
    (hsh : IsLayout k L S nL len D shards) (hlen : len = nL * L + nS * S) (hS : 0 < S) (hk : 0 < k)
    (hn : n = D.length) (hn2 : n ≤ nL * (k * L) + nS * (k * S)) :
    ∀ fuel r rem outpos, rem ≤ fuel → rem + outpos = n →
      (0 < rem → outpos = nL * (k * L) + r * (k * S)) →
      readSegs shards (decSmallLoop k S fuel (nL * L + r * S) rem) = some ((D.drop outpos).take rem) := by
  intro fuel
  induction fuel with
  | zero =>
    intro r rem outpos hf _ _
    have : rem = 0 := by omega
    subst this; simp [decSmallLoop, readSegs]
  | succ f ih =>
    intro r rem outpos hf hrem hout
    unfold decSmallLoop
    by_cases h0 : 0 < rem
    · rw [if_pos h0]
      have ho := hout h0
      have hkS : 0 < k * S := Nat.mul_pos hk hS
      have hrow := decSmallRow_read k L S nL nS len n r D shards hsh hlen hS hn hn2 k 0 rem outpos (by omega) hrem
        (by intro _; omega)
      have hr1 : (r + 1) * S = r * S + S := by rw [Nat.add_mul]; omega
      have hr2 : (r + 1) * (k * S) = r * (k * S) + k * S := by rw [Nat.add_mul]; omega
      have hpos : nL * L + r * S + S = nL * L + (r + 1) * S := by omega
      rw [hpos]
      have hrest := ih (r + 1) (decSmallRow S (nL * L + r * S) k 0 rem).2
        (outpos + (rem - (decSmallRow S (nL * L + r * S) k 0 rem).2))
        (by rw [hrow.2]; omega) (by rw [hrow.2]; omega) (by rw [hrow.2]; intro h; omega)
      rw [readSegs_append _ _ _ _ _ hrow.1 hrest, take_drop_append]
      congr 2; rw [hrow.2]; omega
    · rw [if_neg h0]
      have : rem = 0 := by omega
      subst this; simp [readSegs]

theorem decode_layout (k L S : Nat) (es ds : Bool) (D : List Nat) (hk : 0 < k) (hL : 0 < L) (hS : 0 < S)
    (hagree : nLargeRows k L ds D.length = nLargeRows k L es D.length) :
    decode k L S ds (layout k L S es D) D.length = some D := by
  have hkL : 0 < k * L := Nat.mul_pos hk hL
  have hsh := layout_isLayout k L S es D
  have hn2 := length_le_rows k L S es D.length hk hS
  have hlen : shardLen k L S es D.length = nLargeRows k L es D.length * L + nSmallRows k L S es D.length * S := rfl
  have hlarge := decLargeLoop_read k L S _ _ D.length ds D _ hsh (by omega) hkL rfl D.length 0 D.length
    (Nat.le_refl _) (by omega) (by omega)
  simp only [Nat.zero_mul] at hlarge
  unfold decode decodeSegs
  obtain ⟨h1, h2, h3⟩ := hlarge
  simp only [h2]
  have hsmall := decSmallLoop_read k L S _ _ _ D.length D _ hsh hlen hS hk rfl hn2
    (decLargeLoop k L ds D.length 0 D.length).2.2 0 (decLargeLoop k L ds D.length 0 D.length).2.2
    (nLargeRows k L es D.length * (k * L)) (Nat.le_refl _) (by omega) (by intro _; omega)
  simp only [Nat.zero_mul, Nat.add_zero] at hsmall
  rw [readSegs_append _ _ _ _ _ h1 hsmall, hagree]
  simp only [List.drop_zero, Option.some.injEq]
  have : (decLargeLoop k L ds D.length 0 D.length).2.2 = D.length - nLargeRows k L es D.length * (k * L) := by omega
  rw [this, List.take_of_length_le (l := D.drop _) (by simp), List.take_append_drop]


/-! ### rebuilding lost shards, column by column -/

theorem optColumn_erase (shards : List (List Nat)) (mask : List Bool) (p : Nat) :
    optColumn (eraseShards shards mask) p
      = ((columnAt shards p).zip mask).map fun xb => if xb.2 then some xb.1 else none := by
  unfold optColumn eraseShards columnAt
  rw [List.zip_map_left, List.map_map, List.map_map]
  apply List.map_congr_left
  intro sb _
  obtain ⟨s1, b⟩ := sb
  cases b <;> simp

theorem reconChunk_codewords (cd : Codec) (k m : Nat) (hmds : MDS cd k m)
    (shards : List (List Nat)) (mask : List Bool)
    (hmask : mask.length = k + m) (hlost : (mask.filter (· == false)).length ≤ m) :
    ∀ cnt start, (∀ p, start ≤ p → p < start + cnt → IsCodewordAt cd k m shards p) →
      reconChunk cd (eraseShards shards mask) start cnt
        = some ((List.range cnt).map fun t => columnAt shards (start + t)) := by
  intro cnt
  induction cnt with
  | zero => intro start _; simp [reconChunk]
  | succ c ih =>
    intro start hcw
    obtain ⟨data, hd, hp, hcol⟩ := hcw start (Nat.le_refl _) (by omega)
    have hrec := hmds data mask hd hp hmask hlost
    have hrest := ih (start + 1) (fun p h1 h2 => hcw p (by omega) (by omega))
    unfold reconChunk
    rw [optColumn_erase, hcol, hrec, hrest]
    simp only [Option.some.injEq]
    rw [List.range_succ_eq_map, List.map_cons, List.map_map, ← hcol]
    simp only [Nat.add_zero, List.cons.injEq, true_and]
    apply List.map_congr_left
    intro t _
    simp only [Function.comp]
    congr 1; omega

/-! ### encoder: the loops of encodeDatFile in closed form -/

theorem slicePad_eq_map (D : List Nat) (a len : Nat) :
    slicePad D a len = (List.range len).map fun t => D.getD (a + t) 0 := by
  unfold slicePad
  apply List.ext_getElem
  · simp; omega
  · intro i h1 h2
    simp only [List.length_map, List.length_range] at h2
    simp only [List.getElem_map, List.getElem_range, List.getElem_append, List.length_take, List.length_drop]
    split
    · rename_i h
      simp only [List.getElem_take, List.getElem_drop]
      rw [List.getD_eq_getElem?_getD, List.getElem?_eq_getElem (by omega)]; rfl
    · rename_i h
      simp only [List.getElem_replicate]
      rw [List.getD_eq_getElem?_getD, List.getElem?_eq_none (by omega)]; rfl

theorem flatMap_range_blocks {α : Type} (q B : Nat) (g : Nat → Nat → α) :
    (List.range q).flatMap (fun r => (List.range B).map (g r))
      = (List.range (q * B)).map (fun p => g (p / B) (p % B)) := by
  induction q with
  | zero => simp
  | succ q ih =>
    rw [List.range_succ, List.flatMap_append, ih, Nat.add_mul, Nat.one_mul, List.range_add, List.map_append]
    congr 1
    simp only [List.flatMap_cons, List.flatMap_nil, List.append_nil, List.map_map]
    apply List.map_congr_left
    intro t ht
    have ht' : t < B := by simpa using ht
    have hdm := div_mod_block B q t ht'
    simp only [Function.comp]
    rw [hdm.1, hdm.2]

theorem rowBlock_eq (D : List Nat) (start B buf i : Nat) (hb : 0 < buf) (hd : buf ∣ B) :
    rowBlock D start B buf i = (List.range B).map fun t => D.getD (start + B * i + t) 0 := by
  obtain ⟨q, rfl⟩ := hd
  unfold rowBlock
  rw [Nat.mul_div_cancel_left q hb]
  simp only [slicePad_eq_map]
  rw [flatMap_range_blocks q buf (fun b t => D.getD (start + b * buf + buf * q * i + t) 0), Nat.mul_comm q buf]
  apply List.map_congr_left
  intro p _
  have := Nat.div_add_mod p buf
  have hc : p / buf * buf = buf * (p / buf) := Nat.mul_comm _ _
  congr 1; omega


theorem nLargeRows_zero (k L : Nat) (strict : Bool) : nLargeRows k L strict 0 = 0 := by
  unfold nLargeRows; cases strict <;> simp

theorem encLargeLoop_closed (c : EncCfg) (hkL : 0 < c.k * c.L) :
    ∀ fuel rem p, rem ≤ fuel →
      (encLargeLoop c fuel rem p).1 = (List.range (nLargeRows c.k c.L c.strict rem)).map (fun r => p + r * (c.L * c.k)) ∧
      (encLargeLoop c fuel rem p).2.1 = rem - nLargeRows c.k c.L c.strict rem * (c.L * c.k) ∧
      (encLargeLoop c fuel rem p).2.2 = p + nLargeRows c.k c.L c.strict rem * (c.L * c.k) := by
  have hcomm : c.L * c.k = c.k * c.L := Nat.mul_comm _ _
  intro fuel
  induction fuel with
  | zero =>
    intro rem p hf
    have : rem = 0 := by omega
    subst this
    simp [encLargeLoop, nLargeRows_zero]
  | succ f ih =>
    intro rem p hf
    have hstep := nLargeRows_step c.k c.L c.strict rem hkL
    unfold encLargeLoop
    rw [hcomm]
    cases hg : guardHolds c.strict rem (c.k * c.L) with
    | false =>
      rw [hstep.2 hg]; simp
    | true =>
      obtain ⟨hq, hge⟩ := hstep.1 hg
      have hih := ih (rem - c.k * c.L) (p + c.k * c.L) (by omega)
      rw [hcomm] at hih
      simp only [if_true]
      rw [hq, hih.1, hih.2.1, hih.2.2, List.range_succ_eq_map, Nat.add_mul]
      refine ⟨?_, by omega, by omega⟩
      simp only [List.map_cons, List.map_map, Nat.zero_mul, Nat.add_zero, List.cons.injEq, true_and]
      apply List.map_congr_left
      intro r _
      have hm : (r + 1) * (c.k * c.L) = r * (c.k * c.L) + c.k * c.L := by rw [Nat.add_mul]; omega
      simp only [Function.comp, Nat.succ_eq_add_one, hm]
      omega

theorem ceil_step (rem B : Nat) (hB : 0 < B) (hr : 0 < rem) :
    (rem + B - 1) / B = (rem - B + B - 1) / B + 1 := by
  by_cases h : B ≤ rem
  · have := Nat.div_eq_sub_div hB (show B ≤ rem + B - 1 by omega)
    have h2 : rem + B - 1 - B = rem - B + B - 1 := by omega
    rw [this, h2]
  · have h0 : rem - B = 0 := by omega
    have h1 : rem + B - 1 = (rem - 1) + B := by omega
    rw [h0, h1, Nat.add_div_right _ hB, Nat.div_eq_of_lt (show rem - 1 < B by omega)]
    have : (0 + B - 1) / B = 0 := Nat.div_eq_of_lt (by omega)
    rw [this]

theorem encSmallLoop_closed (c : EncCfg) (hkS : 0 < c.k * c.S) :
    ∀ fuel rem p, rem ≤ fuel →
      encSmallLoop c fuel rem p = (List.range ((rem + c.k * c.S - 1) / (c.k * c.S))).map (fun r => p + r * (c.S * c.k)) := by
  have hcomm : c.S * c.k = c.k * c.S := Nat.mul_comm _ _
  intro fuel
  induction fuel with
  | zero =>
    intro rem p hf
    have : rem = 0 := by omega
    subst this
    have hz : (0 + c.k * c.S - 1) / (c.k * c.S) = 0 := Nat.div_eq_of_lt (by omega)
    rw [hz]; simp [encSmallLoop]
  | succ f ih =>
    intro rem p hf
    unfold encSmallLoop
    by_cases h0 : 0 < rem
    · rw [if_pos h0, hcomm, ih (rem - c.k * c.S) (p + c.k * c.S) (by omega), ceil_step rem _ hkS h0,
        List.range_succ_eq_map]
      simp only [List.map_cons, List.map_map, Nat.zero_mul, Nat.add_zero, List.cons.injEq, true_and]
      apply List.map_congr_left
      intro r _
      have hm : (r + 1) * (c.k * c.S) = r * (c.k * c.S) + c.k * c.S := by rw [Nat.add_mul]; omega
      simp only [Function.comp, Nat.succ_eq_add_one, hcomm, hm]
      omega
    · rw [if_neg h0]
      have : rem = 0 := by omega
      subst this
      have hz : (0 + c.k * c.S - 1) / (c.k * c.S) = 0 := Nat.div_eq_of_lt (by omega)
      rw [hz]; simp


/-- the encoder model (loops, batches, zero fill) produces exactly the closed-form layout -/
theorem dataShard_eq_layout (c : EncCfg) (D : List Nat) (i : Nat)
    (hk : 0 < c.k) (hL : 0 < c.L) (hS : 0 < c.S) (hb : 0 < c.buf) (hbL : c.buf ∣ c.L) (hbS : c.buf ∣ c.S) :
    dataShard c D i = layoutShard c.k c.L c.S (nLargeRows c.k c.L c.strict D.length)
      (shardLen c.k c.L c.S c.strict D.length) D i := by
  have hkL : 0 < c.k * c.L := Nat.mul_pos hk hL
  have hkS : 0 < c.k * c.S := Nat.mul_pos hk hS
  have hcL : c.L * c.k = c.k * c.L := Nat.mul_comm _ _
  have hcS : c.S * c.k = c.k * c.S := Nat.mul_comm _ _
  have hl := encLargeLoop_closed c hkL D.length D.length 0 (Nat.le_refl _)
  unfold dataShard encRows
  simp only [hl.1, hl.2.1, hl.2.2]
  rw [encSmallLoop_closed c hkS _ _ _ (Nat.le_refl _)]
  simp only [List.flatMap_append, List.flatMap_map, List.map_map, Function.comp,
    rowBlock_eq _ _ _ _ _ hb hbL, rowBlock_eq _ _ _ _ _ hb hbS]
  rw [flatMap_range_blocks _ c.L (fun r t => D.getD (0 + r * (c.L * c.k) + c.L * i + t) 0),
    flatMap_range_blocks _ c.S (fun r t => D.getD (0 + nLargeRows c.k c.L c.strict D.length * (c.L * c.k) + r * (c.S * c.k) + c.S * i + t) 0)]
  unfold layoutShard shardLen nSmallRows smallArea
  rw [List.range_add, List.map_append, List.map_map, hcL]
  congr 1
  · apply List.map_congr_left
    intro p hp
    have hp' : p < nLargeRows c.k c.L c.strict D.length * c.L := by simpa using hp
    unfold srcPos
    rw [if_pos hp']
    congr 1
    have : c.L * i = i * c.L := Nat.mul_comm _ _
    omega
  · apply List.map_congr_left
    intro p _
    simp only [Function.comp]
    unfold srcPos
    rw [if_neg (by omega), hcS]
    congr 1
    have : c.S * i = i * c.S := Nat.mul_comm _ _
    have h2 : nLargeRows c.k c.L c.strict D.length * c.L + p - nLargeRows c.k c.L c.strict D.length * c.L = p := by omega
    rw [h2]
    omega

end SwV.Lemmas.C06
