/-
C27 — lemmas for the RECURSIVE listing (delimiter ""): closed form of the receive loop when
directories are descended into, of a sub-directory listing, and of one page from a marker that
is empty, a top-level file name, or `dir/name`.
-/
import SwV.Model.C27
import SwV.Lemmas.C19
import SwV.Lemmas.C27
namespace SwV.Lemmas.C27
open SwV.Model.C19 (Bytes ltB isPrefix)
open SwV.Model.C27
open SwV.Lemmas.C19

/-! ## the receive loop, entries yielding streams of (next-marker, key) pairs -/

abbrev Pair := Bytes × Bytes

/-- result of a sub-listing that emits the pairs `P` under the budget `b` -/
def subRes (P : List Pair) (b : Nat) : Res :=
  { counter := (P.take b).length, trunc := decide (P.length > b),
    next := (((P.take b).getLast?).map (·.1)).getD [], keys := (P.take b).map (·.2), pfxs := [], deleted := [] }

/-- what one entry of the listed directory contributes -/
def entryPairs (r : Bytes) (dirP : Ent → List Pair) (e : Ent) : List Pair :=
  if e.expired then (dirP e).map (fun p => (e.key ++ [slash] ++ p.1, p.2)) else [(e.key, keyOf r e.key)]

/-- the loop's state after emitting the first `b` pairs of `Z` -/
def afterPairs (st : Res) (Z : List Pair) (b : Nat) : Res :=
  { counter := st.counter + (Z.take b).length, trunc := st.trunc || decide (Z.length > b),
    next := (((Z.take b).getLast?).map (·.1)).getD st.next, keys := st.keys ++ (Z.take b).map (·.2),
    pfxs := st.pfxs, deleted := st.deleted }

theorem res_ext {a b : Res} (h1 : a.counter = b.counter) (h2 : a.trunc = b.trunc) (h3 : a.next = b.next)
    (h4 : a.keys = b.keys) (h5 : a.pfxs = b.pfxs) (h6 : a.deleted = b.deleted) : a = b := by
  cases a; cases b; simp_all

theorem afterPairs_zero (st : Res) (Z : List Pair) (h : Z ≠ []) : afterPairs st Z 0 = { st with trunc := true } := by
  have : Z.length > 0 := List.length_pos_iff.2 h
  simp [afterPairs, this]

theorem afterPairs_nil (st : Res) (b : Nat) : afterPairs st [] b = st := by
  simp [afterPairs]

/-- an entry whose pairs all fit -/
theorem afterPairs_append_fit (st : Res) (A Z : List Pair) (b : Nat) (h : A.length ≤ b) :
    afterPairs st (A ++ Z) b =
      afterPairs { st with counter := st.counter + A.length, next := ((A.getLast?).map (·.1)).getD st.next,
                           keys := st.keys ++ A.map (·.2) } Z (b - A.length) := by
  have ht : (A ++ Z).take b = A ++ Z.take (b - A.length) := by
    rw [List.take_append, List.take_of_length_le h]
  apply res_ext <;> simp only [afterPairs, ht, List.length_append, List.map_append, List.append_assoc, Nat.add_assoc]
  · congr 1; exact decide_eq_decide.2 (by omega)
  · rw [List.getLast?_append]
    cases h1 : (Z.take (b - A.length)).getLast? with
    | none => simp
    | some x => simp

/-- an entry whose pairs exceed the budget -/
theorem afterPairs_append_over (st : Res) (A Z : List Pair) (b : Nat) (h : A.length > b) :
    afterPairs st (A ++ Z) b =
      { st with counter := st.counter + (A.take b).length, trunc := true,
                next := (((A.take b).getLast?).map (·.1)).getD st.next, keys := st.keys ++ (A.take b).map (·.2) } := by
  have ht : (A ++ Z).take b = A.take b := by
    rw [List.take_append]
    have : b - A.length = 0 := by omega
    simp [this]
  have hl : b < A.length + Z.length := by omega
  simp [afterPairs, ht, hl]

theorem take_ne_nil {α : Type} (l : List α) (n : Nat) (hn : 0 < n) (hl : l ≠ []) : l.take n ≠ [] := by
  cases l with
  | nil => exact absurd rfl hl
  | cons a l => cases n with
    | zero => omega
    | succ n => simp

theorem recv_pairs (ks : List (List Bytes)) (sub : Bytes → Nat → Res) (r : Bytes) (dirP : Ent → List Pair) (maxKeys : Nat) :
    ∀ (L : List Ent) (st : Res),
      (∀ e ∈ L, e.expired = true → e.key ≠ uploadsName ∧ dirP e ≠ [] ∧
        ∀ b, 0 < b → sub (r ++ [slash] ++ e.key) b = subRes (dirP e) b) →
      recvLoop ks sub false r maxKeys L st = afterPairs st (L.flatMap (entryPairs r dirP)) (maxKeys - st.counter) := by
  intro L
  induction L with
  | nil => intro st _; simp [recvLoop, afterPairs_nil]
  | cons e rest ih =>
    intro st hd
    have hde := hd e List.mem_cons_self
    have hdr : ∀ x ∈ rest, x.expired = true → x.key ≠ uploadsName ∧ dirP x ≠ [] ∧
        ∀ b, 0 < b → sub (r ++ [slash] ++ x.key) b = subRes (dirP x) b :=
      fun x hx => hd x (List.mem_cons_of_mem _ hx)
    have hne : entryPairs r dirP e ≠ [] := by
      unfold entryPairs
      cases hexp : e.expired with
      | false => simp
      | true => simp [(hde hexp).2.1]
    rw [List.flatMap_cons]
    unfold recvLoop
    by_cases hc : st.counter ≥ maxKeys
    · have hk : maxKeys - st.counter = 0 := by omega
      simp only [hc, if_true, hk]
      rw [afterPairs_zero]
      simp [hne]
    · simp only [hc, if_false]
      have hb : 0 < maxKeys - st.counter := by omega
      cases hexp : e.expired with
      | false =>
        have hep : entryPairs r dirP e = [(e.key, keyOf r e.key)] := by simp [entryPairs, hexp]
        simp only [Bool.false_eq_true, if_false]
        rw [ih _ hdr, hep, afterPairs_append_fit _ _ _ _ (by simp only [List.length_singleton]; omega)]
        simp only [List.length_singleton, List.getLast?_singleton, Option.map_some, Option.getD_some, List.map_cons,
          List.map_nil]
        congr 1
      | true =>
        obtain ⟨hnu, hnn, hsub⟩ := hde hexp
        have hep : entryPairs r dirP e = (dirP e).map (fun p => (e.key ++ [slash] ++ p.1, p.2)) := by
          simp [entryPairs, hexp]
        simp only [if_true, hnu, if_false, Bool.not_false]
        rw [hsub _ hb]
        by_cases hover : (dirP e).length > maxKeys - st.counter
        · have : (subRes (dirP e) (maxKeys - st.counter)).trunc = true := by simp [subRes, hover]
          simp only [this, if_true]
          rw [hep, afterPairs_append_over _ _ _ _ (by simpa using hover)]
          obtain ⟨x, hl⟩ : ∃ x, ((dirP e).take (maxKeys - st.counter)).getLast? = some x := by
            cases hl : ((dirP e).take (maxKeys - st.counter)).getLast? with
            | none => exact absurd (List.getLast?_eq_none_iff.1 hl) (take_ne_nil _ _ hb hnn)
            | some x => exact ⟨x, rfl⟩
          apply res_ext <;>
            simp only [subRes, List.append_nil, ← List.map_take, List.length_map, List.map_map, List.getLast?_map, hl,
              Option.map_some, Option.getD_some]
          rfl
        · have hfit : (dirP e).length ≤ maxKeys - st.counter := by omega
          have : (subRes (dirP e) (maxKeys - st.counter)).trunc = false := by simp [subRes, hover]
          simp only [this, Bool.false_eq_true, if_false]
          rw [ih _ hdr, hep, afterPairs_append_fit _ _ _ _ (by simpa using hfit)]
          obtain ⟨x, hl⟩ : ∃ x, (dirP e).getLast? = some x := by
            cases hl : (dirP e).getLast? with
            | none => exact absurd (List.getLast?_eq_none_iff.1 hl) hnn
            | some x => exact ⟨x, rfl⟩
          simp only [subRes, List.take_of_length_le hfit, List.append_nil, List.length_map, List.map_map,
            List.getLast?_map, hl, Option.map_some, Option.getD_some]
          have hsub2 : maxKeys - (st.counter + (dirP e).length) = maxKeys - st.counter - (dirP e).length := by omega
          have hcomp : ((fun x : Pair => x.snd) ∘ fun p : Pair => (e.key ++ [slash] ++ p.fst, p.snd)) = fun x => x.snd := by
            funext p; rfl
          rw [hsub2, hcomp]

/-! ## the `maxKeys+1` request window does not matter when every entry yields at least one pair -/

theorem flat_window {α β : Type} (f : α → List β) : ∀ (D : List α) (b w : Nat), (∀ e ∈ D, f e ≠ []) → b < w →
    ((D.take w).flatMap f).take b = (D.flatMap f).take b ∧
    (((D.take w).flatMap f).length > b ↔ (D.flatMap f).length > b) := by
  intro D
  induction D with
  | nil => intro b w _ _; simp
  | cons e D ih =>
    intro b w hne hbw
    obtain ⟨w', rfl⟩ : ∃ w', w = w' + 1 := ⟨w - 1, by omega⟩
    have hk : 0 < (f e).length := List.length_pos_iff.2 (hne e List.mem_cons_self)
    have hne' : ∀ x ∈ D, f x ≠ [] := fun x hx => hne x (List.mem_cons_of_mem _ hx)
    simp only [List.take_succ_cons, List.flatMap_cons, List.take_append, List.length_append]
    by_cases hover : (f e).length > b
    · have h0 : b - (f e).length = 0 := by omega
      simp only [h0, List.take_zero]
      exact ⟨trivial, by constructor <;> intro _ <;> omega⟩
    · obtain ⟨h1, h2⟩ := ih (b - (f e).length) w' hne' (by omega)
      rw [h1]
      refine ⟨rfl, ?_⟩
      constructor
      · intro h; have := h2.1 (by omega); omega
      · intro h; have := h2.2 (by omega); omega

theorem afterPairs_window (st : Res) (f : Ent → List Pair) (D : List Ent) (b w : Nat) (hne : ∀ e ∈ D, f e ≠ [])
    (hbw : b < w) : afterPairs st ((D.take w).flatMap f) b = afterPairs st (D.flatMap f) b := by
  obtain ⟨h1, h2⟩ := flat_window f D b w hne hbw
  unfold afterPairs
  rw [h1]
  congr 2
  exact decide_eq_decide.2 h2

/-! ## path facts -/

theorem noslash_of_cut : ∀ (d : Bytes), cutFirstSlash d = none → ∀ c ∈ d, c ≠ slash := by
  intro d
  induction d with
  | nil => intro _ c hc; cases hc
  | cons a d ih =>
    intro h c hc
    simp only [cutFirstSlash] at h
    by_cases ha : a = slash
    · simp [ha] at h
    · simp only [ha, if_false] at h
      cases hcd : cutFirstSlash d with
      | some p => simp [hcd] at h
      | none =>
        cases List.mem_cons.1 hc with
        | inl h1 => subst h1; exact ha
        | inr h1 => exact ih hcd c h1

theorem cut_of_noslash : ∀ (d : Bytes), (∀ c ∈ d, c ≠ slash) → cutFirstSlash d = none := by
  intro d
  induction d with
  | nil => intro _; rfl
  | cons a d ih =>
    intro h
    have ha : a ≠ slash := h a List.mem_cons_self
    simp only [cutFirstSlash, ha, if_false, ih (fun c hc => h c (List.mem_cons_of_mem _ hc))]

/-- a marker `d/x` splits at the first slash into the directory name and the rest -/
theorem cut_dir_marker : ∀ (d x : Bytes), cutFirstSlash d = none → cutFirstSlash (d ++ [slash] ++ x) = some (d, x) := by
  intro d
  induction d with
  | nil => intro x _; simp [cutFirstSlash]
  | cons a d ih =>
    intro x h
    have hns := noslash_of_cut _ h
    have ha : a ≠ slash := hns a List.mem_cons_self
    have hd : cutFirstSlash d = none := cut_of_noslash d (fun c hc => hns c (List.mem_cons_of_mem _ hc))
    have := ih x hd
    simp only [List.cons_append, cutFirstSlash, ha, if_false] at this ⊢
    rw [this]

theorem splitSlash_noslash : ∀ (d : Bytes), (∀ c ∈ d, c ≠ slash) → splitSlash d = [d] := by
  intro d
  induction d with
  | nil => intro _; rfl
  | cons a d ih =>
    intro h
    have ha : a ≠ slash := h a List.mem_cons_self
    simp only [splitSlash, ih (fun c hc => h c (List.mem_cons_of_mem _ hc)), ha, if_false]

theorem dirEntries_root (ks : List (List Bytes)) : dirEntries ks [] = children ks [] := by
  simp [dirEntries, dirSegments]

theorem dirEntries_sub (ks : List (List Bytes)) (d : Bytes) (hne : d ≠ []) (hc : cutFirstSlash d = none) :
    dirEntries ks (slash :: d) = children ks [d] := by
  have hns := noslash_of_cut d hc
  have hlast : (slash :: d).getLast? ≠ some slash := by
    intro h
    have : slash ∈ d := by
      cases d with
      | nil => exact absurd rfl hne
      | cons a d =>
        rw [List.getLast?_cons_cons] at h
        exact List.mem_of_getLast? h
    exact hns slash this rfl
  have hany : ([d].any fun s => decide (s = [])) = false := by simp [hne]
  simp only [dirEntries, dirSegments, hlast, if_false, if_true, splitSlash_noslash d hns, hany, Bool.false_eq_true]

theorem keyOf_sub (d n : Bytes) : keyOf (slash :: d) n = d ++ [slash] ++ n := by
  simp [keyOf]

theorem isPrefix_nil (k : Bytes) : isPrefix [] k = true := by
  cases k <;> rfl

/-! ## a sub-directory that holds only files -/

def filePairs (d : Bytes) (S : List Ent) : List Pair := S.map fun c => (c.key, d ++ [slash] ++ c.key)

structure FilesDir (S : List Ent) : Prop where
  sorted : SortedDb S
  files : ∀ c ∈ S, c.expired = false
  names : ∀ c ∈ S, c.key ≠ []

theorem sub_listing (ks : List (List Bytes)) (d : Bytes) (hne : d ≠ []) (hc : cutFirstSlash d = none)
    (hS : FilesDir (children ks [d])) (fuel b : Nat) (hb : 0 < b) (m : Bytes) (hm : cutFirstSlash m = none) :
    doList ks false (fuel + 1) (slash :: d) [] b m =
      subRes (filePairs d ((children ks [d]).filter fun c => ltB m c.key)) b := by
  have hb0 : b ≠ 0 := by omega
  unfold doList
  simp only [hb0, if_false, hm, dirEntries_sub ks d hne hc, List.nil_eq, reduceCtorEq, false_and]
  rw [listPrim_sorted _ hS.sorted [] m _ hS.names (Or.inr (isPrefix_nil m))]
  have hall : (children ks [d]).filter (fun e => isPrefix [] e.key) = children ks [d] :=
    List.filter_eq_self.2 (fun e _ => isPrefix_nil _)
  rw [hall]
  have hfiles : ∀ e ∈ ((children ks [d]).filter fun c => ltB m c.key), e.expired = false :=
    fun e he => hS.files e (List.mem_filter.1 he).1
  rw [recv_pairs ks _ (slash :: d) (fun _ => []) b]
  · rw [afterPairs_window]
    · have hz : ((children ks [d]).filter fun c => ltB m c.key).flatMap (entryPairs (slash :: d) fun _ => []) =
          filePairs d ((children ks [d]).filter fun c => ltB m c.key) := by
        generalize ((children ks [d]).filter fun c => ltB m c.key) = X at hfiles
        induction X with
        | nil => rfl
        | cons e X ih =>
          have he := hfiles e List.mem_cons_self
          simp only [List.flatMap_cons, entryPairs, he, Bool.false_eq_true, if_false, filePairs, List.map_cons, keyOf_sub]
          rw [ih (fun x hx => hfiles x (List.mem_cons_of_mem _ hx))]
          rfl
      rw [hz]
      simp [afterPairs, subRes]
    · intro e he
      simp [entryPairs, hfiles e he]
    · simp
  · intro e he hexp
    have := hfiles e (List.mem_of_mem_take he)
    rw [this] at hexp; cases hexp

/-! ## trees of depth ≤ 2 -/

/-- The inputs of the recursive theorem: the top directory is sorted with non-empty, slash-free names, holds no
    `.uploads` DIRECTORY, and every directory in it is non-empty and holds only files (depth ≤ 2 = no marker with
    two '/' = outside the class `nested-marker-drops-sub-count`). -/
structure Tree2 (ks : List (List Bytes)) : Prop where
  sorted : SortedDb (children ks [])
  names : ∀ e ∈ children ks [], e.key ≠ [] ∧ cutFirstSlash e.key = none
  noUploads : ∀ e ∈ children ks [], e.expired = true → e.key ≠ uploadsName
  sub : ∀ e ∈ children ks [], e.expired = true → children ks [e.key] ≠ [] ∧ FilesDir (children ks [e.key]) ∧
    ∀ c ∈ children ks [e.key], cutFirstSlash c.key = none

/-- the object keys below one entry of the top directory, in listing order -/
def entryKeys (ks : List (List Bytes)) (e : Ent) : List Bytes :=
  if e.expired then (children ks [e.key]).map (fun c => e.key ++ [slash] ++ c.key) else [e.key]

/-- depth-first key stream of a list of top-level entries -/
def streamOf (ks : List (List Bytes)) (L : List Ent) : List Bytes := L.flatMap (entryKeys ks)

/-- every object key of the bucket, in listing order -/
def allKeys (ks : List (List Bytes)) : List Bytes := streamOf ks (children ks [])

def topDirP (ks : List (List Bytes)) (e : Ent) : List Pair := filePairs e.key (children ks [e.key])

theorem entryPairs_top (ks : List (List Bytes)) (e : Ent) :
    (entryPairs [] (topDirP ks) e).map (·.1) = entryKeys ks e ∧ (entryPairs [] (topDirP ks) e).map (·.2) = entryKeys ks e := by
  unfold entryPairs entryKeys topDirP filePairs
  cases e.expired <;> simp [keyOf_root]

theorem pairs_top (ks : List (List Bytes)) (L : List Ent) :
    (L.flatMap (entryPairs [] (topDirP ks))).map (·.1) = streamOf ks L ∧
    (L.flatMap (entryPairs [] (topDirP ks))).map (·.2) = streamOf ks L := by
  induction L with
  | nil => exact ⟨rfl, rfl⟩
  | cons e L ih =>
    simp only [List.flatMap_cons, List.map_append, streamOf, (entryPairs_top ks e).1, (entryPairs_top ks e).2]
    exact ⟨by rw [ih.1]; rfl, by rw [ih.2]; rfl⟩

/-- what one page must look like when `Z` is the stream of keys still to be listed -/
def pageOfStream (maxKeys : Nat) (Z : List Bytes) : Page :=
  ⟨decide (Z.length > maxKeys), if Z.length > maxKeys then ((Z.take maxKeys).getLast?).getD [] else [], Z.take maxKeys, []⟩

theorem filter_ltB_nil (L : List Ent) (h : ∀ e ∈ L, e.key ≠ []) : L.filter (fun e => ltB [] e.key) = L :=
  List.filter_eq_self.2 (fun e he => (ltB_nil e.key).2 (h e he))

/-- the hypothesis `recv_pairs` needs about the recursive call, for entries of the top directory -/
theorem top_sub_ok (ks : List (List Bytes)) (h : Tree2 ks) (fuel : Nat) :
    ∀ e ∈ children ks [], e.expired = true → e.key ≠ uploadsName ∧ topDirP ks e ≠ [] ∧
      ∀ b, 0 < b → (fun r' budget => doList ks false (fuel + 1) r' [] budget []) ([] ++ [slash] ++ e.key) b =
        subRes (topDirP ks e) b := by
  intro e he hexp
  obtain ⟨hne, hfd, _⟩ := h.sub e he hexp
  refine ⟨h.noUploads e he hexp, by simp [topDirP, filePairs, hne], ?_⟩
  intro b hb
  have := sub_listing ks e.key (h.names e he).1 (h.names e he).2 hfd fuel b hb [] rfl
  simp only [List.nil_append, List.singleton_append]
  rw [this, filter_ltB_nil _ hfd.names]
  rfl

theorem entryPairs_ne_nil (ks : List (List Bytes)) (h : Tree2 ks) : ∀ e ∈ children ks [], entryPairs [] (topDirP ks) e ≠ [] := by
  intro e he
  unfold entryPairs
  cases hexp : e.expired with
  | false => simp
  | true => simp [topDirP, filePairs, (h.sub e he hexp).1]

/-- the final step of `listFiler` and `pageOf`, for a loop state reached from pairs -/
theorem ite_deleted (res : Res) : (if res.trunc then res else { res with next := [] }).deleted = res.deleted := by
  cases h : res.trunc <;> simp

theorem page_of_afterPairs (st : Res) (Z : List Pair) (Zs : List Bytes) (mk : Nat) (hmk : 0 < mk)
    (h1 : Z.map (·.1) = Zs) (h2 : Z.map (·.2) = Zs) (hc : st.counter = 0) (hp : st.pfxs = []) (ht : st.trunc = false)
    (hk : st.keys = []) :
    pageOf (let res := afterPairs st Z (mk - st.counter); if res.trunc then res else { res with next := [] }) =
      pageOfStream mk Zs := by
  subst h2
  have hl : Z.length = (Z.map (·.2)).length := by rw [List.length_map]
  have hlast : (((Z.take mk).getLast?).map (·.1)) = ((Z.map (·.2)).take mk).getLast? := by
    rw [← h1, ← List.map_take, List.getLast?_map]
  simp only [hc, Nat.sub_zero]
  by_cases hbig : (Z.map (·.2)).length > mk
  · have hb' : Z.length > mk := by omega
    have hne : ((Z.map (·.2)).take mk).getLast? ≠ none := by
      intro h0
      exact take_ne_nil _ mk hmk (by intro h3; rw [h3] at hbig; simp at hbig) (List.getLast?_eq_none_iff.1 h0)
    obtain ⟨l, hl'⟩ := Option.ne_none_iff_exists'.1 hne
    simp only [afterPairs, hb', decide_true, Bool.or_true, if_true, pageOf, pageOfStream, hbig, hlast, hl',
      Option.getD_some, hk, List.nil_append, hp, List.map_take]
  · have hb' : ¬ Z.length > mk := by omega
    simp [afterPairs, pageOf, pageOfStream, ht, hk, hp, hb', hbig, List.map_take]

theorem listFiler_root (ks : List (List Bytes)) (mk : Nat) (m : Bytes) :
    listFiler ks [] mk m false =
      (let res := doList ks false 12 [] [] mk m; if res.trunc then res else { res with next := [] }) := by
  unfold listFiler
  have h1 : splitLastSlash [] = ([], []) := by decide
  rw [h1]
  rfl

/-- PAGE from a marker without '/' (empty, or the name of a top-level file) -/
theorem page_top (ks : List (List Bytes)) (h : Tree2 ks) (mk : Nat) (hmk : 0 < mk) (m : Bytes) (hm : cutFirstSlash m = none) :
    pageOf (listFiler ks [] mk m false) =
      pageOfStream mk (streamOf ks ((children ks []).filter fun e => ltB m e.key)) ∧
    (listFiler ks [] mk m false).deleted = [] := by
  have hmk0 : mk ≠ 0 := by omega
  have hnames : ∀ e ∈ children ks [], e.key ≠ [] := fun e he => (h.names e he).1
  have hdo : doList ks false 12 [] [] mk m =
      afterPairs {} (((children ks []).filter fun e => ltB m e.key).flatMap (entryPairs [] (topDirP ks))) (mk - 0) := by
    show doList ks false (11 + 1) [] [] mk m = _
    unfold doList
    simp only [hmk0, if_false, hm, dirEntries_root, List.nil_eq, reduceCtorEq, false_and]
    rw [listPrim_sorted _ h.sorted [] m _ hnames (Or.inr (isPrefix_nil m))]
    have hall : (children ks []).filter (fun e => isPrefix [] e.key) = children ks [] :=
      List.filter_eq_self.2 (fun e _ => isPrefix_nil _)
    rw [hall, recv_pairs ks _ [] (topDirP ks) mk]
    · exact afterPairs_window _ _ _ _ _ (fun e he => entryPairs_ne_nil ks h e (List.mem_filter.1 he).1) (by simp)
    · intro e he
      exact top_sub_ok ks h 10 e (List.mem_filter.1 (List.mem_of_mem_take he)).1
  rw [listFiler_root, hdo]
  constructor
  · exact page_of_afterPairs {} _ _ mk hmk (pairs_top ks _).1 (pairs_top ks _).2 rfl rfl rfl rfl
  · rw [ite_deleted]; rfl

/-! ## a page from a marker `dir/name` -/

theorem removeDirs_nil' (ks : List (List Bytes)) : removeDirs ks [] = ks := by
  unfold removeDirs; simp

theorem doList_dir (ks : List (List Bytes)) (h : Tree2 ks) (mk : Nat) (hmk : 0 < mk) (d : Ent) (hd : d ∈ children ks [])
    (hexp : d.expired = true) (x : Bytes) (hx : cutFirstSlash x = none) :
    doList ks false 12 [] [] mk (d.key ++ [slash] ++ x) =
      (let s := subRes (filePairs d.key ((children ks [d.key]).filter fun c => ltB x c.key)) mk
       afterPairs { counter := 0, trunc := s.trunc, next := d.key ++ [slash] ++ s.next, keys := s.keys, pfxs := s.pfxs, deleted := s.deleted }
         (((children ks []).filter fun e => ltB d.key e.key).flatMap (entryPairs [] (topDirP ks))) (mk - s.counter - 0)) := by
  have hmk0 : mk ≠ 0 := by omega
  have hnames : ∀ e ∈ children ks [], e.key ≠ [] := fun e he => (h.names e he).1
  obtain ⟨hne, hfd, _⟩ := h.sub d hd hexp
  show doList ks false (11 + 1) [] [] mk _ = _
  unfold doList
  simp only [hmk0, if_false, cut_dir_marker d.key x (h.names d hd).2, List.nil_eq, reduceCtorEq, false_and, List.nil_append,
    List.singleton_append]
  rw [sub_listing ks d.key (h.names d hd).1 (h.names d hd).2 hfd 10 mk hmk x hx]
  have hdel : (subRes (filePairs d.key ((children ks [d.key]).filter fun c => ltB x c.key)) mk).deleted = [] := rfl
  simp only [hdel, removeDirs_nil', dirEntries_root]
  rw [listPrim_sorted _ h.sorted [] d.key _ hnames (Or.inr (isPrefix_nil _))]
  have hall : (children ks []).filter (fun e => isPrefix [] e.key) = children ks [] :=
    List.filter_eq_self.2 (fun e _ => isPrefix_nil _)
  rw [hall, recv_pairs ks _ [] (topDirP ks) _]
  · exact afterPairs_window _ _ _ _ _ (fun e he => entryPairs_ne_nil ks h e (List.mem_filter.1 he).1) (by simp)
  · intro e he
    exact top_sub_ok ks h 10 e (List.mem_filter.1 (List.mem_of_mem_take he)).1

theorem getLast?_take_map {α β : Type} (f : α → β) (l : List α) (n : Nat) :
    ((l.map f).take n).getLast? = ((l.take n).getLast?).map f := by
  rw [← List.map_take, List.getLast?_map]

theorem page_of_two (P Z2 : List Pair) (dk : Bytes) (mk : Nat) (hmk : 0 < mk) (Zs1 Zs2 : List Bytes)
    (hP1 : P.map (fun p => dk ++ [slash] ++ p.1) = Zs1) (hP2 : P.map (·.2) = Zs1)
    (h1 : Z2.map (·.1) = Zs2) (h2 : Z2.map (·.2) = Zs2) :
    pageOf (let res := (let s := subRes P mk
        afterPairs { counter := 0, trunc := s.trunc, next := dk ++ [slash] ++ s.next, keys := s.keys, pfxs := s.pfxs,
                     deleted := s.deleted } Z2 (mk - s.counter - 0))
      if res.trunc then res else { res with next := [] }) = pageOfStream mk (Zs1 ++ Zs2) := by
  have hl1 : P.length = Zs1.length := by rw [← hP2, List.length_map]
  have hl2 : Z2.length = Zs2.length := by rw [← h2, List.length_map]
  have hkeys1 : (P.take mk).map (·.2) = Zs1.take mk := by rw [← hP2, List.map_take]
  by_cases hcase : Zs1.length ≥ mk
  · -- the page is filled inside the directory
    have hc : (P.take mk).length = mk := by rw [List.length_take]; omega
    have htake : (Zs1 ++ Zs2).take mk = Zs1.take mk := by
      rw [List.take_append]; have : mk - Zs1.length = 0 := by omega
      simp [this]
    obtain ⟨l, hl⟩ : ∃ l, (P.take mk).getLast? = some l := by
      cases hl : (P.take mk).getLast? with
      | none =>
        have := congrArg List.length (List.getLast?_eq_none_iff.1 hl)
        rw [hc] at this; simp at this; omega
      | some l => exact ⟨l, rfl⟩
    have hlast : (Zs1.take mk).getLast? = some (dk ++ [slash] ++ l.1) := by
      rw [← hP1, getLast?_take_map, hl]; rfl
    by_cases hbig : (Zs1 ++ Zs2).length > mk
    · have htr : (decide (P.length > mk) || decide (Z2.length > 0)) = true := by
        simp only [List.length_append] at hbig
        simp only [Bool.or_eq_true, decide_eq_true_eq]; omega
      simp only [subRes, hc, Nat.sub_self, Nat.sub_zero, afterPairs, List.take_zero, List.length_nil, Nat.add_zero, htr,
        if_true, pageOf, pageOfStream, hbig, decide_true, htake, hlast, Option.getD_some, hl, Option.map_some,
        List.getLast?_nil, Option.map_none, Option.getD_none, List.map_nil, List.append_nil, hkeys1]
    · have htr : (decide (P.length > mk) || decide (Z2.length > 0)) = false := by
        simp only [List.length_append] at hbig
        simp only [Bool.or_eq_false_iff, decide_eq_false_iff_not]; omega
      simp only [subRes, hc, Nat.sub_self, Nat.sub_zero, afterPairs, List.take_zero, List.length_nil, Nat.add_zero, htr,
        Bool.false_eq_true, if_false, pageOf, pageOfStream, hbig, decide_false, htake, List.map_nil, List.append_nil, hkeys1]
  · -- the directory's rest fits; continue in the top directory
    have hlt : Zs1.length < mk := by omega
    have hPt : P.take mk = P := List.take_of_length_le (by omega)
    have htake : (Zs1 ++ Zs2).take mk = Zs1 ++ Zs2.take (mk - Zs1.length) := by
      rw [List.take_append, List.take_of_length_le (by omega)]
    have hk2 : (Z2.take (mk - P.length)).map (·.2) = Zs2.take (mk - Zs1.length) := by rw [← h2, List.map_take, hl1]
    have hnot : ¬ P.length > mk := by omega
    by_cases hbig : (Zs1 ++ Zs2).length > mk
    · have hz2 : Z2.length > mk - P.length := by simp only [List.length_append] at hbig; omega
      obtain ⟨l, hl⟩ : ∃ l, (Z2.take (mk - P.length)).getLast? = some l := by
        cases hl : (Z2.take (mk - P.length)).getLast? with
        | none =>
          exact absurd (List.getLast?_eq_none_iff.1 hl)
            (take_ne_nil _ _ (by omega) (by intro h0; rw [h0] at hz2; simp at hz2))
        | some l => exact ⟨l, rfl⟩
      have hlast2 : (Zs2.take (mk - Zs1.length)).getLast? = some l.1 := by
        rw [← h1, getLast?_take_map, ← hl1, hl]; rfl
      have hlast : ((Zs1 ++ Zs2).take mk).getLast? = some l.1 := by
        rw [htake, List.getLast?_append, hlast2]; rfl
      rw [htake] at hlast
      simp only [subRes, hPt, Nat.sub_zero, afterPairs, hnot, decide_false, Bool.false_or, hz2, decide_true, if_true, pageOf,
        pageOfStream, hbig, hlast, Option.getD_some, hl, Option.map_some, Nat.zero_add, htake, hP2, hk2]
    · have hz2 : ¬ Z2.length > mk - P.length := by simp only [List.length_append] at hbig; omega
      simp only [subRes, hPt, Nat.sub_zero, afterPairs, hnot, decide_false, Bool.false_or, hz2, Bool.false_eq_true, if_false,
        pageOf, pageOfStream, hbig, Nat.zero_add, htake, hP2, hk2]

/-- PAGE from a marker `dir/name` -/
theorem page_dir (ks : List (List Bytes)) (h : Tree2 ks) (mk : Nat) (hmk : 0 < mk) (d : Ent) (hd : d ∈ children ks [])
    (hexp : d.expired = true) (x : Bytes) (hx : cutFirstSlash x = none) :
    pageOf (listFiler ks [] mk (d.key ++ [slash] ++ x) false) =
      pageOfStream mk ((((children ks [d.key]).filter fun c => ltB x c.key).map fun c => d.key ++ [slash] ++ c.key) ++
        streamOf ks ((children ks []).filter fun e => ltB d.key e.key)) ∧
    (listFiler ks [] mk (d.key ++ [slash] ++ x) false).deleted = [] := by
  rw [listFiler_root, doList_dir ks h mk hmk d hd hexp x hx]
  constructor
  · apply page_of_two _ _ d.key mk hmk
    · simp [filePairs]
    · simp [filePairs]
    · exact (pairs_top ks _).1
    · exact (pairs_top ks _).2
  · rw [ite_deleted]; rfl

/-! ## cursors: which marker stands for which remaining stream -/

/-- `Cursor ks m Z`: the marker `m` is the empty marker, the name of a top-level file, or `dir/name`
    for a file of a top-level directory, and `Z` is the stream of keys listed after it. -/
inductive Cursor (ks : List (List Bytes)) : Bytes → List Bytes → Prop
  | start : Cursor ks [] (allKeys ks)
  | file (T1 : List Ent) (e : Ent) (T2 : List Ent) : children ks [] = T1 ++ e :: T2 → e.expired = false →
      Cursor ks e.key (streamOf ks T2)
  | dir (T1 : List Ent) (d : Ent) (T2 : List Ent) (S1 : List Ent) (x : Ent) (S2 : List Ent) :
      children ks [] = T1 ++ d :: T2 → d.expired = true → children ks [d.key] = S1 ++ x :: S2 →
      Cursor ks (d.key ++ [slash] ++ x.key) ((S2.map fun c => d.key ++ [slash] ++ c.key) ++ streamOf ks T2)

/-- advancing into the rest of the top directory -/
theorem cursor_advance (ks : List (List Bytes)) (h : Tree2 ks) (Tpre T2 : List Ent) (hT : children ks [] = Tpre ++ T2)
    (z : Bytes) (Z : List Bytes) (hz : streamOf ks T2 = z :: Z) : Cursor ks z Z := by
  cases T2 with
  | nil => simp [streamOf] at hz
  | cons e T2' =>
    have he : e ∈ children ks [] := by rw [hT]; simp
    simp only [streamOf, List.flatMap_cons] at hz
    cases hexp : e.expired with
    | false =>
      simp only [entryKeys, hexp, Bool.false_eq_true, if_false, List.singleton_append, List.cons.injEq] at hz
      obtain ⟨rfl, rfl⟩ := hz
      exact Cursor.file Tpre e T2' hT hexp
    | true =>
      obtain ⟨hne, _, _⟩ := h.sub e he hexp
      cases hS : children ks [e.key] with
      | nil => exact absurd hS hne
      | cons c S' =>
        simp only [entryKeys, hexp, if_true, hS, List.map_cons, List.cons_append, List.cons.injEq] at hz
        obtain ⟨rfl, rfl⟩ := hz
        exact Cursor.dir Tpre e T2' [] c S' hT hexp (by rw [hS]; rfl)

theorem cursor_step (ks : List (List Bytes)) (h : Tree2 ks) (m z : Bytes) (Z : List Bytes) (hc : Cursor ks m (z :: Z)) :
    Cursor ks z Z := by
  generalize hzz : z :: Z = W at hc
  cases hc with
  | start => exact cursor_advance ks h [] _ (by simp) z Z hzz.symm
  | file T1 e T2 hT hexp =>
    exact cursor_advance ks h (T1 ++ [e]) T2 (by rw [hT]; simp) z Z hzz.symm
  | dir T1 d T2 S1 x S2 hT hexp hS =>
    cases S2 with
    | nil =>
      simp only [List.map_nil, List.nil_append] at hzz
      exact cursor_advance ks h (T1 ++ [d]) T2 (by rw [hT]; simp) z Z hzz.symm
    | cons c S2' =>
      simp only [List.map_cons, List.cons_append, List.cons.injEq] at hzz
      obtain ⟨rfl, rfl⟩ := hzz
      exact Cursor.dir T1 d T2 (S1 ++ [x]) c S2' hT hexp (by rw [hS]; simp)

/-- after `n` keys the cursor stands at the last of them -/
theorem cursor_drop (ks : List (List Bytes)) (h : Tree2 ks) : ∀ (n : Nat) (m : Bytes) (Z : List Bytes), Cursor ks m Z →
    0 < n → n ≤ Z.length → ∃ l, (Z.take n).getLast? = some l ∧ Cursor ks l (Z.drop n) := by
  intro n
  induction n with
  | zero => intro m Z _ h0 _; omega
  | succ n ih =>
    intro m Z hc _ hlen
    cases Z with
    | nil => simp at hlen
    | cons z Z =>
      have hc' := cursor_step ks h m z Z hc
      by_cases hn : n = 0
      · subst hn
        exact ⟨z, by simp, by simpa using hc'⟩
      · obtain ⟨l, hl, hcl⟩ := ih z Z hc' (by omega) (by simpa using hlen)
        refine ⟨l, ?_, by simpa using hcl⟩
        rw [List.take_succ_cons, List.getLast?_cons]
        rw [hl]; rfl

theorem filter_after_split (A : List Ent) (l : Ent) (B : List Ent) (hs : SortedDb (A ++ l :: B)) :
    (A ++ l :: B).filter (fun e => ltB l.key e.key) = B := by
  have := filter_after_last_by (fun e : Ent => e.key) A B l (by simpa [SortedBy, SortedDb] using hs)
  simpa using this

/-- one page at a cursor lists the next `maxKeys` keys of its stream -/
theorem page_at_cursor (ks : List (List Bytes)) (h : Tree2 ks) (mk : Nat) (hmk : 0 < mk) (m : Bytes) (Z : List Bytes)
    (hc : Cursor ks m Z) :
    pageOf (listFiler ks [] mk m false) = pageOfStream mk Z ∧ (listFiler ks [] mk m false).deleted = [] := by
  cases hc with
  | start =>
    have := page_top ks h mk hmk [] rfl
    rw [filter_ltB_nil _ (fun e he => (h.names e he).1)] at this
    exact this
  | file T1 e T2 hT hexp =>
    have he : e ∈ children ks [] := by rw [hT]; simp
    have := page_top ks h mk hmk e.key (h.names e he).2
    have hf : (children ks []).filter (fun x => ltB e.key x.key) = T2 := by
      rw [hT]; exact filter_after_split T1 e T2 (by rw [← hT]; exact h.sorted)
    rw [hf] at this
    exact this
  | dir T1 d T2 S1 x S2 hT hexp hS =>
    have hd : d ∈ children ks [] := by rw [hT]; simp
    obtain ⟨_, hfd, hsl⟩ := h.sub d hd hexp
    have hx : x ∈ children ks [d.key] := by rw [hS]; simp
    have := page_dir ks h mk hmk d hd hexp x.key (hsl x hx)
    have hf : (children ks []).filter (fun e => ltB d.key e.key) = T2 := by
      rw [hT]; exact filter_after_split T1 d T2 (by rw [← hT]; exact h.sorted)
    have hg : (children ks [d.key]).filter (fun c => ltB x.key c.key) = S2 := by
      rw [hS]; exact filter_after_split S1 x S2 (by rw [← hS]; exact hfd.sorted)
    rw [hf, hg] at this
    exact this

/-- what a complete, exact recursive pagination looks like -/
structure RecExact (maxKeys : Nat) (want : List Bytes) (pages : List Page) : Prop where
  keys : pages.flatMap (·.keys) = want
  pfxs : pages.flatMap (·.pfxs) = []
  small : ∀ p ∈ pages, p.keys.length + p.pfxs.length ≤ maxKeys
  ends : pages.getLast?.map (·.trunc) = some false

theorem walk_rec (ks : List (List Bytes)) (h : Tree2 ks) (mk : Nat) (hmk : 0 < mk) :
    ∀ (fuel : Nat) (m : Bytes) (Z : List Bytes), Cursor ks m Z → Z.length < fuel →
      ∃ pages, walk [] mk false true fuel ks m = (pages, ks) ∧ RecExact mk Z pages := by
  intro fuel
  induction fuel with
  | zero => intro m Z _ hl; omega
  | succ f ih =>
    intro m Z hc hlen
    obtain ⟨hpage, hdel⟩ := page_at_cursor ks h mk hmk m Z hc
    unfold walk
    simp only [hpage, hdel, removeDirs_nil]
    by_cases hbig : Z.length > mk
    · obtain ⟨l, hl, hcl⟩ := cursor_drop ks h mk m Z hc hmk (by omega)
      have hlt : (Z.drop mk).length < f := by rw [List.length_drop]; omega
      obtain ⟨ps, hw, hex⟩ := ih l (Z.drop mk) hcl hlt
      simp only [pageOfStream, hbig, decide_true, Bool.not_true, Bool.false_eq_true, if_false, if_true, hl, Option.getD_some, hw]
      refine ⟨_, rfl, ?_, ?_, ?_, ?_⟩
      · simp only [List.flatMap_cons, hex.keys, List.take_append_drop]
      · simp only [List.flatMap_cons, hex.pfxs, List.append_nil]
      · intro p hp
        cases List.mem_cons.1 hp with
        | inl h0 => subst h0; simp only [List.length_take, List.length_nil]; omega
        | inr h1 => exact hex.small p h1
      · have hps : ps ≠ [] := by
          intro h0; have := hex.ends; rw [h0] at this; simp at this
        rw [List.getLast?_cons_of_ne_nil hps]
        exact hex.ends
    · have htake : Z.take mk = Z := List.take_of_length_le (by omega)
      simp only [pageOfStream, hbig, decide_false, Bool.not_false, if_true, htake]
      refine ⟨_, rfl, ?_, ?_, ?_, ?_⟩ <;> simp <;> omega

instance (S : List Ent) : Decidable (SortedDb S) := by unfold SortedDb; exact inferInstance

instance (S : List Ent) : Decidable (FilesDir S) :=
  decidable_of_iff (SortedDb S ∧ (∀ c ∈ S, c.expired = false) ∧ ∀ c ∈ S, c.key ≠ [])
    ⟨fun h => ⟨h.1, h.2.1, h.2.2⟩, fun h => ⟨h.sorted, h.files, h.names⟩⟩

instance (ks : List (List Bytes)) : Decidable (Tree2 ks) :=
  decidable_of_iff
    (SortedDb (children ks []) ∧ (∀ e ∈ children ks [], e.key ≠ [] ∧ cutFirstSlash e.key = none) ∧
      (∀ e ∈ children ks [], e.expired = true → e.key ≠ uploadsName) ∧
      (∀ e ∈ children ks [], e.expired = true → children ks [e.key] ≠ [] ∧ FilesDir (children ks [e.key]) ∧
        ∀ c ∈ children ks [e.key], cutFirstSlash c.key = none))
    ⟨fun h => ⟨h.1, h.2.1, h.2.2.1, h.2.2.2⟩, fun h => ⟨h.sorted, h.names, h.noUploads, h.sub⟩⟩

end SwV.Lemmas.C27
