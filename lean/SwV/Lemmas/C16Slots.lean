/-
C16 — free shard slots: the planner's counter `freeEcSlot` against the RECOUNT from where the shards are
(capacity − shards held by the bitmaps).  `addEcVolumeShards` / `deleteEcVolumeShards` change the counter
by exactly the number of shards the bitmaps gain / lose, so `free + total` of a server never changes:
the counter equals the recount after every move, pick and any sequence of them.
-/
import SwV.Lemmas.C16
set_option linter.unusedSimpArgs false
namespace SwV.Lemmas.C16Slots
open SwV.Model.C16 SwV.Spec.C16 SwV.Lemmas.C16

def tot (l : List (Nat × Nat)) : Nat := (l.map fun s => popc s.2).sum

theorem total_eq (n : ENode) : n.total = if n.hdd then tot n.shards else 0 := rfl

theorem popc_delBit_le (b s : Nat) : popc (delBit b s) ≤ popc b := by
  unfold popc shardIds
  rw [← List.countP_eq_length_filter, ← List.countP_eq_length_filter]
  apply List.countP_mono_left
  intro j _ hj
  rw [hasBit_delBit] at hj
  simp at hj
  exact hj.1

theorem popc_two_pow : ∀ s, s < 14 → popc (2 ^ s) = 1 := by decide +kernel

theorem tot_setFirst (vid : Nat) (f : Nat → Nat) (l : List (Nat × Nat)) (e : Nat × Nat)
    (h : l.find? (·.1 == vid) = some e) : tot (setFirst vid f l) + popc e.2 = tot l + popc (f e.2) := by
  induction l with
  | nil => simp at h
  | cons a l ih =>
    obtain ⟨v, b⟩ := a
    by_cases hv : (v == vid) = true
    · simp only [List.find?_cons, hv] at h
      cases h
      simp only [setFirst, hv, if_true, tot, List.map_cons, List.sum_cons]
      omega
    · have hv2 : (v == vid) = false := by simpa using hv
      simp only [List.find?_cons, hv2] at h
      have := ih h
      simp only [setFirst, hv2, Bool.false_eq_true, if_false, tot, List.map_cons, List.sum_cons] at this ⊢
      omega

theorem tot_append (a b : List (Nat × Nat)) : tot (a ++ b) = tot a + tot b := by
  simp [tot, List.map_append, List.sum_append]

theorem tot_map_del (vid s : Nat) (l : List (Nat × Nat)) :
    tot (l.map fun e => if e.1 == vid then (e.1, delBit e.2 s) else e) +
      ((l.filter (·.1 == vid)).map fun e => popc e.2 - popc (delBit e.2 s)).sum = tot l := by
  induction l with
  | nil => simp [tot]
  | cons a l ih =>
    obtain ⟨v, b⟩ := a
    by_cases hv : (v == vid) = true
    · have := popc_delBit_le b s
      simp only [tot, List.map_cons, List.sum_cons, hv, if_true, List.filter_cons] at ih ⊢
      omega
    · have hv2 : (v == vid) = false := by simpa using hv
      simp only [tot, List.map_cons, List.sum_cons, hv2, Bool.false_eq_true, if_false, List.filter_cons] at ih ⊢
      omega

/-- `addEcVolumeShards` (one shard id below 14): counter + held shards is unchanged -/
theorem add_slack (n : ENode) (vid s : Nat) (hs : s < 14) :
    (n.add vid s).free + ((n.add vid s).total : Int) = n.free + (n.total : Int) := by
  unfold ENode.add
  by_cases he : n.hasEntry vid = true
  · have hh : n.hdd = true := by
      unfold ENode.hasEntry at he; simp at he; exact he.1
    have hany : n.shards.any (·.1 == vid) = true := by
      unfold ENode.hasEntry at he; simp [hh] at he; simpa using he
    obtain ⟨e, hf⟩ : ∃ e, n.shards.find? (·.1 == vid) = some e := by
      cases hfe : n.shards.find? (·.1 == vid) with
      | some e => exact ⟨e, rfl⟩
      | none =>
        rw [List.find?_eq_none] at hfe
        rw [List.any_eq_true] at hany
        obtain ⟨x, hx, hx2⟩ := hany
        exact absurd hx2 (hfe x hx)
    have hb : n.bits vid = e.2 := by unfold ENode.bits; simp [hh, hf]
    have := tot_setFirst vid (addBit · s) n.shards e hf
    simp only [he, if_true, total_eq, hh, hb]
    omega
  · have he2 : n.hasEntry vid = false := by simpa using he
    simp only [he2, Bool.false_eq_true, if_false, total_eq, if_true]
    have p1 := popc_two_pow s hs
    have k1 : tot (n.shards ++ [(vid, 2 ^ s)]) = tot n.shards + 1 := by
      rw [tot_append]; simp [tot, p1]
    have k2 : tot ([] ++ [(vid, 2 ^ s)]) = 1 := by simp [tot, p1]
    by_cases hh : n.hdd = true
    · simp only [hh, if_true, k1]
      omega
    · have hh2 : n.hdd = false := by simpa using hh
      simp only [hh2, Bool.false_eq_true, if_false, k2]
      omega

/-- `deleteEcVolumeShards` (one shard id): counter + held shards is unchanged — the counter is credited
    with exactly the shards the bitmaps lose (nothing when the shard was not there) -/
theorem del_slack (n : ENode) (vid s : Nat) :
    (n.del vid s).free + ((n.del vid s).total : Int) = n.free + (n.total : Int) := by
  unfold ENode.del
  by_cases hh : n.hdd = true
  · have := tot_map_del vid s n.shards
    simp only [hh, Bool.not_true, Bool.false_eq_true, if_false, total_eq, if_true]
    omega
  · have hh2 : n.hdd = false := by simpa using hh
    simp [hh2]

/-- the counter of every server equals the recount: capacity − shards held -/
def SlackOk (cap : Nat → Int) (st : ESt) : Prop := ∀ n ∈ st.nodes, n.free = recountFree cap n

theorem slackOk_upd (cap : Nat → Int) (st : ESt) (id : Nat) (f : ENode → ENode)
    (hid : ∀ n, (f n).id = n.id) (hsl : ∀ n, (f n).free + ((f n).total : Int) = n.free + (n.total : Int))
    (h : SlackOk cap st) : SlackOk cap (st.upd id f) := by
  intro m hm
  simp only [ESt.upd, List.mem_map] at hm
  obtain ⟨n, hn, rfl⟩ := hm
  have := h n hn
  split
  · have e1 := hid n
    have e2 := hsl n
    unfold recountFree at this ⊢
    rw [e1]; omega
  · exact this

theorem slackOk_add (cap : Nat → Int) (st : ESt) (id vid s : Nat) (hs : s < 14) (h : SlackOk cap st) :
    SlackOk cap (st.upd id (·.add vid s)) :=
  slackOk_upd cap st id _ (fun n => add_id n vid s) (fun n => add_slack n vid s hs) h

theorem slackOk_del (cap : Nat → Int) (st : ESt) (id vid s : Nat) (h : SlackOk cap st) :
    SlackOk cap (st.upd id (·.del vid s)) :=
  slackOk_upd cap st id _ (fun n => del_id n vid s) (fun n => del_slack n vid s) h

theorem slackOk_move (cap : Nat → Int) (st : ESt) (src dst vid s : Nat) (hs : s < 14) (h : SlackOk cap st) :
    SlackOk cap (st.move src dst vid s) :=
  slackOk_del cap _ src vid s (slackOk_add cap st dst vid s hs h)

theorem mem_of_node? (st : ESt) (id : Nat) (n : ENode) (h : st.node? id = some n) : n ∈ st.nodes :=
  List.mem_of_find?_eq_some h

end SwV.Lemmas.C16Slots
