/-
C17 lemmas, part 3: a sorted view list that covers every position of [a, b) streams exactly the
bytes it denotes (used for the hole-free case of StreamContent).
-/
import SwV.Lemmas.C17b
namespace SwV.Lemmas.C17
open SwV.Model.C17 SwV.Spec.C17

theorem stream_of_contiguous (data : Nat → Nat → Nat) (b : Nat) : ∀ (ws : List View) (a : Nat), VSorted ws →
    (∀ w ∈ ws, 0 < w.size ∧ a ≤ w.logic ∧ w.logic + w.size ≤ b) →
    (∀ p, a ≤ p → p < b → ∃ w ∈ ws, vcov w p) →
    ws.flatMap (fun v => (List.range' v.off v.size).map (data v.fid)) = (List.range' a (b - a)).map (viewByte data ws)
  | [], a, _, _, hc => by
    have : b ≤ a := by
      by_cases h : a < b
      · obtain ⟨w, hw, _⟩ := hc a (Nat.le_refl _) h; simp at hw
      · omega
    simp [Nat.sub_eq_zero_of_le this]
  | w :: ws, a, hs, hw, hc => by
    have hs' := List.pairwise_cons.1 hs
    have hw0 := hw w List.mem_cons_self
    have hab : a < b := by omega
    have hwa : w.logic = a := by
      obtain ⟨x, hx, hcx⟩ := hc a (Nat.le_refl _) hab
      rcases List.mem_cons.1 hx with rfl | hx
      · unfold vcov at hcx; omega
      · have := hs'.1 x hx; unfold vcov at hcx; omega
    have ih := stream_of_contiguous data b ws (w.logic + w.size) hs'.2
      (fun x hx => ⟨(hw x (List.mem_cons_of_mem _ hx)).1, hs'.1 x hx, (hw x (List.mem_cons_of_mem _ hx)).2.2⟩)
      (fun p hp1 hp2 => by
        obtain ⟨x, hx, hcx⟩ := hc p (by omega) hp2
        rcases List.mem_cons.1 hx with rfl | hx
        · unfold vcov at hcx; omega
        · exact ⟨x, hx, hcx⟩)
    rw [List.flatMap_cons, ih]
    have h1 : (List.range' w.off w.size).map (data w.fid) = (List.range' a w.size).map (viewByte data (w :: ws)) := by
      apply map_range'_shift
      intro i hi
      rw [viewByte_head data w ws (by unfold vcov; omega)]
      congr 1; omega
    have h2 : (List.range' (w.logic + w.size) (b - (w.logic + w.size))).map (viewByte data ws) =
        (List.range' (a + w.size) (b - (w.logic + w.size))).map (viewByte data (w :: ws)) := by
      rw [hwa]
      apply List.map_congr_left
      intro p hp
      have := List.mem_range'_1.1 hp
      symm; apply viewByte_tail; unfold vcov; omega
    rw [h1, h2, ← List.map_append, List.range'_append_1]
    have : w.size + (b - (w.logic + w.size)) = b - a := by omega
    rw [this]

end SwV.Lemmas.C17
