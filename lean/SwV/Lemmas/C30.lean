/-
C30 lemmas, part 1: the interval lists (structure, invariant, bytes).

  * `NodeOk`, `Chained`, `ListOk`, `Gap`, `LInv`          the invariant (Props/C30 restates it, definitionally equal)
  * `Has`, `LHas`                                       "position p carries dirty byte b" as a relation (order-free)
  * `dirtyByte_eq_some`, `dirtyByte_eq_none`            `dirtyByte` (find? over the flattened lists) = `Has` under `LInv`
  * `subList_ok`, `lhas_subList`                        what `sliceNode`/`subList` keep
  * `addToTail_ok`, `lhas_addToTail`                    the tail merge of the temp-file list keeps the bytes
-/
import SwV.Model.C30
import SwV.Spec.C30
namespace SwV.Lemmas.C30
open SwV.Model.C30 SwV.Spec.C30

/-! ### definitions -/

def NodeOk (tk : Bool) (temp : List Nat) (n : Node) : Prop :=
  0 < n.size ∧ (tk = false → n.data.length = n.size) ∧ (tk = true → n.tmp + n.size ≤ temp.length)

/-- each node starts where the previous one stops -/
def Chained : LList → Prop
  | [] => True
  | [_] => True
  | a :: b :: r => a.off + a.size = b.off ∧ Chained (b :: r)

def ListOk (tk : Bool) (temp : List Nat) (l : LList) : Prop :=
  l ≠ [] ∧ (∀ n ∈ l, NodeOk tk temp n) ∧ Chained l

def Gap (a b : LList) : Prop := tailStop a < headOff b ∨ tailStop b < headOff a

def LInv (tk : Bool) (temp : List Nat) (lists : List LList) : Prop :=
  (∀ l ∈ lists, ListOk tk temp l) ∧ lists.Pairwise (fun a b => tailStop a < headOff b ∨ tailStop b < headOff a)

def nodeByte (tk : Bool) (temp : List Nat) (n : Node) (p : Nat) : Nat := (nodeBytes tk temp n).getD (p - n.off) 0

def dirtyByte (tk : Bool) (temp : List Nat) (lists : List LList) (p : Nat) : Option Nat :=
  (lists.flatten.find? (fun n => n.off ≤ p ∧ p < n.off + n.size)).map (fun n => (nodeBytes tk temp n).getD (p - n.off) 0)

def LHas (tk : Bool) (temp : List Nat) (l : LList) (p b : Nat) : Prop :=
  ∃ x ∈ l, x.off ≤ p ∧ p < x.off + x.size ∧ b = nodeByte tk temp x p

def Has (tk : Bool) (temp : List Nat) (lists : List LList) (p b : Nat) : Prop :=
  ∃ l ∈ lists, LHas tk temp l p b

/-! ### head, tail -/

theorem tailStop_singleton (a : Node) : tailStop [a] = a.off + a.size := rfl

theorem tailStop_cons_cons (a b : Node) (r : LList) : tailStop (a :: b :: r) = tailStop (b :: r) := by
  simp [tailStop, List.getLast?_cons_cons]

theorem tailStop_concat (l : LList) (t : Node) : tailStop (l ++ [t]) = t.off + t.size := by
  simp [tailStop]

theorem tailStop_append (a b : LList) (hb : b ≠ []) : tailStop (a ++ b) = tailStop b := by
  unfold tailStop
  rw [List.getLast?_append]
  cases h : b.getLast? with
  | none => simp at h; exact absurd h hb
  | some t => simp

theorem headOff_cons (a : Node) (l : LList) : headOff (a :: l) = a.off := rfl

theorem headOff_append (a b : LList) (ha : a ≠ []) : headOff (a ++ b) = headOff a := by
  cases a with
  | nil => exact absurd rfl ha
  | cons x xs => rfl

theorem chained_cons (a : Node) (l : LList) : Chained (a :: l) ↔ (l ≠ [] → a.off + a.size = headOff l) ∧ Chained l := by
  cases l with
  | nil => simp [Chained]
  | cons b r => simp [Chained, headOff]

theorem chained_bounds : ∀ (l : LList), Chained l → (∀ n ∈ l, 0 < n.size) →
    ∀ x ∈ l, headOff l ≤ x.off ∧ x.off + x.size ≤ tailStop l
  | [], _, _, x, hx => by cases hx
  | [a], _, _, x, hx => by
    simp at hx; subst hx; simp [headOff, tailStop]
  | a :: b :: r, hc, hp, x, hx => by
    have ih := chained_bounds (b :: r) hc.2 (fun n hn => hp n (List.mem_cons_of_mem _ hn))
    rw [tailStop_cons_cons]
    have h1 := hc.1
    have hpa := hp a (by simp)
    rcases List.mem_cons.1 hx with rfl | hx
    · have := ih b (by simp)
      simp only [headOff] at *
      omega
    · have := ih x hx
      simp only [headOff] at *
      omega

theorem head_lt_tail (l : LList) (hne : l ≠ []) (hc : Chained l) (hp : ∀ n ∈ l, 0 < n.size) : headOff l < tailStop l := by
  cases l with
  | nil => exact absurd rfl hne
  | cons a r =>
    have := chained_bounds _ hc hp a (by simp)
    have := hp a (by simp)
    simp only [headOff] at *
    omega

theorem chained_sorted : ∀ (l : LList), Chained l → (∀ n ∈ l, 0 < n.size) →
    l.Pairwise (fun a b => a.off + a.size ≤ b.off)
  | [], _, _ => List.Pairwise.nil
  | [a], _, _ => by simp
  | a :: b :: r, hc, hp => by
    have hp' : ∀ n ∈ b :: r, 0 < n.size := fun n hn => hp n (List.mem_cons_of_mem _ hn)
    have ih := chained_sorted (b :: r) hc.2 hp'
    refine List.pairwise_cons.2 ⟨?_, ih⟩
    intro x hx
    have := (chained_bounds (b :: r) hc.2 hp' x hx).1
    have h1 := hc.1
    simp only [headOff] at this
    omega

theorem chained_cover : ∀ (l : LList), Chained l → ∀ p, headOff l ≤ p → p < tailStop l →
    ∃ x ∈ l, x.off ≤ p ∧ p < x.off + x.size
  | [], _, p, _, h2 => by simp [tailStop] at h2
  | [a], _, p, h1, h2 => ⟨a, by simp, h1, h2⟩
  | a :: b :: r, hc, p, h1, h2 => by
    by_cases h : p < a.off + a.size
    · exact ⟨a, by simp, h1, h⟩
    · rw [tailStop_cons_cons] at h2
      have hh := hc.1
      obtain ⟨x, hx, hx'⟩ := chained_cover (b :: r) hc.2 p (by simp only [headOff]; omega) h2
      exact ⟨x, List.mem_cons_of_mem _ hx, hx'⟩

theorem chained_append : ∀ (a b : LList), Chained (a ++ b) ↔
    Chained a ∧ Chained b ∧ (a ≠ [] → b ≠ [] → tailStop a = headOff b)
  | [], b => by simp [Chained]
  | [x], b => by
    rw [List.singleton_append, chained_cons]
    simp [Chained, tailStop_singleton]
    constructor
    · rintro ⟨h1, h2⟩; exact ⟨h2, h1⟩
    · rintro ⟨h1, h2⟩; exact ⟨h2, h1⟩
  | x :: y :: r, b => by
    have ih := chained_append (y :: r) b
    show Chained (x :: y :: (r ++ b)) ↔ _
    simp only [Chained]
    rw [show y :: (r ++ b) = (y :: r) ++ b from rfl, ih, tailStop_cons_cons]
    simp
    constructor
    · rintro ⟨h1, h2, h3, h4⟩; exact ⟨⟨h1, h2⟩, h3, h4⟩
    · rintro ⟨⟨h1, h2⟩, h3, h4⟩; exact ⟨h1, h2, h3, h4⟩

/-! ### ListOk -/

theorem ListOk.pos {tk : Bool} {temp : List Nat} {l : LList} (h : ListOk tk temp l) : ∀ n ∈ l, 0 < n.size :=
  fun n hn => (h.2.1 n hn).1

theorem ListOk.lt {tk : Bool} {temp : List Nat} {l : LList} (h : ListOk tk temp l) : headOff l < tailStop l :=
  head_lt_tail l h.1 h.2.2 h.pos

theorem ListOk.bounds {tk : Bool} {temp : List Nat} {l : LList} (h : ListOk tk temp l) :
    ∀ x ∈ l, headOff l ≤ x.off ∧ x.off + x.size ≤ tailStop l :=
  chained_bounds l h.2.2 h.pos

theorem ListOk.lsize {tk : Bool} {temp : List Nat} {l : LList} (h : ListOk tk temp l) :
    headOff l + lsize l = tailStop l := by
  have := h.lt
  unfold SwV.Model.C30.lsize
  omega

theorem listOk_append {tk : Bool} {temp : List Nat} {a b : LList} (ha : ListOk tk temp a) (hb : ListOk tk temp b)
    (h : tailStop a = headOff b) :
    ListOk tk temp (a ++ b) ∧ headOff (a ++ b) = headOff a ∧ tailStop (a ++ b) = tailStop b := by
  refine ⟨⟨by simp [ha.1], ?_, ?_⟩, headOff_append a b ha.1, tailStop_append a b hb.1⟩
  · intro n hn
    rcases List.mem_append.1 hn with hn | hn
    · exact ha.2.1 n hn
    · exact hb.2.1 n hn
  · exact (chained_append a b).2 ⟨ha.2.2, hb.2.2, fun _ _ => h⟩

theorem listOk_cons {tk : Bool} {temp : List Nat} {n : Node} {b : LList} (hn : NodeOk tk temp n) (hb : ListOk tk temp b)
    (h : n.off + n.size = headOff b) :
    ListOk tk temp (n :: b) ∧ headOff (n :: b) = n.off ∧ tailStop (n :: b) = tailStop b := by
  have hs : ListOk tk temp [n] := ⟨by simp, by simpa using hn, trivial⟩
  exact listOk_append hs hb h

theorem listOk_singleton {tk : Bool} {temp : List Nat} {n : Node} (hn : NodeOk tk temp n) : ListOk tk temp [n] :=
  ⟨by simp, by simpa using hn, trivial⟩

/-! ### bytes of a node -/

theorem nodeBytes_getD (tk : Bool) (temp : List Nat) (x : Node) (hx : NodeOk tk temp x) (k : Nat) (hk : k < x.size) :
    (nodeBytes tk temp x).getD k 0 = if tk then temp.getD (x.tmp + k) 0 else x.data.getD k 0 := by
  unfold nodeBytes
  cases tk with
  | false => simp
  | true =>
    simp only [if_true, List.getD_eq_getElem?_getD, List.getElem?_take, List.getElem?_drop, if_pos hk]

theorem nodeBytes_length (tk : Bool) (temp : List Nat) (x : Node) (hx : NodeOk tk temp x) :
    (nodeBytes tk temp x).length = x.size := by
  unfold nodeBytes
  cases tk with
  | false => simpa using hx.2.1 rfl
  | true =>
    have := hx.2.2 rfl
    simp only [if_true, List.length_take, List.length_drop]
    omega

/-! ### `Has` is a function under the invariant -/

theorem pairwise_unique {α : Type} {R : α → α → Prop} {C : α → Prop} (hex : ∀ x y, R x y → C x → C y → False) :
    ∀ {L : List α}, L.Pairwise R → ∀ x ∈ L, ∀ y ∈ L, C x → C y → x = y
  | [], _, x, hx, _, _, _, _ => by cases hx
  | a :: L, hp, x, hx, y, hy, cx, cy => by
    have hp' := List.pairwise_cons.1 hp
    rcases List.mem_cons.1 hx with rfl | hx1 <;> rcases List.mem_cons.1 hy with rfl | hy1
    · rfl
    · exact (hex _ _ (hp'.1 y hy1) cx cy).elim
    · exact (hex _ _ (hp'.1 x hx1) cy cx).elim
    · exact pairwise_unique hex hp'.2 x hx1 y hy1 cx cy

theorem lhas_range {tk : Bool} {temp : List Nat} {l : LList} (h : ListOk tk temp l) {p b : Nat} (hb : LHas tk temp l p b) :
    headOff l ≤ p ∧ p < tailStop l := by
  obtain ⟨x, hx, h1, h2, _⟩ := hb
  have := h.bounds x hx
  omega

theorem lhas_unique {tk : Bool} {temp : List Nat} {l : LList} (h : ListOk tk temp l) {p b b' : Nat}
    (hb : LHas tk temp l p b) (hb' : LHas tk temp l p b') : b = b' := by
  obtain ⟨x, hx, h1, h2, rfl⟩ := hb
  obtain ⟨y, hy, h3, h4, rfl⟩ := hb'
  have : x = y := pairwise_unique (C := fun n => n.off ≤ p ∧ p < n.off + n.size)
    (fun x y hr cx cy => by omega) (chained_sorted l h.2.2 h.pos) x hx y hy ⟨h1, h2⟩ ⟨h3, h4⟩
  rw [this]

theorem linv_list_unique {tk : Bool} {temp : List Nat} {lists : List LList} (h : LInv tk temp lists) {p : Nat}
    {l l' : LList} (hl : l ∈ lists) (hl' : l' ∈ lists) (h1 : headOff l ≤ p ∧ p < tailStop l)
    (h2 : headOff l' ≤ p ∧ p < tailStop l') : l = l' :=
  pairwise_unique (C := fun l => headOff l ≤ p ∧ p < tailStop l)
    (fun x y hr cx cy => by rcases hr with hr | hr <;> omega) h.2 l hl l' hl' h1 h2

theorem has_unique {tk : Bool} {temp : List Nat} {lists : List LList} (h : LInv tk temp lists) {p b b' : Nat}
    (hb : Has tk temp lists p b) (hb' : Has tk temp lists p b') : b = b' := by
  obtain ⟨l, hl, hb⟩ := hb
  obtain ⟨l', hl', hb'⟩ := hb'
  have := linv_list_unique h hl hl' (lhas_range (h.1 l hl) hb) (lhas_range (h.1 l' hl') hb')
  subst this
  exact lhas_unique (h.1 l hl) hb hb'

theorem dirtyByte_eq_some {tk : Bool} {temp : List Nat} {lists : List LList} (h : LInv tk temp lists) (p b : Nat) :
    dirtyByte tk temp lists p = some b ↔ Has tk temp lists p b := by
  unfold dirtyByte
  constructor
  · intro hd
    cases hf : lists.flatten.find? (fun n => n.off ≤ p ∧ p < n.off + n.size) with
    | none => rw [hf] at hd; cases hd
    | some x =>
      rw [hf] at hd
      have hm := List.mem_of_find?_eq_some hf
      have hc := List.find?_some hf
      obtain ⟨l, hl, hx⟩ := List.mem_flatten.1 hm
      simp only [decide_eq_true_eq] at hc
      simp only [Option.map_some, Option.some.injEq] at hd
      exact ⟨l, hl, x, hx, hc.1, hc.2, hd.symm⟩
  · intro hh
    cases hf : lists.flatten.find? (fun n => n.off ≤ p ∧ p < n.off + n.size) with
    | none =>
      obtain ⟨l, hl, x, hx, h1, h2, _⟩ := hh
      have := List.find?_eq_none.1 hf x (List.mem_flatten.2 ⟨l, hl, hx⟩)
      simp only [decide_eq_true_eq] at this
      exact absurd ⟨h1, h2⟩ this
    | some x =>
      have hm := List.mem_of_find?_eq_some hf
      have hc := List.find?_some hf
      obtain ⟨l, hl, hx⟩ := List.mem_flatten.1 hm
      simp only [decide_eq_true_eq] at hc
      have : Has tk temp lists p (nodeByte tk temp x p) := ⟨l, hl, x, hx, hc.1, hc.2, rfl⟩
      simp only [Option.map_some, Option.some.injEq]
      exact has_unique h this hh

theorem dirtyByte_eq_none {tk : Bool} {temp : List Nat} {lists : List LList} (p : Nat) :
    dirtyByte tk temp lists p = none ↔ ∀ l ∈ lists, ∀ x ∈ l, ¬ (x.off ≤ p ∧ p < x.off + x.size) := by
  unfold dirtyByte
  simp only [Option.map_eq_none_iff, List.find?_eq_none, List.mem_flatten, decide_eq_true_eq]
  constructor
  · intro h l hl x hx; exact h x ⟨l, hl, hx⟩
  · rintro h x ⟨l, hl, hx⟩; exact h l hl x hx

/-! ### sliceNode, subList -/

theorem sliceNode_eq (lo hi : Nat) (t : Node) : sliceNode lo hi t =
    if max lo t.off < min hi (t.off + t.size) then
      some { off := max lo t.off, size := min hi (t.off + t.size) - max lo t.off, tmp := t.tmp + (max lo t.off - t.off),
             data := (t.data.drop (max lo t.off - t.off)).take (min hi (t.off + t.size) - max lo t.off) }
    else none := rfl

theorem sliceNode_some {lo hi : Nat} {t t' : Node} (h : sliceNode lo hi t = some t') :
    max lo t.off < min hi (t.off + t.size) ∧ t'.off = max lo t.off ∧ t'.size = min hi (t.off + t.size) - max lo t.off ∧
    t'.tmp = t.tmp + (max lo t.off - t.off) ∧
    t'.data = (t.data.drop (max lo t.off - t.off)).take (min hi (t.off + t.size) - max lo t.off) := by
  rw [sliceNode_eq] at h
  by_cases hc : max lo t.off < min hi (t.off + t.size)
  · rw [if_pos hc] at h
    cases h
    exact ⟨hc, rfl, rfl, rfl, rfl⟩
  · rw [if_neg hc] at h; cases h

theorem sliceNode_ok {tk : Bool} {temp : List Nat} {lo hi : Nat} {t t' : Node} (ht : NodeOk tk temp t)
    (h : sliceNode lo hi t = some t') : NodeOk tk temp t' := by
  obtain ⟨hc, h1, h2, h3, h4⟩ := sliceNode_some h
  refine ⟨by omega, ?_, ?_⟩
  · intro hk
    have := ht.2.1 hk
    rw [h4, h2]
    simp only [List.length_take, List.length_drop]
    omega
  · intro hk
    have := ht.2.2 hk
    omega

theorem sliceNode_byte {tk : Bool} {temp : List Nat} {lo hi : Nat} {t t' : Node} (ht : NodeOk tk temp t)
    (h : sliceNode lo hi t = some t') (p : Nat) (h1 : t'.off ≤ p) (h2 : p < t'.off + t'.size) :
    nodeByte tk temp t' p = nodeByte tk temp t p := by
  have hok := sliceNode_ok ht h
  obtain ⟨hc, e1, e2, e3, e4⟩ := sliceNode_some h
  unfold nodeByte
  rw [nodeBytes_getD tk temp t' hok _ (by omega), nodeBytes_getD tk temp t ht _ (by omega)]
  cases tk with
  | true =>
    simp only [if_true]
    congr 1
    omega
  | false =>
    simp only [Bool.false_eq_true, if_false, e4, List.getD_eq_getElem?_getD, List.getElem?_take, List.getElem?_drop]
    rw [if_pos (by omega)]
    congr 2
    omega

theorem lhas_singleton (tk : Bool) (temp : List Nat) (x : Node) (p b : Nat) :
    LHas tk temp [x] p b ↔ x.off ≤ p ∧ p < x.off + x.size ∧ b = nodeByte tk temp x p := by
  simp [LHas]

theorem lhas_append (tk : Bool) (temp : List Nat) (a c : LList) (p b : Nat) :
    LHas tk temp (a ++ c) p b ↔ LHas tk temp a p b ∨ LHas tk temp c p b := by
  simp only [LHas, List.mem_append]
  constructor
  · rintro ⟨x, hx | hx, h⟩
    · exact Or.inl ⟨x, hx, h⟩
    · exact Or.inr ⟨x, hx, h⟩
  · rintro (⟨x, hx, h⟩ | ⟨x, hx, h⟩)
    · exact ⟨x, Or.inl hx, h⟩
    · exact ⟨x, Or.inr hx, h⟩

theorem lhas_subList {tk : Bool} {temp : List Nat} {l : LList} (h : ListOk tk temp l) (lo hi p b : Nat) :
    LHas tk temp (subList l lo hi) p b ↔ lo ≤ p ∧ p < hi ∧ LHas tk temp l p b := by
  constructor
  · rintro ⟨x', hx', h1, h2, rfl⟩
    obtain ⟨x, hx, hs⟩ := List.mem_filterMap.1 hx'
    obtain ⟨hc, e1, e2, e3, e4⟩ := sliceNode_some hs
    refine ⟨by omega, by omega, x, hx, by omega, by omega, ?_⟩
    exact sliceNode_byte (h.2.1 x hx) hs p h1 h2
  · rintro ⟨hlo, hhi, x, hx, h1, h2, rfl⟩
    have hc : max lo x.off < min hi (x.off + x.size) := by omega
    have hs := sliceNode_eq lo hi x
    rw [if_pos hc] at hs
    refine ⟨_, List.mem_filterMap.2 ⟨x, hx, hs⟩, ?_, ?_, ?_⟩
    · show max lo x.off ≤ p; omega
    · show p < max lo x.off + (min hi (x.off + x.size) - max lo x.off); omega
    · exact (sliceNode_byte (h.2.1 x hx) hs p (by show max lo x.off ≤ p; omega)
        (by show p < max lo x.off + (min hi (x.off + x.size) - max lo x.off); omega)).symm

theorem subList_eq_nil (l : LList) (lo hi : Nat) (h : ∀ x ∈ l, hi ≤ x.off ∨ x.off + x.size ≤ lo) :
    subList l lo hi = [] := by
  unfold subList
  rw [List.filterMap_eq_nil_iff]
  intro x hx
  rw [sliceNode_eq, if_neg]
  have := h x hx
  omega

theorem subList_cons_none {lo hi : Nat} {t : Node} (l : LList) (h : sliceNode lo hi t = none) :
    subList (t :: l) lo hi = subList l lo hi := by
  simp [subList, h]

theorem subList_cons_some {lo hi : Nat} {t b : Node} (l : LList) (h : sliceNode lo hi t = some b) :
    subList (t :: l) lo hi = b :: subList l lo hi := by
  simp [subList, h]

theorem listOk_tail {tk : Bool} {temp : List Nat} {t u : Node} {r : LList} (h : ListOk tk temp (t :: u :: r)) :
    ListOk tk temp (u :: r) :=
  ⟨by simp, fun n hn => h.2.1 n (List.mem_cons_of_mem _ hn), h.2.2.2⟩

theorem subList_ok {tk : Bool} {temp : List Nat} : ∀ (l : LList), ListOk tk temp l → ∀ lo hi,
    max lo (headOff l) < min hi (tailStop l) →
    ListOk tk temp (subList l lo hi) ∧ headOff (subList l lo hi) = max lo (headOff l) ∧
      tailStop (subList l lo hi) = min hi (tailStop l)
  | [], h, _, _, _ => absurd rfl h.1
  | [t], h, lo, hi, hw => by
    simp only [headOff, tailStop_singleton] at hw
    have hs := sliceNode_eq lo hi t
    rw [if_pos hw] at hs
    have hok := sliceNode_ok (h.2.1 t (by simp)) hs
    simp only [subList, List.filterMap_cons, hs, List.filterMap_nil]
    refine ⟨listOk_singleton hok, ?_, ?_⟩
    · simp [headOff]
    · simp only [tailStop_singleton]; omega
  | t :: u :: r, h, lo, hi, hw => by
    have hr : ListOk tk temp (u :: r) := listOk_tail h
    have hlink : t.off + t.size = u.off := h.2.2.1
    have htpos := (h.2.1 t (by simp)).1
    have hrlt := hr.lt
    rw [tailStop_cons_cons] at hw ⊢
    simp only [headOff_cons] at hw hrlt ⊢
    have ih := subList_ok (u :: r) hr lo hi
    simp only [headOff_cons] at ih
    by_cases hs : max lo t.off < min hi (t.off + t.size)
    · have hse := sliceNode_eq lo hi t
      rw [if_pos hs] at hse
      have hok := sliceNode_ok (h.2.1 t (by simp)) hse
      rw [subList_cons_some _ hse]
      by_cases hrest : max lo u.off < min hi (tailStop (u :: r))
      · obtain ⟨i1, i2, i3⟩ := ih hrest
        have := listOk_cons hok i1 (by rw [i2]; show max lo t.off + (min hi (t.off + t.size) - max lo t.off) = _; omega)
        refine ⟨this.1, ?_, ?_⟩
        · rw [this.2.1]
        · rw [this.2.2, i3]
      · have hnil : subList (u :: r) lo hi = [] := by
          apply subList_eq_nil
          intro x hx
          have := hr.bounds x hx
          simp only [headOff_cons] at this
          omega
        rw [hnil]
        refine ⟨listOk_singleton hok, rfl, ?_⟩
        rw [tailStop_singleton]
        show max lo t.off + (min hi (t.off + t.size) - max lo t.off) = _
        omega
    · have hse := sliceNode_eq lo hi t
      rw [if_neg hs] at hse
      rw [subList_cons_none _ hse]
      have hrest : max lo u.off < min hi (tailStop (u :: r)) := by omega
      obtain ⟨i1, i2, i3⟩ := ih hrest
      refine ⟨i1, ?_, i3⟩
      rw [i2]; omega

/-! ### addToTail -/

theorem addToTail_spec {tk : Bool} {temp : List Nat} {l : LList} {n : Node} (h : ListOk tk temp l) (hn : NodeOk tk temp n)
    (hadj : tailStop l = n.off) :
    ListOk tk temp (addToTail tk l n) ∧ headOff (addToTail tk l n) = headOff l ∧
    tailStop (addToTail tk l n) = n.off + n.size ∧
    ∀ p b, LHas tk temp (addToTail tk l n) p b ↔ LHas tk temp l p b ∨ LHas tk temp [n] p b := by
  have plain : ListOk tk temp (l ++ [n]) ∧ headOff (l ++ [n]) = headOff l ∧ tailStop (l ++ [n]) = n.off + n.size ∧
      ∀ p b, LHas tk temp (l ++ [n]) p b ↔ LHas tk temp l p b ∨ LHas tk temp [n] p b := by
    have := listOk_append h (listOk_singleton hn) (by simpa [headOff] using hadj)
    exact ⟨this.1, this.2.1, by rw [this.2.2, tailStop_singleton], fun p b => lhas_append tk temp l [n] p b⟩
  unfold addToTail
  cases hl : l.getLast? with
  | none => simpa using plain
  | some t =>
    simp only
    by_cases hm : tk = true ∧ t.tmp + t.size = n.tmp
    · rw [if_pos hm]
      obtain ⟨ys, rfl⟩ := List.getLast?_eq_some_iff.1 hl
      rw [List.dropLast_concat]
      have hk := hm.1
      subst hk
      have htl : tailStop (ys ++ [t]) = t.off + t.size := tailStop_concat ys t
      have htok := h.2.1 t (by simp)
      have hnt := hn.2.2 rfl
      have hok' : NodeOk true temp { t with size := t.size + n.size } :=
        ⟨(by have := htok.1; show 0 < t.size + n.size; omega), (by intro hh; cases hh),
         (by intro _; show t.tmp + (t.size + n.size) ≤ temp.length; omega)⟩
      have hch := (chained_append ys [t]).1 h.2.2
      refine ⟨⟨by simp, ?_, ?_⟩, ?_, ?_, ?_⟩
      · intro x hx
        rcases List.mem_append.1 hx with hx | hx
        · exact h.2.1 x (List.mem_append_left _ hx)
        · simp only [List.mem_singleton] at hx; subst hx; exact hok'
      · refine (chained_append ys _).2 ⟨hch.1, trivial, ?_⟩
        intro h1 h2
        have := hch.2.2 h1 (by simp)
        simpa [headOff] using this
      · cases ys <;> rfl
      · rw [tailStop_concat]
        show t.off + (t.size + n.size) = _
        omega
      · intro p b
        rw [lhas_append, lhas_append, lhas_singleton, lhas_singleton, lhas_singleton]
        have hb1 : ∀ q, t.off ≤ q → q < t.off + t.size →
            nodeByte true temp { t with size := t.size + n.size } q = nodeByte true temp t q := by
          intro q h1 h2
          unfold nodeByte
          rw [nodeBytes_getD true temp _ hok' _ (by show q - t.off < t.size + n.size; omega),
            nodeBytes_getD true temp t htok _ (by omega)]
        have hb2 : ∀ q, n.off ≤ q → q < n.off + n.size →
            nodeByte true temp { t with size := t.size + n.size } q = nodeByte true temp n q := by
          intro q h1 h2
          unfold nodeByte
          rw [nodeBytes_getD true temp _ hok' _ (by show q - t.off < t.size + n.size; omega),
            nodeBytes_getD true temp n hn _ (by omega)]
          simp only [if_true]
          congr 1
          have := hm.2
          omega
        constructor
        · rintro (hh | ⟨h1, h2, rfl⟩)
          · exact Or.inl (Or.inl hh)
          · have h2' : p < t.off + (t.size + n.size) := h2
            have h1' : t.off ≤ p := h1
            by_cases hp : p < t.off + t.size
            · exact Or.inl (Or.inr ⟨h1', hp, hb1 p h1' hp⟩)
            · exact Or.inr ⟨by omega, by omega, hb2 p (by omega) (by omega)⟩
        · rintro ((hh | ⟨h1, h2, rfl⟩) | ⟨h1, h2, rfl⟩)
          · exact Or.inl hh
          · refine Or.inr ⟨h1, ?_, (hb1 p h1 h2).symm⟩
            show p < t.off + (t.size + n.size); omega
          · refine Or.inr ⟨?_, ?_, (hb2 p h1 h2).symm⟩
            · show t.off ≤ p; omega
            · show p < t.off + (t.size + n.size); omega
    · rw [if_neg (by simpa using hm)]
      exact plain

end SwV.Lemmas.C30
