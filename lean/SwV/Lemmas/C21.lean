/-
Helper lemmas for C21 (hard links): counting the names of an identity, the consistency
predicate `Cons`, and how the store shim's operations move it.
-/
import SwV.Model.C18
import SwV.Lemmas.C18
namespace SwV.Lemmas.C21
open SwV.Model.C18 SwV.Lemmas.C18

/-- number of stored names that carry link identity h -/
def nameCount (l : List (RPath × Entry)) (h : Nat) : Nat := l.countP fun x => x.2.hl == h

/-- identity h is consistent: no record and no names, or a (file) record for h whose counter is the number of names -/
def Cons (s : St) (h : Nat) : Prop :=
  match kvGet s h with
  | none => nameCount s.ents h = 0
  | some r => r.hl = h ∧ r.isDir = false ∧ nameCount s.ents h ≠ 0 ∧ r.cnt = (nameCount s.ents h : Int)

def ConsAll (s : St) : Prop := ∀ h, h ≠ 0 → Cons s h

theorem find_filter_ne (l : List (Nat × Entry)) (k k' : Nat) (h : k' ≠ k) :
    (l.filter fun x => x.1 != k).find? (fun x => x.1 == k') = l.find? (fun x => x.1 == k') := by
  have hk : (k == k') = false := by simpa using fun hh => h hh.symm
  induction l with
  | nil => rfl
  | cons x t ih =>
    by_cases hx : x.1 = k
    · simp [hx, hk, ih]
    · simp [List.find?_cons, hx, ih]

theorem kvGet_kvPut (s : St) (k k' : Nat) (r : Entry) : kvGet (kvPut s k r) k' = if k' = k then some r else kvGet s k' := by
  unfold kvGet kvPut
  simp only [List.find?_cons]
  by_cases h : k' = k
  · subst h; simp
  · have h' : (k == k') = false := by simpa using fun hh => h hh.symm
    simp only [h', h, if_false]
    rw [find_filter_ne _ _ _ h]

theorem kvGet_kvDel (s : St) (k k' : Nat) : kvGet (kvDel s k) k' = if k' = k then none else kvGet s k' := by
  unfold kvGet kvDel
  by_cases h : k' = k
  · subst h
    simp only [if_true, Option.map_eq_none_iff, List.find?_eq_none]
    intro x hx
    have := (List.mem_filter.mp hx).2
    simpa using this
  · simp only [h, if_false]
    rw [find_filter_ne _ _ _ h]

theorem nameCount_cons (x : RPath × Entry) (l : List (RPath × Entry)) (h : Nat) :
    nameCount (x :: l) h = nameCount l h + (if x.2.hl = h then 1 else 0) := by
  unfold nameCount
  rw [List.countP_cons]
  by_cases hx : x.2.hl = h <;> simp [hx]

theorem erase_of_absent {p : RPath} {l : List (RPath × Entry)} (h : ∀ e, (p, e) ∉ l) : erase p l = l := by
  unfold erase
  rw [List.filter_eq_self]
  intro x hx
  simp only [decide_eq_true_eq]
  intro hp
  rcases x with ⟨a, b⟩
  simp only at hp
  subst hp
  exact h b hx

theorem nameCount_erase {p : RPath} {l : List (RPath × Entry)} {ex : Entry} (nd : (l.map (·.1)).Nodup)
    (hm : (p, ex) ∈ l) (h : Nat) : nameCount (erase p l) h + (if ex.hl = h then 1 else 0) = nameCount l h := by
  induction l with
  | nil => simp at hm
  | cons x t ih =>
    simp only [List.map_cons, List.nodup_cons] at nd
    rcases List.mem_cons.mp hm with hx | hx
    · subst hx
      have habs : ∀ e, (p, e) ∉ t := fun e he => nd.1 (List.mem_map.mpr ⟨(p, e), he, rfl⟩)
      have : erase p ((p, ex) :: t) = t := by
        have := erase_of_absent habs
        simp only [erase, List.filter_cons] at this ⊢
        simpa using this
      rw [this, nameCount_cons]
    · have hne : x.1 ≠ p := by
        intro hp
        exact nd.1 (List.mem_map.mpr ⟨(p, ex), hx, hp.symm⟩)
      have : erase p (x :: t) = x :: erase p t := by simp [erase, hne]
      rw [this, nameCount_cons, nameCount_cons, ← ih nd.2 hx]
      omega

theorem nameCount_put_of_mem {p : RPath} {l : List (RPath × Entry)} {ex e : Entry} (nd : (l.map (·.1)).Nodup)
    (hm : (p, ex) ∈ l) (h : Nat) :
    nameCount (put l p e) h + (if ex.hl = h then 1 else 0) = nameCount l h + (if e.hl = h then 1 else 0) := by
  unfold put
  rw [nameCount_cons, ← nameCount_erase nd hm h]
  simp only
  omega

theorem nameCount_put_of_absent {p : RPath} {l : List (RPath × Entry)} {e : Entry} (ha : ∀ y, (p, y) ∉ l) (h : Nat) :
    nameCount (put l p e) h = nameCount l h + (if e.hl = h then 1 else 0) := by
  unfold put
  rw [nameCount_cons, erase_of_absent ha]

theorem kvGet_congr {s s' : St} (h : s'.kv = s.kv) (k : Nat) : kvGet s' k = kvGet s k := by
  unfold kvGet; rw [h]

theorem nameCount_pos_of_mem {l : List (RPath × Entry)} {x : RPath × Entry} (hx : x ∈ l) (h : Nat) (hh : x.2.hl = h) :
    nameCount l h ≠ 0 := by
  unfold nameCount
  have : 0 < l.countP fun y => y.2.hl == h := List.countP_pos_iff.mpr ⟨x, hx, by simp [hh]⟩
  omega

/-- a state change that touches neither the records nor the name counts keeps every identity consistent -/
theorem consAll_of_frame {s s' : St} (c : ConsAll s)
    (f : ∀ h, h ≠ 0 → kvGet s' h = kvGet s h ∧ nameCount s'.ents h = nameCount s.ents h) : ConsAll s' := by
  intro h hh
  have := c h hh
  unfold Cons at this ⊢
  rw [(f h hh).1, (f h hh).2]
  exact this

@[simp] theorem ents_wInsert (s : St) (p : RPath) (e : Entry) : (wInsert s p e).ents = put s.ents p e := by
  simp [wInsert]

theorem kv_wInsert_plain (s : St) (p : RPath) (e : Entry) (h0 : e.hl = 0) : (wInsert s p e).kv = s.kv := by
  simp [wInsert, handleUpdateToHardLinks, h0]

theorem kv_wInsert_same (s : St) (p : RPath) (e ex : Entry) (hk : e.hl ≠ 0) (hl : lookup p s.ents = some ex)
    (hs : ex.hl = e.hl ∨ ex.hl = 0) : (wInsert s p e).kv = (kvPut s e.hl e).kv := by
  simp only [wInsert, handleUpdateToHardLinks, hk, if_false, kvPut_ents, hl]
  have : ¬ (ex.hl ≠ 0 ∧ ex.hl ≠ e.hl) := by
    rcases hs with h | h
    · simp [h]
    · simp [h]
  simp [this]

theorem kv_wInsert_absent (s : St) (p : RPath) (e : Entry) (hk : e.hl ≠ 0) (hl : lookup p s.ents = none) :
    (wInsert s p e).kv = (kvPut s e.hl e).kv := by
  simp [wInsert, handleUpdateToHardLinks, hk, hl]

theorem ensureParent_frame (e : Entry) (q : RPath) : ∀ s, TreeInv s →
    (ensureParent e q s).1.kv = s.kv ∧ ∀ h, h ≠ 0 → nameCount (ensureParent e q s).1.ents h = nameCount s.ents h := by
  induction q with
  | nil => intro s _; simp [ensureParent]
  | cons n q ih =>
    intro s inv
    unfold ensureParent
    split
    · simp
    · rename_i hnone
      have IH := ih s inv
      have I3 := inv_ensureParent e q s inv
      rcases hr : ensureParent e q s with ⟨s1, b⟩
      rw [hr] at IH I3
      cases b with
      | false => exact IH
      | true =>
        simp only
        refine ⟨by rw [kv_wInsert_plain _ _ _ (by simp [mkdirEntry])]; exact IH.1, ?_⟩
        intro h hh
        have habs : ∀ y, (n :: q, y) ∉ s1.ents := by
          intro y hy
          exact find_none inv hnone y ((I3.2.2 (n :: q, y) (by simp)).mp hy)
        rw [ents_wInsert, nameCount_put_of_absent habs, IH.2 h hh]
        have : (mkdirEntry e).hl ≠ h := by simp [mkdirEntry]; omega
        simp [this]

/-- what `find` returns for a stored name of a consistent identity -/
theorem find_of_cons {s : St} (inv : TreeInv s) {p : RPath} {ex : Entry} (hm : (p, ex) ∈ s.ents) :
    (ex.hl = 0 → find s p = some ex) ∧
    (ex.hl ≠ 0 → Cons s ex.hl → ∃ r, kvGet s ex.hl = some r ∧ find s p = some r ∧ r.hl = ex.hl ∧ r.isDir = false
      ∧ r.cnt = (nameCount s.ents ex.hl : Int)) := by
  have hl := lookup_of_mem_nodup inv.nodup hm
  constructor
  · intro h0
    simp [find, hl, h0]
  · intro hk c
    unfold Cons at c
    cases hg : kvGet s ex.hl with
    | none =>
      rw [hg] at c
      exact absurd c (nameCount_pos_of_mem hm _ rfl)
    | some r =>
      rw [hg] at c
      exact ⟨r, rfl, by simp [find, hl, hk, hg], c.1, c.2.1, c.2.2.2⟩

theorem consAll_write {s : St} (inv : TreeInv s) (c : ConsAll s) (p : RPath) (tag : Nat) (chunks : List Nat) :
    ConsAll (step s (.write p tag chunks)).1 := by
  simp only [step]
  cases p with
  | nil => simpa [createEntry] using c
  | cons n par =>
    cases hf : find s (n :: par) with
    | none =>
      simp only [createEntry, hf]
      have F := ensureParent_frame { isDir := false, tag := tag, chunks := chunks, hl := 0, cnt := 0 } par s inv
      have I3 := inv_ensureParent { isDir := false, tag := tag, chunks := chunks, hl := 0, cnt := 0 } par s inv
      rcases hr : ensureParent { isDir := false, tag := tag, chunks := chunks, hl := 0, cnt := 0 } par s with ⟨s1, b⟩
      rw [hr] at F I3
      cases b with
      | false =>
        exact consAll_of_frame c fun h hh => ⟨kvGet_congr F.1 h, F.2 h hh⟩
      | true =>
        simp only
        refine consAll_of_frame c fun h hh => ⟨?_, ?_⟩
        · rw [kvGet_congr (kv_wInsert_plain _ _ _ rfl), kvGet_congr F.1]
        · have habs : ∀ y, (n :: par, y) ∉ s1.ents := by
            intro y hy
            exact find_none inv hf y ((I3.2.2 (n :: par, y) (by simp)).mp hy)
          rw [ents_wInsert, nameCount_put_of_absent habs, F.2 h hh]
          have : (0 : Nat) ≠ h := by omega
          simp [this]
    | some o =>
      rcases find_stored inv hf with ⟨ex, hm, hk⟩
      have hl := lookup_of_mem_nodup inv.nodup hm
      simp only [createEntry, hf, Bool.false_eq_true, if_false]
      by_cases hd : o.isDir = true
      · simp [hd]; exact c
      · have hd' : o.isDir = false := by simpa using hd
        simp only [hd', bne_self_eq_false, Bool.false_eq_true, if_false]
        have FC := find_of_cons inv hm
        by_cases h0 : ex.hl = 0
        · -- a plain file: nothing about links changes
          have ho : o = ex := by
            have := FC.1 h0
            rw [hf] at this
            exact Option.some.inj this
          subst ho
          have hkv0 := kv_wInsert_plain s (n :: par) { isDir := false, tag := tag, chunks := chunks, hl := o.hl, cnt := o.cnt } h0
          refine consAll_of_frame c fun h hh => ⟨?_, ?_⟩
          · rw [kvGet_congr hkv0]
          · have hc' : ∀ e : Entry, e.hl = o.hl → nameCount (put s.ents (n :: par) e) h = nameCount s.ents h := by
              intro e he
              have := nameCount_put_of_mem (e := e) inv.nodup hm h
              rw [he] at this
              omega
            rw [ents_wInsert]
            exact hc' _ rfl
        · -- through a name of identity ex.hl: the record is replaced, the counts stay
          rcases FC.2 h0 (c _ h0) with ⟨r, hg, hfr, hrl, hrf, hrc⟩
          have ho : o = r := by rw [hf] at hfr; exact Option.some.inj hfr
          subst ho
          have hne : ({ isDir := false, tag := tag, chunks := chunks, hl := o.hl, cnt := o.cnt } : Entry).hl ≠ 0 := by
            simp [hrl, h0]
          have hkv := kv_wInsert_same s (n :: par) { isDir := false, tag := tag, chunks := chunks, hl := o.hl, cnt := o.cnt } ex
            hne hl (Or.inl (by simp [hrl]))
          intro h hh
          have hcount' : ∀ e : Entry, e.hl = o.hl → nameCount (put s.ents (n :: par) e) h = nameCount s.ents h := by
            intro e he
            have := nameCount_put_of_mem (e := e) inv.nodup hm h
            rw [he, hrl] at this
            omega
          have hcount := hcount' { isDir := false, tag := tag, chunks := chunks, hl := o.hl, cnt := o.cnt } rfl
          unfold Cons
          rw [kvGet_congr hkv, kvGet_kvPut, ents_wInsert, hcount]
          simp only
          by_cases hhk : h = o.hl
          · subst hhk
            rw [if_pos rfl]
            exact ⟨rfl, rfl, nameCount_pos_of_mem hm _ hrl.symm, by rw [hrc, hrl]⟩
          · rw [if_neg hhk]
            exact c h hh

/-! ### unlink -/

theorem deleteEntry_file {s : St} {n : String} {par : RPath} {o : Entry} (hf : find s (n :: par) = some o)
    (hd : o.isDir = false) (r dc : Bool) : (deleteEntry s (n :: par) r dc).1 = deleteOne s (n :: par) o := by
  unfold deleteEntry
  simp only [hf, hd, Bool.false_eq_true, if_false]
  cases dc <;> simp

theorem consAll_deleteOne {s : St} (inv : TreeInv s) (c : ConsAll s) {p : RPath} {ex o : Entry}
    (hm : (p, ex) ∈ s.ents) (hf : find s p = some o) : ConsAll (deleteOne s p o) := by
  have FC := find_of_cons inv hm
  by_cases h0 : ex.hl = 0
  · have ho : o = ex := by
      have := FC.1 h0
      rw [hf] at this
      exact Option.some.inj this
    subst ho
    refine consAll_of_frame c fun h hh => ⟨?_, ?_⟩
    · simp [deleteOne, h0, kvGet]
    · have := nameCount_erase inv.nodup hm h
      have hne : o.hl ≠ h := by omega
      simp only [hne, if_false] at this
      simp only [deleteOne, h0]
      simpa using this
  · rcases FC.2 h0 (c _ h0) with ⟨r, hg, hfr, hrl, hrf, hrc⟩
    have ho : o = r := by rw [hf] at hfr; exact Option.some.inj hfr
    subst ho
    have hok : o.hl ≠ 0 := by rw [hrl]; exact h0
    rw [← hrl] at hg hrc
    have hpos : nameCount s.ents o.hl ≠ 0 := nameCount_pos_of_mem hm _ hrl.symm
    intro h hh
    have hcnt := nameCount_erase inv.nodup hm h
    rw [← hrl] at hcnt
    unfold Cons
    have hents : (deleteOne s p o).ents = erase p s.ents := by simp [deleteOne, hok]
    have hkv0 : (deleteOne s p o).kv = (deleteHardLink s o.hl).kv := by simp [deleteOne, hok]
    rw [hents, kvGet_congr hkv0]
    by_cases hle : o.cnt - 1 ≤ 0
    · have hdl : deleteHardLink s o.hl = kvDel s o.hl := by simp [deleteHardLink, hg, hle]
      rw [hdl, kvGet_kvDel]
      by_cases hhk : h = o.hl
      · subst hhk
        simp only [if_true] at hcnt ⊢
        omega
      · have hne : o.hl ≠ h := fun hh' => hhk hh'.symm
        simp only [hne, if_false, Nat.add_zero] at hcnt
        rw [if_neg hhk, hcnt]
        exact c h hh
    · have hdl : deleteHardLink s o.hl = kvPut s o.hl { o with cnt := o.cnt - 1 } := by simp [deleteHardLink, hg, hle]
      rw [hdl, kvGet_kvPut]
      by_cases hhk : h = o.hl
      · subst hhk
        simp only [if_true] at hcnt ⊢
        exact ⟨trivial, hrf, by omega, by omega⟩
      · have hne : o.hl ≠ h := fun hh' => hhk hh'.symm
        simp only [hne, if_false, Nat.add_zero] at hcnt
        rw [if_neg hhk, hcnt]
        exact c h hh

theorem consAll_unlink {s : St} (inv : TreeInv s) (c : ConsAll s) (p : RPath)
    (hfile : ∀ o, find s p = some o → o.isDir = false) : ConsAll (step s (.unlink p)).1 := by
  simp only [step]
  cases hf : find s p with
  | none => exact c
  | some o =>
    simp only
    cases p with
    | nil => simpa [deleteEntry] using c
    | cons n par =>
      rcases find_stored inv hf with ⟨ex, hm, _⟩
      have := deleteEntry_file hf (hfile o hf) false (decide (o.cnt ≤ 1))
      rcases hde : deleteEntry s (n :: par) false (decide (o.cnt ≤ 1)) with ⟨s', r, d⟩
      rw [hde] at this
      simp only at this ⊢
      rw [this]
      exact consAll_deleteOne inv c hm hf

/-! ### link -/

/-- client contract of Dir.Link: a plain source gets a new, unused, non-zero identity (16 random bytes in the code) -/
def LinkFresh (s : St) (src : RPath) (h : Nat) : Prop :=
  ∀ ex, (src, ex) ∈ s.ents → ex.hl = 0 → h ≠ 0 ∧ kvGet s h = none

theorem ensureParent_present (e : Entry) (s : St) (par : RPath)
    (h : par = [] ∨ ∃ d, find s par = some d ∧ d.isDir = true) : ensureParent e par s = (s, true) := by
  cases par with
  | nil => rfl
  | cons n q =>
    rcases h with h | ⟨d, hd, hdir⟩
    · cases h
    · unfold ensureParent
      rw [hd]
      simp [hdir]

theorem find_of_lookup_plain {s : St} {p : RPath} {e : Entry} (hl : lookup p s.ents = some e) (h0 : e.hl = 0) :
    find s p = some e := by
  simp [find, hl, h0]

theorem consAll_linkOp {s : St} (inv : TreeInv s) (c : ConsAll s) (src dst : RPath) (h : Nat)
    (fresh : LinkFresh s src h) : ConsAll (linkOp s src dst h).1 := by
  unfold linkOp
  cases hf : find s src with
  | none => exact c
  | some o =>
    simp only
    split
    · exact c
    · rename_i hc
      have hfile : o.isDir = false := by
        cases hd : o.isDir with
        | false => rfl
        | true => simp [hd] at hc
      have hto : linkTargetOk s dst = true := by
        cases ht : linkTargetOk s dst with
        | true => rfl
        | false => simp [ht] at hc
      rcases find_stored inv hf with ⟨ex, hm, hk⟩
      have hex : ex.isDir = false := by rw [hk, hfile]
      have hlsrc := lookup_of_mem_nodup inv.nodup hm
      have FC := find_of_cons inv hm
      -- the linked entry and the identity it belongs to
      have hL : ∃ k, k ≠ 0 ∧ (linked o h).hl = k ∧ (linked o h).isDir = false ∧ (ex.hl = k ∨ ex.hl = 0) ∧
          (linked o h).cnt = (nameCount s.ents k : Int) + (if ex.hl = k then 0 else 1) + 1 := by
        by_cases h0 : ex.hl = 0
        · have ho : o = ex := by
            have := FC.1 h0
            rw [hf] at this
            exact Option.some.inj this
          subst ho
          rcases fresh o hm h0 with ⟨hne, hnone⟩
          have hc0 : nameCount s.ents h = 0 := by
            have := c h hne
            unfold Cons at this
            rw [hnone] at this
            exact this
          refine ⟨h, hne, by simp [linked, h0], by simp [linked, h0, hfile], Or.inr h0, ?_⟩
          have h1 : o.hl ≠ h := by omega
          have h2 : ¬ (0 = h) := fun e => hne e.symm
          simp [linked, h0, hc0, h2]
        · rcases FC.2 h0 (c _ h0) with ⟨r, hg, hfr, hrl, hrf, hrc⟩
          have ho : o = r := by rw [hf] at hfr; exact Option.some.inj hfr
          subst ho
          have hok : o.hl ≠ 0 := by rw [hrl]; exact h0
          refine ⟨ex.hl, h0, by unfold linked; rw [if_neg hok]; exact hrl, by unfold linked; rw [if_neg hok]; exact hrf,
            Or.inl rfl, ?_⟩
          unfold linked
          rw [if_neg hok]
          simp [hrc]
      rcases hL with ⟨k, hk0, hLk, hLf, hexk, hLc⟩
      generalize linked o h = L at hLk hLf hLc
      -- first request: UpdateEntry(old name)
      have inv1 : TreeInv (wInsert s src L) := by
        refine inv_wInsert inv (by simp [hLf]) (inv.parent _ hm).1 (inv.parent _ hm).2 ?_
        intro e1 h1
        rw [mem_unique inv.nodup h1 hm, hex, hLf]
      have hkv1 : (wInsert s src L).kv = (kvPut s k L).kv := by
        rw [← hLk]
        exact kv_wInsert_same s src L ex (by rw [hLk]; exact hk0) hlsrc (by rw [hLk]; exact hexk)
      -- second request: CreateEntry(new name); the VFS checks say the name is new and its directory is there
      cases dst with
      | nil => simp [linkTargetOk] at hto
      | cons n par =>
        simp only [linkTargetOk, Bool.and_eq_true, Option.isNone_iff_eq_none] at hto
        have hdne : n :: par ≠ src := by
          intro heq
          rw [heq, hf] at hto
          cases hto.1
        have habs : ∀ y, (n :: par, y) ∉ s.ents := find_none inv hto.1
        have habs1 : ∀ y, (n :: par, y) ∉ (wInsert s src L).ents := by
          intro y hy
          rcases mem_wInsert.mp hy with h1 | ⟨h1, _⟩
          · exact hdne (congrArg Prod.fst h1)
          · exact habs y h1
        have hfind1 : find (wInsert s src L) (n :: par) = none := by
          unfold find
          rw [lookup_none_of_not_mem habs1]
        have hpar : par = [] ∨ ∃ d, find (wInsert s src L) par = some d ∧ d.isDir = true := by
          cases par with
          | nil => exact Or.inl rfl
          | cons m q =>
            right
            have h2 := hto.2
            simp only at h2
            cases hfp : find s (m :: q) with
            | none => simp [hfp] at h2
            | some d =>
              simp [hfp] at h2
              rcases find_stored inv hfp with ⟨d0, hd0, hdk⟩
              have hd0dir : d0.isDir = true := by rw [hdk]; exact h2
              have hne : m :: q ≠ src := by
                intro heq
                rw [heq] at hd0
                rw [mem_unique inv.nodup hd0 hm, hex] at hd0dir
                cases hd0dir
              have hmem : (m :: q, d0) ∈ (wInsert s src L).ents := mem_wInsert.mpr (Or.inr ⟨hd0, hne⟩)
              exact ⟨d0, find_of_lookup_plain (lookup_of_mem_nodup inv1.nodup hmem) (inv.dirNoLink _ hd0 hd0dir), hd0dir⟩
        simp only [createEntry, hfind1, ensureParent_present L _ par hpar]
        have hkv2 : (wInsert (wInsert s src L) (n :: par) L).kv = (kvPut (kvPut s k L) k L).kv := by
          have := kv_wInsert_absent (wInsert s src L) (n :: par) L (by rw [hLk]; exact hk0) (lookup_none_of_not_mem habs1)
          rw [this, hLk]
          simp only [kvPut, hkv1]
        intro h' hh'
        unfold Cons
        rw [kvGet_congr hkv2, kvGet_kvPut, kvGet_kvPut, ents_wInsert, nameCount_put_of_absent habs1, ents_wInsert]
        have hc1 := nameCount_put_of_mem (e := L) inv.nodup hm h'
        rw [hLk] at hc1 ⊢
        by_cases hhk : h' = k
        · subst hhk
          simp only [if_true] at hc1 ⊢
          refine ⟨hLk, hLf, by omega, ?_⟩
          rw [hLc]
          rcases hexk with he | he
          · simp only [he, if_true] at hc1 ⊢
            omega
          · have : ex.hl ≠ h' := by omega
            simp only [this, if_false] at hc1 ⊢
            omega
        · have hne : k ≠ h' := fun e => hhk e.symm
          have hne2 : ex.hl ≠ h' := by
            rcases hexk with he | he <;> omega
          simp only [hhk, hne, hne2, if_false, Nat.add_zero] at hc1 ⊢
          rw [hc1]
          exact c h' hh'

theorem consAll_link {s : St} (inv : TreeInv s) (c : ConsAll s) (src dst : RPath) (h : Nat)
    (fresh : LinkFresh s src h) : ConsAll (step s (.link src dst h)).1 := by
  simp only [step]
  have := consAll_linkOp inv c src dst h fresh
  rcases hlo : linkOp s src dst h with ⟨s', r, q⟩
  rw [hlo] at this
  exact this

/-! ### plain creates and file deletes -/

/-- deleting a FILE (any flags) keeps every identity consistent -/
theorem consAll_delete_file {s : St} (inv : TreeInv s) (c : ConsAll s) (p : RPath) (r i dc : Bool)
    (hfile : ∀ o, find s p = some o → o.isDir = false) : ConsAll (step s (.delete p r i dc)).1 := by
  simp only [step]
  cases p with
  | nil => simpa [deleteEntry] using c
  | cons n par =>
    cases hf : find s (n :: par) with
    | none => simpa [deleteEntry, hf] using c
    | some o =>
      rcases find_stored inv hf with ⟨ex, hm, _⟩
      have := deleteEntry_file hf (hfile o hf) r dc
      rcases hde : deleteEntry s (n :: par) r dc with ⟨s', r', d⟩
      rw [hde] at this
      simp only at this ⊢
      rw [this]
      exact consAll_deleteOne inv c hm hf

/-- creating / overwriting with a plain entry at a path that does not hold a linked name keeps every identity consistent -/
theorem consAll_create_plain {s : St} (inv : TreeInv s) (c : ConsAll s) (p : RPath) (e : Entry) (x : Bool)
    (he : e.hl = 0) (hp : ∀ ex, (p, ex) ∈ s.ents → ex.hl = 0) : ConsAll (step s (.create p e x)).1 := by
  simp only [step]
  have goal : ConsAll (createEntry s p e x).1 := by
    cases p with
    | nil => simpa [createEntry] using c
    | cons n par =>
      cases hf : find s (n :: par) with
      | none =>
        simp only [createEntry, hf]
        have F := ensureParent_frame e par s inv
        have I3 := inv_ensureParent e par s inv
        rcases hr : ensureParent e par s with ⟨s1, b⟩
        rw [hr] at F I3
        cases b with
        | false => exact consAll_of_frame c fun h hh => ⟨kvGet_congr F.1 h, F.2 h hh⟩
        | true =>
          simp only
          refine consAll_of_frame c fun h hh => ⟨?_, ?_⟩
          · rw [kvGet_congr (kv_wInsert_plain _ _ _ he), kvGet_congr F.1]
          · have habs : ∀ y, (n :: par, y) ∉ s1.ents := by
              intro y hy
              exact find_none inv hf y ((I3.2.2 (n :: par, y) (by simp)).mp hy)
            rw [ents_wInsert, nameCount_put_of_absent habs, F.2 h hh]
            have : e.hl ≠ h := by omega
            simp [this]
      | some o =>
        rcases find_stored inv hf with ⟨ex, hm, _⟩
        simp only [createEntry, hf]
        split
        · exact c
        · split
          · exact c
          · refine consAll_of_frame c fun h hh => ⟨?_, ?_⟩
            · rw [kvGet_congr (kv_wInsert_plain _ _ _ he)]
            · have := nameCount_put_of_mem (e := e) inv.nodup hm h
              have h1 : ex.hl ≠ h := by have := hp ex hm; omega
              have h2 : e.hl ≠ h := by omega
              simp only [h1, h2, if_false] at this
              rw [ents_wInsert]
              omega
  rcases hc : createEntry s p e x with ⟨s', r, q⟩
  rw [hc] at goal
  exact goal

end SwV.Lemmas.C21
