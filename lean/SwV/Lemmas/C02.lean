/-
C02 — helper lemmas for the needle encoding theorems (core Lean only).
-/
import SwV.Model.C02
import SwV.Spec.C02
namespace SwV.Lemmas.C02
open SwV.Model.C02 SwV.Spec.C02

/-! ### big-endian fields -/

@[simp] theorem length_be (k n : Nat) : (be k n).length = k := by
  induction k with
  | zero => rfl
  | succ k ih => simp [be, ih]

theorem foldl_be (k n acc : Nat) :
    (be k n).foldl (fun a (b : UInt8) => a * 256 + b.toNat) acc = acc * 256 ^ k + n % 256 ^ k := by
  induction k generalizing acc with
  | zero => simp [be, Nat.mod_one]
  | succ k ih =>
    simp only [be, List.foldl_cons, ih]
    have h1 : (UInt8.ofNat (n / 256 ^ k % 256)).toNat = n / 256 ^ k % 256 := by
      rw [UInt8.toNat_ofNat']; omega
    rw [h1, Nat.mod_pow_succ (x := n) (b := 256) (k := k), Nat.pow_succ]
    generalize 256 ^ k = P
    generalize n / P % 256 = B
    generalize n % P = R
    rw [Nat.add_mul, Nat.mul_assoc, Nat.mul_comm 256 P, Nat.mul_comm P B]
    omega

theorem beNat_be (k n : Nat) : beNat (be k n) = n % 256 ^ k := by
  unfold beNat; rw [foldl_be]; simp

theorem beNat_be_of_lt (k n : Nat) (h : n < 256 ^ k) : beNat (be k n) = n := by
  rw [beNat_be, Nat.mod_eq_of_lt h]

@[simp] theorem take_be_append (k n : Nat) (l : Bytes) : (be k n ++ l).take k = be k n :=
  List.take_left' (length_be k n)

@[simp] theorem drop_be_append (k n : Nat) (l : Bytes) : (be k n ++ l).drop k = l :=
  List.drop_left' (length_be k n)

theorem toInt32_of_lt (n : Nat) (h : n < 2 ^ 31) : toInt32 n = (n : Int) := by
  simp [toInt32, h]

/-! ### sizes -/

theorem padding_range (size v : Nat) : 1 ≤ paddingLength size v ∧ paddingLength size v ≤ 8 := by
  unfold paddingLength; omega

theorem actualSize_mod8 (size v : Nat) : actualSize size v % 8 = 0 := by
  unfold actualSize bodyLength paddingLength tsLen
  split <;> omega

theorem wrap32_id (x : Int) (h1 : -(2 ^ 31) ≤ x) (h2 : x < 2 ^ 31) : wrap32 x = x := by
  unfold wrap32; omega

theorem paddingLengthI_eq (size v : Nat) (h : size + 28 < 2 ^ 31) :
    paddingLengthI (size : Int) v = (paddingLength size v : Nat) := by
  unfold paddingLengthI paddingLength
  have ht : tsLen v ≤ 8 := by unfold tsLen; split <;> omega
  have h1 : wrap32 (16 + (size : Int) + 4 + (tsLen v : Nat)) = ((16 + size + 4 + tsLen v : Nat) : Int) := by
    rw [wrap32_id] <;> omega
  rw [h1, Int.tmod_eq_emod_of_nonneg (by omega)]
  rw [wrap32_id] <;> omega

theorem bodyLengthI_eq (size v : Nat) (h : size + 28 < 2 ^ 31) :
    bodyLengthI (size : Int) v = (bodyLength size v : Nat) := by
  unfold bodyLengthI bodyLength
  rw [paddingLengthI_eq size v h]; omega

theorem actualSizeI_eq (size v : Nat) (h : size + 28 < 2 ^ 31) :
    actualSizeI (size : Int) v = (actualSize size v : Nat) := by
  unfold actualSizeI actualSize
  rw [bodyLengthI_eq size v h]; omega

/-! ### parser stages on the sections written by the encoder -/

theorem nameSize_of_lt (n : Needle) (h : n.name.length < 256) : nameSize n = n.name.length := by
  unfold nameSize; split <;> omega

theorem mimeSize_of_lt (n : Needle) (h : n.mime.length < 256) : mimeSize n = n.mime.length := by
  unfold mimeSize; omega

theorem u8_toNat_ofNat (k : Nat) (h : k < 256) : (UInt8.ofNat k).toNat = k := by
  rw [UInt8.toNat_ofNat']; omega

def withName (n : Needle) (b : Body) : Body :=
  { b with nameSize := if hasName n.flags then n.name.length else b.nameSize, name := if hasName n.flags then n.name else b.name }
def withMime (n : Needle) (b : Body) : Body :=
  { b with mimeSize := if hasMime n.flags then n.mime.length else b.mimeSize, mime := if hasMime n.flags then n.mime else b.mime }
def withLm (n : Needle) (b : Body) : Body :=
  { b with lastModified := if hasLastModified n.flags then n.lastModified else b.lastModified }
def withTtl (n : Needle) (b : Body) : Body :=
  { b with ttl := if hasTtl n.flags then n.ttl else b.ttl }
def withPairs (n : Needle) (b : Body) : Body :=
  { b with pairsSize := if hasPairs n.flags then n.pairs.length else b.pairsSize, pairs := if hasPairs n.flags then n.pairs else b.pairs }

theorem stData_ok (data : Bytes) (flags : UInt8) (tail : Bytes) (r : Nat)
    (hd : 0 < data.length) (hl : data.length < 2 ^ 32) :
    stData ⟨be 4 data.length ++ (data ++ (flags :: tail)), 4 + data.length + 1 + r⟩ {} =
      .ok (⟨tail, r⟩, { dataSize := data.length, data := data, flags := flags }) := by
  have h4 : beNat (be 4 data.length) = data.length := beNat_be_of_lt 4 _ (by omega)
  unfold stData
  simp only [take_be_append, drop_be_append, h4, List.length_append, length_be, List.take_left, List.drop_left]
  have e1 : ¬ (4 + data.length + 1 + r = 0) := by omega
  have e2 : ¬ (4 + (data.length + (flags :: tail).length) < 4) := by omega
  have e3 : ¬ (data.length + 4 > 4 + data.length + 1 + r) := by omega
  have e4 : ¬ (data.length + 4 ≥ 4 + data.length + 1 + r) := by omega
  simp only [e1, e2, e3, e4, if_false]
  have e5 : 4 + data.length + 1 + r - (data.length + 5) = r := by omega
  simp [e5]

theorem stName_ok (n : Needle) (b : Body) (tail : Bytes) (r : Nat) (hf : b.flags = n.flags)
    (hl : n.name.length < 256) :
    stName ⟨nameSec n ++ tail, (nameSec n).length + r⟩ b =
      .ok (⟨tail, r⟩, withName n b) := by
  unfold withName stName nameSec
  have hns := nameSize_of_lt n hl
  by_cases h : hasName n.flags = true
  · have hu := u8_toNat_ofNat n.name.length hl
    simp only [h, hf, hns, if_true, List.take_length, List.cons_append, List.length_cons]
    have e1 : ¬ (n.name.length + 1 + r = 0 ∨ true = false) := by simp
    simp only [e1, if_false, hu]
    have e2 : ¬ (n.name.length + 1 > n.name.length + 1 + r) := by omega
    simp only [e2, if_false, List.take_left, List.drop_left]
    have e3 : n.name.length + 1 + r - 1 - n.name.length = r := by omega
    rw [e3]
  · have h' : hasName n.flags = false := by simpa using h
    simp [h', hf]
    cases b; simp_all

theorem stMime_ok (n : Needle) (b : Body) (tail : Bytes) (r : Nat) (hf : b.flags = n.flags)
    (hl : n.mime.length < 256) :
    stMime ⟨mimeSec n ++ tail, (mimeSec n).length + r⟩ b =
      .ok (⟨tail, r⟩, withMime n b) := by
  unfold withMime stMime mimeSec
  have hns := mimeSize_of_lt n hl
  by_cases h : hasMime n.flags = true
  · have hu := u8_toNat_ofNat n.mime.length hl
    simp only [h, hf, hns, if_true, List.cons_append, List.length_cons]
    have e1 : ¬ (n.mime.length + 1 + r = 0 ∨ true = false) := by simp
    simp only [e1, if_false, hu]
    have e2 : ¬ (n.mime.length + 1 > n.mime.length + 1 + r) := by omega
    simp only [e2, if_false, List.take_left, List.drop_left]
    have e3 : n.mime.length + 1 + r - 1 - n.mime.length = r := by omega
    rw [e3]
  · have h' : hasMime n.flags = false := by simpa using h
    simp [h', hf]
    cases b; simp_all

theorem stLm_ok (n : Needle) (b : Body) (tail : Bytes) (r : Nat) (hf : b.flags = n.flags)
    (hl : n.lastModified < 2 ^ 40) :
    stLm ⟨lmSec n ++ tail, (lmSec n).length + r⟩ b =
      .ok (⟨tail, r⟩, withLm n b) := by
  unfold withLm stLm lmSec
  by_cases h : hasLastModified n.flags = true
  · have h5 : beNat (be 5 n.lastModified) = n.lastModified := beNat_be_of_lt 5 _ (by omega)
    simp only [h, hf, if_true, length_be, take_be_append, drop_be_append, h5]
    have e1 : ¬ (5 + r = 0 ∨ true = false) := by simp
    have e2 : ¬ (5 > 5 + r) := by omega
    simp only [e1, e2, if_false]
    have e3 : 5 + r - 5 = r := by omega
    rw [e3]
  · have h' : hasLastModified n.flags = false := by simpa using h
    simp [h', hf]
    cases b; simp_all

theorem stTtl_ok (n : Needle) (b : Body) (tail : Bytes) (r : Nat) (hf : b.flags = n.flags)
    (ht : hasTtl n.flags = true → n.ttl.isSome = true) :
    stTtl ⟨ttlSec n ++ tail, (ttlSec n).length + r⟩ b =
      .ok (⟨tail, r⟩, withTtl n b) := by
  unfold withTtl stTtl ttlSec
  by_cases h : hasTtl n.flags = true
  · have hs := ht h
    cases ht' : n.ttl with
    | none => simp [ht'] at hs
    | some cu =>
      obtain ⟨c, u⟩ := cu
      simp only [h, hf, if_true, List.cons_append, List.length_cons, List.length_nil, List.nil_append]
      have e1 : ¬ (0 + 1 + 1 + r = 0 ∨ true = false) := by simp
      have e2 : ¬ (2 > 0 + 1 + 1 + r) := by omega
      simp only [e1, e2, if_false]
      have e3 : 0 + 1 + 1 + r - 2 = r := by omega
      rw [e3]
  · have h' : hasTtl n.flags = false := by simpa using h
    simp [h', hf]
    cases b; simp_all

theorem stPairs_ok (n : Needle) (b : Body) (tail : Bytes) (r : Nat) (hf : b.flags = n.flags)
    (hp : n.pairsSize = n.pairs.length) (hl : n.pairs.length < 65536) :
    stPairs ⟨pairsSec n ++ tail, (pairsSec n).length + r⟩ b =
      .ok (⟨tail, r⟩, withPairs n b) := by
  unfold withPairs stPairs pairsSec
  by_cases h : hasPairs n.flags = true
  · have h2 : beNat (be 2 n.pairs.length) = n.pairs.length := beNat_be_of_lt 2 _ (by omega)
    simp only [h, hf, hp, if_true, List.append_assoc, List.length_append, length_be, take_be_append, drop_be_append, h2,
      List.take_left, List.drop_left]
    have e1 : ¬ (2 + n.pairs.length + r = 0 ∨ true = false) := by simp
    have e2 : ¬ (2 > 2 + n.pairs.length + r) := by omega
    have e3 : ¬ (n.pairs.length + 2 > 2 + n.pairs.length + r) := by omega
    simp only [e1, e2, e3, if_false]
    have e4 : 2 + n.pairs.length + r - 2 - n.pairs.length = r := by omega
    rw [e4]
  · have h' : hasPairs n.flags = false := by simpa using h
    simp [h', hf]
    cases b; simp_all

/-! ### the whole body -/

/-- what the remaining-length counter must be before the metadata sections -/
theorem metaBytes_length (n : Needle) (hn : n.name.length < 256) (hm : n.mime.length < 256)
    (ht : hasTtl n.flags = true → n.ttl.isSome = true) (hp : n.pairsSize = n.pairs.length) :
    (metaBytes n).length =
      (if hasName n.flags then 1 + nameSize n else 0) + (if hasMime n.flags then 1 + mimeSize n else 0)
      + (if hasLastModified n.flags then 5 else 0) + (if hasTtl n.flags then 2 else 0)
      + (if hasPairs n.flags then 2 + n.pairsSize else 0) := by
  have h1 : (nameSec n).length = if hasName n.flags then 1 + nameSize n else 0 := by
    unfold nameSec; split
    · simp [nameSize_of_lt n hn]; omega
    · rfl
  have h2 : (mimeSec n).length = if hasMime n.flags then 1 + mimeSize n else 0 := by
    unfold mimeSec; split
    · simp [mimeSize_of_lt n hm]; omega
    · rfl
  have h3 : (lmSec n).length = if hasLastModified n.flags then 5 else 0 := by
    unfold lmSec; split <;> simp
  have h4 : (ttlSec n).length = if hasTtl n.flags then 2 else 0 := by
    unfold ttlSec; split
    · rename_i h
      have := ht h
      cases h' : n.ttl with
      | none => simp [h'] at this
      | some cu => rfl
    · rfl
  have h5 : (pairsSec n).length = if hasPairs n.flags then 2 + n.pairsSize else 0 := by
    unfold pairsSec; split
    · simp [hp]
    · rfl
  unfold metaBytes
  simp only [List.length_append, h1, h2, h3, h4, h5]
  omega

theorem bodyBytes_length (crc : Bytes → UInt32) (n : Needle) (h : WF crc n) : (bodyBytes n).length = recSize n := by
  obtain ⟨_, _, hn, hm, _, ht, hp, _, _, _, _⟩ := h
  unfold bodyBytes recSize
  split
  · simp only [List.length_append, length_be, List.length_cons, metaBytes_length n hn hm ht hp]
    omega
  · rfl

theorem recSize_lt (crc : Bytes → UInt32) (n : Needle) (h : WF crc n) : recSize n + 28 < 2 ^ 31 := by
  obtain ⟨_, _, hn, hm, _, _, hp, hpl, _, _, hd⟩ := h
  have h1 := nameSize_of_lt n hn
  have h2 := mimeSize_of_lt n hm
  unfold recSize
  split
  · split <;> split <;> split <;> split <;> split <;> omega
  · omega

/-- `readNeedleDataVersion2` on the bytes written by `prepareWriteBuffer` (whatever follows them) returns every
    stored field -/
theorem parseBody_encode (crc : Bytes → UInt32) (n : Needle) (h : WF crc n) (hd : 0 < n.data.length) (tail : Bytes) :
    parseBody (bodyBytes n ++ tail) (recSize n) = .ok (storedBody n) := by
  have hlen := bodyBytes_length crc n h
  obtain ⟨_, _, hn, hm, hlm, ht, hp, hpl, _, _, hdl⟩ := h
  have hrec : recSize n = 4 + n.data.length + 1 +
      ((nameSec n).length + ((mimeSec n).length + ((lmSec n).length + ((ttlSec n).length + ((pairsSec n).length + 0))))) := by
    rw [← hlen]; unfold bodyBytes metaBytes
    simp only [hd, if_true, List.length_append, length_be, List.length_cons]
    omega
  unfold parseBody
  have hb : bodyBytes n ++ tail = be 4 n.data.length ++ (n.data ++ (n.flags ::
      (nameSec n ++ (mimeSec n ++ (lmSec n ++ (ttlSec n ++ (pairsSec n ++ tail))))))) := by
    unfold bodyBytes metaBytes
    simp only [hd, if_true, List.append_assoc, List.cons_append]
  rw [hb, hrec, stData_ok n.data n.flags _ _ hd (by omega)]
  simp only []
  rw [stName_ok n _ _ _ rfl hn]
  simp only []
  rw [stMime_ok n _ _ _ rfl hm]
  simp only []
  rw [stLm_ok n _ _ _ rfl hlm]
  simp only []
  rw [stTtl_ok n _ _ _ rfl ht]
  simp only []
  rw [stPairs_ok n _ _ _ rfl hp hpl]
  rfl

/-! ### the whole record -/

theorem crcValue_lt (c : Nat) : crcValue c < 2 ^ 32 := by
  unfold crcValue; exact Nat.mod_lt _ (by decide)

theorem padSource_length (v : Nat) (n : Needle) : 8 ≤ (padSource v n).length := by
  unfold padSource; split
  · simp
  · simp only [List.length_append, length_be]; split <;> simp

theorem tailBytes_length (v : Nat) (n : Needle) :
    (tailBytes v n).length = 4 + tsLen v + paddingLength (recSize n) v := by
  unfold tailBytes tsLen
  have hp := padding_range (recSize n) v
  have hs := padSource_length v n
  simp only [List.length_append, length_be, List.length_take]
  split <;> simp <;> omega

theorem encode_length (crc : Bytes → UInt32) (v : Nat) (n : Needle) (h : WF crc n) :
    (encode v n).length = actualSize (recSize n) v := by
  unfold encode headerBytes actualSize bodyLength
  simp only [List.length_append, length_be, bodyBytes_length crc n h, tailBytes_length]
  omega

theorem parseBody_zero (rest : Bytes) : parseBody rest 0 = .ok {} := by
  simp [parseBody, stData, stName, stMime, stLm, stTtl, stPairs]

theorem parseHeader_encode (crc : Bytes → UInt32) (v : Nat) (n : Needle) (h : WF crc n) (more : Bytes) :
    parseHeader (encode v n ++ more) = (n.cookie, n.id, (recSize n : Int)) := by
  have hs := recSize_lt crc n h
  obtain ⟨hc, hi, _⟩ := h
  unfold parseHeader encode headerBytes
  simp only [List.append_assoc, take_be_append, drop_be_append]
  have e1 : (be 8 n.id ++ (be 4 (recSize n) ++ (bodyBytes n ++ (tailBytes v n ++ more)))).drop 8 =
      be 4 (recSize n) ++ (bodyBytes n ++ (tailBytes v n ++ more)) := drop_be_append _ _ _
  have e2 : List.drop 12 (be 4 n.cookie ++ (be 8 n.id ++ (be 4 (recSize n) ++ (bodyBytes n ++ (tailBytes v n ++ more))))) =
      be 4 (recSize n) ++ (bodyBytes n ++ (tailBytes v n ++ more)) := by
    have : (12 : Nat) = 4 + 8 := rfl
    rw [this, ← List.drop_drop, drop_be_append, drop_be_append]
  rw [e2, take_be_append, beNat_be_of_lt 4 _ (by omega), beNat_be_of_lt 8 _ (by omega), beNat_be_of_lt 4 _ (by omega),
    toInt32_of_lt _ (by omega)]

theorem drop16_encode (v : Nat) (n : Needle) (more : Bytes) :
    (encode v n ++ more).drop 16 = bodyBytes n ++ (tailBytes v n ++ more) := by
  unfold encode headerBytes
  have : (16 : Nat) = 4 + (8 + 4) := rfl
  simp only [List.append_assoc]
  rw [this, ← List.drop_drop, drop_be_append, ← List.drop_drop, drop_be_append, drop_be_append]

/-- what `parseBody` returns on a record written by the encoder: the stored fields, or nothing for an empty blob -/
theorem parseBody_record (crc : Bytes → UInt32) (n : Needle) (h : WF crc n) (tail : Bytes) :
    parseBody (bodyBytes n ++ tail) (recSize n) = .ok (if n.data.length > 0 then storedBody n else {}) := by
  by_cases hd : 0 < n.data.length
  · simp only [hd, if_true]; exact parseBody_encode crc n h hd tail
  · have : recSize n = 0 := by unfold recSize; simp [hd]
    rw [this]; simp only [hd, if_false]; exact parseBody_zero _

/-- `ReadBytes` on the bytes of one record -/
theorem readBytes_encode (crc : Bytes → UInt32) (v : Nat) (n : Needle) (h : WF crc n) :
    readBytes crc v (encode v n) (recSize n) = .ok (expectedDecode v n) := by
  have hlen := encode_length crc v n h
  have hhdr := parseHeader_encode crc v n h []
  have hdrop := drop16_encode v n []
  have hbody := parseBody_record crc n h (tailBytes v n ++ [])
  have hbl := bodyBytes_length crc n h
  have hck : n.checksum = (crc n.data).toNat := h.2.2.2.2.2.2.2.2.1
  have hts : n.appendAtNs < 2 ^ 64 := h.2.2.2.2.2.2.2.2.2.1
  simp only [List.append_nil] at hhdr hdrop hbody
  unfold readBytes
  have e1 : ¬ ((encode v n).length < 16) := by rw [hlen]; unfold actualSize; omega
  simp only [e1, if_false, hhdr]
  have e2 : ¬ ((recSize n : Int) < 0) := by omega
  have e3 : ((recSize n : Int)).toNat = recSize n := by omega
  have e4 : ¬ ((encode v n).length < 16 + recSize n) := by rw [hlen]; unfold actualSize bodyLength; omega
  simp only [ne_eq, not_true_eq_false, e2, e3, e4, if_false, hdrop, hbody]
  have e5 : (bodyBytes n ++ tailBytes v n).drop (recSize n) = tailBytes v n := List.drop_left' hbl
  rw [e5]
  have htl := tailBytes_length v n
  have e6 : ¬ (recSize n > 0 ∧ (tailBytes v n).length < 4) := by omega
  have e7 : beNat ((tailBytes v n).take 4) = crcValue n.checksum := by
    unfold tailBytes; rw [take_be_append, beNat_be_of_lt 4 _ (crcValue_lt _)]
  have e8 : (if n.data.length > 0 then storedBody n else ({} : Body)).data = n.data := by
    split
    · rfl
    · rename_i hd
      have : n.data = [] := by
        cases hn : n.data with
        | nil => rfl
        | cons a t => simp [hn] at hd
      simp [this]
  have e9 : ¬ (recSize n > 0 ∧ beNat ((tailBytes v n).take 4) ≠
      crcValue (crc (if n.data.length > 0 then storedBody n else ({} : Body)).data).toNat) := by
    rw [e7, e8, hck]; simp
  simp only [e6, e9, if_false]
  unfold expectedDecode
  by_cases hv : v = 3
  · subst hv
    have e10 : (tailBytes 3 n).drop 4 = be 8 n.appendAtNs ++ (padSource 3 n).take (paddingLength (recSize n) 3) := by
      unfold tailBytes; rw [drop_be_append]; simp
    have e11 : ¬ (((tailBytes 3 n).drop 4).length < 8) := by rw [e10]; simp
    simp only [if_true, e11, if_false]
    rw [e10, take_be_append, beNat_be_of_lt 8 _ (by omega)]
  · simp only [hv, if_false]

/-! ### records inside a file -/

theorem readData_at (crc : Bytes → UInt32) (v : Nat) (n : Needle) (h : WF crc n) (pre post : Bytes) :
    readData crc v (pre ++ (encode v n ++ post)) pre.length (recSize n) = .ok (expectedDecode v n) := by
  have hlen := encode_length crc v n h
  have hs := recSize_lt crc n h
  unfold readData
  rw [actualSizeI_eq _ v hs]
  have e1 : ¬ ((actualSize (recSize n) v : Int) < 0) := by omega
  have e2 : ((actualSize (recSize n) v : Nat) : Int).toNat = actualSize (recSize n) v := by omega
  simp only [e1, if_false, e2, List.drop_left, List.take_left' hlen]
  have e3 : ¬ ((encode v n).length < actualSize (recSize n) v) := by omega
  simp only [e3, if_false]
  exact readBytes_encode crc v n h

theorem parseHeader_take16 (x : Bytes) : parseHeader (x.take 16) = parseHeader x := by
  unfold parseHeader
  simp only [List.take_take, List.drop_take]
  rfl

/-- what the scanner reports for one well-formed record at `offset` -/
def visitOf (v : Nat) (offset : Nat) (n : Needle) : Visit :=
  { offset := offset, cookie := n.cookie, id := n.id, size := recSize n, bodyLen := bodyLength (recSize n) v,
    status := "ok", body := if n.data.length > 0 then storedBody n else {},
    appendAtNs := if v = 3 then n.appendAtNs else 0 }

def visitsOf (v : Nat) : Nat → List Needle → List Visit
  | _, [] => []
  | offset, n :: rest => visitOf v offset n :: visitsOf v (offset + actualSize (recSize n) v) rest

def concatEnc (v : Nat) (ns : List Needle) : Bytes := ns.flatMap (encode v)

theorem scanStep_record (crc : Bytes → UInt32) (v : Nat) (n : Needle) (h : WF crc n) (pre post : Bytes) :
    scanStep v (pre ++ (encode v n ++ post)) pre.length true =
      some (Except.ok (visitOf v pre.length n), ((bodyLength (recSize n) v : Nat) : Int)) := by
  have hlen := encode_length crc v n h
  have hs := recSize_lt crc n h
  have hbl := bodyBytes_length crc n h
  have htl := tailBytes_length v n
  have hts : n.appendAtNs < 2 ^ 64 := h.2.2.2.2.2.2.2.2.2.1
  unfold scanStep
  simp only [List.drop_left]
  have e0 : ¬ (((encode v n ++ post).take 16).length < 16) := by
    simp only [List.length_take, List.length_append, hlen]; unfold actualSize; omega
  rw [parseHeader_take16, parseHeader_encode crc v n h post]
  simp only [e0, if_false, bodyLengthI_eq _ v hs]
  have e1 : ¬ (((bodyLength (recSize n) v : Nat) : Int) ≤ 0) := by unfold bodyLength; omega
  have e2 : ((bodyLength (recSize n) v : Nat) : Int).toNat = bodyLength (recSize n) v := by omega
  have e3 : (pre ++ (encode v n ++ post)).drop (pre.length + 16) = bodyBytes n ++ (tailBytes v n ++ post) := by
    rw [← List.drop_drop, List.drop_left, drop16_encode]
  have hbt : (bodyBytes n ++ tailBytes v n).length = bodyLength (recSize n) v := by
    simp only [List.length_append, hbl, htl]; unfold bodyLength; omega
  have e4 : (bodyBytes n ++ (tailBytes v n ++ post)).take (bodyLength (recSize n) v) = bodyBytes n ++ tailBytes v n := by
    rw [← List.append_assoc]; exact List.take_left' hbt
  have e5 : ¬ ((recSize n : Int) < 0) := by omega
  have e6 : ((recSize n : Nat) : Int).toNat = recSize n := by omega
  simp only [Bool.not_true, Bool.false_eq_true, if_false, e1, e2, e3, e4, hbt, Nat.lt_irrefl, e5, e6,
    parseBody_record crc n h (tailBytes v n)]
  unfold visitOf
  by_cases hv : v = 3
  · subst hv
    have e7 : (bodyBytes n ++ tailBytes 3 n).drop (recSize n + 4) =
        be 8 n.appendAtNs ++ (padSource 3 n).take (paddingLength (recSize n) 3) := by
      rw [← List.drop_drop, List.drop_left' hbl]; unfold tailBytes; rw [drop_be_append]; simp
    simp only [if_true, e7, take_be_append, beNat_be_of_lt 8 _ (show n.appendAtNs < 256 ^ 8 by omega)]
  · simp only [hv, if_false]

theorem concatEnc_length (crc : Bytes → UInt32) (v : Nat) (n : Needle) (h : WF crc n) (pre : Bytes) :
    (pre ++ encode v n).length = pre.length + actualSize (recSize n) v := by
  rw [List.length_append, encode_length crc v n h]

/-- scanning `pre ++ encode r₁ ++ … ++ encode rₖ` from the end of `pre` visits exactly r₁ … rₖ, in order, at
    their offsets, and ends cleanly -/
theorem scanFrom_concat (crc : Bytes → UInt32) (v : Nat) (ns : List Needle) (hwf : ∀ n ∈ ns, WF crc n) :
    ∀ (pre : Bytes) (fuel : Nat), ns.length < fuel →
      scanFrom v (pre ++ concatEnc v ns) true fuel pre.length = (visitsOf v pre.length ns, .eof) := by
  induction ns with
  | nil =>
    intro pre fuel hf
    cases fuel with
    | zero => omega
    | succ fuel =>
      simp [scanFrom, scanStep, concatEnc, visitsOf]
  | cons n rest ih =>
    intro pre fuel hf
    cases fuel with
    | zero => omega
    | succ fuel =>
      have hn : WF crc n := hwf n (by simp)
      have hrest : ∀ m ∈ rest, WF crc m := fun m hm => hwf m (by simp [hm])
      have hcat : concatEnc v (n :: rest) = encode v n ++ concatEnc v rest := by simp [concatEnc]
      have hnext : ((pre.length : Int) + 16 + ((bodyLength (recSize n) v : Nat) : Int)).toNat = (pre ++ encode v n).length := by
        rw [concatEnc_length crc v n hn]; unfold actualSize; omega
      have hnn : ¬ ((pre.length : Int) + 16 + ((bodyLength (recSize n) v : Nat) : Int) < 0) := by omega
      have ih' := ih hrest (pre ++ encode v n) fuel (by simp at hf; omega)
      rw [List.append_assoc, concatEnc_length crc v n hn] at ih'
      unfold scanFrom
      rw [hcat, scanStep_record crc v n hn pre (concatEnc v rest)]
      simp only [hnn, if_false, hnext, ih', visitsOf, concatEnc_length crc v n hn]

/-! ### the CRC decision -/

theorem readBytes_crc (crc : Bytes → UInt32) (v : Nat) (blob : Bytes) (size : Int) (d : Decoded)
    (h : readBytes crc v blob size = .ok d) (hpos : 0 < d.size) :
    beNat (((blob.drop 16).drop d.size).take 4) = crcValue (crc d.body.data).toNat := by
  unfold readBytes at h
  split at h
  · cases h
  · simp only [] at h
    split at h
    · cases h
    · split at h
      · cases h
      · split at h
        · cases h
        · split at h
          · cases h
          · rename_i body hb
            split at h
            · cases h
            · split at h
              · cases h
              · rename_i hcrc
                split at h
                · split at h
                  · cases h
                  · injection h with h; subst h
                    simp only [] at hpos ⊢
                    simp only [not_and, Decidable.not_not] at hcrc
                    exact hcrc hpos
                · injection h with h; subst h
                  simp only [] at hpos ⊢
                  simp only [not_and, Decidable.not_not] at hcrc
                  exact hcrc hpos

end SwV.Lemmas.C02
