/- C06 — kernel check of the decoding-matrix certificates, part 2 (see SwV/Lemmas/C06Certs.lean) -/
import SwV.Model.C06RS
namespace SwV.Lemmas.C06
open SwV.Model.C06
set_option maxRecDepth 100000

theorem certs_chunk_10 : ((certTable.drop (50 * 10)).take 50).all certOk = true := by decide +kernel
theorem certs_chunk_11 : ((certTable.drop (50 * 11)).take 50).all certOk = true := by decide +kernel
theorem certs_chunk_12 : ((certTable.drop (50 * 12)).take 50).all certOk = true := by decide +kernel
theorem certs_chunk_13 : ((certTable.drop (50 * 13)).take 50).all certOk = true := by decide +kernel
theorem certs_chunk_14 : ((certTable.drop (50 * 14)).take 50).all certOk = true := by decide +kernel

end SwV.Lemmas.C06
