/-
Helper lemmas for C20 (chunk GC): which chunks the live names of a state reference,
and the "plain" world (no hard links) in which every chunk has one owner.
-/
import SwV.Model.C18
import SwV.Lemmas.C18
namespace SwV.Lemmas.C20
open SwV.Model.C18 SwV.Lemmas.C18

/-- chunk c is referenced by a live name: some stored name shows it through FindEntry -/
def Referenced (s : St) (c : Nat) : Prop := ∃ p e v, (p, e) ∈ s.ents ∧ find s p = some v ∧ c ∈ v.chunks

/-- no stored name carries a link identity -/
def Plain (s : St) : Prop := ∀ x ∈ s.ents, x.2.hl = 0

/-- every chunk has one owner: two different names never list the same file id (client contract) -/
def Excl (s : St) : Prop := ∀ p q a b, (p, a) ∈ s.ents → (q, b) ∈ s.ents → p ≠ q → ∀ c ∈ a.chunks, c ∉ b.chunks

theorem find_plain {s : St} (inv : TreeInv s) (pl : Plain s) {p : RPath} {e : Entry} (hm : (p, e) ∈ s.ents) :
    find s p = some e := by
  have h0 : e.hl = 0 := pl _ hm
  simp [find, lookup_of_mem_nodup inv.nodup hm, h0]

theorem referenced_plain {s : St} (inv : TreeInv s) (pl : Plain s) (c : Nat) :
    Referenced s c ↔ ∃ p e, (p, e) ∈ s.ents ∧ c ∈ e.chunks := by
  constructor
  · rintro ⟨p, e, v, hm, hf, hc⟩
    rw [find_plain inv pl hm] at hf
    cases hf
    exact ⟨p, e, hm, hc⟩
  · rintro ⟨p, e, hm, hc⟩
    exact ⟨p, e, e, hm, find_plain inv pl hm, hc⟩

theorem mem_notNew {old new : Entry} {c : Nat} : c ∈ notNew old new ↔ c ∈ old.chunks ∧ c ∉ new.chunks := by
  simp [notNew, List.mem_filter]

theorem ensureParent_mono (e : Entry) (q : RPath) : ∀ s, TreeInv s → ∀ x ∈ s.ents, x ∈ (ensureParent e q s).1.ents := by
  induction q with
  | nil => intro s _ x hx; exact hx
  | cons n q ih =>
    intro s inv x hx
    unfold ensureParent
    split
    · exact hx
    · rename_i hnone
      have IH := ih s inv x hx
      rcases hr : ensureParent e q s with ⟨s1, b⟩
      rw [hr] at IH
      cases b with
      | false => exact IH
      | true =>
        simp only
        refine mem_wInsert.mpr (Or.inr ⟨IH, ?_⟩)
        intro hp
        rcases x with ⟨x1, x2⟩
        simp only at hp
        subst hp
        exact find_none inv hnone x2 hx

theorem ensureParent_new_are_dirs (e : Entry) (q : RPath) : ∀ s, TreeInv s → ∀ x ∈ (ensureParent e q s).1.ents,
    x ∈ s.ents ∨ (x.2.chunks = [] ∧ x.2.hl = 0) := by
  induction q with
  | nil => intro s _ x hx; exact Or.inl hx
  | cons n q ih =>
    intro s inv x hx
    unfold ensureParent at hx
    split at hx
    · exact Or.inl hx
    · have IH := ih s inv
      rcases hr : ensureParent e q s with ⟨s1, b⟩
      rw [hr] at hx IH
      cases b with
      | false => exact IH x hx
      | true =>
        simp only at hx
        rcases mem_wInsert.mp hx with rfl | ⟨hx', _⟩
        · exact Or.inr ⟨rfl, rfl⟩
        · exact IH x hx'

/-- client contract for a new version e of path p: its chunks are not listed by any OTHER name -/
def FreshFor (s : St) (p : RPath) (e : Entry) : Prop :=
  ∀ q b, (q, b) ∈ s.ents → q ≠ p → ∀ c ∈ e.chunks, c ∉ b.chunks

/-- what one step of the plain world guarantees: the world stays plain and exclusive, everything handed to a sink
    is unreferenced afterwards (gc_safe), everything that stopped being referenced was handed over (gc_complete) -/
def GcOk (s s' : St) (emitted : List Nat) : Prop :=
  Plain s' ∧ Excl s' ∧ (∀ c ∈ emitted, ¬ Referenced s' c) ∧ (∀ c, Referenced s c → ¬ Referenced s' c → c ∈ emitted)

theorem gcOk_refl {s : St} (pl : Plain s) (ex : Excl s) : GcOk s s [] :=
  ⟨pl, ex, by simp, fun c h h' => absurd h h'⟩

theorem plain_excl_ensureParent (e : Entry) (q : RPath) (s : St) (inv : TreeInv s) (pl : Plain s) (ex : Excl s) :
    Plain (ensureParent e q s).1 ∧ Excl (ensureParent e q s).1 := by
  have N := ensureParent_new_are_dirs e q s inv
  constructor
  · intro x hx
    rcases N x hx with h | h
    · exact pl x h
    · exact h.2
  · intro p q' a b ha hb hne c hc
    rcases N _ ha with h1 | h1
    · rcases N _ hb with h2 | h2
      · exact ex p q' a b h1 h2 hne c hc
      · simp only at h2; rw [h2.1]; simp
    · simp only at h1; rw [h1.1] at hc; simp at hc

theorem gcOk_createEntry {s : St} (inv : TreeInv s) (pl : Plain s) (ex : Excl s) (p : RPath) (e : Entry) (x : Bool)
    (he : e.hl = 0) (fr : FreshFor s p e) :
    GcOk s (createEntry s p e x).1 (createEntry s p e x).2.2 := by
  have inv' : TreeInv (createEntry s p e x).1 := inv_createEntry inv (by intro _; exact he)
  revert inv'
  unfold createEntry
  cases p with
  | nil => intro _; exact gcOk_refl pl ex
  | cons n par =>
    simp only
    cases hf : find s (n :: par) with
    | none =>
      simp only
      have PE := plain_excl_ensureParent e par s inv pl ex
      have M := ensureParent_mono e par s inv
      have N := ensureParent_new_are_dirs e par s inv
      have I3 := inv_ensureParent e par s inv
      rcases hr : ensureParent e par s with ⟨s1, b⟩
      rw [hr] at PE M N I3
      have habs : ∀ y, (n :: par, y) ∉ s.ents := find_none inv hf
      cases b with
      | false =>
        intro _
        refine ⟨PE.1, PE.2, by simp, ?_⟩
        intro c hc hnc
        rcases (referenced_plain inv pl c).mp hc with ⟨q, b, hq, hcb⟩
        exact absurd ((referenced_plain I3.1 PE.1 c).mpr ⟨q, b, M _ hq, hcb⟩) hnc
      | true =>
        simp only
        intro inv'
        have habs1 : ∀ y, (n :: par, y) ∉ s1.ents := by
          intro y hy
          exact habs y ((I3.2.2 (n :: par, y) (by simp)).mp hy)
        have pl' : Plain (wInsert s1 (n :: par) e) := by
          intro y hy
          rcases mem_wInsert.mp hy with rfl | ⟨hy', _⟩
          · exact he
          · exact PE.1 y hy'
        have frs1 : ∀ q b, (q, b) ∈ s1.ents → ∀ c ∈ e.chunks, c ∉ b.chunks := by
          intro q b hb c hc
          rcases N _ hb with h | h
          · refine fr q b h ?_ c hc
            intro hq; subst hq; exact habs b h
          · simp only at h; rw [h.1]; simp
        refine ⟨pl', ?_, by simp, ?_⟩
        · intro p1 p2 a b ha hb hne c hc
          rcases mem_wInsert.mp ha with h1 | ⟨h1, _⟩
          · cases h1
            rcases mem_wInsert.mp hb with h2 | ⟨h2, _⟩
            · cases h2; exact absurd rfl hne
            · exact frs1 p2 b h2 c hc
          · rcases mem_wInsert.mp hb with h2 | ⟨h2, _⟩
            · cases h2
              intro hce
              exact frs1 p1 a h1 c hce hc
            · exact PE.2 p1 p2 a b h1 h2 hne c hc
        · intro c hc hnc
          rcases (referenced_plain inv pl c).mp hc with ⟨q, b, hq, hcb⟩
          refine absurd ((referenced_plain inv' pl' c).mpr ⟨q, b, mem_wInsert.mpr (Or.inr ⟨M _ hq, ?_⟩), hcb⟩) hnc
          intro hqq
          simp only at hqq
          subst hqq
          exact habs b hq
    | some old =>
      simp only
      rcases find_stored inv hf with ⟨a, hm, _⟩
      have hoa : old = a := by
        have := find_plain inv pl hm
        rw [hf] at this
        exact Option.some.inj this
      subst hoa
      split
      · intro _; exact gcOk_refl pl ex
      · split
        · intro _; exact gcOk_refl pl ex
        · intro inv'
          have pl' : Plain (wInsert s (n :: par) e) := by
            intro y hy
            rcases mem_wInsert.mp hy with rfl | ⟨hy', _⟩
            · exact he
            · exact pl y hy'
          refine ⟨pl', ?_, ?_, ?_⟩
          · intro p1 p2 a' b ha hb hne c hc
            rcases mem_wInsert.mp ha with h1 | ⟨h1, h1n⟩
            · cases h1
              rcases mem_wInsert.mp hb with h2 | ⟨h2, h2n⟩
              · cases h2; exact absurd rfl hne
              · exact fr p2 b h2 h2n c hc
            · rcases mem_wInsert.mp hb with h2 | ⟨h2, _⟩
              · cases h2
                intro hce
                exact fr p1 a' h1 h1n c hce hc
              · exact ex p1 p2 a' b h1 h2 hne c hc
          · intro c hc hr
            rcases (referenced_plain inv' pl' c).mp hr with ⟨q, b, hq, hcb⟩
            rcases mem_notNew.mp hc with ⟨hco, hcn⟩
            rcases mem_wInsert.mp hq with h1 | ⟨h1, h1n⟩
            · cases h1; exact hcn hcb
            · exact ex (n :: par) q old b hm h1 (fun h => h1n h.symm) c hco hcb
          · intro c hc hnc
            rcases (referenced_plain inv pl c).mp hc with ⟨q, b, hq, hcb⟩
            by_cases hqp : q = n :: par
            · subst hqp
              have hb : b = old := mem_unique inv.nodup hq hm
              subst hb
              refine mem_notNew.mpr ⟨hcb, ?_⟩
              intro hce
              exact hnc ((referenced_plain inv' pl' c).mpr ⟨n :: par, e, mem_wInsert.mpr (Or.inl rfl), hce⟩)
            · exact absurd ((referenced_plain inv' pl' c).mpr ⟨q, b, mem_wInsert.mpr (Or.inr ⟨hq, hqp⟩), hcb⟩) hnc

theorem gcOk_deleteFile {s : St} (inv : TreeInv s) (pl : Plain s) (ex : Excl s) (n : String) (par : RPath) (a : Entry)
    (hm : (n :: par, a) ∈ s.ents) (hfile : a.isDir = false) (r : Bool) :
    (deleteEntry s (n :: par) r true).2.1 = Res.ok ∧
    GcOk s (deleteEntry s (n :: par) r true).1 (deleteEntry s (n :: par) r true).2.2 := by
  have hf := find_plain inv pl hm
  have inv' : TreeInv (deleteEntry s (n :: par) r true).1 := inv_deleteEntry inv
  have h0 : a.hl = 0 := pl _ hm
  revert inv'
  unfold deleteEntry
  simp only [hf, hfile, Bool.false_eq_true, if_false, List.foldl, List.append_nil, if_true]
  have hst : deleteOne s (n :: par) a = { s with ents := erase (n :: par) s.ents } := by
    simp [deleteOne, h0]
  rw [hst]
  intro inv'
  have pl' : Plain { s with ents := erase (n :: par) s.ents } := fun y hy => pl y (mem_erase.mp hy).1
  refine ⟨trivial, pl', ?_, ?_, ?_⟩
  · intro p1 p2 a' b ha hb hne c hc
    exact ex p1 p2 a' b (mem_erase.mp ha).1 (mem_erase.mp hb).1 hne c hc
  · intro c hc hr
    rcases (referenced_plain inv' pl' c).mp hr with ⟨q, b, hq, hcb⟩
    rcases mem_erase.mp hq with ⟨hq', hqn⟩
    exact ex (n :: par) q a b hm hq' (fun h => hqn h.symm) c hc hcb
  · intro c hc hnc
    rcases (referenced_plain inv pl c).mp hc with ⟨q, b, hq, hcb⟩
    by_cases hqp : q = n :: par
    · subst hqp
      rw [mem_unique inv.nodup hq hm] at hcb
      exact hcb
    · exact absurd ((referenced_plain inv' pl' c).mpr ⟨q, b, mem_erase.mpr ⟨hq, hqp⟩, hcb⟩) hnc

end SwV.Lemmas.C20
