/-
C05 — the refined judges (Spec: `setJudgeH`, `getJudgeH`, `visitJudgeH`), which keep the recorded class
`CompactSection.setOverflowEntry/stale-offset-high-byte` only for a high byte the key was stored with
before and name a class of their own for any other high byte, accept every result the unrefined judges
accept — for EVERY history list handed to them.
-/
import SwV.Lemmas.C05d
namespace SwV.Lemmas.C05
open SwV.Model.C05 SwV.Spec.C05

/-- `judgesAccept` with the refined judges; `his` = the high bytes the key was stored with -/
def judgesAcceptH (batch : Nat) (cm : List Sec) (r : Ref) (his : List Nat) : Op → Prop
  | .set key off hi size =>
    setJudgeH (r.get key) his (fullOff (setL batch key off hi size cm).2.1 (setL batch key off hi size cm).2.2.1)
      (setL batch key off hi size cm).2.2.2 = none
  | .del key =>
    delJudge (r.get key) (delL batch key cm).2 = none ∨
    delJudge (r.get key) (delL batch key cm).2 = some "CompactSection.Delete/negative-size-on-repeated-delete"
  | .get key =>
    getJudgeH key (r.get key) his ((getL batch key cm).map (fun v => (v.key, fullOff v.off v.hi, v.size))) = none

theorem judges_acceptH (batch : Nat) (cm : List Sec) (r : Ref) (his : List Nat) (op : Op)
    (h : judgesAccept batch cm r op) : judgesAcceptH batch cm r his op := by
  cases op with
  | set key off hi size =>
    simp only [judgesAccept] at h
    simp only [judgesAcceptH, setJudgeH]
    rw [h]; rfl
  | del key =>
    simp only [judgesAccept] at h
    simp only [judgesAcceptH]
    exact h
  | get key =>
    simp only [judgesAccept] at h
    simp only [judgesAcceptH, getJudgeH]
    rw [h]; rfl

end SwV.Lemmas.C05
