/-
C10 — helper lemmas for `placement_sound`: the oracle-driven shuffles (`permute`, `sortW`) are
permutations, so `pickNodes` returns exactly n pairwise different children; the reservation loops
append exactly one path per rack / data center; lookup by id in a list with unique ids.
Core Lean only.
-/
import SwV.Model.C10
import SwV.Spec.C10
namespace SwV.Lemmas.C10
open SwV.Model.C10 SwV.Spec.C10

/-! ## lists -/

theorem nodupB_iff {α : Type} [BEq α] [LawfulBEq α] (l : List α) : nodupB l = true ↔ l.Nodup := by
  induction l with
  | nil => simp [nodupB]
  | cons x r ih => simp [nodupB, ih, List.nodup_cons]

theorem getElem?_perm {α : Type} (l : List α) (i : Nat) (y : α) (h : l[i]? = some y) :
    List.Perm (y :: (l.take i ++ l.drop (i + 1))) l := by
  induction l generalizing i with
  | nil => simp at h
  | cons a t ih =>
    cases i with
    | zero => simp at h; subst h; simp
    | succ i =>
      simp only [List.getElem?_cons_succ] at h
      simp only [List.take_succ_cons, List.drop_succ_cons, List.cons_append]
      exact (List.Perm.swap a y _).trans ((ih i h).cons a)

/-- `a` is, up to order, a part of `b` -/
def Part {α : Type} (a b : List α) : Prop := ∃ l, List.Perm (a ++ l) b

theorem Part.trans {α : Type} {a b c : List α} (h1 : Part a b) (h2 : Part b c) : Part a c := by
  obtain ⟨l1, p1⟩ := h1
  obtain ⟨l2, p2⟩ := h2
  refine ⟨l1 ++ l2, ?_⟩
  rw [← List.append_assoc]
  exact (p1.append_right l2).trans p2

theorem Part.of_perm {α : Type} {a b : List α} (h : List.Perm a b) : Part a b := ⟨[], by simpa using h⟩

theorem Part.filter {α : Type} (p : α → Bool) (l : List α) : Part (l.filter p) l :=
  ⟨l.filter (fun x => !p x), List.filter_append_perm p l⟩

theorem Part.nodup_map {α β : Type} {a b : List α} (f : α → β) (h : Part a b) (hn : (b.map f).Nodup) :
    (a.map f).Nodup := by
  obtain ⟨l, p⟩ := h
  have := (p.map f).nodup_iff.mpr hn
  rw [List.map_append] at this
  exact (List.nodup_append.mp this).1

theorem Part.mem {α : Type} {a b : List α} (h : Part a b) {x : α} (hx : x ∈ a) : x ∈ b := by
  obtain ⟨l, p⟩ := h
  exact p.subset (List.mem_append_left _ hx)

/-! ## the shuffles are permutations -/

theorem permute_perm {α : Type} (f : Nat) (xs : List α) (o : Oracle) (hf : xs.length ≤ f) :
    List.Perm (permute f xs o).1 xs := by
  induction f generalizing xs o with
  | zero =>
    have : xs = [] := List.eq_nil_of_length_eq_zero (by omega)
    subst this; simp [permute]
  | succ f ih =>
    unfold permute
    cases xs with
    | nil => simp
    | cons x rest =>
      simp only
      have hi : (next o).1 % (rest.length + 1) < rest.length + 1 := Nat.mod_lt _ (by omega)
      generalize (next o).1 % (rest.length + 1) = i at hi ⊢
      simp only [List.length_cons] at hf
      split
      · next hn =>
        rw [List.getElem?_eq_none_iff] at hn
        simp only [List.length_cons] at hn
        omega
      · next y hy =>
        refine ((ih _ _ ?_).cons y).trans (getElem?_perm _ _ _ hy)
        simp only [List.length_append, List.length_take, List.length_drop, List.length_cons]
        omega

theorem totalW_init {α : Type} (l : List (α × Int)) (i : Int) :
    l.foldl (fun a x => a + x.2) i = i + totalW l := by
  unfold totalW
  induction l generalizing i with
  | nil => simp
  | cons c t ih => simp only [List.foldl_cons]; rw [ih, ih (0 + c.2)]; omega

theorem totalW_cons {α : Type} (c : α × Int) (l : List (α × Int)) : totalW (c :: l) = c.2 + totalW l := by
  show List.foldl _ _ _ = _
  simp only [List.foldl_cons]; rw [totalW_init]; omega

theorem totalW_pos {α : Type} (l : List (α × Int)) (hne : l ≠ []) (hp : ∀ c ∈ l, 0 < c.2) : 0 < totalW l := by
  induction l with
  | nil => exact absurd rfl hne
  | cons c t ih =>
    rw [totalW_cons]
    have h1 := hp c (by simp)
    cases t with
    | nil => simp [totalW]; exact h1
    | cons c' t' =>
      have := ih (by simp) (fun c hc => hp c (by simp [hc]))
      omega

theorem scan_some {α : Type} (cs : List (α × Int)) (r : Int) (h0 : 0 ≤ r) (h1 : r < totalW cs) :
    ∃ b x a, scan cs r = some (b, x, a) ∧ cs = b ++ x :: a := by
  induction cs generalizing r with
  | nil => simp [totalW] at h1; omega
  | cons c rest ih =>
    obtain ⟨c, w⟩ := c
    rw [totalW_cons] at h1
    unfold scan
    by_cases hw : r < w
    · exact ⟨[], (c, w), rest, by simp [hw], rfl⟩
    · simp only [hw, if_false]
      obtain ⟨b, x, a, hs, he⟩ := ih (r - w) (by omega) (by simp at h1; omega)
      exact ⟨(c, w) :: b, x, a, by rw [hs], by rw [he]; rfl⟩

theorem sortW_perm {α : Type} (f : Nat) (cs : List (α × Int)) (o : Oracle) (hf : cs.length ≤ f)
    (hp : ∀ c ∈ cs, 0 < c.2) : List.Perm (sortW f cs o).1 (cs.map Prod.fst) := by
  induction f generalizing cs o with
  | zero =>
    have : cs = [] := List.eq_nil_of_length_eq_zero (by omega)
    subst this; simp [sortW]
  | succ f ih =>
    unfold sortW
    cases cs with
    | nil => simp
    | cons c0 t =>
      simp only [List.isEmpty_cons, Bool.false_eq_true, if_false]
      have tp := totalW_pos (c0 :: t) (by simp) hp
      obtain ⟨b, x, a, hs, he⟩ := scan_some (c0 :: t) (((next o).1 : Int) % totalW (c0 :: t))
        (Int.emod_nonneg _ (by omega)) (Int.emod_lt_of_pos _ tp)
      rw [hs]
      simp only
      rw [he]
      have hlen : (b ++ a).length ≤ f := by
        have := congrArg List.length he
        simp only [List.length_cons, List.length_append] at this hf ⊢
        omega
      have hp' : ∀ c ∈ b ++ a, 0 < c.2 := by
        intro c hc
        apply hp; rw [he]
        rcases List.mem_append.mp hc with h | h <;> simp [h]
      have := ih (b ++ a) (next o).2 hlen hp'
      simp only [List.map_append, List.map_cons]
      refine List.Perm.trans ?_ List.perm_middle.symm
      rw [← List.map_append]
      exact this.cons _

/-! ## PickNodesByWeight returns exactly n different children -/

theorem splitFirst_split {α : Type} (p : α → Bool) (l b a : List α) (x : α) (h : splitFirst p l = some (b, x, a)) :
    l = b ++ x :: a := by
  induction l generalizing b with
  | nil => simp [splitFirst] at h
  | cons y rest ih =>
    unfold splitFirst at h
    split at h
    · simp at h; obtain ⟨rfl, rfl, rfl⟩ := h; rfl
    · split at h
      · simp at h
      · next b' x' a' hs =>
        simp at h; obtain ⟨rfl, rfl, rfl⟩ := h
        rw [ih _ hs]; rfl

theorem pick_shape {α : Type} (children : List α) (av : α → Int) (n : Nat) (p : α → Bool) (o o' : Oracle)
    (x : α) (rest : List α) (h : pickNodes children av n p o = (.ok (x, rest), o')) :
    rest.length = n - 1 ∧ Part (x :: rest) children := by
  unfold pickNodes at h
  simp only at h
  split at h
  · simp at h
  · next hlen =>
    split at h
    · simp at h
    · next pre y suf hs =>
      simp only [Prod.mk.injEq, Except.ok.injEq] at h
      obtain ⟨⟨rfl, rfl⟩, _⟩ := h
      generalize hpm : (permute children.length children o) = pm at *
      generalize hcd : (List.map (fun c => (c, av c)) (List.filter (fun c => decide (av c > 0)) pm.1)) = cands at *
      generalize hss : sortW cands.length cands pm.2 = s at *
      have e1 : List.Perm pm.1 children := by rw [← hpm]; exact permute_perm _ _ _ (Nat.le_refl _)
      have e2 : List.Perm s.1 (cands.map Prod.fst) := by
        rw [← hss]; apply sortW_perm _ _ _ (Nat.le_refl _)
        intro c hc; rw [← hcd] at hc
        simp only [List.mem_map, List.mem_filter] at hc
        obtain ⟨c', ⟨_, hav⟩, rfl⟩ := hc
        simpa using hav
      have e3 : cands.map Prod.fst = List.filter (fun c => decide (av c > 0)) pm.1 := by
        rw [← hcd]; simp [List.map_map, Function.comp_def]
      have sPart : Part s.1 children :=
        (Part.of_perm e2).trans (by rw [e3]; exact (Part.filter _ _).trans (Part.of_perm e1))
      have slen : n ≤ s.1.length := by
        have := e2.length_eq; simp only [List.length_map] at this; omega
      have sp : s.1 = pre ++ y :: suf := splitFirst_split _ _ _ _ _ hs
      rw [sp] at slen sPart ⊢
      simp only [List.length_append, List.length_cons] at slen
      split
      · next hk =>
        constructor
        · simp only [List.length_take, List.length_append, List.length_cons]; omega
        · refine Part.trans ⟨pre.drop (n - 1) ++ suf, ?_⟩ sPart
          rw [List.take_append_of_le_length (by omega)]
          have : List.Perm (pre ++ y :: suf) (y :: (pre ++ suf)) := List.perm_middle
          refine List.Perm.trans ?_ this.symm
          simp only [List.cons_append]
          refine List.Perm.cons _ ?_
          rw [← List.append_assoc, List.take_append_drop]
      · next hk =>
        constructor
        · simp only [List.length_take, List.length_append]; omega
        · refine Part.trans ⟨suf.drop (n - 1 - pre.length), ?_⟩ sPart
          have : List.Perm (pre ++ y :: suf) (y :: (pre ++ suf)) := List.perm_middle
          refine List.Perm.trans ?_ this.symm
          simp only [List.cons_append]
          refine List.Perm.cons _ ?_
          rw [List.append_assoc, List.take_append_drop]

/-! ## the reservation loops append one path per rack / data center -/

theorem reserveRacks_shape (t dcId : Nat) (rs : List Rack) (o : Oracle) (acc out part : List Path) (o' : Oracle)
    (h : reserveRacks t dcId rs o acc = (some out, part, o')) :
    ∃ suf, out = acc ++ suf ∧ suf.map (fun p => p.2.1) = rs.map (·.id) ∧ ∀ p ∈ suf, p.1 = dcId := by
  induction rs generalizing o acc with
  | nil => simp [reserveRacks] at h; obtain ⟨rfl, _, _⟩ := h; exact ⟨[], by simp⟩
  | cons rk rest ih =>
    unfold reserveRacks at h
    simp only at h
    split at h
    · next n hn =>
      obtain ⟨suf, hs, hm, hd⟩ := ih _ _ h
      refine ⟨(dcId, rk.id, n.id) :: suf, by rw [hs, List.append_assoc]; rfl, by simp [hm], ?_⟩
      intro p hp
      rcases List.mem_cons.mp hp with rfl | hp
      · rfl
      · exact hd p hp
    · simp at h

theorem reserveDCs_shape (t : Nat) (ds : List DC) (o : Oracle) (acc out part : List Path) (o' : Oracle)
    (h : reserveDCs t ds o acc = (some out, part, o')) :
    ∃ suf, out = acc ++ suf ∧ suf.map (fun p => p.1) = ds.map (·.id) := by
  induction ds generalizing o acc with
  | nil => simp [reserveDCs] at h; obtain ⟨rfl, _, _⟩ := h; exact ⟨[], by simp⟩
  | cons d rest ih =>
    unfold reserveDCs at h
    simp only at h
    split at h
    · next rk n hn =>
      obtain ⟨suf, hs, hm⟩ := ih _ _ h
      exact ⟨(d.id, rk.id, n.id) :: suf, by rw [hs, List.append_assoc]; rfl, by simp [hm]⟩
    · simp at h

/-! ## lookup by id -/

theorem find_unique {α : Type} (f : α → Nat) (l : List α) (hn : (l.map f).Nodup) (d : α) (hd : d ∈ l) :
    l.find? (fun e => f e == f d) = some d := by
  induction l with
  | nil => simp at hd
  | cons a t ih =>
    simp only [List.map_cons, List.nodup_cons] at hn
    rcases List.mem_cons.mp hd with rfl | hd
    · simp
    · have : f a ≠ f d := by
        intro e; apply hn.1; rw [e]; exact List.mem_map_of_mem hd
      have hb : (f a == f d) = false := by simp [this]
      simp only [List.find?_cons, hb]
      exact ih hn.2 hd

end SwV.Lemmas.C10
