/-
C02 — the CONCRETE checksum: CRC-32C (`crc32c`, the bitwise Castagnoli CRC of SwV/Model/C02.lean that the
driver compares with `needle.NewCRC` on every record) separates byte strings that differ inside one byte,
`CRC.Value()`'s mangling (`crcValue`) is injective on 32-bit values, and therefore the decoder reports such a
record as corrupted.  Core Lean only; no `decide` over anything but the eight bit masks of a byte.

Route: the per-bit update `crcBit` (shift right, conditionally xor the reflected polynomial 0x82F63B78) is
INJECTIVE on the 32-bit state because the polynomial has its top bit set (= constant term 1 of the Castagnoli
polynomial): the shifted state has top bit 0, so the two branches have disjoint images, and inside one branch
the shifted-out bit is known.  Hence `crcByte · b` is injective in the state and `crcByte s ·` is injective in
the byte, and a difference introduced at one byte survives every later byte and the final xor.
-/
import SwV.Model.C02
import SwV.Spec.C02
import SwV.Lemmas.C02
namespace SwV.Lemmas.C02
open SwV.Model.C02 SwV.Spec.C02

/-! ### the per-bit step is injective -/

theorem and_one_toNat (c : UInt32) : (c &&& 1).toNat = c.toNat % 2 := by
  rw [UInt32.toNat_and]; exact Nat.and_one_is_mod _

theorem and_one_eq_one_iff (c : UInt32) : c &&& 1 = 1 ↔ c.toNat % 2 = 1 := by
  rw [← UInt32.toNat_inj, and_one_toNat]; rfl

theorem shr1_toNat (c : UInt32) : (c >>> 1).toNat = c.toNat / 2 := by
  rw [UInt32.toNat_shiftRight]; rfl

/-- the two branches of `crcBit` have disjoint images: bit 31 of the polynomial is set, bit 31 of a shifted
    state is not -/
theorem shr1_xor_poly_ne (a b : UInt32) : (a >>> 1) ^^^ (0x82F63B78 : UInt32) ≠ b >>> 1 := by
  intro h
  have h2 := congrArg (fun x => x.toNat.testBit 31) h
  simp only [UInt32.toNat_xor, Nat.testBit_xor, shr1_toNat] at h2
  have ha : a.toNat / 2 < 2 ^ 31 := by have := a.toNat_lt; omega
  have hb : b.toNat / 2 < 2 ^ 31 := by have := b.toNat_lt; omega
  rw [Nat.testBit_lt_two_pow ha, Nat.testBit_lt_two_pow hb] at h2
  revert h2; decide

theorem crcBit_inj (a b : UInt32) (h : crcBit a = crcBit b) : a = b := by
  unfold crcBit at h
  rw [← UInt32.toNat_inj]
  by_cases ha : a &&& 1 = 1 <;> by_cases hb : b &&& 1 = 1
  · simp only [ha, hb, if_true] at h
    have h1 := (UInt32.xor_left_inj _).mp h
    have h2 := congrArg UInt32.toNat h1
    rw [shr1_toNat, shr1_toNat] at h2
    rw [and_one_eq_one_iff] at ha hb; omega
  · simp only [ha, hb, if_true, if_false] at h
    exact absurd h (shr1_xor_poly_ne a b)
  · simp only [ha, hb, if_true, if_false] at h
    exact absurd h.symm (shr1_xor_poly_ne b a)
  · simp only [ha, hb, if_false] at h
    have h2 := congrArg UInt32.toNat h
    rw [shr1_toNat, shr1_toNat] at h2
    rw [and_one_eq_one_iff] at ha hb; omega

/-- zero-preservation (the linear part of the register): feeding zero bits to the zero state keeps it zero,
    and — by injectivity — a nonzero state never becomes zero -/
theorem crcBit_zero : crcBit 0 = 0 := by decide

theorem crcBit_ne_zero (c : UInt32) (h : c ≠ 0) : crcBit c ≠ 0 := by
  intro h0; exact h (crcBit_inj c 0 (h0.trans crcBit_zero.symm))

/-! ### bytes -/

theorem crcByte_inj_state (b : UInt8) (s t : UInt32) (h : crcByte s b = crcByte t b) : s = t := by
  unfold crcByte at h
  simp only [] at h
  have := crcBit_inj _ _ (crcBit_inj _ _ (crcBit_inj _ _ (crcBit_inj _ _ (crcBit_inj _ _ (crcBit_inj _ _
    (crcBit_inj _ _ (crcBit_inj _ _ h)))))))
  exact (UInt32.xor_left_inj _).mp this

theorem crcByte_inj_byte (s : UInt32) (x y : UInt8) (h : crcByte s x = crcByte s y) : x = y := by
  unfold crcByte at h
  simp only [] at h
  have := crcBit_inj _ _ (crcBit_inj _ _ (crcBit_inj _ _ (crcBit_inj _ _ (crcBit_inj _ _ (crcBit_inj _ _
    (crcBit_inj _ _ (crcBit_inj _ _ h)))))))
  exact UInt8.toUInt32_inj.mp ((UInt32.xor_right_inj _).mp this)

theorem foldl_crcByte_inj (d : Bytes) : ∀ s t : UInt32, d.foldl crcByte s = d.foldl crcByte t → s = t := by
  induction d with
  | nil => intro s t h; exact h
  | cons b r ih => intro s t h; exact crcByte_inj_state b s t (ih _ _ h)

/-- two byte strings that differ in exactly one byte (any of its 255 possible changes, in particular any
    single bit and any burst inside the byte) have different CRC-32C -/
theorem crc32c_one_byte (pre post : Bytes) (x y : UInt8) (hxy : x ≠ y) :
    crc32c (pre ++ x :: post) ≠ crc32c (pre ++ y :: post) := by
  intro h
  unfold crc32c at h
  have h1 := (UInt32.xor_left_inj _).mp h
  simp only [List.foldl_append, List.foldl_cons] at h1
  exact hxy (crcByte_inj_byte _ x y (foldl_crcByte_inj post _ _ h1))

/-! ### single-bit flips -/

/-- flip bit `i` of a byte string: bit `i % 8` (LSB = 0) of byte `i / 8` -/
def flipBit (d : Bytes) (i : Nat) : Bytes := d.modify (i / 8) (· ^^^ UInt8.ofNat (2 ^ (i % 8)))

@[simp] theorem flipBit_length (d : Bytes) (i : Nat) : (flipBit d i).length = d.length := by
  unfold flipBit; simp

theorem flipBit_split (d : Bytes) (i : Nat) (hi : i < 8 * d.length) :
    ∃ pre x post m, m ≠ 0 ∧ d = pre ++ x :: post ∧ flipBit d i = pre ++ (x ^^^ m) :: post := by
  have hk : i / 8 < d.length := by omega
  refine ⟨d.take (i / 8), d[i / 8], d.drop (i / 8 + 1), UInt8.ofNat (2 ^ (i % 8)), ?_, ?_, ?_⟩
  · have : i % 8 < 8 := Nat.mod_lt _ (by decide)
    generalize i % 8 = j at this
    have : j = 0 ∨ j = 1 ∨ j = 2 ∨ j = 3 ∨ j = 4 ∨ j = 5 ∨ j = 6 ∨ j = 7 := by omega
    rcases this with h | h | h | h | h | h | h | h <;> subst h <;> decide
  · simp
  · unfold flipBit
    rw [List.modify_eq_take_cons_drop hk]

theorem flipBit_ne (d : Bytes) (i : Nat) (hi : i < 8 * d.length) : flipBit d i ≠ d := by
  obtain ⟨pre, x, post, m, hm, hd, hf⟩ := flipBit_split d i hi
  intro h
  rw [hf] at h; conv at h => rhs; rw [hd]
  have h2 := List.append_cancel_left h
  injection h2 with h3 _
  apply hm
  have : x ^^^ m = x ^^^ 0 := by rw [h3]; simp
  exact (UInt8.xor_right_inj _).mp this

theorem crc32c_single_bit (d : Bytes) (i : Nat) (hi : i < 8 * d.length) :
    crc32c (flipBit d i) ≠ crc32c d := by
  obtain ⟨pre, x, post, m, hm, hd, hf⟩ := flipBit_split d i hi
  rw [hf]; conv => rhs; rw [hd]
  apply crc32c_one_byte
  intro h
  apply hm
  have : x ^^^ m = x ^^^ 0 := by rw [h]; simp
  exact (UInt8.xor_right_inj _).mp this

/-! ### `CRC.Value()` is a bijection on 32-bit values: rotate right by 15, add a constant -/

theorem rot_eq (c : Nat) (h : c < 2 ^ 32) :
    (c >>> 15 ||| (c <<< 17) % 2 ^ 32) = 2 ^ 17 * (c % 2 ^ 15) + c / 2 ^ 15 := by
  have e1 : c >>> 15 = c / 2 ^ 15 := Nat.shiftRight_eq_div_pow _ _
  have e2 : (c <<< 17) % 2 ^ 32 = 2 ^ 17 * (c % 2 ^ 15) := by
    rw [Nat.shiftLeft_eq]; omega
  rw [e1, e2, Nat.or_comm]
  exact (Nat.two_pow_add_eq_or_of_lt (by omega) _).symm

theorem crcValue_inj (a b : Nat) (ha : a < 2 ^ 32) (hb : b < 2 ^ 32) (h : crcValue a = crcValue b) : a = b := by
  unfold crcValue at h
  rw [rot_eq a ha, rot_eq b hb] at h
  have h1 : 2 ^ 17 * (a % 2 ^ 15) + a / 2 ^ 15 < 2 ^ 32 := by omega
  have h2 : 2 ^ 17 * (b % 2 ^ 15) + b / 2 ^ 15 < 2 ^ 32 := by omega
  have h3 : 2 ^ 17 * (a % 2 ^ 15) + a / 2 ^ 15 = 2 ^ 17 * (b % 2 ^ 15) + b / 2 ^ 15 := by
    generalize 2 ^ 17 * (a % 2 ^ 15) + a / 2 ^ 15 = x at *
    generalize 2 ^ 17 * (b % 2 ^ 15) + b / 2 ^ 15 = y at *
    omega
  omega

/-- the inverse: subtract the constant, rotate left by 15 -/
def crcUnvalue (w : Nat) : Nat :=
  let r := (w + 2 ^ 32 - 0xa282ead8) % 2 ^ 32
  (r % 2 ^ 17) * 2 ^ 15 + r / 2 ^ 17

theorem crcUnvalue_crcValue (c : Nat) (h : c < 2 ^ 32) : crcUnvalue (crcValue c) = c := by
  unfold crcUnvalue crcValue
  rw [rot_eq c h]
  have h1 : 2 ^ 17 * (c % 2 ^ 15) + c / 2 ^ 15 < 2 ^ 32 := by omega
  generalize hx : 2 ^ 17 * (c % 2 ^ 15) + c / 2 ^ 15 = x at *
  have e : ((x + 0xa282ead8) % 2 ^ 32 + 2 ^ 32 - 0xa282ead8) % 2 ^ 32 = x := by omega
  simp only [e]
  omega

/-! ### the decoder on a record whose checksum field need not match its data -/

/-- `ReadBytes` (checking with `crcR`) on a record written from a needle that is well-formed w.r.t. ANY
    checksum function `crcW` — i.e. whose stored checksum is arbitrary: the CRC error iff the stored value
    differs from `crcR` of the stored data, else the stored fields -/
theorem readBytes_encode_any (crcW crcR : Bytes → UInt32) (v : Nat) (n : Needle) (h : WF crcW n) :
    readBytes crcR v (encode v n) (recSize n) =
      if recSize n > 0 ∧ crcValue n.checksum ≠ crcValue (crcR n.data).toNat then .error .crc
      else .ok (expectedDecode v n) := by
  have hlen := encode_length crcW v n h
  have hhdr := parseHeader_encode crcW v n h []
  have hdrop := drop16_encode v n []
  have hbody := parseBody_record crcW n h (tailBytes v n ++ [])
  have hbl := bodyBytes_length crcW n h
  have hts : n.appendAtNs < 2 ^ 64 := h.2.2.2.2.2.2.2.2.2.1
  simp only [List.append_nil] at hhdr hdrop hbody
  unfold readBytes
  have e1 : ¬ ((encode v n).length < 16) := by rw [hlen]; unfold actualSize; omega
  simp only [e1, if_false, hhdr]
  have e2 : ¬ ((recSize n : Int) < 0) := by omega
  have e3 : ((recSize n : Int)).toNat = recSize n := by omega
  have e4 : ¬ ((encode v n).length < 16 + recSize n) := by rw [hlen]; unfold actualSize bodyLength; omega
  simp only [ne_eq, not_true_eq_false, e2, e3, e4, if_false, hdrop, hbody]
  have e5 : (bodyBytes n ++ tailBytes v n).drop (recSize n) = tailBytes v n := List.drop_left' hbl
  rw [e5]
  have htl := tailBytes_length v n
  have e6 : ¬ (recSize n > 0 ∧ (tailBytes v n).length < 4) := by omega
  have e7 : beNat ((tailBytes v n).take 4) = crcValue n.checksum := by
    unfold tailBytes; rw [take_be_append, beNat_be_of_lt 4 _ (crcValue_lt _)]
  have e8 : (if n.data.length > 0 then storedBody n else ({} : Body)).data = n.data := by
    split
    · rfl
    · rename_i hd
      have : n.data = [] := by
        cases hn : n.data with
        | nil => rfl
        | cons a t => simp [hn] at hd
      simp [this]
  simp only [e6, if_false, e7, e8]
  split
  · rfl
  · unfold expectedDecode
    by_cases hv : v = 3
    · subst hv
      have e10 : (tailBytes 3 n).drop 4 = be 8 n.appendAtNs ++ (padSource 3 n).take (paddingLength (recSize n) 3) := by
        unfold tailBytes; rw [drop_be_append]; simp
      have e11 : ¬ (((tailBytes 3 n).drop 4).length < 8) := by rw [e10]; simp
      simp only [if_true, e11, if_false]
      rw [e10, take_be_append, beNat_be_of_lt 8 _ (by omega)]
    · simp only [hv, if_false]

/-- a record as it sits on disk after its DATA bytes were replaced by `d'` (same length): every other byte
    (sizes, flags, metadata, the stored checksum = CRC of the ORIGINAL data, timestamp, padding) is unchanged -/
def withData (n : Needle) (d' : Bytes) : Needle := { n with data := d' }

/-- … after bit `i` of the data was flipped -/
def corruptData (n : Needle) (i : Nat) : Needle := withData n (flipBit n.data i)

theorem withData_wf (crc : Bytes → UInt32) (n : Needle) (d' : Bytes) (hl : d'.length = n.data.length) (h : WF crc n) :
    WF (fun _ => crc n.data) (withData n d') := by
  obtain ⟨h1, h2, h3, h4, h5, h6, h7, h8, h9, h10, h11⟩ := h
  exact ⟨h1, h2, h3, h4, h5, h6, h7, h8, h9, h10, by simpa [withData, hl] using h11⟩

theorem withData_recSize (n : Needle) (d' : Bytes) (hl : d'.length = n.data.length) :
    recSize (withData n d') = recSize n := by
  unfold recSize nameSize mimeSize withData
  simp only [hl]

theorem recSize_pos (n : Needle) (h : 0 < n.data.length) : 0 < recSize n := by
  unfold recSize; simp only [h, if_true]; omega

/-- only the data bytes of the record differ from the written one -/
theorem withData_shape (v : Nat) (n : Needle) (d' : Bytes) (hl : d'.length = n.data.length) (hpos : 0 < n.data.length) :
    encode v n = headerBytes n ++ ((be 4 n.data.length ++ (n.data ++ (n.flags :: metaBytes n))) ++ tailBytes v n) ∧
    encode v (withData n d') =
      headerBytes n ++ ((be 4 n.data.length ++ (d' ++ (n.flags :: metaBytes n))) ++ tailBytes v n) := by
  have hr := withData_recSize n d' hl
  have hpos' : 0 < d'.length := by omega
  constructor
  · unfold encode bodyBytes; simp only [gt_iff_lt, hpos, if_true]
  · have e1 : headerBytes (withData n d') = headerBytes n := by
      unfold headerBytes; rw [hr]; rfl
    have e2 : tailBytes v (withData n d') = tailBytes v n := by
      unfold tailBytes padSource; rw [hr]
      simp only [withData, gt_iff_lt, hpos, hpos', true_and]
    have e3 : metaBytes (withData n d') = metaBytes n := by
      unfold metaBytes nameSec mimeSec lmSec ttlSec pairsSec nameSize mimeSize withData; rfl
    unfold encode
    rw [e1, e2]
    unfold bodyBytes
    rw [e3]
    simp only [withData, gt_iff_lt, hl, hpos, if_true]

/-- the decision, for ANY checksum function: a record whose data was replaced by bytes with a different
    checksum is answered with the CRC error -/
theorem readBytes_withData (crc : Bytes → UInt32) (v : Nat) (n : Needle) (h : WF crc n) (d' : Bytes)
    (hl : d'.length = n.data.length) (hpos : 0 < n.data.length) (hc : crc d' ≠ crc n.data) :
    readBytes crc v (encode v (withData n d')) (recSize n) = .error .crc := by
  have hw := withData_wf crc n d' hl h
  rw [← withData_recSize n d' hl, readBytes_encode_any _ crc v _ hw]
  have hp : recSize (withData n d') > 0 := by
    rw [withData_recSize n d' hl]; exact recSize_pos n hpos
  have hck : (withData n d').checksum = (crc n.data).toNat := h.2.2.2.2.2.2.2.2.1
  have hne : crcValue (withData n d').checksum ≠ crcValue (crc (withData n d').data).toNat := by
    intro he
    rw [hck] at he
    have := crcValue_inj _ _ (UInt32.toNat_lt _) (UInt32.toNat_lt _) he
    exact hc (UInt32.toNat_inj.mp this).symm
  simp only [hp, hne, ne_eq, not_false_eq_true, and_self, if_true]

/-- `ReadData` at the record's offset in a file = `ReadBytes` on the record (stored checksum arbitrary) -/
theorem readData_at_any (crcW crcR : Bytes → UInt32) (v : Nat) (n : Needle) (h : WF crcW n) (pre post : Bytes) :
    readData crcR v (pre ++ (encode v n ++ post)) pre.length (recSize n) = readBytes crcR v (encode v n) (recSize n) := by
  have hlen := encode_length crcW v n h
  have hs := recSize_lt crcW n h
  unfold readData
  rw [actualSizeI_eq _ v hs]
  have e1 : ¬ ((actualSize (recSize n) v : Int) < 0) := by omega
  have e2 : ((actualSize (recSize n) v : Nat) : Int).toNat = actualSize (recSize n) v := by omega
  simp only [e1, if_false, e2, List.drop_left, List.take_left' hlen]
  have e3 : ¬ ((encode v n).length < actualSize (recSize n) v) := by omega
  simp only [e3, if_false]

end SwV.Lemmas.C02

/-! ## burst errors of up to 32 bits (linearity of the register + bit-serial form of the CRC) -/

namespace SwV.Lemmas.C02
open SwV.Model.C02

theorem nat_xor_mod2 (x y : Nat) : (x ^^^ y) % 2 = (x % 2 + y % 2) % 2 := by
  have := Nat.testBit_xor x y 0
  simp only [Nat.testBit_zero] at this
  rcases Nat.mod_two_eq_zero_or_one x with hx | hx <;> rcases Nat.mod_two_eq_zero_or_one y with hy | hy <;>
    rcases Nat.mod_two_eq_zero_or_one (x ^^^ y) with hz | hz <;> simp_all

theorem lsb_xor (a b : UInt32) : ((a ^^^ b) &&& 1 = 1) ↔ ¬ ((a &&& 1 = 1) ↔ (b &&& 1 = 1)) := by
  rw [and_one_eq_one_iff, and_one_eq_one_iff, and_one_eq_one_iff, UInt32.toNat_xor, nat_xor_mod2]
  omega

theorem u32_xor_cancel (p x y : UInt32) : (x ^^^ p) ^^^ (y ^^^ p) = x ^^^ y := by
  rw [show (x ^^^ p) ^^^ (y ^^^ p) = (x ^^^ y) ^^^ (p ^^^ p) by ac_rfl]; simp

/-- the register update is linear over GF(2) -/
theorem crcBit_xor (a b : UInt32) : crcBit (a ^^^ b) = crcBit a ^^^ crcBit b := by
  unfold crcBit
  have hl := lsb_xor a b
  by_cases ha : a &&& 1 = 1 <;> by_cases hb : b &&& 1 = 1
  · have : ¬ ((a ^^^ b) &&& 1 = 1) := by rw [hl]; simp [ha, hb]
    simp only [ha, hb, this, if_true, if_false, UInt32.shiftRight_xor, u32_xor_cancel]
  · have : (a ^^^ b) &&& 1 = 1 := by rw [hl]; simp [ha, hb]
    simp only [ha, hb, this, if_true, if_false, UInt32.shiftRight_xor]; ac_rfl
  · have : (a ^^^ b) &&& 1 = 1 := by rw [hl]; simp [ha, hb]
    simp only [ha, hb, this, if_true, if_false, UInt32.shiftRight_xor]; ac_rfl
  · have : ¬ ((a ^^^ b) &&& 1 = 1) := by rw [hl]; simp [ha, hb]
    simp only [ha, hb, this, if_false, UInt32.shiftRight_xor]

/-- a state with lowest bit 0 is just shifted -/
theorem crcBit_even (c : UInt32) (h : c.toNat % 2 = 0) : crcBit c = c >>> 1 := by
  unfold crcBit
  have : ¬ (c &&& 1 = 1) := by rw [and_one_eq_one_iff]; omega
  simp [this]

end SwV.Lemmas.C02

namespace SwV.Lemmas.C02
open SwV.Model.C02

/-! ### the CRC bit by bit -/

def bitU (b : Bool) : UInt32 := if b then 1 else 0

/-- feed one message bit -/
def feedBit (s : UInt32) (b : Bool) : UInt32 := crcBit (s ^^^ bitU b)

/-- a list of bits as a word, first bit = bit 0 -/
def wordOf : List Bool → UInt32
  | [] => 0
  | b :: r => bitU b ^^^ (wordOf r <<< 1)

theorem wordOf_cons (b : Bool) (r : List Bool) : wordOf (b :: r) = bitU b ^^^ (wordOf r <<< 1) := rfl

def crcBitN : Nat → UInt32 → UInt32
  | 0, c => c
  | n + 1, c => crcBitN n (crcBit c)

theorem crcBitN_inj (n : Nat) : ∀ a b, crcBitN n a = crcBitN n b → a = b := by
  induction n with
  | zero => intro a b h; exact h
  | succ n ih => intro a b h; exact crcBit_inj _ _ (ih _ _ h)

theorem feedBit_inj (b : Bool) (s t : UInt32) (h : feedBit s b = feedBit t b) : s = t :=
  (UInt32.xor_left_inj _).mp (crcBit_inj _ _ h)

theorem foldl_feedBit_inj (u : List Bool) : ∀ s t, u.foldl feedBit s = u.foldl feedBit t → s = t := by
  induction u with
  | nil => intro s t h; exact h
  | cons b r ih => intro s t h; exact feedBit_inj b s t (ih _ _ h)

theorem bitU_toNat (b : Bool) : (bitU b).toNat = if b then 1 else 0 := by cases b <;> rfl

theorem shl1_toNat (w : UInt32) (h : w.toNat < 2 ^ 31) : (w <<< 1).toNat = 2 * w.toNat := by
  rw [UInt32.toNat_shiftLeft]
  simp only [show (1 : UInt32).toNat % 32 = 1 from rfl, Nat.shiftLeft_eq]
  omega

theorem wordOf_lt : ∀ (u : List Bool), u.length ≤ 32 → (wordOf u).toNat < 2 ^ u.length := by
  intro u
  induction u with
  | nil => intro _; decide
  | cons b r ih =>
    intro h
    have hr := ih (by simp at h; omega)
    have hr31 : (wordOf r).toNat < 2 ^ 31 := Nat.lt_of_lt_of_le hr (Nat.pow_le_pow_right (by omega) (by simp at h; omega))
    rw [wordOf_cons, UInt32.toNat_xor, shl1_toNat _ hr31, List.length_cons]
    apply Nat.xor_lt_two_pow
    · rw [bitU_toNat]; have : 2 ≤ 2 ^ (r.length + 1) := by
        rw [Nat.pow_succ]; have := Nat.one_le_two_pow (n := r.length); omega
      split <;> omega
    · rw [Nat.pow_succ]; omega

theorem crcBit_shl1 (w : UInt32) (h : w.toNat < 2 ^ 31) : crcBit (w <<< 1) = w := by
  rw [crcBit_even _ (by rw [shl1_toNat w h]; omega)]
  rw [← UInt32.toNat_inj, shr1_toNat, shl1_toNat w h]; omega

/-- feeding `n ≤ 32` bits = xoring them into the register as one word and stepping `n` times -/
theorem foldl_feedBit_eq : ∀ (u : List Bool) (s : UInt32), u.length ≤ 32 →
    u.foldl feedBit s = crcBitN u.length (s ^^^ wordOf u) := by
  intro u
  induction u with
  | nil => intro s _; simp [wordOf, crcBitN]
  | cons b r ih =>
    intro s h
    have hr : r.length ≤ 32 := by simp at h; omega
    have hw := wordOf_lt r hr
    have hr31 : (wordOf r).toNat < 2 ^ 31 := Nat.lt_of_lt_of_le hw (Nat.pow_le_pow_right (by omega) (by simp at h; omega))
    rw [List.foldl_cons, ih _ hr, List.length_cons]
    show _ = crcBitN r.length (crcBit (s ^^^ wordOf (b :: r)))
    congr 1
    unfold feedBit
    rw [wordOf_cons, ← UInt32.xor_assoc, crcBit_xor (s ^^^ bitU b), crcBit_shl1 _ hr31]

theorem lsb_wordOf (b : Bool) (w : UInt32) (h : w.toNat < 2 ^ 31) : (bitU b ^^^ (w <<< 1)).toNat % 2 = if b then 1 else 0 := by
  rw [UInt32.toNat_xor, nat_xor_mod2, shl1_toNat w h, bitU_toNat]
  split <;> omega

theorem wordOf_inj : ∀ (u u' : List Bool), u.length = u'.length → u.length ≤ 32 → wordOf u = wordOf u' → u = u' := by
  intro u
  induction u with
  | nil => intro u' hl _ _; cases u' with | nil => rfl | cons _ _ => simp at hl
  | cons b r ih =>
    intro u' hl hn h
    cases u' with
    | nil => simp at hl
    | cons b' r' =>
      have hrl : r.length = r'.length := by simpa using hl
      have hr : r.length ≤ 32 := by simp at hn; omega
      have hr31 : (wordOf r).toNat < 2 ^ 31 :=
        Nat.lt_of_lt_of_le (wordOf_lt r hr) (Nat.pow_le_pow_right (by omega) (by simp at hn; omega))
      have hr31' : (wordOf r').toNat < 2 ^ 31 :=
        Nat.lt_of_lt_of_le (wordOf_lt r' (by omega)) (Nat.pow_le_pow_right (by omega) (by simp at hn; omega))
      rw [wordOf_cons, wordOf_cons] at h
      have hb : b = b' := by
        have h1 := lsb_wordOf b _ hr31
        have h2 := lsb_wordOf b' _ hr31'
        rw [h, h2] at h1
        cases b <;> cases b' <;> simp at h1 <;> rfl
      subst hb
      have h3 := (UInt32.xor_right_inj _).mp h
      have h4 : wordOf r = wordOf r' := by
        have := congrArg crcBit h3
        rwa [crcBit_shl1 _ hr31, crcBit_shl1 _ hr31'] at this
      rw [ih r' hrl hr h4]

end SwV.Lemmas.C02

namespace SwV.Lemmas.C02
open SwV.Model.C02

/-- the bits of a byte in the order the (reflected) CRC consumes them: least significant first -/
def bits8 (x : UInt8) : List Bool := (List.range 8).map fun i => x.toNat.testBit i

/-- the message as a bit string -/
def bitsOf (d : Bytes) : List Bool := d.flatMap bits8

theorem bits8_length (x : UInt8) : (bits8 x).length = 8 := by simp [bits8]

theorem bitsOf_length (d : Bytes) : (bitsOf d).length = 8 * d.length := by
  induction d with
  | nil => rfl
  | cons x r ih => simp only [bitsOf, List.flatMap_cons, List.length_append, bits8_length, List.length_cons] at *; omega

theorem wordOf_bits8_nat : ∀ n, n < 256 → wordOf (bits8 (UInt8.ofNat n)) = (UInt8.ofNat n).toUInt32 := by decide +kernel

theorem wordOf_bits8 (x : UInt8) : wordOf (bits8 x) = x.toUInt32 := by
  have := wordOf_bits8_nat x.toNat x.toNat_lt
  rwa [UInt8.ofNat_toNat] at this

theorem crcByte_eq_feed (s : UInt32) (x : UInt8) : crcByte s x = (bits8 x).foldl feedBit s := by
  rw [foldl_feedBit_eq _ _ (by rw [bits8_length]; omega), bits8_length, wordOf_bits8]
  rfl

theorem foldl_crcByte_eq_feed (d : Bytes) : ∀ s, d.foldl crcByte s = (bitsOf d).foldl feedBit s := by
  induction d with
  | nil => intro s; rfl
  | cons x r ih =>
    intro s
    simp only [List.foldl_cons, bitsOf, List.flatMap_cons, List.foldl_append]
    rw [ih, crcByte_eq_feed]; rfl

/-- two messages whose bit strings differ only inside a window of at most 32 consecutive bits (a burst error
    of length ≤ 32, anywhere, across byte boundaries) have different CRC-32C -/
theorem crc32c_burst32 (d e : Bytes) (pre u u' post : List Bool)
    (hd : bitsOf d = pre ++ (u ++ post)) (he : bitsOf e = pre ++ (u' ++ post))
    (hl : u.length = u'.length) (hn : u.length ≤ 32) (hne : u ≠ u') : crc32c d ≠ crc32c e := by
  intro h
  unfold crc32c at h
  have h1 := (UInt32.xor_left_inj _).mp h
  rw [foldl_crcByte_eq_feed, foldl_crcByte_eq_feed, hd, he] at h1
  simp only [List.foldl_append] at h1
  have h2 := foldl_feedBit_inj post _ _ h1
  generalize List.foldl feedBit _ pre = s at h2
  rw [foldl_feedBit_eq u s hn, foldl_feedBit_eq u' s (by omega), ← hl] at h2
  have h3 := (UInt32.xor_right_inj _).mp (crcBitN_inj _ _ _ h2)
  exact hne (wordOf_inj u u' hl hn h3)

end SwV.Lemmas.C02
