/-
C15 — helper lemmas: counting over `distinct`/`cnt`, Prop-level readings of `satisfies` and `isGoodMove`,
and the arithmetic core of "a move approved by isGoodMove keeps a satisfied placement satisfied".
-/
import SwV.Model.C15
import SwV.Spec.C15
namespace SwV.Lemmas.C15
open SwV.Model.C15 SwV.Spec.C15

/-! ### `distinct` and `cnt` -/

theorem mem_distinct {α : Type} [DecidableEq α] (a : α) (l : List α) : a ∈ distinct l ↔ a ∈ l := by
  induction l with
  | nil => simp [distinct]
  | cons b rest ih =>
    unfold distinct
    by_cases hb : b ∈ distinct rest
    · simp only [hb, if_true]
      constructor
      · intro h; exact List.mem_cons_of_mem _ (ih.mp h)
      · intro h
        rcases List.mem_cons.mp h with h | h
        · exact h ▸ hb
        · exact ih.mpr h
    · simp only [hb, if_false, List.mem_cons, ih]

theorem distinct_cons_length {α : Type} [DecidableEq α] (a : α) (l : List α) :
    (distinct (a :: l)).length = if a ∈ l then (distinct l).length else (distinct l).length + 1 := by
  show (if a ∈ distinct l then distinct l else a :: distinct l).length = _
  by_cases h : a ∈ l
  · simp [h, (mem_distinct a l).mpr h]
  · have : a ∉ distinct l := fun e => h ((mem_distinct a l).mp e)
    simp [h, this]

theorem cnt_cons {α : Type} [DecidableEq α] (a b : α) (l : List α) :
    cnt a (b :: l) = cnt a l + (if b = a then 1 else 0) := by
  unfold cnt
  by_cases h : b = a <;> simp [List.filter_cons, h]

theorem cnt_pos_of_mem {α : Type} [DecidableEq α] (a : α) (l : List α) (h : a ∈ l) : cnt a l > 0 := by
  induction l with
  | nil => simp at h
  | cons b rest ih =>
    rw [cnt_cons]
    rcases List.mem_cons.mp h with h | h
    · simp [h]
    · have := ih h; omega

theorem cnt_zero_of_not_mem {α : Type} [DecidableEq α] (a : α) (l : List α) (h : a ∉ l) : cnt a l = 0 := by
  induction l with
  | nil => rfl
  | cons b rest ih =>
    rw [cnt_cons]
    have hb : ¬ b = a := fun e => h (by simp [e])
    have := ih (fun e => h (List.mem_cons_of_mem _ e))
    simp [hb, this]

theorem distinct_nodup {α : Type} [DecidableEq α] (l : List α) : (distinct l).Nodup := by
  induction l with
  | nil => simp [distinct]
  | cons a l ih =>
    unfold distinct
    by_cases h : a ∈ distinct l
    · simp [h, ih]
    · simp [h, ih]

theorem cnt_eq_count {α : Type} [DecidableEq α] (a : α) (l : List α) : cnt a l = l.count a := by
  induction l with
  | nil => rfl
  | cons b l ih =>
    rw [cnt_cons, ih, List.count_cons]
    by_cases h : b = a <;> simp [h]

theorem distinct_filter {α : Type} [DecidableEq α] (q : α → Bool) (l : List α) :
    distinct (l.filter q) = (distinct l).filter q := by
  induction l with
  | nil => simp [distinct]
  | cons a l ih =>
    by_cases hq : q a = true
    · rw [List.filter_cons_of_pos hq]
      unfold distinct
      rw [ih]
      by_cases h : a ∈ distinct l
      · have : a ∈ (distinct l).filter q := List.mem_filter.mpr ⟨h, hq⟩
        simp [h, this]
      · have : a ∉ (distinct l).filter q := fun e => h (List.mem_filter.mp e).1
        simp [h, this, List.filter_cons_of_pos hq]
    · rw [List.filter_cons_of_neg hq, ih]
      show _ = (if a ∈ distinct l then distinct l else a :: distinct l).filter q
      by_cases h : a ∈ distinct l
      · simp [h]
      · simp [h, List.filter_cons_of_neg hq]

theorem cnt_filter_pos {α : Type} [DecidableEq α] (q : α → Bool) (a : α) (l : List α) (h : q a = true) :
    cnt a (l.filter q) = cnt a l := by
  rw [cnt_eq_count, cnt_eq_count, List.count_filter h]

theorem distinct_perm {α : Type} [DecidableEq α] {l₁ l₂ : List α} (h : l₁.Perm l₂) :
    (distinct l₁).Perm (distinct l₂) :=
  (List.perm_ext_iff_of_nodup (distinct_nodup _) (distinct_nodup _)).mpr fun a => by
    rw [mem_distinct, mem_distinct, h.mem_iff]

theorem cnt_perm {α : Type} [DecidableEq α] {l₁ l₂ : List α} (h : l₁.Perm l₂) (a : α) : cnt a l₁ = cnt a l₂ := by
  rw [cnt_eq_count, cnt_eq_count, h.count_eq]

/-! ### sums over lists of keys -/

theorem sum_map_add {α : Type} (L : List α) (f g : α → Nat) :
    (L.map fun k => f k + g k).sum = (L.map f).sum + (L.map g).sum := by
  induction L with
  | nil => rfl
  | cons a L ih => simp only [List.map_cons, List.sum_cons, ih]; omega

theorem sum_indicator {α : Type} [DecidableEq α] (a : α) (L : List α) (hn : L.Nodup) :
    (L.map fun k => if a = k then 1 else 0).sum = if a ∈ L then 1 else 0 := by
  induction L with
  | nil => rfl
  | cons b L ih =>
    have hn' := List.nodup_cons.mp hn
    simp only [List.map_cons, List.sum_cons, ih hn'.2, List.mem_cons]
    by_cases hab : a = b
    · subst hab; simp [hn'.1]
    · simp [hab]

/-- every element is counted under exactly one key -/
theorem length_eq_sum_cnt {α : Type} [DecidableEq α] (l : List α) :
    l.length = ((distinct l).map fun k => cnt k l).sum := by
  induction l with
  | nil => rfl
  | cons a l ih =>
    have hc : (fun k => cnt k (a :: l)) = fun k => cnt k l + (if a = k then 1 else 0) := by
      funext k; exact cnt_cons k a l
    rw [hc]
    unfold distinct
    by_cases h : a ∈ distinct l
    · simp only [h, if_true, sum_map_add, sum_indicator a _ (distinct_nodup l), List.length_cons, ← ih]
    · have hz : cnt a l = 0 := cnt_zero_of_not_mem a l (fun e => h ((mem_distinct a l).mpr e))
      simp only [h, if_false, List.map_cons, List.sum_cons, sum_map_add, sum_indicator a _ (distinct_nodup l),
        List.length_cons, ← ih, hz, if_true]
      omega

theorem sum_const {α : Type} (L : List α) (f : α → Nat) (c : Nat) (h : ∀ k ∈ L, f k = c) :
    (L.map f).sum = L.length * c := by
  induction L with
  | nil => simp
  | cons a L ih =>
    simp only [List.map_cons, List.sum_cons, List.length_cons]
    rw [ih (fun k hk => h k (List.mem_cons_of_mem _ hk)), h a (by simp), Nat.succ_mul]; omega

theorem sum_ge_length {α : Type} (L : List α) (f : α → Nat) (h : ∀ k ∈ L, f k ≥ 1) :
    (L.map f).sum ≥ L.length := by
  induction L with
  | nil => simp
  | cons a L ih =>
    simp only [List.map_cons, List.sum_cons, List.length_cons]
    have := ih (fun k hk => h k (List.mem_cons_of_mem _ hk))
    have := h a (by simp)
    omega

theorem sum_le_length {α : Type} (L : List α) (f : α → Nat) (h : ∀ k ∈ L, f k ≤ 1) :
    (L.map f).sum ≤ L.length := by
  induction L with
  | nil => simp
  | cons a L ih =>
    simp only [List.map_cons, List.sum_cons, List.length_cons]
    have := ih (fun k hk => h k (List.mem_cons_of_mem _ hk))
    have := h a (by simp)
    omega

theorem sum_split {α : Type} [DecidableEq α] (L : List α) (f : α → Nat) (d : α) (hd : d ∈ L) :
    (L.map f).sum = f d + ((L.erase d).map f).sum := by
  have hp := (List.perm_cons_erase hd).map f
  rw [hp.sum_nat]; simp

/-! ### Prop-level reading of `satisfies` -/

structure Shape (rp : RP) (p : List Loc) (d : Nat) (r : Nat × Nat) : Prop where
  rmem : r ∈ racksOf p
  rdc : r.1 = d
  main : cntRack p r = rp.z + 1
  others : ∀ k ∈ racksOf p, k.1 = d → k ≠ r → cntRack p k = 1
  nracks : (racksIn p d).length = rp.y + 1
  odcs : ∀ d' ∈ dcsOf p, d' ≠ d → cntDc p d' = 1
  ndcs : (dcsOf p).length = rp.x + 1

theorem mem_racksIn (p : List Loc) (d : Nat) (k : Nat × Nat) : k ∈ racksIn p d ↔ k ∈ racksOf p ∧ k.1 = d := by
  simp [racksIn, List.mem_filter]

theorem dc_mem_of_rack_mem (p : List Loc) (k : Nat × Nat) (h : k ∈ racksOf p) : k.1 ∈ dcsOf p := by
  unfold racksOf at h; unfold dcsOf
  rw [mem_distinct] at h ⊢
  obtain ⟨l, hl, rfl⟩ := List.mem_map.mp h
  exact List.mem_map.mpr ⟨l, hl, rfl⟩

theorem satisfies_iff (rp : RP) (p : List Loc) :
    satisfies rp p = true ↔ p.Nodup ∧ ∃ d r, Shape rp p d r := by
  unfold satisfies nodupB
  simp only [Bool.and_eq_true, decide_eq_true_eq, List.any_eq_true]
  constructor
  · rintro ⟨hn, d, hd, r, hr, hs⟩
    refine ⟨hn, d, r, ?_⟩
    have hr' := (mem_racksIn p d r).mp hr
    have hlen : (racksIn p d).length ≥ 1 := List.length_pos_of_mem hr
    have hlen2 : (dcsOf p).length ≥ 1 := List.length_pos_of_mem hd
    simp only [shapeAt, if_true, Bool.and_eq_true, beq_iff_eq, List.all_eq_true, Bool.or_eq_true] at hs
    obtain ⟨⟨⟨⟨h1, h2⟩, h3⟩, h4⟩, h5⟩ := hs
    refine ⟨hr'.1, hr'.2, h1, ?_, by omega, ?_, by omega⟩
    · intro k hk hkd hne
      rcases h2 k ((mem_racksIn p d k).mpr ⟨hk, hkd⟩) with h | h
      · exact absurd h hne
      · exact h
    · intro d' hd' hne
      rcases h4 d' hd' with h | h
      · exact absurd h hne
      · exact h
  · rintro ⟨hn, d, r, hs⟩
    have hr : r ∈ racksIn p d := (mem_racksIn p d r).mpr ⟨hs.rmem, hs.rdc⟩
    have hd : d ∈ dcsOf p := hs.rdc ▸ dc_mem_of_rack_mem p r hs.rmem
    refine ⟨hn, d, hd, r, hr, ?_⟩
    simp only [shapeAt, if_true, Bool.and_eq_true, beq_iff_eq, List.all_eq_true, Bool.or_eq_true]
    refine ⟨⟨⟨⟨hs.main, ?_⟩, by have := hs.nracks; omega⟩, ?_⟩, by have := hs.ndcs; omega⟩
    · intro k hk
      have hk' := (mem_racksIn p d k).mp hk
      by_cases e : k = r
      · exact Or.inl e
      · exact Or.inr (hs.others k hk'.1 hk'.2 e)
    · intro d' hd'
      by_cases e : d' = d
      · exact Or.inl e
      · exact Or.inr (hs.odcs d' hd' e)

/-! ### permutation invariance -/

theorem racksOf_perm {p q : List Loc} (h : p.Perm q) : (racksOf p).Perm (racksOf q) := distinct_perm (h.map rackKey)
theorem dcsOf_perm {p q : List Loc} (h : p.Perm q) : (dcsOf p).Perm (dcsOf q) := distinct_perm (h.map (fun l : Loc => l.dc))
theorem racksIn_perm {p q : List Loc} (h : p.Perm q) (d : Nat) : (racksIn p d).Perm (racksIn q d) := (racksOf_perm h).filter _
theorem cntRack_perm {p q : List Loc} (h : p.Perm q) (k : Nat × Nat) : cntRack p k = cntRack q k := cnt_perm (h.map rackKey) k
theorem cntDc_perm {p q : List Loc} (h : p.Perm q) (d : Nat) : cntDc p d = cntDc q d := cnt_perm (h.map (fun l : Loc => l.dc)) d

theorem shape_perm {rp : RP} {p q : List Loc} {d : Nat} {r : Nat × Nat} (h : p.Perm q) (s : Shape rp p d r) :
    Shape rp q d r where
  rmem := (racksOf_perm h).mem_iff.mp s.rmem
  rdc := s.rdc
  main := by rw [← cntRack_perm h]; exact s.main
  others := fun k hk hd hne => by rw [← cntRack_perm h]; exact s.others k ((racksOf_perm h).mem_iff.mpr hk) hd hne
  nracks := by rw [← (racksIn_perm h d).length_eq]; exact s.nracks
  odcs := fun d' hd' hne => by rw [← cntDc_perm h]; exact s.odcs d' ((dcsOf_perm h).mem_iff.mpr hd') hne
  ndcs := by rw [← (dcsOf_perm h).length_eq]; exact s.ndcs

/-! ### racks per data center -/

theorem len_filter_rack (p : List Loc) (d : Nat) :
    ((p.map rackKey).filter (fun k => k.1 == d)).length = cntDc p d := by
  induction p with
  | nil => rfl
  | cons l p ih =>
    unfold cntDc at ih ⊢
    rw [List.map_cons, List.map_cons, cnt_cons, ← ih]
    by_cases h : l.dc = d <;> simp [rackKey, h]

/-- the replicas of a data center, counted rack by rack -/
theorem cntDc_eq_sum (p : List Loc) (d : Nat) : cntDc p d = ((racksIn p d).map (cntRack p)).sum := by
  rw [← len_filter_rack, length_eq_sum_cnt, distinct_filter]
  show _ = (((racksOf p).filter (fun k => k.1 == d)).map (cntRack p)).sum
  unfold racksOf
  congr 1
  apply List.map_congr_left
  intro k hk
  exact cnt_filter_pos _ k _ (List.mem_filter.mp hk).2

theorem cnt_map_eq {α β : Type} [DecidableEq β] (f : α → β) (b : β) (K : List α) :
    cnt b (K.map f) = (K.filter (fun k => f k == b)).length := by
  induction K with
  | nil => rfl
  | cons k K ih =>
    rw [List.map_cons, cnt_cons, ih]
    by_cases h : f k = b <;> simp [h]

theorem mem_dcsOf (p : List Loc) (d : Nat) : d ∈ dcsOf p ↔ ∃ l ∈ p, l.dc = d := by
  unfold dcsOf; rw [mem_distinct]; simp [List.mem_map]

theorem mem_racksOf (p : List Loc) (k : Nat × Nat) : k ∈ racksOf p ↔ ∃ l ∈ p, rackKey l = k := by
  unfold racksOf; rw [mem_distinct]; simp [List.mem_map]

/-- the racks of a placement, counted data center by data center -/
theorem racks_eq_sum (p : List Loc) : (racksOf p).length = ((dcsOf p).map fun d => (racksIn p d).length).sum := by
  have h1 : (racksOf p).length = ((racksOf p).map (·.1)).length := by simp
  rw [h1, length_eq_sum_cnt]
  have hperm : (distinct ((racksOf p).map (·.1))).Perm (dcsOf p) :=
    (List.perm_ext_iff_of_nodup (distinct_nodup _) (distinct_nodup _)).mpr fun d => by
      rw [mem_distinct]
      constructor
      · intro h
        obtain ⟨k, hk, rfl⟩ := List.mem_map.mp h
        exact dc_mem_of_rack_mem p k hk
      · intro h
        obtain ⟨l, hl, rfl⟩ := (mem_dcsOf p d).mp h
        exact List.mem_map.mpr ⟨rackKey l, (mem_racksOf p _).mpr ⟨l, hl, rfl⟩, rfl⟩
  rw [(hperm.map _).sum_nat]
  congr 1
  apply List.map_congr_left
  intro d _
  exact cnt_map_eq _ d _

theorem racksIn_pos (p : List Loc) (d : Nat) (h : d ∈ dcsOf p) : (racksIn p d).length ≥ 1 := by
  obtain ⟨l, hl, rfl⟩ := (mem_dcsOf p d).mp h
  exact List.length_pos_of_mem ((mem_racksIn p l.dc (rackKey l)).mpr ⟨(mem_racksOf p _).mpr ⟨l, hl, rfl⟩, rfl⟩)

/-! ### Prop-level reading of `isGoodMove` -/

/-- the replica list `isGoodMove` evaluates: the target plus every replica not on the source server -/
def afterOf (reps : List Loc) (src dst : Loc) : List Loc := dst :: reps.filter (fun r => r.id != src.id)

/-- what `isGoodMove` checks on that list: x+1 data centers, x+y+1 racks, z+1 replicas in EVERY rack -/
structure GoodAfter (rp : RP) (a : List Loc) : Prop where
  ndcs : (dcsOf a).length = rp.x + 1
  nracks : (racksOf a).length = rp.y + rp.x + 1
  each : ∀ k ∈ racksOf a, cntRack a k = rp.z + 1

theorem isGoodMove_good (rp : RP) (reps : List Loc) (src dst : Loc) (h : isGoodMove rp reps src dst = true) :
    GoodAfter rp (afterOf reps src dst) := by
  unfold isGoodMove at h
  split at h
  · simp at h
  · simp only [Bool.and_eq_true, beq_iff_eq, List.all_eq_true] at h
    exact ⟨h.1.1, h.1.2, h.2⟩

/-- the replication settings for which the three counts of `isGoodMove` pin the shape down -/
def goodClass (rp : RP) : Prop := (rp.z = 0 ∧ (rp.x = 0 ∨ rp.y ≤ 1)) ∨ (rp.x = 0 ∧ rp.y = 0)
instance (rp : RP) : Decidable (goodClass rp) := by unfold goodClass; exact inferInstance

theorem eq_of_length_one {α : Type} (L : List α) (h : L.length = 1) (a b : α) (ha : a ∈ L) (hb : b ∈ L) : a = b := by
  match L, h with
  | [x], _ => simp at ha hb; rw [ha, hb]

/-- numbers ≥ 1 with sum = count + e: whoever has e+1 leaves exactly 1 to everybody else -/
theorem others_one {α : Type} [DecidableEq α] (L : List α) (n : α → Nat) (e : Nat)
    (hpos : ∀ d ∈ L, n d ≥ 1) (hsum : (L.map n).sum = L.length + e)
    (d : α) (hd : d ∈ L) (hnd : n d = e + 1) (d' : α) (hd' : d' ∈ L) (hne : d' ≠ d) : n d' = 1 := by
  have h1 := sum_split L n d hd
  have hd'' : d' ∈ L.erase d := (List.mem_erase_of_ne hne).mpr hd'
  have h2 := sum_split (L.erase d) n d' hd''
  have h3 := sum_ge_length ((L.erase d).erase d') n (fun k hk => hpos k (List.mem_of_mem_erase (List.mem_of_mem_erase hk)))
  have l1 := List.length_erase_of_mem hd
  have l2 := List.length_erase_of_mem hd''
  have := hpos d' hd'
  have := List.length_pos_of_mem hd
  have := List.length_pos_of_mem hd''
  omega

theorem le_of_sum {α : Type} [DecidableEq α] (L : List α) (n : α → Nat) (e : Nat)
    (hpos : ∀ d ∈ L, n d ≥ 1) (hsum : (L.map n).sum = L.length + e) (d : α) (hd : d ∈ L) : n d ≤ e + 1 := by
  have h1 := sum_split L n d hd
  have h3 := sum_ge_length (L.erase d) n (fun k hk => hpos k (List.mem_of_mem_erase hk))
  have l1 := List.length_erase_of_mem hd
  have := List.length_pos_of_mem hd
  omega

/-- x+1 data centers with x+y+1 racks: in the good class one data center has y+1 racks -/
theorem exists_main_dc {α : Type} [DecidableEq α] (L : List α) (n : α → Nat) (x y : Nat)
    (hc : x = 0 ∨ y ≤ 1) (hlen : L.length = x + 1) (hpos : ∀ d ∈ L, n d ≥ 1)
    (hsum : (L.map n).sum = y + x + 1) : ∃ d ∈ L, n d = y + 1 := by
  have hsum' : (L.map n).sum = L.length + y := by omega
  match L, hlen with
  | d0 :: rest, hlen =>
    by_cases hx : x = 0
    · subst hx
      have : rest = [] := by
        cases rest with
        | nil => rfl
        | cons _ _ => simp at hlen
      subst this
      exact ⟨d0, by simp, by simpa using hsum⟩
    · have hy : y ≤ 1 := by omega
      by_cases hy0 : y = 0
      · have := le_of_sum _ n y hpos hsum' d0 (by simp)
        have := hpos d0 (by simp)
        exact ⟨d0, by simp, by omega⟩
      · have hy1 : y = 1 := by omega
        by_cases hex : ∃ d ∈ d0 :: rest, 2 ≤ n d
        · obtain ⟨d, hd, h2⟩ := hex
          have := le_of_sum _ n y hpos hsum' d hd
          exact ⟨d, hd, by omega⟩
        · have hall : ∀ d ∈ d0 :: rest, n d ≤ 1 := fun d hd => Nat.le_of_not_lt (fun hlt => hex ⟨d, hd, hlt⟩)
          have := sum_le_length _ n hall
          omega

theorem good_imp_shape (rp : RP) (a : List Loc) (hne : a ≠ []) (g : GoodAfter rp a) (hc : goodClass rp) :
    ∃ d r, Shape rp a d r := by
  by_cases hz : rp.z = 0
  · -- every rack holds one replica
    have hxy : rp.x = 0 ∨ rp.y ≤ 1 := by
      rcases hc with h | h
      · exact h.2
      · exact Or.inl h.1
    have hsum : ((dcsOf a).map fun d => (racksIn a d).length).sum = rp.y + rp.x + 1 := by
      rw [← racks_eq_sum]; exact g.nracks
    obtain ⟨d, hd, hnd⟩ := exists_main_dc (dcsOf a) (fun d => (racksIn a d).length) rp.x rp.y hxy g.ndcs
      (fun d hd => racksIn_pos a d hd) hsum
    have hnd' : (racksIn a d).length = rp.y + 1 := hnd
    obtain ⟨r, hr⟩ := List.exists_mem_of_length_pos (l := racksIn a d) (by omega)
    have hr' := (mem_racksIn a d r).mp hr
    refine ⟨d, r, hr'.1, hr'.2, g.each r hr'.1, ?_, hnd', ?_, g.ndcs⟩
    · intro k hk _ _
      rw [g.each k hk, hz]
    · intro d' hd' hne'
      have hone : (racksIn a d').length = 1 :=
        others_one (dcsOf a) (fun d => (racksIn a d).length) rp.y (fun d hd => racksIn_pos a d hd)
          (by rw [hsum, g.ndcs]; omega) d hd hnd d' hd' hne'
      rw [cntDc_eq_sum, sum_const _ _ 1 (fun k hk => by rw [g.each k ((mem_racksIn a d' k).mp hk).1, hz]), hone]
  · -- one data center, one rack
    have hxy : rp.x = 0 ∧ rp.y = 0 := by
      rcases hc with h | h
      · exact absurd h.1 hz
      · exact h
    have hD : (dcsOf a).length = 1 := by rw [g.ndcs, hxy.1]
    have hR : (racksOf a).length = 1 := by rw [g.nracks, hxy.1, hxy.2]
    obtain ⟨l, hl⟩ := List.exists_mem_of_ne_nil a hne
    have hr : rackKey l ∈ racksOf a := (mem_racksOf a _).mpr ⟨l, hl, rfl⟩
    refine ⟨l.dc, rackKey l, hr, rfl, g.each _ hr, ?_, ?_, ?_, g.ndcs⟩
    · intro k hk _ hne'
      exact absurd (eq_of_length_one _ hR k _ hk hr) hne'
    · have h1 : (racksIn a l.dc).length ≥ 1 := List.length_pos_of_mem ((mem_racksIn a l.dc _).mpr ⟨hr, rfl⟩)
      have h2 : (racksIn a l.dc).length ≤ (racksOf a).length := List.length_filter_le _ _
      omega
    · intro d' hd' hne'
      exact absurd (eq_of_length_one _ hD d' _ hd' ((mem_dcsOf a _).mpr ⟨l, hl, rfl⟩)) hne'

/-! ### `adjustAfterMove` against the list `isGoodMove` evaluated -/

/-- server ids identify servers: equal id ⇒ same data center and rack (ids are ip:port) -/
def idsInj (l : List Loc) : Prop := ∀ a ∈ l, ∀ b ∈ l, a.id = b.id → a = b
instance (l : List Loc) : Decidable (idsInj l) := by unfold idsInj; exact inferInstance

theorem idsInj_subset {l m : List Loc} (h : ∀ a ∈ l, a ∈ m) (hm : idsInj m) : idsInj l :=
  fun a ha b hb e => hm a (h a ha) b (h b hb) e

theorem adjust_of_not_mem (reps : List Loc) (src dst : Loc) (h : src ∉ reps) : adjustReps reps src dst = reps := by
  induction reps with
  | nil => rfl
  | cons r rest ih =>
    have h1 : ¬ r = src := fun e => h (by simp [e])
    have h2 : src ∉ rest := fun e => h (List.mem_cons_of_mem _ e)
    simp [adjustReps, h1, ih h2]

theorem adjust_perm (reps : List Loc) (src dst : Loc) (hn : reps.Nodup) (hs : src ∈ reps) (hi : idsInj reps) :
    (adjustReps reps src dst).Perm (afterOf reps src dst) := by
  induction reps with
  | nil => simp at hs
  | cons r rest ih =>
    have hn' := List.nodup_cons.mp hn
    unfold adjustReps afterOf
    by_cases hr : r = src
    · subst hr
      have hkeep : rest.filter (fun q => q.id != r.id) = rest := by
        apply List.filter_eq_self.mpr
        intro q hq
        have : ¬ q.id = r.id := fun e => hn'.1 ((hi q (List.mem_cons_of_mem _ hq) r (by simp) e) ▸ hq)
        simpa using this
      simp [hkeep]
    · have hid : ¬ r.id = src.id := fun e => hr (hi r (by simp) src hs e)
      have hs' : src ∈ rest := by
        rcases List.mem_cons.mp hs with h | h
        · exact absurd h.symm hr
        · exact h
      have ih' := ih hn'.2 hs' (idsInj_subset (fun a ha => List.mem_cons_of_mem _ ha) hi)
      unfold afterOf at ih'
      have hb : (r.id != src.id) = true := by simpa using hid
      simp only [hr, if_false, List.filter_cons, hb, if_true]
      exact (ih'.cons r).trans (List.Perm.swap _ _ _)

theorem afterOf_length (reps : List Loc) (src dst : Loc) (hn : reps.Nodup) (hs : src ∈ reps) (hi : idsInj reps) :
    (afterOf reps src dst).length = reps.length := by
  rw [← (adjust_perm reps src dst hn hs hi).length_eq]
  clear hn hs hi
  induction reps with
  | nil => rfl
  | cons r rest ih =>
    unfold adjustReps
    by_cases hr : r = src <;> simp [hr, ih]

/-! ### sizes: a satisfied placement has x+y+z+1 replicas, an approved one (x+y+1)(z+1) -/

theorem sum_main_others {α : Type} [DecidableEq α] (L : List α) (f : α → Nat) (r : α) (hr : r ∈ L)
    (ho : ∀ k ∈ L, k ≠ r → f k = 1) (hn : L.Nodup) : (L.map f).sum = f r + (L.length - 1) := by
  rw [sum_split L f r hr, sum_const (L.erase r) f 1 (fun k hk => ho k (List.mem_of_mem_erase hk)
    (fun e => (List.Nodup.mem_erase_iff hn).mp hk |>.1 e)), List.length_erase_of_mem hr]
  omega

theorem shape_length (rp : RP) (p : List Loc) (d : Nat) (r : Nat × Nat) (s : Shape rp p d r) :
    p.length = rp.x + rp.y + rp.z + 1 := by
  have hd : d ∈ dcsOf p := s.rdc ▸ dc_mem_of_rack_mem p r s.rmem
  have h1 : p.length = (p.map (·.dc)).length := by simp
  have h2 : ((dcsOf p).map (cntDc p)).sum = cntDc p d + ((dcsOf p).length - 1) :=
    sum_main_others (dcsOf p) (cntDc p) d hd s.odcs (distinct_nodup _)
  have hr : r ∈ racksIn p d := (mem_racksIn p d r).mpr ⟨s.rmem, s.rdc⟩
  have h3 : ((racksIn p d).map (cntRack p)).sum = cntRack p r + ((racksIn p d).length - 1) :=
    sum_main_others (racksIn p d) (cntRack p) r hr
      (fun k hk hne => s.others k ((mem_racksIn p d k).mp hk).1 ((mem_racksIn p d k).mp hk).2 hne)
      ((distinct_nodup _).filter _)
  have h4 : p.length = ((dcsOf p).map (cntDc p)).sum := by
    rw [h1, length_eq_sum_cnt]; rfl
  rw [h4, h2, cntDc_eq_sum, h3, s.main, s.nracks, s.ndcs]
  omega

theorem good_length (rp : RP) (a : List Loc) (g : GoodAfter rp a) : a.length = (rp.y + rp.x + 1) * (rp.z + 1) := by
  have h1 : a.length = (a.map rackKey).length := by simp
  have h2 : a.length = ((racksOf a).map (cntRack a)).sum := by
    rw [h1, length_eq_sum_cnt]; rfl
  rw [h2, sum_const _ _ _ g.each, g.nracks]

/-- z ≥ 1 together with x+y ≥ 1: `isGoodMove` demands z+1 replicas in EVERY rack, i.e. (x+y+1)(z+1) replicas,
    a satisfied placement has x+y+z+1 — no replica of a satisfied placement is ever approved to move -/
theorem mixed_never_moves (rp : RP) (reps : List Loc) (src dst : Loc) (hz : rp.z ≥ 1) (hxy : rp.x + rp.y ≥ 1)
    (hi : idsInj reps) (hs : satisfies rp reps = true) (hsrc : src ∈ reps) : isGoodMove rp reps src dst = false := by
  cases hg : isGoodMove rp reps src dst with
  | false => rfl
  | true =>
    exfalso
    obtain ⟨hn, d, r, sh⟩ := (satisfies_iff rp reps).mp hs
    have l1 := shape_length rp reps d r sh
    have l2 := good_length rp _ (isGoodMove_good rp reps src dst hg)
    have l3 := afterOf_length reps src dst hn hsrc hi
    rw [l3, l1] at l2
    have e : (rp.y + rp.x + 1) * (rp.z + 1) = (rp.y + rp.x) * rp.z + rp.y + rp.x + rp.z + 1 := by
      rw [Nat.add_mul, Nat.mul_add, Nat.mul_one, Nat.one_mul]; omega
    have : (rp.y + rp.x) * rp.z ≥ 1 := Nat.mul_pos (by omega) (by omega)
    omega

/-- z = 0: the three counts of `isGoodMove` plus ONE data center with y+1 racks give the shape -/
theorem good_shape_of_main (rp : RP) (a : List Loc) (g : GoodAfter rp a) (hz : rp.z = 0)
    (d : Nat) (hd : d ∈ dcsOf a) (hnd : (racksIn a d).length = rp.y + 1) : ∃ r, Shape rp a d r := by
  have hsum : ((dcsOf a).map fun d => (racksIn a d).length).sum = rp.y + rp.x + 1 := by
    rw [← racks_eq_sum]; exact g.nracks
  obtain ⟨r, hr⟩ := List.exists_mem_of_length_pos (l := racksIn a d) (by omega)
  have hr' := (mem_racksIn a d r).mp hr
  refine ⟨r, hr'.1, hr'.2, g.each r hr'.1, ?_, hnd, ?_, g.ndcs⟩
  · intro k hk _ _
    rw [g.each k hk, hz]
  · intro d' hd' hne'
    have hone : (racksIn a d').length = 1 :=
      others_one (dcsOf a) (fun d => (racksIn a d).length) rp.y (fun d hd => racksIn_pos a d hd)
        (by rw [hsum, g.ndcs]; omega) d hd hnd d' hd' hne'
    rw [cntDc_eq_sum, sum_const _ _ 1 (fun k hk => by rw [g.each k ((mem_racksIn a d' k).mp hk).1, hz]), hone]

/-- the decidable condition on (rp, replica set, move): after the move some data center still has y+1 racks -/
def mainDcSurvives (rp : RP) (reps : List Loc) (src dst : Loc) : Bool :=
  (dcsOf (afterOf reps src dst)).any fun d => (racksIn (afterOf reps src dst) d).length == rp.y + 1

end SwV.Lemmas.C15
