/-
C27 — the depth-first key stream `allKeys` of the recursive listing covers the bucket:
facts about the directory view `children` (built by ordered insertion) and completeness of the stream.
-/
import SwV.Lemmas.C27b
import SwV.Spec.C27
namespace SwV.Lemmas.C27
open SwV.Model.C19 (Bytes ltB isPrefix)
open SwV.Model.C27 SwV.Spec.C27
open SwV.Lemmas.C19

/-! ## the key stream covers the bucket -/

theorem insertEnt_has (e : Ent) : ∀ L : List Ent, ∃ x ∈ insertEnt e L, x.key = e.key ∧ (e.expired = true → x.expired = true) := by
  intro L
  induction L with
  | nil => exact ⟨e, by simp [insertEnt], rfl, id⟩
  | cons y L ih =>
    unfold insertEnt
    by_cases h1 : ltB e.key y.key = true
    · simp only [h1, if_true]; exact ⟨e, by simp, rfl, id⟩
    · simp only [h1]
      by_cases h2 : e.key = y.key
      · simp only [h2, if_true]
        exact ⟨{ y with expired := y.expired || e.expired }, by simp, rfl, fun h => by simp [h]⟩
      · simp only [h2, if_false, Bool.false_eq_true]
        obtain ⟨x, hx, hk, hf⟩ := ih
        exact ⟨x, List.mem_cons_of_mem _ hx, hk, hf⟩

theorem insertEnt_keeps (e : Ent) : ∀ (L : List Ent) (y : Ent), y ∈ L →
    ∃ x ∈ insertEnt e L, x.key = y.key ∧ (y.expired = true → x.expired = true) := by
  intro L
  induction L with
  | nil => intro y hy; cases hy
  | cons z L ih =>
    intro y hy
    unfold insertEnt
    by_cases h1 : ltB e.key z.key = true
    · simp only [h1, if_true]; exact ⟨y, List.mem_cons_of_mem _ hy, rfl, id⟩
    · simp only [h1]
      by_cases h2 : e.key = z.key
      · simp only [h2, if_true]
        cases List.mem_cons.1 hy with
        | inl h => subst h; exact ⟨{ y with expired := y.expired || e.expired }, by simp, rfl, fun h => by simp [h]⟩
        | inr h => exact ⟨y, List.mem_cons_of_mem _ h, rfl, id⟩
      · simp only [h2, if_false, Bool.false_eq_true]
        cases List.mem_cons.1 hy with
        | inl h => subst h; exact ⟨y, by simp, rfl, id⟩
        | inr h =>
          obtain ⟨x, hx, hk, hf⟩ := ih y h
          exact ⟨x, List.mem_cons_of_mem _ hx, hk, hf⟩

theorem insertEnt_flag (e : Ent) : ∀ (L : List Ent) (x : Ent), x ∈ insertEnt e L → x.expired = true →
    (∃ y ∈ L, y.key = x.key ∧ y.expired = true) ∨ (e.key = x.key ∧ e.expired = true) := by
  intro L
  induction L with
  | nil =>
    intro x hx hf
    simp only [insertEnt, List.mem_singleton] at hx
    subst hx; exact Or.inr ⟨rfl, hf⟩
  | cons z L ih =>
    intro x hx hf
    unfold insertEnt at hx
    by_cases h1 : ltB e.key z.key = true
    · simp only [h1, if_true] at hx
      cases List.mem_cons.1 hx with
      | inl h => subst h; exact Or.inr ⟨rfl, hf⟩
      | inr h => exact Or.inl ⟨x, h, rfl, hf⟩
    · simp only [h1] at hx
      by_cases h2 : e.key = z.key
      · simp only [h2, if_true, Bool.false_eq_true, if_false] at hx
        cases List.mem_cons.1 hx with
        | inl h =>
          subst h
          simp only [Bool.or_eq_true] at hf
          cases hf with
          | inl h3 => exact Or.inl ⟨z, by simp, rfl, h3⟩
          | inr h3 => exact Or.inr ⟨h2, h3⟩
        | inr h => exact Or.inl ⟨x, List.mem_cons_of_mem _ h, rfl, hf⟩
      · simp only [h2, if_false, Bool.false_eq_true] at hx
        cases List.mem_cons.1 hx with
        | inl h => subst h; exact Or.inl ⟨x, by simp, rfl, hf⟩
        | inr h =>
          rcases ih x h hf with ⟨y, hy, hk, hfy⟩ | hr
          · exact Or.inl ⟨y, List.mem_cons_of_mem _ hy, hk, hfy⟩
          · exact Or.inr hr

theorem children_cons (k : List Bytes) (ks : List (List Bytes)) (dir : List Bytes) :
    children (k :: ks) dir = (match stripDir dir k with
      | some (s :: rest) => insertEnt ⟨s, !rest.isEmpty⟩ (children ks dir)
      | _ => children ks dir) := by
  simp only [SwV.Model.C27.children, List.foldr_cons]
  cases stripDir dir k with
  | none => rfl
  | some l => cases l <;> rfl

/-- every key below `dir` shows up in the directory view, as a directory when something lies below its name -/
theorem children_has (dir : List Bytes) : ∀ (ks : List (List Bytes)) (k : List Bytes) (s : Bytes) (rest : List Bytes),
    k ∈ ks → stripDir dir k = some (s :: rest) →
    ∃ x ∈ children ks dir, x.key = s ∧ (rest ≠ [] → x.expired = true) := by
  intro ks
  induction ks with
  | nil => intro k s rest hk; cases hk
  | cons k0 ks ih =>
    intro k s rest hk hs
    rw [children_cons]
    cases List.mem_cons.1 hk with
    | inl h =>
      subst h
      simp only [hs]
      obtain ⟨x, hx, hkx, hf⟩ := insertEnt_has ⟨s, !rest.isEmpty⟩ (children ks dir)
      exact ⟨x, hx, hkx, fun hne => hf (by cases rest <;> simp_all)⟩
    | inr h =>
      obtain ⟨y, hy, hky, hfy⟩ := ih k s rest h hs
      split
      · obtain ⟨x, hx, hkx, hf⟩ := insertEnt_keeps _ (children ks dir) y hy
        exact ⟨x, hx, hkx.trans hky, fun hne => hf (hfy hne)⟩
      · exact ⟨y, hy, hky, hfy⟩

/-- an entry is a directory only because some key lies below its name -/
theorem children_flag (dir : List Bytes) : ∀ (ks : List (List Bytes)) (x : Ent), x ∈ children ks dir → x.expired = true →
    ∃ k ∈ ks, ∃ rest, rest ≠ [] ∧ stripDir dir k = some (x.key :: rest) := by
  intro ks
  induction ks with
  | nil => intro x hx; simp [SwV.Model.C27.children] at hx
  | cons k0 ks ih =>
    intro x hx hf
    rw [children_cons] at hx
    split at hx
    · rename_i s rest hs
      rcases insertEnt_flag _ _ x hx hf with ⟨y, hy, hk, hfy⟩ | ⟨hk, hfe⟩
      · obtain ⟨k, hkm, r, hr, hst⟩ := ih y hy hfy
        exact ⟨k, List.mem_cons_of_mem _ hkm, r, hr, by rw [← hk]; exact hst⟩
      · simp only at hk hfe
        refine ⟨k0, List.mem_cons_self, rest, ?_, by rw [← hk]; exact hs⟩
        intro h0; subst h0; simp at hfe
    · obtain ⟨k, hkm, r, hr, hst⟩ := ih x hx hf
      exact ⟨k, List.mem_cons_of_mem _ hkm, r, hr, hst⟩

theorem stripDir_nil (k : List Bytes) : stripDir [] k = some k := by
  cases k <;> rfl

/-- COMPLETENESS of the key stream: in a bucket that never holds a key and a key below it, every one- and
    two-segment key is in `allKeys` (as its "/"-joined string) -/
theorem allKeys_complete (ks : List (List Bytes))
    (hvalid : ∀ s : Bytes, [s] ∈ ks → ∀ rest, (s :: rest) ∈ ks → rest = []) :
    (∀ s : Bytes, [s] ∈ ks → joinSlash [s] ∈ allKeys ks) ∧
    (∀ d n : Bytes, [d, n] ∈ ks → joinSlash [d, n] ∈ allKeys ks) := by
  constructor
  · intro s hs
    obtain ⟨x, hx, hk, _⟩ := children_has [] ks [s] s [] hs (stripDir_nil _)
    have hfile : x.expired = false := by
      cases hf : x.expired with
      | false => rfl
      | true =>
        obtain ⟨k, hkm, rest, hr, hst⟩ := children_flag [] ks x hx hf
        rw [stripDir_nil] at hst
        simp only [Option.some.injEq] at hst
        subst hst
        rw [hk] at hkm
        exact absurd (hvalid s hs rest hkm) hr
    simp only [allKeys, streamOf, List.mem_flatMap]
    exact ⟨x, hx, by simp [entryKeys, hfile, joinSlash, hk]⟩
  · intro d n hdn
    obtain ⟨x, hx, hk, hf⟩ := children_has [] ks [d, n] d [n] hdn (stripDir_nil _)
    have hdir : x.expired = true := hf (by simp)
    obtain ⟨y, hy, hky, _⟩ := children_has [d] ks [d, n] n [] hdn (by simp [stripDir])
    simp only [allKeys, streamOf, List.mem_flatMap]
    refine ⟨x, hx, ?_⟩
    simp only [entryKeys, hdir, if_true, List.mem_map, hk]
    exact ⟨y, hy, by simp [joinSlash, hky]⟩

end SwV.Lemmas.C27
