/-
C20 — the operations of the link world, one by one: CreateEntry with a plain entry (with implicit parents), a write
through a linked name, Dir.Link, and the removal of one file name (client unlink / DeleteEntryMetaAndData of a file).
-/
import SwV.Model.C18
import SwV.Lemmas.C18
import SwV.Lemmas.C20
import SwV.Lemmas.C21
import SwV.Lemmas.C20Links
namespace SwV.Lemmas.C20Links
open SwV.Model.C18 SwV.Lemmas.C18 SwV.Lemmas.C20 SwV.Lemmas.C21

/-! ### implicit parent creation only adds names that show nothing -/

theorem shows_ensureParent (e : Entry) (q : RPath) (s : St) (inv : TreeInv s) :
    (∀ a k cs, Shows s a k cs → Shows (ensureParent e q s).1 a k cs) ∧
    (∀ a k cs, Shows (ensureParent e q s).1 a k cs → Shows s a k cs ∨ cs = []) := by
  have M := ensureParent_mono e q s inv
  have N := ensureParent_new_are_dirs e q s inv
  have hkv : ∀ k, kvGet (ensureParent e q s).1 k = kvGet s k := kvGet_congr (ensureParent_frame e q s inv).1
  constructor
  · rintro a k cs ⟨e', hm, hk, hc⟩
    exact ⟨e', M _ hm, hk, by simpa only [hkv] using hc⟩
  · rintro a k cs ⟨e', hm, hk, hc⟩
    rcases N _ hm with h | h
    · exact Or.inl ⟨e', h, hk, by simpa only [hkv] using hc⟩
    · right
      simp only at h
      rcases hc with ⟨_, rfl⟩ | ⟨h0, _⟩
      · exact h.1
      · exact absurd (hk.symm.trans h.2) h0

theorem gcS_of_grow {s s1 s' : St} {E : List Nat} {req : Bool}
    (bwd : ∀ a k cs, Shows s a k cs → Shows s1 a k cs) (h : GcS s1 s' E req) : GcS s s' E req := by
  refine ⟨h.1, h.2.1, fun hr c hc hn => h.2.2 hr c ?_ hn⟩
  rcases hc with ⟨p, k, cs, hs, hcs⟩
  exact ⟨p, k, cs, bwd p k cs hs, hcs⟩

theorem exclL_of_grow {s s1 : St} (ex : ExclL s) (fwd : ∀ a k cs, Shows s1 a k cs → Shows s a k cs ∨ cs = []) : ExclL s1 := by
  intro a b k k' cs cs' ha hb hne hown c hc
  rcases fwd a k cs ha with ha0 | rfl
  · rcases fwd b k' cs' hb with hb0 | rfl
    · exact ex a b k k' cs cs' ha0 hb0 hne hown c hc
    · simp
  · simp at hc

/-! ### CreateEntry with a plain entry, not over a linked name -/

theorem gcS_createEntry_plain {s : St} (inv : TreeInv s) (ex : ExclL s) (p : RPath) (e : Entry) (x : Bool)
    (he : e.hl = 0) (hp : ∀ a, (p, a) ∈ s.ents → a.hl = 0) (fr : FreshL s p e.chunks) (req : Bool) :
    GcS s (createEntry s p e x).1 (createEntry s p e x).2.2 req := by
  unfold createEntry
  cases p with
  | nil => exact gcS_refl ex req
  | cons n par =>
    simp only
    cases hf : find s (n :: par) with
    | none =>
      simp only
      have habs : ∀ y, (n :: par, y) ∉ s.ents := find_none inv hf
      have SH := shows_ensureParent e par s inv
      have I3 := inv_ensureParent e par s inv
      rcases hr : ensureParent e par s with ⟨s1, b⟩
      rw [hr] at SH I3
      simp only at SH I3
      have ex1 : ExclL s1 := exclL_of_grow ex SH.2
      cases b with
      | false => exact gcS_of_grow SH.1 (gcS_refl ex1 req)
      | true =>
        simp only
        have habs1 : ∀ k cs, ¬ Shows s1 (n :: par) k cs := by
          rintro k cs ⟨y, hy, _⟩
          exact habs y ((I3.2.2 (n :: par, y) (by simp)).mp hy)
        have habs0 : ∀ k cs, ¬ Shows s (n :: par) k cs := by
          rintro k cs ⟨y, hy, _⟩
          exact habs y hy
        refine gcS_of_grow SH.1 (gc_put ex1 (fun q k cs => shows_wInsert_plain he q k cs) ?_ ?_ ?_ req)
        · intro k cs h
          exact absurd h (habs1 k cs)
        · intro q k' cs' hq hqp _ c hc
          rcases SH.2 q k' cs' hq with h | rfl
          · exact fr q k' cs' h hqp (fun kp csp hh => absurd hh (habs0 kp csp)) c hc
          · simp
        · intro c
          constructor
          · intro h; cases h
          · rintro ⟨cs, h, _⟩
            exact absurd h (habs1 0 cs)
    | some old =>
      simp only
      rcases find_stored inv hf with ⟨a, hm, _⟩
      have ha0 : a.hl = 0 := hp a hm
      have hoa : old = a := by
        have : find s (n :: par) = some a := by simp [find, lookup_of_mem_nodup inv.nodup hm, ha0]
        rw [hf] at this
        exact Option.some.inj this
      subst hoa
      split
      · exact gcS_refl ex req
      · split
        · exact gcS_refl ex req
        · have hsh : ∀ k cs, Shows s (n :: par) k cs → k = 0 ∧ cs = old.chunks := by
            rintro k cs ⟨y, hy, hk, hc⟩
            have := mem_unique inv.nodup hy hm
            subst this
            have hk0 : k = 0 := hk.symm.trans ha0
            refine ⟨hk0, ?_⟩
            rcases hc with ⟨_, rfl⟩ | ⟨h0, _⟩
            · rfl
            · exact absurd hk0 h0
          refine gc_put ex (fun q k cs => shows_wInsert_plain he q k cs) (fun k cs h => (hsh k cs h).1) fr ?_ req
          intro c
          rw [mem_notNew]
          constructor
          · rintro ⟨h1, h2⟩
            exact ⟨old.chunks, ⟨old, hm, ha0, Or.inl ⟨rfl, rfl⟩⟩, h1, h2⟩
          · rintro ⟨cs, h, h1, h2⟩
            rw [(hsh 0 cs h).2] at h1
            exact ⟨h1, h2⟩

/-! ### a write through a linked name -/

theorem gcS_createEntry_linked {s : St} (inv : TreeInv s) (c : ConsAll s) (ex : ExclL s) (n : String) (par : RPath)
    (a o : Entry) (tag : Nat) (chunks : List Nat)
    (hm : (n :: par, a) ∈ s.ents) (hk : a.hl ≠ 0) (hf : find s (n :: par) = some o) (fr : FreshL s (n :: par) chunks) (req : Bool) :
    GcS s (createEntry s (n :: par) { isDir := false, tag := tag, chunks := chunks, hl := o.hl, cnt := o.cnt } false).1
      (createEntry s (n :: par) { isDir := false, tag := tag, chunks := chunks, hl := o.hl, cnt := o.cnt } false).2.2 req := by
  rcases (find_of_cons inv hm).2 hk (c _ hk) with ⟨r, hg, hfr, hrl, hrf, _⟩
  have ho : o = r := by rw [hf] at hfr; exact Option.some.inj hfr
  subst ho
  generalize hE : ({ isDir := false, tag := tag, chunks := chunks, hl := o.hl, cnt := o.cnt } : Entry) = e
  have hel : e.hl = o.hl := by rw [← hE]
  have hec : e.chunks = chunks := by rw [← hE]
  have hed : e.isDir = false := by rw [← hE]
  have hek : e.hl ≠ 0 := by rw [hel, hrl]; exact hk
  have hcr : createEntry s (n :: par) e false = (wInsert s (n :: par) e, Res.ok, notNew o e) := by
    simp [createEntry, hf, hrf, hed]
  rw [hcr]
  simp only
  rw [← hrl, ← hel] at hg
  have hp : Shows s (n :: par) e.hl o.chunks := ⟨a, hm, by rw [hel, hrl], Or.inr ⟨hek, o, hg, rfl⟩⟩
  refine gc_rec inv ex hek (fun q k' cs => shows_wInsert_linked inv hek hm (by rw [hel, hrl]) hg q k' cs) hp ?_
    (by rw [hec]; exact fr) ?_ req
  · rintro q cs0 ⟨y, _, _, hc⟩
    rcases hc with ⟨h0, _⟩ | ⟨_, r', hr', rfl⟩
    · exact absurd h0 hek
    · rw [hg] at hr'
      cases hr'
      rfl
  · intro ch
    rw [mem_notNew]

/-! ### Dir.Link -/

theorem linkOp_shape {s : St} (inv : TreeInv s) (c : ConsAll s) (src dst : RPath) (h : Nat) (fresh : LinkFresh s src h) :
    ((linkOp s src dst h).1 = s ∧ (linkOp s src dst h).2.2 = []) ∨
    ∃ L k ex o, find s src = some o ∧ (src, ex) ∈ s.ents ∧ k ≠ 0 ∧ L.hl = k ∧ L.chunks = o.chunks ∧
      (ex.hl = k ∨ (ex.hl = 0 ∧ nameCount s.ents k = 0)) ∧
      linkOp s src dst h = (wInsert (wInsert s src L) dst L, Res.ok, []) ∧
      (wInsert (wInsert s src L) dst L).kv = (kvPut (kvPut s k L) k L).kv ∧ (∀ y, (dst, y) ∉ s.ents) ∧ dst ≠ src := by
  unfold linkOp
  cases hf : find s src with
  | none => exact Or.inl ⟨rfl, rfl⟩
  | some o =>
    simp only
    split
    · exact Or.inl ⟨rfl, rfl⟩
    · rename_i hc
      right
      have hfile : o.isDir = false := by
        cases hd : o.isDir with
        | false => rfl
        | true => simp [hd] at hc
      have hto : linkTargetOk s dst = true := by
        cases ht : linkTargetOk s dst with
        | true => rfl
        | false => simp [ht] at hc
      rcases find_stored inv hf with ⟨ex, hm, hk⟩
      have hex : ex.isDir = false := by rw [hk, hfile]
      have hlsrc := lookup_of_mem_nodup inv.nodup hm
      have FC := find_of_cons inv hm
      have hL : ∃ k, k ≠ 0 ∧ (linked o h).hl = k ∧ (linked o h).isDir = false ∧ (ex.hl = k ∨ (ex.hl = 0 ∧ nameCount s.ents k = 0)) := by
        by_cases h0 : ex.hl = 0
        · have ho : o = ex := by
            have := FC.1 h0
            rw [hf] at this
            exact Option.some.inj this
          subst ho
          rcases fresh o hm h0 with ⟨hne, hnone⟩
          have hc0 : nameCount s.ents h = 0 := by
            have := c h hne
            unfold Cons at this
            rw [hnone] at this
            exact this
          exact ⟨h, hne, by simp [linked, h0], by simp [linked, h0, hfile], Or.inr ⟨h0, hc0⟩⟩
        · rcases FC.2 h0 (c _ h0) with ⟨r, hg, hfr, hrl, hrf, hrc⟩
          have ho : o = r := by rw [hf] at hfr; exact Option.some.inj hfr
          subst ho
          have hok : o.hl ≠ 0 := by rw [hrl]; exact h0
          exact ⟨ex.hl, h0, by unfold linked; rw [if_neg hok]; exact hrl, by unfold linked; rw [if_neg hok]; exact hrf, Or.inl rfl⟩
      have hLch : (linked o h).chunks = o.chunks := by unfold linked; split <;> rfl
      rcases hL with ⟨k, hk0, hLk, hLf, hexk⟩
      generalize linked o h = L at hLk hLf hLch
      have hexk' : ex.hl = L.hl ∨ ex.hl = 0 := by
        rcases hexk with h1 | h1
        · exact Or.inl (by rw [hLk]; exact h1)
        · exact Or.inr h1.1
      have inv1 : TreeInv (wInsert s src L) := by
        refine inv_wInsert inv (by simp [hLf]) (inv.parent _ hm).1 (inv.parent _ hm).2 ?_
        intro e1 h1
        rw [mem_unique inv.nodup h1 hm, hex, hLf]
      have hkv1 : (wInsert s src L).kv = (kvPut s k L).kv := by
        rw [← hLk]
        exact kv_wInsert_same s src L ex (by rw [hLk]; exact hk0) hlsrc hexk'
      cases dst with
      | nil => simp [linkTargetOk] at hto
      | cons n par =>
        simp only [linkTargetOk, Bool.and_eq_true, Option.isNone_iff_eq_none] at hto
        have hdne : n :: par ≠ src := by
          intro heq
          rw [heq, hf] at hto
          cases hto.1
        have habs : ∀ y, (n :: par, y) ∉ s.ents := find_none inv hto.1
        have habs1 : ∀ y, (n :: par, y) ∉ (wInsert s src L).ents := by
          intro y hy
          rcases mem_wInsert.mp hy with h1 | ⟨h1, _⟩
          · exact hdne (congrArg Prod.fst h1)
          · exact habs y h1
        have hfind1 : find (wInsert s src L) (n :: par) = none := by
          unfold find
          rw [lookup_none_of_not_mem habs1]
        have hpar : par = [] ∨ ∃ d, find (wInsert s src L) par = some d ∧ d.isDir = true := by
          cases par with
          | nil => exact Or.inl rfl
          | cons m q =>
            right
            have h2 := hto.2
            simp only at h2
            cases hfp : find s (m :: q) with
            | none => simp [hfp] at h2
            | some d =>
              simp [hfp] at h2
              rcases find_stored inv hfp with ⟨d0, hd0, hdk⟩
              have hd0dir : d0.isDir = true := by rw [hdk]; exact h2
              have hne : m :: q ≠ src := by
                intro heq
                rw [heq] at hd0
                rw [mem_unique inv.nodup hd0 hm, hex] at hd0dir
                cases hd0dir
              have hmem : (m :: q, d0) ∈ (wInsert s src L).ents := mem_wInsert.mpr (Or.inr ⟨hd0, hne⟩)
              exact ⟨d0, find_of_lookup_plain (lookup_of_mem_nodup inv1.nodup hmem) (inv.dirNoLink _ hd0 hd0dir), hd0dir⟩
        have hkv2 : (wInsert (wInsert s src L) (n :: par) L).kv = (kvPut (kvPut s k L) k L).kv := by
          have := kv_wInsert_absent (wInsert s src L) (n :: par) L (by rw [hLk]; exact hk0) (lookup_none_of_not_mem habs1)
          rw [this, hLk]
          simp only [kvPut, hkv1]
        refine ⟨L, k, ex, o, rfl, hm, hk0, hLk, hLch, hexk, ?_, hkv2, habs, hdne⟩
        simp only [createEntry, hfind1, ensureParent_present L _ par hpar]

theorem gcS_linkOp {s : St} (inv : TreeInv s) (c : ConsAll s) (ex : ExclL s) (src dst : RPath) (h : Nat)
    (fresh : LinkFresh s src h) (req : Bool) : GcS s (linkOp s src dst h).1 (linkOp s src dst h).2.2 req := by
  rcases linkOp_shape inv c src dst h fresh with ⟨h1, h2⟩ | ⟨L, k, a, o, hf, hm, hk, hL, hLc, hak, heq, hkv, hdst, hne⟩
  · rw [h1, h2]
    exact gcS_refl ex req
  · rw [heq]
    simp only
    have FC := find_of_cons inv hm
    have hsame : ∀ q cs, Shows s q k cs → cs = L.chunks := by
      rintro q cs ⟨y, hy, hyk, hc⟩
      rcases hc with ⟨h0, _⟩ | ⟨_, r', hr', rfl⟩
      · exact absurd h0 hk
      · rcases hak with h1 | ⟨_, h1⟩
        · have hk' : a.hl ≠ 0 := by rw [h1]; exact hk
          rcases FC.2 hk' (c _ hk') with ⟨r, hg, hfr, _⟩
          rw [hf] at hfr
          rw [h1, hr'] at hg
          cases hg
          rw [hLc, Option.some.inj hfr]
        · exact absurd h1 (nameCount_pos_of_mem hy k hyk)
    have hsrc : Shows s src a.hl L.chunks := by
      by_cases h0 : a.hl = 0
      · have := FC.1 h0
        rw [hf] at this
        refine ⟨a, hm, rfl, Or.inl ⟨h0, ?_⟩⟩
        rw [hLc, Option.some.inj this]
      · rcases FC.2 h0 (c _ h0) with ⟨r, hg, hfr, _⟩
        rw [hf] at hfr
        refine ⟨a, hm, rfl, Or.inr ⟨h0, r, hg, ?_⟩⟩
        rw [hLc, Option.some.inj hfr]
    refine gc_link inv ex hk (fun q k' cs => shows_link inv c hk hL hne hdst hkv hsame q k' cs) hsrc ?_ ?_ req
    · rcases hak with h1 | ⟨h1, _⟩
      · exact Or.inl h1
      · exact Or.inr h1
    · rintro k' cs ⟨y, hy, _⟩
      exact hdst y hy

/-! ### one FILE name goes -/

theorem deleteEntry_file_full {s : St} {n : String} {par : RPath} {o : Entry} (hf : find s (n :: par) = some o)
    (hd : o.isDir = false) (r dc : Bool) :
    deleteEntry s (n :: par) r dc = (deleteOne s (n :: par) o, Res.ok, if dc then o.chunks else []) := by
  unfold deleteEntry
  simp only [hf, hd, Bool.false_eq_true, if_false]
  cases dc <;> simp

theorem gcS_deleteFile {s : St} (inv : TreeInv s) (c : ConsAll s) (ex : ExclL s) (n : String) (par : RPath) (a o : Entry)
    (hm : (n :: par, a) ∈ s.ents) (hf : find s (n :: par) = some o) (hd : o.isDir = false) (r dc : Bool)
    (hlast : dc = true → a.hl ≠ 0 → nameCount s.ents a.hl ≤ 1) :
    GcS s (deleteEntry s (n :: par) r dc).1 (deleteEntry s (n :: par) r dc).2.2 dc := by
  rw [deleteEntry_file_full hf hd]
  simp only
  have FC := find_of_cons inv hm
  have hp : Shows s (n :: par) a.hl o.chunks := by
    by_cases h0 : a.hl = 0
    · have := FC.1 h0
      rw [hf] at this
      exact ⟨a, hm, rfl, Or.inl ⟨h0, by rw [Option.some.inj this]⟩⟩
    · rcases FC.2 h0 (c _ h0) with ⟨r', hg, hfr, _⟩
      rw [hf] at hfr
      exact ⟨a, hm, rfl, Or.inr ⟨h0, r', hg, by rw [Option.some.inj hfr]⟩⟩
  refine gc_del inv ex (fun q k' cs => shows_deleteOne inv c hm hf q k' cs) hp ?_ rfl
  rintro hdc hk q cs ⟨y, hy, hyk, _⟩
  cases Classical.em (q = n :: par) with
  | inl h => exact h
  | inr hne =>
    have := two_names inv.nodup hm hy hne rfl hyk
    have := hlast hdc hk
    omega

end SwV.Lemmas.C20Links
