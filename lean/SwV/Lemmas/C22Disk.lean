/-
C22 — lemmas about the persisted-log path (Model/C22Disk): which segment files
`ReadPersistedLogBuffer` reads, when that loses nothing, and the invariant tying the segment files
written by the production flush function to the flat `disk` of the log-buffer model.  Core Lean only.
-/
import SwV.Model.C22Disk
import SwV.Lemmas.C22
namespace SwV.Lemmas.C22
open SwV.Model.C22 SwV.Spec.C22

/-- the file's name sorts before the name computed from the start time `T` -/
def skippedByName (T : Int) (F : Seg) : Bool := keyLt F.day F.hm (dayOf T.toNat) (hmOf T.toNat)

/-- THE EXCLUDED CASE of the disk theorems (= finding ReadPersistedLogBuffer/skips-segment-file-by-name
    when violated): every file whose name sorts before `T`'s minute holds no entry later than `T` -/
def NoStraddle (files : List Seg) (T : Int) : Prop :=
  ∀ F ∈ files, skippedByName T F = true → ∀ t ∈ F.ents, (t : Int) ≤ T

/-- at most 366 day directories from the start date on (one call lists no more) -/
def FewDays (files : List Seg) (T : Int) : Prop :=
  (((files.map (·.day)).filter (fun d => decide (dayOf T.toNat ≤ d))).eraseDups).length ≤ 366

instance (files : List Seg) (T : Int) : Decidable (NoStraddle files T) := by unfold NoStraddle; infer_instance
instance (files : List Seg) (T : Int) : Decidable (FewDays files T) := by unfold FewDays; infer_instance

theorem selected_eq (files : List Seg) (T : Int) (h : FewDays files T) :
    selected files T = files.filter (fun F => !skippedByName T F) := by
  unfold selected listDays
  simp only
  rw [List.take_of_length_le h]
  apply List.filter_congr
  intro F hF
  have hc : ((((files.map (·.day)).filter (fun d => decide (dayOf T.toNat ≤ d))).eraseDups).contains F.day)
      = decide (dayOf T.toNat ≤ F.day) := by
    rw [Bool.eq_iff_iff]
    simp only [List.contains_iff_mem, List.mem_eraseDups, List.mem_filter, List.mem_map, decide_eq_true_eq]
    constructor
    · intro h; exact h.2
    · intro h; exact ⟨⟨F, hF, rfl⟩, h⟩
  rw [hc]
  unfold skippedByName keyLt
  by_cases h1 : dayOf T.toNat ≤ F.day <;> by_cases h2 : F.day = dayOf T.toNat <;> by_cases h3 : F.hm < hmOf T.toNat <;>
    simp [h1, h2, h3] <;> omega

theorem flatMap_filter_skip {α β : Type} (p : α → Bool) (g : α → List β) :
    ∀ (l : List α), (∀ a ∈ l, p a = false → g a = []) → (l.filter p).flatMap g = l.flatMap g := by
  intro l
  induction l with
  | nil => intro _; rfl
  | cons a rest ih =>
    intro h
    have ih' := ih (fun b hb => h b (by simp [hb]))
    by_cases hp : p a = true
    · simp [hp, ih']
    · have hp' : p a = false := by simpa using hp
      simp [hp', ih', h a (by simp) hp']

/-- A. one call of `ReadPersistedLogBuffer` from `T` hands over EXACTLY the persisted entries later
    than `T`, in order — unless a file named before `T`'s minute holds a later entry -/
theorem persistedRead_fst (files : List Seg) (T : Int) (hn : NoStraddle files T) (hd : FewDays files T) :
    (persistedRead files T).1 = expected (persisted files) T := by
  unfold persistedRead expected persisted
  simp only
  rw [selected_eq files T hd, List.filter_flatMap]
  apply flatMap_filter_skip
  intro F hF hs
  have hs' : skippedByName T F = true := by simpa using hs
  unfold readSeg
  rw [List.filter_eq_nil_iff]
  intro t ht
  have := hn F hF hs' t ht
  simp; omega

/-- the minute key is monotone in the timestamp -/
theorem key_mono (x y : Nat) (h : x ≤ y) : keyLt (dayOf y) (hmOf y) (dayOf x) (hmOf x) = false := by
  unfold keyLt dayOf hmOf nsPerMinute minutesPerDay
  have : x / 60000000000 ≤ y / 60000000000 := Nat.div_le_div_right h
  simp; omega

/-- every entry lies in the minute its file is named after -/
def WithinMinute (files : List Seg) : Prop := ∀ F ∈ files, ∀ t ∈ F.ents, dayOf t = F.day ∧ hmOf t = F.hm

instance (files : List Seg) : Decidable (WithinMinute files) := by unfold WithinMinute; infer_instance

/-- a sufficient condition for `NoStraddle` at EVERY start time: no flushed buffer crosses a minute boundary -/
theorem withinMinute_noStraddle (files : List Seg) (h : WithinMinute files) (T : Int) (hT : 0 ≤ T) : NoStraddle files T := by
  intro F hF hs t ht
  obtain ⟨hd, hm⟩ := h F hF t ht
  unfold skippedByName at hs
  rw [← hd, ← hm] at hs
  by_cases hle : (t : Int) ≤ T
  · exact hle
  · have : T.toNat ≤ t := by omega
    have := key_mono T.toNat t this
    rw [this] at hs; cases hs

theorem filter_flatMap_sublist (p : Seg → Bool) : ∀ (l : List Seg), List.Sublist ((l.filter p).flatMap (·.ents)) (l.flatMap (·.ents)) := by
  intro l
  induction l with
  | nil => simp
  | cons a rest ih =>
    by_cases hp : p a = true
    · simp only [List.filter_cons, hp, if_true, List.flatMap_cons]
      exact List.Sublist.append (List.Sublist.refl _) ih
    · have hp' : p a = false := by simpa using hp
      simp only [List.filter_cons, hp', List.flatMap_cons]
      exact List.Sublist.trans ih (List.sublist_append_right _ _)

/-- what the last file read tells about the whole read -/
theorem lastFile_spec (T : Int) (sel : List Seg) (hs : Sorted (sel.flatMap (·.ents))) (hne : ∀ F ∈ sel, F.ents ≠ []) :
    match sel.getLast? with
    | some F => sel.flatMap (readSeg T) ≠ [] → (sel.flatMap (readSeg T)).getLast? = (readSeg T F).getLast? ∧ readSeg T F ≠ []
    | none => sel.flatMap (readSeg T) = [] := by
  cases hl : sel.getLast? with
  | none =>
    have : sel = [] := List.getLast?_eq_none_iff.mp hl
    subst this; rfl
  | some F =>
    obtain ⟨ini, hini⟩ := List.getLast?_eq_some_iff.mp hl
    subst hini
    simp only
    intro hnn
    rw [List.flatMap_append] at hnn hs ⊢
    simp only [List.flatMap_cons, List.flatMap_nil, List.append_nil] at hnn hs ⊢
    have hF : readSeg T F ≠ [] := by
      intro hnil
      rw [hnil, List.append_nil] at hnn
      obtain ⟨x, hx⟩ := List.exists_mem_of_ne_nil _ hnn
      obtain ⟨G, hG, hxG⟩ := List.mem_flatMap.mp hx
      unfold readSeg at hxG
      obtain ⟨hxe, hxT⟩ := List.mem_filter.mp hxG
      obtain ⟨y, hy⟩ := List.exists_mem_of_ne_nil _ (hne F (by simp))
      have hxy : x < y := (List.pairwise_append.mp hs).2.2 x (List.mem_flatMap.mpr ⟨G, hG, hxe⟩) y hy
      have : y ∈ readSeg T F := by
        unfold readSeg
        refine List.mem_filter.mpr ⟨hy, ?_⟩
        simp at hxT ⊢; omega
      rw [hnil] at this; cases this
    refine ⟨?_, hF⟩
    rw [List.getLast?_append]
    cases hg : (readSeg T F).getLast? with
    | none => exact absurd (List.getLast?_eq_none_iff.mp hg) hF
    | some z => rfl

/-- B. the `lastTsNs` returned (that of the LAST file read) is the last entry handed over, and 0 only
    if nothing was handed over -/
theorem persistedRead_snd (files : List Seg) (T : Int) (hs : Sorted (persisted files)) (hne : ∀ F ∈ files, F.ents ≠ [])
    (hpos : ∀ t ∈ persisted files, 0 < t) :
    ((persistedRead files T).1 = [] → (persistedRead files T).2 = 0) ∧
    ((persistedRead files T).1 ≠ [] → (persistedRead files T).1.getLast? = some (persistedRead files T).2 ∧ (persistedRead files T).2 ≠ 0) := by
  have hsub : List.Sublist ((selected files T).flatMap (·.ents)) (persisted files) := by
    unfold selected; exact filter_flatMap_sublist _ files
  have hsel : ∀ F ∈ selected files T, F ∈ files := by
    intro F hF; unfold selected at hF; exact (List.mem_filter.mp hF).1
  have hspec := lastFile_spec T (selected files T) (List.Pairwise.sublist hsub hs) (fun F hF => hne F (hsel F hF))
  unfold persistedRead
  simp only
  cases hl : (selected files T).getLast? with
  | none =>
    rw [hl] at hspec
    simp only at hspec
    exact ⟨fun _ => rfl, fun h => absurd hspec h⟩
  | some F =>
    rw [hl] at hspec
    simp only at hspec ⊢
    constructor
    · intro hnil
      have hFsel : F ∈ selected files T := List.mem_of_getLast? hl
      have : readSeg T F = [] := (List.flatMap_eq_nil_iff.mp hnil) F hFsel
      rw [this]; rfl
    · intro hnn
      obtain ⟨hlast, hF⟩ := hspec hnn
      cases hg : (readSeg T F).getLast? with
      | none => exact absurd (List.getLast?_eq_none_iff.mp hg) hF
      | some z =>
        simp only
        refine ⟨by rw [hlast, hg], ?_⟩
        have hz : z ∈ readSeg T F := List.mem_of_getLast? hg
        have hz' : z ∈ F.ents := (List.mem_filter.mp hz).1
        have : z ∈ persisted files := List.mem_flatMap.mpr ⟨F, hsel F (List.mem_of_getLast? hl), hz'⟩
        have := hpos z this
        omega

-- ---------------------------------------------------------------- the files written by the flush function

def KeyLt (F G : Seg) : Prop := keyLt F.day F.hm G.day G.hm = true

theorem persisted_append (a b : List Seg) : persisted (a ++ b) = persisted a ++ persisted b := by
  simp [persisted]

/-- appending under a name that is not before any existing name lands at the end of the listing -/
theorem appendSeg_spec (d h : Nat) (ents : List Nat) : ∀ (files : List Seg), files.Pairwise KeyLt →
    (∀ F ∈ files, keyLt d h F.day F.hm = false) →
    persisted (appendSeg files d h ents) = persisted files ++ ents ∧
    (appendSeg files d h ents).Pairwise KeyLt ∧
    (∀ G ∈ appendSeg files d h ents, (G ∈ files ∨ (G.day = d ∧ G.hm = h ∧ ∃ pre, G.ents = pre ++ ents)) ∧ keyLt d h G.day G.hm = false) := by
  intro files
  induction files with
  | nil =>
    intro _ _
    refine ⟨by simp [appendSeg, persisted], by simp [appendSeg], ?_⟩
    intro G hG
    simp [appendSeg] at hG
    subst hG
    exact ⟨Or.inr ⟨rfl, rfl, [], rfl⟩, by simp [keyLt]⟩
  | cons F rest ih =>
    intro hp hle
    have hFle := hle F (by simp)
    unfold appendSeg
    by_cases hk : F.day = d ∧ F.hm = h
    · rw [if_pos hk]
      have hrest : rest = [] := by
        cases rest with
        | nil => rfl
        | cons G r2 =>
          exfalso
          have h1 : KeyLt F G := (List.pairwise_cons.mp hp).1 G (by simp)
          have h2 := hle G (by simp)
          unfold KeyLt keyLt at h1
          unfold keyLt at h2
          simp at h1 h2
          omega
      subst hrest
      refine ⟨by simp [persisted], by simp, ?_⟩
      intro G hG
      simp at hG
      subst hG
      exact ⟨Or.inr ⟨hk.1, hk.2, F.ents, rfl⟩, by simpa using hFle⟩
    · rw [if_neg hk, hFle]
      simp only [Bool.false_eq_true, if_false]
      obtain ⟨ih1, ih2, ih3⟩ := ih (List.pairwise_cons.mp hp).2 (fun G hG => hle G (by simp [hG]))
      refine ⟨?_, ?_, ?_⟩
      · have : persisted (F :: appendSeg rest d h ents) = F.ents ++ persisted (appendSeg rest d h ents) := by simp [persisted]
        rw [this, ih1]; simp [persisted]
      · refine List.pairwise_cons.mpr ⟨?_, ih2⟩
        intro G hG
        rcases (ih3 G hG).1 with hm | ⟨hd', hh', _⟩
        · exact (List.pairwise_cons.mp hp).1 G hm
        · unfold KeyLt keyLt
          unfold keyLt at hFle
          simp at hFle ⊢
          omega
      · intro G hG
        rcases List.mem_cons.mp hG with hG | hG
        · subst hG; exact ⟨Or.inl (by simp), hFle⟩
        · obtain ⟨h1, h2⟩ := ih3 G hG
          refine ⟨?_, h2⟩
          rcases h1 with h1 | h1
          · exact Or.inl (by simp [h1])
          · exact Or.inr h1

/-- every sealed buffer waiting for its flush is non-empty and starts at one of its entries
    (`startTime` is the timestamp of the first entry) -/
def QWF (lb : LB) : Prop := ∀ f ∈ lb.queue, ∃ x ∈ f.ents, f.start = (x : Int)

theorem QWF_copyToFlush (s : LB) (hi : LInv s) (hq : QWF s) : QWF (copyToFlush s) := by
  unfold copyToFlush
  by_cases hp : s.cur.pos > 0
  · rw [if_pos hp]
    cases hprev : s.prev with
    | nil => exact hq
    | cons old rest =>
      simp only
      intro f hf
      simp only [List.mem_append, List.mem_singleton] at hf
      rcases hf with hf | hf
      · exact hq f hf
      · subst hf
        simp only
        have hne : s.cur.ents ≠ [] := fun h => by have := hi.curPos.mpr h; omega
        obtain ⟨x, hx, hxs⟩ := hi.curWF.hasStart hne
        have := (hi.curWF.range x hx).1
        exact ⟨x, hx, by omega⟩
  · rw [if_neg hp]; exact hq

theorem QWF_add (s : LB) (ets dlen : Nat) (hi : LInv s) (hq : QWF s) : QWF (add s ets dlen) := by
  have h1 : LInv (stamp s (fixTs s ets)) := LInv_stamp s _ hi (fixTs_gt s ets)
  have hq1 : QWF (stamp s (fixTs s ets)) := by unfold stamp QWF; exact hq
  unfold add
  simp only
  split
  · have : QWF (copyToFlush (stamp s (fixTs s ets))) := QWF_copyToFlush _ h1 hq1
    unfold put rotate QWF; exact this
  · unfold put QWF; exact hq1

/-- the invariant tying the segment files to the log-buffer model -/
structure DInv (d : DLB) : Prop where
  linv : LInv d.lb
  qwf : QWF d.lb
  flat : persisted d.files = d.lb.disk
  keys : d.files.Pairwise KeyLt
  named : ∀ F ∈ d.files, ∃ x ∈ F.ents, F.day = dayOf x ∧ F.hm = hmOf x
  idle : d.lb.inflight = none

theorem DInv.nonempty {d : DLB} (h : DInv d) : ∀ F ∈ d.files, F.ents ≠ [] := by
  intro F hF hnil
  obtain ⟨x, hx, _⟩ := h.named F hF
  rw [hnil] at hx; cases hx

theorem fwrite_log' (s : LB) : (fwrite s).log = s.log ∧ (fwrite s).lastTs = s.lastTs := by
  unfold fwrite; split <;> simp

theorem fack_log' (s : LB) : (fack s).log = s.log ∧ (fack s).lastTs = s.lastTs := by
  unfold fack; split <;> simp

theorem flushOne_log (d : DLB) : (flushOne d).lb.log = d.lb.log ∧ (flushOne d).lb.lastTs = d.lb.lastTs := by
  unfold flushOne
  split
  · simp only; rw [(fack_log' _).1, (fack_log' _).2, (fwrite_log' _).1, (fwrite_log' _).2]; exact ⟨rfl, rfl⟩
  · exact ⟨rfl, rfl⟩

theorem DInv_flushOne (d : DLB) (h : DInv d) : DInv (flushOne d) ∧ (flushOne d).lb.queue.length = d.lb.queue.length - 1 := by
  unfold flushOne
  cases hq : d.lb.queue with
  | nil => rw [h.idle]; simp only; exact ⟨h, by simp [hq]⟩
  | cons f q =>
    rw [h.idle]
    simp only
    have hfw : fwrite d.lb = { d.lb with queue := q, inflight := some f, disk := d.lb.disk ++ f.ents } := by
      unfold fwrite; rw [h.idle, hq]
    have hfa : fack (fwrite d.lb) = { d.lb with queue := q, inflight := none, disk := d.lb.disk ++ f.ents, lastFlush := f.stop } := by
      rw [hfw]; unfold fack; rfl
    have hl2 : LInv (fack (fwrite d.lb)) := LInv_fack _ (LInv_fwrite _ h.linv)
    obtain ⟨x, hx, hxs⟩ := h.qwf f (by rw [hq]; simp)
    have hne : f.ents ≠ [] := fun hn => by rw [hn] at hx; cases hx
    have hsx : f.start.toNat = x := by omega
    -- every persisted entry precedes x
    have hlt : ∀ y ∈ d.lb.disk, y < x := by
      intro y hy
      have hs := h.linv.sorted
      rw [h.linv.dseg, hq, List.append_assoc] at hs
      exact (List.pairwise_append.mp hs).2.2 y hy x (by simp [qflat, List.flatMap_cons, hx])
    have hle : ∀ F ∈ d.files, keyLt (dayOf x) (hmOf x) F.day F.hm = false := by
      intro F hF
      obtain ⟨y, hy, hd, hm⟩ := h.named F hF
      have hyd : y ∈ d.lb.disk := by rw [← h.flat]; exact List.mem_flatMap.mpr ⟨F, hF, hy⟩
      rw [hd, hm]
      exact key_mono y x (Nat.le_of_lt (hlt y hyd))
    obtain ⟨a1, a2, a3⟩ := appendSeg_spec (dayOf x) (hmOf x) f.ents d.files h.keys hle
    have hfiles : logFlush d.files f = appendSeg d.files (dayOf x) (hmOf x) f.ents := by
      unfold logFlush; rw [if_neg hne, hsx]
    refine ⟨⟨hl2, ?_, ?_, ?_, ?_, ?_⟩, ?_⟩
    · rw [hfa]; intro g hg; exact h.qwf g (by rw [hq]; simp at hg ⊢; exact Or.inr hg)
    · simp only; rw [hfiles, a1, h.flat, hfa]
    · simp only; rw [hfiles]; exact a2
    · simp only; rw [hfiles]
      intro G hG
      rcases (a3 G hG).1 with hm | ⟨hd', hh', pre, hpre⟩
      · exact h.named G hm
      · exact ⟨x, by rw [hpre]; simp [hx], hd', hh'⟩
    · rw [hfa]
    · rw [hfa]; simp

theorem DInv_drain : ∀ (n : Nat) (d : DLB), DInv d → n = d.lb.queue.length →
    DInv (drain n d) ∧ (drain n d).lb.queue = [] ∧ (drain n d).lb.log = d.lb.log ∧ (drain n d).lb.lastTs = d.lb.lastTs := by
  intro n
  induction n with
  | zero =>
    intro d h hn
    exact ⟨h, List.eq_nil_of_length_eq_zero hn.symm, rfl, rfl⟩
  | succ n ih =>
    intro d h hn
    obtain ⟨h1, h2⟩ := DInv_flushOne d h
    obtain ⟨i1, i2, i3, i4⟩ := ih (flushOne d) h1 (by omega)
    have := flushOne_log d
    exact ⟨i1, i2, by rw [show drain (n+1) d = drain n (flushOne d) from rfl, i3, this.1],
      by rw [show drain (n+1) d = drain n (flushOne d) from rfl, i4, this.2]⟩

theorem DInv_settle (d : DLB) (h : DInv d) :
    DInv (settle d) ∧ (settle d).lb.queue = [] ∧ (settle d).lb.log = d.lb.log ∧ (settle d).lb.lastTs = d.lb.lastTs :=
  DInv_drain _ d h rfl

theorem copyToFlush_inflight (s : LB) : (copyToFlush s).inflight = s.inflight ∧ (copyToFlush s).disk = s.disk := by
  unfold copyToFlush
  split
  · split <;> exact ⟨rfl, rfl⟩
  · exact ⟨rfl, rfl⟩

theorem add_inflight (s : LB) (ets dlen : Nat) : (add s ets dlen).inflight = s.inflight ∧ (add s ets dlen).disk = s.disk := by
  have hput : ∀ (x : LB) (a b : Nat), (put x a b).inflight = x.inflight ∧ (put x a b).disk = x.disk := fun _ _ _ => ⟨rfl, rfl⟩
  have hrot : ∀ (x : LB) (a b : Nat), (rotate x a b).inflight = (copyToFlush x).inflight ∧ (rotate x a b).disk = (copyToFlush x).disk :=
    fun _ _ _ => ⟨rfl, rfl⟩
  have hst : ∀ (x : LB) (a : Nat), (stamp x a).inflight = x.inflight ∧ (stamp x a).disk = x.disk := fun _ _ => ⟨rfl, rfl⟩
  unfold add
  simp only
  split
  · rw [(hput _ _ _).1, (hput _ _ _).2, (hrot _ _ _).1, (hrot _ _ _).2, (copyToFlush_inflight _).1, (copyToFlush_inflight _).2]
    exact hst _ _
  · rw [(hput _ _ _).1, (hput _ _ _).2]; exact hst _ _

theorem DInv_add (d : DLB) (ets dlen : Nat) (h : DInv d) : DInv { d with lb := add d.lb ets dlen } :=
  ⟨LInv_add _ _ _ h.linv, QWF_add _ _ _ h.linv h.qwf, by simp only; rw [(add_inflight _ _ _).2]; exact h.flat, h.keys, h.named,
    by simp only; rw [(add_inflight _ _ _).1]; exact h.idle⟩

theorem DInv_seal (d : DLB) (h : DInv d) : DInv { d with lb := sealNow d.lb } :=
  ⟨LInv_copyToFlush _ h.linv, QWF_copyToFlush _ h.linv h.qwf, by simp only [sealNow]; rw [(copyToFlush_inflight _).2]; exact h.flat, h.keys, h.named,
    by simp only [sealNow]; rw [(copyToFlush_inflight _).1]; exact h.idle⟩

theorem DInv_init (cfg : Cfg) (h : 0 < cfg.prevCount) : DInv { lb := init cfg } :=
  ⟨LInv_init cfg h, by intro f hf; simp [init] at hf, by simp [persisted, init], by simp, by simp, by simp [init]⟩

end SwV.Lemmas.C22
