/- C06 — kernel check of the decoding-matrix certificates, part 5 (see SwV/Lemmas/C06Certs.lean) -/
import SwV.Model.C06RS
namespace SwV.Lemmas.C06
open SwV.Model.C06
set_option maxRecDepth 100000

theorem certs_chunk_25 : ((certTable.drop (50 * 25)).take 50).all certOk = true := by decide +kernel
theorem certs_chunk_26 : ((certTable.drop (50 * 26)).take 50).all certOk = true := by decide +kernel
theorem certs_chunk_27 : ((certTable.drop (50 * 27)).take 50).all certOk = true := by decide +kernel
theorem certs_chunk_28 : ((certTable.drop (50 * 28)).take 50).all certOk = true := by decide +kernel
theorem certs_chunk_29 : ((certTable.drop (50 * 29)).take 50).all certOk = true := by decide +kernel

end SwV.Lemmas.C06
