/-
C32 — helper lemmas for the last step of the range proof: from the parsed ranges through the decision tree of
`processRange` (ignored / single / multipart / 416) to the spec's `conforms` judgement.
-/
import SwV.Model.C32
import SwV.Spec.C32
namespace SwV.Lemmas.C32
open SwV.Model.C32 SwV.Spec.C32

theorem isDigit_not_sign (c : Char) (h : isDigit c = true) : c ≠ '+' ∧ c ≠ '-' := by
  constructor <;> (intro e; subst e; revert h; decide)

/-- plain digits are read as themselves by the ParseInt model -/
theorem parseInt64_number (s : List Char) (v : Nat) (h : number s = some v) : parseInt64 s = some (v : Int) ∧ v < 2 ^ 63 := by
  unfold number at h
  cases hd : digitsVal s with
  | none => simp [hd] at h
  | some w =>
    simp only [hd] at h
    by_cases hw : w < 2 ^ 63
    · simp only [hw, if_true, Option.some.injEq] at h
      subst h
      refine ⟨?_, hw⟩
      cases s with
      | nil => simp [digitsVal] at hd
      | cons c r =>
        have hc : isDigit c = true := by
          simp only [digitsVal, digitsAcc] at hd
          by_cases hcd : isDigit c = true
          · exact hcd
          · simp [hcd] at hd
        obtain ⟨h1, h2⟩ := isDigit_not_sign c hc
        simp [parseInt64, h1, h2, posOf, hd, hw]
    · simp [hw] at h


/-- a satisfiable element denotes a non-empty range inside the representation -/
theorem satisfy_bounds (N : Nat) (sp : RSpec) (r : Nat × Nat) (h : satisfy N sp = some r) :
    r.1 < N ∧ 0 < r.2 ∧ r.1 + r.2 ≤ N := by
  cases sp with
  | fromTo a b =>
    simp only [satisfy] at h
    by_cases ha : a < N
    · simp only [ha, if_true, Option.some.injEq] at h; subst h; dsimp only; omega
    · simp [ha] at h
  | «from» a =>
    simp only [satisfy] at h
    by_cases ha : a < N
    · simp only [ha, if_true, Option.some.injEq] at h; subst h; dsimp only; omega
    · simp [ha] at h
  | suffix n =>
    simp only [satisfy] at h
    by_cases hz : n = 0 ∨ N = 0
    · simp [hz] at h
    · simp only [hz, if_false, Option.some.injEq] at h; subst h; dsimp only; omega

/-- the ranges kept by `filterMap (satisfy N)` are all inside the representation -/
theorem filterMap_bounds (N : Nat) (specs : List RSpec) :
    ∀ r ∈ specs.filterMap (satisfy N), r.1 < N ∧ 0 < r.2 ∧ r.1 + r.2 ≤ N := by
  intro r hr
  simp only [List.mem_filterMap] at hr
  obtain ⟨sp, _, hs⟩ := hr
  exact satisfy_bounds N sp r hs

/-- when every element is satisfiable nothing is filtered away -/
theorem filterMap_eq_nil_of_all_some (N : Nat) :
    ∀ specs : List RSpec, (∀ sp ∈ specs, (satisfy N sp).isSome) → specs.filterMap (satisfy N) = [] → specs = [] := by
  intro specs hsat he
  cases specs with
  | nil => rfl
  | cons sp rest =>
    have h1 := hsat sp (by simp)
    cases hs : satisfy N sp with
    | none => simp [hs] at h1
    | some r => simp [hs] at he

/-- Seek + CopyN of a positive count = the spec's `bytesOf` -/
theorem slice_eq_bytesOf (R : List Nat) (r : Nat × Nat) (h : 0 < r.2) :
    slice R (toRg r).start (toRg r).length = bytesOf R r := by
  have hh : ¬ (((r.2 : Nat) : Int) ≤ 0 ∨ ((r.1 : Nat) : Int) < 0) := by omega
  unfold slice toRg bytesOf
  rw [if_neg hh]
  simp only [Int.toNat_natCast]

theorem parts_eq (R : List Nat) : ∀ rs : List (Nat × Nat), (∀ r ∈ rs, 0 < r.2) →
    (rs.map toRg).map (fun r => (r, slice R r.start r.length)) = rs.map (fun r => (toRg r, bytesOf R r)) := by
  intro rs h
  induction rs with
  | nil => rfl
  | cons r rest ih =>
    simp only [List.map_cons]
    rw [slice_eq_bytesOf R r (h r (by simp)), ih (fun x hx => h x (by simp [hx]))]

theorem sumLen_map_toRg : ∀ rs : List (Nat × Nat), sumLen (rs.map toRg) = (((rs.map (·.2)).sum : Nat) : Int) := by
  intro rs
  induction rs with
  | nil => rfl
  | cons r rest ih =>
    simp only [sumLen, List.map_cons, List.sum_cons, toRg] at ih ⊢
    rw [ih]; omega

theorem wrap64_id (x : Int) (h0 : -(2 ^ 63) ≤ x) (h1 : x < 2 ^ 63) : wrap64 x = x := by
  unfold wrap64; omega

/-- the int64 sum can only look oversized when the true sum is oversized (N < 2^62) -/
theorem oversized_of_wrapped (N : Nat) (hN : N < 2 ^ 62) (rs : List (Nat × Nat))
    (h : sumRangesSize (rs.map toRg) > (N : Int)) : (rs.map (·.2)).sum > N := by
  unfold sumRangesSize at h
  rw [sumLen_map_toRg] at h
  by_cases hle : (rs.map (·.2)).sum ≤ N
  · rw [wrap64_id _ (by omega) (by omega)] at h
    omega
  · omega

theorem no_start_beyond (N : Nat) (rs : List (Nat × Nat)) (h : ∀ r ∈ rs, r.1 < N) :
    (rs.map toRg).any (fun r => decide (r.start > (N : Int))) = false := by
  rw [List.any_eq_false]
  intro g hg
  simp only [List.mem_map] at hg
  obtain ⟨r, hr, rfl⟩ := hg
  have := h r hr
  simp [toRg]; omega

/-! shapes of `respond` along the branches of `processRange` -/

theorem respond_nil (R : List Nat) : respond [] R = .full R := by
  simp [respond, processRange]

theorem respond_full (h : List Char) (R : List Nat) (gs : List Rg) (he : h ≠ [])
    (hp : parseRange h (R.length : Int) = some gs) (hbig : sumRangesSize gs > (R.length : Int) ∨ gs = []) :
    respond h R = .full R := by
  simp [respond, processRange, he, hp, hbig]

theorem respond_unsat (h : List Char) (R : List Nat) (he : h ≠ []) (hp : parseRange h (R.length : Int) = none) :
    respond h R = .unsat := by
  simp [respond, processRange, he, hp]

theorem respond_single (h : List Char) (R : List Nat) (g : Rg) (he : h ≠ [])
    (hp : parseRange h (R.length : Int) = some [g]) (hbig : ¬ (sumRangesSize [g] > (R.length : Int) ∨ [g] = [])) :
    respond h R = .single g (slice R g.start g.length) := by
  simp only [respond, processRange, he, hp, hbig, if_false]

theorem respond_multi (h : List Char) (R : List Nat) (g1 g2 : Rg) (gs : List Rg) (he : h ≠ [])
    (hp : parseRange h (R.length : Int) = some (g1 :: g2 :: gs))
    (hbig : ¬ (sumRangesSize (g1 :: g2 :: gs) > (R.length : Int) ∨ g1 :: g2 :: gs = []))
    (hany : (g1 :: g2 :: gs).any (fun r => decide (r.start > (R.length : Int))) = false) :
    respond h R = .multi ((g1 :: g2 :: gs).map fun r => (r, slice R r.start r.length)) := by
  simp only [respond, processRange, he, hp, hbig, if_false, hany]
  simp

theorem conforms_multi (R : List Nat) (rs : List (Nat × Nat)) (e : Expected)
    (he : e = .fullOrMulti rs ∨ e = .multi rs) :
    conforms e R (.multi (rs.map fun r => (toRg r, bytesOf R r))) = true := by
  rcases he with rfl | rfl <;> simp [conforms]

def shapeOf (rs : List (Nat × Nat)) : Expected :=
  match rs with
  | [r] => .single r
  | _ => .multi rs

theorem expected_cons (specs : List RSpec) (N : Nat) (hs0 : specs ≠ []) (rs : List (Nat × Nat)) (hrs0 : rs ≠ [])
    (hrs : specs.filterMap (satisfy N) = rs) :
    expected specs N = if (rs.map (·.2)).sum > N then .fullOrMulti rs else shapeOf rs := by
  cases rs with
  | nil => exact absurd rfl hrs0
  | cons r t => cases t <;> simp [expected, hs0, hrs, shapeOf]

/-- LAST STEP, satisfiable side: the header parses to exactly the denoted satisfiable ranges (at least one, unless the
    header has no element at all) ⇒ the answer chosen by `processRange` and filled by `respond` is the expected one -/
theorem respond_conforms_of_parse (h : List Char) (R : List Nat) (specs : List RSpec) (hN : R.length < 2 ^ 62)
    (hnil : h = [] → specs = [])
    (hnil' : specs.filterMap (satisfy R.length) = [] → specs = [])
    (hp : parseRange h (R.length : Int) = some ((specs.filterMap (satisfy R.length)).map toRg)) :
    conforms (expected specs R.length) R (respond h R) = true := by
  have hb := filterMap_bounds R.length specs
  generalize hrs : specs.filterMap (satisfy R.length) = rs at hp hb hnil'
  by_cases he : h = []
  · have := hnil he
    subst this
    subst he
    rw [respond_nil]
    simp [expected, conforms]
  · by_cases hbig : sumRangesSize (rs.map toRg) > (R.length : Int) ∨ rs.map toRg = []
    · rw [respond_full h R _ he hp hbig]
      by_cases hs0 : specs = []
      · simp [hs0, expected, conforms]
      · have hrs0 : rs ≠ [] := fun e => hs0 (hnil' e)
        have hover : (rs.map (·.2)).sum > R.length := by
          rcases hbig with hb1 | hb2
          · exact oversized_of_wrapped R.length hN rs hb1
          · simp at hb2; exact absurd hb2 hrs0
        rw [expected_cons specs R.length hs0 rs hrs0 hrs, if_pos hover]
        simp [conforms]
    · have hs0 : specs ≠ [] := by
        intro e; subst e; simp at hrs; subst hrs; simp at hbig
      have hrs0 : rs ≠ [] := fun e => hs0 (hnil' e)
      rw [expected_cons specs R.length hs0 rs hrs0 hrs]
      cases rs with
      | nil => exact absurd rfl hrs0
      | cons r1 t =>
        cases t with
        | nil =>
          have hr := hb r1 (by simp)
          have hnot : ¬ ([r1].map (·.2)).sum > R.length := by simp; omega
          rw [if_neg hnot, respond_single h R (toRg r1) he hp hbig, slice_eq_bytesOf R r1 hr.2.1]
          simp [conforms, shapeOf]
        | cons r2 rest =>
          have hany := no_start_beyond R.length (r1 :: r2 :: rest) (fun r hr => (hb r hr).1)
          have hparts := parts_eq R (r1 :: r2 :: rest) (fun r hr => (hb r hr).2.1)
          rw [respond_multi h R (toRg r1) (toRg r2) (rest.map toRg) he hp hbig hany]
          rw [show toRg r1 :: toRg r2 :: rest.map toRg = (r1 :: r2 :: rest).map toRg from rfl, hparts]
          apply conforms_multi
          by_cases hover : ((r1 :: r2 :: rest).map (·.2)).sum > R.length
          · rw [if_pos hover]; exact Or.inl rfl
          · rw [if_neg hover]; exact Or.inr rfl  -- shapeOf (r1 :: r2 :: rest) = .multi _ by rfl


/-! ## parseRange on a grammatical header: exactly the satisfiable elements, in order; the others are skipped -/

/-- what `parseOne` yields for an element of the grammar -/
def elemOf (o : Option (Nat × Nat)) : Elem :=
  match o with
  | some r => .range (toRg r)
  | none => .noOverlap

/-- a plain number is neither empty nor signed -/
theorem number_not_signed (s : List Char) (v : Nat) (h : number s = some v) : emptyOrSigned s = false := by
  unfold number at h
  cases hd : digitsVal s with
  | none => simp [hd] at h
  | some w =>
    cases s with
    | nil => simp [digitsVal] at hd
    | cons c r =>
      have hc : isDigit c = true := by
        simp only [digitsVal, digitsAcc] at hd
        by_cases hcd : isDigit c = true
        · exact hcd
        · simp [hcd] at hd
      obtain ⟨_, h2⟩ := isDigit_not_sign c hc
      simp [emptyOrSigned, h2]

/-- MAIN numeric core: a grammatical element is parsed to exactly the (start, length) it denotes when it is satisfiable
    for a representation of N bytes, and skipped (`noOverlap`) when it is not -/
theorem parseOne_denote (ra : List Char) (N : Nat) (sp : RSpec) (hN : N < 2 ^ 62)
    (hd : denoteOne ra = some sp) : parseOne ra (N : Int) = elemOf (satisfy N sp) := by
  unfold denoteOne at hd
  unfold parseOne
  cases hcut : cut '-' ra with
  | none => simp [hcut] at hd
  | some se =>
    obtain ⟨s0, e0⟩ := se
    simp only [hcut] at hd ⊢
    by_cases hs0 : trimSpace s0 = []
    · -- suffix form
      simp only [hs0, if_true] at hd ⊢
      cases hn : number (trimSpace e0) with
      | none => simp [hn] at hd
      | some n =>
        simp only [hn, Option.some.injEq] at hd
        subst hd
        obtain ⟨hp, hlt⟩ := parseInt64_number _ _ hn
        have hsg := number_not_signed _ _ hn
        have hneg : ¬ ((n : Int) < 0) := by omega
        simp only [hp, hsg, Bool.false_eq_true, if_false, hneg]
        simp only [satisfy]
        by_cases hgt : (n : Int) > (N : Int)
        · simp only [hgt, if_true]
          by_cases hN0 : N = 0
          · subst hN0; simp [elemOf]
          · have h1 : ¬ ((N : Int) = 0) := by omega
            have h2 : ¬ (n = 0 ∨ N = 0) := by omega
            have hmin : min n N = N := by omega
            simp only [h1, h2, if_false, hmin, elemOf, toRg]
            have e1 : wrap64 ((N : Int) - (N : Int)) = 0 := by rw [wrap64_id] <;> omega
            rw [e1]
            have e2 : wrap64 ((N : Int) - 0) = (N : Int) := by rw [wrap64_id] <;> omega
            rw [e2]
            simp
        · simp only [hgt, if_false]
          by_cases hn0 : n = 0
          · subst hn0; simp [elemOf]
          · have h1 : ¬ ((n : Int) = 0) := by omega
            have h2 : ¬ (n = 0 ∨ N = 0) := by omega
            have hmin : min n N = n := by omega
            simp only [h1, h2, if_false, hmin, elemOf, toRg]
            have e1 : wrap64 ((N : Int) - (n : Int)) = ((N - n : Nat) : Int) := by rw [wrap64_id] <;> omega
            rw [e1]
            have e2 : wrap64 ((N : Int) - ((N - n : Nat) : Int)) = (n : Int) := by rw [wrap64_id] <;> omega
            rw [e2]
    · -- first-byte-pos form
      simp only [hs0, if_false] at hd ⊢
      cases hn : number (trimSpace s0) with
      | none => simp [hn] at hd
      | some a =>
        simp only [hn] at hd
        obtain ⟨hp, hlt⟩ := parseInt64_number _ _ hn
        have hneg : ¬ ((a : Int) < 0) := by omega
        simp only [hp, hneg, if_false]
        by_cases haN : a < N
        · have hge : ¬ ((a : Int) ≥ (N : Int)) := by omega
          simp only [hge, if_false]
          by_cases he0 : trimSpace e0 = []
          · simp only [he0, if_true, Option.some.injEq] at hd ⊢
            subst hd
            simp only [satisfy, haN, if_true, elemOf, toRg]
            congr 2
            omega
          · simp only [he0, if_false] at hd ⊢
            cases hm : number (trimSpace e0) with
            | none => simp [hm] at hd
            | some b =>
              simp only [hm] at hd
              obtain ⟨hq, hlt2⟩ := parseInt64_number _ _ hm
              simp only [hq]
              by_cases hab : a ≤ b
              · simp only [hab, if_true, Option.some.injEq] at hd
                subst hd
                have h2 : ¬ ((a : Int) > (b : Int)) := by omega
                simp only [h2, if_false, satisfy, haN, if_true, elemOf, toRg]
                by_cases hbN : (b : Int) ≥ (N : Int)
                · simp only [hbN, if_true]
                  have : min b (N - 1) = N - 1 := by omega
                  rw [this]
                  congr 2
                  omega
                · simp only [hbN, if_false]
                  have : min b (N - 1) = b := by omega
                  rw [this]
                  congr 2
                  omega
              · simp [hab] at hd
        · -- first-byte-pos ≥ size: skipped before the last-byte-pos is even looked at
          have hge : ((a : Int) ≥ (N : Int)) := by omega
          simp only [hge, if_true]
          have : satisfy N sp = none := by
            by_cases he0 : trimSpace e0 = []
            · simp only [he0, if_true, Option.some.injEq] at hd; subst hd
              simp [satisfy, haN]
            · simp only [he0, if_false] at hd
              cases hm : number (trimSpace e0) with
              | none => simp [hm] at hd
              | some b =>
                simp only [hm] at hd
                by_cases hab : a ≤ b
                · simp only [hab, if_true, Option.some.injEq] at hd; subst hd
                  simp [satisfy, haN]
                · simp [hab] at hd
          rw [this]; rfl

/-- is some element of the header unsatisfiable (⇒ `noOverlap` is set) -/
def anyUnsat (N : Nat) (specs : List RSpec) : Bool := specs.any fun sp => (satisfy N sp).isNone

/-- the list level: the satisfiable elements, in order, and the flag -/
theorem parsePieces_denote (N : Nat) (hN : N < 2 ^ 62) :
    ∀ (ps : List (List Char)) (specs : List RSpec), denotePieces ps = some specs →
      parsePieces ps (N : Int) = some ((specs.filterMap (satisfy N)).map toRg, anyUnsat N specs) := by
  intro ps
  induction ps with
  | nil => intro specs h; simp [denotePieces] at h; subst h; rfl
  | cons p rest ih =>
    intro specs h
    simp only [denotePieces] at h
    simp only [parsePieces]
    by_cases hb : trimSpace p = []
    · simp only [hb, if_true] at h ⊢
      exact ih specs h
    · simp only [hb, if_false] at h ⊢
      cases hd : denoteOne (trimSpace p) with
      | none => simp [hd] at h
      | some sp =>
        simp only [hd] at h
        cases hr : denotePieces rest with
        | none => simp [hr] at h
        | some sps =>
          simp only [hr, Option.some.injEq] at h
          subst h
          rw [parseOne_denote (trimSpace p) N sp hN hd, ih sps hr]
          cases hs : satisfy N sp with
          | none => simp [elemOf, anyUnsat, hs]
          | some r => simp [elemOf, anyUnsat, hs]

/-- header level, before the last test -/
theorem parseRangeD_denote (h : List Char) (N : Nat) (hN : N < 2 ^ 62) (specs : List RSpec) (hd : denote h = some specs) :
    parseRangeD h (N : Int) = some ((specs.filterMap (satisfy N)).map toRg, anyUnsat N specs) := by
  unfold denote at hd
  unfold parseRangeD
  by_cases he : h = []
  · simp only [he, if_true, Option.some.injEq] at hd ⊢
    subst hd; rfl
  · simp only [he, if_false] at hd ⊢
    cases hp : stripBytesPrefix h with
    | none => simp [hp] at hd
    | some rest =>
      simp only [hp] at hd ⊢
      exact parsePieces_denote N hN _ specs hd

theorem anyUnsat_of_none_left (N : Nat) (specs : List RSpec) (hs0 : specs ≠ [])
    (hnone : specs.filterMap (satisfy N) = []) : anyUnsat N specs = true := by
  cases specs with
  | nil => exact absurd rfl hs0
  | cons sp rest =>
    cases hs : satisfy N sp with
    | none => simp [anyUnsat, hs]
    | some r => simp [hs] at hnone

/-- header level: at least one satisfiable element (or no element at all) ⇒ exactly the satisfiable ranges, in order -/
theorem parseRange_some (h : List Char) (N : Nat) (hN : N < 2 ^ 62) (specs : List RSpec) (hd : denote h = some specs)
    (hne : specs.filterMap (satisfy N) = [] → specs = []) :
    parseRange h (N : Int) = some ((specs.filterMap (satisfy N)).map toRg) := by
  unfold parseRange
  rw [parseRangeD_denote h N hN specs hd]
  by_cases hr : specs.filterMap (satisfy N) = []
  · have := hne hr
    subst this
    simp [anyUnsat]
  · simp [hr]

/-- header level: elements, none of them satisfiable ⇒ errNoOverlap -/
theorem parseRange_none_of_unsat (h : List Char) (N : Nat) (hN : N < 2 ^ 62) (specs : List RSpec)
    (hd : denote h = some specs) (hs0 : specs ≠ []) (hnone : specs.filterMap (satisfy N) = []) :
    parseRange h (N : Int) = none := by
  unfold parseRange
  rw [parseRangeD_denote h N hN specs hd, anyUnsat_of_none_left N specs hs0 hnone, hnone]
  simp

theorem denote_nil_iff (h : List Char) (specs : List RSpec) (hd : denote h = some specs) (he : h = []) : specs = [] := by
  subst he; simp [denote] at hd; exact hd

/-- LAST STEP, 416 side: elements, none of them satisfiable ⇒ 416, which is what is expected -/
theorem respond_conforms_unsat (h : List Char) (R : List Nat) (specs : List RSpec) (hN : R.length < 2 ^ 62)
    (hd : denote h = some specs) (hs0 : specs ≠ [])
    (hnone : specs.filterMap (satisfy R.length) = []) :
    conforms (expected specs R.length) R (respond h R) = true := by
  have he : h ≠ [] := fun e => hs0 (denote_nil_iff h specs hd e)
  rw [respond_unsat h R he (parseRange_none_of_unsat h R.length hN specs hd hs0 hnone)]
  simp [expected, hs0, hnone, conforms]

/-! ## from `conforms` to the complete judge -/

def bnd (N : Nat) (r : Nat × Nat) : Prop := r.1 < N ∧ 0 < r.2 ∧ r.1 + r.2 ≤ N

def bounded (N : Nat) : Expected → Prop
  | .single r => bnd N r
  | .multi rs => ∀ r ∈ rs, bnd N r
  | .fullOrMulti rs => ∀ r ∈ rs, bnd N r
  | _ => True

theorem expected_bounded (specs : List RSpec) (N : Nat) : bounded N (expected specs N) := by
  have hb := filterMap_bounds N specs
  unfold expected
  by_cases hs0 : specs = []
  · simp [hs0, bounded]
  · simp only [hs0, if_false]
    generalize specs.filterMap (satisfy N) = rs at hb
    by_cases hr0 : rs = []
    · simp [hr0, bounded]
    · simp only [hr0, if_false]
      by_cases hover : (rs.map (·.2)).sum > N
      · simp only [hover, if_true, bounded]; exact hb
      · simp only [hover, if_false]
        cases rs with
        | nil => exact absurd rfl hr0
        | cons r t =>
          cases t with
          | nil => simp only [bounded]; exact hb r (by simp)
          | cons r2 t2 => simp only [bounded]; exact hb

theorem okPart_of_bnd (R : List Nat) (r : Nat × Nat) (h : bnd R.length r) :
    (decide (0 ≤ (toRg r).start) && decide (0 < (toRg r).length) && decide ((toRg r).start + (toRg r).length ≤ (R.length : Int)) &&
      bytesOf R r == (R.drop (toRg r).start.toNat).take (toRg r).length.toNat) = true := by
  obtain ⟨h1, h2, h3⟩ := h
  have a1 : (0 : Int) ≤ (r.1 : Int) := by omega
  have a2 : (0 : Int) < (r.2 : Int) := by omega
  have a3 : (r.1 : Int) + (r.2 : Int) ≤ (R.length : Int) := by omega
  simp [toRg, bytesOf, a1, a3, h2]

theorem multi_ok (R : List Nat) : ∀ rs : List (Nat × Nat), (∀ r ∈ rs, bnd R.length r) →
    (rs.map fun r => (toRg r, bytesOf R r)).find? (fun p => decide (p.1.length ≤ 0)) = none ∧
    (rs.map fun r => (toRg r, bytesOf R r)).all (fun p =>
      decide (0 ≤ p.1.start) && decide (0 < p.1.length) && decide (p.1.start + p.1.length ≤ (R.length : Int)) &&
        p.2 == (R.drop p.1.start.toNat).take p.1.length.toNat) = true := by
  intro rs h
  induction rs with
  | nil => simp
  | cons r t ih =>
    have hr := h r (by simp)
    have iht := ih (fun x hx => h x (by simp [hx]))
    have hpos : ¬ ((toRg r).length ≤ 0) := by have := hr.2.1; simp [toRg]; omega
    constructor
    · simp only [List.map_cons, List.find?_cons, hpos, decide_false]; exact iht.1
    · simp only [List.map_cons, List.all_cons, Bool.and_eq_true]
      exact ⟨by simpa [Bool.and_eq_true] using okPart_of_bnd R r hr, iht.2⟩

/-- an answer that conforms to an expectation whose ranges lie inside the content passes the two absolute checks of
    the judge (no empty/negative range, bytes = what Content-Range names) -/
theorem absolute_of_conforms (R : List Nat) (e : Expected) (resp : Response) (hb : bounded R.length e)
    (hc : conforms e R resp = true) : rgNonPositive resp = none ∧ consistent R resp = true := by
  cases resp with
  | full b =>
    cases e <;> simp [conforms] at hc <;> simp [rgNonPositive, consistent, hc]
  | unsat => simp [rgNonPositive, consistent]
  | single g b =>
    cases e <;> simp [conforms] at hc
    rename_i r
    obtain ⟨hg, hbody⟩ := hc
    subst hg; subst hbody
    simp only [bounded] at hb
    have hpos : ¬ ((toRg r).length ≤ 0) := by have := hb.2.1; simp [toRg]; omega
    constructor
    · simp only [rgNonPositive, hpos, if_false]
    · simp only [consistent]; exact okPart_of_bnd R r hb
  | multi ps =>
    cases e <;> simp [conforms] at hc
    all_goals
      rename_i rs
      subst hc
      simp only [bounded] at hb
      have := multi_ok R rs hb
      constructor
      · simp only [rgNonPositive, this.1]; rfl
      · simp only [consistent]; exact this.2

/-- the complete judge passes on an answer that conforms to the expectation of a grammatical header -/
theorem rangeJudge_none_of_conforms (h : List Char) (R : List Nat) (specs : List RSpec) (resp : Response)
    (hd : denote h = some specs) (hc : conforms (expected specs R.length) R resp = true) :
    rangeJudge h R resp = none := by
  have habs := absolute_of_conforms R _ resp (expected_bounded specs R.length) hc
  cases resp with
  | full b =>
    have : (b == R) = true := by simpa [consistent] using habs.2
    simp [rangeJudge, this]
  | unsat => simp [rangeJudge, habs.1, habs.2, hd, hc]
  | single g b => simp [rangeJudge, habs.1, habs.2, hd, hc]
  | multi ps => simp [rangeJudge, habs.1, habs.2, hd, hc]

/-! ## every answer is self-consistent, whatever the header (grammatical or not) -/

/-- a range inside a content of N bytes: non-empty, not beyond the end -/
def inside (N : Int) (r : Rg) : Prop := 0 ≤ r.start ∧ 0 < r.length ∧ r.start + r.length ≤ N

theorem parseOne_inside (ra : List Char) (N : Int) (r : Rg) (h0 : 0 ≤ N) (h1 : N < 2 ^ 63)
    (h : parseOne ra N = .range r) : inside N r := by
  unfold parseOne at h
  cases hcut : cut '-' ra with
  | none => simp [hcut] at h
  | some se =>
    obtain ⟨s0, e0⟩ := se
    simp only [hcut] at h
    by_cases hs0 : trimSpace s0 = []
    · simp only [hs0, if_true] at h
      cases hsg : emptyOrSigned (trimSpace e0) with
      | true => simp [hsg] at h
      | false =>
        simp only [hsg, Bool.false_eq_true, if_false] at h
        cases hp : parseInt64 (trimSpace e0) with
        | none => simp [hp] at h
        | some i =>
          simp only [hp] at h
          by_cases hneg : i < 0
          · simp [hneg] at h
          · simp only [hneg, if_false] at h
            by_cases hgt : i > N
            · simp only [hgt, if_true] at h
              by_cases hz : N = 0
              · simp [hz] at h
              · simp only [hz, if_false, Elem.range.injEq] at h
                subst h
                have e1 : wrap64 (N - N) = 0 := by rw [wrap64_id] <;> omega
                have e2 : wrap64 (N - 0) = N := by rw [wrap64_id] <;> omega
                simp only [inside, e1, e2]; omega
            · simp only [hgt, if_false] at h
              by_cases hz : i = 0
              · simp [hz] at h
              · simp only [hz, if_false, Elem.range.injEq] at h
                subst h
                have e1 : wrap64 (N - i) = N - i := by rw [wrap64_id] <;> omega
                have e2 : wrap64 (N - (N - i)) = i := by rw [wrap64_id] <;> omega
                simp only [inside, e1, e2]; omega
    · simp only [hs0, if_false] at h
      cases hp : parseInt64 (trimSpace s0) with
      | none => simp [hp] at h
      | some i =>
        simp only [hp] at h
        by_cases hneg : i < 0
        · simp [hneg] at h
        · simp only [hneg, if_false] at h
          by_cases hge : i ≥ N
          · simp [hge] at h
          · simp only [hge, if_false] at h
            by_cases he0 : trimSpace e0 = []
            · simp only [he0, if_true, Elem.range.injEq] at h
              subst h; simp only [inside]; omega
            · simp only [he0, if_false] at h
              cases hq : parseInt64 (trimSpace e0) with
              | none => simp [hq] at h
              | some j =>
                simp only [hq] at h
                by_cases hij : i > j
                · simp [hij] at h
                · simp only [hij, if_false] at h
                  by_cases hjN : j ≥ N
                  · simp only [hjN, if_true, Elem.range.injEq] at h
                    subst h; simp only [inside]; omega
                  · simp only [hjN, if_false, Elem.range.injEq] at h
                    subst h; simp only [inside]; omega

theorem parsePieces_inside (N : Int) (h0 : 0 ≤ N) (h1 : N < 2 ^ 63) :
    ∀ (ps : List (List Char)) (rs : List Rg) (no : Bool), parsePieces ps N = some (rs, no) → ∀ r ∈ rs, inside N r := by
  intro ps
  induction ps with
  | nil =>
    intro rs no h
    simp only [parsePieces, Option.some.injEq, Prod.mk.injEq] at h
    obtain ⟨e1, _⟩ := h
    subst e1
    intro r hr; simp at hr
  | cons p rest ih =>
    intro rs no h
    simp only [parsePieces] at h
    by_cases hb : trimSpace p = []
    · simp only [hb, if_true] at h
      exact ih rs no h
    · simp only [hb, if_false] at h
      cases ho : parseOne (trimSpace p) N with
      | invalid => simp [ho] at h
      | noOverlap =>
        simp only [ho] at h
        cases hr : parsePieces rest N with
        | none => simp [hr] at h
        | some q =>
          obtain ⟨rs', no'⟩ := q
          simp only [hr, Option.some.injEq, Prod.mk.injEq] at h
          obtain ⟨e1, _⟩ := h
          subst e1
          exact ih rs' no' hr
      | range g =>
        simp only [ho] at h
        cases hr : parsePieces rest N with
        | none => simp [hr] at h
        | some q =>
          obtain ⟨rs', no'⟩ := q
          simp only [hr, Option.some.injEq, Prod.mk.injEq] at h
          obtain ⟨e1, _⟩ := h
          subst e1
          intro r hr'
          simp only [List.mem_cons] at hr'
          rcases hr' with e | hm
          · subst e; exact parseOne_inside _ N _ h0 h1 ho
          · exact ih rs' no' hr r hm

/-- every range `parseRange` returns is non-empty and lies inside the content -/
theorem parseRange_inside (h : List Char) (N : Int) (h0 : 0 ≤ N) (h1 : N < 2 ^ 63) (rs : List Rg)
    (hp : parseRange h N = some rs) : ∀ r ∈ rs, inside N r := by
  unfold parseRange at hp
  cases hd : parseRangeD h N with
  | none => simp [hd] at hp
  | some q =>
    obtain ⟨rs', no⟩ := q
    simp only [hd] at hp
    have hrs : rs' = rs := by
      by_cases hc : no = true ∧ rs' = []
      · simp [hc] at hp
      · simp only [hc, if_false, Option.some.injEq] at hp; exact hp
    subst hrs
    unfold parseRangeD at hd
    by_cases he : h = []
    · simp only [he, if_true, Option.some.injEq, Prod.mk.injEq] at hd
      intro r hr; simp [hd.1.symm] at hr
    · simp only [he, if_false] at hd
      cases hs : stripBytesPrefix h with
      | none => simp [hs] at hd
      | some rest =>
        simp only [hs] at hd
        exact parsePieces_inside N h0 h1 _ rs' no hd

theorem processRange_single (h : List Char) (N : Int) (r : Rg) (hp : processRange h N = .single r) :
    parseRange h N = some [r] := by
  unfold processRange at hp
  by_cases he : h = []
  · simp [he] at hp
  · simp only [he, if_false] at hp
    cases hq : parseRange h N with
    | none => simp [hq] at hp
    | some rs =>
      simp only [hq] at hp
      by_cases hbig : sumRangesSize rs > N ∨ rs = []
      · simp [hbig] at hp
      · simp only [hbig, if_false] at hp
        cases rs with
        | nil => simp at hbig
        | cons a t =>
          cases t with
          | nil => simp only [Decision.single.injEq] at hp; subst hp; rfl
          | cons b t2 =>
            simp only at hp
            split at hp <;> simp at hp

theorem processRange_multi (h : List Char) (N : Int) (rs : List Rg) (hp : processRange h N = .multi rs) :
    parseRange h N = some rs := by
  unfold processRange at hp
  by_cases he : h = []
  · simp [he] at hp
  · simp only [he, if_false] at hp
    cases hq : parseRange h N with
    | none => simp [hq] at hp
    | some rs' =>
      simp only [hq] at hp
      by_cases hbig : sumRangesSize rs' > N ∨ rs' = []
      · simp [hbig] at hp
      · simp only [hbig, if_false] at hp
        cases rs' with
        | nil => simp at hbig
        | cons a t =>
          cases t with
          | nil => simp at hp
          | cons b t2 =>
            simp only at hp
            split at hp
            · simp at hp
            · simp only [Decision.multi.injEq] at hp; subst hp; rfl

theorem okPart_of_inside (R : List Nat) (r : Rg) (h : inside (R.length : Int) r) :
    (decide (0 ≤ r.start) && decide (0 < r.length) && decide (r.start + r.length ≤ (R.length : Int)) &&
      slice R r.start r.length == (R.drop r.start.toNat).take r.length.toNat) = true := by
  obtain ⟨a1, a2, a3⟩ := h
  have hh : ¬ (r.length ≤ 0 ∨ r.start < 0) := by omega
  simp [slice, hh, a1, a2, a3]

theorem multi_ok_inside (R : List Nat) : ∀ rs : List Rg, (∀ r ∈ rs, inside (R.length : Int) r) →
    (rs.map fun r => (r, slice R r.start r.length)).find? (fun p => decide (p.1.length ≤ 0)) = none ∧
    (rs.map fun r => (r, slice R r.start r.length)).all (fun p =>
      decide (0 ≤ p.1.start) && decide (0 < p.1.length) && decide (p.1.start + p.1.length ≤ (R.length : Int)) &&
        p.2 == (R.drop p.1.start.toNat).take p.1.length.toNat) = true := by
  intro rs h
  induction rs with
  | nil => simp
  | cons r t ih =>
    have hr := h r (by simp)
    have iht := ih (fun x hx => h x (by simp [hx]))
    have hpos : ¬ (r.length ≤ 0) := by have := hr.2.1; omega
    constructor
    · simp only [List.map_cons, List.find?_cons, hpos, decide_false]; exact iht.1
    · simp only [List.map_cons, List.all_cons, Bool.and_eq_true]
      exact ⟨by simpa [Bool.and_eq_true] using okPart_of_inside R r hr, iht.2⟩

/-- whatever the header: no empty or negative range, and every 206 part carries exactly the bytes its Content-Range names,
    which lie inside the content; a 200 carries everything -/
theorem respond_self_consistent (h : List Char) (R : List Nat) (hN : R.length < 2 ^ 63) :
    rgNonPositive (respond h R) = none ∧ consistent R (respond h R) = true := by
  have h0 : (0 : Int) ≤ (R.length : Int) := by omega
  have h1 : (R.length : Int) < 2 ^ 63 := by omega
  unfold respond
  cases hp : processRange h (R.length : Int) with
  | full => simp [rgNonPositive, consistent]
  | unsat => simp [rgNonPositive, consistent]
  | single r =>
    have hin := parseRange_inside h _ h0 h1 _ (processRange_single h _ r hp) r (by simp)
    have hpos : ¬ (r.length ≤ 0) := by have := hin.2.1; omega
    constructor
    · simp only [rgNonPositive, hpos, if_false]
    · simp only [consistent]; exact okPart_of_inside R r hin
  | multi rs =>
    have hin := parseRange_inside h _ h0 h1 _ (processRange_multi h _ rs hp)
    have := multi_ok_inside R rs hin
    constructor
    · simp only [rgNonPositive, this.1]; rfl
    · simp only [consistent]; exact this.2

/-- the judge on a header outside the grammar asks for self-consistency only -/
theorem rangeJudge_none_outside_grammar (h : List Char) (R : List Nat) (resp : Response) (hd : denote h = none)
    (h1 : rgNonPositive resp = none) (h2 : consistent R resp = true) : rangeJudge h R resp = none := by
  cases resp with
  | full b =>
    have : (b == R) = true := by simpa [consistent] using h2
    simp [rangeJudge, this]
  | unsat => simp [rangeJudge, h1, h2, hd]
  | single g b => simp [rangeJudge, h1, h2, hd]
  | multi ps => simp [rangeJudge, h1, h2, hd]

/-! ## Accept-Encoding: the handler's element-wise test implies the spec's acceptance -/

theorem lowerAscii_eq_lower : lowerAscii = lower := by
  funext c; rfl

theorem paramRefuses_eq_qIsZero : paramRefuses = qIsZero := by
  funext p; simp only [paramRefuses, qIsZero, lowerAscii_eq_lower]; rfl

theorem elemAccepts_of_elemLists (e : List Char) (h : elemListsGzip e = true) : elemAcceptsGzip e = true := by
  unfold elemListsGzip at h
  unfold elemAcceptsGzip
  cases hs : splitOn ';' e with
  | nil => simp [hs] at h
  | cons coding params =>
    simp only [hs, Bool.and_eq_true, Bool.or_eq_true, lowerAscii_eq_lower, paramRefuses_eq_qIsZero] at h ⊢
    refine ⟨?_, h.2⟩
    rcases h.1 with h1 | h1
    · exact Or.inl (Or.inl (by simpa [gzipWord] using h1))
    · exact Or.inl (Or.inr h1)

theorem clientAccepts_of_acceptsGzip (ae : List Char) (h : acceptsGzip ae = true) : clientAcceptsGzip ae = true := by
  unfold acceptsGzip at h
  unfold clientAcceptsGzip
  rw [List.any_eq_true] at h ⊢
  obtain ⟨e, he, hl⟩ := h
  exact ⟨e, he, elemAccepts_of_elemLists e hl⟩

end SwV.Lemmas.C32
